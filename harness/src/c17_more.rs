//! C17, second part — the operations that compile for `wide::{f32x4, f32x8, f64x2, f64x4}` components and are not driven by `c17.rs`:
//! the WCAG contrast family (values and masks), the colour-difference metrics, Luma, Cam16 and Cam16-UCS, the remaining
//! `IsWithinBounds`/`Clamp`/operator/arithmetic impls, the colour-theory hue rotations, and the `num`/`angle`/`bool_mask` traits on the
//! wide types themselves.
//!
//! Oracle only (implementation against implementation, no new protocol op): lane i of the SIMD result — values AND masks — equals the
//! scalar result on lane i's inputs.  Same convention as `c17.rs`:
//!   * `E`  = `exact()`: the SIMD code performs the same IEEE operations (+ - * / sqrt abs min max compare select, palette's own lane loops
//!            for cbrt/floor/ceil) in the same order: bit-identical (zeros of either sign are the same number);
//!   * `A(s)` = `approx()`: wide's polynomial pow/sin/cos/atan2/exp/ln instead of libm, unfused mul_add, sqrt(a²+b²) for hypot,
//!            `recip().powu()` for powi: 16 eps of max(s, |result|), s the natural scale of the component; `H` = the same for a hue, on
//!            the circle against 360°.
//!   * masks: every lane all-ones or all-zeros and equal to the scalar `bool`.  For a mask that compares an `approx`-class value with a
//!            threshold the two representations may legitimately answer differently when the value is within its own tolerance of the
//!            threshold; the operation hands over the compared margin (value - threshold), and only then is a mismatch accepted (counted as
//!            `cls:mask-at-threshold-within-tolerance`).  Exact-class masks get no such allowance.
//!   * `cond` (Cam16, CIEDE2000 and what is chained behind several approximated functions): these are not uniformly well-conditioned
//!            (hue of a near-achromatic colour, the t^0.9 of Cam16 next to the gray axis, the documented discontinuities of CIEDE2000 at
//!            |Δh'| = 180°), so the few-ulp differences of the approximated primitives are amplified like few-ulp differences of the
//!            input.  Exactly as `prec_edge` in `c17.rs` does for f32-vs-f64, a lane that misses the plain tolerance is re-judged against
//!            the plain tolerance plus twice the measured conditioning of the scalar function at that lane: the largest change of the
//!            scalar result when one input component moves by 4 ulps or by 4 eps of its natural scale (the output tolerance is absolute at
//!            the natural scale; so is the rounding of the intermediates - a matrix row that cancels, a hue of 90°, a chroma of 30 - which no
//!            ulp-sized change of a small input component reproduces).  Counted as `cls:accepted-by-conditioning:<op>`; the maxima in the
//!            evidence are taken over the lanes that did not need it.
//! (`more_run` takes the two closures as `&dyn Fn`: one instance per SIMD type instead of one per operation - compile time.)
//! Lanes are grouped arbitrarily: the class-sorted strided groups of `c17.rs` (different branches in one vector), and in addition
//! pairs whose operand ORDER differs from lane to lane (lane 2j+1 holds lane 2j's pair swapped), exact ties, one-ulp near-ties, and for the
//! contrast predicates pairs sitting on the 3 / 4.5 / 7 thresholds ± ulps next to pairs far from them.
use crate::c17::{lane_cmp, op_groups, Cmp};
use crate::common::*;
use palette::angle::{AngleEq, FullRotation, HalfRotation, RealAngle, SignedAngle, UnsignedAngle};
use palette::blend::{PreAlpha, Premultiply};
use palette::bool_mask::{BoolMask, HasBoolMask, LazySelect, Select};
use palette::cam16::{BakedParameters, Cam16, Cam16Jch, Cam16Jmh, Cam16Jsh, Cam16Qch, Cam16Qmh, Cam16Qsh, Cam16UcsJab, Cam16UcsJmh, Parameters, StaticWp};
use palette::cast::{self, ArrayCast};
use palette::color_difference::{Ciede2000, DeltaE, EuclideanDistance, HyAb, ImprovedCiede2000, ImprovedDeltaE, Wcag21RelativeContrast};
use palette::color_theory::{Analogous, Complementary, SplitComplementary, Tetradic, Triadic};
use palette::convert::{FromColorUnclamped, IntoColorUnclamped};
use palette::encoding::{Linear, Srgb};
use palette::num::{self, Abs, Arithmetics, Cbrt, Exp, FromScalar, FromScalarArray, Hypot, IntoScalarArray, IsValidDivisor, Ln, MinMax, MulAdd, MulSub, One, PartialCmp, Powf, Powi, Powu, Real, Recip, Round, Signum, Sqrt, Trigonometry, Zero};
use palette::rgb::Rgb;
use palette::white_point::{D50, D65};
use palette::{Alpha, Clamp, ClampAssign, Darken, DarkenAssign, Desaturate, DesaturateAssign, FromColor, GetHue, Hsl, Hsluv, Hsv, Hwb, IntoColor, IsWithinBounds, Lab, Lch, Lchuv, Lighten, LightenAssign, Luv, Mix, MixAssign, Okhsl, Okhsv, Okhwb, Oklab, Oklch, Saturate, SaturateAssign, SetHue, ShiftHue, ShiftHueAssign, WithAlpha, WithHue, Xyz, Yxy};
#[allow(deprecated)]
use palette::{ColorDifference as OldDifference, RelativeContrast as OldContrast};
use std::collections::BTreeMap;
use std::panic::{catch_unwind, AssertUnwindSafe};
use wide::{f32x4, f32x8, f64x2, f64x4};

type RgbS<X> = Rgb<Srgb, X>;
type RgbL<X> = Rgb<Linear<Srgb>, X>;
type HsvS<X> = Hsv<Srgb, X>;
type HslS<X> = Hsl<Srgb, X>;
type HwbS<X> = Hwb<Srgb, X>;
type XyzD<X> = Xyz<D65, X>;
type YxyD<X> = Yxy<D65, X>;
type LabD<X> = Lab<D65, X>;
type LchD<X> = Lch<D65, X>;
type LuvD<X> = Luv<D65, X>;
type LchuvD<X> = Lchuv<D65, X>;
type HsluvD<X> = Hsluv<D65, X>;
type LumaS<X> = palette::luma::Luma<Srgb, X>;
type LumaL<X> = palette::luma::Luma<Linear<D65>, X>;
type LmsB<X> = palette::lms::Lms<palette::lms::matrix::Bradford, X>;

/// tolerance of one output (see the module comment)
#[derive(Clone, Copy)]
pub struct Tol { pub tol: f64, pub scale: f64, pub hue: bool, /// index of the output that is this hue's chroma: not compared when that is exactly 0 in both
    pub chroma: Option<usize> }
const E: Tol = Tol { tol: 0.0, scale: 1.0, hue: false, chroma: None };
#[allow(non_snake_case)]
const fn A(scale: f64) -> Tol { Tol { tol: 16.0, scale, hue: false, chroma: None } }
const H: Tol = Tol { tol: 16.0, scale: 360.0, hue: true, chroma: None };
#[allow(non_snake_case)]
const fn Hc(chroma: usize) -> Tol { Tol { tol: 16.0, scale: 360.0, hue: true, chroma: Some(chroma) } }

pub fn cmp1<T: Fl>(a: T, b: T, t: &Tol) -> (bool, f64) {
    let c = Cmp { tol: t.tol, scale: [t.scale; 4], hue: if t.hue { Some(0) } else { None }, chroma: None };
    lane_cmp(a, b, &c, 0)
}
pub fn dist<T: Fl>(a: T, b: T, t: &Tol) -> f64 { if t.hue { crate::c17::circ(a.to64(), b.to64()) } else { (a.to64() - b.to64()).abs() } }

pub struct Spec<'a> { pub name: &'a str, pub tols: &'a [Tol], /// tolerance of the margins handed over with the masks
    pub mask_tol: Tol, pub cond: bool, /// natural scale of the three input components (both colours)
    pub in_scale: [f64; 3] }

/// natural scale of the components of a pool's space (`natural_scale` of c17.rs, plus the spaces that only occur here)
fn in_scale(pool: &str) -> [f64; 3] {
    let p = pool.strip_prefix("W:").unwrap_or(pool);
    match p { "Cam16Jch" | "Cam16Jmh" | "Cam16Jsh" | "Cam16Qch" | "Cam16Qmh" | "Cam16Qsh" | "Cam16UcsJmh" => [100.0, 100.0, 360.0], "Cam16UcsJab" => [100.0, 50.0, 50.0],
              "Okhsl" | "Okhsv" | "Okhwb" => [360.0, 1.0, 1.0], _ => { let s = crate::c17::natural_scale(p); [s[0], s[1], s[2]] } }
}

type Groups = Vec<(Vec<[f64; 3]>, Vec<[f64; 3]>, Vec<f64>)>;

fn k<X: Real>(v: f64) -> X { X::from_f64(v) }
/// margin of a threshold predicate: value - threshold
fn mg<X: Real + core::ops::Sub<X, Output = X>>(c: X, thr: f64) -> X { c - X::from_f64(thr) }
fn col<C: ArrayCast<Array = [X; 3]>, X>(a: [X; 3]) -> C { cast::from_array(a) }
fn v3<C: ArrayCast<Array = [X; 3]>, X>(c: C) -> Vec<X> { let a: [X; 3] = cast::into_array(c); a.into() }
fn mulk<X: Real + core::ops::Mul<X, Output = X>>(x: X, v: f64) -> X { x * X::from_f64(v) }
fn cat<X>(vs: Vec<Vec<X>>) -> Vec<X> { vs.into_iter().flatten().collect() }
/// in-gamut pool widened so that out-of-bounds and in-bounds lanes sit in the same vector
fn widen(pool: &[[f64; 3]], rng: &mut Rng) -> Vec<[f64; 3]> {
    pool.iter().map(|c| { let mut d = *c; for k in 0..3 { if rng.chance(0.15) { d[k] = match rng.below(3) { 0 => d[k] * 1.5 + rng.range(-0.3, 0.3), 1 => -d[k] * 0.5 - rng.range(0.0, 0.1), _ => d[k] + rng.range(-0.3, 0.3) * d[k].abs().max(1.0) }; } } d }).collect()
}

/// CAM16 viewing conditions: the baked parameters are built once in the SCALAR type (`T::Scalar`) and splatted by palette itself
trait Bk: FromScalar { fn baked() -> BakedParameters<StaticWp<D65>, Self::Scalar>; }
macro_rules! bk { ($($t:ty => $s:ty),*) => { $(impl Bk for $t { fn baked() -> BakedParameters<StaticWp<D65>, $s> { Parameters::<StaticWp<D65>, $s>::default_static_wp(40.0).bake() } })* } }
bk!(f32 => f32, f64 => f64, f32x4 => f32, f32x8 => f32, f64x2 => f64, f64x4 => f64);
fn bk<X: Bk>(_: &X) -> BakedParameters<StaticWp<D65>, X::Scalar> { X::baked() }

/// lane i of the SIMD evaluation (values and masks) against the scalar evaluation on lane i's inputs
fn more_run<T: Fl, V, const N: usize>(out: &mut Out, sp: &Spec, vtag: &str, groups: &Groups,
    fs: &dyn Fn([T; 3], [T; 3], T) -> (Vec<T>, Vec<(bool, T)>), fv: &dyn Fn([V; 3], [V; 3], V) -> (Vec<V>, Vec<(V, V)>))
where V: Copy + FromScalarArray<N, Scalar = T> + IntoScalarArray<N, Scalar = T> {
    let key = format!("{}:{}", sp.name, vtag);
    let ones = if T::TAG == "f32" { 0xffff_ffffu64 } else { u64::MAX };
    for (ga, gb, gp) in groups {
        let la: [[T; 3]; N] = core::array::from_fn(|i| crate::c17::arr_of3::<T>(ga[i]));
        let lb: [[T; 3]; N] = core::array::from_fn(|i| crate::c17::arr_of3::<T>(gb[i]));
        let lp: [T; N] = core::array::from_fn(|i| T::of(gp[i]));
        let r = catch_unwind(AssertUnwindSafe(|| {
            let so: Vec<(Vec<T>, Vec<(bool, T)>)> = (0..N).map(|i| fs(la[i], lb[i], lp[i])).collect();
            let va: [V; 3] = core::array::from_fn(|c| V::from_array(core::array::from_fn(|i| la[i][c])));
            let vb: [V; 3] = core::array::from_fn(|c| V::from_array(core::array::from_fn(|i| lb[i][c])));
            let (vv, vm) = fv(va, vb, V::from_array(lp));
            let vv: Vec<[T; N]> = vv.into_iter().map(|x| x.into_array()).collect();
            let vm: Vec<[T; N]> = vm.into_iter().map(|(m, _)| m.into_array()).collect();
            (so, vv, vm)
        }));
        let (so, vv, vm) = match r { Ok(x) => x, Err(_) => { out.check(false, &format!("no-panic:more:{}", key), || format!("{:?} {:?} {:?}", ga, gb, gp)); continue; } };
        for i in 0..N {
            let (sv, sm) = &so[i];
            if sv.len() != vv.len() || sm.len() != vm.len() || sv.len() != sp.tols.len() { out.check(false, &format!("shape:more:{}", key), || format!("{} values / {} masks scalar, {} / {} simd, {} tolerances", sv.len(), sm.len(), vv.len(), vm.len(), sp.tols.len())); continue; }
            // conditioning of the scalar function at this lane, measured only when a lane misses the plain tolerance
            let mut sens: Option<(Vec<f64>, Vec<f64>)> = None;
            let mut measure = || -> (Vec<f64>, Vec<f64>) {
                let mut sv_s = vec![0.0f64; sv.len()]; let mut sm_s = vec![0.0f64; sm.len()];
                for j in 0..7 { for s in [-4i64, 4, -1, 1] {
                    let (mut a, mut b, mut p) = (la[i], lb[i], lp[i]);
                    // +-4 ulps of the component itself, and +-4 eps of the component's natural scale (what the rounding of an intermediate of natural
                    // magnitude amounts to: a matrix row that cancels, a hue next to 90 degrees, a chroma next to 30)
                    let mv = |x: T, sc: f64| -> T { if s.abs() == 4 { x.nudge(s) } else { T::of(x.to64() + s as f64 * 4.0 * T::eps() * sc) } };
                    if j < 3 { a[j] = mv(a[j], sp.in_scale[j]); } else if j < 6 { b[j - 3] = mv(b[j - 3], sp.in_scale[j - 3]); } else { p = mv(p, 1.0); }
                    if let Ok((qv, qm)) = catch_unwind(AssertUnwindSafe(|| fs(a, b, p))) {
                        for o in 0..sv.len() { let d = dist(qv[o], sv[o], &sp.tols[o]); if d.is_finite() { sv_s[o] = sv_s[o].max(d); } }
                        for o in 0..sm.len() { let d = dist(qm[o].1, sm[o].1, &sp.mask_tol); if d.is_finite() { sm_s[o] = sm_s[o].max(d); } }
                    }
                } }
                (sv_s, sm_s)
            };
            let mut ok = true; let mut worst = 0.0f64; let mut by_cond = false;
            for o in 0..sv.len() {
                let t = &sp.tols[o];
                // a hue whose chroma is zero in both results - to within the tolerance the chroma itself is compared with (exactly zero for an exact-class
                // chroma) - carries no information: its error is (chroma error / chroma) radians
                if let Some(c) = t.chroma { let tc = &sp.tols[c]; let z = tc.tol * T::eps() * tc.scale;
                    if sv[c].to64().abs() <= z && vv[c][i].to64().abs() <= z { out.count("cls:hue-not-compared-at-zero-chroma"); continue; } }
                let (mut good, d) = cmp1(sv[o], vv[o][i], t);
                if !good && sp.cond && t.tol > 0.0 && sv[o].finite() && vv[o][i].finite() {
                    if sens.is_none() { sens = Some(measure()); }
                    let s = sens.as_ref().unwrap().0[o];
                    let sc = if t.hue { 360.0 } else { t.scale.max(sv[o].to64().abs()).max(vv[o][i].to64().abs()) };
                    let dd = dist(sv[o], vv[o][i], t);
                    if dd <= t.tol * T::eps() * sc + 2.0 * s { good = true; by_cond = true; out.maxi(&format!("lane-vs-scalar-eps(lanes judged by conditioning):more:{}:{}", sp.name, T::TAG), dd / (T::eps() * sc));
                        out.maxi(&format!("used-fraction-of-conditioning-allowance:more:{}:{}", sp.name, T::TAG), dd / (t.tol * T::eps() * sc + 2.0 * s));
                        if std::env::var("C17_DEBUG_COND").is_ok() { println!("COND {} out {} lane a {:?} b {:?}: scalar {:?} simd {:?} sens {:e}", key, o, la[i], lb[i], sv[o], vv[o][i], s); } }
                } else if good && d.is_finite() { worst = worst.max(d); }
                ok &= good;
            }
            if by_cond { out.count(&format!("cls:accepted-by-conditioning:{}", sp.name)); }
            out.maxi(&format!("lane-vs-scalar-eps:more:{}:{}", sp.name, T::TAG), worst);
            out.check(ok, &format!("lane=scalar:more:{}", key), || format!("lane {}: a {:?} b {:?} p {:?}: scalar {:?} simd lane {:?}", i, la[i], lb[i], lp[i], sv, vv.iter().map(|x| x[i]).collect::<Vec<T>>()));
            for o in 0..sm.len() {
                let bits = vm[o][i].bits64(); let (want, margin) = sm[o];
                let wellformed = bits == ones || bits == 0;
                let mut good = wellformed && (bits == ones) == want;
                if !good && wellformed && sp.mask_tol.tol > 0.0 && margin.finite() {
                    // the compared value is of the approx class: within its tolerance of the threshold either answer is right
                    let sc = sp.mask_tol.scale.max(margin.to64().abs());
                    let mut allow = sp.mask_tol.tol * T::eps() * sc;
                    if margin.to64().abs() > allow && sp.cond { if sens.is_none() { sens = Some(measure()); } allow += 2.0 * sens.as_ref().unwrap().1[o]; }
                    if margin.to64().abs() <= allow { good = true; out.count("cls:mask-at-threshold-within-tolerance"); }
                }
                out.check(good, &format!("mask-lane=scalar:more:{}", key), || format!("mask {} lane {}: a {:?} b {:?} p {:?}: scalar {} (margin {:?}) mask bits {:x}", o, i, la[i], lb[i], lp[i], want, margin, bits));
                out.count(if want { "cls:more-mask-true-lane" } else { "cls:more-mask-false-lane" });
            }
        }
    }
}

/// `op_groups` of c17.rs (class-sorted strided / random / homogeneous / splat lanes, per-lane parameter of mixed sign) and on top of it:
/// operand order swapped between neighbouring lanes, exact ties and one-ulp near-ties, contrast-threshold pairs
fn pair_groups(space: &str, pool: &[[f64; 3]], n_lanes: usize, rng: &mut Rng, n_groups: usize, plo: f64, phi: f64, out: &mut Out) -> Groups {
    let mut g = op_groups(space, pool, n_lanes, rng, n_groups, plo, phi);
    let unit = space == "Rgb" || space == "RgbL";
    for (gi, (a, b, _)) in g.iter_mut().enumerate() {
        match gi % 8 {
            // lane 2j+1 = lane 2j's pair in the other order: whatever decides "which operand is lighter / larger" differs between lanes
            1 | 4 => { for i in (1..n_lanes).step_by(2) { a[i] = b[i - 1]; b[i] = a[i - 1]; } out.count("cls:more-groups-with-operand-order-swapped-between-lanes"); }
            // ties and near-ties in some lanes, unrelated pairs in the others
            3 => { for i in 0..n_lanes { match rng.below(4) { 0 => b[i] = a[i], 1 => { b[i] = a[i]; let c = rng.below(3) as usize; b[i][c] = nudge32(a[i][c] as f32, if rng.chance(0.5) { 1 } else { -1 }) as f64; }
                                                           2 => { b[i] = a[i]; let c = rng.below(3) as usize; b[i][c] = nudge64(a[i][c], if rng.chance(0.5) { 1 } else { -1 }); } _ => {} } } out.count("cls:more-groups-with-tie-lanes"); }
            // gray pairs whose WCAG contrast (x + 0.05) / (y + 0.05) sits on a threshold +- ulps, in either order, next to other pairs
            6 if unit => { for i in 0..n_lanes { if rng.chance(0.7) {
                    let thr = *rng.pick(&[3.0, 4.5, 7.0, 1.0, 21.0]); let x = a[i][0];
                    let up = thr * (x + 0.05) - 0.05; let dn = (x + 0.05) / thr - 0.05;
                    let y = if up <= 1.0 { up } else if dn >= 0.0 { dn } else { x };
                    let y = match rng.below(5) { 0 => y, 1 => nudge64(y, rng.below(5) as i64 - 2), _ => nudge32(y as f32, rng.below(5) as i32 - 2) as f64 }.clamp(0.0, 1.0);
                    let (p, q) = if rng.chance(0.5) { (x, y) } else { (y, x) };
                    a[i] = [p, p, p]; b[i] = [q, q, q];
                } } out.count("cls:more-groups-with-contrast-threshold-lanes"); }
            _ => {}
        }
    }
    g
}

macro_rules! more4 { ($out:expr, $pools:expr, $rng:expr, $ng:expr, $pool:expr, $name:expr, $tols:expr, $mt:expr, $cond:expr, ($plo:expr, $phi:expr), |$a:ident, $b:ident, $p:ident| $body:expr) => {{
    let tols_: Vec<Tol> = $tols.to_vec(); let tols: &[Tol] = &tols_;
    let sp = Spec { name: $name, tols, mask_tol: $mt, cond: $cond, in_scale: in_scale($pool) };
    let pool: &Vec<[f64; 3]> = &$pools[$pool];
    let g = pair_groups($pool, pool, 4, $rng, $ng, $plo, $phi, $out);
    more_run::<f32, f32x4, 4>($out, &sp, "f32x4", &g, &|$a, $b, $p| $body, &|$a, $b, $p| $body);
    more_run::<f64, f64x4, 4>($out, &sp, "f64x4", &g, &|$a, $b, $p| $body, &|$a, $b, $p| $body);
    let g = pair_groups($pool, pool, 8, $rng, $ng, $plo, $phi, $out);
    more_run::<f32, f32x8, 8>($out, &sp, "f32x8", &g, &|$a, $b, $p| $body, &|$a, $b, $p| $body);
    let g = pair_groups($pool, pool, 2, $rng, $ng, $plo, $phi, $out);
    more_run::<f64, f64x2, 2>($out, &sp, "f64x2", &g, &|$a, $b, $p| $body, &|$a, $b, $p| $body);
    $out.count("cls:more-operations-driven");
    // coverage audit (c17_more2.rs): every lane assignment of two (a, b, p) inputs on different branches / with a special value; own PRNG (a clone),
    // so the random stream of the clauses above is unchanged.  Same tolerances, clause `...:more:pat:<operation>`.
    { let mut prng = $rng.clone(); let th = $ng > 500; let pname = format!("pat:{}", $name);
      let sp = Spec { name: &pname, tols, mask_tol: $mt, cond: $cond, in_scale: in_scale($pool) };
      let g = crate::c17_more2::pattern_op_groups($pool, pool, 4, &mut prng, $plo, $phi, th, $out);
      more_run::<f32, f32x4, 4>($out, &sp, "f32x4", &g, &|$a, $b, $p| $body, &|$a, $b, $p| $body);
      more_run::<f64, f64x4, 4>($out, &sp, "f64x4", &g, &|$a, $b, $p| $body, &|$a, $b, $p| $body);
      let g = crate::c17_more2::pattern_op_groups($pool, pool, 8, &mut prng, $plo, $phi, th, $out);
      more_run::<f32, f32x8, 8>($out, &sp, "f32x8", &g, &|$a, $b, $p| $body, &|$a, $b, $p| $body);
      let g = crate::c17_more2::pattern_op_groups($pool, pool, 2, &mut prng, $plo, $phi, th, $out);
      more_run::<f64, f64x2, 2>($out, &sp, "f64x2", &g, &|$a, $b, $p| $body, &|$a, $b, $p| $body);
      // f32 against f64 on the scalar types for this operation (c17.rs: conversion edges only)
      crate::c17_more2::prec_op($out, &sp, &g, &|$a, $b, $p| $body, &|$a, $b, $p| $body); }
}} }

/// the five WCAG predicates with the margin each one compares (`$c` = the contrast they are derived from)
macro_rules! wcag_masks { ($x:expr, $y:expr, $c:expr) => { vec![
    (Wcag21RelativeContrast::has_min_contrast_text($x.clone(), $y.clone()), mg($c, 4.5)), (Wcag21RelativeContrast::has_min_contrast_large_text($x.clone(), $y.clone()), mg($c, 3.0)),
    (Wcag21RelativeContrast::has_enhanced_contrast_text($x.clone(), $y.clone()), mg($c, 7.0)), (Wcag21RelativeContrast::has_enhanced_contrast_large_text($x.clone(), $y.clone()), mg($c, 4.5)),
    (Wcag21RelativeContrast::has_min_contrast_graphics($x.clone(), $y.clone()), mg($c, 3.0))] } }

// ------------------------------------------------------------------------------------------------------------------
// the `num` / `angle` traits on the wide types themselves: lane i of `V::op(..)` against `T::op(..)` on lane i's operands
// ------------------------------------------------------------------------------------------------------------------

pub trait NumAll: Copy + Real + Zero + One + MinMax + Powu + Trigonometry + Abs + Sqrt + Cbrt + Powf + Powi + Recip + Exp + Hypot + Round + num::Clamp + num::ClampAssign
    + MulAdd + MulSub + Signum + Ln + Arithmetics + PartialCmp + IsValidDivisor + RealAngle + SignedAngle + UnsignedAngle + HalfRotation + FullRotation + AngleEq + core::ops::Neg<Output = Self> {}
impl<X> NumAll for X where X: Copy + Real + Zero + One + MinMax + Powu + Trigonometry + Abs + Sqrt + Cbrt + Powf + Powi + Recip + Exp + Hypot + Round + num::Clamp + num::ClampAssign
    + MulAdd + MulSub + Signum + Ln + Arithmetics + PartialCmp + IsValidDivisor + RealAngle + SignedAngle + UnsignedAngle + HalfRotation + FullRotation + AngleEq + core::ops::Neg<Output = X> {}

/// every operation of palette's numeric traits, written once for the scalar and the SIMD type.
/// (a, b, c): any finite or infinite non-NaN values; lo <= hi; (u, v, w): u in [1e-3, 4], v in [-4 pi, 4 pi], w in [-1, 1]; e: an exponent in [0, 4]
pub fn num_table<X: NumAll>(a: X, b: X, c: X, lo: X, hi: X, u: X, v: X, w: X, e: X, nu: u32, ni: i32) -> (Vec<(&'static str, X, Tol)>, Vec<(&'static str, X::Mask)>) {
    let (mn, mx) = a.min_max(b);
    let (mut c1, mut c2, mut c3) = (a, a, a); num::ClampAssign::clamp_assign(&mut c1, lo, hi); c2.clamp_min_assign(lo); c3.clamp_max_assign(hi);
    let (sn, cs) = v.sin_cos();
    let hund: X = k(100.0);
    let vals = vec![
        // exact class
        ("zero", X::zero(), E), ("one", X::one(), E), ("from_f64(0.1)", k::<X>(0.1), E), ("from_f64(216/24389)", k::<X>(216.0 / 24389.0), E), ("half_rotation", X::half_rotation(), E), ("full_rotation", X::full_rotation(), E),
        ("min", MinMax::min(a, b), E), ("max", MinMax::max(a, b), E), ("min_max.0", mn, E), ("min_max.1", mx, E),
        ("clamp", num::Clamp::clamp(a, lo, hi), E), ("clamp_min", a.clamp_min(lo), E), ("clamp_max", a.clamp_max(hi), E), ("clamp_assign", c1, E), ("clamp_min_assign", c2, E), ("clamp_max_assign", c3, E),
        ("abs", Abs::abs(a), E), ("sqrt", Sqrt::sqrt(Abs::abs(a)), E), ("cbrt", a.cbrt(), E), ("recip", a.recip(), E), ("floor", Round::floor(a), E), ("ceil", Round::ceil(a), E), ("round", Round::round(a), E),
        ("powu", w.powu(nu), E), ("powu(big)", u.powu(nu), E), ("signum", a.signum(), E), ("mul_sub", a.mul_sub(b, c), E),
        ("add", a + b, E), ("sub", a - b, E), ("mul", a * b, E), ("div", a / b, E), ("neg", -a, E), ("add-ref", a + &b, E), ("sub-ref", a - &b, E), ("mul-ref", a * &b, E), ("div-ref", a / &b, E),
        ("normalize_signed_angle", (v * hund).normalize_signed_angle(), E), ("normalize_unsigned_angle", (v * hund).normalize_unsigned_angle(), E),
        // the interval ends themselves: a = 1.8, -1.8, 5.4, 9.0, 3.6, 0, 7.2 .. give exactly 180 + 360 k and 360 k
        ("normalize_signed_angle(ends)", (a * hund).normalize_signed_angle(), E), ("normalize_unsigned_angle(ends)", (a * hund).normalize_unsigned_angle(), E),
        // approx class: wide's own polynomial / formula instead of libm
        ("powf", u.powf(e), A(1.0)), ("powf(<1)", Abs::abs(w).powf(e), A(1.0)), ("powi", u.powi(ni.abs()), A(1.0)), ("powi(negative exponent)", u.powi(-ni.abs()), A(1.0)), ("exp", (v * k::<X>(0.5)).exp(), A(1.0)), ("ln", u.ln(), A(1.0)),
        ("sin", v.sin(), A(1.0)), ("cos", v.cos(), A(1.0)), ("sin_cos.0", sn, A(1.0)), ("sin_cos.1", cs, A(1.0)), ("tan", w.tan(), A(1.0)), ("asin", w.asin(), A(1.0)), ("acos", w.acos(), A(1.0)), ("atan", v.atan(), A(1.0)),
        ("atan2", w.atan2(v), A(1.0)), ("atan2(y,±u)", v.atan2(u * w), A(1.0)),
        ("hypot", v.hypot(w), A(1.0)), ("hypot(100x)", (u * hund).hypot(v * hund), A(100.0)), ("mul_add", v.mul_add(w, u), A(16.0)),
        ("degrees_to_radians", (v * hund).degrees_to_radians(), A(16.0)), ("radians_to_degrees", v.radians_to_degrees(), A(360.0)),
    ];
    let masks = vec![("angle_eq", (a * hund).angle_eq(&(b * hund))), ("angle_eq(+360k)", (v * hund).angle_eq(&(v * hund + k::<X>(360.0) * Round::round(w * k::<X>(3.0))))),
        ("is_valid_divisor(u)", u.is_valid_divisor()), ("lt(lo,hi)", lo.lt(&hi)), ("gt_eq(a,b)", a.gt_eq(&b))];
    (vals, masks)
}

fn num_ops<T, V, const N: usize>(out: &mut Out, vtag: &str, rng: &mut Rng, n: usize)
where T: Fl + NumAll + HasBoolMask<Mask = bool>, V: NumAll + HasBoolMask<Mask = V> + FromScalarArray<N, Scalar = T> + IntoScalarArray<N, Scalar = T> { num_ops_at::<T, V, N>(out, vtag, rng, n, "") }

/// coverage audit (c17_more2.rs): operands (a, w, v, u, e) that replace ONE lane of the random operands - zero of either sign, subnormal, the smallest
/// normal numbers, one, infinities, the thresholds of the piecewise formulas - so that every function of `num/wide.rs` that palette reaches through
/// cbrt / sqrt / powf / recip / ln / atan2 sees each of them at every lane position next to generic lanes (same preconditions as `num_table`)
pub const LANE_SPECIALS: [[f64; 5]; 18] = [
    [0.0, 0.0, 0.0, 1.0, 2.4], [-0.0, -0.0, -0.0, 1.0, 1.0 / 2.4], [0.0, 0.0, 1.0, 1e-3, 0.0], [-0.0, 0.0, -1.0, 4.0, 1.0 / 3.0], [1e-40, 1e-40, 1e-40, 0.04045, 2.4], [-1e-40, -1e-40, -1e-40, 0.0031308, 1.0 / 2.4],
    [1e-310, 1e-310, 1e-310, 216.0 / 24389.0, 3.0], [1.17549435e-38, 1.17549435e-38, 1.17549435e-38, 0.5, 0.5], [2.2250738585072014e-308, 2.2250738585072014e-308, -2.2250738585072014e-308, 2.0, 2.0],
    [1.0, 1.0, std::f64::consts::PI, 1.0, 0.0], [-1.0, -1.0, -std::f64::consts::PI, 1.0, 4.0], [f64::INFINITY, 1.0, std::f64::consts::FRAC_PI_2, 4.0, 4.0], [f64::NEG_INFINITY, -1.0, -std::f64::consts::FRAC_PI_2, 1e-3, 4.0],
    [0.04045, 0.04045, 0.0, 0.04045, 2.4], [216.0 / 24389.0, 0.008856451679035631, -0.0, 0.008856451679035631, 1.0 / 3.0], [8.0, 0.5, 1e-30, 0.2068965517241379, 3.0], [1e-30, 1e-30, -1e-30, 1.0, 0.42], [3.0e38, 0.0, 0.0, 1.0, 0.9]];

pub fn num_ops_at<T, V, const N: usize>(out: &mut Out, vtag: &str, rng: &mut Rng, n: usize, tag: &str)
where T: Fl + NumAll + HasBoolMask<Mask = bool>, V: NumAll + HasBoolMask<Mask = V> + FromScalarArray<N, Scalar = T> + IntoScalarArray<N, Scalar = T> {
    let specials = [0.0, -0.0, 1.0, -1.0, 0.5, -0.5, 1.5, 2.5, -2.5, 3.0, f64::INFINITY, f64::NEG_INFINITY, 1e-40, -1e-40, 1e-310, 1e-30, 3.0e38, -3.0e38, 1.0 + 1e-7, 1.0 + 2e-16, 180.0, -180.0, 360.0, 8388608.5, 4503599627370496.5, 0.49999997, 0.49999999999999994, 1.8, -1.8, 5.4, -5.4, 9.0, 3.6, -3.6, 7.2];
    let exps = [1.0 / 2.4, 2.4, 1.0 / 3.0, 3.0, 0.42, 1.0 / 0.42, 0.9, 0.73, 0.7, 0.275, 2.2, 1.0 / 2.2, 563.0 / 256.0, 1.8, 2.6, 0.45, 0.5, 1.0, 2.0, 0.0];
    let ones = if T::TAG == "f32" { 0xffff_ffffu64 } else { u64::MAX };
    for it in 0..n {
        let g = |rng: &mut Rng| -> f64 { if rng.chance(0.4) { *rng.pick(&specials) } else if rng.chance(0.2) { rng.range(-1000.0, 1000.0) } else { rng.range(-2.0, 2.0) } };
        let a: [T; N] = core::array::from_fn(|_| T::of(g(rng)));
        // operand order / ties mixed across lanes
        let b: [T; N] = core::array::from_fn(|i| if rng.chance(0.2) { a[i] } else if rng.chance(0.2) && a[i].finite() { let q = a[i].nudge(if rng.chance(0.5) { 1 } else { -1 }); if q.finite() { q } else { a[i] } } else { T::of(g(rng)) });
        let c: [T; N] = core::array::from_fn(|_| T::of(g(rng)));
        let bounds: [(T, T); N] = core::array::from_fn(|_| { let (p, q) = (T::of(g(rng)), T::of(g(rng))); if p.to64() <= q.to64() { (p, q) } else { (q, p) } });
        let lo: [T; N] = core::array::from_fn(|i| bounds[i].0); let hi: [T; N] = core::array::from_fn(|i| bounds[i].1);
        let u: [T; N] = core::array::from_fn(|_| T::of(if rng.chance(0.2) { *rng.pick(&[1.0, 1e-3, 4.0, 0.5, 2.0, 0.04045, 0.0031308, 216.0 / 24389.0]) } else if rng.chance(0.5) { rng.range(1e-3, 1.0) } else { rng.range(1.0, 4.0) }));
        let v: [T; N] = core::array::from_fn(|_| T::of(if rng.chance(0.15) { *rng.pick(&[0.0, -0.0, 1.0, -1.0, std::f64::consts::PI, -std::f64::consts::PI, std::f64::consts::FRAC_PI_2, 1e-30, -1e-30]) } else { rng.range(-4.0 * std::f64::consts::PI, 4.0 * std::f64::consts::PI) }));
        let w: [T; N] = core::array::from_fn(|_| T::of(if rng.chance(0.15) { *rng.pick(&[0.0, -0.0, 1.0, -1.0, 0.5, -0.5, 1e-30]) } else { rng.range(-1.0, 1.0) }));
        let e: [T; N] = core::array::from_fn(|_| T::of(if rng.chance(0.6) { *rng.pick(&exps) } else { rng.range(0.0, 4.0) }));
        let nu = rng.below(9) as u32; let ni = rng.below(15) as i32 - 7;
        let (mut a, mut u, mut v, mut w, mut e) = (a, u, v, w, e);
        if !tag.is_empty() { let (lane, s) = (it % N, LANE_SPECIALS[(it / N) % LANE_SPECIALS.len()]); a[lane] = T::of(s[0]); w[lane] = T::of(s[1]); v[lane] = T::of(s[2]); u[lane] = T::of(s[3]); e[lane] = T::of(s[4]); out.count("cls:num-special-lane-cases"); }
        let (a, u, v, w, e) = (a, u, v, w, e);
        let r = catch_unwind(AssertUnwindSafe(|| {
            let so: Vec<_> = (0..N).map(|i| num_table::<T>(a[i], b[i], c[i], lo[i], hi[i], u[i], v[i], w[i], e[i], nu, ni)).collect();
            let (vv, vm) = num_table::<V>(V::from_array(a), V::from_array(b), V::from_array(c), V::from_array(lo), V::from_array(hi), V::from_array(u), V::from_array(v), V::from_array(w), V::from_array(e), nu, ni);
            let vv: Vec<[T; N]> = vv.into_iter().map(|(_, x, _)| x.into_array()).collect(); let vm: Vec<[T; N]> = vm.into_iter().map(|(_, m)| m.into_array()).collect();
            (so, vv, vm)
        }));
        let (so, vv, vm) = match r { Ok(x) => x, Err(_) => { out.check(false, &format!("no-panic:num{}:{}", tag, vtag), || format!("a {:?} b {:?} c {:?} lo {:?} hi {:?}", a, b, c, lo, hi)); continue; } };
        for i in 0..N {
            let (sv, sm) = &so[i];
            for (o, (name, x, t)) in sv.iter().enumerate() {
                let y = vv[o][i];
                let (good, d) = cmp1(*x, y, t);
                if *name == "round" && !good && (a[i].to64() - a[i].to64().trunc()).abs() == 0.5 && (y.to64() - x.to64()).abs() == 1.0 {
                    // wide rounds half to even (the SSE conversion), `f32::round` half away from zero: see the level_note.  Not reachable from a colour operation.
                    out.count("cls:num-round-tie-lane(wide: half to even, scalar: half away from zero)"); continue; }
                if good && d.is_finite() { out.maxi(&format!("lane-vs-scalar-eps:num:{}:{}", name, T::TAG), d); }
                out.check(good, &format!("lane=scalar:num{}:{}:{}", tag, name, vtag), || format!("lane {}: a {:?} b {:?} c {:?} lo {:?} hi {:?} u {:?} v {:?} w {:?} e {:?} nu {} ni {}: scalar {:?} simd lane {:?}", i, a[i], b[i], c[i], lo[i], hi[i], u[i], v[i], w[i], e[i], nu, ni, x, y));
            }
            for (o, (name, want)) in sm.iter().enumerate() {
                let bits = vm[o][i].bits64();
                out.check((bits == ones || bits == 0) && (bits == ones) == *want, &format!("mask-lane=scalar:num{}:{}:{}", tag, name, vtag), || format!("lane {}: a {:?} b {:?} v {:?} w {:?} u {:?}: scalar {} mask bits {:x}", i, a[i], b[i], v[i], w[i], u[i], want, bits));
            }
        }
    }
}

/// `PartialEq` of a SIMD colour (derived through the component type's `PartialEq`) against the lane-wise scalar comparisons
fn eq_all_lanes<T: Fl + PartialEq, V, const N: usize>(out: &mut Out, vtag: &str, rng: &mut Rng, n: usize, pool: &[[f64; 3]])
where V: Copy + PartialEq + FromScalarArray<N, Scalar = T> {
    for it in 0..n {
        let la: [[T; 3]; N] = core::array::from_fn(|_| crate::c17::arr_of3::<T>(pool[rng.below(pool.len() as u64) as usize]));
        // equal in every lane / different in exactly one lane and one component (by one ulp) / unrelated
        let mut lb = la;
        match it % 3 { 0 => {}, 1 => { let (i, c) = (rng.below(N as u64) as usize, rng.below(3) as usize); lb[i][c] = lb[i][c].nudge(1); },
                       _ => { lb = core::array::from_fn(|_| crate::c17::arr_of3::<T>(pool[rng.below(pool.len() as u64) as usize])); } }
        let want = (0..N).all(|i| col::<RgbS<T>, _>(la[i]) == col::<RgbS<T>, _>(lb[i]) && col::<LabD<T>, _>(la[i]) == col::<LabD<T>, _>(lb[i]));
        let va: [V; 3] = core::array::from_fn(|c| V::from_array(core::array::from_fn(|i| la[i][c])));
        let vb: [V; 3] = core::array::from_fn(|c| V::from_array(core::array::from_fn(|i| lb[i][c])));
        let got = col::<RgbS<V>, _>(va) == col::<RgbS<V>, _>(vb); let got2 = col::<LabD<V>, _>(va) == col::<LabD<V>, _>(vb); let ne = col::<RgbS<V>, _>(va) != col::<RgbS<V>, _>(vb);
        out.check(got == want && got2 == want && ne == !want, &format!("eq-all-lanes:{}", vtag), || format!("a {:?} b {:?}: every lane equal {} but simd == gives {} / {} and != gives {}", la, lb, want, got, got2, ne));
        out.count(if want { "cls:eq-all-lanes-true" } else { "cls:eq-all-lanes-false" });
    }
}

pub fn run_more(out: &mut Out, rng: &mut Rng, thorough: bool, ng: usize, pools: &BTreeMap<&'static str, Vec<[f64; 3]>>) {
    let nq = ng / 2;
    // pools of the spaces c17.rs has no pool for, pushed through the scalar f64 implementation
    let mut pools = pools.clone();
    { let bp = <f64 as Bk>::baked();
      let (mut jch, mut jmh, mut jsh, mut qch, mut qmh, mut qsh, mut ujmh, mut ujab) = (vec![], vec![], vec![], vec![], vec![], vec![], vec![], vec![]);
      for x in pools["Xyz"].iter() {
          let c: Cam16<f64> = Cam16::from_xyz(col::<XyzD<f64>, _>(*x), bp); let h = c.hue.into_raw_degrees();
          if ![c.lightness, c.chroma, h, c.brightness, c.colorfulness, c.saturation].iter().all(|v| v.is_finite()) { continue; }
          jch.push([c.lightness, c.chroma, h]); jmh.push([c.lightness, c.colorfulness, h]); jsh.push([c.lightness, c.saturation, h]);
          qch.push([c.brightness, c.chroma, h]); qmh.push([c.brightness, c.colorfulness, h]); qsh.push([c.brightness, c.saturation, h]);
          let u = Cam16UcsJmh::from_color_unclamped(Cam16Jmh::new(c.lightness, c.colorfulness, h)); ujmh.push([u.lightness, u.colorfulness, u.hue.into_raw_degrees()]);
          let j = Cam16UcsJab::from_color_unclamped(u); ujab.push([j.lightness, j.a, j.b]);
      }
      // the gray axis, black, hue sector edges
      for v in [[0.0, 0.0, 0.0], [50.0, 0.0, 0.0], [100.0, 0.0, 0.0], [50.0, 0.0, 120.0], [50.0, 20.0, 0.0], [50.0, 20.0, 360.0], [50.0, 20.0, -90.0], [50.0, 20.0, 180.0], [1e-30, 1e-30, 20.0]] {
          jch.push(v); jmh.push(v); jsh.push(v); qch.push(v); qmh.push(v); qsh.push(v); ujmh.push(v); ujab.push([v[0], v[1], -v[1]]); }
      pools.insert("Cam16Jch", jch); pools.insert("Cam16Jmh", jmh); pools.insert("Cam16Jsh", jsh); pools.insert("Cam16Qch", qch); pools.insert("Cam16Qmh", qmh); pools.insert("Cam16Qsh", qsh);
      pools.insert("Cam16UcsJmh", ujmh); pools.insert("Cam16UcsJab", ujab); }
    let pools = &pools;
    let no = E; // mask tolerance of operations without masks / with exact masks

    // ---- WCAG 2.1 relative luminance / contrast / the five predicates (masks).  `relative_contrast` goes through `MinMax::min_max`:
    // linear RGB and linear luma: + * / min max only -> exact, masks exact
    more4!(out, pools, rng, nq, "RgbL", "wcag21:RgbL", [E, E], no, false, (0.0, 1.0), |a, b, _p| {
        let (x, y): (RgbL<_>, RgbL<_>) = (col(a), col(b)); let c = Wcag21RelativeContrast::relative_contrast(x, y);
        (vec![x.relative_luminance().luma, c], wcag_masks!(x, y, c)) });
    more4!(out, pools, rng, nq, "RgbL", "wcag21:LumaL", [E, E], no, false, (0.0, 1.0), |a, b, _p| {
        let (x, y) = (LumaL::new(a[0]), LumaL::new(b[0])); let c = Wcag21RelativeContrast::relative_contrast(x, y);
        (vec![x.relative_luminance().luma, c], wcag_masks!(x, y, c)) });
    // encoded: the sRGB transfer function (wide's pow) first -> approx; the contrast is a ratio in [1, 21]
    more4!(out, pools, rng, nq, "Rgb", "wcag21:Rgb", [A(1.0), A(1.0)], A(1.0), false, (0.0, 1.0), |a, b, _p| {
        let (x, y): (RgbS<_>, RgbS<_>) = (col(a), col(b)); let c = Wcag21RelativeContrast::relative_contrast(x, y);
        (vec![x.relative_luminance().luma, c], wcag_masks!(x, y, c)) });
    more4!(out, pools, rng, nq, "Rgb", "wcag21:Luma", [A(1.0), A(1.0)], A(1.0), false, (0.0, 1.0), |a, b, _p| {
        let (x, y) = (LumaS::new(a[0]), LumaS::new(b[0])); let c = Wcag21RelativeContrast::relative_contrast(x, y);
        (vec![x.relative_luminance().luma, c], wcag_masks!(x, y, c)) });

    // ---- the deprecated `RelativeContrast` (goes through `contrast_ratio`'s lazy_select on `luma1 > luma2` instead of min_max)
    macro_rules! old_contrast { ($pool:expr, $name:expr, $c:ident, $t:expr) => {
        more4!(out, pools, rng, nq, $pool, concat!("contrast-ratio(deprecated):", $name), [$t], $t, false, (0.0, 1.0), |a, b, _p| {
            let (x, y): ($c<_>, $c<_>) = (col(a), col(b)); let c = OldContrast::get_contrast_ratio(x, y);
            (vec![c], vec![(OldContrast::has_min_contrast_text(x, y), mg(c, 4.5)), (OldContrast::has_min_contrast_large_text(x, y), mg(c, 3.0)), (OldContrast::has_enhanced_contrast_text(x, y), mg(c, 7.0)),
                           (OldContrast::has_enhanced_contrast_large_text(x, y), mg(c, 4.5)), (OldContrast::has_min_contrast_graphics(x, y), mg(c, 3.0))]) });
    } }
    old_contrast!("RgbL", "RgbL", RgbL, E);
    old_contrast!("Rgb", "Rgb", RgbS, A(1.0));
    old_contrast!("Xyz", "Xyz", XyzD, E);
    old_contrast!("Yxy", "Yxy", YxyD, E);
    old_contrast!("Lab", "Lab", LabD, E);
    old_contrast!("Lch", "Lch", LchD, A(1.0));
    old_contrast!("Hsv", "Hsv", HsvS, A(1.0));
    old_contrast!("Hsl", "Hsl", HslS, A(1.0));
    old_contrast!("Hwb", "Hwb", HwbS, A(1.0));
    old_contrast!("Oklab", "Oklab", Oklab, E);
    old_contrast!("Oklch", "Oklch", Oklch, A(1.0));
    more4!(out, pools, rng, nq, "RgbL", "contrast-ratio(deprecated):LumaL", [E, E], no, false, (0.0, 1.0), |a, b, _p| {
        let (x, y) = (LumaL::new(a[0]), LumaL::new(b[0]));
        (vec![OldContrast::get_contrast_ratio(x, y), palette::contrast_ratio(a[1], b[1])], vec![(OldContrast::has_enhanced_contrast_text(x, y), mg(OldContrast::get_contrast_ratio(x, y), 7.0))]) });
    more4!(out, pools, rng, nq, "Rgb", "contrast-ratio(deprecated):Luma", [A(1.0)], A(1.0), false, (0.0, 1.0), |a, b, _p| {
        let (x, y) = (LumaS::new(a[0]), LumaS::new(b[0])); let c = OldContrast::get_contrast_ratio(x, y);
        (vec![c], vec![(OldContrast::has_min_contrast_text(x, y), mg(c, 4.5))]) });

    // ---- Euclidean distance, HyAb, delta E: - * + sqrt abs only -> exact; the "improved" forms raise to a power (wide's pow) -> approx
    macro_rules! euclid { ($pool:expr, $name:expr, $c:ident) => {
        more4!(out, pools, rng, nq, $pool, concat!("distance:", $name), [E, E], no, false, (0.0, 1.0), |a, b, _p| {
            let (x, y): ($c<_>, $c<_>) = (col(a), col(b)); (vec![x.distance_squared(y), x.distance(y)], vec![]) });
    } }
    euclid!("Rgb", "Rgb", RgbS); euclid!("Lab", "Lab", LabD); euclid!("Luv", "Luv", LuvD); euclid!("Xyz", "Xyz", XyzD); euclid!("Yxy", "Yxy", YxyD);
    euclid!("Oklab", "Oklab", Oklab); euclid!("Xyz", "Lms", LmsB); euclid!("Cam16UcsJab", "Cam16UcsJab", Cam16UcsJab);
    more4!(out, pools, rng, nq, "Rgb", "distance:Luma", [E, E], no, false, (0.0, 1.0), |a, b, _p| {
        let (x, y) = (LumaS::new(a[0]), LumaS::new(b[0])); (vec![x.distance_squared(y), x.distance(y)], vec![]) });
    macro_rules! hyab { ($pool:expr, $name:expr, $c:ident) => {
        more4!(out, pools, rng, nq, $pool, concat!("hyab:", $name), [E], no, false, (0.0, 1.0), |a, b, _p| {
            let (x, y): ($c<_>, $c<_>) = (col(a), col(b)); (vec![x.hybrid_distance(y)], vec![]) });
    } }
    hyab!("Lab", "Lab", LabD); hyab!("Luv", "Luv", LuvD); hyab!("Oklab", "Oklab", Oklab); hyab!("Cam16UcsJab", "Cam16UcsJab", Cam16UcsJab);
    // (d²)^0.275 is not Lipschitz at d = 0: for the polar types, whose d² carries the rounding of cos/sin, near-ties are judged with `cond`
    macro_rules! delta_e { ($pool:expr, $name:expr, $c:ident, $t:expr, $scale:expr, $cond:expr) => {
        more4!(out, pools, rng, nq, $pool, concat!("delta_e:", $name), [$t, A($scale)], no, $cond, (0.0, 1.0), |a, b, _p| {
            let (x, y): ($c<_>, $c<_>) = (col(a), col(b)); (vec![x.delta_e(y), x.improved_delta_e(y)], vec![]) });
    } }
    delta_e!("Lab", "Lab", LabD, E, 100.0, false); delta_e!("Lch", "Lch", LchD, A(100.0), 100.0, true);
    delta_e!("Cam16UcsJab", "Cam16UcsJab", Cam16UcsJab, E, 100.0, false); delta_e!("Cam16UcsJmh", "Cam16UcsJmh", Cam16UcsJmh, A(100.0), 100.0, true);

    // ---- CIEDE2000 (atan2, sin, cos, exp, powi(7) = recip-free powu here, 4 nested lazy_select!s; discontinuous at |Δh'| = 180°) -> approx + cond
    macro_rules! ciede { ($pool:expr, $name:expr, $c:ident) => {
        more4!(out, pools, rng, nq, $pool, concat!("ciede2000:", $name), [A(100.0), A(100.0), A(100.0)], no, true, (0.0, 1.0), |a, b, _p| {
            let (x, y): ($c<_>, $c<_>) = (col(a), col(b)); (vec![Ciede2000::difference(x, y), x.improved_difference(y), OldDifference::get_color_difference(x, y)], vec![]) });
    } }
    ciede!("Lab", "Lab", LabD); ciede!("Lch", "Lch", LchD);

    // ---- Luma: conversions from/to Rgb, Xyz, Yxy and between the encodings.  Linear: the matrix row / a copy -> exact; encoded: transfer function -> approx
    macro_rules! to_luma { ($pool:expr, $name:expr, $s:ident, $d:ident, $t:expr) => {
        more4!(out, pools, rng, nq, $pool, concat!("convert:", $name), [$t], no, false, (0.0, 1.0), |a, _b, _p| {
            let x: $s<_> = col(a); let l: $d<_> = x.into_color_unclamped(); (vec![l.luma], vec![]) });
    } }
    macro_rules! from_luma { ($pool:expr, $name:expr, $s:ident, $d:ident, $t:expr) => {
        more4!(out, pools, rng, nq, $pool, concat!("convert:", $name), [$t, $t, $t], no, false, (0.0, 1.0), |a, _b, _p| {
            let c: $d<_> = $s::new(a[0]).into_color_unclamped(); (v3(c), vec![]) });
    } }
    to_luma!("RgbL", "RgbL->LumaL", RgbL, LumaL, E); to_luma!("Rgb", "Rgb->Luma", RgbS, LumaS, A(1.0)); to_luma!("Rgb", "Rgb->LumaL", RgbS, LumaL, A(1.0)); to_luma!("RgbL", "RgbL->Luma", RgbL, LumaS, A(1.0));
    to_luma!("Xyz", "Xyz->LumaL", XyzD, LumaL, E); to_luma!("Xyz", "Xyz->Luma", XyzD, LumaS, A(1.0));
    to_luma!("Yxy", "Yxy->LumaL", YxyD, LumaL, E); to_luma!("Yxy", "Yxy->Luma", YxyD, LumaS, A(1.0));
    from_luma!("RgbL", "LumaL->RgbL", LumaL, RgbL, E); from_luma!("Rgb", "Luma->Rgb", LumaS, RgbS, A(1.0)); from_luma!("RgbL", "LumaL->Rgb", LumaL, RgbS, A(1.0)); from_luma!("Rgb", "Luma->RgbL", LumaS, RgbL, A(1.0));
    from_luma!("RgbL", "LumaL->Xyz", LumaL, XyzD, E); from_luma!("Rgb", "Luma->Xyz", LumaS, XyzD, A(1.0));
    from_luma!("RgbL", "LumaL->Yxy", LumaL, YxyD, E); from_luma!("Rgb", "Luma->Yxy", LumaS, YxyD, A(1.0));
    more4!(out, pools, rng, nq, "Rgb", "convert:Luma<->LumaL", [A(1.0), A(1.0), A(1.0), A(1.0)], no, false, (0.0, 1.0), |a, b, _p| {
        let l: LumaL<_> = LumaS::new(a[0]).into_linear(); let e: LumaS<_> = LumaS::from_linear(LumaL::new(b[0]));
        let l2: LumaL<_> = LumaS::new(a[1]).into_color_unclamped(); let e2: LumaS<_> = LumaL::new(b[1]).into_encoding();
        (vec![l.luma, e.luma, l2.luma, e2.luma], vec![]) });

    // ---- CAM16 (several chained pow, atan2, cos/sin, sqrt; t^0.9 next to the gray axis, hue of near-achromatic colours) -> approx + cond
    macro_rules! full6 { ($c:expr) => {{ let c = $c; vec![c.lightness, c.chroma, c.hue.into_raw_degrees(), c.brightness, c.colorfulness, c.saturation] }} }
    more4!(out, pools, rng, nq, "Xyz", "cam16:Xyz->Cam16", [A(100.0), A(100.0), Hc(1), A(100.0), A(100.0), A(100.0)], no, true, (0.0, 1.0), |a, _b, _p| {
        let x: XyzD<_> = col(a); (full6!(Cam16::from_xyz(x, bk(&a[0]))), vec![]) });
    more4!(out, pools, rng, nq, "Xyz", "cam16:Xyz->Cam16Jmh,Qsh", [A(100.0), A(100.0), Hc(1), A(100.0), A(100.0), Hc(4)], no, true, (0.0, 1.0), |a, _b, _p| {
        let x: XyzD<_> = col(a); let mut v = v3(Cam16Jmh::from_xyz(x, bk(&a[0]))); v.extend(v3(Cam16Qsh::from_xyz(x, bk(&a[0])))); (v, vec![]) });
    macro_rules! cam_partial { ($pool:expr, $c:ident) => {
        more4!(out, pools, rng, nq, $pool, concat!("cam16:", $pool, "->Xyz"), [A(1.0), A(1.0), A(1.0)], no, true, (0.0, 1.0), |a, _b, _p| {
            let c: $c<_> = col(a); (v3(c.into_xyz(bk(&a[0]))), vec![]) });
        more4!(out, pools, rng, nq, $pool, concat!("cam16:", $pool, "->Cam16"), [A(100.0), A(100.0), H, A(100.0), A(100.0), A(100.0)], no, true, (0.0, 1.0), |a, _b, _p| {
            let c: $c<_> = col(a); (full6!(c.into_full(bk(&a[0]))), vec![]) });
    } }
    cam_partial!("Cam16Jch", Cam16Jch); cam_partial!("Cam16Jmh", Cam16Jmh); cam_partial!("Cam16Jsh", Cam16Jsh);
    cam_partial!("Cam16Qch", Cam16Qch); cam_partial!("Cam16Qmh", Cam16Qmh); cam_partial!("Cam16Qsh", Cam16Qsh);
    more4!(out, pools, rng, nq, "Cam16Jch", "cam16:Cam16->Xyz", [A(1.0), A(1.0), A(1.0)], no, true, (0.0, 1.0), |a, b, _p| {
        let c = Cam16 { lightness: a[0], chroma: a[1], hue: a[2].into(), brightness: b[0], colorfulness: b[1], saturation: b[2] }; (v3(c.into_xyz(bk(&a[0]))), vec![]) });
    // CAM16-UCS: ln(1 + 0.0228 M) / exp, cos/sin, hypot/atan2
    more4!(out, pools, rng, nq, "Cam16Jmh", "cam16:Cam16Jmh->UcsJmh(ln)", [A(100.0), A(100.0), E], no, false, (0.0, 1.0), |a, _b, _p| {
        let c: Cam16Jmh<_> = col(a); (v3(Cam16UcsJmh::from_color_unclamped(c)), vec![]) });
    more4!(out, pools, rng, nq, "Cam16UcsJmh", "cam16:UcsJmh->UcsJab", [E, A(100.0), A(100.0)], no, false, (0.0, 1.0), |a, _b, _p| {
        let u: Cam16UcsJmh<_> = col(a); (v3(Cam16UcsJab::from_color_unclamped(u)), vec![]) });
    more4!(out, pools, rng, nq, "Cam16UcsJmh", "cam16:UcsJmh->Cam16Jmh", [A(100.0), A(100.0), E], no, false, (0.0, 1.0), |a, _b, _p| {
        let u: Cam16UcsJmh<_> = col(a); (v3(Cam16Jmh::from_color_unclamped(u)), vec![]) });
    more4!(out, pools, rng, nq, "Cam16UcsJab", "cam16:UcsJab->UcsJmh", [E, A(100.0), Hc(1)], no, false, (0.0, 1.0), |a, _b, _p| {
        let u: Cam16UcsJab<_> = col(a); (v3(Cam16UcsJmh::from_color_unclamped(u)), vec![]) });

    // ---- pools for the remaining spaces (scalar f64 implementation on the RGB pool) and widened pools for bounds/clamp
    let mut pools = pools.clone();
    { let rgb = pools["Rgb"].clone();
      let conv = |f: &dyn Fn([f64; 3]) -> [f64; 3]| -> Vec<[f64; 3]> { rgb.iter().map(|c| f(*c)).filter(|c| c.iter().all(|x| x.is_finite())).collect() };
      pools.insert("Hsluv", conv(&|c| cast::into_array(HsluvD::<f64>::from_color_unclamped(col::<RgbS<f64>, _>(c)))));
      pools.insert("Okhsl", conv(&|c| cast::into_array(Okhsl::<f64>::from_color_unclamped(col::<RgbS<f64>, _>(c)))));
      pools.insert("Okhsv", conv(&|c| cast::into_array(Okhsv::<f64>::from_color_unclamped(col::<RgbS<f64>, _>(c)))));
      pools.insert("Okhwb", conv(&|c| cast::into_array(Okhwb::<f64>::from_color_unclamped(col::<RgbS<f64>, _>(c)))));
      for k in ["Rgb", "Luv", "Lchuv", "Hsluv", "Oklch", "Okhsl", "Okhsv", "Okhwb", "Xyz", "Cam16UcsJab", "Cam16UcsJmh", "Cam16Jch", "Cam16Qsh"] {
          let w = widen(&pools[k], rng); pools.insert(Box::leak(format!("W:{}", k).into_boxed_str()), w); } }
    let pools = &pools;

    // ---- IsWithinBounds (mask) / Clamp / ClampAssign for the colour types c17.rs does not drive: compare, min, max -> exact
    macro_rules! bounds { ($pool:expr, $name:expr, $c:ident) => {
        more4!(out, pools, rng, nq, concat!("W:", $pool), concat!("bounds+clamp:", $name), [E; 6], no, false, (0.0, 1.0), |a, _b, _p| {
            let x: $c<_> = col(a); let mut y = x; y.clamp_assign(); (cat(vec![v3(x.clamp()), v3(y)]), vec![(x.is_within_bounds(), a[0])]) });
    } }
    bounds!("Luv", "Luv", LuvD); bounds!("Lchuv", "Lchuv", LchuvD); bounds!("Hsluv", "Hsluv", HsluvD); bounds!("Oklch", "Oklch", Oklch);
    bounds!("Okhsl", "Okhsl", Okhsl); bounds!("Okhsv", "Okhsv", Okhsv); bounds!("Okhwb", "Okhwb", Okhwb); bounds!("Xyz", "Lms", LmsB);
    bounds!("Cam16UcsJab", "Cam16UcsJab", Cam16UcsJab); bounds!("Cam16UcsJmh", "Cam16UcsJmh", Cam16UcsJmh); bounds!("Cam16Jch", "Cam16Jch", Cam16Jch); bounds!("Cam16Qsh", "Cam16Qsh", Cam16Qsh);
    more4!(out, pools, rng, nq, "W:Rgb", "bounds+clamp:Luma", [E; 2], no, false, (0.0, 1.0), |a, _b, _p| {
        let x = LumaS::new(a[0]); let mut y = x; y.clamp_assign(); (vec![x.clamp().luma, y.luma], vec![(x.is_within_bounds(), a[0])]) });
    more4!(out, pools, rng, nq, "W:Cam16Jch", "bounds+clamp:Cam16", [E; 6], no, false, (0.0, 1.0), |a, b, _p| {
        let x = Cam16 { lightness: a[0], chroma: a[1], hue: a[2].into(), brightness: b[0], colorfulness: b[1], saturation: b[2] }; (full6!(x.clamp()), vec![(x.is_within_bounds(), a[0])]) });
    // Alpha<C, T>: the alpha component is checked/clamped with the colour (per-lane alpha below 0 / inside / above 1)
    more4!(out, pools, rng, nq, "W:Rgb", "bounds+clamp:Alpha<Rgb>", [E; 8], no, false, (-0.5, 1.5), |a, _b, p| {
        let x = Alpha { color: col::<RgbS<_>, _>(a), alpha: p }; let c = x.clamp(); let mut y = x; y.clamp_assign();
        (cat(vec![v3(c.color), vec![c.alpha], v3(y.color), vec![y.alpha]]), vec![(x.is_within_bounds(), p)]) });

    // ---- Lighten / Darken (relative, fixed, assigning) with per-lane factors of mixed sign
    macro_rules! light { ($pool:expr, $name:expr, $c:ident) => {
        more4!(out, pools, rng, nq, $pool, concat!("lighten+darken(all forms):", $name), [E; 24], no, false, (-1.0, 1.0), |a, _b, p| {
            let x: $c<_> = col(a); let q = mulk(p, 37.0); let (mut l, mut d, mut lf, mut df) = (x, x, x, x);
            l.lighten_assign(p); d.darken_assign(p); lf.lighten_fixed_assign(q); df.darken_fixed_assign(q);
            (cat(vec![v3(Lighten::lighten(x, p)), v3(Darken::darken(x, p)), v3(x.lighten_fixed(p)), v3(x.darken_fixed(q)), v3(l), v3(d), v3(lf), v3(df)]), vec![]) });
    } }
    light!("Rgb", "Rgb", RgbS); light!("Hsl", "Hsl", HslS); light!("Hsv", "Hsv", HsvS); light!("Hwb", "Hwb", HwbS); light!("Lab", "Lab", LabD); light!("Lch", "Lch", LchD);
    light!("Luv", "Luv", LuvD); light!("Lchuv", "Lchuv", LchuvD); light!("Hsluv", "Hsluv", HsluvD); light!("Oklab", "Oklab", Oklab); light!("Oklch", "Oklch", Oklch);
    light!("Okhsl", "Okhsl", Okhsl); light!("Okhsv", "Okhsv", Okhsv); light!("Okhwb", "Okhwb", Okhwb); light!("Xyz", "Xyz", XyzD); light!("Yxy", "Yxy", YxyD);
    light!("Cam16UcsJab", "Cam16UcsJab", Cam16UcsJab); light!("Cam16UcsJmh", "Cam16UcsJmh", Cam16UcsJmh);
    more4!(out, pools, rng, nq, "Rgb", "lighten+darken(all forms):Luma", [E; 4], no, false, (-1.0, 1.0), |a, _b, p| {
        let x = LumaS::new(a[0]); let mut l = x; l.lighten_fixed_assign(p); (vec![Lighten::lighten(x, p).luma, Darken::darken(x, p).luma, x.darken_fixed(p).luma, l.luma], vec![]) });
    // ---- Saturate / Desaturate
    macro_rules! satur { ($pool:expr, $name:expr, $c:ident) => {
        more4!(out, pools, rng, nq, $pool, concat!("saturate+desaturate(all forms):", $name), [E; 24], no, false, (-1.0, 1.0), |a, _b, p| {
            let x: $c<_> = col(a); let q = mulk(p, 37.0); let (mut l, mut d, mut lf, mut df) = (x, x, x, x);
            l.saturate_assign(p); d.desaturate_assign(p); lf.saturate_fixed_assign(q); df.desaturate_fixed_assign(q);
            (cat(vec![v3(x.saturate(p)), v3(x.desaturate(p)), v3(x.saturate_fixed(p)), v3(x.desaturate_fixed(q)), v3(l), v3(d), v3(lf), v3(df)]), vec![]) });
    } }
    satur!("Hsl", "Hsl", HslS); satur!("Hsv", "Hsv", HsvS); satur!("Lch", "Lch", LchD); satur!("Lchuv", "Lchuv", LchuvD); satur!("Hsluv", "Hsluv", HsluvD);
    satur!("Okhsl", "Okhsl", Okhsl); satur!("Okhsv", "Okhsv", Okhsv); satur!("Cam16UcsJmh", "Cam16UcsJmh", Cam16UcsJmh);
    // ---- Mix / MixAssign (factor clamped to [0,1] per lane; hue types take the shorter arc per lane)
    macro_rules! mixop { ($pool:expr, $name:expr, $c:ident) => {
        more4!(out, pools, rng, nq, $pool, concat!("mix+mix_assign:", $name), [E; 6], no, false, (-0.5, 1.5), |a, b, p| {
            let (x, y): ($c<_>, $c<_>) = (col(a), col(b)); let mut z = x; z.mix_assign(y, p); (cat(vec![v3(x.mix(y, p)), v3(z)]), vec![]) });
    } }
    mixop!("Luv", "Luv", LuvD); mixop!("Oklab", "Oklab", Oklab); mixop!("Yxy", "Yxy", YxyD); mixop!("Xyz", "Lms", LmsB); mixop!("Cam16UcsJab", "Cam16UcsJab", Cam16UcsJab);
    mixop!("Hsl", "Hsl", HslS); mixop!("Hwb", "Hwb", HwbS); mixop!("Lchuv", "Lchuv", LchuvD); mixop!("Hsluv", "Hsluv", HsluvD); mixop!("Oklch", "Oklch", Oklch);
    mixop!("Okhsl", "Okhsl", Okhsl); mixop!("Okhsv", "Okhsv", Okhsv); mixop!("Okhwb", "Okhwb", Okhwb); mixop!("Cam16UcsJmh", "Cam16UcsJmh", Cam16UcsJmh); mixop!("Cam16Jch", "Cam16Jch", Cam16Jch);
    more4!(out, pools, rng, nq, "Rgb", "mix+mix_assign:Luma,Alpha<Rgb>", [E; 6], no, false, (-0.5, 1.5), |a, b, p| {
        let (x, y) = (LumaS::new(a[0]), LumaS::new(b[0])); let mut z = x; z.mix_assign(y, p);
        let m = Alpha { color: col::<RgbS<_>, _>(a), alpha: a[1] }.mix(Alpha { color: col::<RgbS<_>, _>(b), alpha: b[2] }, p);
        (cat(vec![vec![x.mix(y, p).luma, z.luma], v3(m.color), vec![m.alpha]]), vec![]) });

    // ---- hue operations: shift (+assign), with/set/get, and the colour-theory rotations (hue + constant) -> exact
    macro_rules! hueops { ($pool:expr, $name:expr, $c:ident) => {
        more4!(out, pools, rng, nq, $pool, concat!("hue-ops+color-theory:", $name), [E; 49], no, false, (-400.0, 400.0), |a, b, p| {
            let (x, y): ($c<_>, $c<_>) = (col(a), col(b)); let mut s = x; s.shift_hue_assign(p); let mut t = x; t.set_hue(y.get_hue());
            let (s1, s2) = x.split_complementary(); let (a1, a2) = x.analogous(); let (b1, b2) = x.analogous_secondary(); let (t1, t2) = x.triadic(); let (q1, q2, q3) = x.tetradic();
            (cat(vec![v3(x.shift_hue(p)), v3(s), v3(x.with_hue(y.get_hue())), v3(t), vec![x.get_hue().into_raw_degrees()], v3(x.complementary()), v3(s1), v3(s2), v3(a1), v3(a2), v3(b1), v3(b2), v3(t1), v3(t2), v3(q1), v3(q2), v3(q3)]), vec![]) });
    } }
    hueops!("Hsl", "Hsl", HslS); hueops!("Hsv", "Hsv", HsvS); hueops!("Hwb", "Hwb", HwbS); hueops!("Lch", "Lch", LchD); hueops!("Lchuv", "Lchuv", LchuvD); hueops!("Hsluv", "Hsluv", HsluvD);
    hueops!("Oklch", "Oklch", Oklch); hueops!("Okhsl", "Okhsl", Okhsl); hueops!("Okhsv", "Okhsv", Okhsv); hueops!("Okhwb", "Okhwb", Okhwb); hueops!("Cam16UcsJmh", "Cam16UcsJmh", Cam16UcsJmh); hueops!("Cam16Jch", "Cam16Jch", Cam16Jch);
    // get_hue of the cartesian types: atan2 -> approx; Complementary of Lab-likes negates a and b (exact; `0 - x` differs from `-x` only in the sign of zero)
    macro_rules! gethue { ($pool:expr, $name:expr, $c:ident, $ch:expr) => {
        more4!(out, pools, rng, nq, $pool, concat!("get_hue+complementary:", $name), [Hc(1), A($ch), E, E, E], no, false, (0.0, 1.0), |a, _b, _p| {
            let x: $c<_> = col(a); (cat(vec![vec![x.get_hue().into_raw_degrees(), Hypot::hypot(a[1], a[2])], v3(x.complementary())]), vec![]) });
    } }
    gethue!("Lab", "Lab", LabD, 128.0); gethue!("Luv", "Luv", LuvD, 180.0); gethue!("Oklab", "Oklab", Oklab, 1.0);
    more4!(out, pools, rng, nq, "Rgb", "get_hue:Rgb", [Hc(1), E], no, false, (0.0, 1.0), |a, _b, _p| {
        // the chroma proxy: max - min, exactly 0 for grays (hue undefined there)
        let x: RgbS<_> = col(a); (vec![x.get_hue().into_raw_degrees(), MinMax::max(MinMax::max(a[0], a[1]), a[2]) - MinMax::min(MinMax::min(a[0], a[1]), a[2])], vec![]) });

    // ---- colour arithmetic: colour (+ - * /) colour, colour (+ - * /) scalar, and the assigning forms -> exact
    macro_rules! arith { ($pool:expr, $name:expr, $c:ident) => {
        more4!(out, pools, rng, nq, $pool, concat!("arithmetic(all forms):", $name), [E; 36], no, false, (0.25, 2.0), |a, b, p| {
            let (x, y): ($c<_>, $c<_>) = (col(a), col(b)); let (mut c1, mut c2, mut c3, mut c4) = (x, x, x, x); c1 += y; c2 -= p; c3 *= y; c4 /= p;
            (cat(vec![v3(x + y), v3(x - y), v3(x * y), v3(x / y), v3(x + p), v3(x - p), v3(x * p), v3(x / p), v3(c1), v3(c2), v3(c3), v3(c4)]), vec![]) });
    } }
    arith!("Rgb", "Rgb", RgbS); arith!("Lab", "Lab", LabD); arith!("Luv", "Luv", LuvD); arith!("Xyz", "Xyz", XyzD); arith!("Yxy", "Yxy", YxyD); arith!("Oklab", "Oklab", Oklab);
    arith!("Xyz", "Lms", LmsB); arith!("Cam16UcsJab", "Cam16UcsJab", Cam16UcsJab);
    macro_rules! arith_hue { ($pool:expr, $name:expr, $c:ident) => {
        more4!(out, pools, rng, nq, $pool, concat!("arithmetic(add, sub):", $name), [E; 18], no, false, (0.25, 2.0), |a, b, p| {
            let (x, y): ($c<_>, $c<_>) = (col(a), col(b)); let (mut c1, mut c2) = (x, x); c1 += y; c2 -= p;
            (cat(vec![v3(x + y), v3(x - y), v3(x + p), v3(x - p), v3(c1), v3(c2)]), vec![]) });
    } }
    arith_hue!("Hsl", "Hsl", HslS); arith_hue!("Hsv", "Hsv", HsvS); arith_hue!("Hwb", "Hwb", HwbS); arith_hue!("Lch", "Lch", LchD); arith_hue!("Lchuv", "Lchuv", LchuvD); arith_hue!("Hsluv", "Hsluv", HsluvD);
    arith_hue!("Oklch", "Oklch", Oklch); arith_hue!("Okhsl", "Okhsl", Okhsl); arith_hue!("Okhsv", "Okhsv", Okhsv); arith_hue!("Okhwb", "Okhwb", Okhwb); arith_hue!("Cam16UcsJmh", "Cam16UcsJmh", Cam16UcsJmh); arith_hue!("Cam16Jch", "Cam16Jch", Cam16Jch);
    more4!(out, pools, rng, nq, "Rgb", "arithmetic(all forms):Luma", [E; 8], no, false, (0.25, 2.0), |a, b, p| {
        let (x, y) = (LumaS::new(a[0]), LumaS::new(b[0])); let mut c = x; c *= p; (vec![(x + y).luma, (x - y).luma, (x * y).luma, (x / y).luma, (x + p).luma, (x - p).luma, (x / p).luma, c.luma], vec![]) });

    // ---- premultiplied alpha and blending on the other Premultiply types (Rgb is driven in c17.rs)
    macro_rules! premul { ($pool:expr, $name:expr, $c:ident) => {
        more4!(out, pools, rng, nq, $pool, concat!("premultiply+compose:", $name), [E; 12], no, false, (0.0, 1.0), |a, b, p| {
            use palette::blend::Compose;
            let (x, y): ($c<_>, $c<_>) = (col(a), col(b)); let pre = x.premultiply(p);
            let ov = Alpha { color: x, alpha: p }.over(Alpha { color: y, alpha: b[0] });
            (cat(vec![v3(pre.color), v3(Premultiply::unpremultiply(PreAlpha { color: x, alpha: p }).0), v3(x.over(y)), v3(ov.color)]), vec![]) });
    } }
    premul!("Xyz", "Xyz", XyzD); premul!("Lab", "Lab", LabD); premul!("Luv", "Luv", LuvD); premul!("Yxy", "Yxy", YxyD); premul!("Oklab", "Oklab", Oklab); premul!("Xyz", "Lms", LmsB); premul!("Cam16UcsJab", "Cam16UcsJab", Cam16UcsJab);
    macro_rules! blendx { ($pool:expr, $name:expr, $c:ident) => {
        more4!(out, pools, rng, nq, $pool, concat!("blend:", $name), [E; 15], no, false, (0.0, 1.0), |a, b, _p| {
            use palette::blend::Blend;
            let (x, y): ($c<_>, $c<_>) = (col(a), col(b)); (cat(vec![v3(x.multiply(y)), v3(x.screen(y)), v3(x.overlay(y)), v3(x.dodge(y)), v3(x.burn(y))]), vec![]) });
    } }
    blendx!("Xyz", "Xyz", XyzD); blendx!("Xyz", "Lms", LmsB);
    more4!(out, pools, rng, nq, "RgbL", "premultiply+blend:LumaL", [E; 6], no, false, (0.0, 1.0), |a, b, p| {
        use palette::blend::{Blend, Compose};
        let (x, y) = (LumaL::new(a[0]), LumaL::new(b[0]));
        (vec![x.premultiply(p).color.luma, Premultiply::unpremultiply(PreAlpha { color: x, alpha: p }).0.luma, x.multiply(y).luma, x.hard_light(y).luma, x.difference(y).luma, x.atop(y).luma], vec![]) });

    // ---- the other RGB standards: transfer functions both ways (wide's pow -> approx) and Rgb<S> <-> Xyz<S::WhitePoint> (matrix after/before it)
    macro_rules! rgbstd { ($name:expr, $std:ty, $wp:ty) => {
        more4!(out, pools, rng, nq, "Rgb", concat!("convert:Rgb<", $name, "><->linear,Xyz"), [A(1.0); 12], no, false, (0.0, 1.0), |a, b, _p| {
            let x: Rgb<$std, _> = col(a); let lin: Rgb<Linear<<$std as palette::rgb::RgbStandard>::Space>, _> = col(b);
            let enc: Rgb<$std, _> = Rgb::from_linear(lin); let xyz: Xyz<$wp, _> = x.into_color_unclamped(); let back: Rgb<$std, _> = col::<Xyz<$wp, _>, _>(b).into_color_unclamped();
            (cat(vec![v3(x.into_linear::<_>()), v3(enc), v3(xyz), v3(back)]), vec![]) });
    } }
    rgbstd!("AdobeRgb", palette::encoding::AdobeRgb, D65); rgbstd!("DisplayP3", palette::encoding::DisplayP3, D65); rgbstd!("DciP3", palette::encoding::DciP3, palette::encoding::DciP3);
    rgbstd!("Rec709", palette::encoding::Rec709, D65); rgbstd!("Rec2020", palette::encoding::Rec2020, D65); rgbstd!("ProPhotoRgb", palette::encoding::ProPhotoRgb, D50);
    rgbstd!("Gamma2.2", palette::encoding::Gamma<Srgb, palette::encoding::F2p2>, D65);
    // Rgb -> Rgb between standards with the same white point (decode, two matrices, encode).  The matrix product cancels for colours on the
    // gamut boundary, and the encoding amplifies what is left next to 0 -> cond.
    more4!(out, pools, rng, nq, "Rgb", "convert:Rgb<Srgb><->Rgb<Rec2020>", [A(1.0); 6], no, true, (0.0, 1.0), |a, b, _p| {
        let x: RgbS<_> = col(a); let r: Rgb<palette::encoding::Rec2020, _> = x.into_color_unclamped();
        let s: RgbS<_> = col::<Rgb<palette::encoding::Rec2020, _>, _>(b).into_color_unclamped(); (cat(vec![v3(r), v3(s)]), vec![]) });
    // AdobeRgb encodes with a pure power law: an sRGB boundary colour whose linear AdobeRgb component rounds to -1e-9 gives NaN in scalar code
    // (known finding D6-powlaw-nan) and a finite number in a SIMD lane (wide's pow of a negative base): listed as C17-powlaw-nan-lane
    more4!(out, pools, rng, nq, "Rgb", "convert:Rgb<Srgb>->Rgb<AdobeRgb>", [A(1.0); 3], no, true, (0.0, 1.0), |a, _b, _p| {
        let x: RgbS<_> = col(a); let ad: Rgb<palette::encoding::AdobeRgb, _> = x.into_color_unclamped(); (v3(ad), vec![]) });

    // ---- conversions over several steps (`FromColorUnclamped` routes through Xyz / Rgb / Oklab) and the clamping `FromColor`
    macro_rules! route { ($pool:expr, $name:expr, $s:ident, $d:ident, $tols:expr, $cond:expr) => {
        more4!(out, pools, rng, nq, $pool, concat!("convert:", $name), $tols, no, $cond, (0.0, 1.0), |a, _b, _p| {
            let x: $s<_> = col(a); let y: $d<_> = x.into_color_unclamped(); let z: $d<_> = x.into_color(); (cat(vec![v3(y), v3(z)]), vec![]) });
    } }
    route!("Rgb", "Rgb->Lab", RgbS, LabD, [A(100.0), A(128.0), A(128.0), A(100.0), A(128.0), A(128.0)], true);
    route!("Lab", "Lab->Rgb", LabD, RgbS, [A(1.0); 6], true);
    route!("Rgb", "Rgb->Yxy", RgbS, YxyD, [A(1.0); 6], true);       // x = X / (X + Y + Z): ill-conditioned next to black
    route!("Rgb", "Rgb->Oklab", RgbS, Oklab, [A(1.0); 6], true);
    route!("Oklab", "Oklab->Rgb", Oklab, RgbS, [A(1.0); 6], true);
    route!("RgbL", "RgbL->Oklab", RgbL, Oklab, [E; 6], false);         // the direct linear-sRGB matrices and cbrt lane loop: exact
    route!("Oklab", "Oklab->RgbL", Oklab, RgbL, [E; 6], false);
    route!("Hsv", "Hsv->Xyz", HsvS, XyzD, [A(1.0); 6], true);
    route!("Hsl", "Hsl->Lab", HslS, LabD, [A(100.0), A(128.0), A(128.0), A(100.0), A(128.0), A(128.0)], true);
    route!("Xyz", "Xyz->Hsv", XyzD, HsvS, [H, A(1.0), A(1.0), H, A(1.0), A(1.0)], true);   // hue and saturation of near-grays / near-blacks
    route!("Rgb", "Rgb->Lch", RgbS, LchD, [A(100.0), A(128.0), Hc(1), A(100.0), A(128.0), Hc(4)], true);
    route!("Lch", "Lch->Rgb", LchD, RgbS, [A(1.0); 6], true);
    route!("Rgb", "Rgb->Oklch", RgbS, Oklch, [A(1.0), A(1.0), Hc(1), A(1.0), A(1.0), Hc(4)], true);
    route!("Oklch", "Oklch->Rgb", Oklch, RgbS, [A(1.0); 6], true);
    route!("Okhsv", "Okhsv->Okhwb", Okhsv, Okhwb, [E; 6], false);
    route!("Okhwb", "Okhwb->Okhsv", Okhwb, Okhsv, [E; 6], false);
    route!("Xyz", "Xyz->Lch", XyzD, LchD, [A(100.0), A(128.0), Hc(1), A(100.0), A(128.0), Hc(4)], true);
    route!("Lchuv", "Lchuv->Luv(clamped too)", LchuvD, LuvD, [A(100.0), A(180.0), A(180.0), A(100.0), A(180.0), A(180.0)], true);

    // ---- chromatic adaptation D65 -> D50, new (`AdaptIntoUnclamped`, Bradford and Von Kries) and deprecated (`AdaptInto`) API: matrices built in T from
    // the white points with + - * / only, then a matrix-vector product -> exact
    more4!(out, pools, rng, nq, "Xyz", "chromatic-adaptation:Xyz<D65>->Xyz<D50>", [E; 12], no, false, (0.0, 1.0), |a, b, _p| {
        use palette::chromatic_adaptation::{AdaptIntoUnclamped, AdaptInto, Method};
        let x: XyzD<_> = col(a); let y1: Xyz<D50, _> = x.adapt_into_unclamped(); let y2: Xyz<D50, _> = x.adapt_into_unclamped_with::<palette::lms::matrix::VonKries>();
        #[allow(deprecated)] let y3: Xyz<D50, _> = AdaptInto::adapt_into(x); #[allow(deprecated)] let y4: Xyz<D50, _> = AdaptInto::adapt_into_using(col::<XyzD<_>, _>(b), Method::XyzScaling);
        (cat(vec![v3(y1), v3(y2), v3(y3), v3(y4)]), vec![]) });

    // ---- the hue types themselves: normalisation to (-180, 180] / [0, 360) (floor/ceil lane loops: exact), radians (approx), cartesian form (sin/cos, atan2)
    more4!(out, pools, rng, nq, "Lch", "hue-type:LabHue,RgbHue", [E, E, A(16.0), A(16.0), A(360.0), A(1.0), A(1.0), Hc(12), E, E, E, E, E], no, false, (-800.0, 800.0), |a, b, p| {
        let h = palette::LabHue::from(a[2] + p); let g = palette::RgbHue::from(b[2] - p); let (c, s) = h.into_cartesian();
        (vec![h.into_degrees(), h.into_positive_degrees(), h.into_radians(), h.into_positive_radians(), palette::LabHue::from_radians(a[0] - b[0]).into_raw_degrees(), c, s,
              palette::LabHue::from_cartesian(a[1] - b[1], b[0] - a[0]).into_raw_degrees(), (h + palette::LabHue::from(b[2])).into_raw_degrees(), (h - b[2]).into_raw_degrees(), g.into_degrees(), g.into_positive_degrees(),
              // |x| + |y| of the cartesian pair: exactly 0 in tie lanes, where the hue is undefined (scalar 0 degrees, SIMD 180 degrees: `neg_zero_witness`)
              Abs::abs(a[1] - b[1]) + Abs::abs(b[0] - a[0])], vec![]) });

    // ---- `==` on SIMD colours is one `bool` for the whole vector: true iff every lane's scalar `==` is true (checked in `eq_all_lanes`)
    eq_all_lanes::<f32, f32x4, 4>(out, "f32x4", rng, nq, &pools["Rgb"]); eq_all_lanes::<f32, f32x8, 8>(out, "f32x8", rng, nq, &pools["Rgb"]);
    eq_all_lanes::<f64, f64x2, 2>(out, "f64x2", rng, nq, &pools["Rgb"]); eq_all_lanes::<f64, f64x4, 4>(out, "f64x4", rng, nq, &pools["Rgb"]);

    // ---- the numeric traits on the wide types themselves
    let nn = if thorough { 100_000 } else { 3_000 };
    num_ops::<f32, f32x4, 4>(out, "f32x4", rng, nn); num_ops::<f32, f32x8, 8>(out, "f32x8", rng, nn);
    num_ops::<f64, f64x2, 2>(out, "f64x2", rng, nn); num_ops::<f64, f64x4, 4>(out, "f64x4", rng, nn);
}

// ------------------------------------------------------------------------------------------------------------------
// coverage audit (AUDIT_C17.md): forms inside C17's quantifier that run their own impl blocks and were not driven above - the Alpha / PreAlpha
// wrapper forms of the operators, arithmetic and conversions (alpha/alpha.rs, blend/pre_alpha.rs), the three hue types no operation used
// (`make_hues!` is instantiated five times), the Porter-Duff operators inside / outside / atop on colours with alpha, and CAM16 under a second
// set of viewing conditions.  Called after `run_more` (the random stream and the clauses above are unchanged); every `more4!` also runs the lane
// patterns and the f32-vs-f64 comparison of c17_more2.rs.
// ------------------------------------------------------------------------------------------------------------------
trait Bk2: FromScalar { fn baked2() -> BakedParameters<StaticWp<D65>, Self::Scalar>; }
macro_rules! bk2 { ($($t:ty => $s:ty),*) => { $(impl Bk2 for $t { fn baked2() -> BakedParameters<StaticWp<D65>, $s> {
    let mut p = Parameters::<StaticWp<D65>, $s>::default_static_wp(100.0); p.surround = palette::cam16::Surround::Dim; p.discounting = palette::cam16::Discounting::Custom(0.8); p.background_luminance = 0.3; p.bake() } })* } }
bk2!(f32 => f32, f64 => f64, f32x4 => f32, f32x8 => f32, f64x2 => f64, f64x4 => f64);
fn bk2<X: Bk2>(_: &X) -> BakedParameters<StaticWp<D65>, X::Scalar> { X::baked2() }
fn v4<C: ArrayCast<Array = [X; 3]>, X>(c: Alpha<C, X>) -> Vec<X> { let a: [X; 3] = cast::into_array(c.color); let [p, q, r] = a; vec![p, q, r, c.alpha] }

pub fn run_more_audit(out: &mut Out, rng: &mut Rng, _thorough: bool, ng: usize, pools: &BTreeMap<&'static str, Vec<[f64; 3]>>) {
    let nq = ng / 4;
    let no = E;
    let mut pools = pools.clone();
    { let w = widen(&pools["Hsl"], rng); pools.insert("W:Hsl", w); }
    let pools = &pools;
    // ---- the other hue types (same body as `hue-type:LabHue,RgbHue`)
    macro_rules! huetype { ($name:expr, $h:ident) => {
        more4!(out, pools, rng, nq, "Lch", concat!("hue-type:", $name), [E, E, A(16.0), A(16.0), A(360.0), A(1.0), A(1.0), Hc(10), E, E, E], no, false, (-800.0, 800.0), |a, b, p| {
            let h = palette::hues::$h::from(a[2] + p); let (c, s) = h.into_cartesian();
            (vec![h.into_degrees(), h.into_positive_degrees(), h.into_radians(), h.into_positive_radians(), palette::hues::$h::from_radians(a[0] - b[0]).into_raw_degrees(), c, s,
                  palette::hues::$h::from_cartesian(a[1] - b[1], b[0] - a[0]).into_raw_degrees(), (h + palette::hues::$h::from(b[2])).into_raw_degrees(), (h - b[2]).into_raw_degrees(),
                  Abs::abs(a[1] - b[1]) + Abs::abs(b[0] - a[0])], vec![]) });
    } }
    huetype!("LuvHue", LuvHue); huetype!("OklabHue", OklabHue); huetype!("Cam16Hue", Cam16Hue); huetype!("RgbHue", RgbHue);

    // ---- Alpha<C, T>: operators forwarded with the alpha (own impls in alpha/alpha.rs); per-lane alpha = the parameter
    more4!(out, pools, rng, nq, "Hsv", "alpha-forms:operators:Hsv", [E; 28], no, false, (-1.0, 1.0), |a, b, p| {
        let x = Alpha { color: col::<HsvS<_>, _>(a), alpha: Abs::abs(p) }; let y = Alpha { color: col::<HsvS<_>, _>(b), alpha: b[1] };
        let (mut l, mut s, mut h) = (x, x, x); l.lighten_assign(p); s.saturate_fixed_assign(p); h.shift_hue_assign(mulk(p, 400.0));
        (cat(vec![v4(Lighten::lighten(x, p)), v4(x.darken_fixed(p)), v4(x.saturate(p)), v4(x.shift_hue(mulk(p, 400.0))), v4(l), v4(s), v4(h)]), vec![]) });
    more4!(out, pools, rng, nq, "Lch", "alpha-forms:mix+hue:Lch", [E; 13], no, false, (-0.5, 1.5), |a, b, p| {
        let x = Alpha { color: col::<LchD<_>, _>(a), alpha: a[1] }; let y = Alpha { color: col::<LchD<_>, _>(b), alpha: b[1] }; let mut z = x; z.mix_assign(y, p); let mut t = x; t.set_hue(y.get_hue());
        (cat(vec![v4(x.mix(y, p)), v4(z), v4(x.with_hue(y.get_hue())), vec![t.get_hue().into_raw_degrees()]]), vec![]) });
    more4!(out, pools, rng, nq, "Lab", "alpha-forms:arithmetic:Lab", [E; 48], no, false, (0.25, 2.0), |a, b, p| {
        let x = Alpha { color: col::<LabD<_>, _>(a), alpha: a[0] }; let y = Alpha { color: col::<LabD<_>, _>(b), alpha: b[0] }; let (mut c1, mut c2, mut c3, mut c4) = (x, x, x, x); c1 += y; c2 -= p; c3 *= y; c4 /= p;
        (cat(vec![v4(x + y), v4(x - y), v4(x * y), v4(x / y), v4(x + p), v4(x - p), v4(x * p), v4(x / p), v4(c1), v4(c2), v4(c3), v4(c4)]), vec![]) });
    more4!(out, pools, rng, nq, "W:Hsl", "alpha-forms:bounds+clamp:Hsl", [E; 8], no, false, (-0.5, 1.5), |a, _b, p| {
        let x = Alpha { color: col::<HslS<_>, _>(a), alpha: p }; let c = x.clamp(); let mut y = x; y.clamp_assign();
        (cat(vec![v4(c), v4(y)]), vec![(x.is_within_bounds(), p)]) });
    // conversions with alpha on both sides / added / dropped (alpha.rs: FromColorUnclamped<C1> for Alpha<C2, T>)
    more4!(out, pools, rng, nq, "Rgb", "alpha-forms:convert:Rgb->Hsv", [H, E, E, E, H, E, E], no, false, (0.0, 1.0), |a, _b, p| {
        let x = Alpha { color: col::<RgbS<_>, _>(a), alpha: p }; let y: Alpha<HsvS<_>, _> = x.into_color_unclamped();
        let w: HsvS<_> = x.into_color_unclamped();
        (cat(vec![v4(y), v3(w)]), vec![]) });
    // ---- PreAlpha<C>: arithmetic, mix, conversion from / into Alpha (blend/pre_alpha.rs)
    more4!(out, pools, rng, nq, "RgbL", "prealpha-forms:RgbL", [E; 32], no, false, (0.0, 1.0), |a, b, p| {
        let x = PreAlpha { color: col::<RgbL<_>, _>(a), alpha: p }; let y = PreAlpha { color: col::<RgbL<_>, _>(b), alpha: b[0] };
        let v4p = |c: PreAlpha<RgbL<_>>| { let mut v = v3(c.color); v.push(c.alpha); v };
        let mut z = x; z.mix_assign(y, a[1]);
        let fa: PreAlpha<RgbL<_>> = Alpha { color: col::<RgbL<_>, _>(a), alpha: p }.into(); let ua: Alpha<RgbL<_>, _> = x.into();
        (cat(vec![v4p(x + y), v4p(x - y), v4p(x * y), v4p(x / y), v4p(x.mix(y, a[1])), v4p(z), v4p(fa), v4(ua)]), vec![]) });
    // ---- Porter-Duff operators never driven for the SIMD types (inside, outside, atop; with alpha), BlendWith
    more4!(out, pools, rng, nq, "RgbL", "compose(inside,outside,atop,xor,plus)+blend_with:alpha:RgbL", [E; 24], no, false, (0.0, 1.0), |a, b, p| {
        use palette::blend::{BlendWith, Compose};
        let x = Alpha { color: col::<RgbL<_>, _>(a), alpha: p }; let y = Alpha { color: col::<RgbL<_>, _>(b), alpha: b[1] };
        let bw = x.blend_with(y, |s: PreAlpha<RgbL<_>>, d: PreAlpha<RgbL<_>>| PreAlpha { color: s.color * d.color, alpha: s.alpha * d.alpha });
        (cat(vec![v4(x.inside(y)), v4(x.outside(y)), v4(x.atop(y)), v4(x.xor(y)), v4(x.plus(y)), v4(bw)]), vec![]) });
    // ---- CAM16 under other viewing conditions (dim surround, custom discounting, other luminances), both directions
    more4!(out, pools, rng, nq, "Xyz", "cam16(dim surround, custom discounting):Xyz->Cam16->Xyz", [A(100.0), A(100.0), Hc(1), A(100.0), A(100.0), A(100.0), A(1.0), A(1.0), A(1.0)], no, true, (0.0, 1.0), |a, _b, _p| {
        let x: XyzD<_> = col(a); let c = Cam16::from_xyz(x, bk2(&a[0]));
        (vec![c.lightness, c.chroma, c.hue.into_raw_degrees(), c.brightness, c.colorfulness, c.saturation].into_iter().chain(v3(Cam16Jch::from(c).into_xyz(bk2(&a[0])))).collect(), vec![]) });
}
