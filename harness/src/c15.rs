//! C15 — gamut-bounded cylindrical spaces stay inside the RGB gamut.
//!
//! Seven spaces (Hsv, Hsl, Hwb, Okhsv, Okhsl, Okhwb, Hsluv) x f32/f64 x two RGB targets (`Srgb`, `LinSrgb`).
//!
//! (a) forward: dense hue x (saturation-like, lightness-like) grids *including the bounds themselves* are converted with
//!     `from_color_unclamped`; every RGB component must lie in `[-tol, 1 + tol]`.
//! (b) converse: in-gamut sRGB colours (lattice incl. corners/edges/faces, ramps of the primaries and secondaries, random interior, faces,
//!     edges) are converted into each space: the components must be within the documented bounds *up to the same tolerance* and the colour
//!     must convert back to the same RGB colour.
//!
//! Tolerances (never a free parameter; DESIGN §2.2(c), §3 C15):
//!   * Hsv/Hsl/Hwb: the formulas are exact in real arithmetic (`C15.hsv_in_gamut`, `hsl_in_gamut`, `hwb_in_gamut`, and the converse
//!     `C15.rgbToHsv_bounds` … are proved with tolerance 0), so only rounding remains: each output is one product, one or two differences and
//!     one sum of numbers in [0,1] → ≤ 4 eps(T) absolute.
//!   * Hsluv: 2e-4 in **linear** RGB.  `luv_bounds.rs` builds the hexagon from HSLuv's own 15-digit XYZ→RGB matrix (and, through the integer
//!     constants, HSLuv's own white reference u′ₙ, v′ₙ: `C15.boundaryLine_is_channel_locus`), while the colour is afterwards converted with
//!     palette's 7-digit sRGB matrix and 5-digit D65: the two linear-RGB readings of one XYZ differ by diag(−1.59e-4, +2.3e-5, +2.40e-4)
//!     (decided over ℚ: `C15.hsluv_matrix_distance`), partly compensated by the different white reference of `Luv → Xyz` (exactly on the
//!     neutral axis).  Observed maximum 1.61e-4 over 36 000 hues x 101^2 (recorded in the evidence under `gamut-excess:Hsluv…`).
//!   * Okhsl/Okhsv/Okhwb: 1e-3 in **linear** RGB — the declared constant of DESIGN §3 C15.  Containment rests on a polynomial fit of the
//!     cusp plus one Halley step (`MAX_SRGB_SATURATION_SEARCH_MAX_ITER = 1`) and is not provable by algebra; observed maxima ≈ 2e-4 are
//!     recorded so that drift below the alarm level stays visible.
//!   For the `Srgb` target of the last two groups the encoded output is decoded with the (monotone) sRGB EOTF in f64 and judged in linear
//!   light with the same constant (an encoded value is in `[oetf(−tol), oetf(1+tol)]` iff its linear value is in `[−tol, 1+tol]`).
//!
//! "Within their bounds up to the same tolerance", converse direction.  For Hsv/Hsl/Hwb it is read component-wise (4 eps of the component
//! range).  For Hsluv and the Ok spaces the tolerance is declared in linear RGB, and the same constant is *transported* into the cylindrical
//! space: the colour obtained by clamping the components to the documented bounds (Okhsv: `[0, 1 + MAX_SRGB_SATURATION_INACCURACY]`, as
//! `is_within_bounds` has it; Hwb-like: `w, b ≥ 0`, `w + b ≤ 1`) must be within the tolerance of the original colour in linear RGB, i.e. the
//! distance of the result from the in-bounds set, measured in the space where the tolerance is declared, is at most the tolerance.  A raw
//! component reading would not be meaningful there: near black and white the gamut cross-section shrinks to a point and the saturation is
//! a ratio of two vanishing chromas, so a linear-RGB error of 2e-4 (the declared inaccuracy of the cusp) is a saturation overshoot of
//! order 1e-2 at lightness ~0.3 — Ottosson's reference `ok_color.h` (re-typed in `conv_ok::spec`) overshoots identically; the raw overshoot
//! of implementation *and* reference is recorded (`bounds-overshoot…`, `bounds-overshoot-reference…`).
//!
//! Known findings recognised by named clauses (known_findings.json, property C15):
//!   * `blue-hue-gap-C15:` — D7: hue directions in the 1.1e-9 rad gap below the blue primary's hue use an invalid coefficient set of
//!     `max_saturation`; f32: every pure blue.
//!   * `hsluv-pole-C15:` — D5: `Hsluv <-> Lchuv` lack the reference's guards at L > 99.9999999 / L < 1e-8.
//! Every other excursion is a violation.
use crate::common::*;
use crate::conv_common::*;
use crate::conv_ok::spec;
use palette::cast::{self, ArrayCast};
use palette::convert::FromColorUnclamped;
use palette::encoding::{self, Linear};
use palette::rgb::Rgb;
use palette::white_point::D65;
use palette::{Hsl, Hsluv, Hsv, Hwb, Lchuv, Luv, Okhsl, Okhsv, Okhwb, Oklab, Xyz};
use std::collections::BTreeMap;

pub(crate) type Lines<'a> = Option<&'a mut Vec<String>>;

/// one directly implemented edge; optionally records the protocol line the Lean driver replays through the model
pub(crate) fn step<S, D, T: Fl>(sn: &str, dn: &str, a: [T; 3], lines: &mut Lines) -> [T; 3]
where S: ArrayCast<Array = [T; 3]>, D: ArrayCast<Array = [T; 3]> + FromColorUnclamped<S> {
    let d: [T; 3] = cast::into_array(D::from_color_unclamped(cast::from_array::<S>(a)));
    if let Some(l) = lines { l.push(format!("conv {} {} | {} | {}", sn, dn, hx_list(&a), hx_list(&d))); }
    d
}
pub(crate) fn one<S, D, T: Fl>(a: [T; 3]) -> [T; 3]
where S: ArrayCast<Array = [T; 3]>, D: ArrayCast<Array = [T; 3]> + FromColorUnclamped<S> {
    cast::into_array(D::from_color_unclamped(cast::from_array::<S>(a)))
}
pub(crate) fn same_bits<T: Fl>(a: &[T; 3], b: &[T; 3]) -> bool { (0..3).all(|i| a[i].bits64() == b[i].bits64() || (a[i].to64().is_nan() && b[i].to64().is_nan())) }

#[derive(Clone, Copy, PartialEq, Debug)]
pub(crate) enum Kind { Hex, Hsluv, Ok }

/// a conversion as the property observes it (one `from_color_unclamped` call) and, when lines are requested, the same conversion replayed
/// edge by edge (each edge = one `conv` line for the model); returns (result of the single call, chain agrees bit for bit)
pub(crate) type Conv<T> = Box<dyn Fn([T; 3], &mut Lines) -> ([T; 3], bool) + Send + Sync>;

pub(crate) struct Space<T: Fl> {
    pub(crate) name: &'static str,
    pub(crate) kind: Kind,
    /// range of the saturation-like / lightness-like components (1 or 100)
    pub(crate) scale: f64,
    pub(crate) hwb: bool,
    /// documented upper bound slack (Okhsv: MAX_SRGB_SATURATION_INACCURACY)
    pub(crate) slack: f64,
    /// the two RGB targets of the space ([Srgb, LinSrgb] here; other standards on the same primaries in `c15_more.rs`)
    pub(crate) targets: [Target; 2],
    pub(crate) to_rgb: [Conv<T>; 2],
    pub(crate) from_rgb: [Conv<T>; 2],
}
/// an RGB standard as a target: its name in clause names and its transfer function as an f64 reference (both monotone), used only to
/// judge a colour in linear light where the tolerance is declared there
#[derive(Clone, Copy)]
pub(crate) struct Target { pub(crate) name: &'static str, pub(crate) eotf: fn(f64) -> f64, pub(crate) oetf: fn(f64) -> f64 }
/// the space's own name; `c15_more.rs` runs the same spaces in other configurations as `Name@configuration`
pub(crate) fn base_name(n: &str) -> &str { n.split('@').next().unwrap_or(n) }
pub(crate) fn ident(x: f64) -> f64 { x }
pub(crate) fn srgb_oetf(x: f64) -> f64 { if x <= 0.0031308 { 12.92 * x } else { 1.055 * x.powf(1.0 / 2.4) - 0.055 } }
pub(crate) const TARGETS: [Target; 2] = [Target { name: "Srgb", eotf: srgb_eotf, oetf: srgb_oetf }, Target { name: "LinSrgb", eotf: ident, oetf: ident }];

/// thread-local accumulator, merged into `Out` by the main thread
#[derive(Default)]
pub(crate) struct Acc {
    evals: u64,
    fail_total: u64,
    fails: Vec<(String, String)>,
    per_clause: BTreeMap<String, u32>,
    maxima: BTreeMap<String, f64>,
    counts: BTreeMap<String, u64>,
    lines: Vec<String>,
}
impl Acc {
    pub(crate) fn check(&mut self, ok: bool, clause: &str, detail: impl FnOnce() -> String) {
        self.evals += 1;
        if !ok {
            self.fail_total += 1;
            if !self.per_clause.contains_key(clause) { self.per_clause.insert(clause.to_string(), 0); }
            let n = self.per_clause.get_mut(clause).unwrap();
            if *n < 4 { *n += 1; self.fails.push((clause.to_string(), detail())); }
        }
    }
    pub(crate) fn maxi(&mut self, key: &str, v: f64) {
        match self.maxima.get_mut(key) { Some(e) => { if v > *e || v.is_nan() { *e = v; } } None => { self.maxima.insert(key.to_string(), v); } }
    }
    pub(crate) fn count(&mut self, key: &str) { *self.counts.entry(key.to_string()).or_insert(0) += 1; }
    pub(crate) fn merge_into(self, out: &mut Out) {
        let kept = self.fails.len() as u64;
        for (c, d) in self.fails { out.check(false, &c, || d); }
        out.oracle_evals += self.evals - kept;
        out.n_fail_total += self.fail_total - kept;
        for (k, v) in self.maxima { out.maxi(&k, v); }
        for (k, v) in self.counts { out.count_n(&k, v); }
        for l in self.lines { out.case(&l); }
    }
}

pub(crate) fn srgb_eotf(x: f64) -> f64 { if x <= 0.04045 { x / 12.92 } else { ((x + 0.055) / 1.055).powf(2.4) } }
/// largest excursion of a triple outside [0,1] (NaN if any component is NaN)
pub(crate) fn excess(v: &[f64; 3]) -> f64 { if v.iter().any(|x| x.is_nan()) { f64::NAN } else { v.iter().fold(0.0f64, |m, &x| m.max(-x).max(x - 1.0)) } }
pub(crate) fn lin_of(target: &Target, rgb: &[f64; 3]) -> [f64; 3] { [(target.eotf)(rgb[0]), (target.eotf)(rgb[1]), (target.eotf)(rgb[2])] }

/// rounding of the hue vector (cos h, sin h) / (a/C, b/C) in T against the two case conditions of `max_saturation` (coefficients ≤ 1.9)
fn case_margin<T: Fl>() -> f64 { 64.0 * T::eps() }

/// the declared tolerance of a space, in the RGB representation it is declared in (Hex: the target itself; others: linear light)
pub(crate) fn tol_of<T: Fl>(kind: Kind) -> f64 { match kind { Kind::Hex => 4.0 * T::eps(), Kind::Hsluv => 2e-4, Kind::Ok => 1e-3 } }

/// known-finding classification of a *cylindrical* colour (hue, s-like, l-like); `None` = every excursion is a violation
pub(crate) fn known_fwd<T: Fl>(sp: &Space<T>, x: &[f64; 3]) -> Option<&'static str> {
    match sp.kind {
        Kind::Ok => { let r = x[0].to_radians(); if spec::blue_gap(r.cos(), r.sin(), case_margin::<T>()) { Some("blue-hue-gap-C15") } else { None } }
        // the two guards of the HSLuv reference (hsluv.org `lchToHsluv` / `hsluvToLch`): L > 99.9999999 or L < 0.00000001
        Kind::Hsluv => { if x[2] > 99.9999999 || x[2] < 0.00000001 { Some("hsluv-pole-C15") } else { None } }
        Kind::Hex => None,
    }
}
/// known-finding classification of an in-gamut *linear sRGB* colour for the converse direction
fn known_rev<T: Fl>(sp: &Space<T>, lin: &[f64; 3]) -> Option<&'static str> {
    match sp.kind {
        Kind::Ok => {
            let lab = spec::linear_srgb_to_oklab(*lin);
            let c = lab[1].hypot(lab[2]);
            if c > 0.0 && spec::blue_gap(lab[1] / c, lab[2] / c, case_margin::<T>()) { Some("blue-hue-gap-C15") } else { None }
        }
        Kind::Hsluv => {
            // CIE L* of the colour (Y of linear sRGB, white Y = 1): the reference's guards
            let y = 0.2126729 * lin[0] + 0.7151522 * lin[1] + 0.0721750 * lin[2];
            let l = if y > 216.0 / 24389.0 { 116.0 * y.cbrt() - 16.0 } else { 24389.0 / 27.0 * y };
            if l > 99.9999999 || l < 0.00000001 { Some("hsluv-pole-C15") } else { None }
        }
        Kind::Hex => None,
    }
}

/// clamp the saturation-like / lightness-like components to the documented bounds (own code, not palette's `Clamp`)
fn clamp_to_bounds<T: Fl>(sp: &Space<T>, x: &[T; 3]) -> [T; 3] {
    let hi = sp.scale * (1.0 + sp.slack);
    if sp.hwb {
        let (mut w, mut b) = (x[1].to64().max(0.0), x[2].to64().max(0.0));
        if w + b > 1.0 { let s = w + b; w /= s; b /= s; }
        [x[0], T::of(w), T::of(b)]
    } else {
        let c = |v: T| if v.to64() < 0.0 { T::of(0.0) } else if v.to64() > hi { T::of(hi) } else { v };
        [x[0], c(x[1]), c(x[2])]
    }
}
/// how far the components are outside the documented bounds, in units of the component range
fn overshoot<T: Fl>(sp: &Space<T>, x: &[f64; 3]) -> f64 {
    if x[1].is_nan() || x[2].is_nan() { return f64::NAN; }
    let hi = sp.scale * (1.0 + sp.slack);
    let e = if sp.hwb { (-x[1]).max(-x[2]).max(x[1] + x[2] - 1.0) } else { (-x[1]).max(-x[2]).max(x[1] - hi).max(x[2] - hi) };
    e.max(0.0) / sp.scale
}

// ------------------------------------------------------------------------------------------------------------------- forward (a)

/// the axis of a saturation-like / lightness-like component: the (g+1)-point grid including both bounds, plus a boundary stream
fn axis<T: Fl>(g: usize, scale: f64) -> Vec<T> {
    let mut v: Vec<T> = (0..=g).map(|i| T::of(scale * i as f64 / g as f64)).collect();
    v.push(T::of(scale * 1e-9));
    v.push(T::of(scale * (1.0 - 1e-9)));
    v.push(T::of(scale).nudge(-1));
    v.push(T::of(scale).nudge(-2));
    v.push(T::of(scale).nudge(-9));
    v.push(T::of(scale * 0.5).nudge(1));
    v
}

pub(crate) fn forward_chunk<T: Fl + Send + Sync>(sp: &Space<T>, hues: &[(usize, T)], g: usize, stride: usize) -> Acc {
    let mut acc = Acc::default();
    let ax = axis::<T>(g, sp.scale);
    let tol = tol_of::<T>(sp.kind);
    let n = ax.len();
    let known_name = match sp.kind { Kind::Ok => "blue-hue-gap-C15", Kind::Hsluv => "hsluv-pole-C15", Kind::Hex => "" };
    // [target][0 = ordinary, 1 = inside a listed finding's region]: clause names, keys and running maxima (hot loop: no allocation)
    let clause: Vec<[String; 3]> = (0..2).map(|t| [format!("gamut:{}->{}:{}", sp.name, sp.targets[t].name, T::TAG), format!("{}:gamut:{}->{}:{}", known_name, sp.name, sp.targets[t].name, T::TAG), format!("okhsl-white-nan-C15:gamut:{}->{}:{}", sp.name, sp.targets[t].name, T::TAG)]).collect();
    let mkey: Vec<[String; 3]> = (0..2).map(|t| [format!("gamut-excess:{}->{}:{}", sp.name, sp.targets[t].name, T::TAG), format!("gamut-excess-in-{}:{}->{}:{}", known_name, sp.name, sp.targets[t].name, T::TAG), format!("gamut-excess-in-okhsl-white-nan-C15:{}->{}:{}", sp.name, sp.targets[t].name, T::TAG)]).collect();
    let route: Vec<String> = (0..2).map(|t| format!("derived-route-is-edge-chain:{}->{}:{}", sp.name, sp.targets[t].name, T::TAG)).collect();
    let mut mx = [[f64::NEG_INFINITY; 3]; 2];
    let (mut n_grid, mut n_bound) = (0u64, 0u64);
    for &(hi, h) in hues {
        for (i, &a) in ax.iter().enumerate() {
            for (j, &b) in ax.iter().enumerate() {
                if sp.hwb && !(a.to64() + b.to64() <= 1.0) { continue; }
                let x = [h, a, b];
                let x64 = to64(&x);
                let idx = (hi * n + i) * n + j;
                let emit = idx % stride == 0;
                // Okhsl lightness strictly between 1 - eps(T) and 1 (i.e. the one value next below 1): `toe_inv` rounds to exactly 1 while the `lightness == 1` guard did not fire (finding okhsl-white-nan)
                let k = if base_name(sp.name) == "Okhsl" && x64[2] < 1.0 && x64[2] > 1.0 - T::eps() { 2 } else if known_fwd(sp, &x64).is_some() { 1 } else { 0 };
                for t in 0..2 {
                    let mut local: Vec<String> = vec![];
                    let mut lines: Lines = if emit { Some(&mut local) } else { None };
                    let (rgb, chain_ok) = (sp.to_rgb[t])(x, &mut lines);
                    if emit { acc.lines.append(&mut local); acc.check(chain_ok, &route[t], || format!("{:?}: the single from_color_unclamped call and the chain of hand-written edges differ", x)); }
                    let r64 = to64(&rgb);
                    let ex = if sp.kind == Kind::Hex { excess(&r64) } else { excess(&lin_of(&sp.targets[t], &r64)) };
                    if ex > mx[t][k] || ex.is_nan() { mx[t][k] = ex; }
                    acc.check(ex <= tol, &clause[t][k], || format!("{}{:?} -> {} {:?} (excess {:e}, tolerance {:e})", sp.name, x, sp.targets[t].name, rgb, ex, tol));
                }
                n_grid += 1;
                if i == 0 || j == 0 || i == g || j == g { n_bound += 1; }
            }
        }
    }
    for t in 0..2 { for k in 0..3 { if mx[t][k] != f64::NEG_INFINITY { acc.maxi(&mkey[t][k], mx[t][k]); } } }
    *acc.counts.entry(format!("cls:grid:{}:{}", sp.name, T::TAG)).or_insert(0) += n_grid;
    *acc.counts.entry(format!("cls:grid-on-a-bound:{}:{}", sp.name, T::TAG)).or_insert(0) += n_bound;
    acc
}

pub(crate) fn parallel<I: Sync, F: Fn(&[I]) -> Acc + Sync>(items: &[I], threads: usize, f: F) -> Vec<Acc> {
    let chunk = (items.len() + threads - 1) / threads.max(1);
    if chunk == 0 { return vec![]; }
    std::thread::scope(|s| {
        let hs: Vec<_> = items.chunks(chunk).map(|c| { let f = &f; s.spawn(move || f(c)) }).collect();
        hs.into_iter().map(|h| h.join().expect("worker thread panicked")).collect()
    })
}

/// the hue list of a space: the dense sweep, the exact sector edges of the hexcone (k·60°, also negative and beyond one turn) ± ulps,
/// the hues of the sRGB primaries and secondaries *as this space reports them* ± ulps, and (Ok) the documented gap below blue
fn hue_list<T: Fl>(sp: &Space<T>, n_hues: usize) -> Vec<(usize, T)> {
    let mut v: Vec<T> = (0..n_hues).map(|i| T::of(360.0 * i as f64 / n_hues as f64)).collect();
    for k in -6..=12 { for d in [0i64, 1, -1, 2, -2, 16, -16] { v.push(T::of(k as f64 * 60.0).nudge(d)); } }
    for m in 1..7u32 {
        let c = [if m & 1 != 0 { 1.0 } else { 0.0 }, if m & 2 != 0 { 1.0 } else { 0.0 }, if m & 4 != 0 { 1.0 } else { 0.0 }];
        let (x, _) = (sp.from_rgb[0])(arr_of(c), &mut None);
        if x[0].finite() { for d in [0i64, 1, -1, 2, -2, 16, -16, 1000, -1000] { v.push(x[0].nudge(d)); } }
    }
    if sp.kind == Kind::Ok { for h in [264.0520206f64, 264.05202060270286, 264.052020638055, 29.233885192342633, 142.49533888780996] { for d in [0i64, 1, -1, 16, -16] { v.push(T::of(h).nudge(d)); } } }
    v.into_iter().enumerate().collect()
}

pub(crate) fn forward<T: Fl + Send + Sync>(out: &mut Out, sp: &Space<T>, n_hues: usize, g: usize, stride: usize, threads: usize) {
    let hues = hue_list(sp, n_hues);
    out.count_n(&format!("cls:hues:{}:{}", sp.name, T::TAG), hues.len() as u64);
    for acc in parallel(&hues, threads, |c| forward_chunk(sp, c, g, stride)) { acc.merge_into(out); }
    // the neighbourhoods of the six chromatic corners of the cube, where the gamut surface has its tips: hue within ±0.3° and the
    // lightness-like component within ±0.2 % of its range of the corner's own, saturation-like component at its bound and just below
    let tol = tol_of::<T>(sp.kind);
    let mut acc = Acc::default();
    let mut worst = f64::NEG_INFINITY;
    for m in 1..7u32 {
        let c = [if m & 1 != 0 { 1.0 } else { 0.0 }, if m & 2 != 0 { 1.0 } else { 0.0 }, if m & 4 != 0 { 1.0 } else { 0.0 }];
        let (x0, _) = (sp.from_rgb[0])(arr_of(c), &mut None);
        if !x0.iter().all(|v| v.finite()) { continue; }
        let x0 = to64(&x0);
        for ih in -15..=15 { for ib in -40..=40 { for a_scale in [1.0, 1.0 - 1e-3] {
            let h = x0[0] + ih as f64 * 0.02;
            let a = (x0[1] * a_scale).clamp(0.0, sp.scale);
            let b = (x0[2] + ib as f64 * 5e-5 * sp.scale).clamp(0.0, sp.scale);
            if sp.hwb && !(a + b <= sp.scale) { continue; }
            let x: [T; 3] = [T::of(h), T::of(a), T::of(b)];
            let x64 = to64(&x);
            if known_fwd(sp, &x64).is_some() || (base_name(sp.name) == "Okhsl" && x64[2] < 1.0 && x64[2] > 1.0 - T::eps()) { continue; }
            for t in 0..2 {
                let (rgb, _) = (sp.to_rgb[t])(x, &mut None);
                let r64 = to64(&rgb);
                let ex = if sp.kind == Kind::Hex { excess(&r64) } else { excess(&lin_of(&sp.targets[t], &r64)) };
                if ex > worst || ex.is_nan() { worst = ex; }
                acc.check(ex <= tol, &format!("gamut-near-corner:{}->{}:{}", sp.name, sp.targets[t].name, T::TAG), || format!("{}{:?} (next to the cube corner {:?}) -> {} {:?} (excess {:e}, tolerance {:e})", sp.name, x, c, sp.targets[t].name, rgb, ex, tol));
            }
        } } }
        acc.count(&format!("cls:corner-neighbourhood:{}:{}", sp.name, T::TAG));
    }
    if worst != f64::NEG_INFINITY { acc.maxi(&format!("gamut-excess-near-corner:{}:{}", sp.name, T::TAG), worst); }
    acc.merge_into(out);
}

// ------------------------------------------------------------------------------------------------------------------- converse (b)

fn rgb_sources(rng: &mut Rng, lattice: &[f64], n_rand: usize) -> Vec<[f64; 3]> {
    let mut v = vec![];
    for &r in lattice { for &g in lattice { for &b in lattice { v.push([r, g, b]); } } }
    // ramps of the primaries and secondaries (their hue directions are where the Ok cusp search switches coefficient sets)
    for i in 1..=32 { let x = i as f64 / 32.0; for m in 1..7u32 { v.push([if m & 1 != 0 { x } else { 0.0 }, if m & 2 != 0 { x } else { 0.0 }, if m & 4 != 0 { x } else { 0.0 }]); } }
    for i in 0..=32 { let x = i as f64 / 32.0; v.push([x, x, x]); }
    for _ in 0..n_rand { v.push([rng.unit(), rng.unit(), rng.unit()]); }
    // faces and edges of the cube (the gamut surface: where saturation-like components sit on their upper bound)
    for _ in 0..n_rand / 2 { let mut c = [rng.unit(), rng.unit(), rng.unit()]; c[rng.below(3) as usize] = if rng.chance(0.5) { 0.0 } else { 1.0 }; v.push(c); }
    for _ in 0..n_rand / 4 { let k = rng.below(3) as usize; let mut c = [rng.unit(); 3]; for i in 0..3 { if i != k { c[i] = if rng.chance(0.5) { 0.0 } else { 1.0 }; } } v.push(c); }
    // next to the surface
    for _ in 0..n_rand / 4 { let mut c = [rng.unit(), rng.unit(), rng.unit()]; c[rng.below(3) as usize] = if rng.chance(0.5) { 1e-9 * rng.unit() } else { 1.0 - 1e-9 * rng.unit() }; v.push(c); }
    v
}

/// Witnesses of "within the bounds up to the tolerance".  The forward clause says that the solid of in-bounds colours lies inside the RGB
/// cube grown by `tol`; the converse, read with *the same tolerance*, says that every in-gamut colour is within `tol` (in every channel of
/// the RGB representation the tolerance is declared in) of a colour whose components are within the documented bounds.  Candidate `0` is
/// the colour moved towards mid-gray, `c' = tol + c·(1 − 2·tol)` (the cube shrunk by `tol`); candidates `1..` are the colour displaced by
/// `±tol` / `±tol/2` along the channel axes and diagonals, kept inside the cube.  The clause holds if any candidate is within bounds (an
/// existence statement; the search is finite and fixed).  The fallback candidates matter for Okhsl only: around hue 100° (between the red
/// = 1 and green = 1 faces, lightness ≈ 0.93) the single Halley step of `find_gamut_intersection` lands up to 5e-3 (in saturation) on either
/// side of the surface from one hue to the next, so that the nearest in-bounds colour is not always the one towards gray.
fn witness<T: Fl>(kind: Kind, t: &Target, src: &[f64; 3], tol: f64, cand: usize) -> [T; 3] {
    let lin = if kind == Kind::Hex { *src } else { lin_of(t, src) };
    let w: [f64; 3] = if cand == 0 { [tol + lin[0] * (1.0 - 2.0 * tol), tol + lin[1] * (1.0 - 2.0 * tol), tol + lin[2] * (1.0 - 2.0 * tol)] } else {
        let k = cand - 1; let h = if k < 27 { tol } else { 0.5 * tol }; let k = k % 27;
        let d = [(k % 3) as f64 - 1.0, ((k / 3) % 3) as f64 - 1.0, ((k / 9) % 3) as f64 - 1.0];
        [(lin[0] + h * d[0]).clamp(0.0, 1.0), (lin[1] + h * d[1]).clamp(0.0, 1.0), (lin[2] + h * d[2]).clamp(0.0, 1.0)]
    };
    if kind == Kind::Hex { [T::of(w[0]), T::of(w[1]), T::of(w[2])] }
    else { // tolerance declared in linear light, source encoded: re-encode (f64 reference OETF; the identity for a linear target)
        [T::of((t.oetf)(w[0])), T::of((t.oetf)(w[1])), T::of((t.oetf)(w[2]))]
    }
}
const N_WITNESS: usize = 55;

fn reverse_chunk<T: Fl + Send + Sync>(sp: &Space<T>, srcs: &[(usize, [f64; 3])], stride: usize) -> Acc {
    let mut acc = Acc::default();
    let tol = tol_of::<T>(sp.kind);
    // converts back to the same RGB colour, measured in linear RGB.  Hexcone: exact at ℝ (C15.rgb_hsv_rgb, rgb_hsl_rgb, rgb_hwb_rgb); the
    // stored hue carries ≤ 4 ulp of 360°, i.e. ≤ 24 ulp of the sector coordinate, times the chroma: 64 eps.  Hsluv and Ok: the route's
    // approximate matrix pairs (7-digit sRGB tables 1.85e-7 per Rgb<->Xyz round trip, Oklab's 10-digit pairs 1.8e-6 in linear light) and
    // rounding through cube roots and hue trigonometry: the C01 constants 2e-6 (f64) / 2e-4 (f32), 6e-4 in f32 through Okhsl/Okhsv/Okhwb.
    let tol_rt = match sp.kind { Kind::Hex => 64.0 * T::eps(), Kind::Hsluv => if T::TAG == "f32" { 2e-4 } else { 2e-6 }, Kind::Ok => if T::TAG == "f32" { 6e-4 } else { 2e-6 } };
    for &(si, c) in srcs {
        let src: [T; 3] = arr_of(c);
        let s64 = to64(&src);
        let emit = si % stride == 0;
        for t in 0..2 {
            let lin_src = lin_of(&sp.targets[t], &s64);
            let known = known_rev(sp, &lin_src);
            let key = format!("{}->{}:{}", sp.targets[t].name, sp.name, T::TAG);
            let mut local: Vec<String> = vec![];
            let mut lines: Lines = if emit { Some(&mut local) } else { None };
            let (x, chain_ok) = (sp.from_rgb[t])(src, &mut lines);
            if emit { acc.check(chain_ok, &format!("derived-route-is-edge-chain:{}", key), || format!("{:?}: the single from_color_unclamped call and the chain of hand-written edges differ", src)); }
            let x64 = to64(&x);
            // back to RGB (unclamped, as the property says)
            let (back, chain_ok2) = (sp.to_rgb[t])(x, &mut lines);
            acc.lines.append(&mut local);
            if emit { acc.check(chain_ok2, &format!("derived-route-is-edge-chain:{}->{}:{}", sp.name, sp.targets[t].name, T::TAG), || format!("{:?}: the single from_color_unclamped call and the chain of hand-written edges differ", x)); }
            let lin_back = lin_of(&sp.targets[t], &to64(&back));
            let e_rt = if lin_back.iter().any(|v| v.is_nan()) { f64::NAN } else { (0..3).fold(0.0f64, |m, i| m.max((lin_back[i] - lin_src[i]).abs())) };
            let over = overshoot(sp, &x64);
            let finite = x.iter().all(|v| v.finite());
            let pre = match known { Some(k) => format!("{}:", k), None => String::new() };
            let sfx = match known { Some(k) => format!("-in-{}", k), None => String::new() };
            // ---- the components are numbers
            let hsl_top = base_name(sp.name) == "Hsl" && !finite && { let (mx, mn) = (s64.iter().cloned().fold(0.0, f64::max), s64.iter().cloned().fold(1.0, f64::min)); mx == 1.0 && mn < 1.0 && T::of(mx + mn).to64() == 2.0 };
            if hsl_top { acc.check(finite, &format!("hsl-white-inf-C15:finite:{}", key), || format!("{} {:?} -> Hsl{:?}: max = 1 and max + min rounds to 2; `d / (2 - sum)` is d / 0 there (repaired by 4f36dd5: `(1 - max) + (1 - min)`)", sp.targets[t].name, src, x)); }
            else { acc.check(finite, &format!("{}finite:{}", pre, key), || format!("{} {:?} -> {}{:?}", sp.targets[t].name, src, sp.name, x)); }
            // ---- within the documented bounds up to the same tolerance (see `witness`)
            let (mut over_w, mut w, mut xw, mut tried) = (f64::INFINITY, src, x, 0usize);
            for cand in 0..N_WITNESS {
                let wc = witness::<T>(sp.kind, &sp.targets[t], &s64, tol, cand);
                let (xc, _) = (sp.from_rgb[t])(wc, &mut None);
                let o = overshoot(sp, &to64(&xc));
                tried = cand + 1;
                if o < over_w || cand == 0 { over_w = o; w = wc; xw = xc; }
                // the witness is strictly inside at ℝ; its stored components carry one rounding each (w + b of two rounded numbers: ≤ 1 + eps)
                if o <= 2.0 * T::eps() { break; }
            }
            if tried > 1 { acc.count(&format!("cls:bounds-witness-not-towards-gray:{}", key)); }
            acc.maxi(&format!("bounds-overshoot-of-witness{}:{}", sfx, key), over_w);
            acc.check(over_w <= 2.0 * T::eps(), &format!("{}bounds:{}", pre, key), || format!("{} {:?} -> {}{:?} ({:e} of the component range outside the documented bounds), and none of the {} colours within {:e} of it in every {} channel is within the bounds either; closest: {:?} -> {}{:?}, still {:e} outside", sp.targets[t].name, src, sp.name, x, over, N_WITNESS, tol, if sp.kind == Kind::Hex { "RGB" } else { "linear RGB" }, w, sp.name, xw, over_w));
            if finite {
                // the literal component reading, for the record (and, at the poles of HSLuv, as a clause: there the published reference
                // returns S = 0 by an explicit guard, so the bound on the *component* does not depend on how a tolerance is transported)
                acc.maxi(&format!("bounds-overshoot-literal{}:{}", sfx, key), over);
                if sp.kind == Kind::Hsluv && known.is_some() {
                    acc.check(over <= tol, &format!("{}bounds-literal:{}", pre, key), || format!("{} {:?} -> Hsluv{:?}: saturation {:e} of its range above the documented maximum (the HSLuv reference returns S = 0 for L > 99.9999999 and L < 1e-8)", sp.targets[t].name, src, x, over));
                }
                if sp.kind != Kind::Hex && over > 0.0 {
                    // distance, in linear RGB, between the colour and the colour with the same hue and the components clamped to the bounds
                    let (rc, _) = (sp.to_rgb[t])(clamp_to_bounds(sp, &x), &mut None);
                    let lc = lin_of(&sp.targets[t], &to64(&rc));
                    let e_clamped = if lc.iter().any(|v| v.is_nan()) { f64::NAN } else { (0..3).fold(0.0f64, |m, i| m.max((lc[i] - lin_src[i]).abs())) };
                    acc.maxi(&format!("clamped-to-bounds-distance-linear-rgb{}:{}", sfx, key), e_clamped);
                }
                // ---- and back
                acc.maxi(&format!("roundtrip-err-linear-rgb{}:{}", sfx, key), e_rt);
                acc.check(e_rt <= tol_rt, &format!("{}roundtrip:{}", pre, key), || format!("{} {:?} -> {}{:?} -> {} {:?} (linear-RGB distance {:e}, tolerance {:e})", sp.targets[t].name, src, sp.name, x, sp.targets[t].name, back, e_rt, tol_rt));
            }
            // what the published reference does with the same colour (f64): its own overshoot, for the record
            if sp.kind == Kind::Ok && known.is_none() && t == 1 && T::TAG == "f64" {
                let lab = spec::linear_srgb_to_oklab(lin_src);
                if lab[1].hypot(lab[2]) > 1e-6 && lab[0] > 1e-6 && lab[0] < 1.0 - 1e-6 {
                    let r = match base_name(sp.name) { "Okhsl" => spec::oklab_to_okhsl(lab), "Okhsv" => spec::oklab_to_okhsv(lab), _ => spec::okhsv_to_okhwb(spec::oklab_to_okhsv(lab)) };
                    acc.maxi(&format!("bounds-overshoot-literal-of-reference-ok_color.h:{}", sp.name), overshoot(sp, &r));
                }
            }
        }
        let on_surface = c.iter().any(|&v| v == 0.0 || v == 1.0);
        acc.count(&format!("cls:rgb-{}:{}:{}", if on_surface { "on-gamut-surface" } else { "interior" }, sp.name, T::TAG));
    }
    acc
}

pub(crate) fn reverse<T: Fl + Send + Sync>(out: &mut Out, sp: &Space<T>, srcs: &[[f64; 3]], stride: usize, threads: usize) {
    let mut all: Vec<[f64; 3]> = srcs.to_vec();
    // the corners of the cube approached in ulps of T: channels at 1 / one ulp below 1, at 0 / the smallest subnormal / the smallest normal
    let (p1, p2) = (T::of(1.0).nudge(-1).to64(), T::of(1.0).nudge(-2).to64());
    let tiny = T::of(0.0).nudge(1).to64();
    let norm = if T::TAG == "f32" { f32::MIN_POSITIVE as f64 } else { f64::MIN_POSITIVE };
    for hi in [[1.0, p1], [1.0, p2], [p1, p2], [0.0, tiny], [0.0, norm], [tiny, norm], [1.0, tiny], [p1, 0.0]] { for m in 1..7u32 { all.push([hi[(m & 1) as usize], hi[((m >> 1) & 1) as usize], hi[((m >> 2) & 1) as usize]]); } }
    // two components a few ulps of T apart (the hue of such a colour is a tiny positive or negative angle next to a sector edge, which the
    // unsigned normal form rounds to exactly 0 or 360), in every order and with the third component above, between and below
    for &(y, z) in &[(0.25f64, 0.5f64), (0.5, 0.25), (0.25, 0.75), (0.0, 1.0), (1.0, 0.0), (0.999, 0.001), (0.4, 0.4000001)] {
        for k in [1i64, -1, 2, -3] {
            let y2 = T::of(y).nudge(k).to64();
            if !(0.0..=1.0).contains(&y2) { continue; }
            for perm in 0..6 { let v = [z, y, y2]; let p = [[0, 1, 2], [0, 2, 1], [1, 0, 2], [1, 2, 0], [2, 0, 1], [2, 1, 0]][perm]; all.push([v[p[0]], v[p[1]], v[p[2]]]); }
        }
    }
    let items: Vec<(usize, [f64; 3])> = all.into_iter().enumerate().collect();
    for acc in parallel(&items, threads, |c| reverse_chunk(sp, c, stride)) { acc.merge_into(out); }
}

// ------------------------------------------------------------------------------------------------------------------- the spaces

/// a conversion given as the single call the property names plus its chain of hand-written edges
macro_rules! conv {
    ($T:ty; $src:ty => $dst:ty; $( $S:ty => $D:ty : $sn:expr, $dn:expr );+ ) => {
        Box::new(|a: [$T; 3], lines: &mut Lines| -> ([$T; 3], bool) {
            let direct: [$T; 3] = one::<$src, $dst, $T>(a);
            if lines.is_some() {
                let mut cur = a;
                $( cur = step::<$S, $D, $T>($sn, $dn, cur, lines); )+
                (direct, same_bits(&direct, &cur))
            } else { (direct, true) }
        }) as Conv<$T>
    };
}

macro_rules! family { ($fname:ident, $t:ty) => {
pub(crate) fn $fname() -> Vec<Space<$t>> {
    type T = $t;
    type S = encoding::Srgb;
    type L = Linear<encoding::Srgb>;
    vec![
        Space { name: "Hsv", kind: Kind::Hex, scale: 1.0, hwb: false, slack: 0.0, targets: TARGETS,
            to_rgb: [conv!(T; Hsv<S, T> => Rgb<S, T>; Hsv<S, T> => Rgb<S, T>: "Hsv:Srgb", "Rgb:Srgb"),
                     conv!(T; Hsv<L, T> => Rgb<L, T>; Hsv<L, T> => Rgb<L, T>: "Hsv:LinSrgb", "Rgb:LinSrgb")],
            from_rgb: [conv!(T; Rgb<S, T> => Hsv<S, T>; Rgb<S, T> => Hsv<S, T>: "Rgb:Srgb", "Hsv:Srgb"),
                       conv!(T; Rgb<L, T> => Hsv<L, T>; Rgb<L, T> => Hsv<L, T>: "Rgb:LinSrgb", "Hsv:LinSrgb")] },
        Space { name: "Hsl", kind: Kind::Hex, scale: 1.0, hwb: false, slack: 0.0, targets: TARGETS,
            to_rgb: [conv!(T; Hsl<S, T> => Rgb<S, T>; Hsl<S, T> => Rgb<S, T>: "Hsl:Srgb", "Rgb:Srgb"),
                     conv!(T; Hsl<L, T> => Rgb<L, T>; Hsl<L, T> => Rgb<L, T>: "Hsl:LinSrgb", "Rgb:LinSrgb")],
            from_rgb: [conv!(T; Rgb<S, T> => Hsl<S, T>; Rgb<S, T> => Hsl<S, T>: "Rgb:Srgb", "Hsl:Srgb"),
                       conv!(T; Rgb<L, T> => Hsl<L, T>; Rgb<L, T> => Hsl<L, T>: "Rgb:LinSrgb", "Hsl:LinSrgb")] },
        Space { name: "Hwb", kind: Kind::Hex, scale: 1.0, hwb: true, slack: 0.0, targets: TARGETS,
            to_rgb: [conv!(T; Hwb<S, T> => Rgb<S, T>; Hwb<S, T> => Hsv<S, T>: "Hwb:Srgb", "Hsv:Srgb"; Hsv<S, T> => Rgb<S, T>: "Hsv:Srgb", "Rgb:Srgb"),
                     conv!(T; Hwb<L, T> => Rgb<L, T>; Hwb<L, T> => Hsv<L, T>: "Hwb:LinSrgb", "Hsv:LinSrgb"; Hsv<L, T> => Rgb<L, T>: "Hsv:LinSrgb", "Rgb:LinSrgb")],
            from_rgb: [conv!(T; Rgb<S, T> => Hwb<S, T>; Rgb<S, T> => Hsv<S, T>: "Rgb:Srgb", "Hsv:Srgb"; Hsv<S, T> => Hwb<S, T>: "Hsv:Srgb", "Hwb:Srgb"),
                       conv!(T; Rgb<L, T> => Hwb<L, T>; Rgb<L, T> => Hsv<L, T>: "Rgb:LinSrgb", "Hsv:LinSrgb"; Hsv<L, T> => Hwb<L, T>: "Hsv:LinSrgb", "Hwb:LinSrgb")] },
        Space { name: "Okhsv", kind: Kind::Ok, scale: 1.0, hwb: false, slack: 1e-6, targets: TARGETS,
            to_rgb: [conv!(T; Okhsv<T> => Rgb<S, T>; Okhsv<T> => Oklab<T>: "Okhsv", "Oklab"; Oklab<T> => Rgb<S, T>: "Oklab", "Rgb:Srgb"),
                     conv!(T; Okhsv<T> => Rgb<L, T>; Okhsv<T> => Oklab<T>: "Okhsv", "Oklab"; Oklab<T> => Rgb<L, T>: "Oklab", "Rgb:LinSrgb")],
            from_rgb: [conv!(T; Rgb<S, T> => Okhsv<T>; Rgb<S, T> => Oklab<T>: "Rgb:Srgb", "Oklab"; Oklab<T> => Okhsv<T>: "Oklab", "Okhsv"),
                       conv!(T; Rgb<L, T> => Okhsv<T>; Rgb<L, T> => Oklab<T>: "Rgb:LinSrgb", "Oklab"; Oklab<T> => Okhsv<T>: "Oklab", "Okhsv")] },
        Space { name: "Okhsl", kind: Kind::Ok, scale: 1.0, hwb: false, slack: 0.0, targets: TARGETS,
            to_rgb: [conv!(T; Okhsl<T> => Rgb<S, T>; Okhsl<T> => Oklab<T>: "Okhsl", "Oklab"; Oklab<T> => Rgb<S, T>: "Oklab", "Rgb:Srgb"),
                     conv!(T; Okhsl<T> => Rgb<L, T>; Okhsl<T> => Oklab<T>: "Okhsl", "Oklab"; Oklab<T> => Rgb<L, T>: "Oklab", "Rgb:LinSrgb")],
            from_rgb: [conv!(T; Rgb<S, T> => Okhsl<T>; Rgb<S, T> => Oklab<T>: "Rgb:Srgb", "Oklab"; Oklab<T> => Okhsl<T>: "Oklab", "Okhsl"),
                       conv!(T; Rgb<L, T> => Okhsl<T>; Rgb<L, T> => Oklab<T>: "Rgb:LinSrgb", "Oklab"; Oklab<T> => Okhsl<T>: "Oklab", "Okhsl")] },
        Space { name: "Okhwb", kind: Kind::Ok, scale: 1.0, hwb: true, slack: 0.0, targets: TARGETS,
            to_rgb: [conv!(T; Okhwb<T> => Rgb<S, T>; Okhwb<T> => Okhsv<T>: "Okhwb", "Okhsv"; Okhsv<T> => Oklab<T>: "Okhsv", "Oklab"; Oklab<T> => Rgb<S, T>: "Oklab", "Rgb:Srgb"),
                     conv!(T; Okhwb<T> => Rgb<L, T>; Okhwb<T> => Okhsv<T>: "Okhwb", "Okhsv"; Okhsv<T> => Oklab<T>: "Okhsv", "Oklab"; Oklab<T> => Rgb<L, T>: "Oklab", "Rgb:LinSrgb")],
            from_rgb: [conv!(T; Rgb<S, T> => Okhwb<T>; Rgb<S, T> => Oklab<T>: "Rgb:Srgb", "Oklab"; Oklab<T> => Okhsv<T>: "Oklab", "Okhsv"; Okhsv<T> => Okhwb<T>: "Okhsv", "Okhwb"),
                       conv!(T; Rgb<L, T> => Okhwb<T>; Rgb<L, T> => Oklab<T>: "Rgb:LinSrgb", "Oklab"; Oklab<T> => Okhsv<T>: "Oklab", "Okhsv"; Okhsv<T> => Okhwb<T>: "Okhsv", "Okhwb")] },
        Space { name: "Hsluv", kind: Kind::Hsluv, scale: 100.0, hwb: false, slack: 0.0, targets: TARGETS,
            to_rgb: [conv!(T; Hsluv<D65, T> => Rgb<S, T>; Hsluv<D65, T> => Lchuv<D65, T>: "Hsluv:D65", "Lchuv:D65"; Lchuv<D65, T> => Luv<D65, T>: "Lchuv:D65", "Luv:D65"; Luv<D65, T> => Xyz<D65, T>: "Luv:D65", "Xyz:D65"; Xyz<D65, T> => Rgb<S, T>: "Xyz:D65", "Rgb:Srgb"),
                     conv!(T; Hsluv<D65, T> => Rgb<L, T>; Hsluv<D65, T> => Lchuv<D65, T>: "Hsluv:D65", "Lchuv:D65"; Lchuv<D65, T> => Luv<D65, T>: "Lchuv:D65", "Luv:D65"; Luv<D65, T> => Xyz<D65, T>: "Luv:D65", "Xyz:D65"; Xyz<D65, T> => Rgb<L, T>: "Xyz:D65", "Rgb:LinSrgb")],
            from_rgb: [conv!(T; Rgb<S, T> => Hsluv<D65, T>; Rgb<S, T> => Xyz<D65, T>: "Rgb:Srgb", "Xyz:D65"; Xyz<D65, T> => Luv<D65, T>: "Xyz:D65", "Luv:D65"; Luv<D65, T> => Lchuv<D65, T>: "Luv:D65", "Lchuv:D65"; Lchuv<D65, T> => Hsluv<D65, T>: "Lchuv:D65", "Hsluv:D65"),
                       conv!(T; Rgb<L, T> => Hsluv<D65, T>; Rgb<L, T> => Xyz<D65, T>: "Rgb:LinSrgb", "Xyz:D65"; Xyz<D65, T> => Luv<D65, T>: "Xyz:D65", "Luv:D65"; Luv<D65, T> => Lchuv<D65, T>: "Luv:D65", "Lchuv:D65"; Lchuv<D65, T> => Hsluv<D65, T>: "Lchuv:D65", "Hsluv:D65")] },
    ]
}
}}
family!(spaces_f32, f32);
family!(spaces_f64, f64);

fn run_t<T: Fl + Send + Sync>(out: &mut Out, spaces: &[Space<T>], srcs: &[[f64; 3]], tier: &str, threads: usize) {
    // hue every 0.5° (quick) / 0.01° (thorough); 21- / 101-point component grids including both bounds
    let (n_hues, g) = if tier == "thorough" { (36_000, 100) } else { (720, 20) };
    // about every 60th (quick) / 9000th (thorough) grid point is also replayed through the Lean model, edge by edge
    let (stride_f, stride_r) = if tier == "thorough" { (8999, 23) } else { (61, 3) };
    for sp in spaces {
        forward(out, sp, n_hues, g, stride_f, threads);
        reverse(out, sp, srcs, stride_r, threads);
    }
}

pub fn run(tier: &str, seed: u64, dir: &str) {
    let mut out = Out::new("C15", dir);
    let mut rng = Rng::new(seed);
    let threads = std::thread::available_parallelism().map(|n| n.get()).unwrap_or(4).min(16);
    let thorough = tier == "thorough";
    let lattice: Vec<f64> = if thorough { (0..=16).map(|i| i as f64 / 16.0).chain([1.0 / 255.0, 254.0 / 255.0, 1e-4, 1.0 - 1e-4]).collect() }
                            else { vec![0.0, 1.0 / 255.0, 0.25, 0.5, 0.75, 254.0 / 255.0, 1.0] };
    let srcs = rgb_sources(&mut rng, &lattice, if thorough { 200_000 } else { 4_000 });
    run_t::<f32>(&mut out, &spaces_f32(), &srcs, tier, threads);
    run_t::<f64>(&mut out, &spaces_f64(), &srcs, tier, threads);
    // coverage audit: RGB standards, wrapper / collection forms, entry points and hue ranges the clauses above do not drive (`c15_more.rs`)
    crate::c15_more::run_more(&mut out, &mut rng, &srcs, tier, threads);
    out.finish(dir, &format!("\"exhaustive\":{{\"hue-grid\":\"{} hues x {}-point component grids (bounds included) x 7 spaces x f32/f64 x Srgb/LinSrgb\"}}", if thorough { 36000 } else { 720 }, if thorough { 101 } else { 21 }));
}
