//! C07 coverage audit (AUDIT_C07.md): surfaces inside the property's quantifier that `c07.rs` / `c07_ops.rs` did not drive.
//!
//! A. EDGE LATTICE.  The per-component lattice of `c07.rs` rounds `hi - 1e-9*range` to the component type first; in f32 that IS the
//!    bound again (1 - 1e-9 == 1.0f32), so the f32 lattice never held the admissible value closest to a bound (one ulp inside:
//!    max = 1, min = 1 - 2^-24), the quick tier's `small` lattice has no value next to the upper bound / next to zero at all, and
//!    `settle` steps the wrong way for negative values (the point is dropped when its first rounding is inadmissible).  Here, for
//!    every component of every space: exactly lo, exactly hi, exactly 0, the admissible value of T closest to lo / hi / 0 from
//!    inside (and the next one), each combined with interior values and with the bounds of the other components; hues exactly on,
//!    one ulp beside and 1e-9 turn beside every sector edge.  `c07.rs` appends these colours to the lattice of EVERY hand-written
//!    edge (with its `convfin` line) and of every derived pair, `c07_ops.rs` runs every operator / blend / difference / CAM16 clause a
//!    second time on them (`run_ops_edge`).  Same clauses, same domain (every value passes `admissible`).
//! B.. the forms of the API the operators / conversions / differences were never called through (see the section headers).
//! Every clause is the property's own predicate: no panic, every float of the result finite.  Nothing is compared for equality.
#![allow(clippy::too_many_arguments, clippy::type_complexity, unused_macros, deprecated)]
use crate::c07::{admissible, judge_known, space_box, Comp, F};
use crate::common::*;
use std::panic::{catch_unwind, AssertUnwindSafe};

// ------------------------------------------------------------------------------------------------ A. edge lattice

/// the admissible value of `T` closest to the bound, strictly inside the range
fn innermost<T: F>(lo: f64, hi: f64, at_lo: bool) -> Option<T> {
    let r = hi - lo;
    if !(r > 0.0) { return None; }
    let mut v = T::of(if at_lo { lo + 1e-9 * r } else { hi - 1e-9 * r });
    for _ in 0..8 {
        let w = v.to64();
        if (if at_lo { w > lo } else { w < hi }) && admissible(w, lo, hi) { return Some(v); }
        v = v.nudge(if at_lo { 1 } else { -1 });
    }
    None
}
/// the admissible value closest to zero on the given side (ranges that straddle zero)
fn next_to_zero<T: F>(lo: f64, hi: f64, positive: bool) -> Option<T> {
    if !(lo < 0.0 && 0.0 < hi) { return None; }
    let mut v = T::of(if positive { 1e-9 * (hi - lo) } else { -1e-9 * (hi - lo) });
    for _ in 0..8 {
        if v.to64() != 0.0 && admissible(v.to64(), lo, hi) { return Some(v); }
        v = v.nudge(if positive { 1 } else { -1 });
    }
    None
}

fn push_u<T: F>(v: &mut Vec<T>, x: Option<T>, lo: f64, hi: f64) {
    if let Some(x) = x { if admissible(x.to64(), lo, hi) && !v.iter().any(|y| y.bits64() == x.bits64()) { v.push(x); } }
}

/// boundary values of one component (all admissible)
fn edge_values<T: F>(c: Comp) -> Vec<T> {
    let mut v = vec![];
    match c {
        Comp::R(lo, hi) => {
            push_u(&mut v, Some(T::of(lo)), lo, hi); push_u(&mut v, Some(T::of(hi)), lo, hi);
            if lo <= 0.0 && 0.0 <= hi { push_u(&mut v, Some(T::of(0.0)), lo, hi); }
            for at_lo in [true, false] {
                let i = innermost::<T>(lo, hi, at_lo);
                push_u(&mut v, i, lo, hi);
                push_u(&mut v, i.map(|x| x.nudge(if at_lo { 1 } else { -1 })), lo, hi);
            }
            for pos in [true, false] {
                let z = next_to_zero::<T>(lo, hi, pos);
                push_u(&mut v, z, lo, hi);
                push_u(&mut v, z.map(|x| x.nudge(if pos { 1 } else { -1 })), lo, hi);
            }
        }
        Comp::Hue => {
            for k in -3..=6 {
                let h = T::of(60.0 * k as f64);
                for x in [h, h.nudge(1), h.nudge(-1), T::of(h.to64() + 3.6e-7), T::of(h.to64() - 3.6e-7)] { push_u(&mut v, Some(x), -180.0, 360.0); }
            }
        }
    }
    v
}
/// values of the OTHER components: two interior values that are no round numbers, and both bounds
fn other_values<T: F>(c: Comp) -> Vec<T> {
    let mut v = vec![];
    match c {
        Comp::R(lo, hi) => { for x in [lo + 0.3217 * (hi - lo), lo + 0.7093 * (hi - lo), lo, hi] { push_u(&mut v, Some(T::of(x)), lo, hi); } }
        Comp::Hue => { for x in [137.5, 30.0, 0.0, 240.0] { push_u(&mut v, Some(T::of(x)), -180.0, 360.0); } }
    }
    if v.is_empty() { v.push(T::of(0.0)); }
    v
}

/// the edge lattice of a box: component i on one of its boundary values x every combination of `other_values` of the rest, plus two
/// components next to their bounds at once (max = 1 with min = 1 - ulp is in the first family; 1 - ulp twice is in the second)
pub fn edge_colours<T: F, const N: usize>(bx: &[Comp; N]) -> Vec<[T; N]> {
    let ev: Vec<Vec<T>> = bx.iter().map(|c| edge_values::<T>(*c)).collect();
    let ov: Vec<Vec<T>> = bx.iter().map(|c| other_values::<T>(*c)).collect();
    let mut seen = std::collections::HashSet::new();
    let mut out: Vec<[T; N]> = vec![];
    let mut put = |a: [T; N]| { let k: Vec<u64> = a.iter().map(|x| x.bits64()).collect(); if seen.insert(k) { out.push(a); } };
    for i in 0..N {
        for &e in &ev[i] {
            let total: usize = (0..N).filter(|j| *j != i).map(|j| ov[j].len()).product();
            for mut k in 0..total {
                let mut a = [T::of(0.0); N];
                for j in 0..N { if j == i { a[j] = e; } else { a[j] = ov[j][k % ov[j].len()]; k /= ov[j].len(); } }
                put(a);
            }
        }
    }
    // two components next to a bound at once (not exactly on it: that is the first family), third on an interior value or a bound
    let near: Vec<Vec<T>> = bx.iter().map(|c| match *c {
        Comp::R(lo, hi) => [innermost::<T>(lo, hi, true), innermost::<T>(lo, hi, false)].iter().flatten().cloned().collect(),
        Comp::Hue => vec![T::of(60.0).nudge(-1), T::of(180.0).nudge(1)],
    }).collect();
    for i in 0..N { for j in (i + 1)..N {
        for &x in &near[i] { for &y in &near[j] {
            let rest: Vec<usize> = (0..N).filter(|k| *k != i && *k != j).collect();
            let total: usize = rest.iter().map(|k| ov[*k].len()).product();
            for mut k in 0..total.max(1) {
                let mut a = [T::of(0.0); N]; a[i] = x; a[j] = y;
                for &m in &rest { a[m] = ov[m][k % ov[m].len()]; k /= ov[m].len(); }
                put(a);
            }
        } }
    } }
    out
}

/// `cs` followed by the edge colours it does not contain yet
pub fn extend<T: F, const N: usize>(bx: &[Comp; N], mut cs: Vec<[T; N]>) -> Vec<[T; N]> {
    let have: std::collections::HashSet<Vec<u64>> = cs.iter().map(|a| a.iter().map(|x| x.bits64()).collect()).collect();
    for a in edge_colours::<T, N>(bx) { if !have.contains(&a.iter().map(|x| x.bits64()).collect::<Vec<u64>>()) { cs.push(a); } }
    cs
}

pub fn box_n<const N: usize>(name: &str) -> [Comp; N] { let b = space_box(if name.starts_with("Xyz") { name } else { name.split(':').next().unwrap() }); let mut o = [Comp::R(0.0, 0.0); N]; for i in 0..N { o[i] = b[i]; } o }

fn guard<R>(f: impl FnOnce() -> R) -> Option<R> { catch_unwind(AssertUnwindSafe(f)).ok() }
fn show<T: F>(a: &[T]) -> String { format!("{:?}", a.iter().map(|x| x.to64()).collect::<Vec<_>>()) }
fn judge<T: F>(out: &mut Out, what: &str, r: Option<Vec<T>>, input: &dyn Fn() -> String) { judge_known(out, what, r, input, &|_: &[T]| None); }


// ------------------------------------------------------------------------------------------------ shared by B..H

use palette::blend::{PreAlpha, Premultiply};
use palette::cast::{self, ArrayCast};
use palette::Alpha;

fn arr<C: ArrayCast<Array = [T; N]>, T, const N: usize>(c: C) -> [T; N] { cast::into_array(c) }
fn mk<C: ArrayCast<Array = [T; N]>, T, const N: usize>(a: [T; N]) -> C { cast::from_array(a) }
fn alv<C: ArrayCast<Array = [T; N]>, T: F, const N: usize>(p: Alpha<C, T>) -> Vec<T> { let mut v = arr(p.color).to_vec(); v.push(p.alpha); v }
fn prv<C: ArrayCast<Array = [T; N]> + Premultiply<Scalar = T>, T: F, const N: usize>(p: PreAlpha<C>) -> Vec<T> { let mut v = arr(p.color).to_vec(); v.push(p.alpha); v }

/// colours of the forms clauses: the quick lattice of the space with its interior stream, plus the edge lattice
fn fcols<T: F, const N: usize>(key: &str) -> Vec<[T; N]> {
    let bx = box_n::<N>(key);
    extend(&bx, crate::c07::with_interior(key, &bx, true, None, crate::c07::lattice_colours::<T, N>(&bx, true, None)))
}
/// alpha: documented range [0, 1] - both bounds, next to both bounds, middle
fn alphas<T: F>() -> Vec<T> { let mut v = edge_values::<T>(Comp::R(0.0, 1.0)); v.push(T::of(0.5)); v }
fn factors<T: F>() -> Vec<T> { alphas::<T>() }
fn hue_amounts<T: F>() -> Vec<T> { [0.0, 3.6e-7, 60.0, 180.0, -180.0, 360.0].iter().map(|&x| T::of(x)).collect() }
fn divisors<T: F>() -> Vec<T> { [1e-9, 0.5, 1.0].iter().map(|&x| T::of(x)).collect() }
/// partners of colour i for the binary forms: itself and two others
fn partners(i: usize, n: usize) -> [usize; 3] { [i, (i * 7 + 3) % n, n - 1 - i] }

macro_rules! jf { ($out:expr, $what:expr, $key:expr, $inp:expr, $body:expr) => {
    judge::<T>($out, &format!("{}:{}", $what, $key), guard(|| $body), &|| format!("{} {}", $what, $inp))
} }

// ------------------------------------------------------------------------------------------------ B. operator forms
// `c07_ops.rs` calls every operator by value on the bare colour (and Mix on Alpha).  Distinct impl blocks never called: the *Assign
// traits (own method bodies in the impl_* macros), every operator of `Alpha<C, T>` (alpha/alpha.rs), of `PreAlpha<C>` (blend/pre_alpha.rs:
// Mix, MixAssign, impl_binop!, impl_scalar_binop! for f32 and f64 separately), the slice impls of lib.rs (`[T]`: ClampAssign,
// LightenAssign, SaturateAssign, ShiftHueAssign, SetHue, IsWithinBounds) and the blanket Darken/Desaturate(+Assign) on those forms.

macro_rules! forms_mix { ($out:expr, $ty:ty, $key:expr, $n:expr) => {{
    use palette::{Mix, MixAssign};
    let cs = fcols::<T, $n>($key); let n = cs.len();
    for (i, a) in cs.iter().enumerate() { for j in partners(i, n) { let (a, b) = (*a, cs[j]);
        for f in factors::<T>() {
            jf!($out, "mix_assign", $key, format!("{}.mix_assign({}, {:?})", show(&a), show(&b), f), { let mut c = mk::<$ty, T, $n>(a); c.mix_assign(mk(b), f); arr(c).to_vec() });
            jf!($out, "mix_assign:Alpha", $key, format!("Alpha({}, {:?}).mix_assign(Alpha({}, 1), {:?})", show(&a), f, show(&b), f), { let mut c = Alpha { color: mk::<$ty, T, $n>(a), alpha: f }; c.mix_assign(Alpha { color: mk(b), alpha: T::of(1.0) }, f); alv(c) });
            jf!($out, "mix:Alpha", $key, format!("Alpha({}, {:?}).mix(Alpha({}, 0), {:?})", show(&a), f, show(&b), f), alv(Alpha { color: mk::<$ty, T, $n>(a), alpha: f }.mix(Alpha { color: mk(b), alpha: T::of(0.0) }, f)));
        }
    } }
}} }

macro_rules! forms_lighten { ($out:expr, $ty:ty, $key:expr, $n:expr) => {{
    use palette::{Darken, DarkenAssign, Lighten, LightenAssign};
    for a in fcols::<T, $n>($key) { for f in factors::<T>() {
        let inp = || format!("{} factor {:?}", show(&a), f);
        jf!($out, "lighten_assign", $key, inp(), { let mut c = mk::<$ty, T, $n>(a); c.lighten_assign(f); arr(c).to_vec() });
        jf!($out, "lighten_fixed_assign", $key, inp(), { let mut c = mk::<$ty, T, $n>(a); c.lighten_fixed_assign(f); arr(c).to_vec() });
        jf!($out, "darken_assign", $key, inp(), { let mut c = mk::<$ty, T, $n>(a); c.darken_assign(f); arr(c).to_vec() });
        jf!($out, "darken_fixed_assign", $key, inp(), { let mut c = mk::<$ty, T, $n>(a); c.darken_fixed_assign(f); arr(c).to_vec() });
        let al = f;
        jf!($out, "lighten:Alpha", $key, inp(), alv(Alpha { color: mk::<$ty, T, $n>(a), alpha: al }.lighten(f)));
        jf!($out, "lighten_fixed:Alpha", $key, inp(), alv(Alpha { color: mk::<$ty, T, $n>(a), alpha: al }.lighten_fixed(f)));
        jf!($out, "darken:Alpha", $key, inp(), alv(Alpha { color: mk::<$ty, T, $n>(a), alpha: al }.darken(f)));
        jf!($out, "darken_fixed:Alpha", $key, inp(), alv(Alpha { color: mk::<$ty, T, $n>(a), alpha: al }.darken_fixed(f)));
        jf!($out, "lighten_assign:Alpha", $key, inp(), { let mut c = Alpha { color: mk::<$ty, T, $n>(a), alpha: al }; c.lighten_assign(f); alv(c) });
        jf!($out, "lighten_fixed_assign:Alpha", $key, inp(), { let mut c = Alpha { color: mk::<$ty, T, $n>(a), alpha: al }; c.lighten_fixed_assign(f); alv(c) });
        jf!($out, "darken_assign:Alpha", $key, inp(), { let mut c = Alpha { color: mk::<$ty, T, $n>(a), alpha: al }; c.darken_assign(f); alv(c) });
        jf!($out, "darken_fixed_assign:Alpha", $key, inp(), { let mut c = Alpha { color: mk::<$ty, T, $n>(a), alpha: al }; c.darken_fixed_assign(f); alv(c) });
        // slice forms
        jf!($out, "lighten_assign:slice", $key, inp(), { let mut c = [mk::<$ty, T, $n>(a), mk::<$ty, T, $n>(a)]; c[..].lighten_assign(f); let mut v = arr(c[0].clone()).to_vec(); v.extend(arr(c[1].clone())); v });
        jf!($out, "lighten_fixed_assign:slice", $key, inp(), { let mut c = [mk::<$ty, T, $n>(a), mk::<$ty, T, $n>(a)]; c[..].lighten_fixed_assign(f); let mut v = arr(c[0].clone()).to_vec(); v.extend(arr(c[1].clone())); v });
        jf!($out, "darken_assign:slice", $key, inp(), { let mut c = [mk::<$ty, T, $n>(a), mk::<$ty, T, $n>(a)]; c[..].darken_assign(f); let mut v = arr(c[0].clone()).to_vec(); v.extend(arr(c[1].clone())); v });
        jf!($out, "darken_fixed_assign:slice", $key, inp(), { let mut c = [mk::<$ty, T, $n>(a), mk::<$ty, T, $n>(a)]; c[..].darken_fixed_assign(f); let mut v = arr(c[0].clone()).to_vec(); v.extend(arr(c[1].clone())); v });
    } }
}} }

macro_rules! forms_saturate { ($out:expr, $ty:ty, $key:expr, $n:expr) => {{
    use palette::{Desaturate, DesaturateAssign, Saturate, SaturateAssign};
    for a in fcols::<T, $n>($key) { for f in factors::<T>() {
        let inp = || format!("{} factor {:?}", show(&a), f);
        jf!($out, "saturate_assign", $key, inp(), { let mut c = mk::<$ty, T, $n>(a); c.saturate_assign(f); arr(c).to_vec() });
        jf!($out, "saturate_fixed_assign", $key, inp(), { let mut c = mk::<$ty, T, $n>(a); c.saturate_fixed_assign(f); arr(c).to_vec() });
        jf!($out, "desaturate_assign", $key, inp(), { let mut c = mk::<$ty, T, $n>(a); c.desaturate_assign(f); arr(c).to_vec() });
        jf!($out, "desaturate_fixed_assign", $key, inp(), { let mut c = mk::<$ty, T, $n>(a); c.desaturate_fixed_assign(f); arr(c).to_vec() });
        let al = f;
        jf!($out, "saturate:Alpha", $key, inp(), alv(Alpha { color: mk::<$ty, T, $n>(a), alpha: al }.saturate(f)));
        jf!($out, "saturate_fixed:Alpha", $key, inp(), alv(Alpha { color: mk::<$ty, T, $n>(a), alpha: al }.saturate_fixed(f)));
        jf!($out, "desaturate:Alpha", $key, inp(), alv(Alpha { color: mk::<$ty, T, $n>(a), alpha: al }.desaturate(f)));
        jf!($out, "desaturate_fixed:Alpha", $key, inp(), alv(Alpha { color: mk::<$ty, T, $n>(a), alpha: al }.desaturate_fixed(f)));
        jf!($out, "saturate_assign:Alpha", $key, inp(), { let mut c = Alpha { color: mk::<$ty, T, $n>(a), alpha: al }; c.saturate_assign(f); alv(c) });
        jf!($out, "saturate_fixed_assign:Alpha", $key, inp(), { let mut c = Alpha { color: mk::<$ty, T, $n>(a), alpha: al }; c.saturate_fixed_assign(f); alv(c) });
        jf!($out, "desaturate_assign:Alpha", $key, inp(), { let mut c = Alpha { color: mk::<$ty, T, $n>(a), alpha: al }; c.desaturate_assign(f); alv(c) });
        jf!($out, "saturate_assign:slice", $key, inp(), { let mut c = [mk::<$ty, T, $n>(a), mk::<$ty, T, $n>(a)]; c[..].saturate_assign(f); let mut v = arr(c[0].clone()).to_vec(); v.extend(arr(c[1].clone())); v });
        jf!($out, "saturate_fixed_assign:slice", $key, inp(), { let mut c = [mk::<$ty, T, $n>(a), mk::<$ty, T, $n>(a)]; c[..].saturate_fixed_assign(f); let mut v = arr(c[0].clone()).to_vec(); v.extend(arr(c[1].clone())); v });
        jf!($out, "desaturate_assign:slice", $key, inp(), { let mut c = [mk::<$ty, T, $n>(a), mk::<$ty, T, $n>(a)]; c[..].desaturate_assign(f); let mut v = arr(c[0].clone()).to_vec(); v.extend(arr(c[1].clone())); v });
    } }
}} }

macro_rules! forms_hue { ($out:expr, $ty:ty, $key:expr, $n:expr) => {{
    use palette::{GetHue, SetHue, ShiftHue, ShiftHueAssign, WithHue};
    for a in fcols::<T, $n>($key) {
        jf!($out, "get_hue", $key, show(&a), vec![mk::<$ty, T, $n>(a).get_hue().into_raw_degrees(), mk::<$ty, T, $n>(a).get_hue().into_positive_degrees(), mk::<$ty, T, $n>(a).get_hue().into_degrees(), Alpha { color: mk::<$ty, T, $n>(a), alpha: T::of(0.0) }.get_hue().into_positive_radians()]);
        for h in hue_amounts::<T>() {
            let inp = || format!("{} hue {:?}", show(&a), h);
            jf!($out, "shift_hue_assign", $key, inp(), { let mut c = mk::<$ty, T, $n>(a); c.shift_hue_assign(h); arr(c).to_vec() });
            jf!($out, "set_hue", $key, inp(), { let mut c = mk::<$ty, T, $n>(a); c.set_hue(h); arr(c).to_vec() });
            let al = T::of(1e-9);
            jf!($out, "shift_hue:Alpha", $key, inp(), alv(Alpha { color: mk::<$ty, T, $n>(a), alpha: al }.shift_hue(h)));
            jf!($out, "with_hue:Alpha", $key, inp(), alv(Alpha { color: mk::<$ty, T, $n>(a), alpha: al }.with_hue(h)));
            jf!($out, "shift_hue_assign:Alpha", $key, inp(), { let mut c = Alpha { color: mk::<$ty, T, $n>(a), alpha: al }; c.shift_hue_assign(h); alv(c) });
            jf!($out, "set_hue:Alpha", $key, inp(), { let mut c = Alpha { color: mk::<$ty, T, $n>(a), alpha: al }; c.set_hue(h); alv(c) });
            jf!($out, "shift_hue_assign:slice", $key, inp(), { let mut c = [mk::<$ty, T, $n>(a), mk::<$ty, T, $n>(a)]; c[..].shift_hue_assign(h); let mut v = arr(c[0].clone()).to_vec(); v.extend(arr(c[1].clone())); v });
            jf!($out, "set_hue:slice", $key, inp(), { let mut c = [mk::<$ty, T, $n>(a), mk::<$ty, T, $n>(a)]; c[..].set_hue(h); let mut v = arr(c[0].clone()).to_vec(); v.extend(arr(c[1].clone())); v });
        }
    }
}} }

macro_rules! forms_clamp { ($out:expr, $ty:ty, $key:expr, $n:expr) => {{
    use palette::{Clamp, ClampAssign, IsWithinBounds};
    for a in fcols::<T, $n>($key) {
        jf!($out, "clamp_assign", $key, show(&a), { let mut c = mk::<$ty, T, $n>(a); c.clamp_assign(); arr(c).to_vec() });
        jf!($out, "clamp_assign:slice", $key, show(&a), { let mut c = [mk::<$ty, T, $n>(a), mk::<$ty, T, $n>(a)]; c[..].clamp_assign(); let w = c[..].is_within_bounds(); let mut v = arr(c[0].clone()).to_vec(); v.extend(arr(c[1].clone())); v.push(T::of(w as u8 as f64)); v });
        for al in alphas::<T>() {
            let inp = || format!("Alpha({}, {:?})", show(&a), al);
            jf!($out, "clamp:Alpha", $key, inp(), alv(Alpha { color: mk::<$ty, T, $n>(a), alpha: al }.clamp()));
            jf!($out, "clamp_assign:Alpha", $key, inp(), { let mut c = Alpha { color: mk::<$ty, T, $n>(a), alpha: al }; c.clamp_assign(); let w = c.is_within_bounds(); let mut v = alv(c); v.push(T::of(w as u8 as f64)); v });
        }
    }
}} }

macro_rules! forms_addsub { ($out:expr, $ty:ty, $key:expr, $n:expr) => {{
    let cs = fcols::<T, $n>($key); let n = cs.len();
    for (i, a) in cs.iter().enumerate() { let (a, b) = (*a, cs[(i * 7 + 3) % n]);
        let inp = || format!("{} with {}", show(&a), show(&b));
        jf!($out, "add_assign", $key, inp(), { let mut c = mk::<$ty, T, $n>(a); c += mk::<$ty, T, $n>(b); arr(c).to_vec() });
        jf!($out, "sub_assign", $key, inp(), { let mut c = mk::<$ty, T, $n>(a); c -= mk::<$ty, T, $n>(b); arr(c).to_vec() });
        for s in divisors::<T>() {
            jf!($out, "add_assign-scalar", $key, inp(), { let mut c = mk::<$ty, T, $n>(a); c += s; arr(c).to_vec() });
            jf!($out, "sub_assign-scalar", $key, inp(), { let mut c = mk::<$ty, T, $n>(a); c -= s; arr(c).to_vec() });
            jf!($out, "add-scalar:Alpha", $key, inp(), alv(Alpha { color: mk::<$ty, T, $n>(a), alpha: s } + s));
            jf!($out, "sub-scalar:Alpha", $key, inp(), alv(Alpha { color: mk::<$ty, T, $n>(a), alpha: s } - s));
            jf!($out, "add_assign-scalar:Alpha", $key, inp(), { let mut c = Alpha { color: mk::<$ty, T, $n>(a), alpha: s }; c += s; alv(c) });
            jf!($out, "sub_assign-scalar:Alpha", $key, inp(), { let mut c = Alpha { color: mk::<$ty, T, $n>(a), alpha: s }; c -= s; alv(c) });
        }
        for al in alphas::<T>() {
            jf!($out, "add:Alpha", $key, inp(), alv(Alpha { color: mk::<$ty, T, $n>(a), alpha: al } + Alpha { color: mk::<$ty, T, $n>(b), alpha: T::of(0.5) }));
            jf!($out, "sub:Alpha", $key, inp(), alv(Alpha { color: mk::<$ty, T, $n>(a), alpha: al } - Alpha { color: mk::<$ty, T, $n>(b), alpha: T::of(0.5) }));
            jf!($out, "add_assign:Alpha", $key, inp(), { let mut c = Alpha { color: mk::<$ty, T, $n>(a), alpha: al }; c += Alpha { color: mk::<$ty, T, $n>(b), alpha: T::of(0.5) }; alv(c) });
            jf!($out, "sub_assign:Alpha", $key, inp(), { let mut c = Alpha { color: mk::<$ty, T, $n>(a), alpha: al }; c -= Alpha { color: mk::<$ty, T, $n>(b), alpha: T::of(0.5) }; alv(c) });
        }
    }
}} }

macro_rules! forms_muldiv { ($out:expr, $ty:ty, $key:expr, $n:expr) => {{
    let cs = fcols::<T, $n>($key); let n = cs.len();
    for (i, a) in cs.iter().enumerate() { let (a, b) = (*a, cs[(i * 7 + 3) % n]);
        let inp = || format!("{} with {}", show(&a), show(&b));
        let nz = b.iter().all(|x| x.to64() != 0.0);
        jf!($out, "mul_assign", $key, inp(), { let mut c = mk::<$ty, T, $n>(a); c *= mk::<$ty, T, $n>(b); arr(c).to_vec() });
        if nz { jf!($out, "div_assign", $key, inp(), { let mut c = mk::<$ty, T, $n>(a); c /= mk::<$ty, T, $n>(b); arr(c).to_vec() }); }
        for s in divisors::<T>() {
            jf!($out, "mul_assign-scalar", $key, inp(), { let mut c = mk::<$ty, T, $n>(a); c *= s; arr(c).to_vec() });
            jf!($out, "div_assign-scalar", $key, inp(), { let mut c = mk::<$ty, T, $n>(a); c /= s; arr(c).to_vec() });
            jf!($out, "mul-scalar:Alpha", $key, inp(), alv(Alpha { color: mk::<$ty, T, $n>(a), alpha: s } * s));
            jf!($out, "div-scalar:Alpha", $key, inp(), alv(Alpha { color: mk::<$ty, T, $n>(a), alpha: s } / s));
            jf!($out, "mul_assign-scalar:Alpha", $key, inp(), { let mut c = Alpha { color: mk::<$ty, T, $n>(a), alpha: s }; c *= s; alv(c) });
            jf!($out, "div_assign-scalar:Alpha", $key, inp(), { let mut c = Alpha { color: mk::<$ty, T, $n>(a), alpha: s }; c /= s; alv(c) });
        }
        for al in alphas::<T>() {
            jf!($out, "mul:Alpha", $key, inp(), alv(Alpha { color: mk::<$ty, T, $n>(a), alpha: al } * Alpha { color: mk::<$ty, T, $n>(b), alpha: T::of(0.5) }));
            jf!($out, "mul_assign:Alpha", $key, inp(), { let mut c = Alpha { color: mk::<$ty, T, $n>(a), alpha: al }; c *= Alpha { color: mk::<$ty, T, $n>(b), alpha: T::of(0.5) }; alv(c) });
            if nz {
                jf!($out, "div:Alpha", $key, inp(), alv(Alpha { color: mk::<$ty, T, $n>(a), alpha: al } / Alpha { color: mk::<$ty, T, $n>(b), alpha: T::of(0.5) }));
                jf!($out, "div_assign:Alpha", $key, inp(), { let mut c = Alpha { color: mk::<$ty, T, $n>(a), alpha: al }; c /= Alpha { color: mk::<$ty, T, $n>(b), alpha: T::of(0.5) }; alv(c) });
            }
        }
    }
}} }

/// PreAlpha<C>: Mix, MixAssign, the binary operators with a PreAlpha and with a scalar (by value and assigning), and the ways in and out
macro_rules! forms_pre { ($out:expr, $ty:ty, $key:expr, $n:expr) => {{
    use palette::{Mix, MixAssign};
    let cs = fcols::<T, $n>($key); let n = cs.len();
    for (i, a) in cs.iter().enumerate() { let (a, b) = (*a, cs[(i * 7 + 3) % n]);
        for al in alphas::<T>() {
            let inp = || format!("PreAlpha({}, {:?}) with PreAlpha({}, 1/2)", show(&a), al, show(&b));
            let nz = b.iter().all(|x| x.to64() != 0.0);
            let p = || PreAlpha::<$ty>::new(mk::<$ty, T, $n>(a), al);
            let q = || PreAlpha::<$ty>::new(mk::<$ty, T, $n>(b), T::of(0.5));
            jf!($out, "new:PreAlpha", $key, inp(), prv(p()));
            jf!($out, "from-alpha:PreAlpha", $key, inp(), { let x: PreAlpha<$ty> = Alpha { color: mk::<$ty, T, $n>(a), alpha: al }.into(); let y = Alpha { color: mk::<$ty, T, $n>(a), alpha: al }.premultiply(); let mut v = prv(x); v.extend(prv(y)); v });
            jf!($out, "into-alpha:PreAlpha", $key, inp(), { let x: Alpha<$ty, T> = p().into(); let y = p().unpremultiply(); let mut v = alv(x); v.extend(alv(y)); v });
            jf!($out, "from-color:PreAlpha", $key, inp(), { let x: PreAlpha<$ty> = mk::<$ty, T, $n>(a).into(); let y = PreAlpha::new_opaque(mk::<$ty, T, $n>(a)); let mut v = prv(x); v.extend(prv(y)); v });
            for f in [T::of(0.0), T::of(1e-9), T::of(0.5), T::of(1.0)] {
                jf!($out, "mix:PreAlpha", $key, inp(), prv(p().mix(q(), f)));
                jf!($out, "mix_assign:PreAlpha", $key, inp(), { let mut c = p(); c.mix_assign(q(), f); prv(c) });
            }
            jf!($out, "add:PreAlpha", $key, inp(), prv(p() + q()));
            jf!($out, "sub:PreAlpha", $key, inp(), prv(p() - q()));
            jf!($out, "mul:PreAlpha", $key, inp(), prv(p() * q()));
            jf!($out, "add_assign:PreAlpha", $key, inp(), { let mut c = p(); c += q(); prv(c) });
            jf!($out, "sub_assign:PreAlpha", $key, inp(), { let mut c = p(); c -= q(); prv(c) });
            jf!($out, "mul_assign:PreAlpha", $key, inp(), { let mut c = p(); c *= q(); prv(c) });
            if nz {
                jf!($out, "div:PreAlpha", $key, inp(), prv(p() / q()));
                jf!($out, "div_assign:PreAlpha", $key, inp(), { let mut c = p(); c /= q(); prv(c) });
            }
            for s in divisors::<T>() {
                jf!($out, "add-scalar:PreAlpha", $key, inp(), prv(p() + s));
                jf!($out, "sub-scalar:PreAlpha", $key, inp(), prv(p() - s));
                jf!($out, "mul-scalar:PreAlpha", $key, inp(), prv(p() * s));
                jf!($out, "div-scalar:PreAlpha", $key, inp(), prv(p() / s));
                jf!($out, "add_assign-scalar:PreAlpha", $key, inp(), { let mut c = p(); c += s; prv(c) });
                jf!($out, "sub_assign-scalar:PreAlpha", $key, inp(), { let mut c = p(); c -= s; prv(c) });
                jf!($out, "mul_assign-scalar:PreAlpha", $key, inp(), { let mut c = p(); c *= s; prv(c) });
                jf!($out, "div_assign-scalar:PreAlpha", $key, inp(), { let mut c = p(); c /= s; prv(c) });
            }
        }
    }
}} }


/// one function per group of types: the expansions are large, separate functions let rustc spread them over codegen units
macro_rules! grp { ($name:ident, $t:ty, $out:ident, $($body:tt)*) => {
    fn $name($out: &mut Out) {
        #[allow(unused_imports)] use palette::encoding::{Linear, Srgb as S}; #[allow(unused_imports)] use palette::white_point::D65; #[allow(unused_imports)] use palette::lms::matrix::Bradford as Br;
        #[allow(unused_imports)] use palette::{Hsl, Hsv, Hwb, Lab, Lch, Luv, Lchuv, Hsluv, Xyz, Yxy, Oklab, Oklch, Okhsl, Okhsv, Okhwb};
        #[allow(unused_imports)] use palette::rgb::Rgb; #[allow(unused_imports)] use palette::luma::Luma; #[allow(unused_imports)] use palette::lms::Lms;
        #[allow(unused_imports)] use palette::cam16::{Cam16Jch, Cam16Jmh, Cam16Jsh, Cam16Qch, Cam16Qmh, Cam16Qsh, Cam16UcsJab, Cam16UcsJmh};
        #[allow(dead_code)] type T = $t;
        $($body)*
    }
} }
macro_rules! cart { ($out:expr, $ty:ty, $key:expr, $n:expr) => {{ forms_mix!($out, $ty, $key, $n); forms_clamp!($out, $ty, $key, $n); forms_addsub!($out, $ty, $key, $n); forms_muldiv!($out, $ty, $key, $n); forms_pre!($out, $ty, $key, $n); }} }
macro_rules! cyl { ($out:expr, $ty:ty, $key:expr) => {{ forms_mix!($out, $ty, $key, 3); forms_clamp!($out, $ty, $key, 3); forms_addsub!($out, $ty, $key, 3); forms_hue!($out, $ty, $key, 3); }} }
// C. the six partial CAM16 types (make_partial_cam16! expands impl_mix_hue!, impl_hue_ops!, impl_clamp!, impl_is_within_bounds!, impl_color_add!,
// impl_color_sub! once per type): no operator of theirs was ever called, by value or otherwise
macro_rules! partial { ($out:expr, $ty:ty, $key:expr) => {{
    use palette::{Clamp, IsWithinBounds, Mix, ShiftHue, WithHue};
    cyl!($out, $ty, $key);
    let cs = fcols::<T, 3>($key); let n = cs.len();
    for (i, a) in cs.iter().enumerate() {
        let a = *a;
        jf!($out, "clamp", $key, show(&a), { let w = mk::<$ty, T, 3>(a).is_within_bounds(); let mut v = arr(mk::<$ty, T, 3>(a).clamp()).to_vec(); v.push(T::of(w as u8 as f64)); v });
        for h in hue_amounts::<T>() {
            jf!($out, "shift_hue", $key, format!("{} {:?}", show(&a), h), arr(mk::<$ty, T, 3>(a).shift_hue(h)).to_vec());
            jf!($out, "with_hue", $key, format!("{} {:?}", show(&a), h), arr(mk::<$ty, T, 3>(a).with_hue(h)).to_vec());
        }
        for j in partners(i, n) { let b = cs[j];
            for f in factors::<T>() { jf!($out, "mix", $key, format!("{}.mix({}, {:?})", show(&a), show(&b), f), arr(mk::<$ty, T, 3>(a).mix(mk(b), f)).to_vec()); }
            jf!($out, "add", $key, format!("{} + {}", show(&a), show(&b)), arr(mk::<$ty, T, 3>(a) + mk::<$ty, T, 3>(b)).to_vec());
            jf!($out, "sub", $key, format!("{} - {}", show(&a), show(&b)), arr(mk::<$ty, T, 3>(a) - mk::<$ty, T, 3>(b)).to_vec());
        }
        for s in divisors::<T>() {
            jf!($out, "add-scalar", $key, format!("{} + {:?}", show(&a), s), arr(mk::<$ty, T, 3>(a) + s).to_vec());
            jf!($out, "sub-scalar", $key, format!("{} - {:?}", show(&a), s), arr(mk::<$ty, T, 3>(a) - s).to_vec());
        }
    }
}} }

macro_rules! forms_groups { ($t:ty, $g1:ident, $g2:ident, $g3:ident, $g4:ident, $g5:ident, $g6:ident, $g7:ident, $g8:ident, $g9:ident, $g10:ident) => {
    grp!($g1, $t, out, cart!(out, Rgb<S, T>, "Rgb", 3); forms_lighten!(out, Rgb<S, T>, "Rgb", 3); cart!(out, Rgb<Linear<S>, T>, "Rgb:Lin", 3););
    grp!($g2, $t, out, cart!(out, Lab<D65, T>, "Lab", 3); forms_lighten!(out, Lab<D65, T>, "Lab", 3); cart!(out, Luv<D65, T>, "Luv", 3); forms_lighten!(out, Luv<D65, T>, "Luv", 3););
    grp!($g3, $t, out, cart!(out, Xyz<D65, T>, "Xyz", 3); forms_lighten!(out, Xyz<D65, T>, "Xyz", 3); cart!(out, Yxy<D65, T>, "Yxy", 3); forms_lighten!(out, Yxy<D65, T>, "Yxy", 3););
    grp!($g4, $t, out, cart!(out, Oklab<T>, "Oklab", 3); forms_lighten!(out, Oklab<T>, "Oklab", 3); cart!(out, Cam16UcsJab<T>, "Cam16UcsJab", 3); forms_lighten!(out, Cam16UcsJab<T>, "Cam16UcsJab", 3););
    grp!($g5, $t, out, cart!(out, Lms<Br, T>, "Lms", 3); cart!(out, Luma<S, T>, "Luma", 1); forms_lighten!(out, Luma<S, T>, "Luma", 1););
    grp!($g6, $t, out,
        cyl!(out, Hsl<S, T>, "Hsl"); forms_lighten!(out, Hsl<S, T>, "Hsl", 3); forms_saturate!(out, Hsl<S, T>, "Hsl", 3);
        cyl!(out, Hsv<S, T>, "Hsv"); forms_lighten!(out, Hsv<S, T>, "Hsv", 3); forms_saturate!(out, Hsv<S, T>, "Hsv", 3);
        cyl!(out, Hwb<S, T>, "Hwb"); forms_lighten!(out, Hwb<S, T>, "Hwb", 3););
    grp!($g7, $t, out,
        cyl!(out, Lch<D65, T>, "Lch"); forms_lighten!(out, Lch<D65, T>, "Lch", 3); forms_saturate!(out, Lch<D65, T>, "Lch", 3);
        cyl!(out, Lchuv<D65, T>, "Lchuv"); forms_lighten!(out, Lchuv<D65, T>, "Lchuv", 3); forms_saturate!(out, Lchuv<D65, T>, "Lchuv", 3);
        cyl!(out, Hsluv<D65, T>, "Hsluv"); forms_lighten!(out, Hsluv<D65, T>, "Hsluv", 3); forms_saturate!(out, Hsluv<D65, T>, "Hsluv", 3););
    grp!($g8, $t, out,
        cyl!(out, Oklch<T>, "Oklch"); forms_lighten!(out, Oklch<T>, "Oklch", 3);
        cyl!(out, Okhsl<T>, "Okhsl"); forms_lighten!(out, Okhsl<T>, "Okhsl", 3); forms_saturate!(out, Okhsl<T>, "Okhsl", 3);
        cyl!(out, Okhsv<T>, "Okhsv"); forms_lighten!(out, Okhsv<T>, "Okhsv", 3); forms_saturate!(out, Okhsv<T>, "Okhsv", 3););
    grp!($g9, $t, out,
        cyl!(out, Okhwb<T>, "Okhwb"); forms_lighten!(out, Okhwb<T>, "Okhwb", 3);
        cyl!(out, Cam16UcsJmh<T>, "Cam16UcsJmh"); forms_lighten!(out, Cam16UcsJmh<T>, "Cam16UcsJmh", 3); forms_saturate!(out, Cam16UcsJmh<T>, "Cam16UcsJmh", 3);
        partial!(out, Cam16Jch<T>, "Cam16P:Jch"); partial!(out, Cam16Jmh<T>, "Cam16P:Jmh"););
    grp!($g10, $t, out,
        partial!(out, Cam16Jsh<T>, "Cam16P:Jsh"); partial!(out, Cam16Qch<T>, "Cam16P:Qch"); partial!(out, Cam16Qmh<T>, "Cam16P:Qmh"); partial!(out, Cam16Qsh<T>, "Cam16P:Qsh");
        // the full CAM16 colour: Clamp, ClampAssign, IsWithinBounds, GetHue (cam16/full.rs)
        {
            use palette::cam16::Cam16; use palette::{Clamp, ClampAssign, GetHue, IsWithinBounds};
            for a in fcols::<T, 3>("Cam16P") {
                let c = || Cam16 { lightness: a[0], chroma: a[1], hue: a[2].into(), brightness: a[0], colorfulness: a[1], saturation: a[1] };
                let vc = |c: Cam16<T>| vec![c.lightness, c.chroma, c.hue.into_raw_degrees(), c.brightness, c.colorfulness, c.saturation];
                jf!(out, "clamp", "Cam16", show(&a), { let w = c().is_within_bounds(); let mut v = vc(c().clamp()); v.push(T::of(w as u8 as f64)); v.push(c().get_hue().into_positive_degrees()); v });
                jf!(out, "clamp_assign", "Cam16", show(&a), { let mut x = c(); x.clamp_assign(); vc(x) });
            }
        });
} }
forms_groups!(f32, fa1, fa2, fa3, fa4, fa5, fa6, fa7, fa8, fa9, fa10);
forms_groups!(f64, fb1, fb2, fb3, fb4, fb5, fb6, fb7, fb8, fb9, fb10);

// ------------------------------------------------------------------------------------------------ D. conversion entry points
// `c07.rs` converts with `from_color_unclamped` on single colours (and Alpha).  Own code never called: the blanket impls of FromColor /
// IntoColor / IntoColorUnclamped / TryFromColor / TryIntoColor (convert/*.rs: unclamped conversion + Clamp / IsWithinBounds, the
// OutOfBounds payload), their Vec and Box<[T]> forms, and the in-place guards FromColorMut / FromColorUnclampedMut for `T` and `[T]`.
// Evaluated when the unclamped conversion (judged by the `conv:` clauses, where the listed findings live) is finite.
macro_rules! conv_forms { ($out:expr, $S:ty, $D:ty, $sk:expr, $dk:expr, $n:expr, $m:expr) => {{
    use palette::convert::{FromColorUnclamped, IntoColorUnclamped, TryFromColor, TryIntoColor, FromColorUnclampedMut};
    use palette::{FromColor, IntoColor, FromColorMut};
    let key = format!("{}->{}", $sk, $dk);
    for a in fcols::<T, $n>($sk).into_iter() {
        let u = guard(|| arr::<$D, T, $m>(<$D>::from_color_unclamped(mk::<$S, T, $n>(a))));
        if !matches!(&u, Some(v) if v.iter().all(|x| x.finite())) { continue; }
        let inp = || format!("{}{}", $sk, show(&a));
        jf!($out, "from_color", key, inp(), { let d: $D = <$D>::from_color(mk::<$S, T, $n>(a)); let e: $D = mk::<$S, T, $n>(a).into_color(); let f: $D = mk::<$S, T, $n>(a).into_color_unclamped(); let mut v = arr(d).to_vec(); v.extend(arr(e)); v.extend(arr(f)); v });
        jf!($out, "try_from_color", key, inp(), { let d = match <$D>::try_from_color(mk::<$S, T, $n>(a)) { Ok(c) => c, Err(e) => e.color() }; let r: Result<$D, _> = mk::<$S, T, $n>(a).try_into_color(); let e = match r { Ok(c) => c, Err(e) => e.color() }; let mut v = arr(d).to_vec(); v.extend(arr(e)); v });
        jf!($out, "from_color:Alpha", key, inp(), { let d: Alpha<$D, T> = Alpha::<$D, T>::from_color(Alpha { color: mk::<$S, T, $n>(a), alpha: T::of(1e-9) }); alv(d) });
    }
}} }
/// Vec / Box<[T]> forms (reuse the allocation: same-size types only)
macro_rules! conv_vecbox { ($out:expr, $S:ty, $D:ty, $sk:expr, $dk:expr, $n:expr, $m:expr) => {{
    use palette::convert::FromColorUnclamped; use palette::FromColor;
    let key = format!("{}->{}", $sk, $dk);
    for a in fcols::<T, $n>($sk).into_iter() {
        let u = guard(|| arr::<$D, T, $m>(<$D>::from_color_unclamped(mk::<$S, T, $n>(a))));
        if !matches!(&u, Some(v) if v.iter().all(|x| x.finite())) { continue; }
        let inp = || format!("{}{}", $sk, show(&a));
        jf!($out, "from_color:Vec", key, inp(), { let d: Vec<$D> = Vec::<$D>::from_color(vec![mk::<$S, T, $n>(a), mk::<$S, T, $n>(a)]); let e: Vec<$D> = Vec::<$D>::from_color_unclamped(vec![mk::<$S, T, $n>(a)]); let mut v = vec![]; for c in d.into_iter().chain(e) { v.extend(arr(c)); } v });
        jf!($out, "from_color:Box", key, inp(), { let d: Box<[$D]> = Box::<[$D]>::from_color(vec![mk::<$S, T, $n>(a), mk::<$S, T, $n>(a)].into_boxed_slice()); let e: Box<[$D]> = Box::<[$D]>::from_color_unclamped(vec![mk::<$S, T, $n>(a)].into_boxed_slice()); let mut v = vec![]; for c in d.into_vec().into_iter().chain(e.into_vec()) { v.extend(arr(c)); } v });
    }
}} }
macro_rules! cf3 { ($out:expr, $S:ty, $D:ty, $sk:expr, $dk:expr) => {{ conv_forms!($out, $S, $D, $sk, $dk, 3, 3); conv_vecbox!($out, $S, $D, $sk, $dk, 3, 3); }} }
/// in-place conversion guards (same-size types only)
macro_rules! conv_mut { ($out:expr, $S:ty, $D:ty, $sk:expr, $dk:expr) => {{
    use palette::convert::{FromColorUnclamped, FromColorUnclampedMut};
    use palette::FromColorMut;
    let key = format!("{}->{}", $sk, $dk);
    for a in fcols::<T, 3>($sk).into_iter() {
        let u = guard(|| arr::<$D, T, 3>(<$D>::from_color_unclamped(mk::<$S, T, 3>(a))));
        if !matches!(&u, Some(v) if v.iter().all(|x| x.finite())) { continue; }
        let inp = || format!("{}{}", $sk, show(&a));
        jf!($out, "from_color_mut", key, inp(), { let mut s = mk::<$S, T, 3>(a); let g = <$D>::from_color_mut(&mut s); let v = arr((*g).clone()).to_vec(); std::mem::forget(g); v });
        jf!($out, "from_color_unclamped_mut", key, inp(), { let mut s = mk::<$S, T, 3>(a); let g = <$D>::from_color_unclamped_mut(&mut s); let v = arr((*g).clone()).to_vec(); std::mem::forget(g); v });
        jf!($out, "from_color_mut:slice", key, inp(), { let mut s = [mk::<$S, T, 3>(a), mk::<$S, T, 3>(a)]; let g = <[$D]>::from_color_mut(&mut s[..]); let mut v = arr(g[0].clone()).to_vec(); v.extend(arr(g[1].clone())); std::mem::forget(g); v });
        jf!($out, "from_color_unclamped_mut:slice", key, inp(), { let mut s = [mk::<$S, T, 3>(a), mk::<$S, T, 3>(a)]; let g = <[$D]>::from_color_unclamped_mut(&mut s[..]); let mut v = arr(g[0].clone()).to_vec(); v.extend(arr(g[1].clone())); std::mem::forget(g); v });
    }
}} }
macro_rules! conv_groups { ($t:ty, $c1:ident, $c2:ident, $c3:ident, $c4:ident) => {
    // a ring through all 17 types of the XYZ group (sRGB / D65), forwards and backwards: every type is source and destination of each form twice
    grp!($c1, $t, out,
        cf3!(out, Xyz<D65, T>, Rgb<S, T>, "Xyz", "Rgb"); conv_forms!(out, Rgb<S, T>, Luma<S, T>, "Rgb", "Luma", 3, 1); conv_forms!(out, Luma<S, T>, Hsl<S, T>, "Luma", "Hsl", 1, 3);
        cf3!(out, Hsl<S, T>, Hsluv<D65, T>, "Hsl", "Hsluv"); cf3!(out, Hsluv<D65, T>, Hsv<S, T>, "Hsluv", "Hsv"); cf3!(out, Hsv<S, T>, Hwb<S, T>, "Hsv", "Hwb");
        cf3!(out, Hwb<S, T>, Lab<D65, T>, "Hwb", "Lab"); cf3!(out, Lab<D65, T>, Lch<D65, T>, "Lab", "Lch"); cf3!(out, Lch<D65, T>, Lchuv<D65, T>, "Lch", "Lchuv"););
    grp!($c2, $t, out,
        cf3!(out, Lchuv<D65, T>, Luv<D65, T>, "Lchuv", "Luv"); cf3!(out, Luv<D65, T>, Oklab<T>, "Luv", "Oklab"); cf3!(out, Oklab<T>, Oklch<T>, "Oklab", "Oklch");
        cf3!(out, Oklch<T>, Okhsl<T>, "Oklch", "Okhsl"); cf3!(out, Okhsl<T>, Okhsv<T>, "Okhsl", "Okhsv"); cf3!(out, Okhsv<T>, Okhwb<T>, "Okhsv", "Okhwb");
        cf3!(out, Okhwb<T>, Yxy<D65, T>, "Okhwb", "Yxy"); cf3!(out, Yxy<D65, T>, Xyz<D65, T>, "Yxy", "Xyz"););
    grp!($c3, $t, out,
        cf3!(out, Rgb<S, T>, Xyz<D65, T>, "Rgb", "Xyz"); conv_forms!(out, Luma<S, T>, Rgb<S, T>, "Luma", "Rgb", 1, 3); conv_forms!(out, Hsl<S, T>, Luma<S, T>, "Hsl", "Luma", 3, 1);
        cf3!(out, Hsluv<D65, T>, Hsl<S, T>, "Hsluv", "Hsl"); cf3!(out, Hsv<S, T>, Hsluv<D65, T>, "Hsv", "Hsluv"); cf3!(out, Hwb<S, T>, Hsv<S, T>, "Hwb", "Hsv");
        cf3!(out, Lab<D65, T>, Hwb<S, T>, "Lab", "Hwb"); cf3!(out, Lch<D65, T>, Lab<D65, T>, "Lch", "Lab"); cf3!(out, Lchuv<D65, T>, Lch<D65, T>, "Lchuv", "Lch"););
    grp!($c4, $t, out,
        cf3!(out, Luv<D65, T>, Lchuv<D65, T>, "Luv", "Lchuv"); cf3!(out, Oklab<T>, Luv<D65, T>, "Oklab", "Luv"); cf3!(out, Oklch<T>, Oklab<T>, "Oklch", "Oklab");
        cf3!(out, Okhsl<T>, Oklch<T>, "Okhsl", "Oklch"); cf3!(out, Okhsv<T>, Okhsl<T>, "Okhsv", "Okhsl"); cf3!(out, Okhwb<T>, Okhsv<T>, "Okhwb", "Okhsv");
        cf3!(out, Yxy<D65, T>, Okhwb<T>, "Yxy", "Okhwb"); cf3!(out, Xyz<D65, T>, Yxy<D65, T>, "Xyz", "Yxy");
        conv_mut!(out, Rgb<S, T>, Hsl<S, T>, "Rgb", "Hsl"); conv_mut!(out, Hsv<S, T>, Rgb<S, T>, "Hsv", "Rgb"); conv_mut!(out, Lab<D65, T>, Lch<D65, T>, "Lab", "Lch"); conv_mut!(out, Okhwb<T>, Oklab<T>, "Okhwb", "Oklab"); conv_mut!(out, Xyz<D65, T>, Luv<D65, T>, "Xyz", "Luv"););
} }
conv_groups!(f32, ca1, ca2, ca3, ca4);
conv_groups!(f64, cb1, cb2, cb3, cb4);

// ------------------------------------------------------------------------------------------------ E. CAM16 under other viewing conditions
// `c07_ops.rs` bakes ONE set of parameters (static D65, L_A = 40, Average, Auto).  Own code never executed: the dynamic white point
// (`WhitePointParameter for Xyz<Any, T>`, `default_dynamic_wp`), other static white points, Surround::{Dark, Dim, Percent} (the lerp arms),
// Discounting::Custom, the Alpha<..> forms of from_xyz / into_xyz / from_full / into_full and the Cam16FromUnclamped family of traits.

/// sign of CAM16's achromatic signal from the published equations (Li et al. 2017), for surround factor `f` / a fixed degree of adaptation
fn cam16_in_domain(xyz: [f64; 3], wp: [f64; 3], la: f64, f: f64, d_fixed: Option<f64>) -> bool {
    if xyz.iter().all(|x| *x == 0.0) { return true; }
    const M16: [[f64; 3]; 3] = [[0.401288, 0.650173, -0.051461], [-0.250268, 1.204414, 0.045854], [-0.002079, 0.048952, 0.953127]];
    let m = |v: [f64; 3]| [M16[0][0] * v[0] + M16[0][1] * v[1] + M16[0][2] * v[2], M16[1][0] * v[0] + M16[1][1] * v[1] + M16[1][2] * v[2], M16[2][0] * v[0] + M16[2][1] * v[1] + M16[2][2] * v[2]];
    let rgb_w = m([wp[0] * 100.0, wp[1] * 100.0, wp[2] * 100.0]);
    let d = d_fixed.unwrap_or((f * (1.0 - (1.0 / 3.6) * ((-la - 42.0) / 92.0f64).exp())).clamp(0.0, 1.0));
    let k = 1.0 / (5.0 * la + 1.0);
    let fl = k.powi(4) * la + 0.1 * (1.0 - k.powi(4)).powi(2) * (5.0 * la).cbrt();
    let rgb = m([xyz[0] * 100.0, xyz[1] * 100.0, xyz[2] * 100.0]);
    let yw = wp[1] * 100.0;
    let adapt = |c: f64, w: f64| { let dc = d * yw / w + 1.0 - d; let x = (fl * (dc * c).abs() / 100.0).powf(0.42); (dc * c).signum() * 400.0 * x / (x + 27.13) };
    2.0 * adapt(rgb[0], rgb_w[0]) + adapt(rgb[1], rgb_w[1]) + 0.05 * adapt(rgb[2], rgb_w[2]) > 1e-9
}

macro_rules! cam16_cfg { ($out:expr, $cfg:expr, $Wp:ty, $xyzbox:expr, $wp:expr, $la:expr, $f:expr, $dfix:expr, $baked:expr) => {{
    use palette::cam16::{Cam16, Cam16Jch, Cam16Jmh, Cam16Jsh, Cam16Qch, Cam16Qmh, Cam16Qsh, Cam16FromUnclamped, IntoCam16Unclamped, FromCam16Unclamped, Cam16IntoUnclamped};
    let baked = $baked;
    let cs = extend(&box_n::<3>($xyzbox), crate::c07::lattice_colours::<T, 3>(&box_n::<3>($xyzbox), true, None));
    for a in cs {
        let xyz = Xyz::<$Wp, T>::new(a[0], a[1], a[2]);
        let dom = cam16_in_domain([a[0] as f64, a[1] as f64, a[2] as f64], $wp, $la, $f, $dfix);
        let kn = |v: &[T]| -> Option<String> { if !dom && v.iter().any(|x| x.is_nan()) { Some("cam16-negative-achromatic".to_string()) } else { None } };
        let vc = |c: Cam16<T>| vec![c.lightness, c.chroma, c.hue.into_raw_degrees(), c.brightness, c.colorfulness, c.saturation];
        let inp = || format!("Xyz{:?} under {}", a, $cfg);
        let r = guard(|| vc(Cam16::from_xyz(xyz, baked)));
        judge_known($out, &format!("cam16:Xyz->Cam16:{}", $cfg), r.clone(), &inp, &kn);
        judge_known($out, &format!("cam16:Xyz->Cam16:Alpha:{}", $cfg), guard(|| { let c = Alpha::<Cam16<T>, T>::from_xyz(Alpha { color: xyz, alpha: 1e-9 as T }, baked); let mut v = vc(c.color); v.push(c.alpha); v }), &inp, &kn);
        judge_known($out, &format!("cam16:cam16_from_unclamped:{}", $cfg), guard(|| { let c: Cam16<T> = Cam16::cam16_from_unclamped(xyz, baked); let d: Cam16<T> = xyz.into_cam16_unclamped(baked); let mut v = vc(c); v.extend(vc(d)); v }), &inp, &kn);
        macro_rules! p { ($P:ident, $l:ident, $c:ident) => {{
            judge_known($out, &format!("cam16:Xyz->{}:{}", stringify!($P), $cfg), guard(|| { let p = $P::from_xyz(xyz, baked); let q = Alpha::<$P<T>, T>::from_xyz(Alpha { color: xyz, alpha: 0.0 as T }, baked); let r: $P<T> = $P::cam16_from_unclamped(xyz, baked); vec![p.$l, p.$c, p.hue.into_raw_degrees(), q.color.$l, q.color.$c, q.alpha, r.$l, r.$c] }), &inp, &kn);
            // back from the forward image, for colours inside CAM16's domain
            if dom { if let Some(Some(p)) = guard(|| { let p = $P::from_xyz(xyz, baked); if p.$l.is_finite() && p.$c.is_finite() { Some(p) } else { None } }) {
                judge::<T>($out, &format!("cam16:{}->Xyz:{}", stringify!($P), $cfg), guard(|| { let x: Xyz<$Wp, T> = p.into_xyz(baked); let y = Alpha { color: p, alpha: 1.0 as T }.into_xyz(baked); let z: Xyz<$Wp, T> = Xyz::from_cam16_unclamped(p, baked); let w: Xyz<$Wp, T> = p.cam16_into_unclamped(baked); vec![x.x, x.y, x.z, y.color.x, y.color.y, y.color.z, y.alpha, z.x, z.y, z.z, w.x, w.y, w.z] }), &inp);
                judge::<T>($out, &format!("cam16:{}->Cam16:{}", stringify!($P), $cfg), guard(|| { let c = p.into_full(baked); let d = Alpha { color: p, alpha: 0.5 as T }.into_full(baked); let mut v = vc(c); v.extend(vc(d.color)); v }), &inp);
            } }
        }} }
        p!(Cam16Jch, lightness, chroma); p!(Cam16Jmh, lightness, colorfulness); p!(Cam16Jsh, lightness, saturation); p!(Cam16Qch, brightness, chroma); p!(Cam16Qmh, brightness, colorfulness); p!(Cam16Qsh, brightness, saturation);
        if let Some(v) = &r { if v.iter().all(|x| x.is_finite()) { if let Some(full) = guard(|| Cam16::from_xyz(xyz, baked)) {
            judge::<T>($out, &format!("cam16:Cam16->Xyz:{}", $cfg), guard(|| { let x: Xyz<$Wp, T> = full.into_xyz(baked); let y = Alpha { color: full, alpha: 1.0 as T }.into_xyz(baked); vec![x.x, x.y, x.z, y.color.x, y.color.y, y.color.z, y.alpha] }), &inp);
            judge::<T>($out, &format!("cam16:Cam16->partials:{}", $cfg), guard(|| { let j = Cam16Jch::from_full(full); let q: Cam16Qsh<T> = full.into(); let m = Cam16Jmh::from_color_unclamped(full); let aj = Alpha::<Cam16Jsh<T>, T>::from_full(Alpha { color: full, alpha: 0.0 as T }); vec![j.lightness, j.chroma, q.brightness, q.saturation, m.lightness, m.colorfulness, aj.color.lightness, aj.color.saturation, aj.alpha] }), &inp);
        } } }
    }
    // partial types in their own right under this configuration.  They document no range and an arbitrary triple is the image of no colour
    // (brightness 32 with chroma 71 under a dark surround leaves the domain of the inverse: |R_a| > 400), so only the degenerate boundaries
    // the property names are driven here: luminance exactly 0 with any chromaticity / hue (the black special case of cam16_to_xyz and of
    // into_full) and chromaticity exactly 0 (the gray axis), each with every boundary value of the other components
    for a in edge_colours::<T, 3>(&box_n::<3>("Cam16P")).into_iter().filter(|a| a[0] == 0.0 || a[1] == 0.0) {
        let vc2 = |c: Cam16<T>| vec![c.lightness, c.chroma, c.hue.into_raw_degrees(), c.brightness, c.colorfulness, c.saturation];
        macro_rules! inv { ($P:ident) => {{
            judge::<T>($out, &format!("cam16:{}->Xyz:{}", stringify!($P), $cfg), guard(|| { let x: Xyz<$Wp, T> = $P::<T>::new(a[0], a[1], a[2]).into_xyz(baked); vec![x.x, x.y, x.z] }), &|| format!("{}{:?} under {}", stringify!($P), a, $cfg));
            judge::<T>($out, &format!("cam16:{}->Cam16:{}", stringify!($P), $cfg), guard(|| vc2($P::<T>::new(a[0], a[1], a[2]).into_full(baked))), &|| format!("{}{:?} under {}", stringify!($P), a, $cfg));
        }} }
        inv!(Cam16Jch); inv!(Cam16Jmh); inv!(Cam16Jsh); inv!(Cam16Qch); inv!(Cam16Qmh); inv!(Cam16Qsh);
    }
}} }

macro_rules! cam16_groups { ($t:ty, $e1:ident, $e2:ident, $e3:ident) => {
    grp!($e1, $t, out,
        use palette::cam16::{Parameters, StaticWp, Surround, Discounting}; use palette::white_point::{D50, Any}; use palette::convert::FromColorUnclamped;
        let d65 = [0.95047, 1.0, 1.08883];
        // dynamic white point (same numbers as the static one of c07_ops: the other impl of WhitePointParameter)
        cam16_cfg!(out, "dynamic-D65", Any, "Xyz:D65", d65, 40.0, 1.0, None, Parameters::default_dynamic_wp(Xyz::<Any, T>::new(0.95047, 1.0, 1.08883), 40.0 as T).bake());
        cam16_cfg!(out, "static-D50", D50, "Xyz:D50", [0.96422, 1.0, 0.82521], 40.0, 1.0, None, Parameters::<StaticWp<D50>, T>::default_static_wp(40.0 as T).bake()););
    grp!($e2, $t, out,
        use palette::cam16::{Parameters, StaticWp, Surround, Discounting}; use palette::convert::FromColorUnclamped;
        let d65 = [0.95047, 1.0, 1.08883];
        cam16_cfg!(out, "dark-LA4", D65, "Xyz:D65", d65, 4.0, 0.8, None, { let mut p = Parameters::<StaticWp<D65>, T>::default_static_wp(4.0 as T); p.surround = Surround::Dark; p.background_luminance = 0.1 as T; p.bake() });
        cam16_cfg!(out, "dim-LA1000", D65, "Xyz:D65", d65, 1000.0, 0.9, None, { let mut p = Parameters::<StaticWp<D65>, T>::default_static_wp(1000.0 as T); p.surround = Surround::Dim; p.background_luminance = 1.0 as T; p.bake() }););
    grp!($e3, $t, out,
        use palette::cam16::{Parameters, StaticWp, Surround, Discounting}; use palette::convert::FromColorUnclamped;
        let d65 = [0.95047, 1.0, 1.08883];
        cam16_cfg!(out, "percent5-discount1", D65, "Xyz:D65", d65, 40.0, 0.9, Some(1.0), { let mut p = Parameters::<StaticWp<D65>, T>::default_static_wp(40.0 as T); p.surround = Surround::Percent(5.0 as T); p.discounting = Discounting::Custom(1.0 as T); p.bake() });
        cam16_cfg!(out, "percent0-discount0", D65, "Xyz:D65", d65, 40.0, 0.8, Some(0.0), { let mut p = Parameters::<StaticWp<D65>, T>::default_static_wp(40.0 as T); p.surround = Surround::Percent(0.0 as T); p.discounting = Discounting::Custom(0.0 as T); p.bake() }););
} }
cam16_groups!(f32, ea1, ea2, ea3);
cam16_groups!(f64, eb1, eb2, eb3);

// ------------------------------------------------------------------------------------------------ F. BlendWith, G. deprecated differences, H. gamma standards
macro_rules! misc_groups { ($t:ty, $m1:ident, $m2:ident, $m3:ident) => {
    // F. `blend_with` (blend/blend_with.rs: own impls for C, Alpha<C>, PreAlpha<C>) with every Equations setting and with a closure
    grp!($m1, $t, out,
        use palette::blend::{BlendWith, Equation, Equations, Parameter, Parameters};
        let eqs = [Equation::Add, Equation::Subtract, Equation::ReverseSubtract, Equation::Min, Equation::Max];
        let pars = [Parameter::One, Parameter::Zero, Parameter::SourceColor, Parameter::OneMinusSourceColor, Parameter::DestinationColor, Parameter::OneMinusDestinationColor, Parameter::SourceAlpha, Parameter::OneMinusSourceAlpha, Parameter::DestinationAlpha, Parameter::OneMinusDestinationAlpha];
        let cs = edge_colours::<T, 3>(&box_n::<3>("Rgb")); let n = cs.len();
        let als = alphas::<T>();
        let mut k = 0usize;
        for ce in eqs { for ae in eqs { for sp in pars { for dp in pars {
            let mut e = Equations::from_equations(ce, ae);
            e.color_parameters = Parameters { source: sp, destination: dp };
            e.alpha_parameters = Parameters { source: dp, destination: sp };
            for _ in 0..3 {
                k += 1;
                let (a, b, sa, da) = (cs[(k * 31) % n], cs[(k * 17 + 5) % n], als[k % als.len()], als[(k / 3) % als.len()]);
                let inp = || format!("Alpha({}, {:?}).blend_with(Alpha({}, {:?}), {:?}/{:?} {:?}/{:?})", show(&a), sa, show(&b), da, ce, ae, sp, dp);
                jf!(out, "blend_with:Alpha", "Rgb:Lin", inp(), alv(Alpha { color: mk::<Rgb<Linear<S>, T>, T, 3>(a), alpha: sa }.blend_with(Alpha { color: mk(b), alpha: da }, e)));
                jf!(out, "blend_with:PreAlpha", "Rgb:Lin", inp(), prv(PreAlpha::new(mk::<Rgb<Linear<S>, T>, T, 3>(a), sa).blend_with(PreAlpha::new(mk(b), da), e)));
                jf!(out, "blend_with", "Rgb:Lin", inp(), arr(mk::<Rgb<Linear<S>, T>, T, 3>(a).blend_with(mk(b), e)).to_vec());
                jf!(out, "blend_with", "Xyz", inp(), arr(mk::<Xyz<D65, T>, T, 3>(a).blend_with(mk(b), e)).to_vec());
            }
        } } } }
        for (i, a) in cs.iter().enumerate() { let (a, b) = (*a, cs[(i * 7 + 3) % n]);
            let f = |s: PreAlpha<Rgb<Linear<S>, T>>, d: PreAlpha<Rgb<Linear<S>, T>>| PreAlpha { color: Rgb::new(s.red * d.green, s.green * d.blue, s.blue * d.red), alpha: s.alpha * d.alpha };
            jf!(out, "blend_with:closure", "Rgb:Lin", format!("{} {}", show(&a), show(&b)), { let x = Alpha { color: mk::<Rgb<Linear<S>, T>, T, 3>(a), alpha: 1e-9 as T }.blend_with(Alpha { color: mk(b), alpha: 0.0 as T }, f); let y = mk::<Rgb<Linear<S>, T>, T, 3>(a).blend_with(mk(b), f); let mut v = alv(x); v.extend(arr(y)); v });
        });
    // G. the deprecated traits are separate impl blocks per type: ColorDifference (Lab, Lch), RelativeContrast (17 types, each converting in its own way),
    // the free function contrast_ratio; plus differences at other type parameters
    grp!($m2, $t, out,
        use palette::{ColorDifference, RelativeContrast}; use palette::color_difference::{Ciede2000, Wcag21RelativeContrast}; use palette::white_point::D50;
        macro_rules! rc { ($ty:ty, $key:expr, $n:expr) => {{
            let cs = fcols::<T, $n>($key); let n = cs.len();
            for (i, a) in cs.iter().enumerate() { for j in partners(i, n) { let (a, b) = (*a, cs[j]);
                jf!(out, "get_contrast_ratio", $key, format!("{} {}", show(&a), show(&b)), { let r = mk::<$ty, T, $n>(a).get_contrast_ratio(mk::<$ty, T, $n>(b)); let _ = (RelativeContrast::has_min_contrast_text(mk::<$ty, T, $n>(a), mk(b)), RelativeContrast::has_min_contrast_large_text(mk::<$ty, T, $n>(a), mk(b)), RelativeContrast::has_enhanced_contrast_text(mk::<$ty, T, $n>(a), mk(b)), RelativeContrast::has_enhanced_contrast_large_text(mk::<$ty, T, $n>(a), mk(b)), RelativeContrast::has_min_contrast_graphics(mk::<$ty, T, $n>(a), mk(b))); vec![r] });
            } }
        }} }
        rc!(Rgb<S, T>, "Rgb", 3); rc!(Luma<S, T>, "Luma", 1); rc!(Hsl<S, T>, "Hsl", 3); rc!(Hsv<S, T>, "Hsv", 3); rc!(Hwb<S, T>, "Hwb", 3); rc!(Lab<D65, T>, "Lab", 3); rc!(Lch<D65, T>, "Lch", 3);
        rc!(Xyz<D65, T>, "Xyz", 3); rc!(Yxy<D65, T>, "Yxy", 3); rc!(Luv<D65, T>, "Luv", 3); rc!(Lchuv<D65, T>, "Lchuv", 3); rc!(Hsluv<D65, T>, "Hsluv", 3);
        rc!(Oklab<T>, "Oklab", 3); rc!(Oklch<T>, "Oklch", 3); rc!(Okhsl<T>, "Okhsl", 3); rc!(Okhwb<T>, "Okhwb", 3);
        for x in alphas::<T>() { for y in alphas::<T>() { jf!(out, "contrast_ratio", "fn", format!("{:?} {:?}", x, y), vec![palette::contrast_ratio(x, y)]); } }
        macro_rules! cd { ($ty:ty, $key:expr, $name:expr, $m:ident) => {{
            let cs = fcols::<T, 3>($key); let n = cs.len();
            for (i, a) in cs.iter().enumerate() { for j in partners(i, n) { let (a, b) = (*a, cs[j]);
                jf!(out, $name, $key, format!("{} {}", show(&a), show(&b)), vec![mk::<$ty, T, 3>(a).$m(mk::<$ty, T, 3>(b))]);
            } }
        }} }
        cd!(Lab<D65, T>, "Lab", "get_color_difference", get_color_difference); cd!(Lch<D65, T>, "Lch", "get_color_difference", get_color_difference);
        cd!(Lab<D50, T>, "Lab", "ciede2000:D50", difference); cd!(Lch<D50, T>, "Lch", "ciede2000:D50", difference););
    // H. RGB standards never instantiated: Gamma<Srgb> (GammaFn<F2p2>: a pure power law like AdobeRgb, same two listed findings), DciP3Plus<F>
    grp!($m3, $t, out,
        use palette::encoding::{gamma::Gamma, DciP3Plus, Srgb}; use palette::convert::FromColorUnclamped;
        macro_rules! std_edges { ($St:ty, $Lt:ty, $sn:expr, $wp:ty, $xb:expr, $pow:expr) => {{
            for a in fcols::<T, 3>("Rgb") {
                jf!(out, "edge", format!("Rgb:{}->Xyz", $sn), show(&a), arr(Xyz::<$wp, T>::from_color_unclamped(mk::<Rgb<$St, T>, T, 3>(a))).to_vec());
                jf!(out, "edge", format!("Rgb:{}->Hsv->Rgb", $sn), show(&a), arr(Rgb::<$St, T>::from_color_unclamped(Hsv::<$St, T>::from_color_unclamped(mk::<Rgb<$St, T>, T, 3>(a)))).to_vec());
            }
            for a in fcols::<T, 1>("Luma") { jf!(out, "edge", format!("Luma:{}->Xyz->Luma", $sn), show(&a), arr(Luma::<$Lt, T>::from_color_unclamped(Xyz::<$wp, T>::from_color_unclamped(mk::<Luma<$Lt, T>, T, 1>(a)))).to_vec()); }
            for a in fcols::<T, 3>($xb) {
                let lin: [T; 3] = arr(Rgb::<Linear<<$St as palette::rgb::RgbStandard>::Space>, T>::from_color_unclamped(mk::<Xyz<$wp, T>, T, 3>(a)));
                let lin_min = lin.iter().map(|x| x.to64()).fold(f64::INFINITY, f64::min);
                let r = guard(|| arr(Rgb::<$St, T>::from_color_unclamped(mk::<Xyz<$wp, T>, T, 3>(a))).to_vec());
                judge_known(out, &format!("edge:{}->Rgb:{}", $xb, $sn), r, &|| format!("{}{}", $xb, show(&a)), &|v: &[T]| if $pow && lin_min < 0.0 && v.iter().any(|x| x.is_nan()) { Some(if lin_min >= -1e-6 { "powlaw-nan".to_string() } else { "powlaw-nan-out-of-gamut".to_string() }) } else { None });
            }
        }} }
        std_edges!(Gamma<Srgb>, Gamma<D65>, "Gamma<Srgb>", D65, "Xyz:D65", true);
        std_edges!(DciP3Plus<Srgb>, DciP3Plus<Srgb>, "DciP3Plus<Srgb>", palette::encoding::DciP3, "Xyz:DciP3", false););
} }
misc_groups!(f32, ma1, ma2, ma3);
misc_groups!(f64, mb1, mb2, mb3);

pub fn run_more(out: &mut Out, th: bool) {
    let _ = th;
    fa1(out); fa2(out); fa3(out); fa4(out); fa5(out); fa6(out); fa7(out); fa8(out); fa9(out); fa10(out);
    fb1(out); fb2(out); fb3(out); fb4(out); fb5(out); fb6(out); fb7(out); fb8(out); fb9(out); fb10(out);
    ca1(out); ca2(out); ca3(out); ca4(out); cb1(out); cb2(out); cb3(out); cb4(out);
    ea1(out); ea2(out); ea3(out); eb1(out); eb2(out); eb3(out);
    ma1(out); ma2(out); ma3(out); mb1(out); mb2(out); mb3(out);
}
