//! C12 — hex strings, colour names and packed integers round-trip and parse strictly.
//!
//! Everything here goes through the public API of the real crate: `str::parse` / `from_hex`, `format!("{:x}")`,
//! `Packed::pack/unpack`, `into_u32/from_u32`, `into_u16/from_u16`, the `From` impls, `named::from_str`,
//! `named::entries`.  Lines for the Lean driver (`out.case`) carry the implementation's answer; `out.check`
//! evaluates the clauses of the property itself on the implementation.
use crate::common::*;
use crate::gen_named::NAMED_CONSTS;
use palette::cast::Packed;
use palette::encoding::Srgb as SrgbStd;
use palette::luma::{self, Luma, Lumaa};
use palette::rgb::{self, FromHexError, Rgb, Rgba};
use palette::{named, Srgb, Srgba};
use std::num::IntErrorKind;
use std::panic::catch_unwind;
use std::str::FromStr;

// ------------------------------------------------------------------------------------------ parsing

/// (alpha?, component type) of the ten parsable types, in the order of the `FromStr` impls
pub const PTYS: [(bool, &str); 10] = [(false, "u8"), (true, "u8"), (false, "u16"), (true, "u16"), (false, "u32"), (true, "u32"),
    (false, "f32"), (true, "f32"), (false, "f64"), (true, "f64")];

/// the documented digit counts (rgb.rs `from_hex` docs): `#f8b`/`#ff88bb` need 8 bits or more, `#ffff8888bbbb` 16,
/// `#ffffffff88888888bbbbbbbb` 32; `f32` takes what `u16` takes, `f64` what `u32` takes; one more component with alpha
fn digit_counts(alpha: bool, ty: &str) -> &'static [usize] {
    match (alpha, ty) {
        (false, "u8") => &[3, 6], (true, "u8") => &[4, 8],
        (false, "u16") | (false, "f32") => &[3, 6, 12], (true, "u16") | (true, "f32") => &[4, 8, 16],
        (false, "u32") | (false, "f64") => &[3, 6, 12, 24], (true, "u32") | (true, "f64") => &[4, 8, 16, 32],
        _ => unreachable!(),
    }
}
/// "an optional '#' followed by exactly the documented number of hexadecimal digits" — written without the crate
fn in_grammar(alpha: bool, ty: &str, s: &str) -> bool {
    let b = s.as_bytes();
    let d = if b.first() == Some(&b'#') { &b[1..] } else { b };
    digit_counts(alpha, ty).contains(&d.len()) && d.iter().all(|c| matches!(c, b'0'..=b'9' | b'a'..=b'f' | b'A'..=b'F'))
}

#[derive(Clone, Debug, PartialEq)]
pub enum Po { Ok(Vec<String>), Err(&'static str), Panic }
impl Po {
    fn txt(&self) -> String { match self { Po::Ok(v) => format!("ok {}", v.join(" ")), Po::Err(k) => k.to_string(), Po::Panic => "panic".into() } }
    fn is_ok(&self) -> bool { matches!(self, Po::Ok(_)) }
}
pub fn kind(e: &FromHexError) -> &'static str {
    match e {
        FromHexError::ParseIntError(p) => match p.kind() { IntErrorKind::Empty => "err:int:empty", IntErrorKind::InvalidDigit => "err:int:invalid",
            IntErrorKind::PosOverflow => "err:int:overflow", _ => "err:int:other" },
        FromHexError::HexFormatError(_) => "err:hexformat",
        FromHexError::RgbaHexFormatError(_) => "err:rgbahexformat",
    }
}
macro_rules! parse_as {
    (rgb, $t:ty, $s:expr, $show:expr) => {{ let s: &str = $s; match catch_unwind(|| Rgb::<SrgbStd, $t>::from_str(s)) {
        Ok(Ok(c)) => Po::Ok(vec![$show(c.red), $show(c.green), $show(c.blue)]), Ok(Err(e)) => Po::Err(kind(&e)), Err(_) => Po::Panic } }};
    (rgba, $t:ty, $s:expr, $show:expr) => {{ let s: &str = $s; match catch_unwind(|| Rgba::<SrgbStd, $t>::from_str(s)) {
        Ok(Ok(c)) => Po::Ok(vec![$show(c.color.red), $show(c.color.green), $show(c.color.blue), $show(c.alpha)]), Ok(Err(e)) => Po::Err(kind(&e)), Err(_) => Po::Panic } }};
}
/// the implementation under test
pub fn parse(alpha: bool, ty: &str, s: &str) -> Po {
    match (alpha, ty) {
        (false, "u8") => parse_as!(rgb, u8, s, |x: u8| x.to_string()), (true, "u8") => parse_as!(rgba, u8, s, |x: u8| x.to_string()),
        (false, "u16") => parse_as!(rgb, u16, s, |x: u16| x.to_string()), (true, "u16") => parse_as!(rgba, u16, s, |x: u16| x.to_string()),
        (false, "u32") => parse_as!(rgb, u32, s, |x: u32| x.to_string()), (true, "u32") => parse_as!(rgba, u32, s, |x: u32| x.to_string()),
        (false, "f32") => parse_as!(rgb, f32, s, h32), (true, "f32") => parse_as!(rgba, f32, s, h32),
        (false, "f64") => parse_as!(rgb, f64, s, h64), (true, "f64") => parse_as!(rgba, f64, s, h64),
        _ => unreachable!(),
    }
}
/// cheap variant for the exhaustive scans: 0 = ok, 1 = err, 2 = panic
fn parse_class(ti: usize, s: &str) -> u8 {
    macro_rules! cl { ($e:expr) => { match catch_unwind(|| $e.is_ok()) { Ok(true) => 0, Ok(false) => 1, Err(_) => 2 } } }
    match ti {
        0 => cl!(Rgb::<SrgbStd, u8>::from_str(s)), 1 => cl!(Rgba::<SrgbStd, u8>::from_str(s)),
        2 => cl!(Rgb::<SrgbStd, u16>::from_str(s)), 3 => cl!(Rgba::<SrgbStd, u16>::from_str(s)),
        4 => cl!(Rgb::<SrgbStd, u32>::from_str(s)), 5 => cl!(Rgba::<SrgbStd, u32>::from_str(s)),
        6 => cl!(Rgb::<SrgbStd, f32>::from_str(s)), 7 => cl!(Rgba::<SrgbStd, f32>::from_str(s)),
        8 => cl!(Rgb::<SrgbStd, f64>::from_str(s)), _ => cl!(Rgba::<SrgbStd, f64>::from_str(s)),
    }
}

pub fn hx(s: &str) -> String { if s.is_empty() { "-".into() } else { s.bytes().map(|b| format!("{:02x}", b)).collect() } }

/// the alphabet of the property: hex digits of both cases and both ends of each range, the ASCII neighbours of
/// the digit ranges, letters past `f`, signs, `#`, whitespace, NUL, and characters of 2, 3 and 4 bytes
pub const ALPHABET: [&str; 24] = ["0", "9", "a", "f", "A", "F", "5", "g", "G", "z", "/", ":", "@", "`", "+", "-", "#", " ", "\t", "\n",
    "\u{e9}", "\u{20ac}", "\u{ff46}", "\u{1f600}"];
/// a smaller one with a member of every class the property names (hex digits, non-hex ASCII, '+', '-', '#',
/// whitespace, multi-byte characters) for *all* strings of up to 9 symbols
pub const ALPHABET_SMALL: [&str; 9] = ["f", "0", "g", "+", "-", "#", " ", "\u{e9}", "\u{20ac}"];

fn strings_upto(alpha: &[&str], maxlen: usize) -> Vec<String> {
    let mut all = vec![String::new()];
    let mut layer = vec![String::new()];
    for _ in 0..maxlen {
        let mut next = Vec::with_capacity(layer.len() * alpha.len());
        for s in &layer { for a in alpha { let mut t = s.clone(); t.push_str(a); next.push(t); } }
        all.extend(next.iter().cloned());
        layer = next;
    }
    all
}

fn class_of(s: &str) -> &'static str {
    if s.is_empty() { return "empty"; }
    if !s.is_ascii() { return "multibyte"; }
    let d = s.strip_prefix('#').unwrap_or(s);
    if d.bytes().all(|c| c.is_ascii_hexdigit()) { return if s.len() == d.len() { "hexdigits" } else { "hash+hexdigits" }; }
    if d.contains('+') || d.contains('-') { return "sign"; }
    if d.contains('#') { return "inner-hash"; }
    if d.bytes().any(|c| c.is_ascii_whitespace() || c == 0) { return "whitespace"; }
    "non-hex-ascii"
}

/// the strictness clause on one string, all ten types; optionally a driver line per type
fn strict_case(out: &mut Out, s: &str, lines: bool) {
    out.count(&format!("cls:str:{}", class_of(s)));
    for (alpha, ty) in PTYS {
        let r = parse(alpha, ty, s);
        let name = format!("{}:{}", if alpha { "rgba" } else { "rgb" }, ty);
        out.check(r != Po::Panic, &format!("no-panic:{}", name), || format!("parsing {:?} (bytes {}) panics", s, hx(s)));
        let g = in_grammar(alpha, ty, s);
        if g { out.check(r.is_ok(), &format!("accepts-documented:{}", name), || format!("{:?} is a documented form but gives {}", s, r.txt())); out.count("cls:str:in-grammar"); }
        else { out.check(!r.is_ok(), &format!("rejects-undocumented:{}", name), || format!("{:?} (bytes {}) is not '#'? + documented number of hex digits, but parses as {}", s, hx(s), r.txt())); }
        if lines { out.case(&format!("hexparse {} {} | {} | {}", if alpha { "rgba" } else { "rgb" }, ty, hx(s), r.txt())); }
    }
}

/// a valid code for `n` digits with random case and optional '#'
fn valid_code(rng: &mut Rng, n: usize) -> String {
    let mut s = String::new();
    if rng.chance(0.5) { s.push('#'); }
    let case = rng.below(3);
    for _ in 0..n {
        let d = rng.below(16) as u32;
        let c = std::char::from_digit(d, 16).unwrap();
        s.push(if case == 0 || (case == 2 && rng.chance(0.5)) { c.to_ascii_uppercase() } else { c });
    }
    s
}
/// replace the bytes `[i, i+len(sym))` of an ASCII string by `sym` (byte length preserved, so the length switch still passes)
fn overwrite(s: &str, i: usize, sym: &str) -> Option<String> {
    if !s.is_ascii() || i + sym.len() > s.len() { return None; }
    let mut t = String::with_capacity(s.len());
    t.push_str(&s[..i]); t.push_str(sym); t.push_str(&s[i + sym.len()..]);
    Some(t)
}
fn mutate(rng: &mut Rng, s: &str) -> String {
    let chars: Vec<char> = s.chars().collect();
    let sym = *rng.pick(&ALPHABET);
    let pos = rng.below(chars.len() as u64 + 1) as usize;
    let mut v: Vec<String> = chars.iter().map(|c| c.to_string()).collect();
    match rng.below(8) {
        0 => { if pos < v.len() { v[pos] = sym.to_string(); } else { v.push(sym.to_string()); } }          // substitute
        1 => v.insert(pos, sym.to_string()),                                                                  // insert
        2 => { if pos < v.len() { v.remove(pos); } }                                                          // delete
        3 => { if pos + 1 < v.len() { v.swap(pos, pos + 1); } }                                              // transpose
        4 => v.insert(0, (*rng.pick(&["+", "-", "#", " ", "0x"])).to_string()),                               // prefix
        5 => v.push((*rng.pick(&[" ", "\n", "#", "+", "\0"])).to_string()),                                   // suffix
        6 => { // byte-length preserving overwrite with a multi-byte character or a sign
            let flat: String = v.concat();
            if flat.is_ascii() && !flat.is_empty() {
                let sym = *rng.pick(&["\u{e9}", "\u{20ac}", "\u{1f600}", "+", "-", "\u{ff46}"]);
                let i = rng.below(flat.len() as u64) as usize;
                if let Some(t) = overwrite(&flat, i, sym) { return t; }
            }
        }
        _ => { if pos < v.len() { let c = v[pos].clone(); v.insert(pos, c); } }                              // duplicate
    }
    v.concat()
}

// ------------------------------------------------------------------------------------------ formatting

fn fmt_lines<T: std::fmt::LowerHex + std::fmt::UpperHex + Copy + std::fmt::Display>(out: &mut Out, ty: &str, c3: [T; 3], a: T) {
    let rgb = Rgb::<SrgbStd, T>::new(c3[0], c3[1], c3[2]);
    let rgba = Rgba::<SrgbStd, T>::new(c3[0], c3[1], c3[2], a);
    let i3 = format!("{} {} {}", c3[0], c3[1], c3[2]);
    let i4 = format!("{} {}", i3, a);
    out.case(&format!("hexfmt rgb {} x - | {} | {}", ty, i3, hx(&format!("{:x}", rgb))));
    out.case(&format!("hexfmt rgb {} X - | {} | {}", ty, i3, hx(&format!("{:X}", rgb))));
    out.case(&format!("hexfmt rgba {} x - | {} | {}", ty, i4, hx(&format!("{:x}", rgba))));
    out.case(&format!("hexfmt rgba {} X - | {} | {}", ty, i4, hx(&format!("{:X}", rgba))));
    // explicit widths (the `#` flag is not forwarded by the impls, so `{:#x}` is the default form)
    out.case(&format!("hexfmt rgb {} x - | {} | {}", ty, i3, hx(&format!("{:#x}", rgb))));
    out.case(&format!("hexfmt rgb {} x 1 | {} | {}", ty, i3, hx(&format!("{:1x}", rgb))));
    out.case(&format!("hexfmt rgb {} x 3 | {} | {}", ty, i3, hx(&format!("{:3x}", rgb))));
    out.case(&format!("hexfmt rgb {} X 10 | {} | {}", ty, i3, hx(&format!("{:10X}", rgb))));
    out.case(&format!("hexfmt rgba {} x 1 | {} | {}", ty, i4, hx(&format!("{:1x}", rgba))));
    out.case(&format!("hexfmt rgba {} X 5 | {} | {}", ty, i4, hx(&format!("{:5X}", rgba))));
}

thread_local! { static FMT_BUF: std::cell::RefCell<(String, String)> = std::cell::RefCell::new((String::with_capacity(80), String::with_capacity(80))); }

/// format -> parse returns the same colour (lower, upper, with and without '#'); returns a failure description.
/// Formats into per-thread buffers (no allocation per colour: the scans run 2^24..2^26 of these in 16 threads).
macro_rules! roundtrip_fn { ($name:ident, $t:ty) => {
    fn $name(r: $t, g: $t, b: $t, a: $t, deep: bool) -> Option<String> {
        use std::fmt::Write as _;
        FMT_BUF.with(|cell| {
            let (s, t) = &mut *cell.borrow_mut();
            let c = Rgb::<SrgbStd, $t>::new(r, g, b);
            let ca = Rgba::<SrgbStd, $t>::new(r, g, b, a);
            let chk = |s: &str| -> Option<String> { match catch_unwind(|| Rgb::<SrgbStd, $t>::from_hex(s)) {
                Ok(Ok(p)) if p == c => None, Ok(Ok(p)) => Some(format!("{:?} formats as {:?}, which parses as {:?}", c, s, p)),
                Ok(Err(e)) => Some(format!("{:?} formats as {:?}, which is rejected: {}", c, s, e)), Err(_) => Some(format!("parsing {:?} panics", s)) } };
            let chka = |s: &str| -> Option<String> { match catch_unwind(|| Rgba::<SrgbStd, $t>::from_hex(s)) {
                Ok(Ok(p)) if p == ca => None, Ok(Ok(p)) => Some(format!("{:?} formats as {:?}, which parses as {:?}", ca, s, p)),
                Ok(Err(e)) => Some(format!("{:?} formats as {:?}, which is rejected: {}", ca, s, e)), Err(_) => Some(format!("parsing {:?} panics", s)) } };
            s.clear(); write!(s, "{:x}", c).unwrap();
            if let Some(f) = chk(s) { return Some(f); }
            t.clear(); write!(t, "{:x}", ca).unwrap();
            if let Some(f) = chka(t) { return Some(f); }
            if deep {
                // parsing is the inverse of formatting on the documented full-width strings as well
                t.clear(); write!(t, "{:x}", Rgb::<SrgbStd, $t>::from_hex(s).unwrap()).unwrap();
                if t != s { return Some(format!("{:?} parses and formats back as {:?}", s, t)); }
                s.clear(); write!(s, "#{:x}", c).unwrap(); if let Some(f) = chk(s) { return Some(f); }
                s.clear(); write!(s, "{:X}", c).unwrap(); if let Some(f) = chk(s) { return Some(f); }
                s.clear(); write!(s, "#{:X}", c).unwrap(); if let Some(f) = chk(s) { return Some(f); }
                t.clear(); write!(t, "#{:x}", ca).unwrap(); if let Some(f) = chka(t) { return Some(f); }
                t.clear(); write!(t, "{:X}", ca).unwrap(); if let Some(f) = chka(t) { return Some(f); }
                t.clear(); write!(t, "#{:X}", ca).unwrap(); if let Some(f) = chka(t) { return Some(f); }
            }
            None
        })
    }
} }
roundtrip_fn!(roundtrip_u8, u8);
roundtrip_fn!(roundtrip_u16, u16);
roundtrip_fn!(roundtrip_u32, u32);

/// run `f` on `0..n` in 16 threads; (number of failures, first few descriptions)
fn par_scan<F: Fn(u64) -> Option<String> + Sync>(n: u64, f: F) -> (u64, Vec<String>) {
    let threads = 16u64;
    let chunk = (n + threads - 1) / threads;
    let mut total = 0u64; let mut firsts = vec![];
    std::thread::scope(|sc| {
        let hs: Vec<_> = (0..threads).map(|t| { let f = &f; sc.spawn(move || {
            let (lo, hi) = (t * chunk, ((t + 1) * chunk).min(n));
            let mut bad = 0u64; let mut first = vec![];
            for i in lo..hi { if let Some(d) = f(i) { bad += 1; if first.len() < 2 { first.push(d); } } }
            (bad, first)
        }) }).collect();
        for h in hs { let (b, f) = h.join().unwrap(); total += b; if firsts.len() < 6 { firsts.extend(f); } }
    });
    (total, firsts)
}
fn scan_to_out(out: &mut Out, clause: &str, n: u64, res: (u64, Vec<String>)) {
    // one oracle evaluation per element; the first failures are recorded with their inputs
    out.oracle_evals += n;
    out.n_fail_total += res.0;
    for d in res.1 { if out.fails.iter().filter(|(c, _)| c == clause).count() < 8 { out.fails.push((clause.to_string(), d)); } }
}

// ------------------------------------------------------------------------------------------ packed

/// documented byte positions: the order's name read left to right is the integer read from its most significant
/// byte (`Argb` = `0xAARRGGBB`, docs of `into_u32`/`Packed`); index into [r, g, b, a]
const RGBA_ORDERS: [(&str, [usize; 4]); 4] = [("Abgr", [3, 2, 1, 0]), ("Argb", [3, 0, 1, 2]), ("Bgra", [2, 1, 0, 3]), ("Rgba", [0, 1, 2, 3])];
/// `La` = `0xLLAA`, `Al` = `0xAALL`; index into [l, a]
const LUMA_ORDERS: [(&str, [usize; 2]); 2] = [("La", [0, 1]), ("Al", [1, 0])];

macro_rules! with_rgba_order { ($i:expr, $O:ident, $e:expr) => { match $i { 0 => { type $O = rgb::channels::Abgr; $e } 1 => { type $O = rgb::channels::Argb; $e }
    2 => { type $O = rgb::channels::Bgra; $e } _ => { type $O = rgb::channels::Rgba; $e } } } }
macro_rules! with_luma_order { ($i:expr, $O:ident, $e:expr) => { match $i { 0 => { type $O = luma::channels::La; $e } _ => { type $O = luma::channels::Al; $e } } } }

fn doc_u32(pos: &[usize; 4], c: [u8; 4]) -> u32 { ((c[pos[0]] as u32) << 24) | ((c[pos[1]] as u32) << 16) | ((c[pos[2]] as u32) << 8) | c[pos[3]] as u32 }
fn doc_u16(pos: &[usize; 2], c: [u8; 2]) -> u16 { ((c[pos[0]] as u16) << 8) | c[pos[1]] as u16 }

/// all clauses about one packed `u32` value `x` in order `oi`; None = fine
fn packed_u32_point(oi: usize, x: u32) -> Option<String> {
    let (name, pos) = RGBA_ORDERS[oi];
    with_rgba_order!(oi, O, {
        let c: Srgba<u8> = Packed::<O, u32>::from(x).unpack();
        let comps = [c.color.red, c.color.green, c.color.blue, c.alpha];
        let be = x.to_be_bytes();
        for k in 0..4 { if comps[pos[k]] != be[k] { return Some(format!("{}: unpack({:#010x}) = {:?}, byte {} should be component {}", name, x, comps, k, pos[k])); } }
        let back = Packed::<O, u32>::pack(c).color;
        if back != x { return Some(format!("{}: pack(unpack({:#010x})) = {:#010x}", name, x, back)); }
        if doc_u32(&pos, comps) != x { return Some(format!("{}: documented layout of {:?} is {:#010x}, not {:#010x}", name, comps, doc_u32(&pos, comps), x)); }
        // the same through the other public doors
        if Srgba::<u8>::from_u32::<O>(x) != c || c.into_u32::<O>() != x { return Some(format!("{}: Rgba::from_u32/into_u32 differ from Packed at {:#010x}", name, x)); }
        let arr: Srgba<u8> = Packed::<O, [u8; 4]>::from(be).unpack();
        if arr != c || Packed::<O, [u8; 4]>::pack(c).color != be { return Some(format!("{}: the [u8; 4] form differs from the u32 form at {:#010x}", name, x)); }
        let rgb = Srgb::<u8>::from_u32::<O>(x);
        if rgb != c.color { return Some(format!("{}: Rgb::from_u32({:#010x}) = {:?}", name, x, rgb)); }
        let opaque = rgb.into_u32::<O>();
        if opaque != doc_u32(&pos, [comps[0], comps[1], comps[2], 255]) { return Some(format!("{}: Rgb::into_u32 of {:?} = {:#010x}", name, rgb, opaque)); }
        let via_packed: Srgb<u8> = Packed::<O, u32>::from(x).into();
        if via_packed != rgb { return Some(format!("{}: Rgb::from(Packed) differs at {:#010x}", name, x)); }
        None
    })
}
/// colour -> integer -> colour, starting from the colour
fn packed_u32_color(oi: usize, c4: [u8; 4]) -> Option<String> {
    let (name, pos) = RGBA_ORDERS[oi];
    with_rgba_order!(oi, O, {
        let c = Srgba::<u8>::new(c4[0], c4[1], c4[2], c4[3]);
        let p: Packed<O, u32> = c.into();
        if p.color != doc_u32(&pos, c4) { return Some(format!("{}: pack({:?}) = {:#010x}, documented {:#010x}", name, c4, p.color, doc_u32(&pos, c4))); }
        let back: Srgba<u8> = p.unpack();
        if back != c { return Some(format!("{}: unpack(pack({:?})) = {:?}", name, c4, back)); }
        None
    })
}
fn packed_u16_point(oi: usize, x: u16) -> Option<String> {
    let (name, pos) = LUMA_ORDERS[oi];
    with_luma_order!(oi, O, {
        let c: Lumaa<SrgbStd, u8> = Packed::<O, u16>::from(x).unpack();
        let comps = [c.color.luma, c.alpha];
        let be = x.to_be_bytes();
        for k in 0..2 { if comps[pos[k]] != be[k] { return Some(format!("{}: unpack({:#06x}) = {:?}", name, x, comps)); } }
        if Packed::<O, u16>::pack(c).color != x { return Some(format!("{}: pack(unpack({:#06x})) differs", name, x)); }
        if doc_u16(&pos, comps) != x { return Some(format!("{}: documented layout differs at {:#06x}", name, x)); }
        if Lumaa::<SrgbStd, u8>::from_u16::<O>(x) != c || c.into_u16::<O>() != x { return Some(format!("{}: Lumaa::from_u16/into_u16 differ at {:#06x}", name, x)); }
        let l = Luma::<SrgbStd, u8>::from_u16::<O>(x);
        if l != c.color { return Some(format!("{}: Luma::from_u16({:#06x}) = {:?}", name, x, l)); }
        if l.into_u16::<O>() != doc_u16(&pos, [comps[0], 255]) { return Some(format!("{}: Luma::into_u16 of {:?} = {:#06x}", name, l, l.into_u16::<O>())); }
        let back: Lumaa<SrgbStd, u8> = Packed::<O, u16>::pack(Lumaa::<SrgbStd, u8>::new(comps[0], comps[1])).unpack();
        if back != c { return Some(format!("{}: unpack(pack({:?})) = {:?}", name, comps, back)); }
        None
    })
}
/// the plain `From` impls: Rgb <-> u32 is ARGB (`0xAARRGGBB`), Rgba <-> u32 is RGBA, Luma <-> u16 is AL, Lumaa <-> u16 is LA
fn default_orders_point(x: u32) -> Option<String> {
    let b = x.to_be_bytes();
    let rgb = Srgb::<u8>::from(x);
    if rgb != Srgb::new(b[1], b[2], b[3]) { return Some(format!("Srgb::from({:#010x}) = {:?}, documented 0xAARRGGBB", x, rgb)); }
    if u32::from(rgb) != (x | 0xff00_0000) { return Some(format!("u32::from({:?}) = {:#010x}", rgb, u32::from(rgb))); }
    let rgba = Srgba::<u8>::from(x);
    if rgba != Srgba::new(b[0], b[1], b[2], b[3]) { return Some(format!("Srgba::from({:#010x}) = {:?}, documented 0xRRGGBBAA", x, rgba)); }
    if u32::from(rgba) != x { return Some(format!("u32::from({:?}) = {:#010x}", rgba, u32::from(rgba))); }
    let y = x as u16; let yb = y.to_be_bytes();
    let l = Luma::<SrgbStd, u8>::from(y);
    if l != Luma::new(yb[1]) { return Some(format!("Luma::from({:#06x}) = {:?}, documented 0xAALL", y, l)); }
    if u16::from(l) != (y | 0xff00) { return Some(format!("u16::from({:?}) = {:#06x}", l, u16::from(l))); }
    let la = Lumaa::<SrgbStd, u8>::from(y);
    if la != Lumaa::new(yb[0], yb[1]) { return Some(format!("Lumaa::from({:#06x}) = {:?}, documented 0xLLAA", y, la)); }
    if u16::from(la) != y { return Some(format!("u16::from({:?}) = {:#06x}", la, u16::from(la))); }
    None
}

fn packed_lines(out: &mut Out, x: u32) {
    for oi in 0..4 {
        let name = RGBA_ORDERS[oi].0;
        with_rgba_order!(oi, O, {
            let c: Srgba<u8> = Packed::<O, u32>::from(x).unpack();
            out.case(&format!("unpack {} | {} | {} {} {} {}", name, x, c.color.red, c.color.green, c.color.blue, c.alpha));
            // an independent colour for the other direction
            let b = x.rotate_left(13).to_le_bytes();
            let p = Packed::<O, u32>::pack(Srgba::<u8>::new(b[0], b[1], b[2], b[3])).color;
            out.case(&format!("pack {} | {} {} {} {} | {}", name, b[0], b[1], b[2], b[3], p));
            let rgb = Srgb::<u8>::from_u32::<O>(x);
            out.case(&format!("fromint rgb {} | {} | {} {} {}", name, x, rgb.red, rgb.green, rgb.blue));
            out.case(&format!("intoint rgb {} | {} {} {} | {}", name, b[0], b[1], b[2], Srgb::<u8>::new(b[0], b[1], b[2]).into_u32::<O>()));
            let rgba = Srgba::<u8>::from_u32::<O>(x);
            out.case(&format!("fromint rgba {} | {} | {} {} {} {}", name, x, rgba.color.red, rgba.color.green, rgba.color.blue, rgba.alpha));
            out.case(&format!("intoint rgba {} | {} {} {} {} | {}", name, b[0], b[1], b[2], b[3], Srgba::<u8>::new(b[0], b[1], b[2], b[3]).into_u32::<O>()));
        });
    }
    let y = (x >> 7) as u16;
    for oi in 0..2 {
        let name = LUMA_ORDERS[oi].0;
        with_luma_order!(oi, O, {
            let c: Lumaa<SrgbStd, u8> = Packed::<O, u16>::from(y).unpack();
            out.case(&format!("lunpack {} | {} | {} {}", name, y, c.color.luma, c.alpha));
            let b = x.rotate_left(5).to_le_bytes();
            out.case(&format!("lpack {} | {} {} | {}", name, b[0], b[1], Packed::<O, u16>::pack(Lumaa::<SrgbStd, u8>::new(b[0], b[1])).color));
            let l = Luma::<SrgbStd, u8>::from_u16::<O>(y);
            out.case(&format!("fromint luma {} | {} | {}", name, y, l.luma));
            out.case(&format!("intoint luma {} | {} | {}", name, b[0], Luma::<SrgbStd, u8>::new(b[0]).into_u16::<O>()));
            let la = Lumaa::<SrgbStd, u8>::from_u16::<O>(y);
            out.case(&format!("fromint lumaa {} | {} | {} {}", name, y, la.color.luma, la.alpha));
            out.case(&format!("intoint lumaa {} | {} {} | {}", name, b[0], b[1], Lumaa::<SrgbStd, u8>::new(b[0], b[1]).into_u16::<O>()));
        });
    }
    let b = x.to_le_bytes();
    let rgb = Srgb::<u8>::from(x); let rgba = Srgba::<u8>::from(x);
    out.case(&format!("fromint rgb default | {} | {} {} {}", x, rgb.red, rgb.green, rgb.blue));
    out.case(&format!("fromint rgba default | {} | {} {} {} {}", x, rgba.color.red, rgba.color.green, rgba.color.blue, rgba.alpha));
    out.case(&format!("intoint rgb default | {} {} {} | {}", b[0], b[1], b[2], u32::from(Srgb::<u8>::new(b[0], b[1], b[2]))));
    out.case(&format!("intoint rgba default | {} {} {} {} | {}", b[0], b[1], b[2], b[3], u32::from(Srgba::<u8>::new(b[0], b[1], b[2], b[3]))));
    let l = Luma::<SrgbStd, u8>::from(y); let la = Lumaa::<SrgbStd, u8>::from(y);
    out.case(&format!("fromint luma default | {} | {}", y, l.luma));
    out.case(&format!("fromint lumaa default | {} | {} {}", y, la.color.luma, la.alpha));
    out.case(&format!("intoint luma default | {} | {}", b[0], u16::from(Luma::<SrgbStd, u8>::new(b[0]))));
    out.case(&format!("intoint lumaa default | {} {} | {}", b[0], b[1], u16::from(Lumaa::<SrgbStd, u8>::new(b[0], b[1]))));
}

// ------------------------------------------------------------------------------------------ names

fn named_lookup(s: &str) -> Result<Option<Srgb<u8>>, ()> { catch_unwind(|| named::from_str(s)).map_err(|_| ()) }

fn named_probe(out: &mut Out, s: &str, lower_names: &std::collections::BTreeMap<String, Srgb<u8>>, line: bool) {
    let r = named_lookup(s);
    out.check(r.is_ok(), "named:no-panic", || format!("named::from_str({:?}) panics", s));
    let r = r.unwrap_or(None);
    match lower_names.get(s) {
        Some(c) => { out.check(r == Some(*c), "named:constant-found-under-lower-case-name", || format!("from_str({:?}) = {:?}, the constant is {:?}", s, r, c)); out.count("cls:name:exact"); }
        None => { out.check(r.is_none(), "named:nothing-else-found", || format!("from_str({:?}) = {:?}, but no constant has that lower-case name", s, r)); out.count("cls:name:other"); }
    }
    if line { out.case(&format!("named | {} | {}", hx(s), match r { Some(c) => format!("some {} {} {}", c.red, c.green, c.blue), None => "none".into() })); }
}

fn name_variants(name: &str, rng: &mut Rng, deep: bool) -> Vec<String> {
    let cs: Vec<char> = name.chars().collect();
    let mut v = vec![name.to_ascii_uppercase(), format!(" {}", name), format!("{} ", name), format!("{}\n", name), format!("{}\0", name), format!("#{}", name),
        format!("{}{}", name, name), name.replace("gray", "grey"), name.replace("grey", "gray"), name.chars().rev().collect(), format!("{}1", name), name.replace('e', "\u{e9}"),
        name.replace('a', "\u{430}"), name.replace('o', "0"), name.replace('l', "1")];
    let mut t = cs.clone(); t[0] = t[0].to_ascii_uppercase(); v.push(t.iter().collect());          // Capitalised
    for i in 0..cs.len() {
        let mut t = cs.clone(); t[i] = t[i].to_ascii_uppercase(); v.push(t.iter().collect());     // one case flip
        let mut t = cs.clone(); t.remove(i); v.push(t.iter().collect());                           // deletion
        if i + 1 < cs.len() { let mut t = cs.clone(); t.swap(i, i + 1); v.push(t.iter().collect()); } // transposition
        if deep {
            for a in "abcdefghijklmnopqrstuvwxyz -_".chars() {
                let mut t = cs.clone(); t[i] = a; v.push(t.iter().collect());                      // substitution
                let mut t = cs.clone(); t.insert(i, a); v.push(t.iter().collect());                // insertion
            }
        } else {
            let a = (b'a' + rng.below(26) as u8) as char;
            let mut t = cs.clone(); t[i] = a; v.push(t.iter().collect());
            let mut t = cs.clone(); t.insert(i, a); v.push(t.iter().collect());
        }
    }
    for a in "abcdefghijklmnopqrstuvwxyz".chars() { v.push(format!("{}{}", name, a)); }
    v
}

// ------------------------------------------------------------------------------------------ run

pub fn run(tier: &str, seed: u64, dir: &str) {
    let mut out = Out::new("C12", dir);
    let mut rng = Rng::new(seed);
    let deep = tier == "thorough";
    let mut exh: Vec<String> = vec![];
    let t0 = std::time::Instant::now();
    let lap = |what: &str| eprintln!("C12 [{:7.1}s] {}", t0.elapsed().as_secs_f64(), what);

    // ===== 1. strict and total parsing
    // (a) every string of up to 3 symbols of the alphabet goes through the model as well; up to 4 (5) through the oracle
    let short = strings_upto(&ALPHABET, 3);
    for s in &short { strict_case(&mut out, s, true); }
    let n_long = if deep { 6 } else { 5 };
    {
        // exhaustive oracle scan, threaded: index -> string over the alphabet (per-thread buffer, no allocation per string)
        fn scan_alphabet(out: &mut Out, exh: &mut Vec<String>, alphabet: &'static [&'static str], len: usize, tag: &str) {
            let k = alphabet.len() as u64;
            let n = k.pow(len as u32);
            let res = par_scan(n, |mut i| FMT_BUF.with(|cell| {
                let s = &mut cell.borrow_mut().0;
                s.clear();
                for _ in 0..len { s.push_str(alphabet[(i % k) as usize]); i /= k; }
                for (ti, (alpha, ty)) in PTYS.iter().enumerate() {
                    let cl = parse_class(ti, s);
                    if cl == 2 { return Some(format!("{}:{} parsing {:?} (bytes {}) panics", if *alpha { "rgba" } else { "rgb" }, ty, s, hx(s))); }
                    if (cl == 0) != in_grammar(*alpha, ty, s) { return Some(format!("{}:{} {:?} (bytes {}): accepted = {}, documented form = {}", if *alpha { "rgba" } else { "rgb" }, ty, s, hx(s), cl == 0, in_grammar(*alpha, ty, s))); }
                }
                None
            }));
            exh.push(format!("\"{}_len{}_over_{}_symbols\":{},\"{}_len{}_bad\":{}", tag, len, k, n, tag, len, res.0));
            scan_to_out(out, "strict-exhaustive:all-types", n * 10, res);
        }
        // lengths 4..=n_long over the full alphabet (shorter ones went through the driver above),
        // lengths 4..=9 (quick: 8) over the small alphabet (the property's "up to 9 symbols")
        for len in 4..=n_long { scan_alphabet(&mut out, &mut exh, &ALPHABET, len, "strings"); }
        for len in 4..=(if deep { 9 } else { 8 }) { scan_alphabet(&mut out, &mut exh, &ALPHABET_SMALL, len, "small_alphabet"); }
    }
    // (b) the witnesses of D3 and the literals of the crate's own tests
    for s in ["+f+f+f", "\u{e9}1", "a\u{e9}345", "+ff", "#+f+f+f", "-f-f-f", "+f+f+f+f", "+fff+fff+fff", "\u{20ac}", "\u{1f600}", "f\u{e9}", "1\u{e9}2\u{e9}",
              "#ffffff", "#gggggg", "#fff", "#000000", "", "#123456", "#iii", "#08f", "08f", "ffffff", "#12", "da0bce", "f034e6", "abc", "#08ff", "08f0", "#da0bce80",
              "f034e680", "#ffffffff", "#ffff", "#gggggggg", "##fff", "##ffffff", "#", "##", "# fff", "fff#", "0xfff", "0xffffff", " fff", "fff ", "fff\n", "FFF", "#FfF", "#f8b",
              "#ffff8888bbbb", "#ffffffff88888888bbbbbbbb", "#f8ba", "#ff88bbaa", "#ffff8888bbbbaaaa", "#ffffffff88888888bbbbbbbbaaaaaaaa"] {
        strict_case(&mut out, s, true);
    }
    // (c) per type and documented length: every position overwritten by every symbol, byte length preserved
    for n in [3usize, 4, 6, 8, 12, 16, 24, 32] {
        for hash in [false, true] {
            let base = valid_code(&mut rng, n);
            let base = base.trim_start_matches('#').to_string();
            let base = if hash { format!("#{}", base) } else { base };
            strict_case(&mut out, &base, true);
            for i in 0..base.len() {
                for sym in ALPHABET.iter() {
                    if let Some(t) = overwrite(&base, i, sym) { strict_case(&mut out, &t, deep || n <= 8 || i % 3 == 0); }
                }
            }
            // one byte more / less
            strict_case(&mut out, &format!("{}f", base), true);
            strict_case(&mut out, &base[..base.len() - 1], true);
        }
    }
    // (d) random valid codes with k mutations
    let n_mut = if deep { 400_000 } else { 30_000 };
    for i in 0..n_mut {
        let n = *rng.pick(&[3usize, 4, 6, 8, 12, 16, 24, 32, 3, 6, 4, 8, 5, 7, 9, 2, 1, 13, 23, 25, 31, 33]);
        let mut s = valid_code(&mut rng, n);
        let k = rng.below(4);
        for _ in 0..k { s = mutate(&mut rng, &s); }
        out.count(&format!("cls:mutations:{}", k));
        strict_case(&mut out, &s, i % (if deep { 20 } else { 4 }) == 0);
    }

    lap("strings done");
    // ===== 2. format -> parse round trip
    // correspondence of the formatter and of parsed values
    for _ in 0..(if deep { 4000 } else { 600 }) {
        let e = rng.below(4);
        let v8 = |r: &mut Rng| match e { 0 => 0u8, 1 => 255, 2 => r.below(16) as u8, _ => r.next() as u8 };
        let v16 = |r: &mut Rng| match e { 0 => 0u16, 1 => 65535, 2 => r.below(256) as u16, _ => r.next() as u16 };
        let v32 = |r: &mut Rng| match e { 0 => 0u32, 1 => u32::MAX, 2 => r.below(70000) as u32, _ => r.next() as u32 };
        let (c8, a8) = ([v8(&mut rng), v8(&mut rng), v8(&mut rng)], v8(&mut rng));
        let (c16, a16) = ([v16(&mut rng), v16(&mut rng), v16(&mut rng)], v16(&mut rng));
        let (c32, a32) = ([v32(&mut rng), v32(&mut rng), v32(&mut rng)], v32(&mut rng));
        fmt_lines(&mut out, "u8", c8, a8); fmt_lines(&mut out, "u16", c16, a16); fmt_lines(&mut out, "u32", c32, a32);
        // the formatted strings through every parser (values included, so `into_format` after parsing is compared too)
        for s in [format!("{:x}", Rgb::<SrgbStd, u8>::new(c8[0], c8[1], c8[2])), format!("#{:X}", Rgba::<SrgbStd, u8>::new(c8[0], c8[1], c8[2], a8)),
                  format!("#{:x}", Rgb::<SrgbStd, u16>::new(c16[0], c16[1], c16[2])), format!("{:X}", Rgba::<SrgbStd, u16>::new(c16[0], c16[1], c16[2], a16)),
                  format!("{:X}", Rgb::<SrgbStd, u32>::new(c32[0], c32[1], c32[2])), format!("#{:x}", Rgba::<SrgbStd, u32>::new(c32[0], c32[1], c32[2], a32)),
                  format!("{:x}{:x}{:x}", c8[0] & 15, c8[1] & 15, c8[2] & 15), format!("#{:X}{:x}{:X}{:x}", c8[0] & 15, c8[1] & 15, c8[2] & 15, a8 & 15)] {
            strict_case(&mut out, &s, true);
        }
    }
    // the property clause: every Rgb<u8> (all 2^24, alpha derived from the index), u16/u32 sampled
    {
        let n = 1u64 << 24;
        let res = par_scan(n, |i| roundtrip_u8((i >> 16) as u8, (i >> 8) as u8, i as u8, (i.wrapping_mul(0x9E37_79B9) >> 13) as u8, deep));
        exh.push(format!("\"rgb_u8_roundtrip_all\":{},\"rgb_u8_roundtrip_bad\":{}", n, res.0));
        scan_to_out(&mut out, "roundtrip:u8", n, res);
        let n16 = if deep { 1u64 << 26 } else { 1 << 21 };
        let sd = seed;
        let res = par_scan(n16, |i| { let mut r = Rng::new(sd ^ i.wrapping_mul(0x2545_F491_4F6C_DD1D)); let x = r.next(); let y = r.next();
            let edge = |v: u16, k: u64| match k % 11 { 0 => 0, 1 => 65535, 2 => v & 0xff, 3 => v & 0xff00, _ => v };
            roundtrip_u16(edge(x as u16, y), edge((x >> 16) as u16, y >> 8), edge((x >> 32) as u16, y >> 16), edge((x >> 48) as u16, y >> 24), deep) });
        scan_to_out(&mut out, "roundtrip:u16", n16, res);
        let res = par_scan(n16, |i| { let mut r = Rng::new(sd ^ i.wrapping_mul(0x9E6C_63D0_676A_9A99)); let x = r.next(); let y = r.next(); let z = r.next();
            let edge = |v: u32, k: u64| match k % 11 { 0 => 0, 1 => u32::MAX, 2 => v & 0xff, 3 => v & 0xffff_0000, 4 => v >> 20, _ => v };
            roundtrip_u32(edge(x as u32, z), edge((x >> 32) as u32, z >> 8), edge(y as u32, z >> 16), edge((y >> 32) as u32, z >> 24), deep) });
        scan_to_out(&mut out, "roundtrip:u32", n16, res);
        // every single u16 / a stride of u32 in each channel position
        let res = par_scan(65536, |i| roundtrip_u16(i as u16, !(i as u16), (i as u16).rotate_left(5), i as u16, true));
        scan_to_out(&mut out, "roundtrip:u16", 65536, res);
        out.count_n("cls:roundtrip:u8-all", n); out.count_n("cls:roundtrip:u16-sampled", n16 + 65536); out.count_n("cls:roundtrip:u32-sampled", n16);
    }

    lap("round trips done");
    // ===== 3. packed integers
    {
        let mut xs: Vec<u32> = vec![0, 1, 0xff, 0x100, 0xff00, 0x00ff_0000, 0xff00_0000, u32::MAX, 0x0102_0304, 0x8000_0000, 0x7fff_ffff, 0x607F_00FF, 0xFF60_7F00, 0x80FF_80FF, 0x1100_7FFF];
        for k in 0..32 { xs.push(1 << k); xs.push(!(1u32 << k)); }
        for _ in 0..(if deep { 20_000 } else { 2_000 }) { xs.push(rng.next() as u32); }
        for &x in &xs { packed_lines(&mut out, x); }
        let n = if deep { 1u64 << 32 } else { 1 << 22 };
        let sd = seed;
        for oi in 0..4 {
            // thorough: every u32; quick: the structured values above plus 2^22 pseudo-random ones
            let res = par_scan(n, |i| { let x = if deep { i as u32 } else { (i.wrapping_mul(0x9E37_79B9_7F4A_7C15) ^ sd).rotate_left(17) as u32 };
                packed_u32_point(oi, x).or_else(|| packed_u32_color(oi, x.rotate_left(11).to_le_bytes())) });
            if deep { exh.push(format!("\"packed_u32_{}_all\":{},\"packed_u32_{}_bad\":{}", RGBA_ORDERS[oi].0, n, RGBA_ORDERS[oi].0, res.0)); }
            scan_to_out(&mut out, &format!("packed:{}", RGBA_ORDERS[oi].0), 2 * n, res);
            for &x in &xs { let r = packed_u32_point(oi, x); out.check(r.is_none(), &format!("packed:{}", RGBA_ORDERS[oi].0), || r.clone().unwrap()); }
        }
        for oi in 0..2 {
            let res = par_scan(65536, |i| packed_u16_point(oi, i as u16));
            exh.push(format!("\"packed_u16_{}_all\":65536,\"packed_u16_{}_bad\":{}", LUMA_ORDERS[oi].0, LUMA_ORDERS[oi].0, res.0));
            scan_to_out(&mut out, &format!("packed:{}", LUMA_ORDERS[oi].0), 65536, res);
        }
        let res = par_scan(n, |i| default_orders_point(if deep { i as u32 } else { (i.wrapping_mul(0xD6E8_FEB8_6659_FD93) ^ sd).rotate_left(23) as u32 }));
        if deep { exh.push(format!("\"default_orders_all_u32\":{},\"default_orders_bad\":{}", n, res.0)); }
        scan_to_out(&mut out, "packed:default-orders", n, res);
        for &x in &xs { let r = default_orders_point(x); out.check(r.is_none(), "packed:default-orders", || r.clone().unwrap()); }
        out.count_n("cls:packed:u32-values-per-order", n); out.count_n("cls:packed:u16-values-per-order", 65536);
    }

    lap("packed done");
    // ===== 4. names
    {
        let mut lower: std::collections::BTreeMap<String, Srgb<u8>> = Default::default();
        for (ident, c) in NAMED_CONSTS { lower.insert(ident.to_ascii_lowercase(), *c); }
        out.check(lower.len() == NAMED_CONSTS.len(), "named:lower-case-names-distinct", || "two constants share a lower-case name".into());
        // the table the implementation hands out
        let entries: Vec<(&'static str, Srgb<u8>)> = named::entries().collect();
        out.case(&format!("namedcount | | {}", entries.len()));
        out.check(entries.len() == NAMED_CONSTS.len(), "named:entries-count", || format!("entries() has {} items, there are {} constants", entries.len(), NAMED_CONSTS.len()));
        for (n, c) in &entries {
            out.case(&format!("namedentry | {} | {} {} {}", hx(n), c.red, c.green, c.blue));
            out.check(lower.get(*n) == Some(c), "named:entry-is-a-constant", || format!("entries() yields ({:?}, {:?}) which is not a constant under its lower-case name", n, c));
        }
        out.check(named::names().count() == entries.len() && named::colors().count() == entries.len(), "named:entries-count", || "names()/colors() disagree with entries()".into());
        // every constant under its lower-case name, and nothing else
        let names: Vec<String> = lower.keys().cloned().collect();
        for n in &names { named_probe(&mut out, n, &lower, true); }
        for n in &names {
            for (j, v) in name_variants(n, &mut rng, deep).into_iter().enumerate() { named_probe(&mut out, &v, &lower, deep || j < 40); }
        }
        for s in ["", " ", "#", "#fff", "red\u{301}", "RED", "Red", "transparent", "currentcolor", "none", "rebeccapurple", "grey", "gray", "\u{1f600}"] { named_probe(&mut out, s, &lower, true); }
        for s in strings_upto(&["r", "e", "d", "t", "a", "n", "R", " "], if deep { 6 } else { 4 }) { named_probe(&mut out, &s, &lower, false); }
        for _ in 0..(if deep { 200_000 } else { 20_000 }) {
            let l = 1 + rng.below(12) as usize;
            let s: String = (0..l).map(|_| (b'a' + rng.below(26) as u8) as char).collect();
            named_probe(&mut out, &s, &lower, false);
        }
    }

    lap("names done");
    // coverage audit: doors, standards, `From` forms, aliases, cast doors and iterators the clauses above do not drive (`c12_more.rs`).
    // Called last, so that the case stream above is unchanged.
    exh.extend(crate::c12_more::run_more(&mut out, &mut rng, deep, seed));
    lap("coverage-audit forms done");
    let extra = format!("\"exhaustive\":{{{}}}", exh.join(","));
    out.finish(dir, &extra);
}
