//! C19 — random colour sampling respects the requested range and volume.
//!
//! Correspondence: a *scripted* `RngCore` (constant, counting or SplitMix64 words — in every case the harness owns the word
//! sequence and can replay it on a clone) makes every primitive draw of rand a known fraction of its interval; the line carries
//! those fractions and palette's result, and the Lean driver feeds the same draws to the model.
//! Oracle: the property's own predicate on the implementation over real RNG streams (rand's `StdRng`, `SmallRng`, plus
//! SplitMix64), many seeds and end points (wrapping hue arcs, equal ends, inclusive ranges), every sampled colour type
//! x f32/f64 x plain/`Alpha`.  Chi-squared of volume bins is *support only* (very loose threshold).
use crate::common::*;
use palette::convert::FromColorUnclamped;
use palette::encoding::Srgb as S;
use palette::white_point::{WhitePoint, D65};
use palette::{Alpha, IsWithinBounds};
use rand::distributions::uniform::{SampleUniform, Uniform};
use rand::distributions::{Distribution, Standard};
use rand::{Rng as _, RngCore, SeedableRng};
use std::panic::{catch_unwind, AssertUnwindSafe};

// ------------------------------------------------------------------------------------------------ generators of words
/// A generator whose word sequence the harness owns: `Const` repeats one word, `Count` adds a stride, `Mix` is SplitMix64.
#[derive(Clone)]
pub enum Script { Const(u64), Count(u64, u64), Mix(Rng) }
impl RngCore for Script {
    fn next_u64(&mut self) -> u64 {
        match self {
            Script::Const(w) => *w,
            Script::Count(s, stride) => { *s = s.wrapping_add(*stride); *s }
            Script::Mix(r) => r.next(),
        }
    }
    fn next_u32(&mut self) -> u32 { (self.next_u64() >> 32) as u32 }
    fn fill_bytes(&mut self, dest: &mut [u8]) { for ch in dest.chunks_mut(8) { let w = self.next_u64().to_le_bytes(); ch.copy_from_slice(&w[..ch.len()]); } }
    fn try_fill_bytes(&mut self, dest: &mut [u8]) -> Result<(), rand::Error> { self.fill_bytes(dest); Ok(()) }
}

/// real RNG streams for the oracle
pub enum Real { Std(rand::rngs::StdRng), Small(rand::rngs::SmallRng), Mix(Script) }
impl RngCore for Real {
    fn next_u64(&mut self) -> u64 { match self { Real::Std(r) => r.next_u64(), Real::Small(r) => r.next_u64(), Real::Mix(r) => r.next_u64() } }
    fn next_u32(&mut self) -> u32 { match self { Real::Std(r) => r.next_u32(), Real::Small(r) => r.next_u32(), Real::Mix(r) => r.next_u32() } }
    fn fill_bytes(&mut self, d: &mut [u8]) { match self { Real::Std(r) => r.fill_bytes(d), Real::Small(r) => r.fill_bytes(d), Real::Mix(r) => r.fill_bytes(d) } }
    fn try_fill_bytes(&mut self, d: &mut [u8]) -> Result<(), rand::Error> { self.fill_bytes(d); Ok(()) }
}
pub fn real_rng(kind: u64, seed: u64) -> Real {
    match kind % 3 { 0 => Real::Std(rand::rngs::StdRng::seed_from_u64(seed)), 1 => Real::Small(rand::rngs::SmallRng::seed_from_u64(seed)), _ => Real::Mix(Script::Mix(Rng::new(seed))) }
}

// ------------------------------------------------------------------------------------------------ component types
pub trait Flt: Fl + SampleUniform + Send + Sync + std::ops::Add<Output = Self> where Standard: Distribution<Self> {
    fn slack(scale: f64) -> f64;
}
impl Flt for f32 { fn slack(scale: f64) -> f64 { scale * (2.0f64).powi(-20) } }
impl Flt for f64 { fn slack(scale: f64) -> f64 { scale * (2.0f64).powi(-40) } }

#[derive(Clone, Copy, PartialEq, Debug)]
pub enum Fam { Cartesian, Cylinder, HsvCone, HslBicone, HwbCone }

/// a colour type with sampling support, seen as a list of components in protocol order
/// (cartesian: macro order; cylinder: [height, radius, hue]; cones: [hue, radius, height]; hwb: [hue, whiteness, blackness])
pub trait Sampled<T: Flt>: Sized + Clone + SampleUniform where Standard: Distribution<Self> + Distribution<T> {
    const NAME: &'static str;
    const FAM: Fam;
    const HSCALE: f64; // the range of the non-hue components (1, 100, ...) for generating end points
    fn names() -> Vec<&'static str>;
    fn comps(&self) -> Vec<T>;
    fn make(c: &[T]) -> Self;
    fn within(&self) -> bool;
    /// `is_within_bounds` through the public accessors: (protocol index, min, max?)
    fn bounds() -> Vec<(usize, T, Option<T>)>;
    /// nominal range of each component for generating end points
    fn ranges() -> Vec<(f64, f64)>;
    /// HWB forms: the equivalent HSV (saturation, value) by the crate's own conversion
    fn hsv_equiv(&self) -> Option<(T, T)> { None }
}

macro_rules! getc { (h $s:ident $f:ident) => { $s.$f.into_raw_degrees() }; (c $s:ident $f:ident) => { $s.$f }; }
macro_rules! namec { (h $f:ident) => { "hue" }; (c $f:ident) => { stringify!($f) }; }

macro_rules! sampled {
    ($t:ty, $ty:ty, $name:expr, $fam:expr, $hscale:expr, [$($k:ident $f:ident),+], |$a:ident| $mk:expr,
     bounds [$(($i:expr, $lo:expr, $hi:expr)),*], ranges [$(($rl:expr, $rh:expr)),+] $(, hsv |$me:ident| $hsv:expr)?) => {
        impl Sampled<$t> for $ty {
            const NAME: &'static str = $name;
            const FAM: Fam = $fam;
            const HSCALE: f64 = $hscale;
            fn names() -> Vec<&'static str> { vec![$(namec!($k $f)),+] }
            fn comps(&self) -> Vec<$t> { let s = self.clone(); vec![$(getc!($k s $f)),+] }
            fn make($a: &[$t]) -> Self { $mk }
            fn within(&self) -> bool { self.is_within_bounds() }
            fn bounds() -> Vec<(usize, $t, Option<$t>)> { vec![$(($i, $lo, $hi)),*] }
            fn ranges() -> Vec<(f64, f64)> { vec![$(($rl as f64, $rh as f64)),+] }
            $(fn hsv_equiv(&self) -> Option<($t, $t)> { let $me = self.clone(); Some($hsv) })?
        }
    };
}

// the macros are re-exported for the coverage audit (`c19_more.rs`), which instantiates them for further type parameters
#[allow(unused_imports)] pub(crate) use {getc, namec, sampled};
type Brad = palette::lms::matrix::Bradford;
macro_rules! all_types { ($t:ty) => {
    sampled!($t, palette::rgb::Rgb<S, $t>, "Rgb", Fam::Cartesian, 1.0, [c red, c green, c blue], |a| palette::rgb::Rgb::new(a[0], a[1], a[2]),
        bounds [(0, palette::rgb::Rgb::<S, $t>::min_red(), Some(palette::rgb::Rgb::<S, $t>::max_red())), (1, palette::rgb::Rgb::<S, $t>::min_green(), Some(palette::rgb::Rgb::<S, $t>::max_green())), (2, palette::rgb::Rgb::<S, $t>::min_blue(), Some(palette::rgb::Rgb::<S, $t>::max_blue()))],
        ranges [(0, 1), (0, 1), (0, 1)]);
    sampled!($t, palette::luma::Luma<S, $t>, "Luma", Fam::Cartesian, 1.0, [c luma], |a| palette::luma::Luma::new(a[0]),
        bounds [(0, palette::luma::Luma::<S, $t>::min_luma(), Some(palette::luma::Luma::<S, $t>::max_luma()))], ranges [(0, 1)]);
    sampled!($t, palette::Lab<D65, $t>, "Lab", Fam::Cartesian, 100.0, [c l, c a, c b], |a| palette::Lab::new(a[0], a[1], a[2]),
        bounds [(0, palette::Lab::<D65, $t>::min_l(), Some(palette::Lab::<D65, $t>::max_l())), (1, palette::Lab::<D65, $t>::min_a(), Some(palette::Lab::<D65, $t>::max_a())), (2, palette::Lab::<D65, $t>::min_b(), Some(palette::Lab::<D65, $t>::max_b()))],
        ranges [(0, 100), (-128, 127), (-128, 127)]);
    sampled!($t, palette::Luv<D65, $t>, "Luv", Fam::Cartesian, 100.0, [c l, c u, c v], |a| palette::Luv::new(a[0], a[1], a[2]),
        bounds [(0, palette::Luv::<D65, $t>::min_l(), Some(palette::Luv::<D65, $t>::max_l())), (1, palette::Luv::<D65, $t>::min_u(), Some(palette::Luv::<D65, $t>::max_u())), (2, palette::Luv::<D65, $t>::min_v(), Some(palette::Luv::<D65, $t>::max_v()))],
        ranges [(0, 100), (-84, 176), (-135, 108)]);
    sampled!($t, palette::Xyz<D65, $t>, "Xyz", Fam::Cartesian, 1.0, [c x, c y, c z], |a| palette::Xyz::new(a[0], a[1], a[2]),
        bounds [(0, palette::Xyz::<D65, $t>::min_x(), Some(palette::Xyz::<D65, $t>::max_x())), (1, palette::Xyz::<D65, $t>::min_y(), Some(palette::Xyz::<D65, $t>::max_y())), (2, palette::Xyz::<D65, $t>::min_z(), Some(palette::Xyz::<D65, $t>::max_z()))],
        ranges [(0, 0.95), (0, 1), (0, 1.08)]);
    sampled!($t, palette::Yxy<D65, $t>, "Yxy", Fam::Cartesian, 1.0, [c x, c y, c luma], |a| palette::Yxy::new(a[0], a[1], a[2]),
        bounds [(0, palette::Yxy::<D65, $t>::min_x(), Some(palette::Yxy::<D65, $t>::max_x())), (1, palette::Yxy::<D65, $t>::min_y(), Some(palette::Yxy::<D65, $t>::max_y())), (2, palette::Yxy::<D65, $t>::min_luma(), Some(palette::Yxy::<D65, $t>::max_luma()))],
        ranges [(0, 1), (0, 1), (0, 1)]);
    sampled!($t, palette::lms::Lms<Brad, $t>, "Lms", Fam::Cartesian, 1.0, [c long, c medium, c short], |a| palette::lms::Lms::new(a[0], a[1], a[2]),
        bounds [(0, palette::lms::Lms::<Brad, $t>::min_long(), None), (1, palette::lms::Lms::<Brad, $t>::min_medium(), None), (2, palette::lms::Lms::<Brad, $t>::min_short(), None)],
        ranges [(0, 1), (0, 1), (0, 1)]);
    sampled!($t, palette::Oklab<$t>, "Oklab", Fam::Cartesian, 1.0, [c l, c a, c b], |a| palette::Oklab::new(a[0], a[1], a[2]),
        bounds [(0, palette::Oklab::<$t>::min_l(), Some(palette::Oklab::<$t>::max_l()))], ranges [(0, 1), (-1, 1), (-1, 1)]);
    sampled!($t, palette::cam16::Cam16UcsJab<$t>, "Cam16UcsJab", Fam::Cartesian, 100.0, [c lightness, c a, c b], |a| palette::cam16::Cam16UcsJab::new(a[0], a[1], a[2]),
        bounds [(0, palette::cam16::Cam16UcsJab::<$t>::min_lightness(), Some(palette::cam16::Cam16UcsJab::<$t>::max_lightness()))], ranges [(0, 100), (-50, 50), (-50, 50)]);
    sampled!($t, palette::Lch<D65, $t>, "Lch", Fam::Cylinder, 100.0, [c l, c chroma, h hue], |a| palette::Lch::new(a[0], a[1], a[2]),
        bounds [(0, palette::Lch::<D65, $t>::min_l(), Some(palette::Lch::<D65, $t>::max_l())), (1, palette::Lch::<D65, $t>::min_chroma(), None)], ranges [(0, 100), (0, 128), (0, 360)]);
    sampled!($t, palette::Lchuv<D65, $t>, "Lchuv", Fam::Cylinder, 100.0, [c l, c chroma, h hue], |a| palette::Lchuv::new(a[0], a[1], a[2]),
        bounds [(0, palette::Lchuv::<D65, $t>::min_l(), Some(palette::Lchuv::<D65, $t>::max_l())), (1, palette::Lchuv::<D65, $t>::min_chroma(), Some(palette::Lchuv::<D65, $t>::max_chroma()))], ranges [(0, 100), (0, 180), (0, 360)]);
    sampled!($t, palette::Oklch<$t>, "Oklch", Fam::Cylinder, 1.0, [c l, c chroma, h hue], |a| palette::Oklch::new(a[0], a[1], a[2]),
        bounds [(0, palette::Oklch::<$t>::min_l(), Some(palette::Oklch::<$t>::max_l())), (1, palette::Oklch::<$t>::min_chroma(), None)], ranges [(0, 1), (0, 1), (0, 360)]);
    sampled!($t, palette::cam16::Cam16UcsJmh<$t>, "Cam16UcsJmh", Fam::Cylinder, 100.0, [c lightness, c colorfulness, h hue], |a| palette::cam16::Cam16UcsJmh::new(a[0], a[1], a[2]),
        bounds [(0, palette::cam16::Cam16UcsJmh::<$t>::min_lightness(), Some(palette::cam16::Cam16UcsJmh::<$t>::max_lightness())), (1, palette::cam16::Cam16UcsJmh::<$t>::min_colorfulness(), None)], ranges [(0, 100), (0, 50), (0, 360)]);
    sampled!($t, palette::Hsv<S, $t>, "Hsv", Fam::HsvCone, 1.0, [h hue, c saturation, c value], |a| palette::Hsv::new(a[0], a[1], a[2]),
        bounds [(1, palette::Hsv::<S, $t>::min_saturation(), Some(palette::Hsv::<S, $t>::max_saturation())), (2, palette::Hsv::<S, $t>::min_value(), Some(palette::Hsv::<S, $t>::max_value()))], ranges [(0, 360), (0, 1), (0, 1)]);
    sampled!($t, palette::Okhsv<$t>, "Okhsv", Fam::HsvCone, 1.0, [h hue, c saturation, c value], |a| palette::Okhsv::new(a[0], a[1], a[2]),
        bounds [(1, palette::Okhsv::<$t>::min_saturation(), Some(palette::Okhsv::<$t>::max_saturation() + (1e-6f64 as $t))), (2, palette::Okhsv::<$t>::min_value(), Some(palette::Okhsv::<$t>::max_value() + (1e-6f64 as $t)))], ranges [(0, 360), (0, 1), (0, 1)]);
    sampled!($t, palette::Hsl<S, $t>, "Hsl", Fam::HslBicone, 1.0, [h hue, c saturation, c lightness], |a| palette::Hsl::new(a[0], a[1], a[2]),
        bounds [(1, palette::Hsl::<S, $t>::min_saturation(), Some(palette::Hsl::<S, $t>::max_saturation())), (2, palette::Hsl::<S, $t>::min_lightness(), Some(palette::Hsl::<S, $t>::max_lightness()))], ranges [(0, 360), (0, 1), (0, 1)]);
    sampled!($t, palette::Okhsl<$t>, "Okhsl", Fam::HslBicone, 1.0, [h hue, c saturation, c lightness], |a| palette::Okhsl::new(a[0], a[1], a[2]),
        bounds [(1, palette::Okhsl::<$t>::min_saturation(), Some(palette::Okhsl::<$t>::max_saturation())), (2, palette::Okhsl::<$t>::min_lightness(), Some(palette::Okhsl::<$t>::max_lightness()))], ranges [(0, 360), (0, 1), (0, 1)]);
    sampled!($t, palette::Hsluv<D65, $t>, "Hsluv", Fam::HslBicone, 100.0, [h hue, c saturation, c l], |a| palette::Hsluv::new(a[0], a[1], a[2]),
        bounds [(1, palette::Hsluv::<D65, $t>::min_saturation(), Some(palette::Hsluv::<D65, $t>::max_saturation())), (2, palette::Hsluv::<D65, $t>::min_l(), Some(palette::Hsluv::<D65, $t>::max_l()))], ranges [(0, 360), (0, 100), (0, 100)]);
    sampled!($t, palette::Hwb<S, $t>, "Hwb", Fam::HwbCone, 1.0, [h hue, c whiteness, c blackness], |a| palette::Hwb::new(a[0], a[1], a[2]),
        bounds [], ranges [(0, 360), (0, 1), (0, 1)], hsv |me| { let h = palette::Hsv::<S, $t>::from_color_unclamped(me); (h.saturation, h.value) });
    sampled!($t, palette::Okhwb<$t>, "Okhwb", Fam::HwbCone, 1.0, [h hue, c whiteness, c blackness], |a| palette::Okhwb::new(a[0], a[1], a[2]),
        bounds [], ranges [(0, 360), (0, 1), (0, 1)], hsv |me| { let h = palette::Okhsv::<$t>::from_color_unclamped(me); (h.saturation, h.value) });
} }
all_types!(f32);
all_types!(f64);

// ------------------------------------------------------------------------------------------------ the property's predicate
/// hue arc: `h` is congruent to a point of the arc that starts at `a` and runs upwards by `(b - a) mod 360`
/// (the whole circle when the raw ends differ by a positive multiple of 360).  Evaluated in f64 on the exact component values;
/// `tol` absorbs the rounding of palette's own normalisation (`x - floor(x/360)*360` in `T`).
pub fn on_arc(a: f64, b: f64, h: f64, tol: f64) -> bool {
    if !(a.is_finite() && b.is_finite() && h.is_finite()) { return false; }
    let span = (b - a).rem_euclid(360.0);
    if b > a && (span <= tol || span >= 360.0 - tol) { return true; } // full circle
    let off = (h - a).rem_euclid(360.0);
    off <= span + tol || off >= 360.0 - tol
}

pub struct Ends<T> { pub lo: Vec<T>, pub hi: Vec<T>, pub alo: T, pub ahi: T }

/// containment of one uniform sample (colour part `x`, protocol order)
pub fn check_uniform<T: Flt, C: Sampled<T>>(out: &mut Out, e: &Ends<T>, c: &C, tag: &str, ctx: &str) where Standard: Distribution<C> + Distribution<T> {
    let names = C::names();
    let x = c.comps();
    for i in 0..names.len() {
        let (l, h, v) = (e.lo[i].to64(), e.hi[i].to64(), x[i].to64());
        if names[i] == "hue" {
            let tol = T::slack(360f64.max(l.abs()).max(h.abs()));
            out.check(on_arc(l, h, v, tol), &format!("hue-on-arc:{}", tag), || format!("{} low hue {} high hue {} sampled hue {} (offset {} of span {})", ctx, l, h, v, (v - l).rem_euclid(360.0), (h - l).rem_euclid(360.0)));
            out.maxi(&format!("max-hue-offset-over-span:{}", tag), { let sp = (h - l).rem_euclid(360.0); if sp > 1e-3 && !(h > l && sp == 0.0) { (v - l).rem_euclid(360.0) / sp } else { 0.0 } });
            continue;
        }
        if C::FAM == Fam::HwbCone { continue; }
        // components that are a bare rand draw are contained exactly (rand's own guarantee); those that went through
        // cbrt/sqrt/powi get the fixed rounding slack of DESIGN 2.2(c): 2^-20 (f32) / 2^-40 (f64) of the component scale
        let exact = C::FAM == Fam::Cartesian || (C::FAM == Fam::Cylinder && i == 0);
        let sl = if exact { 0.0 } else { T::slack(1f64.max(l.abs()).max(h.abs())) };
        // An excursion of a bicone height near the upper apex that is explained by the cancellation in
        // `invert_bicone_height_sample` (`(h-1)^3*4 + 1` rounds to a float next to 1, and the inverse has slope 1/(12 d^2) at
        // distance d from the apex) is labelled, so that known_findings.json can list exactly this and nothing else.
        let mark = if C::FAM == Fam::HslBicone && i == 2 {
            let exc = ((l - v).max(v - h) - sl) / C::HSCALE;
            let end = if v > h { h } else { l } / C::HSCALE;
            let d = 1.0 - end;
            let bound = if d > 0.0 { (T::eps() / (12.0 * d * d)).min(T::eps().cbrt()) } else { 0.0 };
            if end > 0.5 && exc <= bound { format!(" bicone-apex-cancellation(distance {:e}, excursion {:e} <= first-order bound {:e})", d, exc, bound) } else { String::new() }
        } else { String::new() };
        out.check(l - sl <= v && v <= h + sl, &format!("component-between-ends:{}", tag), || format!("{} component {} = {} not in [{}, {}] (slack {:e}){}", ctx, names[i], v, l, h, sl, mark));
    }
    if C::FAM == Fam::HwbCone {
        // the equivalent HSV saturation and value lie between those of the two ends (all three by the crate's own conversion)
        let (sa, va) = C::make(&e.lo).hsv_equiv().unwrap();
        let (sb, vb) = C::make(&e.hi).hsv_equiv().unwrap();
        let (s, v) = c.hsv_equiv().unwrap();
        let (sa, va, sb, vb, s, v) = (sa.to64(), va.to64(), sb.to64(), vb.to64(), s.to64(), v.to64());
        let sl = T::slack(1.0);
        out.check(va.min(vb) - sl <= v && v <= va.max(vb) + sl, &format!("hwb-equivalent-value-between-ends:{}", tag), || format!("{} value {} not in [{}, {}]", ctx, v, va.min(vb), va.max(vb)));
        // at (near) zero value every saturation denotes the same black and `1 - w/v` is meaningless: not part of the claim
        if v > 1e-6 { out.check(sa.min(sb) - sl <= s && s <= sa.max(sb) + sl, &format!("hwb-equivalent-saturation-between-ends:{}", tag), || format!("{} saturation {} not in [{}, {}] (value {})", ctx, s, sa.min(sb), sa.max(sb), v)); }
        else { out.count("cls:hwb-sample-at-zero-value"); }
    }
}

pub fn check_standard<T: Flt, C: Sampled<T>>(out: &mut Out, c: &C, tag: &str) where Standard: Distribution<C> + Distribution<T> {
    out.check(c.within(), &format!("standard-within-bounds:{}", tag), || format!("{:?} is not within bounds", c.comps()));
    let names = C::names(); let x = c.comps();
    for i in 0..names.len() { if names[i] == "hue" { let h = x[i].to64(); out.check(0.0 <= h && h <= 360.0, &format!("standard-hue-in-circle:{}", tag), || format!("hue {}", h)); } }
    for (i, lo, hi) in C::bounds() { let v = x[i]; out.check(lo <= v && hi.map_or(true, |h| v <= h), &format!("standard-within-accessors:{}", tag), || format!("component {} = {:?}", names[i], v)); }
}

// ------------------------------------------------------------------------------------------------ end points
pub fn hue_pairs(rng: &mut Rng, incl: bool) -> (f64, f64) {
    let fixed: [(f64, f64); 16] = [(10.0, 20.0), (350.0, 370.0), (-10.0, 10.0), (0.0, 360.0), (10.0, 370.0), (0.0, 720.0), (359.5, 360.5), (-720.0, -700.0),
        (180.0, 180.5), (0.0, 1e-3), (-0.25, 0.25), (90.0, 449.0), (-180.0, 180.0), (300.0, 420.0), (719.0, 725.0), (-1.0, 0.0)];
    match rng.below(8) {
        0 | 1 => *rng.pick(&fixed),
        2 if incl => { let h = rng.range(-400.0, 800.0); (h, h) }
        3 => { let a = rng.range(-360.0, 720.0); (a, a + rng.range(0.5, 359.5)) }              // any arc, any representative
        4 => { let a = rng.range(300.0, 360.0); (a, a + rng.range(1.0, 120.0)) }                // through 0 degrees
        5 => { let a = rng.range(-60.0, 0.0); (a, a + rng.range(61.0, 200.0)) }                 // negative low, through 0
        _ => { let a = rng.range(0.0, 360.0); let b = rng.range(0.0, 360.0); if a < b { (a, b) } else if incl && a == b { (a, b) } else { (b, a + 1e-3) } }
    }
}

/// ordered end points (`lo < hi` in every component, `lo <= hi` allowed when `incl`), in protocol order
pub fn gen_ends<T: Flt, C: Sampled<T>>(rng: &mut Rng, incl: bool, equal: bool) -> Ends<T> where Standard: Distribution<C> + Distribution<T> {
    let names = C::names(); let ranges = C::ranges();
    let mut lo = vec![]; let mut hi = vec![];
    for i in 0..names.len() {
        let (rl, rh) = ranges[i];
        if names[i] == "hue" {
            let (a, b) = if equal { let h = rng.range(-400.0, 800.0); (h, h) } else { hue_pairs(rng, incl) };
            lo.push(T::of(a)); hi.push(T::of(b)); continue;
        }
        let w = rh - rl;
        let (a, b) = if equal { let v = rng.edgy(rl, rh); (v, v) } else {
            match rng.below(10) {
                0 => (rl, rh),                                                  // the full range
                1 => (rl, rl + w * rng.range(0.05, 1.0)),                       // from the lower bound
                2 => (rl + w * rng.range(0.0, 0.95), rh),                       // up to the upper bound
                3 => { let a = rl + w * rng.range(0.0, 0.99); (a, a + w * 1e-3) }   // narrow
                4 if incl => { let v = rng.range(rl, rh); (v, v) }              // this component pinned
                5 => { let m = rl + w * 0.5; (m - w * rng.range(0.01, 0.4), m + w * rng.range(0.01, 0.4)) } // straddles the bicone's waist
                _ => { let a = rng.range(rl, rh); let b = rng.range(rl, rh); if (a - b).abs() < w * 1e-3 { (rl, rh) } else if a < b { (a, b) } else { (b, a) } }
            }
        };
        lo.push(T::of(a)); hi.push(T::of(b));
        // conversion to T may collapse a narrow interval
        let k = lo.len() - 1;
        if !equal && !(lo[k] < hi[k]) && !(incl && lo[k] <= hi[k]) { lo[k] = T::of(rl); hi[k] = T::of(rh); }
    }
    if C::FAM == Fam::HwbCone && equal { let (w, b) = (lo[1].to64(), lo[2].to64()); if w + b > 1.0 { let s = w + b; let (w2, b2) = (T::of(w / s * 0.999), T::of(b / s * 0.999)); lo[1] = w2; hi[1] = w2; lo[2] = b2; hi[2] = b2; } }
    if C::FAM == Fam::HwbCone && !equal {
        // HWB ends: valid colours (w + b <= 1); the macro orders saturation/value itself, so w/b need no order — but the
        // equivalent HSV saturation and value of the two ends must differ (rand's precondition), which distinct random ends give
        for v in [&mut lo, &mut hi] { let (w, b) = (v[1].to64(), v[2].to64()); if w + b > 1.0 { let s = w + b; v[1] = T::of(w / s * 0.999); v[2] = T::of(b / s * 0.999); } }
        let hs = |v: &Vec<T>| { let b = v[2].to64(); let w = v[1].to64(); let val = 1.0 - b; (if val > 0.0 { 1.0 - w / val } else { 0.0 }, val) };
        let (sa, va) = hs(&lo); let (sb, vb) = hs(&hi);
        if (sa - sb).abs() < 1e-3 || (va - vb).abs() < 1e-3 || va < 1e-2 || vb < 1e-2 { lo[1] = T::of(0.1); lo[2] = T::of(0.6); hi[1] = T::of(0.45); hi[2] = T::of(0.2); if rng.chance(0.5) { std::mem::swap(&mut lo[1], &mut hi[1]); std::mem::swap(&mut lo[2], &mut hi[2]); } }
    }
    let (alo, ahi) = if equal { let a = rng.unit(); (a, a) } else { match rng.below(3) { 0 => (0.0, 1.0), 1 => (0.0, rng.range(0.1, 1.0)), _ => { let a = rng.range(0.0, 0.9); (a, a + rng.range(0.01, 0.1)) } } };
    Ends { lo, hi, alo: T::of(alo), ahi: T::of(ahi) }
}

// ------------------------------------------------------------------------------------------------ per type
fn wp<T: Flt>() -> [T; 3] where D65: WhitePoint<T>, Standard: Distribution<T> { let w = <D65 as WhitePoint<T>>::get_xyz(); [w.x, w.y, w.z] }

pub fn n_draws<T: Flt, C: Sampled<T>>() -> usize where Standard: Distribution<C> + Distribution<T> { if C::FAM == Fam::Cartesian { C::names().len() } else { 3 } }

pub fn scripts(rng: &mut Rng, n: usize) -> Vec<Script> {
    let mut v = vec![Script::Const(0), Script::Const(u64::MAX), Script::Const(1u64 << 63), Script::Count(0, 0x1234_5678_9abc_def1), Script::Count(0x8000_0000_0000_0000, 0x0fff_ffff_ffff_ffff)];
    for _ in 0..n { v.push(match rng.below(4) { 0 => Script::Const(rng.next()), 1 => Script::Count(rng.next(), rng.next() | 1), _ => Script::Mix(Rng::new(rng.next())) }); }
    v
}

fn run_type<T: Flt, C: Sampled<T> + Send + 'static>(out: &mut Out, rng: &mut Rng, deep: bool)
where Standard: Distribution<C> + Distribution<T> + Distribution<Alpha<C, T>>, D65: WhitePoint<T>, Alpha<C, T>: SampleUniform, T: Clone,
      C::Sampler: 'static, <Alpha<C, T> as SampleUniform>::Sampler: 'static {
    let tag = format!("{}:{}", C::NAME, T::TAG);
    let names = C::names();
    let w = wp::<T>();
    let k = n_draws::<T, C>();
    let u01 = Uniform::<T>::new(T::of(0.0), T::of(1.0));
    // ---- extraction cross-check: names and bounds through the public accessors
    {
        let b = C::bounds();
        let mut s = format!("smpmeta {} {} | {} | {} {} {}", C::NAME, T::TAG, hx_list(&w), names.len(), names.join(" "), b.len());
        for (i, lo, hi) in &b { s.push_str(&format!(" {} {} {}", i, lo.hx(), hi.map_or("-".to_string(), |h| h.hx()))); }
        out.case(&s);
    }
    // ---- Standard: correspondence on scripted words (plain and Alpha)
    for mut sc in scripts(rng, if deep { 200 } else { 24 }) {
        let mut cl = sc.clone();
        let c: C = sc.gen();
        let g: Vec<T> = (0..k).map(|_| cl.gen::<T>()).collect();
        out.case(&format!("smpstd {} {} plain | {} {} | {}", C::NAME, T::TAG, hx_list(&w), hx_list(&g), hx_list(&c.comps())));
        check_standard::<T, C>(out, &c, &tag);
        let mut cl = sc.clone();
        let a: Alpha<C, T> = sc.gen();
        let g: Vec<T> = (0..k + 1).map(|_| cl.gen::<T>()).collect();
        out.case(&format!("smpstd {} {} alpha | {} {} | {} {}", C::NAME, T::TAG, hx_list(&w), hx_list(&g), hx_list(&a.color.comps()), a.alpha.hx()));
        check_standard::<T, C>(out, &a.color, &tag);
        out.check(T::of(0.0) <= a.alpha && a.alpha <= T::of(1.0), &format!("standard-alpha-in-unit:{}", tag), || format!("alpha {:?}", a.alpha));
    }
    // ---- Standard: oracle on real RNG streams
    let n_std = if deep { 60_000 } else { 3_000 };
    for kind in 0..3u64 {
        let mut r = real_rng(kind, rng.next());
        for _ in 0..n_std { let c: C = r.gen(); check_standard::<T, C>(out, &c, &tag); }
        for _ in 0..n_std / 10 { let a: Alpha<C, T> = r.gen(); check_standard::<T, C>(out, &a.color, &tag); out.check(T::of(0.0) <= a.alpha && a.alpha < T::of(1.0) + T::of(0.0), &format!("standard-alpha-in-unit:{}", tag), || format!("alpha {:?}", a.alpha)); }
        out.count_n(&format!("cls:standard-samples:{}", ["StdRng", "SmallRng", "SplitMix64"][kind as usize]), (n_std + n_std / 10) as u64);
    }
    // ---- Uniform: correspondence on scripted words
    let n_ends = if deep { 160 } else { 28 };
    for j in 0..n_ends {
        let incl = j % 2 == 1;
        let equal = incl && j % 8 == 7;
        let e = gen_ends::<T, C>(rng, incl, equal);
        let (lo, hi) = (C::make(&e.lo), C::make(&e.hi));
        let ctx = format!("{} {:?}..{}{:?}", if incl { "new_inclusive" } else { "new" }, e.lo, if incl { "=" } else { "" }, e.hi);
        for mut sc in scripts(rng, if deep { 6 } else { 3 }) {
            // plain colour
            let mut cl = sc.clone();
            let us: Vec<T> = (0..k).map(|_| u01.sample(&mut cl)).collect();
            let r = catch_unwind(AssertUnwindSafe(|| { let s = if incl { Uniform::new_inclusive(lo.clone(), hi.clone()) } else { Uniform::new(lo.clone(), hi.clone()) }; s.sample(&mut sc) }));
            let head = format!("smpuni {} {} {} plain | {} {} {} |", C::NAME, T::TAG, if incl { "incl" } else { "new" }, hx_list(&e.lo), hx_list(&e.hi), hx_list(&us));
            match r {
                Ok(c) => { out.case(&format!("{} {}", head, hx_list(&c.comps()))); check_uniform::<T, C>(out, &e, &c, &tag, &ctx); out.count(if equal { "cls:scripted-equal-ends" } else if incl { "cls:scripted-inclusive" } else { "cls:scripted-half-open" }); }
                Err(_) => { out.case(&format!("{} panic", head)); out.count("cls:scripted-rand-precondition-panic"); }
            }
            // with alpha
            let mut sc2 = sc.clone();
            let mut cl = sc2.clone();
            let us: Vec<T> = (0..k + 1).map(|_| u01.sample(&mut cl)).collect();
            let (alo, ahi) = (Alpha { color: lo.clone(), alpha: e.alo }, Alpha { color: hi.clone(), alpha: e.ahi });
            let r = catch_unwind(AssertUnwindSafe(|| { let s = if incl { Uniform::new_inclusive(alo.clone(), ahi.clone()) } else { Uniform::new(alo.clone(), ahi.clone()) }; s.sample(&mut sc2) }));
            let head = format!("smpuni {} {} {} alpha | {} {} {} {} {} |", C::NAME, T::TAG, if incl { "incl" } else { "new" }, hx_list(&e.lo), e.alo.hx(), hx_list(&e.hi), e.ahi.hx(), hx_list(&us));
            match r {
                Ok(a) => { out.case(&format!("{} {} {}", head, hx_list(&a.color.comps()), a.alpha.hx())); check_uniform::<T, C>(out, &e, &a.color, &tag, &ctx);
                           out.check(e.alo <= a.alpha && a.alpha <= e.ahi, &format!("alpha-between-ends:{}", tag), || format!("alpha {:?} not in [{:?}, {:?}]", a.alpha, e.alo, e.ahi)); }
                Err(_) => { out.case(&format!("{} panic", head)); out.count("cls:scripted-rand-precondition-panic"); }
            }
        }
    }
    // a few end points that violate rand's own precondition (raw low hue above raw high hue, reversed component):
    // construction must panic in rand, and the model must say so
    if names.contains(&"hue") {
        for (a, b) in [(350.0, 10.0), (20.0, 10.0), (370.0, 369.0)] {
            let mut e = gen_ends::<T, C>(rng, false, false);
            let hi_ = names.iter().position(|n| *n == "hue").unwrap();
            e.lo[hi_] = T::of(a); e.hi[hi_] = T::of(b);
            let (lo, hi) = (C::make(&e.lo), C::make(&e.hi));
            let mut sc = Script::Mix(Rng::new(rng.next())); let mut cl = sc.clone();
            let us: Vec<T> = (0..k).map(|_| u01.sample(&mut cl)).collect();
            let r = catch_unwind(AssertUnwindSafe(|| Uniform::new(lo.clone(), hi.clone()).sample(&mut sc)));
            let head = format!("smpuni {} {} new plain | {} {} {} |", C::NAME, T::TAG, hx_list(&e.lo), hx_list(&e.hi), hx_list(&us));
            match r { Ok(c) => out.case(&format!("{} {}", head, hx_list(&c.comps()))), Err(_) => { out.case(&format!("{} panic", head)); out.count("cls:descending-raw-hue-panics-in-rand"); } }
        }
    }
    // ---- Uniform: oracle on real RNG streams, many seeds and end points
    let (n_e, n_s) = if deep { (1500, 200) } else { (150, 60) };
    for j in 0..n_e {
        let incl = j % 2 == 1;
        let equal = incl && j % 10 == 9;
        let e = gen_ends::<T, C>(rng, incl, equal);
        let (lo, hi) = (C::make(&e.lo), C::make(&e.hi));
        let ctx = format!("{} {:?}..{}{:?}", if incl { "new_inclusive" } else { "new" }, e.lo, if incl { "=" } else { "" }, e.hi);
        let mut r = real_rng(j as u64, rng.next());
        let with_alpha = j % 3 == 0;
        let res = catch_unwind(AssertUnwindSafe(|| {
            let mut v: Vec<(C, Option<T>)> = Vec::with_capacity(n_s);
            if with_alpha {
                let (alo, ahi) = (Alpha { color: lo.clone(), alpha: e.alo }, Alpha { color: hi.clone(), alpha: e.ahi });
                let s = if incl { Uniform::new_inclusive(alo, ahi) } else { Uniform::new(alo, ahi) };
                for _ in 0..n_s { let a = s.sample(&mut r); v.push((a.color, Some(a.alpha))); }
            } else {
                let s = if incl { Uniform::new_inclusive(lo.clone(), hi.clone()) } else { Uniform::new(lo.clone(), hi.clone()) };
                for _ in 0..n_s { v.push((s.sample(&mut r), None)); }
            }
            v
        }));
        match res {
            Ok(v) => {
                for (c, a) in &v {
                    check_uniform::<T, C>(out, &e, c, &tag, &ctx);
                    if let Some(a) = a { out.check(e.alo <= *a && *a <= e.ahi, &format!("alpha-between-ends:{}", tag), || format!("alpha {:?} not in [{:?}, {:?}]", a, e.alo, e.ahi)); }
                }
                out.count_n(if equal { "cls:oracle-equal-ends" } else if incl { "cls:oracle-inclusive" } else { "cls:oracle-half-open" }, v.len() as u64);
                if names.contains(&"hue") { let p = names.iter().position(|n| *n == "hue").unwrap(); let (a, b) = (e.lo[p].to64(), e.hi[p].to64());
                    if a.rem_euclid(360.0) + (b - a).rem_euclid(360.0) > 360.0 || (b > a && (b - a).rem_euclid(360.0) == 0.0) { out.count("cls:hue-arc-through-0"); } else { out.count("cls:hue-arc-plain"); } }
            }
            // the generator keeps the ends apart in every primitive interval, so rand's precondition holds and nothing may panic
            Err(_) => { out.count("cls:oracle-unexpected-panic"); out.check(false, &format!("no-panic-on-ordered-ends:{}", tag), || ctx.clone()); }
        }
    }
    // ---- volume uniformity: chi-squared of CDF-coordinate bins (SUPPORT ONLY; the statement itself is the inverse-CDF theorems)
    if C::FAM != Fam::Cartesian && C::FAM != Fam::Cylinder {
        let n = if deep { 200_000 } else { 20_000 };
        let hs = C::HSCALE;
        // to the unit cone/bicone coordinates
        let unit = |c: &C| -> (f64, f64) { match c.hsv_equiv() { Some((s, v)) => (s.to64(), v.to64()), None => { let x = c.comps(); (x[1].to64() / hs, x[2].to64() / hs) } } };
        let cdf_h = |h: f64| -> f64 { if C::FAM == Fam::HslBicone { if h <= 0.5 { 4.0 * h * h * h } else { 1.0 - 4.0 * (1.0 - h).powi(3) } } else { h * h * h } };
        for (label, lo_u, hi_u) in [("standard", (0.0, 0.0), (1.0, 1.0)), ("uniform-full", (0.0, 0.0), (1.0, 1.0)), ("uniform-sub", (0.2, 0.3), (0.9, 0.8))] {
            let mut r = real_rng(1, rng.next());
            let mut bins_h = [0u64; 10]; let mut bins_s = [0u64; 10];
            let sampler = if label == "standard" { None } else {
                let mk = |s: f64, h: f64, hue: f64| -> C { if C::FAM == Fam::HwbCone { C::make(&[T::of(hue), T::of((1.0 - s) * h), T::of(1.0 - h)]) } else { C::make(&[T::of(hue), T::of(s * hs), T::of(h * hs)]) } };
                Some(Uniform::new_inclusive(mk(lo_u.0, lo_u.1, 0.0), mk(hi_u.0, hi_u.1, 360.0)))
            };
            let (f_lo, f_hi) = (cdf_h(lo_u.1), cdf_h(hi_u.1));
            let (g_lo, g_hi) = (lo_u.0 * lo_u.0, hi_u.0 * hi_u.0);
            for _ in 0..n {
                let c: C = match &sampler { None => r.gen(), Some(s) => s.sample(&mut r) };
                let (s, h) = unit(&c);
                let ph = ((cdf_h(h) - f_lo) / (f_hi - f_lo)).clamp(0.0, 0.999999);
                let ps = ((s * s - g_lo) / (g_hi - g_lo)).clamp(0.0, 0.999999);
                bins_h[(ph * 10.0) as usize] += 1; bins_s[(ps * 10.0) as usize] += 1;
            }
            for (what, bins) in [("height", bins_h), ("radius", bins_s)] {
                let exp = n as f64 / 10.0;
                let chi: f64 = bins.iter().map(|&b| { let d = b as f64 - exp; d * d / exp }).sum();
                out.maxi(&format!("support:chi2-9dof:{}:{}:{}", tag, label, what), chi);
                // 9 degrees of freedom: mean 9, sigma 4.24; alarm only beyond 12 sigma (p < 1e-8) — a volume/coordinate mix-up gives chi2 in the thousands
                out.check(chi < 60.0, &format!("support-volume-bins-uniform:{}", tag), || format!("{} {} chi2 = {} bins {:?}", label, what, chi, bins));
            }
        }
    }
}

macro_rules! run_all { ($out:expr, $rng:expr, $deep:expr, $t:ty) => {{
    run_type::<$t, palette::rgb::Rgb<S, $t>>($out, $rng, $deep);
    run_type::<$t, palette::luma::Luma<S, $t>>($out, $rng, $deep);
    run_type::<$t, palette::Lab<D65, $t>>($out, $rng, $deep);
    run_type::<$t, palette::Luv<D65, $t>>($out, $rng, $deep);
    run_type::<$t, palette::Xyz<D65, $t>>($out, $rng, $deep);
    run_type::<$t, palette::Yxy<D65, $t>>($out, $rng, $deep);
    run_type::<$t, palette::lms::Lms<Brad, $t>>($out, $rng, $deep);
    run_type::<$t, palette::Oklab<$t>>($out, $rng, $deep);
    run_type::<$t, palette::cam16::Cam16UcsJab<$t>>($out, $rng, $deep);
    run_type::<$t, palette::Lch<D65, $t>>($out, $rng, $deep);
    run_type::<$t, palette::Lchuv<D65, $t>>($out, $rng, $deep);
    run_type::<$t, palette::Oklch<$t>>($out, $rng, $deep);
    run_type::<$t, palette::cam16::Cam16UcsJmh<$t>>($out, $rng, $deep);
    run_type::<$t, palette::Hsv<S, $t>>($out, $rng, $deep);
    run_type::<$t, palette::Okhsv<$t>>($out, $rng, $deep);
    run_type::<$t, palette::Hsl<S, $t>>($out, $rng, $deep);
    run_type::<$t, palette::Okhsl<$t>>($out, $rng, $deep);
    run_type::<$t, palette::Hsluv<D65, $t>>($out, $rng, $deep);
    run_type::<$t, palette::Hwb<S, $t>>($out, $rng, $deep);
    run_type::<$t, palette::Okhwb<$t>>($out, $rng, $deep);
}} }

/// the bare hue samplers (`UniformRgbHue` ...), all five hue types: arc statement on real streams
macro_rules! run_hues { ($out:expr, $rng:expr, $deep:expr, $t:ty) => {{
    type T = $t;
    let (out, rng, deep): (&mut Out, &mut Rng, bool) = ($out, $rng, $deep);
    macro_rules! one { ($h:ty, $name:expr) => {{
        let tag = format!("{}:{}", $name, T::TAG);
        for j in 0..(if deep { 3000 } else { 400 }) {
            let incl = j % 2 == 1;
            let (a, b) = hue_pairs(rng, incl);
            let (a, b) = (a as T, b as T);
            if !(a < b) && !(incl && a <= b) { continue; }
            let mut r = real_rng(j as u64, rng.next());
            let res = catch_unwind(AssertUnwindSafe(|| { let s = if incl { Uniform::new_inclusive(<$h>::from(a), <$h>::from(b)) } else { Uniform::new(<$h>::from(a), <$h>::from(b)) };
                (0..50).map(|_| s.sample(&mut r).into_raw_degrees()).collect::<Vec<T>>() }));
            match res {
                Ok(v) => for h in v { let tol = <T as Flt>::slack(360f64.max(a.to64().abs()).max(b.to64().abs()));
                    out.check(on_arc(a.to64(), b.to64(), h.to64(), tol), &format!("hue-on-arc:{}", tag), || format!("{} low hue {:?} high hue {:?} sampled hue {:?}", if incl { "new_inclusive" } else { "new" }, a, b, h)); },
                Err(_) => out.check(false, &format!("no-panic-on-ordered-ends:{}", tag), || format!("{:?} {:?}", a, b)),
            }
        }
        // the hue is uniform along the arc (support for the volume clause: the cone/bicone/cylinder samplers take their hue from here),
        // in particular for arcs of a whole number of turns given inclusively: 12 bins, alarm beyond ~12 sigma of chi2 (11 d.o.f.)
        for (a, b, incl) in [(0.0, 360.0, true), (-180.0, 180.0, true), (90.0, 450.0, true), (0.0, 360.0, false), (350.0, 370.0, false), (10.0, 200.0, true), (-30.0, -10.0, false)] {
            let mut r = real_rng(7, rng.next());
            let (at, bt) = (a as T, b as T);
            let res = catch_unwind(AssertUnwindSafe(|| { let s = if incl { Uniform::new_inclusive(<$h>::from(at), <$h>::from(bt)) } else { Uniform::new(<$h>::from(at), <$h>::from(bt)) };
                (0..6000).map(|_| s.sample(&mut r).into_raw_degrees().to64()).collect::<Vec<f64>>() }));
            if let Ok(v) = res {
                let len: f64 = b - a;
                let mut bins = [0u32; 12];
                for h in &v { let t = (h - a).rem_euclid(360.0) / len; let k = ((t * 12.0) as usize).min(11); bins[k] += 1; }
                let exp = v.len() as f64 / 12.0;
                let chi: f64 = bins.iter().map(|&c| (c as f64 - exp).powi(2) / exp).sum();
                out.maxi(&format!("hue-arc-chi2:{}", T::TAG), chi);
                out.check(chi < 70.0, &format!("support-hue-arc-bins-uniform:{}", tag), || format!("{} {}..{}{}: chi2 = {} bins {:?}", if incl { "new_inclusive" } else { "new" }, a, if incl { "=" } else { "" }, b, chi, bins));
            }
        }
        let mut r = real_rng(0, rng.next());
        for _ in 0..2000 { let h: $h = r.gen(); let d = h.into_raw_degrees().to64(); out.check(0.0 <= d && d <= 360.0, &format!("standard-hue-in-circle:{}", tag), || format!("hue {}", d)); }
    }} }
    one!(palette::RgbHue<T>, "RgbHue"); one!(palette::LabHue<T>, "LabHue"); one!(palette::LuvHue<T>, "LuvHue"); one!(palette::OklabHue<T>, "OklabHue"); one!(palette::hues::Cam16Hue<T>, "Cam16Hue");
}} }


/// `Xyz<Wp>` is the one sampled type whose bounds depend on a type parameter: standard samples under every white point lie within
/// `[0, Wp]` (the property's "within the bounds of its space"), through `is_within_bounds` and the accessors.
macro_rules! xyz_white_points { ($out:expr, $rng:expr, $deep:expr, $t:ty, [$($w:ident),*]) => {{
    use palette::white_point::*;
    use rand::SeedableRng;
    $( {
        let mut r = rand::rngs::StdRng::seed_from_u64($rng.next());
        let (mx, my, mz) = (palette::Xyz::<$w, $t>::max_x(), palette::Xyz::<$w, $t>::max_y(), palette::Xyz::<$w, $t>::max_z());
        for _ in 0..(if $deep { 20000 } else { 1500 }) {
            let c: palette::Xyz<$w, $t> = rand::Rng::gen(&mut r);
            let ok = c.is_within_bounds() && c.x >= 0.0 && c.x <= mx && c.y >= 0.0 && c.y <= my && c.z >= 0.0 && c.z <= mz;
            $out.check(ok, &format!("standard-within-bounds:Xyz<{}>:{}", stringify!($w), <$t as Fl>::TAG), || format!("standard sample {:?} outside [0, ({:?}, {:?}, {:?})]", (c.x, c.y, c.z), mx, my, mz));
        }
        $out.count("cls:xyz-white-point");
    } )*
}} }

#[allow(unused_imports)] pub(crate) use xyz_white_points;

pub fn run(tier: &str, seed: u64, dir: &str) {
    let mut out = Out::new("C19", dir);
    let mut rng = Rng::new(seed);
    let deep = tier == "thorough";
    run_all!(&mut out, &mut rng, deep, f32);
    run_all!(&mut out, &mut rng, deep, f64);
    run_hues!(&mut out, &mut rng, deep, f32);
    run_hues!(&mut out, &mut rng, deep, f64);
    xyz_white_points!(out, rng, deep, f32, [A, B, C, D50, D55, D65, D75, E, F2, F7, F11]); xyz_white_points!(out, rng, deep, f64, [A, B, C, D50, D55, D65, D75, E, F2, F7, F11]);
    // coverage audit: entry points, type parameters, alpha component types, end points and joint bins the clauses above do not drive
    // (`c19_more.rs`).  Called last, so that the case stream above is unchanged.
    crate::c19_more::run_more(&mut out, &mut rng, deep);
    out.finish(dir, "");
}
