//! C05, second part (coverage audit, see AUDIT_C05.md): the forms, entry points, component types and type parameters inside the
//! property's quantifier that `c05.rs` does not drive.  Every clause is the property's own predicate evaluated on the implementation,
//! or the comparison of a form that `c05.rs` never executes with the trait function it judges (`FromLinear::from_linear` /
//! `IntoLinear::into_linear` of the transfer function the standard's document prescribes), bit for bit:
//!
//!  * `f64` inputs of the integer encoders that no `f32` is near: doubles beyond `f32::MAX` (the narrowing overflows to inf), below the
//!    smallest `f32` subnormal, on the rounding ties of the narrowing at both ends, NaNs with payloads - saturation, totality,
//!    monotonicity and the 0.6 bound for the four 8-bit encoders and, **new**, for `FromLinear<f64, u16>` of ProPhoto (which `c05.rs`
//!    calls on decoded codes only); protocol lines `lutenc .. | X.. |` and `lutenc16 prophoto | X.. |` (the driver had the f64 arm);
//!  * all 65536 codes of the 16-bit ProPhoto decoders in the quick tier (`c05.rs`: every 257th), and the f32 decoder against the curve;
//!  * `Rgb<S, T>` / `Luma<S, T>`: all three channels (c05.rs reads `.red`), `into_encoding` / `from_encoding`, the four `Alpha<..>` impl
//!    blocks (rgb.rs:718, :770; luma.rs:410, :465) with alpha types equal to and different from the component type, the component
//!    pairs (f64, u8), (f32, u16), (f64, u16), the standards with a type parameter (`DciP3Plus<F>`, `Linear<S>`, `Gamma<S, N>`, a
//!    user-defined gamma `Number`), and `LinearFn` at integer components;
//!  * the six `From` impls between `Srgb`/`Srgba` and `LinSrgb`/`LinSrgba` (src/rgb.rs:366-430);
//!  * the re-encoding arms of `FromColorUnclamped` (`Rgb<S1> <- Rgb<S2>` with the same primaries, `Luma<S1> <- Luma<S2>`,
//!    `Rgb<S> <- Luma<St>` with different transfer functions): decode with S2's curve, encode with S1's.
//!
//! Tolerances: none for the wrapper forms (`Val::same`: equal bits, or both NaN).  The f64 encoder clauses use the constants of their
//! siblings in `c05.rs` (0.6 of a code against the published curve; the bound is a theorem for every double, C05F / C05E16).  The
//! user-defined gamma is judged like `gamma22` in `c05.rs` (1e-12 in f64, 4e-6 relative in f32, inverse within 1e-6).
use crate::c05::{enc_u8_f64, std_eotf, std_oetf, ENCS};
use crate::common::*;
use palette::convert::FromColorUnclamped;
use palette::encoding::gamma::{GammaFn, Number};
use palette::encoding::linear::LinearFn;
use palette::encoding::{AdobeRgb, DciP3, DciP3Plus, DisplayP3, F2p2, FromLinear, Gamma, IntoLinear, Linear, P3Gamma, ProPhotoRgb, Rec2020, Rec709, RecOetf, Srgb};
use palette::luma::{Luma, LumaStandard};
use palette::rgb::{Rgb, RgbStandard};
use palette::stimulus::{FromStimulus, Stimulus};
use palette::white_point::D65;
use palette::Alpha;

/// a gamma exponent palette does not ship (the `Number` trait is public)
#[derive(Copy, Clone, Debug, PartialEq, Eq)]
pub struct N1p8;
impl Number for N1p8 { const VALUE: f64 = 1.8; }

pub trait Val: Copy + 'static {
    fn same(self, o: Self) -> bool;
    fn txt(self) -> String;
    /// component values: the unit interval, the knees of every curve +- 1 ulp, and (floats) values outside [0, 1], infinities, NaN
    fn pool(rng: &mut Rng, n: usize) -> Vec<Self>;
    fn alphas(rng: &mut Rng) -> Vec<Self>;
}
const KNEES: [f64; 6] = [0.0031308, 0.04045, 0.018053968510807, 4.5 * 0.018053968510807, 0.001953125, 0.03125];
impl Val for f32 {
    fn same(self, o: f32) -> bool { self.to_bits() == o.to_bits() || (self.is_nan() && o.is_nan()) }
    fn txt(self) -> String { h32(self) }
    fn pool(rng: &mut Rng, n: usize) -> Vec<f32> {
        let mut v = vec![0.0, -0.0, 1.0, 0.5, 0.25, 1e-9, f32::MIN_POSITIVE, f32::from_bits(1), nudge32(1.0, -1), nudge32(1.0, 1), -0.25, -1.0, 1.5, 100.0, f32::MAX, f32::INFINITY, f32::NEG_INFINITY, f32::NAN];
        for t in KNEES { for k in -1..=1 { v.push(nudge32(t as f32, k)); } }
        for _ in 0..n { v.push(rng.unit() as f32); }
        for _ in 0..n / 4 { let u = rng.unit(); v.push((u * u * u * 0.05) as f32); }
        v
    }
    fn alphas(rng: &mut Rng) -> Vec<f32> { vec![0.0, 1.0, 0.5, 0.25, rng.unit() as f32, rng.unit() as f32, rng.unit() as f32] }
}
impl Val for f64 {
    fn same(self, o: f64) -> bool { self.to_bits() == o.to_bits() || (self.is_nan() && o.is_nan()) }
    fn txt(self) -> String { h64(self) }
    fn pool(rng: &mut Rng, n: usize) -> Vec<f64> {
        let mut v = vec![0.0, -0.0, 1.0, 0.5, 0.25, 1e-9, f64::MIN_POSITIVE, f64::from_bits(1), nudge64(1.0, -1), nudge64(1.0, 1), -0.25, -1.0, 1.5, 100.0, 1e300, f64::MAX, f64::INFINITY, f64::NEG_INFINITY, f64::NAN];
        for t in KNEES { for k in -1..=1 { v.push(nudge64(t, k)); v.push(nudge32(t as f32, k as i32) as f64); } }
        for _ in 0..n { v.push(rng.unit()); }
        for _ in 0..n / 4 { let u = rng.unit(); v.push(u * u * u * 0.05); }
        v
    }
    fn alphas(rng: &mut Rng) -> Vec<f64> { vec![0.0, 1.0, 0.5, 0.25, rng.unit(), rng.unit(), rng.unit()] }
}
impl Val for u8 {
    fn same(self, o: u8) -> bool { self == o }
    fn txt(self) -> String { self.to_string() }
    fn pool(_: &mut Rng, _: usize) -> Vec<u8> { (0..=255u8).collect() }
    fn alphas(rng: &mut Rng) -> Vec<u8> { vec![0, 255, 128, 1, 254, rng.next() as u8, rng.next() as u8] }
}
impl Val for u16 {
    fn same(self, o: u16) -> bool { self == o }
    fn txt(self) -> String { self.to_string() }
    fn pool(rng: &mut Rng, n: usize) -> Vec<u16> { let mut v: Vec<u16> = vec![0, 1, 2047, 2048, 2049, 32767, 32768, 65534, 65535]; for _ in 0..n { v.push(rng.next() as u16); } v }
    fn alphas(rng: &mut Rng) -> Vec<u16> { vec![0, 65535, 32768, 1, 65534, rng.next() as u16, rng.next() as u16] }
}
fn same3<V: Val>(a: (V, V, V), b: (V, V, V)) -> bool { a.0.same(b.0) && a.1.same(b.1) && a.2.same(b.2) }
fn txt3<V: Val>(a: (V, V, V)) -> String { format!("({} {} {})", a.0.txt(), a.1.txt(), a.2.txt()) }

/// `Rgb` / `Luma` / `Alpha<Rgb>` / `Alpha<Luma>` :: `into_linear`, `from_linear`, `into_encoding`, `from_encoding` for one standard
/// (`$RS` as `RgbStandard`, `$LS` as `LumaStandard`), one pair of component types (`$L` linear, `$E` encoded) and one pair of alpha types
/// (`$A` beside `$E`, `$B` beside `$L`), against `$Tf` - the transfer function the standard's document prescribes, written at the call
/// site independently of palette's `type TransferFn = ..` lines.  Instantiated concretely: no palette trait bound is restated here.
macro_rules! wrapper_forms { ($out:ident, $rng:ident, $n:expr, $name:expr, $RS:ty, $LS:ty, $Tf:ty, $L:ty, $E:ty, $A:ty, $B:ty) => {{
    type Sp = <$RS as RgbStandard>::Space; type Wp = <$LS as LumaStandard>::WhitePoint;
    let tag = format!("{}:{}<>{}:a={}<>{}", $name, stringify!($L), stringify!($E), stringify!($B), stringify!($A));
    let dec = |e: $E| -> $L { <$Tf as IntoLinear<$L, $E>>::into_linear(e) };
    let enc = |l: $L| -> $E { <$Tf as FromLinear<$L, $E>>::from_linear(l) };
    let up = |a: $A| -> $B { <$B as FromStimulus<$A>>::from_stimulus(a) };
    let down = |b: $B| -> $A { <$A as FromStimulus<$B>>::from_stimulus(b) };
    let (es, ls, aas, bs) = (<$E as Val>::pool($rng, $n), <$L as Val>::pool($rng, $n), <$A as Val>::alphas($rng), <$B as Val>::alphas($rng));
    // ---- encoded -> linear
    for i in 0..es.len() {
        let (a, b, c) = (es[i], es[(i * 7 + 3) % es.len()], es[(i * 13 + 5) % es.len()]);
        let al = aas[i % aas.len()];
        let want = (dec(a), dec(b), dec(c));
        let src = || format!("encoded {} alpha {}", txt3((a, b, c)), al.txt());
        let r = Rgb::<$RS, $E>::new(a, b, c).into_linear::<$L>();
        $out.check(same3((r.red, r.green, r.blue), want), &format!("rgb.into_linear=transfer-fn:{}", tag), || format!("{} -> {}, per channel {}", src(), txt3((r.red, r.green, r.blue)), txt3(want)));
        let r = Rgb::<Linear<Sp>, $L>::from_encoding(Rgb::<$RS, $E>::new(a, b, c));
        $out.check(same3((r.red, r.green, r.blue), want), &format!("rgb.from_encoding=transfer-fn:{}", tag), || format!("{} -> {}, per channel {}", src(), txt3((r.red, r.green, r.blue)), txt3(want)));
        let r = Alpha::<Rgb<$RS, $E>, $A> { color: Rgb::new(a, b, c), alpha: al }.into_linear::<$L, $B>();
        $out.check(same3((r.color.red, r.color.green, r.color.blue), want) && r.alpha.same(up(al)), &format!("rgba.into_linear=transfer-fn:{}", tag), || format!("{} -> {} alpha {}, per channel {} alpha {}", src(), txt3((r.color.red, r.color.green, r.color.blue)), r.alpha.txt(), txt3(want), up(al).txt()));
        let r = Alpha::<Rgb<Linear<Sp>, $L>, $B>::from_encoding(Alpha::<Rgb<$RS, $E>, $A> { color: Rgb::new(a, b, c), alpha: al });
        $out.check(same3((r.color.red, r.color.green, r.color.blue), want) && r.alpha.same(up(al)), &format!("rgba.from_encoding=transfer-fn:{}", tag), || format!("{} -> {} alpha {}, per channel {} alpha {}", src(), txt3((r.color.red, r.color.green, r.color.blue)), r.alpha.txt(), txt3(want), up(al).txt()));
        let l = Luma::<$LS, $E>::new(a).into_linear::<$L>();
        $out.check(l.luma.same(want.0), &format!("luma.into_linear=transfer-fn:{}", tag), || format!("encoded {} -> {}, transfer fn {}", a.txt(), l.luma.txt(), want.0.txt()));
        let l = Luma::<Linear<Wp>, $L>::from_encoding(Luma::<$LS, $E>::new(a));
        $out.check(l.luma.same(want.0), &format!("luma.from_encoding=transfer-fn:{}", tag), || format!("encoded {} -> {}, transfer fn {}", a.txt(), l.luma.txt(), want.0.txt()));
        let l = Alpha::<Luma<$LS, $E>, $A> { color: Luma::new(a), alpha: al }.into_linear::<$L, $B>();
        $out.check(l.color.luma.same(want.0) && l.alpha.same(up(al)), &format!("lumaa.into_linear=transfer-fn:{}", tag), || format!("encoded {} alpha {} -> {} alpha {}, transfer fn {} alpha {}", a.txt(), al.txt(), l.color.luma.txt(), l.alpha.txt(), want.0.txt(), up(al).txt()));
        let l = Alpha::<Luma<Linear<Wp>, $L>, $B>::from_encoding(Alpha::<Luma<$LS, $E>, $A> { color: Luma::new(a), alpha: al });
        $out.check(l.color.luma.same(want.0) && l.alpha.same(up(al)), &format!("lumaa.from_encoding=transfer-fn:{}", tag), || format!("encoded {} alpha {} -> {} alpha {}, transfer fn {} alpha {}", a.txt(), al.txt(), l.color.luma.txt(), l.alpha.txt(), want.0.txt(), up(al).txt()));
        $out.count("cls:more:wrapper-into");
    }
    // ---- linear -> encoded
    for i in 0..ls.len() {
        let (a, b, c) = (ls[i], ls[(i * 7 + 3) % ls.len()], ls[(i * 13 + 5) % ls.len()]);
        let al = bs[i % bs.len()];
        let want = (enc(a), enc(b), enc(c));
        let src = || format!("linear {} alpha {}", txt3((a, b, c)), al.txt());
        let r = Rgb::<$RS, $E>::from_linear(Rgb::<Linear<Sp>, $L>::new(a, b, c));
        $out.check(same3((r.red, r.green, r.blue), want), &format!("rgb.from_linear=transfer-fn:{}", tag), || format!("{} -> {}, per channel {}", src(), txt3((r.red, r.green, r.blue)), txt3(want)));
        let r = Rgb::<Linear<Sp>, $L>::new(a, b, c).into_encoding::<$E, $RS>();
        $out.check(same3((r.red, r.green, r.blue), want), &format!("rgb.into_encoding=transfer-fn:{}", tag), || format!("{} -> {}, per channel {}", src(), txt3((r.red, r.green, r.blue)), txt3(want)));
        let r = Alpha::<Rgb<$RS, $E>, $A>::from_linear(Alpha::<Rgb<Linear<Sp>, $L>, $B> { color: Rgb::new(a, b, c), alpha: al });
        $out.check(same3((r.color.red, r.color.green, r.color.blue), want) && r.alpha.same(down(al)), &format!("rgba.from_linear=transfer-fn:{}", tag), || format!("{} -> {} alpha {}, per channel {} alpha {}", src(), txt3((r.color.red, r.color.green, r.color.blue)), r.alpha.txt(), txt3(want), down(al).txt()));
        let r = Alpha::<Rgb<Linear<Sp>, $L>, $B> { color: Rgb::new(a, b, c), alpha: al }.into_encoding::<$E, $A, $RS>();
        $out.check(same3((r.color.red, r.color.green, r.color.blue), want) && r.alpha.same(down(al)), &format!("rgba.into_encoding=transfer-fn:{}", tag), || format!("{} -> {} alpha {}, per channel {} alpha {}", src(), txt3((r.color.red, r.color.green, r.color.blue)), r.alpha.txt(), txt3(want), down(al).txt()));
        let l = Luma::<$LS, $E>::from_linear(Luma::<Linear<Wp>, $L>::new(a));
        $out.check(l.luma.same(want.0), &format!("luma.from_linear=transfer-fn:{}", tag), || format!("linear {} -> {}, transfer fn {}", a.txt(), l.luma.txt(), want.0.txt()));
        let l = Luma::<Linear<Wp>, $L>::new(a).into_encoding::<$E, $LS>();
        $out.check(l.luma.same(want.0), &format!("luma.into_encoding=transfer-fn:{}", tag), || format!("linear {} -> {}, transfer fn {}", a.txt(), l.luma.txt(), want.0.txt()));
        let l = Alpha::<Luma<$LS, $E>, $A>::from_linear(Alpha::<Luma<Linear<Wp>, $L>, $B> { color: Luma::new(a), alpha: al });
        $out.check(l.color.luma.same(want.0) && l.alpha.same(down(al)), &format!("lumaa.from_linear=transfer-fn:{}", tag), || format!("linear {} alpha {} -> {} alpha {}, transfer fn {} alpha {}", a.txt(), al.txt(), l.color.luma.txt(), l.alpha.txt(), want.0.txt(), down(al).txt()));
        let l = Alpha::<Luma<Linear<Wp>, $L>, $B> { color: Luma::new(a), alpha: al }.into_encoding::<$E, $A, $LS>();
        $out.check(l.color.luma.same(want.0) && l.alpha.same(down(al)), &format!("lumaa.into_encoding=transfer-fn:{}", tag), || format!("linear {} alpha {} -> {} alpha {}, transfer fn {} alpha {}", a.txt(), al.txt(), l.color.luma.txt(), l.alpha.txt(), want.0.txt(), down(al).txt()));
        $out.count("cls:more:wrapper-from");
    }
}} }

/// the float pairs of one standard, with an alpha of the component type and one of another type
macro_rules! wrapper_floats { ($out:ident, $rng:ident, $n:expr, $name:expr, $RS:ty, $LS:ty, $Tf:ty) => {
    wrapper_forms!($out, $rng, $n, $name, $RS, $LS, $Tf, f32, f32, f32, f32);
    wrapper_forms!($out, $rng, $n, $name, $RS, $LS, $Tf, f64, f64, f32, f64);
    wrapper_forms!($out, $rng, $n / 4, $name, $RS, $LS, $Tf, f32, f32, u8, f32);
} }
/// the 8-bit pairs of a standard whose transfer function has lookup tables
macro_rules! wrapper_u8 { ($out:ident, $rng:ident, $n:expr, $name:expr, $RS:ty, $LS:ty, $Tf:ty) => {
    wrapper_forms!($out, $rng, $n, $name, $RS, $LS, $Tf, f32, u8, u8, f32);
    wrapper_forms!($out, $rng, $n, $name, $RS, $LS, $Tf, f64, u8, u8, f64);
    wrapper_forms!($out, $rng, $n / 4, $name, $RS, $LS, $Tf, f32, u8, f32, f32);
} }

/// the `From` impls of src/rgb.rs between `Srgb<U>` / `Srgba<U>` (encoded) and `LinSrgb<T>` / `LinSrgba<T>` (linear)
macro_rules! srgb_from_impls { ($out:ident, $rng:ident, $n:expr, $T:ty, $U:ty) => {{
    let tag = format!("{}<>{}", stringify!($T), stringify!($U));
    let dec = |e: $U| -> $T { <Srgb as IntoLinear<$T, $U>>::into_linear(e) };
    let enc = |l: $T| -> $U { <Srgb as FromLinear<$T, $U>>::from_linear(l) };
    let (es, ls) = (<$U as Val>::pool($rng, $n), <$T as Val>::pool($rng, $n));
    let (eas, las) = (<$U as Val>::alphas($rng), <$T as Val>::alphas($rng));
    for i in 0..es.len() {
        let (a, b, c) = (es[i], es[(i * 7 + 3) % es.len()], es[(i * 13 + 5) % es.len()]); let al = eas[i % eas.len()];
        let want = (dec(a), dec(b), dec(c));
        let r = palette::LinSrgb::<$T>::from(palette::Srgb::<$U>::new(a, b, c));
        $out.check(same3((r.red, r.green, r.blue), want), &format!("From<Srgb>-for-LinSrgb=transfer-fn:{}", tag), || format!("encoded {} -> {}, per channel {}", txt3((a, b, c)), txt3((r.red, r.green, r.blue)), txt3(want)));
        let r = palette::LinSrgba::<$T>::from(palette::Srgb::<$U>::new(a, b, c));
        $out.check(same3((r.color.red, r.color.green, r.color.blue), want) && r.alpha.same(<$T as Stimulus>::max_intensity()), &format!("From<Srgb>-for-LinSrgba=transfer-fn:{}", tag), || format!("encoded {} -> {} alpha {}, per channel {}", txt3((a, b, c)), txt3((r.color.red, r.color.green, r.color.blue)), r.alpha.txt(), txt3(want)));
        let r = palette::LinSrgba::<$T>::from(palette::Srgba::<$U>::new(a, b, c, al));
        let wa = <$T as FromStimulus<$U>>::from_stimulus(al);
        $out.check(same3((r.color.red, r.color.green, r.color.blue), want) && r.alpha.same(wa), &format!("From<Srgba>-for-LinSrgba=transfer-fn:{}", tag), || format!("encoded {} alpha {} -> {} alpha {}, per channel {} alpha {}", txt3((a, b, c)), al.txt(), txt3((r.color.red, r.color.green, r.color.blue)), r.alpha.txt(), txt3(want), wa.txt()));
    }
    for i in 0..ls.len() {
        let (a, b, c) = (ls[i], ls[(i * 7 + 3) % ls.len()], ls[(i * 13 + 5) % ls.len()]); let al = las[i % las.len()];
        let want = (enc(a), enc(b), enc(c));
        let r = palette::Srgb::<$U>::from(palette::LinSrgb::<$T>::new(a, b, c));
        $out.check(same3((r.red, r.green, r.blue), want), &format!("From<LinSrgb>-for-Srgb=transfer-fn:{}", tag), || format!("linear {} -> {}, per channel {}", txt3((a, b, c)), txt3((r.red, r.green, r.blue)), txt3(want)));
        let r = palette::Srgba::<$U>::from(palette::LinSrgb::<$T>::new(a, b, c));
        $out.check(same3((r.color.red, r.color.green, r.color.blue), want) && r.alpha.same(<$U as Stimulus>::max_intensity()), &format!("From<LinSrgb>-for-Srgba=transfer-fn:{}", tag), || format!("linear {} -> {} alpha {}, per channel {}", txt3((a, b, c)), txt3((r.color.red, r.color.green, r.color.blue)), r.alpha.txt(), txt3(want)));
        let r = palette::Srgba::<$U>::from(palette::LinSrgba::<$T>::new(a, b, c, al));
        let wa = <$U as FromStimulus<$T>>::from_stimulus(al);
        $out.check(same3((r.color.red, r.color.green, r.color.blue), want) && r.alpha.same(wa), &format!("From<LinSrgba>-for-Srgba=transfer-fn:{}", tag), || format!("linear {} alpha {} -> {} alpha {}, per channel {} alpha {}", txt3((a, b, c)), al.txt(), txt3((r.color.red, r.color.green, r.color.blue)), r.alpha.txt(), txt3(want), wa.txt()));
    }
    $out.count("cls:more:srgb-from-impls");
}} }

/// `Rgb<S1, T> <- Rgb<S2, T>` (same primaries), `Luma<L1, T> <- Luma<L2, T>`, `Rgb<S1, T> <- Luma<L2, T>`: decode with `$Tf2`, encode with `$Tf1`
macro_rules! reencode { ($out:ident, $rng:ident, $n:expr, $name:expr, $S1:ty, $L1:ty, $Tf1:ty, $S2:ty, $L2:ty, $Tf2:ty, $T:ty) => {{
    let tag = format!("{}:{}", $name, stringify!($T));
    let re = |x: $T| -> $T { <$Tf1 as FromLinear<$T, $T>>::from_linear(<$Tf2 as IntoLinear<$T, $T>>::into_linear(x)) };
    let xs = <$T as Val>::pool($rng, $n);
    for i in 0..xs.len() {
        let (a, b, c) = (xs[i], xs[(i * 7 + 3) % xs.len()], xs[(i * 13 + 5) % xs.len()]);
        let want = (re(a), re(b), re(c));
        let r = Rgb::<$S1, $T>::from_color_unclamped(Rgb::<$S2, $T>::new(a, b, c));
        $out.check(same3((r.red, r.green, r.blue), want), &format!("rgb.reencode=from_linear.into_linear:{}", tag), || format!("{} -> {}, decode then encode {}", txt3((a, b, c)), txt3((r.red, r.green, r.blue)), txt3(want)));
        let l = Luma::<$L1, $T>::from_color_unclamped(Luma::<$L2, $T>::new(a));
        $out.check(l.luma.same(want.0), &format!("luma.reencode=from_linear.into_linear:{}", tag), || format!("{} -> {}, decode then encode {}", a.txt(), l.luma.txt(), want.0.txt()));
        let r = Rgb::<$S1, $T>::from_color_unclamped(Luma::<$L2, $T>::new(a));
        $out.check(same3((r.red, r.green, r.blue), (want.0, want.0, want.0)), &format!("rgb<-luma.reencode=from_linear.into_linear:{}", tag), || format!("{} -> {}, decode then encode {}", a.txt(), txt3((r.red, r.green, r.blue)), want.0.txt()));
    }
    $out.count("cls:more:reencode");
}} }

/// doubles that are not near any f32 the f32 stream of `c05.rs` contains: the ends of the f32 range, the rounding ties of `as f32`,
/// NaNs with payloads, full-precision doubles in (0, 1)
fn f64_inputs(rng: &mut Rng, n: usize) -> Vec<f64> {
    let mut v = vec![];
    let p = |e: i32| 2f64.powi(e);
    let specials = [0.0f64, -0.0, 1.0, -1.0, 0.5, 2.0, f64::from_bits(1), -f64::from_bits(1), f64::MIN_POSITIVE, 1e-300, 1e-46, -1e-46,
        p(-150), p(-149), 1.5 * p(-149), p(-126), // the tie between +0 and the smallest f32 subnormal, that subnormal, the next tie, the smallest normal
        1.0 - p(-25), 1.0 - p(-24), 1.0 - p(-53), 1.0 + p(-52), 1.0 + p(-24), // the tie between the largest f32 below one and one
        f32::MAX as f64, (f32::MAX as f64) + p(102), (f32::MAX as f64) + p(103), 3.5e38, 1e39, 1e300, f64::MAX, -3.5e38, -1e300, f64::MIN, // around the overflow of the narrowing
        f64::INFINITY, f64::NEG_INFINITY, f64::NAN, -f64::NAN, f64::from_bits(0x7ff0000000000001), f64::from_bits(0xfff0000000000001), f64::from_bits(0x7ff7ffffffffffff), f64::from_bits(0x7ff8000020000001),
        0.0031308, 0.018053968510807, 0.001953125, p(-9), p(-13), p(-14), p(-12), p(-11)];
    for s in specials { for k in [-2i64, -1, 0, 1, 2] { v.push(nudge64(s, k)); } }
    // every table cell boundary of the u8 encoders +- one double, and the f32 rounding ties just below them
    let mut b = 0x33000000u32; while b <= 0x3f800000 { let x = f32::from_bits(b) as f64; let half = (x - f32::from_bits(b - 1) as f64) / 2.0; for y in [x - half, x] { for k in [-1i64, 0, 1] { v.push(nudge64(y, k)); } } b += 1 << 21; }
    for _ in 0..n { v.push(rng.unit()); }
    for _ in 0..n { v.push(rng.unit() * rng.unit() * rng.unit()); }
    for _ in 0..n / 2 { v.push(f64::from_bits(rng.next())); }
    for _ in 0..n / 4 { v.push(rng.range(-1.0, 2.0)); }
    for _ in 0..n / 4 { let e = rng.below(400) as i32 - 200; v.push(rng.unit() * p(e)); } // every magnitude
    v
}

pub fn run_more(out: &mut Out, rng: &mut Rng, tier: &str) {
    let thorough = tier == "thorough";
    // ---- 1. f64 inputs of the integer encoders
    let xs = f64_inputs(rng, if thorough { 30_000 } else { 2_000 });
    let mut sorted: Vec<f64> = xs.iter().cloned().filter(|x| !x.is_nan()).collect();
    sorted.sort_by(|a, b| a.partial_cmp(b).unwrap());
    let enc16 = |x: f64| <ProPhotoRgb as FromLinear<f64, u16>>::from_linear(x);
    for &x in &xs {
        for e in ENCS {
            match std::panic::catch_unwind(|| enc_u8_f64(e, x)) {
                Ok(c) => {
                    out.case(&format!("lutenc {} | {} | {}", e, h64(x), c));
                    if x.is_nan() { out.count("cls:more:f64:nan"); }
                    else if x <= 0.0 { out.check(c == 0, &format!("saturate-low64:{}", e), || format!("{} ({:e}) -> {}", h64(x), x, c)); }
                    else if x >= 1.0 { out.check(c == 255, &format!("saturate-high64:{}", e), || format!("{} ({:e}) -> {}", h64(x), x, c)); }
                    else { let err = (c as f64 - 255.0 * std_oetf(e, x)).abs(); out.maxi(&format!("enc-err64:{}", e), err);
                           out.check(err < 0.6, &format!("faithful64:{}", e), || format!("{} ({:e}) -> {} but 255*curve = {:.6}", h64(x), x, c, 255.0 * std_oetf(e, x))); }
                }
                Err(_) => out.check(false, &format!("total64:{}", e), || format!("panic on {}", h64(x))),
            }
        }
        match std::panic::catch_unwind(|| enc16(x)) {
            Ok(c) => {
                out.case(&format!("lutenc16 prophoto | {} | {}", h64(x), c));
                if x.is_nan() {}
                else if x <= 0.0 { out.check(c == 0, "saturate-low64:prophoto16", || format!("{} ({:e}) -> {}", h64(x), x, c)); }
                else if x >= 1.0 { out.check(c == 65535, "saturate-high64:prophoto16", || format!("{} ({:e}) -> {}", h64(x), x, c)); }
                else { let err = (c as f64 - 65535.0 * std_oetf("prophoto", x)).abs(); out.maxi("enc-err64:prophoto16", err);
                       out.check(err < 0.6, "faithful64:prophoto16", || format!("{} ({:e}) -> {} but 65535*curve = {:.6}", h64(x), x, c, 65535.0 * std_oetf("prophoto", x))); }
                // the f64 form is the f32 form of the narrowed input (`from_linear(linear as f32)`); both are judged above / in c05.rs
                let c32 = std::panic::catch_unwind(|| <ProPhotoRgb as FromLinear<f32, u16>>::from_linear(x as f32)).unwrap_or(0);
                out.check(c == c32, "f64-form=f32-form-of-narrowed:prophoto16", || format!("{} ({:e}) -> {}, f32 form of {} -> {}", h64(x), x, c, h32(x as f32), c32));
            }
            Err(_) => out.check(false, "total64:prophoto16", || format!("panic on {}", h64(x))),
        }
        out.count("cls:more:f64-input");
    }
    for e in ENCS {
        let mut prev: Option<(f64, u8)> = None;
        for &x in &sorted {
            let c = std::panic::catch_unwind(|| enc_u8_f64(e, x)).unwrap_or(0);
            if let Some((px, pc)) = prev { out.check(pc <= c, &format!("monotone64:{}", e), || format!("{} -> {} but {} -> {}", h64(px), pc, h64(x), c)); }
            prev = Some((x, c));
        }
    }
    let mut prev: Option<(f64, u16)> = None;
    for &x in &sorted {
        let c = std::panic::catch_unwind(|| enc16(x)).unwrap_or(0);
        if let Some((px, pc)) = prev { out.check(pc <= c, "monotone64:prophoto16", || format!("{} -> {} but {} -> {}", h64(px), pc, h64(x), c)); }
        prev = Some((x, c));
    }

    // ---- 2. every 16-bit code in the quick tier too (c05.rs: every 257th), and the f32 decoder against the curve
    for c in 0..=65535u16 {
        let d64 = <ProPhotoRgb as IntoLinear<f64, u16>>::into_linear(c);
        let d32 = <ProPhotoRgb as IntoLinear<f32, u16>>::into_linear(c);
        let (e64, e32) = (<ProPhotoRgb as FromLinear<f64, u16>>::from_linear(d64), <ProPhotoRgb as FromLinear<f32, u16>>::from_linear(d32));
        out.check(e64 == c, "dec-enc:all-codes:prophoto:f64", || format!("code {} -> {:e} -> {}", c, d64, e64));
        out.check(e32 == c, "dec-enc:all-codes:prophoto:f32", || format!("code {} -> {:e} -> {}", c, d32, e32));
        let want = std_eotf("prophoto", c as f64 / 65535.0);
        // 1e-6 as for the sibling clause `dec-curve:prophoto` (observed 3.4e-16 in f64, 6e-8 = the f32 rounding in f32)
        out.check((d64 - want).abs() <= 1e-6, "dec-curve:all-codes:prophoto:f64", || format!("code {} -> {:e}, curve {:e}", c, d64, want));
        out.check((d32 as f64 - want).abs() <= 1e-6, "dec-curve:all-codes:prophoto:f32", || format!("code {} -> {:e}, curve {:e}", c, d32, want));
        out.maxi("dec-curve-err:prophoto16:f32", (d32 as f64 - want).abs());
    }

    // ---- 3. Rgb / Luma / Alpha forms, every standard
    let n = if thorough { 2000 } else { 160 };
    wrapper_floats!(out, rng, n, "Srgb", Srgb, Srgb, Srgb);
    wrapper_floats!(out, rng, n, "Rec709", Rec709, Rec709, RecOetf);
    wrapper_floats!(out, rng, n, "Rec2020", Rec2020, Rec2020, RecOetf);
    wrapper_floats!(out, rng, n, "AdobeRgb", AdobeRgb, AdobeRgb, AdobeRgb);
    wrapper_floats!(out, rng, n, "DciP3", DciP3, DciP3, P3Gamma);
    wrapper_floats!(out, rng, n, "DisplayP3", DisplayP3, DisplayP3, Srgb);
    wrapper_floats!(out, rng, n, "ProPhotoRgb", ProPhotoRgb, ProPhotoRgb, ProPhotoRgb);
    wrapper_floats!(out, rng, n, "DciP3Plus<P3Gamma>", DciP3Plus<P3Gamma>, DciP3Plus<P3Gamma>, P3Gamma);
    wrapper_floats!(out, rng, n, "DciP3Plus<Srgb>", DciP3Plus<Srgb>, DciP3Plus<Srgb>, Srgb);
    wrapper_floats!(out, rng, n, "DciP3Plus<RecOetf>", DciP3Plus<RecOetf>, DciP3Plus<RecOetf>, RecOetf);
    wrapper_floats!(out, rng, n, "Linear", Linear<Srgb>, Linear<D65>, LinearFn);
    wrapper_floats!(out, rng, n, "Gamma<F2p2>", Gamma<Srgb, F2p2>, Gamma<D65, F2p2>, GammaFn<F2p2>);
    wrapper_floats!(out, rng, n, "Gamma<N1p8>", Gamma<AdobeRgb, N1p8>, Gamma<D65, N1p8>, GammaFn<N1p8>);
    wrapper_u8!(out, rng, n, "Srgb", Srgb, Srgb, Srgb);
    wrapper_u8!(out, rng, n, "Rec709", Rec709, Rec709, RecOetf);
    wrapper_u8!(out, rng, n, "Rec2020", Rec2020, Rec2020, RecOetf);
    wrapper_u8!(out, rng, n, "AdobeRgb", AdobeRgb, AdobeRgb, AdobeRgb);
    wrapper_u8!(out, rng, n, "DciP3", DciP3, DciP3, P3Gamma);
    wrapper_u8!(out, rng, n, "DisplayP3", DisplayP3, DisplayP3, Srgb);
    wrapper_u8!(out, rng, n, "DciP3Plus<P3Gamma>", DciP3Plus<P3Gamma>, DciP3Plus<P3Gamma>, P3Gamma);
    wrapper_u8!(out, rng, n, "DciP3Plus<Srgb>", DciP3Plus<Srgb>, DciP3Plus<Srgb>, Srgb);
    wrapper_forms!(out, rng, n, "ProPhotoRgb", ProPhotoRgb, ProPhotoRgb, ProPhotoRgb, f32, u16, u16, f32);
    wrapper_forms!(out, rng, n, "ProPhotoRgb", ProPhotoRgb, ProPhotoRgb, ProPhotoRgb, f64, u16, u8, f64);
    // `LinearFn` is implemented for every component type (the identity)
    wrapper_forms!(out, rng, n, "Linear", Linear<Srgb>, Linear<D65>, LinearFn, u8, u8, u8, u8);
    wrapper_forms!(out, rng, n, "Linear", Linear<Srgb>, Linear<D65>, LinearFn, u16, u16, u8, u16);

    // ---- 4. From impls of src/rgb.rs
    srgb_from_impls!(out, rng, n, f32, f32);
    srgb_from_impls!(out, rng, n, f64, f64);
    srgb_from_impls!(out, rng, n, f32, u8);
    srgb_from_impls!(out, rng, n, f64, u8);

    // ---- 5. re-encoding arms of FromColorUnclamped (same primaries / same white point, different transfer function)
    reencode!(out, rng, n, "Srgb<-Rec709", Srgb, Srgb, Srgb, Rec709, Rec709, RecOetf, f32);
    reencode!(out, rng, n, "Srgb<-Rec709", Srgb, Srgb, Srgb, Rec709, Rec709, RecOetf, f64);
    reencode!(out, rng, n, "Rec709<-Srgb", Rec709, Rec709, RecOetf, Srgb, Srgb, Srgb, f32);
    reencode!(out, rng, n, "Rec709<-Srgb", Rec709, Rec709, RecOetf, Srgb, Srgb, Srgb, f64);
    reencode!(out, rng, n, "Linear<-Srgb", Linear<Srgb>, Linear<D65>, LinearFn, Srgb, Srgb, Srgb, f32);
    reencode!(out, rng, n, "Linear<-Srgb", Linear<Srgb>, Linear<D65>, LinearFn, Srgb, Srgb, Srgb, f64);
    reencode!(out, rng, n, "Srgb<-Linear", Srgb, Srgb, Srgb, Linear<Srgb>, Linear<D65>, LinearFn, f32);
    reencode!(out, rng, n, "Srgb<-Linear", Srgb, Srgb, Srgb, Linear<Srgb>, Linear<D65>, LinearFn, f64);
    reencode!(out, rng, n, "AdobeRgb<-Gamma<AdobeRgb>", AdobeRgb, AdobeRgb, AdobeRgb, Gamma<AdobeRgb, F2p2>, Gamma<D65, F2p2>, GammaFn<F2p2>, f32);
    reencode!(out, rng, n, "AdobeRgb<-Gamma<AdobeRgb>", AdobeRgb, AdobeRgb, AdobeRgb, Gamma<AdobeRgb, F2p2>, Gamma<D65, F2p2>, GammaFn<F2p2>, f64);

    // ---- 6. a gamma exponent of the user: the curve x^N / x^(1/N) (palette's GammaFn encodes with x^N, as `gamma22` in c05.rs), mutually inverse, monotone
    {
        let mut grid: Vec<f64> = (0..=n as u64 * 4).map(|i| i as f64 / (n * 4) as f64).collect();
        for _ in 0..n { let u = rng.unit(); grid.push(u * u * u); }
        grid.sort_by(|a, b| a.partial_cmp(b).unwrap());
        for into in [true, false] {
            let dirn = if into { "into" } else { "from" };
            let mut p: Option<(f64, f64, f32)> = None;
            for &x in &grid {
                let x32 = x as f32;
                let (y64, y32, back) = if into { (<GammaFn<N1p8> as IntoLinear<f64, f64>>::into_linear(x), <GammaFn<N1p8> as IntoLinear<f32, f32>>::into_linear(x32), <GammaFn<N1p8> as FromLinear<f64, f64>>::from_linear(<GammaFn<N1p8> as IntoLinear<f64, f64>>::into_linear(x))) }
                                       else { (<GammaFn<N1p8> as FromLinear<f64, f64>>::from_linear(x), <GammaFn<N1p8> as FromLinear<f32, f32>>::from_linear(x32), <GammaFn<N1p8> as IntoLinear<f64, f64>>::into_linear(<GammaFn<N1p8> as FromLinear<f64, f64>>::from_linear(x))) };
                let (want, want32) = if into { (x.powf(1.0 / 1.8), (x32 as f64).powf(1.0 / 1.8)) } else { (x.powf(1.8), (x32 as f64).powf(1.8)) };
                out.check((y64 - want).abs() <= 1e-12, &format!("curve-def:gamma-N1p8:{}:f64", dirn), || format!("{:e} -> {:e}, curve {:e}", x, y64, want));
                out.check((y32 as f64 - want32).abs() <= 4e-6 * want32.max(0.02), &format!("curve-def:gamma-N1p8:{}:f32", dirn), || format!("{:e} -> {:e}, curve {:e}", x32, y32, want32));
                out.check((back - x).abs() <= 1e-6, &format!("inverse:gamma-N1p8:{}:f64", dirn), || format!("{:e} -> {:e} -> {:e}", x, y64, back));
                if let Some((px, py, py32)) = p { if px < x { out.check(y64 >= py - 1e-6 && y32 as f64 >= py32 as f64 - 1e-6, &format!("monotone:gamma-N1p8:{}", dirn), || format!("{:e} -> {:e} / {:e} but {:e} -> {:e} / {:e}", px, py, py32, x, y64, y32)); } }
                p = Some((x, y64, y32));
            }
        }
        out.count("cls:more:user-gamma");
    }
}
