//! C09 — colour difference measures satisfy their defining formulas and metric laws.
//!
//! Calls the real palette API (`Ciede2000::difference`, `ImprovedCiede2000`, `DeltaE`, `ImprovedDeltaE`, `HyAb`,
//! `EuclideanDistance`, `Wcag21RelativeContrast`) for Lab/Lch/Luv/Oklab/Cam16UcsJab/Cam16UcsJmh/Rgb/Luma × f32/f64, writes
//! one protocol line per call for the Lean model, and evaluates the property's own clauses on the implementation:
//!   * CIEDE2000 = the Sharma–Wu–Dalal reference formula (`ref_de00`, an independent `f64` transcription of the paper's
//!     equations (2)–(22) written for this harness, *not* derived from palette's code), first on the paper's 34 published pairs;
//!   * ΔE / improved / HyAB / Euclidean = their closed forms, polar = rectangular;
//!   * every measure ≥ 0, symmetric, 0 on identical colours; WCAG symmetric, in [1, 21], predicates ⇔ ratio ≥ threshold.
use crate::common::*;
use palette::cam16::{Cam16UcsJab, Cam16UcsJmh};
use palette::color_difference::{Ciede2000, DeltaE, EuclideanDistance, HyAb, ImprovedCiede2000, ImprovedDeltaE, Wcag21RelativeContrast};
use palette::convert::FromColorUnclamped;
use palette::white_point::D65;
use palette::{Lab, Lch, LinLuma, LinSrgb, Luv, Oklab, Srgb, SrgbLuma, Xyz};

/// Table 1 of G. Sharma, W. Wu, E. N. Dalal, "The CIEDE2000 color-difference formula: implementation notes, supplementary test
/// data, and mathematical observations", Color Res. Appl. 30 (2005): (L1, a1, b1, L2, a2, b2, ΔE00 to four decimals).
/// Typed from the paper's table; cross-checked against /repo's `integration_tests/tests/convert/data_ciede_2000.csv` and against
/// `ref_de00` below (all 34 reproduce to 4 decimals) by `sharma_table_selfcheck`.
pub const SHARMA: [[f64; 7]; 34] = [
    [50.0000, 2.6772, -79.7751, 50.0000, 0.0000, -82.7485, 2.0425],
    [50.0000, 3.1571, -77.2803, 50.0000, 0.0000, -82.7485, 2.8615],
    [50.0000, 2.8361, -74.0200, 50.0000, 0.0000, -82.7485, 3.4412],
    [50.0000, -1.3802, -84.2814, 50.0000, 0.0000, -82.7485, 1.0000],
    [50.0000, -1.1848, -84.8006, 50.0000, 0.0000, -82.7485, 1.0000],
    [50.0000, -0.9009, -85.5211, 50.0000, 0.0000, -82.7485, 1.0000],
    [50.0000, 0.0000, 0.0000, 50.0000, -1.0000, 2.0000, 2.3669],
    [50.0000, -1.0000, 2.0000, 50.0000, 0.0000, 0.0000, 2.3669],
    [50.0000, 2.4900, -0.0010, 50.0000, -2.4900, 0.0009, 7.1792],
    [50.0000, 2.4900, -0.0010, 50.0000, -2.4900, 0.0010, 7.1792],
    [50.0000, 2.4900, -0.0010, 50.0000, -2.4900, 0.0011, 7.2195],
    [50.0000, 2.4900, -0.0010, 50.0000, -2.4900, 0.0012, 7.2195],
    [50.0000, -0.0010, 2.4900, 50.0000, 0.0009, -2.4900, 4.8045],
    [50.0000, -0.0010, 2.4900, 50.0000, 0.0010, -2.4900, 4.8045],
    [50.0000, -0.0010, 2.4900, 50.0000, 0.0011, -2.4900, 4.7461],
    [50.0000, 2.5000, 0.0000, 50.0000, 0.0000, -2.5000, 4.3065],
    [50.0000, 2.5000, 0.0000, 73.0000, 25.0000, -18.0000, 27.1492],
    [50.0000, 2.5000, 0.0000, 61.0000, -5.0000, 29.0000, 22.8977],
    [50.0000, 2.5000, 0.0000, 56.0000, -27.0000, -3.0000, 31.9030],
    [50.0000, 2.5000, 0.0000, 58.0000, 24.0000, 15.0000, 19.4535],
    [50.0000, 2.5000, 0.0000, 50.0000, 3.1736, 0.5854, 1.0000],
    [50.0000, 2.5000, 0.0000, 50.0000, 3.2972, 0.0000, 1.0000],
    [50.0000, 2.5000, 0.0000, 50.0000, 1.8634, 0.5757, 1.0000],
    [50.0000, 2.5000, 0.0000, 50.0000, 3.2592, 0.3350, 1.0000],
    [60.2574, -34.0099, 36.2677, 60.4626, -34.1751, 39.4387, 1.2644],
    [63.0109, -31.0961, -5.8663, 62.8187, -29.7946, -4.0864, 1.2630],
    [61.2901, 3.7196, -5.3901, 61.4292, 2.2480, -4.9620, 1.8731],
    [35.0831, -44.1164, 3.7933, 35.0232, -40.0716, 1.5901, 1.8645],
    [22.7233, 20.0904, -46.6940, 23.0331, 14.9730, -42.5619, 2.0373],
    [36.4612, 47.8580, 18.3852, 36.2715, 50.5065, 21.2231, 1.4146],
    [90.8027, -2.0831, 1.4410, 91.1528, -1.6435, 0.0447, 1.4441],
    [90.9257, -0.5406, -0.9208, 88.6381, -0.8985, -0.7239, 1.5381],
    [6.7747, -0.2908, -2.4247, 5.8714, -0.0985, -2.2286, 0.6377],
    [2.0776, 0.0795, -1.1350, 0.9033, -0.0636, -0.5514, 0.9082],
];

/// What the reference formula computes on the way, so the oracle can apply the property's own exclusion.
#[derive(Clone, Copy, Debug)]
pub struct RefOut {
    pub de: f64,
    /// the value with the *other* arm of eq. (14)'s `h1'+h2' < 360` test (differs from `de` by < 4e-4, only when |h1'−h2'| > 180)
    pub de_other_mean_arm: f64,
    pub h1p: f64, pub h2p: f64, pub c1p: f64, pub c2p: f64,
}

/// Sharma–Wu–Dalal 2005, equations (2)–(22), in `f64`, kL = kC = kH = 1.  Independent of palette's code:
/// plain `powf(7.0)`, `hypot`, degrees throughout, eq. (10)/(14) as four-way case tables on (h1', h2').
pub fn ref_de00(l1: f64, a1: f64, b1: f64, l2: f64, a2: f64, b2: f64) -> RefOut {
    let deg = |r: f64| r * 180.0 / std::f64::consts::PI;
    let rad = |d: f64| d * std::f64::consts::PI / 180.0;
    let p25_7 = 25.0f64.powf(7.0);
    // (2) (3) (4)
    let c1 = a1.hypot(b1);
    let c2 = a2.hypot(b2);
    let cb = (c1 + c2) / 2.0;
    let g = 0.5 * (1.0 - (cb.powf(7.0) / (cb.powf(7.0) + p25_7)).sqrt());
    // (5) (6)
    let a1p = (1.0 + g) * a1;
    let a2p = (1.0 + g) * a2;
    let c1p = a1p.hypot(b1);
    let c2p = a2p.hypot(b2);
    // (7): h' = 0 if b = a' = 0, else atan2(b, a') in degrees, in [0, 360)
    let hp = |b: f64, ap: f64| -> f64 {
        if b == 0.0 && ap == 0.0 { 0.0 } else { let h = deg(b.atan2(ap)); if h < 0.0 { h + 360.0 } else { h } }
    };
    let h1p = hp(b1, a1p);
    let h2p = hp(b2, a2p);
    // (8) (9) (10) (11)
    let dl = l2 - l1;
    let dc = c2p - c1p;
    let dh = if c1p * c2p == 0.0 { 0.0 }
        else if (h2p - h1p).abs() <= 180.0 { h2p - h1p }
        else if h2p - h1p > 180.0 { h2p - h1p - 360.0 }
        else { h2p - h1p + 360.0 };
    let dbh = 2.0 * (c1p * c2p).sqrt() * rad(dh / 2.0).sin();
    // (12) (13)
    let lb = (l1 + l2) / 2.0;
    let cbp = (c1p + c2p) / 2.0;
    // (14)
    let wrap = c1p * c2p != 0.0 && (h1p - h2p).abs() > 180.0;
    let hb_of = |lt360: bool| -> f64 {
        if c1p * c2p == 0.0 { h1p + h2p }
        else if (h1p - h2p).abs() <= 180.0 { (h1p + h2p) / 2.0 }
        else if lt360 { (h1p + h2p + 360.0) / 2.0 }
        else { (h1p + h2p - 360.0) / 2.0 }
    };
    let finish = |hb: f64| -> f64 {
        // (15)
        let t = 1.0 - 0.17 * rad(hb - 30.0).cos() + 0.24 * rad(2.0 * hb).cos() + 0.32 * rad(3.0 * hb + 6.0).cos() - 0.20 * rad(4.0 * hb - 63.0).cos();
        // (16) (17)
        let dth = 30.0 * (-((hb - 275.0) / 25.0).powi(2)).exp();
        let rc = 2.0 * (cbp.powf(7.0) / (cbp.powf(7.0) + p25_7)).sqrt();
        // (18) (19) (20) (21)
        let sl = 1.0 + 0.015 * (lb - 50.0).powi(2) / (20.0 + (lb - 50.0).powi(2)).sqrt();
        let sc = 1.0 + 0.045 * cbp;
        let sh = 1.0 + 0.015 * cbp * t;
        let rt = -rad(2.0 * dth).sin() * rc;
        // (22)
        ((dl / sl).powi(2) + (dc / sc).powi(2) + (dbh / sh).powi(2) + rt * (dc / sc) * (dbh / sh)).sqrt()
    };
    let lt360 = h1p + h2p < 360.0;
    let de = finish(hb_of(lt360));
    let de_other = if wrap { finish(hb_of(!lt360)) } else { de };
    RefOut { de, de_other_mean_arm: de_other, h1p, h2p, c1p, c2p }
}

/// The float types under test, with the oracle's rounding allowances.
pub trait Tf: Fl {
    /// rounding slack of a CIEDE2000-sized computation on components of magnitude ≤ 128 (DESIGN §2.2(c): 2⁻²⁰ / 2⁻⁴⁰ of the
    /// component scale per edge, 8 edges)
    fn de_tol() -> f64;
    /// "within rounding of exactly 180°": hue angles come out of `atan2` + `to_degrees` + `+360` + one subtraction, each good to about
    /// an ulp of 360° (3e-5° in f32, 6e-14° in f64); a few dozen ulps of 360°
    fn tol180() -> f64;
    /// same width, for the (property-unnamed) second place where the reference formula itself jumps: eq. (14)'s `h1'+h2' < 360` test
    fn tol360() -> f64;
}
impl Tf for f32 { fn de_tol() -> f64 { 1e-3 } fn tol180() -> f64 { 1e-3 } fn tol360() -> f64 { 2e-3 } }
impl Tf for f64 { fn de_tol() -> f64 { 1e-9 } fn tol180() -> f64 { 1e-10 } fn tol360() -> f64 { 2e-10 } }

fn ok_num(x: f64) -> bool { x.is_finite() }
/// |a − b| ≤ k·eps_T·max(|b|, floor): "equal up to rounding" for sums of non-negative terms / single libm calls
fn close_rel<T: Fl>(a: f64, b: f64, k: f64, floor: f64) -> bool { a.is_finite() && (a - b).abs() <= k * T::eps() * b.abs().max(floor) }

macro_rules! lab { ($t:ty, $v:expr) => { Lab::<D65, $t>::new($v[0], $v[1], $v[2]) } }

/// one Lab pair through every Lab/Lch measure
macro_rules! lab_pair { ($out:expr, $t:ty, $p:expr, $q:expr, $cls:expr, $published:expr) => {{
    type T = $t;
    let out: &mut Out = $out;
    let (p, q): ([T; 3], [T; 3]) = ($p, $q);
    let tag = T::TAG;
    out.count(&format!("cls:{}", $cls));
    let (c1, c2) = (lab!(T, p), lab!(T, q));
    let d12 = c1.difference(c2); let d21 = c2.difference(c1);
    let i12 = c1.improved_difference(c2);
    out.case(&format!("de00 lab | {} {} | {} {}", hx_list(&p), hx_list(&q), d12.hx(), i12.hx()));
    // ---- the property's clauses on the implementation
    let r = ref_de00(p[0].to64(), p[1].to64(), p[2].to64(), q[0].to64(), q[1].to64(), q[2].to64());
    let hd = (r.h2p - r.h1p).abs();
    let chromatic = r.c1p * r.c2p != 0.0;
    let near180 = chromatic && (hd - 180.0).abs() <= T::tol180();
    let near360 = chromatic && hd > 180.0 && (r.h1p + r.h2p - 360.0).abs() <= T::tol360();
    if chromatic && hd > 180.0 { out.count(if r.h1p + r.h2p < 360.0 { "cls:wrap-sum<360" } else { "cls:wrap-sum>=360" }); }
    if !chromatic { out.count("cls:zero-chroma-pair"); }
    if near180 { out.count("cls:excluded-near-180"); } else {
        let err = (d12.to64() - r.de).abs();
        let err = if near360 { out.count("cls:sum-within-rounding-of-360"); err.min((d12.to64() - r.de_other_mean_arm).abs()) } else { err };
        out.maxi(&format!("ciede2000-vs-reference:{}", tag), err);
        out.check(ok_num(d12.to64()) && err <= T::de_tol(), &format!("ciede2000-equals-reference:lab:{}", tag),
            || format!("Lab{:?} vs Lab{:?}: difference() = {:?}, Sharma reference = {:.12} (h1'={:.9} h2'={:.9} sum={:.9}), |err| = {:.3e}", p, q, d12, r.de, r.h1p, r.h2p, r.h1p + r.h2p, err));
        if let Some(pubv) = $published {
            // published to four decimals: the true value is within 5e-5; the suite's own epsilon is 1e-4
            let tol = if T::TAG == "f64" { 1.0e-4 } else { 1.0e-4 + T::de_tol() };
            out.check((d12.to64() - pubv).abs() <= tol, &format!("ciede2000-sharma-published:{}", tag), || format!("Lab{:?} vs Lab{:?}: {:?}, published {}", p, q, d12, pubv));
        }
    }
    out.check(d12.to64() >= 0.0 && d21.to64() >= 0.0, &format!("ciede2000-nonneg:{}", tag), || format!("Lab{:?} vs Lab{:?}: {:?} / {:?}", p, q, d12, d21));
    // symmetric at ℝ for *every* pair (theorem `ciede2000_symm`); in floats each intermediate is exactly (anti)symmetric up to the
    // last rounding, so only a few ulps are granted — except across the formula's own jump, which the property excludes
    let asym = (d12.to64() - d21.to64()).abs();
    out.maxi(&format!("ciede2000-asymmetry:{}", tag), asym);
    if !near180 { out.check(asym <= 8.0 * T::eps() * d12.to64().abs().max(1.0), &format!("ciede2000-symmetric:lab:{}", tag), || format!("Lab{:?} vs Lab{:?}: d12 {:?} d21 {:?}", p, q, d12, d21)); }
    let d11 = c1.difference(c1);
    out.check(d11.to64().abs() <= T::eps(), &format!("ciede2000-identity:{}", tag), || format!("Lab{:?} with itself: {:?}", p, d11));
    let i_ref = 1.43 * d12.to64().powf(0.7);
    out.check(close_rel::<T>(i12.to64(), i_ref, 16.0, 1e-30) && i12.to64() >= 0.0, &format!("improved-ciede2000-closed-form:{}", tag), || format!("Lab{:?} vs Lab{:?}: improved {:?}, 1.43·d^0.7 = {}", p, q, i12, i_ref));
    out.check((i12.to64() - c2.improved_difference(c1).to64()).abs() <= 16.0 * T::eps() * i_ref.max(1.0) || near180, &format!("improved-ciede2000-symmetric:{}", tag), || format!("Lab{:?} vs Lab{:?}", p, q));
    // ---- the polar route: Lch built by palette's own conversion; Ciede2000 for Lch reuses the chroma
    let (l1, l2) = (Lch::<D65, T>::from_color_unclamped(c1), Lch::<D65, T>::from_color_unclamped(c2));
    let dl12 = l1.difference(l2);
    let (h1, h2): (T, T) = (l1.hue.into_inner(), l2.hue.into_inner());
    out.case(&format!("de00 lch | {} {} {} {} {} {} | {} {}", l1.l.hx(), l1.chroma.hx(), h1.hx(), l2.l.hx(), l2.chroma.hx(), h2.hx(), dl12.hx(), l1.improved_difference(l2).hx()));
    if !near180 && !near360 {
        // same colours, same formula: the two routes differ by the rounding of Lab→Lch→Lab only (hue good to an ulp of 360°, times the chroma)
        let err = (dl12.to64() - r.de).abs();
        out.maxi(&format!("ciede2000-lch-vs-reference:{}", tag), err);
        out.check(ok_num(dl12.to64()) && err <= 4.0 * T::de_tol(), &format!("ciede2000-polar-equals-rectangular:{}", tag), || format!("Lab{:?} vs Lab{:?}: via Lch {:?}, via Lab {:?}, reference {:.12}", p, q, dl12, d12, r.de));
    }
    out.check(dl12.to64() >= 0.0, &format!("ciede2000-nonneg:lch:{}", tag), || format!("Lch of Lab{:?} vs Lab{:?}: {:?}", p, q, dl12));
    out.check(l1.difference(l1).to64().abs() <= T::eps(), &format!("ciede2000-identity:lch:{}", tag), || format!("Lch of Lab{:?}", p));
    let dl21 = l2.difference(l1);
    if !near180 { out.check((dl12.to64() - dl21.to64()).abs() <= 8.0 * T::eps() * dl12.to64().abs().max(1.0), &format!("ciede2000-symmetric:lch:{}", tag), || format!("Lch of Lab{:?} vs Lab{:?}: {:?} / {:?}", p, q, dl12, dl21)); }
}} }

/// Euclidean distance / ΔE / improved ΔE / HyAB of one rectangular pair
macro_rules! rect_pair {
    (@hyab no, $($r:tt)*) => {};
    (@hyab yes, $out:ident, $T:ident, $tag:ident, $c1:ident, $c2:ident, $p:ident, $q:ident, $pf:ident, $qf:ident, $name:expr) => {{
        let h = $c1.hybrid_distance($c2);
        $out.case(&format!("hyab {} | {} {} | {}", $name, hx_list(&$p), hx_list(&$q), h.hx()));
        let h_ref = ($pf[0] - $qf[0]).abs() + (($pf[1] - $qf[1]).powi(2) + ($pf[2] - $qf[2]).powi(2)).sqrt();
        $out.check(close_rel::<$T>(h.to64(), h_ref, 8.0, 1e-150) && h.to64() >= 0.0, &format!("hyab-closed-form:{}", $tag), || format!("{:?} vs {:?}: hybrid_distance {:?}, |ΔL| + sqrt(Δa² + Δb²) = {}", $p, $q, h, h_ref));
        $out.check($c2.hybrid_distance($c1).to64() == h.to64(), &format!("hyab-symmetric:{}", $tag), || format!("{:?} vs {:?}", $p, $q));
        $out.check($c1.hybrid_distance($c1).to64() == 0.0, &format!("hyab-identity:{}", $tag), || format!("{:?}", $p));
    }};
    (@deltae no, $($r:tt)*) => {};
    (@deltae ($k:expr, $e:expr), $out:ident, $T:ident, $tag:ident, $c1:ident, $c2:ident, $p:ident, $q:ident, $dsq_ref:ident, $name:expr) => {{
        let de = $c1.delta_e($c2); let ide = $c1.improved_delta_e($c2);
        $out.case(&format!("deltae {} | {} {} | {} {}", $name, hx_list(&$p), hx_list(&$q), de.hx(), ide.hx()));
        let de_ref = $dsq_ref.sqrt();
        $out.check(close_rel::<$T>(de.to64(), de_ref, 8.0, 1e-150) && de.to64() >= 0.0, &format!("delta-e-closed-form:{}", $tag), || format!("{:?} vs {:?}: delta_e {:?}, Euclidean {}", $p, $q, de, de_ref));
        // Huang et al.: ΔE' = k·ΔE^e
        let ide_ref = $k * de_ref.powf($e);
        $out.check(close_rel::<$T>(ide.to64(), ide_ref, 32.0, 1e-150) && ide.to64() >= 0.0, &format!("improved-delta-e-closed-form:{}", $tag), || format!("{:?} vs {:?}: improved_delta_e {:?}, {}·ΔE^{} = {}", $p, $q, ide, $k, $e, ide_ref));
        $out.check($c2.delta_e($c1).to64() == de.to64() && $c2.improved_delta_e($c1).to64() == ide.to64(), &format!("delta-e-symmetric:{}", $tag), || format!("{:?} vs {:?}", $p, $q));
        $out.check($c1.delta_e($c1).to64() == 0.0 && $c1.improved_delta_e($c1).to64() == 0.0, &format!("delta-e-identity:{}", $tag), || format!("{:?}", $p));
    }};
    ($out:expr, $t:ty, $ty:ty, $name:expr, $mk:expr, $p:expr, $q:expr, hyab: $hy:tt, deltae: $de:tt) => {{
    type T = $t;
    let out: &mut Out = $out;
    let (p, q): ([T; 3], [T; 3]) = ($p, $q);
    let tag = format!("{}:{}", $name, T::TAG);
    let mk = $mk;
    let (c1, c2): ($ty, $ty) = (mk(p), mk(q));
    let dsq = c1.distance_squared(c2); let d = c1.distance(c2);
    out.case(&format!("dist {} | {} {} | {} {}", $name, hx_list(&p), hx_list(&q), dsq.hx(), d.hx()));
    let (pf, qf): (Vec<f64>, Vec<f64>) = (p.iter().map(|x| x.to64()).collect(), q.iter().map(|x| x.to64()).collect());
    // closed form in f64 of the *T-rounded* differences is not needed: each (x−y) is rounded once, squares and sums of non-negative
    // terms keep the relative error at a few eps
    let dsq_ref: f64 = (0..3).map(|i| (pf[i] - qf[i]) * (pf[i] - qf[i])).sum();
    out.check(close_rel::<T>(dsq.to64(), dsq_ref, 8.0, 1e-300) && dsq.to64() >= 0.0, &format!("euclidean-closed-form:{}", tag), || format!("{:?} vs {:?}: distance_squared {:?}, Σ(Δ²) = {}", p, q, dsq, dsq_ref));
    out.check(close_rel::<T>(d.to64(), dsq_ref.sqrt(), 8.0, 1e-150) && d.to64() >= 0.0, &format!("euclidean-closed-form:{}", tag), || format!("{:?} vs {:?}: distance {:?}, sqrt Σ(Δ²) = {}", p, q, d, dsq_ref.sqrt()));
    out.check(c2.distance(c1).to64() == d.to64() && c2.distance_squared(c1).to64() == dsq.to64(), &format!("euclidean-symmetric:{}", tag), || format!("{:?} vs {:?}: {:?} / {:?}", p, q, d, c2.distance(c1)));
    out.check(c1.distance(c1).to64() == 0.0 && c1.distance_squared(c1).to64() == 0.0, &format!("euclidean-identity:{}", tag), || format!("{:?}", p));
    rect_pair!(@hyab $hy, out, T, tag, c1, c2, p, q, pf, qf, $name);
    rect_pair!(@deltae $de, out, T, tag, c1, c2, p, q, dsq_ref, $name);
}};
}

/// ΔE / improved ΔE of one polar pair (Lch, Cam16UcsJmh): equals the rectangular version of the converted colours, and the polar closed form
macro_rules! polar_pair { ($out:expr, $t:ty, $name:expr, $polar:ty, $rect:ty, $mk:expr, $arr:expr, $p:expr, $q:expr, $k:expr, $e:expr) => {{
    type T = $t;
    let out: &mut Out = $out;
    let (p, q): ([T; 3], [T; 3]) = ($p, $q);   // (lightness, chroma, hue°)
    let tag = format!("{}:{}", $name, T::TAG);
    let mk = $mk; let arr = $arr;
    let (c1, c2): ($polar, $polar) = (mk(p), mk(q));
    let de = c1.delta_e(c2); let ide = c1.improved_delta_e(c2);
    out.case(&format!("deltae {} | {} {} | {} {}", $name, hx_list(&p), hx_list(&q), de.hx(), ide.hx()));
    let (r1, r2) = (<$rect>::from_color_unclamped(c1), <$rect>::from_color_unclamped(c2));
    let (ra1, ra2): ([T; 3], [T; 3]) = (arr(r1), arr(r2));
    out.case(&format!("polar2rect {} | {} | {}", $name, hx_list(&p), hx_list(&ra1)));
    out.case(&format!("polar2rect {} | {} | {}", $name, hx_list(&q), hx_list(&ra2)));
    let (de_r, ide_r) = (r1.delta_e(r2), r1.improved_delta_e(r2));
    // "the polar versions equal the rectangular ones": same value as the rectangular measure of the converted colours …
    out.check(de.to64() == de_r.to64() && ide.to64() == ide_r.to64(), &format!("polar-equals-rectangular:{}", tag), || format!("{:?} vs {:?}: polar {:?}/{:?}, rectangular {:?}/{:?}", p, q, de, ide, de_r, ide_r));
    // … and, for chroma ≥ 0, the polar closed form ΔE² = ΔL² + ΔC² + 4·C₁C₂·sin²(Δh/2) (theorem `deltaE_polar_closed_form`).
    // Cancellation happens at the scale of the chromas, so the slack is in ulps of max(C₁, C₂, |ΔL|).
    if p[1].to64() >= 0.0 && q[1].to64() >= 0.0 {
        let (pl, pc, ph, ql, qc, qh) = (p[0].to64(), p[1].to64(), p[2].to64(), q[0].to64(), q[1].to64(), q[2].to64());
        let s = ((qh - ph) / 2.0).to_radians().sin();
        let de_ref = ((pl - ql).powi(2) + (pc - qc).powi(2) + 4.0 * pc * qc * s * s).sqrt();
        let scale = pc.max(qc).max((pl - ql).abs()).max(1e-300);
        // the hue in radians is rounded to T before sin/cos: error ≤ eps·|h_rad|·chroma
        let slack = (16.0 + 2.0 * ph.abs().max(qh.abs()).to_radians()) * T::eps() * scale;
        out.maxi(&format!("polar-closed-form-err/scale:{}", tag), (de.to64() - de_ref).abs() / scale);
        // sqrt near zero amplifies: compare squares when the distance is tiny against the scale
        let ok = if de_ref > 1e-3 * scale { (de.to64() - de_ref).abs() <= slack * (scale / de_ref).max(1.0) } else { (de.to64() * de.to64() - de_ref * de_ref).abs() <= 4.0 * slack * scale };
        out.check(ok && de.to64() >= 0.0, &format!("polar-closed-form:{}", tag), || format!("{:?} vs {:?}: delta_e {:?}, polar closed form {}", p, q, de, de_ref));
        let ide_ref = $k * de.to64().powf($e);
        out.check(close_rel::<T>(ide.to64(), ide_ref, 32.0, 1e-150), &format!("improved-delta-e-closed-form:{}", tag), || format!("{:?} vs {:?}: improved {:?}, {}·ΔE^{} = {}", p, q, ide, $k, $e, ide_ref));
    }
    out.check(de.to64() >= 0.0 && ide.to64() >= 0.0, &format!("delta-e-nonneg:{}", tag), || format!("{:?} vs {:?}: {:?}", p, q, de));
    out.check(c2.delta_e(c1).to64() == de.to64() && c2.improved_delta_e(c1).to64() == ide.to64(), &format!("delta-e-symmetric:{}", tag), || format!("{:?} vs {:?}", p, q));
    out.check(c1.delta_e(c1).to64() == 0.0 && c1.improved_delta_e(c1).to64() == 0.0, &format!("delta-e-identity:{}", tag), || format!("{:?}", p));
}} }

/// WCAG 2.1 relative contrast of one pair of colours of a type that implements the trait
macro_rules! wcag_pair { ($out:expr, $t:ty, $name:expr, $c1:expr, $c2:expr, $in_gamut:expr) => {{
    type T = $t;
    let out: &mut Out = $out;
    let tag = format!("{}:{}", $name, T::TAG);
    let (c1, c2) = ($c1, $c2);
    let (y1, y2): (T, T) = (c1.relative_luminance().luma, c2.relative_luminance().luma);
    let r = c1.relative_contrast(c2); let r21 = c2.relative_contrast(c1);
    let preds = [c1.has_min_contrast_text(c2), c1.has_min_contrast_large_text(c2), c1.has_enhanced_contrast_text(c2), c1.has_enhanced_contrast_large_text(c2), c1.has_min_contrast_graphics(c2)];
    out.case(&format!("wcag {} | {} {} | {} {}", $name, y1.hx(), y2.hx(), r.hx(), preds.iter().map(|b| if *b { "1" } else { "0" }).collect::<Vec<_>>().join(" ")));
    out.check(r.to64() == r21.to64(), &format!("wcag-symmetric:{}", tag), || format!("{:?} vs {:?}: {:?} / {:?}", c1, c2, r, r21));
    if $in_gamut {
        out.check(y1.to64() >= 0.0 && y1.to64() <= 1.0 && y2.to64() >= 0.0 && y2.to64() <= 1.0, &format!("wcag-luminance-in-unit-range:{}", tag), || format!("{:?} / {:?}: luminances {:?} {:?}", c1, c2, y1, y2));
        // 21 = 1.05/0.05 is not exactly representable: one rounding of the quotient is granted at the top end
        out.check(r.to64() >= 1.0 && r.to64() <= 21.0 * (1.0 + 2.0 * T::eps()), &format!("wcag-in-1-21:{}", tag), || format!("{:?} vs {:?}: {:?}", c1, c2, r));
        out.maxi(&format!("wcag-max-ratio:{}", tag), r.to64());
    }
    // closed form on the observed luminances
    let (lo, hi) = if y1.to64() > y2.to64() { (y2.to64(), y1.to64()) } else { (y1.to64(), y2.to64()) };
    out.check(close_rel::<T>(r.to64(), (0.05 + hi) / (0.05 + lo), 4.0, 1e-300), &format!("wcag-closed-form:{}", tag), || format!("{:?} vs {:?}: {:?}, (0.05+{})/(0.05+{})", c1, c2, r, hi, lo));
    let want = [r.to64() >= 4.5, r.to64() >= 3.0, r.to64() >= 7.0, r.to64() >= 4.5, r.to64() >= 3.0];
    out.check(preds == want, &format!("wcag-predicates-agree-with-ratio:{}", tag), || format!("{:?} vs {:?}: ratio {:?}, predicates {:?}, ratio ≥ [4.5, 3, 7, 4.5, 3] = {:?}", c1, c2, r, preds, want));
    out.check(c1.relative_contrast(c1).to64() == 1.0, &format!("wcag-identity:{}", tag), || format!("{:?}", c1));
    for (i, b) in preds.iter().enumerate() { out.count(&format!("cls:wcag-pred{}-{}", i, b)); }
}} }

/// Lab colours that sit on the case boundaries of eq. (7), (10) and (14)
fn structured_lab(rng: &mut Rng, thorough: bool) -> Vec<[f64; 3]> {
    let mut v: Vec<[f64; 3]> = vec![];
    let ls = [0.0, 50.0, 100.0, 37.25];
    let cs: &[f64] = if thorough { &[0.0, 1e-7, 0.5, 2.5, 25.0, 60.0, 127.0] } else { &[0.0, 1e-7, 2.5, 25.0, 100.0] };
    let mut hs: Vec<f64> = vec![0.0, 1e-9, 0.01, 1.0, 45.0, 89.99, 90.0, 135.0, 179.0, 179.99, 180.0, 180.01, 181.0, 225.0, 270.0, 275.0, 315.0, 359.0, 359.99, 359.999999];
    if thorough { for k in 0..24 { hs.push(15.0 * k as f64 + 7.5); } }
    for (i, &l) in ls.iter().enumerate() { for &c in cs { for &h in &hs {
        // the lightness only enters through S_L and ΔL': thin it out
        if i >= 2 && !(c == 25.0) { continue; }
        let (s, co) = h.to_radians().sin_cos();
        v.push([l, c * co, c * s]);
    } } }
    // exact axes, signed zeros, exact mirror images about the a-axis (h1' + h2' = 360 in exact arithmetic) and exact opposites (Δh' = 180)
    for &m in &[2.5, 30.0, 100.0] {
        v.extend([[50.0, m, 0.0], [50.0, m, -0.0], [50.0, -m, 0.0], [50.0, -m, -0.0], [50.0, 0.0, m], [50.0, 0.0, -m], [50.0, -0.0, m],
                  [50.0, m, 1e-12], [50.0, m, -1e-12], [50.0, m, m], [50.0, m, -m], [50.0, -m, m], [50.0, -m, -m], [60.0, 0.3 * m, m], [60.0, 0.3 * m, -m], [40.0, -0.3 * m, -m]]);
    }
    v.extend([[50.0, 0.0, 0.0], [50.0, -0.0, 0.0], [50.0, 0.0, -0.0], [0.0, 0.0, 0.0], [100.0, 0.0, 0.0], [73.0, 0.0, 0.0]]);
    for _ in 0..(if thorough { 40 } else { 12 }) { v.push([rng.range(0.0, 100.0), rng.range(-128.0, 127.0), rng.range(-128.0, 127.0)]); }
    v
}

fn rand_lab(rng: &mut Rng) -> [f64; 3] { [rng.edgy(0.0, 100.0), rng.edgy(-128.0, 127.0), rng.edgy(-128.0, 127.0)] }
fn polar_lab(l: f64, c: f64, h: f64) -> [f64; 3] { let (s, co) = h.to_radians().sin_cos(); [l, c * co, c * s] }

macro_rules! run_t { ($out:expr, $rng:expr, $t:ty, $thorough:expr) => {{
    type T = $t;
    let (out, rng, thorough): (&mut Out, &mut Rng, bool) = ($out, $rng, $thorough);
    let cv = |v: [f64; 3]| -> [T; 3] { [v[0] as T, v[1] as T, v[2] as T] };
    let n = if thorough { 50 } else { 1 };

    // ---- 1. corpus first: the 34 published pairs, both orders
    for row in SHARMA.iter() {
        let (p, q) = (cv([row[0], row[1], row[2]]), cv([row[3], row[4], row[5]]));
        lab_pair!(out, $t, p, q, "sharma-pair", Some(row[6]));
        lab_pair!(out, $t, q, p, "sharma-pair", Some(row[6]));
    }
    // ---- 2. structured pairs: every boundary colour against every other
    let st = structured_lab(rng, thorough);
    for a in &st { for b in &st { lab_pair!(out, $t, cv(*a), cv(*b), "structured-pair", None::<f64>); } }
    // ---- 3. random pairs, and random pairs aimed at the case splits on (h1', h2')
    for _ in 0..4000 * n { lab_pair!(out, $t, cv(rand_lab(rng)), cv(rand_lab(rng)), "random-pair", None::<f64>); }
    for _ in 0..4000 * n {
        // hues on either side of 0/360 (|Δh'| > 180): both arms of eq. (14)'s sum test, large chroma and lightness differences
        let (h1, h2) = (rng.range(0.0, 179.0), rng.range(181.0, 360.0));
        let (p, q) = (polar_lab(rng.range(0.0, 100.0), rng.range(0.0, 128.0), h1), polar_lab(rng.range(0.0, 100.0), rng.range(0.0, 128.0), h2));
        lab_pair!(out, $t, cv(p), cv(q), "random-straddling-0/360", None::<f64>);
    }
    for _ in 0..2000 * n {
        // hue differences close to (not within rounding of) 180°, on both sides
        let h1 = rng.range(0.0, 360.0); let d = 180.0 + *rng.pick(&[-1.0, 1.0]) * 10f64.powf(rng.range(-6.0, 0.5));
        let (p, q) = (polar_lab(rng.range(0.0, 100.0), rng.range(0.01, 128.0), h1), polar_lab(rng.range(0.0, 100.0), rng.range(0.01, 128.0), h1 + d));
        lab_pair!(out, $t, cv(p), cv(q), "random-near-180", None::<f64>);
    }
    for _ in 0..2000 * n {
        // near-identical colours and near-achromatic colours
        let p = rand_lab(rng); let e = 10f64.powf(rng.range(-7.0, 0.0));
        let q = [p[0] + e * rng.range(-1.0, 1.0), p[1] + e * rng.range(-1.0, 1.0), p[2] + e * rng.range(-1.0, 1.0)];
        lab_pair!(out, $t, cv(p), cv(q), "random-near-identical", None::<f64>);
        let g = [rng.range(0.0, 100.0), e * rng.range(-1.0, 1.0), e * rng.range(-1.0, 1.0)];
        lab_pair!(out, $t, cv(g), cv(if rng.chance(0.5) { [rng.range(0.0, 100.0), 0.0, 0.0] } else { rand_lab(rng) }), "random-near-achromatic", None::<f64>);
    }
    if thorough {
        // dense hue × hue grid at three chroma combinations
        for &(ca, cb, la, lb) in &[(40.0, 40.0, 50.0, 50.0), (10.0, 110.0, 30.0, 80.0), (90.0, 3.0, 60.0, 55.0)] {
            for i in 0..180 { for j in 0..180 { lab_pair!(out, $t, cv(polar_lab(la, ca, 2.0 * i as f64 + 0.37)), cv(polar_lab(lb, cb, 2.0 * j as f64 + 1.11)), "hue-grid", None::<f64>); } }
        }
    }

    // ---- 4. rectangular spaces: Euclidean / ΔE / improved ΔE / HyAB
    let boxes: [(&str, [f64; 3], [f64; 3]); 6] = [("Lab", [0.0, -128.0, -128.0], [100.0, 127.0, 127.0]), ("Luv", [0.0, -84.0, -135.0], [100.0, 176.0, 108.0]),
        ("Oklab", [0.0, -0.4, -0.4], [1.0, 0.4, 0.4]), ("Jab", [0.0, -50.0, -50.0], [100.0, 50.0, 50.0]), ("Rgb", [0.0, 0.0, 0.0], [1.0, 1.0, 1.0]), ("Xyz", [0.0, 0.0, 0.0], [0.95, 1.0, 1.09])];
    for (name, lo, hi) in boxes.iter() {
        let mut pts: Vec<[f64; 3]> = vec![*lo, *hi, [lo[0], 0.0, 0.0], [hi[0], 0.0, 0.0], [(lo[0] + hi[0]) / 2.0, hi[1], lo[2]], [(lo[0] + hi[0]) / 2.0, 0.0, -0.0]];
        for _ in 0..6 { pts.push([rng.range(lo[0], hi[0]), rng.range(lo[1], hi[1]), rng.range(lo[2], hi[2])]); }
        let mut pairs: Vec<([f64; 3], [f64; 3])> = vec![];
        for a in &pts { for b in &pts { pairs.push((*a, *b)); } }
        for _ in 0..1500 * n {
            let p = [rng.edgy(lo[0], hi[0]), rng.edgy(lo[1], hi[1]), rng.edgy(lo[2], hi[2])];
            let q = if rng.chance(0.2) { let e = 10f64.powf(rng.range(-7.0, -1.0)) * (hi[0] - lo[0]); [p[0] + e * rng.range(-1.0, 1.0), p[1] + e * rng.range(-1.0, 1.0), p[2] + e * rng.range(-1.0, 1.0)] }
                    else { [rng.edgy(lo[0], hi[0]), rng.edgy(lo[1], hi[1]), rng.edgy(lo[2], hi[2])] };
            pairs.push((p, q));
        }
        for (p, q) in pairs {
            let (p, q) = (cv(p), cv(q));
            out.count(&format!("cls:rect-{}", name));
            match *name {
                "Lab" => rect_pair!(out, $t, Lab<D65, T>, "Lab", |v: [T; 3]| Lab::<D65, T>::new(v[0], v[1], v[2]), p, q, hyab: yes, deltae: (1.26, 0.55)),
                "Luv" => rect_pair!(out, $t, Luv<D65, T>, "Luv", |v: [T; 3]| Luv::<D65, T>::new(v[0], v[1], v[2]), p, q, hyab: yes, deltae: no),
                "Oklab" => rect_pair!(out, $t, Oklab<T>, "Oklab", |v: [T; 3]| Oklab::<T>::new(v[0], v[1], v[2]), p, q, hyab: yes, deltae: no),
                "Jab" => rect_pair!(out, $t, Cam16UcsJab<T>, "Jab", |v: [T; 3]| Cam16UcsJab::<T>::new(v[0], v[1], v[2]), p, q, hyab: yes, deltae: (1.41, 0.63)),
                "Rgb" => { rect_pair!(out, $t, Srgb<T>, "Rgb", |v: [T; 3]| Srgb::<T>::new(v[0], v[1], v[2]), p, q, hyab: no, deltae: no);
                           rect_pair!(out, $t, LinSrgb<T>, "LinRgb", |v: [T; 3]| LinSrgb::<T>::new(v[0], v[1], v[2]), p, q, hyab: no, deltae: no); }
                _ => rect_pair!(out, $t, Xyz<D65, T>, "Xyz", |v: [T; 3]| Xyz::<D65, T>::new(v[0], v[1], v[2]), p, q, hyab: no, deltae: no),
            }
        }
    }
    // Luma: one component
    for k in 0..(600 * n + 9) {
        let (x, y) = if k < 9 { ([0.0, 0.5, 1.0][k / 3], [0.0, 0.5, 1.0][k % 3]) } else { (rng.edgy(0.0, 1.0), rng.edgy(0.0, 1.0)) };
        let (x, y) = (x as T, y as T);
        let (c1, c2) = (SrgbLuma::<T>::new(x), SrgbLuma::<T>::new(y));
        let (dsq, d) = (c1.distance_squared(c2), c1.distance(c2));
        out.case(&format!("dist1 Luma | {} {} | {} {}", x.hx(), y.hx(), dsq.hx(), d.hx()));
        out.count("cls:rect-Luma");
        let r = (x.to64() - y.to64()) * (x.to64() - y.to64());
        out.check(close_rel::<T>(dsq.to64(), r, 8.0, 1e-300) && close_rel::<T>(d.to64(), r.sqrt(), 8.0, 1e-150) && d.to64() >= 0.0, &format!("euclidean-closed-form:Luma:{}", T::TAG), || format!("{:?} vs {:?}: {:?} {:?}", x, y, dsq, d));
        out.check(c2.distance(c1).to64() == d.to64(), &format!("euclidean-symmetric:Luma:{}", T::TAG), || format!("{:?} vs {:?}", x, y));
        out.check(c1.distance(c1).to64() == 0.0, &format!("euclidean-identity:Luma:{}", T::TAG), || format!("{:?}", x));
    }

    // ---- 5. polar spaces: Lch and CAM16-UCS Jmh
    let mut polars: Vec<([f64; 3], [f64; 3])> = vec![];
    let hs = [0.0, 1e-6, 90.0, 179.999, 180.0, 270.0, 359.999, 360.0, -90.0, 450.0, 720.0];
    let cs = [0.0, 1e-6, 10.0, 100.0];
    for &h1 in &hs { for &h2 in &hs { for &c1 in &cs { for &c2 in &cs { polars.push(([50.0, c1, h1], [if c1 == c2 { 50.0 } else { 62.5 }, c2, h2])); } } } }
    for _ in 0..3000 * n {
        let p = [rng.edgy(0.0, 100.0), rng.edgy(0.0, 128.0), rng.range(-360.0, 720.0)];
        let q = if rng.chance(0.25) { [p[0], p[1], p[2] + *rng.pick(&[360.0, -360.0, 0.0, 180.0])] } else { [rng.edgy(0.0, 100.0), rng.edgy(0.0, 128.0), rng.range(0.0, 360.0)] };
        polars.push((p, q));
    }
    for (p, q) in polars {
        let (p, q) = (cv(p), cv(q));
        out.count("cls:polar-pair");
        polar_pair!(out, $t, "Lch", Lch<D65, T>, Lab<D65, T>, |v: [T; 3]| Lch::<D65, T>::new(v[0], v[1], v[2]), |c: Lab<D65, T>| [c.l, c.a, c.b], p, q, 1.26, 0.55);
        let (pj, qj) = ([p[0], p[1] * (0.4 as T), p[2]], [q[0], q[1] * (0.4 as T), q[2]]);
        polar_pair!(out, $t, "Jmh", Cam16UcsJmh<T>, Cam16UcsJab<T>, |v: [T; 3]| Cam16UcsJmh::<T>::new(v[0], v[1], v[2]), |c: Cam16UcsJab<T>| [c.lightness, c.a, c.b], pj, qj, 1.41, 0.63);
        // CIEDE2000 straight from Lch (chroma reused) against the Lab it converts to
        let (l1, l2) = (Lch::<D65, T>::new(p[0], p[1], p[2]), Lch::<D65, T>::new(q[0], q[1], q[2]));
        let d = l1.difference(l2);
        out.case(&format!("de00 lch | {} {} | {} {}", hx_list(&p), hx_list(&q), d.hx(), l1.improved_difference(l2).hx()));
        let (r1, r2) = (Lab::<D65, T>::from_color_unclamped(l1), Lab::<D65, T>::from_color_unclamped(l2));
        let dr = r1.difference(r2);
        let r = ref_de00(r1.l.to64(), r1.a.to64(), r1.b.to64(), r2.l.to64(), r2.a.to64(), r2.b.to64());
        let hd = (r.h2p - r.h1p).abs();
        let chromatic = r.c1p * r.c2p != 0.0;
        let near = chromatic && ((hd - 180.0).abs() <= T::tol180() || (hd > 180.0 && (r.h1p + r.h2p - 360.0).abs() <= T::tol360()));
        if !near {
            out.check(ok_num(d.to64()) && (d.to64() - dr.to64()).abs() <= 4.0 * T::de_tol(), &format!("ciede2000-polar-equals-rectangular:{}", T::TAG), || format!("Lch{:?} vs Lch{:?}: {:?}, as Lab {:?}", p, q, d, dr));
            out.check((d.to64() - r.de).abs() <= 4.0 * T::de_tol(), &format!("ciede2000-equals-reference:lch:{}", T::TAG), || format!("Lch{:?} vs Lch{:?}: {:?}, reference on the converted Lab {:.12}", p, q, d, r.de));
        } else { out.count("cls:excluded-near-180"); }
        out.check(d.to64() >= 0.0, &format!("ciede2000-nonneg:lch:{}", T::TAG), || format!("Lch{:?} vs Lch{:?}: {:?}", p, q, d));
    }

    // ---- 6. WCAG 2.1 relative contrast: Rgb (sRGB, linear sRGB) and Luma (sRGB, linear), in-gamut colours
    let mut rgbs: Vec<[f64; 3]> = vec![];
    for r in [0.0, 0.5, 1.0] { for g in [0.0, 0.5, 1.0] { for b in [0.0, 1.0] { rgbs.push([r, g, b]); } } }
    rgbs.extend([[0.4, 0.0, 0.0], [0.0, 0.4, 0.4], [0.6, 1.0, 0.6], [0.20784314, 0.20784314, 0.20784314], [0.8666667, 0.8666667, 0.8666667]]);
    let mut rgb_pairs: Vec<([f64; 3], [f64; 3])> = vec![];
    for a in &rgbs { for b in &rgbs { rgb_pairs.push((*a, *b)); } }
    for _ in 0..2000 * n { rgb_pairs.push(([rng.edgy(0.0, 1.0), rng.edgy(0.0, 1.0), rng.edgy(0.0, 1.0)], [rng.edgy(0.0, 1.0), rng.edgy(0.0, 1.0), rng.edgy(0.0, 1.0)])); }
    for (p, q) in rgb_pairs {
        let (p, q) = (cv(p), cv(q));
        wcag_pair!(out, $t, "Rgb", Srgb::<T>::new(p[0], p[1], p[2]), Srgb::<T>::new(q[0], q[1], q[2]), true);
        wcag_pair!(out, $t, "LinRgb", LinSrgb::<T>::new(p[0], p[1], p[2]), LinSrgb::<T>::new(q[0], q[1], q[2]), true);
    }
    // grays aimed at the thresholds: for a dark luminance y, the light one that gives exactly ratio t, ± a few ulps
    let mut luma_pairs: Vec<(f64, f64)> = vec![(0.0, 1.0), (1.0, 0.0), (0.0, 0.0), (1.0, 1.0), (0.5, 0.5)];
    for _ in 0..400 * n { for t in [3.0, 4.5, 7.0, 21.0, 1.0] {
        let y = rng.range(0.0, (1.05 / t - 0.05f64).max(0.0)); let hi = (t * (0.05 + y) - 0.05).min(1.0);
        luma_pairs.push((y, hi)); luma_pairs.push((T::of(hi).nudge(1).to64(), y)); luma_pairs.push((y, T::of(hi).nudge(-1).to64().max(0.0)));
    } }
    for _ in 0..1000 * n { luma_pairs.push((rng.edgy(0.0, 1.0), rng.edgy(0.0, 1.0))); }
    for (x, y) in luma_pairs {
        let (x, y) = ((x as T).min(1.0), (y as T).min(1.0));
        wcag_pair!(out, $t, "LinLuma", LinLuma::<D65, T>::new(x), LinLuma::<D65, T>::new(y), true);
        wcag_pair!(out, $t, "Luma", SrgbLuma::<T>::new(x), SrgbLuma::<T>::new(y), true);
    }
}} }

/// the typed table against the independent reference: a typo in either shows up here, before anything is blamed on palette
fn sharma_table_selfcheck(out: &mut Out) {
    for (i, r) in SHARMA.iter().enumerate() {
        let v = ref_de00(r[0], r[1], r[2], r[3], r[4], r[5]).de;
        out.check((v - r[6]).abs() <= 0.5e-4 + 1e-9, "selfcheck:reference-reproduces-published-table", || format!("pair {}: reference {:.6}, published {:.4}", i + 1, v, r[6]));
    }
}

pub fn run(tier: &str, seed: u64, dir: &str) {
    let mut out = Out::new("C09", dir);
    let mut rng = Rng::new(seed);
    let thorough = tier == "thorough";
    sharma_table_selfcheck(&mut out);
    run_t!(&mut out, &mut rng, f64, thorough);
    run_t!(&mut out, &mut rng, f32, thorough);
    // coverage audit: the deprecated entry points, the remaining macro invocations and non-default type parameters (c09_more.rs)
    crate::c09_more::run_more(&mut out, &mut rng, thorough);
    out.finish(dir, "");
}
