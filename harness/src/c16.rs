//! C16 — CAM16 appearance correlates round-trip and are mutually consistent.
//!
//! Observed at the public API: `Cam16::from_xyz/into_xyz`, `Cam16{Jch,Jmh,Jsh,Qch,Qmh,Qsh}::{from_xyz,into_xyz,from_full,into_full}`,
//! `BakedParameters as Convert`, `FromColorUnclamped`/`FromColor` between `Cam16Jmh`, `Cam16UcsJmh`, `Cam16UcsJab`.
//!
//! Protocol lines: see lean/PaletteModel/Cam16Driver.lean.
//!
//! Oracle tolerances (never free parameters):
//!  * exact-bit clauses (partial = attributes of full, `from_full`, `Convert` = `from_xyz`, black ↦ black): 0.
//!  * XYZ → CAM16 → XYZ: at ℝ the inverse is exact up to the two 3×3 tables (`‖M16⁻¹·M16 − I‖∞ ≤ 2e-15`, theorem
//!    `C16.m16Inv_m16_close`), so what remains is rounding.  Conditioning of the chain: the forward model is compressive (exponent 0.42,
//!    `0.5·c·z ≤ 0.86`); the inverse amplifies a relative perturbation of the adapted responses by `(1/0.42)·400/(400 − |R_a|) ≤ 2.7`
//!    (|R_a| < 40 for luminances up to 10⁴ cd/m² in and around the gamut), of `J_root` by `2/(c·z) ≤ 2/(0.525·1.58) = 2.41`, and the
//!    linear steps by `‖M16⁻¹‖∞·‖M16‖∞ ≈ 3.0·1.5`: κ ≲ 30.  Each direction performs ≈ 40 roundings (libm `pow`, `atan2`, `cos`, `sin`
//!    ≤ 1 ulp each), a few ulp accumulated before amplification.  Bound used for colours with positive cone responses (the hypothesis
//!    of the ℝ theorem): `2⁸·ε·max(1, ‖XYZ‖∞)` — 5.7e-14 (`f64`), 3.1e-5 (`f32`) of the white level (observed ≤ 40 ε).  Colours around
//!    the gamut with a negative cone response additionally pass `|x|^0.42` near its vertical tangent at 0 (the matrix product cancels,
//!    the power amplifies the cancellation error, the inverse power takes it back out only to first order): `2¹⁰·ε` (observed ≤ 220 ε).
//!    The observed maxima are recorded in the evidence.
//!  * partial → full (`into_full`) against `Cam16::from_xyz`: the attribute algebra only (J↔Q, C↔M↔s: products, one square root, one
//!    square); `2⁶·ε` relative to `max(1, |attribute|)` (observed ≤ 6 ε); the hue is copied: exact bits.
//!  * UCS maps: `J′`/`M′` and their inverses are rational / `ln`–`exp` pairs with condition numbers ≤ `1 + 0.007·J′·…` ≤ 2.5 on
//!    `J ≤ 100` and `e^{0.0228 M′}/(…)` ≤ 4 on `M ≤ 120`; polar pair: `hypot`, `atan2`, `sin`, `cos`.  Bound `2⁶·ε` of
//!    `max(1, |component|)`, the hue compared on the circle and weighted by the colourfulness (`M·Δh` is what the rectangular form sees).
//!  * agreement with the published equations (Li et al. 2017, written out independently in `spec_cam16` below, in `f64`, with the
//!    paper's `+0.1` / `−0.305` offsets): `2¹⁰·ε_T` relative for J and Q; hue and the chromatic attributes through the conditioning of the
//!    opponent signals (stated at the clause).
use crate::common::*;
use palette::cam16::{BakedParameters, Cam16, Cam16Jch, Cam16Jmh, Cam16Jsh, Cam16Qch, Cam16Qmh, Cam16Qsh, Cam16UcsJab, Cam16UcsJmh, Discounting, Parameters, StaticWp, Surround};
use palette::convert::{Convert, FromColorUnclamped};
use palette::white_point::{Any, WhitePoint, D50, D65};
use palette::{FromColor, Xyz};

// ---------------------------------------------------------------------------------------------------------------------
// Published CAM16 (Li, Li, Wang, Zu, Luo, Cui, Melgosa, Brill, Pointer: "Comprehensive color solutions: CAM16, CAT16, and
// CAM16-UCS", Color Res. Appl. 2017, Appendix A), written from the paper, in f64, XYZ on the 0..100 scale.
// ---------------------------------------------------------------------------------------------------------------------
pub struct SpecOut { pub j: f64, pub c: f64, pub h_deg: f64, pub q: f64, pub m: f64, pub s: f64, pub cone_min: f64, pub a_resp: f64, pub t_den: f64,
    /// intermediate quantities the conditioning of the comparison is expressed in
    pub t: f64, pub ab: f64, pub r_sum: f64, pub t_per_ab: f64, pub kfac: f64, pub f_l4: f64, pub a_w: f64, pub c_sur: f64, pub n_bb: f64 }
const M16: [[f64; 3]; 3] = [[0.401288, 0.650173, -0.051461], [-0.250268, 1.204414, 0.045854], [-0.002079, 0.048952, 0.953127]];
fn m16(v: [f64; 3]) -> [f64; 3] { let mut o = [0.0; 3]; for i in 0..3 { o[i] = M16[i][0] * v[0] + M16[i][1] * v[1] + M16[i][2] * v[2]; } o }
/// surround percent (0..20) → (F, c, N_c): the table of the paper (dark 0.8/0.525/0.8, dim 0.9/0.59/0.9, average 1.0/0.69/1.0), linear in between
fn surround_fc(percent: f64) -> (f64, f64, f64) {
    let s = percent.clamp(0.0, 20.0);
    if s >= 10.0 { let u = (s - 10.0) / 10.0; (0.9 + 0.1 * u, 0.59 + 0.1 * u, 0.9 + 0.1 * u) } else { let u = s / 10.0; (0.8 + 0.1 * u, 0.525 + 0.065 * u, 0.8 + 0.1 * u) }
}
pub fn spec_cam16(xyz1: [f64; 3], wp1: [f64; 3], l_a: f64, yb1: f64, percent: f64, disc: Option<f64>) -> SpecOut {
    let xyz = [xyz1[0] * 100.0, xyz1[1] * 100.0, xyz1[2] * 100.0];
    let w = [wp1[0] * 100.0, wp1[1] * 100.0, wp1[2] * 100.0];
    let y_b = yb1 * 100.0;
    let (f, c, n_c) = surround_fc(percent);
    // step 0
    let rgb_w = m16(w);
    let d = match disc { None => f * (1.0 - (1.0 / 3.6) * ((-l_a - 42.0) / 92.0).exp()), Some(d) => d }.clamp(0.0, 1.0);
    let d_rgb = [d * w[1] / rgb_w[0] + 1.0 - d, d * w[1] / rgb_w[1] + 1.0 - d, d * w[1] / rgb_w[2] + 1.0 - d];
    let k = 1.0 / (5.0 * l_a + 1.0);
    let f_l = 0.2 * k.powi(4) * (5.0 * l_a) + 0.1 * (1.0 - k.powi(4)).powi(2) * (5.0 * l_a).cbrt();
    let n = y_b / w[1];
    let z = 1.48 + n.sqrt();
    let n_bb = 0.725 * (1.0 / n).powf(0.2);
    let n_cb = n_bb;
    let post = |x: f64| { let p = (f_l * x.abs() / 100.0).powf(0.42); 400.0 * x.signum() * p / (p + 27.13) + 0.1 };
    let rgb_aw = [post(d_rgb[0] * rgb_w[0]), post(d_rgb[1] * rgb_w[1]), post(d_rgb[2] * rgb_w[2])];
    let a_w = (2.0 * rgb_aw[0] + rgb_aw[1] + rgb_aw[2] / 20.0 - 0.305) * n_bb;
    // steps 1-3
    let rgb = m16(xyz);
    let rgb_c = [d_rgb[0] * rgb[0], d_rgb[1] * rgb[1], d_rgb[2] * rgb[2]];
    let ra = [post(rgb_c[0]), post(rgb_c[1]), post(rgb_c[2])];
    // step 4
    let a = ra[0] - 12.0 * ra[1] / 11.0 + ra[2] / 11.0;
    let b = (ra[0] + ra[1] - 2.0 * ra[2]) / 9.0;
    let h = b.atan2(a);
    // step 5 (h in radians: cos(h + 2))
    let e_t = 0.25 * ((h + 2.0).cos() + 3.8);
    // step 6-9
    let a_resp = (2.0 * ra[0] + ra[1] + ra[2] / 20.0 - 0.305) * n_bb;
    let j = 100.0 * (a_resp / a_w).powf(c * z);
    let q = (4.0 / c) * (j / 100.0).sqrt() * (a_w + 4.0) * f_l.powf(0.25);
    let t_den = ra[0] + ra[1] + 21.0 * ra[2] / 20.0;
    let t = (50000.0 / 13.0 * n_c * n_cb) * e_t * (a * a + b * b).sqrt() / t_den;
    let cc = t.powf(0.9) * (j / 100.0).sqrt() * (1.64 - 0.29f64.powf(n)).powf(0.73);
    let m = cc * f_l.powf(0.25);
    let s = 100.0 * (m / q).sqrt();
    let ab = (a * a + b * b).sqrt();
    SpecOut { j, c: cc, h_deg: h.to_degrees(), q, m, s, cone_min: rgb[0].min(rgb[1]).min(rgb[2]), a_resp, t_den,
        t, ab, r_sum: ra[0].abs() + ra[1].abs() + ra[2].abs() + 0.305, t_per_ab: (50000.0 / 13.0 * n_c * n_cb) * e_t / t_den, kfac: (1.64 - 0.29f64.powf(n)).powf(0.73), f_l4: f_l.powf(0.25), a_w, c_sur: c, n_bb }
}

// ---------------------------------------------------------------------------------------------------------------------
// inputs
// ---------------------------------------------------------------------------------------------------------------------
const SRGB_TO_XYZ: [[f64; 3]; 3] = [[0.4124564, 0.3575761, 0.1804375], [0.2126729, 0.7151522, 0.0721750], [0.0193339, 0.1191920, 0.9503041]];
fn lin_to_xyz(c: [f64; 3]) -> [f64; 3] { let mut o = [0.0; 3]; for i in 0..3 { o[i] = SRGB_TO_XYZ[i][0] * c[0] + SRGB_TO_XYZ[i][1] * c[1] + SRGB_TO_XYZ[i][2] * c[2]; } o }
fn srgb_decode(v: f64) -> f64 { if v <= 0.04045 { v / 12.92 } else { ((v + 0.055) / 1.055).powf(2.4) } }
fn hex_to_xyz(h: u32) -> [f64; 3] { lin_to_xyz([srgb_decode(((h >> 16) & 255) as f64 / 255.0), srgb_decode(((h >> 8) & 255) as f64 / 255.0), srgb_decode((h & 255) as f64 / 255.0)]) }

/// the six colours the repo's cam16 tests name (0x5588cc "example blue", black, white, red, green, blue) plus the secondaries and mid grey
pub(crate) const CORPUS: [(&str, u32); 10] = [("example_blue", 0x5588cc), ("black", 0x000000), ("white", 0xffffff), ("red", 0xff0000), ("green", 0x00ff00), ("blue", 0x0000ff),
    ("cyan", 0x00ffff), ("magenta", 0xff00ff), ("yellow", 0xffff00), ("gray", 0x808080)];

pub(crate) fn xyz_inputs(rng: &mut Rng, n_rand: usize) -> Vec<[f64; 3]> {
    let mut v: Vec<[f64; 3]> = CORPUS.iter().map(|(_, h)| hex_to_xyz(*h)).collect();
    // sRGB cube lattice (encoded values, as the tests do) — includes the gamut surface, the grey axis and black
    for r in [0.0, 0.25, 0.5, 0.75, 1.0] { for g in [0.0, 0.25, 0.5, 0.75, 1.0] { for b in [0.0, 0.25, 0.5, 0.75, 1.0] { v.push(lin_to_xyz([srgb_decode(r), srgb_decode(g), srgb_decode(b)])); } } }
    // random inside the gamut
    for _ in 0..n_rand { v.push(lin_to_xyz([rng.unit(), rng.unit(), rng.unit()])); }
    // around the gamut: linear components in [-0.15, 1.25]
    for _ in 0..n_rand / 2 { v.push(lin_to_xyz([rng.range(-0.15, 1.25), rng.range(-0.15, 1.25), rng.range(-0.15, 1.25)])); }
    // on the surface / edges of the cube
    for _ in 0..n_rand / 4 { let mut c = [rng.unit(), rng.unit(), rng.unit()]; let i = rng.below(3) as usize; c[i] = if rng.chance(0.5) { 0.0 } else { 1.0 }; if rng.chance(0.3) { let j = (i + 1) % 3; c[j] = if rng.chance(0.5) { 0.0 } else { 1.0 }; } v.push(lin_to_xyz(c)); }
    // near-neutral (small chroma: hue ill-conditioned, t → 0) and exact greys
    for _ in 0..n_rand / 4 { let g = rng.unit(); let e = 10f64.powf(rng.range(-9.0, -2.0)); v.push(lin_to_xyz([g + e * rng.range(-1.0, 1.0), g + e * rng.range(-1.0, 1.0), g + e * rng.range(-1.0, 1.0)].map(|x: f64| x.max(0.0)))); }
    for i in 0..=8 { let g = i as f64 / 8.0; v.push(lin_to_xyz([g, g, g])); }
    // dark colours down to almost black
    for _ in 0..n_rand / 4 { let s = 10f64.powf(rng.range(-8.0, -1.0)); v.push(lin_to_xyz([rng.unit() * s, rng.unit() * s, rng.unit() * s])); }
    v.push([0.0, 0.0, 0.0]);
    v
}

#[derive(Clone, Copy, Debug)]
pub(crate) struct Vc { pub(crate) la: f64, pub(crate) yb: f64, pub(crate) sur: (&'static str, f64), pub(crate) disc: (&'static str, f64) }

fn viewing_conditions(rng: &mut Rng, n_rand: usize) -> Vec<Vc> {
    let mut v = vec![];
    // the parameter set of the repo's tests first
    v.push(Vc { la: 40.0, yb: 0.2, sur: ("average", 20.0), disc: ("auto", 0.0) });
    let surs: [(&'static str, f64); 10] = [("dark", 0.0), ("dim", 10.0), ("average", 20.0), ("percent", 0.0), ("percent", 5.0), ("percent", 10.0), ("percent", 15.0), ("percent", 20.0), ("percent", -5.0), ("percent", 27.5)];
    let discs: [(&'static str, f64); 7] = [("auto", 0.0), ("custom", 0.0), ("custom", 0.3), ("custom", 1.0), ("custom", -0.5), ("custom", 1.5), ("custom", 0.65)];
    // boundary lattice: every surround x every discounting at a few luminances
    for (i, s) in surs.iter().enumerate() { for (j, d) in discs.iter().enumerate() {
        let la = [0.1, 4.0, 40.0, 318.31, 1.0e4][(i + j) % 5]; let yb = [0.01, 0.2, 0.5, 1.0][(i * 3 + j) % 4];
        v.push(Vc { la, yb, sur: *s, disc: *d });
    } }
    for la in [0.1, 0.2, 1.0, 1.0e4] { for yb in [0.01, 1.0] { v.push(Vc { la, yb, sur: ("average", 20.0), disc: ("auto", 0.0) }); } }
    for _ in 0..n_rand {
        let la = 10f64.powf(rng.range(-1.0, 4.0)); let yb = rng.range(0.01, 1.0);
        let sur = match rng.below(4) { 0 => ("dark", 0.0), 1 => ("dim", 10.0), 2 => ("average", 20.0), _ => ("percent", rng.edgy(0.0, 20.0)) };
        let disc = if rng.chance(0.5) { ("auto", 0.0) } else { ("custom", rng.edgy(0.0, 1.0)) };
        v.push(Vc { la, yb, sur, disc });
    }
    v
}

/// dynamic white points: the standard illuminants most used with CAM16 and perturbed near-whites
fn dynamic_whites(rng: &mut Rng, n_rand: usize) -> Vec<[f64; 3]> {
    let mut v = vec![[0.95047, 1.0, 1.08883], [0.96422, 1.0, 0.82521], [1.0985, 1.0, 0.35585], [1.0, 1.0, 1.0], [0.98074, 1.0, 1.18232]];
    for _ in 0..n_rand { v.push([rng.range(0.9, 1.1), 1.0, rng.range(0.5, 1.3)]); }
    v
}

// ---------------------------------------------------------------------------------------------------------------------
pub(crate) fn same<T: Fl>(a: T, b: T) -> bool { a.bits64() == b.bits64() }
pub(crate) fn close_rel(a: f64, b: f64, tol: f64) -> bool { if a.is_nan() || b.is_nan() { return false; } (a - b).abs() <= tol * 1f64.max(a.abs()).max(b.abs()) }
pub(crate) fn hue_dist_deg(a: f64, b: f64) -> f64 { let d = (a - b).rem_euclid(360.0); d.min(360.0 - d) }

struct Kind { name: &'static str, lum_q: bool, chr: u8 }
const KINDS: [Kind; 6] = [Kind { name: "Jch", lum_q: false, chr: 0 }, Kind { name: "Jmh", lum_q: false, chr: 1 }, Kind { name: "Jsh", lum_q: false, chr: 2 },
    Kind { name: "Qch", lum_q: true, chr: 0 }, Kind { name: "Qmh", lum_q: true, chr: 1 }, Kind { name: "Qsh", lum_q: true, chr: 2 }];

/// everything the property says about one (viewing condition, white point kind, component type)
macro_rules! def_run { ($fname:ident, $wpp:ty, $swp:ty, $t:ty) => {
#[allow(clippy::too_many_arguments)]
pub(crate) fn $fname(out: &mut Out, params: Parameters<$wpp, $t>, wp_tok: &str, wp: [$t; 3], vc: &Vc, xyzs: &[[f64; 3]], lines_every: usize, first_corpus: bool) {
    type T = $t;
    let tag = <T as Fl>::TAG;
    let eps = <T as Fl>::eps();
    let (tol_rt_pos, tol_rt_mixed, tol_full, tol_spec) = (256.0 * eps, 1024.0 * eps, 64.0 * eps, 1024.0 * eps);
    let baked: BakedParameters<$wpp, T> = params.bake();
    let p7: [T; 7] = [wp[0], wp[1], wp[2], vc.la as T, vc.yb as T, vc.sur.1 as T, vc.disc.1 as T];
    let cfg = format!("{} {} {}", wp_tok, vc.sur.0, vc.disc.0);
    let p7s = hx_list(&p7);
    let wp64 = [wp[0] as f64, wp[1] as f64, wp[2] as f64];
    let cfg_cls = format!("{}-{}-{}", vc.sur.0, vc.disc.0, if wp_tok == "dyn" { "dyn" } else { "static" });
    for (ix, x) in xyzs.iter().enumerate() {
        let emit = first_corpus && ix < CORPUS.len() || ix % lines_every == 0;
        let xt: [T; 3] = [x[0] as T, x[1] as T, x[2] as T];
        let x64 = [xt[0] as f64, xt[1] as f64, xt[2] as f64];
        let xyz: Xyz<$swp, T> = Xyz::new(xt[0], xt[1], xt[2]);
        let full: Cam16<T> = Cam16::from_xyz(xyz, baked);
        let fa: [T; 6] = [full.lightness, full.chroma, full.hue.into_raw_degrees(), full.brightness, full.colorfulness, full.saturation];
        if emit { out.case(&format!("cam16fwd {} | {} {} | {}", cfg, p7s, hx_list(&xt), hx_list(&fa))); }
        // `BakedParameters as Convert` is the same function
        let via_convert: Cam16<T> = baked.convert(xyz);
        out.check(same(via_convert.lightness, fa[0]) && same(via_convert.chroma, fa[1]) && same(via_convert.hue.into_raw_degrees(), fa[2]) && same(via_convert.brightness, fa[3])
            && same(via_convert.colorfulness, fa[4]) && same(via_convert.saturation, fa[5]), &format!("convert-trait=from_xyz:{}", tag), || format!("{:?} under {:?}", xt, vc));
        // the published equations, evaluated independently
        let sp = spec_cam16(x64, wp64, p7[3] as f64, p7[4] as f64, if vc.sur.0 == "percent" { p7[5] as f64 } else { vc.sur.1 }, if vc.disc.0 == "custom" { Some(p7[6] as f64) } else { None });
        let is_black = x64 == [0.0, 0.0, 0.0];
        // domain of the model: positive achromatic response and positive denominator of t (every colour with positive cone responses; the
        // signed compression extends it a little beyond).  Outside it CAM16 itself is undefined (NaN powers).
        let in_domain = sp.a_resp > 0.0 && sp.t_den > 0.0 && sp.j.is_finite();
        let cls = if is_black { "black" } else if !in_domain { "outside-cam16-domain" } else if sp.cone_min > 0.0 { "positive-cones" } else { "mixed-sign-cones" };
        out.count(&format!("cls:{}", cls)); out.count(&format!("cls:cfg:{}", cfg_cls));
        if !is_black && sp.c < 1e-3 { out.count("cls:near-neutral"); }
        if is_black {
            // black ↦ black: every attribute is zero (the hue of black carries no information)
            out.check(fa[0] == 0.0 && fa[1] == 0.0 && fa[3] == 0.0 && fa[4] == 0.0 && fa[5] == 0.0, &format!("black->black:fwd:{}", tag), || format!("XYZ 0 under {:?} -> {:?}", vc, fa));
        } else if in_domain {
            let want = [sp.j, sp.c, sp.h_deg, sp.q, sp.m, sp.s];
            let got = [fa[0] as f64, fa[1] as f64, fa[2] as f64, fa[3] as f64, fa[4] as f64, fa[5] as f64];
            // Conditioning of the forward model (both sides are subject to it, it is not slack):
            //  * the opponent signals a, b and the achromatic response A are differences of the adapted responses, so their absolute accuracy is
            //    `d_ab` = 8 ε · (|R_a| + |G_a| + |B_a| + 0.305), whatever their own size;
            //  * J, Q are powers (exponent c·z ≤ 1.72) of A/A_w: relative tolerance 2¹⁰ ε · (1 + N_bb · Σ|R_a| / A);
            //  * h = atan2(b, a): |Δh| ≤ d_ab / √(a² + b²) (undetermined for a neutral colour) + 2⁴ ε |h|;
            //  * C, M, s are increasing functions of t = (5·10⁴/13 · N_c N_cb e_t / (R_a + G_a + 1.05 B_a + 0.305)) · √(a² + b²), so they are compared
            //    through the t they imply: |Δt| ≤ (t / √(a² + b²)) · d_ab + (d_ab / denominator + 2⁸ ε + ¼ of the J/Q tolerance) · t
            //    (the denominator R_a + G_a + 1.05 B_a + 0.305 is such a difference too once a response is negative).
            let d_ab = 8.0 * eps * sp.r_sum;
            let rel_a = tol_spec * (1.0 + sp.n_bb * sp.r_sum / sp.a_resp);
            let ok_jq = close_rel(got[0], want[0], rel_a) && close_rel(got[3], want[3], rel_a);
            let ok_h = sp.ab == 0.0 || hue_dist_deg(got[2], want[2]).to_radians() <= d_ab / sp.ab + 16.0 * eps * want[2].abs().to_radians().max(1.0);
            let jroot = (sp.j / 100.0).sqrt();
            let t_of_alpha = |alpha: f64| (alpha / sp.kfac).powf(1.0 / 0.9);
            let t_impl = [t_of_alpha(got[1] / jroot), t_of_alpha(got[4] / sp.f_l4 / jroot), t_of_alpha((got[5] / 50.0).powi(2) * (sp.a_w + 4.0) / sp.c_sur)];
            let t_tol = sp.t_per_ab * d_ab + (d_ab / sp.t_den + 256.0 * eps + rel_a / 4.0) * sp.t;
            let ok_t = t_impl.iter().all(|t| (t - sp.t).abs() <= t_tol);
            out.check(ok_jq && ok_h && ok_t, &format!("published-equations:{}", tag), || format!("XYZ {:?} under {:?} wp {:?}: impl {:?}, Li et al. {:?} (t implied {:?} vs {:e} ± {:e}; J/Q rel tol {:e}; hue ok {})", xt, vc, wp, got, want, t_impl, sp.t, t_tol, rel_a, ok_h));
            out.maxi(&format!("spec-JQ-rel-err-eps:{}", tag), ((got[0] - want[0]).abs() / want[0].abs()).max((got[3] - want[3]).abs() / want[3].abs()) / eps);
            if sp.t > 0.0 { out.maxi(&format!("spec-t-err-over-tol:{}", tag), t_impl.iter().map(|t| (t - sp.t).abs() / t_tol).fold(0.0, f64::max)); }
        }
        // full CAM16 → XYZ (goes through Jch)
        let back: Xyz<$swp, T> = full.into_xyz(baked);
        let ba = [back.x, back.y, back.z];
        if emit { out.case(&format!("cam16fxz {} | {} {} | {}", cfg, p7s, hx_list(&fa), hx_list(&ba))); }
        macro_rules! partial { ($ty:ident, $k:expr, $lum:ident, $chr:ident) => {{
            let kind: &Kind = &KINDS[$k];
            let p: $ty<T> = $ty::from_xyz(xyz, baked);
            let pa: [T; 3] = [p.$lum, p.$chr, p.hue.into_raw_degrees()];
            if emit { out.case(&format!("cam16pfx {} {} | {} {} | {}", cfg, kind.name, p7s, hx_list(&xt), hx_list(&pa))); }
            // partial = the corresponding attributes of the full colour, bit for bit; `from_full` (and `From`) pick the same fields
            let want = [full.$lum, full.$chr, full.hue.into_raw_degrees()];
            out.check(same(pa[0], want[0]) && same(pa[1], want[1]) && same(pa[2], want[2]), &format!("partial=attributes-of-full:{}:{}", kind.name, tag), || format!("XYZ {:?} under {:?}: partial {:?}, full {:?}", xt, vc, pa, fa));
            let pf = $ty::from_full(full); let pf2: $ty<T> = full.into(); let pf3 = $ty::from_color_unclamped(full);
            out.check([pf, pf2, pf3].iter().all(|q| same(q.$lum, want[0]) && same(q.$chr, want[1]) && same(q.hue.into_raw_degrees(), want[2])), &format!("from_full=attributes:{}:{}", kind.name, tag), || format!("{:?}", fa));
            // round trip through this partial type
            let r: Xyz<$swp, T> = p.into_xyz(baked);
            let ra = [r.x, r.y, r.z];
            if emit { out.case(&format!("cam16inv {} {} | {} {} | {}", cfg, kind.name, p7s, hx_list(&pa), hx_list(&ra))); }
            // expansion back to the full colour
            let ex: Cam16<T> = p.into_full(baked);
            let ea: [T; 6] = [ex.lightness, ex.chroma, ex.hue.into_raw_degrees(), ex.brightness, ex.colorfulness, ex.saturation];
            if emit { out.case(&format!("cam16ful {} {} | {} {} | {}", cfg, kind.name, p7s, hx_list(&pa), hx_list(&ea))); }
            if is_black {
                out.check(ra[0] == 0.0 && ra[1] == 0.0 && ra[2] == 0.0, &format!("black->black:inv:{}:{}", kind.name, tag), || format!("{:?} under {:?} -> {:?}", pa, vc, ra));
                out.check(ea[0] == 0.0 && ea[1] == 0.0 && ea[3] == 0.0 && ea[4] == 0.0 && ea[5] == 0.0 && same(ea[2], pa[2]), &format!("black->black:into_full:{}:{}", kind.name, tag), || format!("{:?} -> {:?}", pa, ea));
            } else if in_domain {
                let scale = 1f64.max(x64[0].abs()).max(x64[1].abs()).max(x64[2].abs());
                let err = (0..3).map(|i| ((ra[i] as f64) - x64[i]).abs()).fold(0.0, f64::max) / scale;
                out.maxi(&format!("roundtrip-err-eps:{}:{}", cls, tag), err / eps);
                out.check(err <= if sp.cone_min > 0.0 { tol_rt_pos } else { tol_rt_mixed }, &format!("roundtrip:{}:{}", kind.name, tag), || format!("XYZ {:?} under {:?} wp {:?} -> {:?} -> {:?} (error {:.3e} = {:.0} eps)", xt, vc, wp, pa, ra, err, err / eps));
                let mut worst = 0.0f64;
                for i in 0..6 { let (g, w) = (ea[i] as f64, fa[i] as f64); let e = if i == 2 { if same(ea[2], fa[2]) { 0.0 } else { f64::INFINITY } } else { (g - w).abs() / 1f64.max(w.abs()) }; worst = worst.max(e); }
                out.maxi(&format!("expand-err-eps:{}", tag), worst / eps);
                out.check(worst <= tol_full, &format!("full-expands-from-partial:{}:{}", kind.name, tag), || format!("XYZ {:?} under {:?}: partial {:?} expands to {:?}, full is {:?}", xt, vc, pa, ea, fa));
            }
            // zero luminance with arbitrary chromaticity/hue is black as well
            if ix < 4 {
                let z = $ty::<T>::new(0.0 as T, pa[1], pa[2]); let zx: Xyz<$swp, T> = z.into_xyz(baked);
                out.check(zx.x == 0.0 && zx.y == 0.0 && zx.z == 0.0, &format!("black->black:inv:{}:{}", kind.name, tag), || format!("luminance 0, chromaticity {:?} -> {:?}", pa[1], [zx.x, zx.y, zx.z]));
                if emit { out.case(&format!("cam16inv {} {} | {} {} | {}", cfg, kind.name, p7s, hx_list(&[0.0 as T, pa[1], pa[2]]), hx_list(&[zx.x, zx.y, zx.z]))); }
                let zf: Cam16<T> = z.into_full(baked);
                out.check(zf.lightness == 0.0 && zf.brightness == 0.0 && zf.chroma == 0.0 && zf.colorfulness == 0.0 && zf.saturation == 0.0, &format!("black->black:into_full:{}:{}", kind.name, tag), || format!("luminance 0, chromaticity {:?}", pa[1]));
                if emit { out.case(&format!("cam16ful {} {} | {} {} | {}", cfg, kind.name, p7s, hx_list(&[0.0 as T, pa[1], pa[2]]),
                    hx_list(&[zf.lightness, zf.chroma, zf.hue.into_raw_degrees(), zf.brightness, zf.colorfulness, zf.saturation]))); }
            }
            ra
        }} }
        let r_jch = partial!(Cam16Jch, 0, lightness, chroma);
        partial!(Cam16Jmh, 1, lightness, colorfulness);
        partial!(Cam16Jsh, 2, lightness, saturation);
        partial!(Cam16Qch, 3, brightness, chroma);
        partial!(Cam16Qmh, 4, brightness, colorfulness);
        partial!(Cam16Qsh, 5, brightness, saturation);
        // Cam16::into_xyz is the Jch route
        out.check(same(ba[0], r_jch[0]) && same(ba[1], r_jch[1]) && same(ba[2], r_jch[2]), &format!("full.into_xyz=Jch.into_xyz:{}", tag), || format!("{:?}: {:?} vs {:?}", fa, ba, r_jch));
    }
}
} }
def_run!(run_d65_f32, StaticWp<D65>, D65, f32);
def_run!(run_d65_f64, StaticWp<D65>, D65, f64);
def_run!(run_d50_f32, StaticWp<D50>, D50, f32);
def_run!(run_d50_f64, StaticWp<D50>, D50, f64);
def_run!(run_dyn_f32, Xyz<Any, f32>, Any, f32);
def_run!(run_dyn_f64, Xyz<Any, f64>, Any, f64);

macro_rules! set_params { ($p:expr, $vc:expr, $t:ty) => {{
    let mut p = $p;
    p.background_luminance = $vc.yb as $t;
    p.surround = match $vc.sur.0 { "dark" => Surround::Dark, "dim" => Surround::Dim, "average" => Surround::Average, _ => Surround::Percent($vc.sur.1 as $t) };
    p.discounting = match $vc.disc.0 { "auto" => Discounting::Auto, _ => Discounting::Custom($vc.disc.1 as $t) };
    p
}} }

// ---------------------------------------------------------------------------------------------------------------------
// CAM16-UCS
// ---------------------------------------------------------------------------------------------------------------------
macro_rules! def_ucs { ($fname:ident, $t:ty) => {
fn $fname(out: &mut Out, rng: &mut Rng, n: usize) {
    type T = $t;
    let tag = <T as Fl>::TAG; let eps = <T as Fl>::eps(); let tol = 64.0 * eps;
    let mut jmhs: Vec<[f64; 3]> = vec![[50.0, 80.0, 120.0], [0.0, 0.0, 0.0], [100.0, 0.0, 0.0], [45.544264720360346, 39.4130607870103, 259.225345298129], [100.0, 120.0, 359.999], [1e-6, 1e-6, -180.0], [50.0, 0.0, 90.0]];
    for _ in 0..n { jmhs.push([rng.edgy(0.0, 100.0), rng.edgy(0.0, 120.0), rng.edgy(-360.0, 720.0)]); }
    for c in &jmhs {
        let a: [T; 3] = [c[0] as T, c[1] as T, c[2] as T];
        let jmh = Cam16Jmh::<T>::new(a[0], a[1], a[2]);
        let ucs = Cam16UcsJmh::from_color_unclamped(jmh);
        let ua = [ucs.lightness, ucs.colorfulness, ucs.hue.into_raw_degrees()];
        out.case(&format!("ucs jmh2ucs | {} | {}", hx_list(&a), hx_list(&ua)));
        let back = Cam16Jmh::from_color_unclamped(ucs);
        let ba = [back.lightness, back.colorfulness, back.hue.into_raw_degrees()];
        out.case(&format!("ucs ucs2jmh | {} | {}", hx_list(&ua), hx_list(&ba)));
        out.count("cls:ucs-jmh");
        // J, M <-> J', M' without loss; the hue is carried over untouched
        let e = ((ba[0] - a[0]).abs() as f64 / 1f64.max(a[0].abs() as f64)).max((ba[1] - a[1]).abs() as f64 / 1f64.max(a[1].abs() as f64));
        out.maxi(&format!("ucs-jmh-err-eps:{}", tag), e / eps);
        out.check(e <= tol && same(ba[2], a[2]) && same(ua[2], a[2]), &format!("ucs:Jmh->UcsJmh->Jmh:{}", tag), || format!("{:?} -> {:?} -> {:?}", a, ua, ba));
        // the published UCS definition (Li et al. 2017, eq. for J', M'): J' = 1.7 J / (1 + 0.007 J), M' = ln(1 + 0.0228 M) / 0.0228
        let (jw, mw) = (1.7 * a[0] as f64 / (1.0 + 0.007 * a[0] as f64), (1.0 + 0.0228 * a[1] as f64).ln() / 0.0228);
        out.check(close_rel(ua[0] as f64, jw, tol) && close_rel(ua[1] as f64, mw, tol), &format!("ucs:published-definition:{}", tag), || format!("{:?} -> {:?}, published {:?}", a, ua, (jw, mw)));
        // clamped conversion = unclamped inside the bounds
        let uc = Cam16UcsJmh::from_color(jmh);
        if ua[0] >= 0.0 && ua[0] <= 100.0 && ua[1] >= 0.0 { out.check(same(uc.lightness, ua[0]) && same(uc.colorfulness, ua[1]) && same(uc.hue.into_raw_degrees(), ua[2]), &format!("ucs:from_color=unclamped-in-bounds:{}", tag), || format!("{:?}", a)); }
        // polar <-> rectangular
        let jab = Cam16UcsJab::from_color_unclamped(ucs);
        let ja = [jab.lightness, jab.a, jab.b];
        out.case(&format!("ucs jmh2jab | {} | {}", hx_list(&ua), hx_list(&ja)));
        let pol = Cam16UcsJmh::from_color_unclamped(jab);
        let pa = [pol.lightness, pol.colorfulness, pol.hue.into_raw_degrees()];
        out.case(&format!("ucs jab2jmh | {} | {}", hx_list(&ja), hx_list(&pa)));
        out.count("cls:ucs-jab");
        let m = ua[1] as f64;
        let e_m = (pa[1] as f64 - m).abs() / 1f64.max(m);
        // the hue of the rectangular form is only determined up to a rotation of M·Δh; the argument of sin/cos is |h|·π/180 ≤ 13 rad, whose rounding (ε·|h_rad|) is part of the budget
        let e_h = hue_dist_deg(pa[2] as f64, ua[2] as f64).to_radians() * m / 1f64.max(m) / 1f64.max((ua[2] as f64).abs().to_radians());
        out.maxi(&format!("ucs-polar-err-eps:{}", tag), e_m.max(e_h) / eps);
        out.check(same(pa[0], ua[0]) && same(ja[0], ua[0]) && e_m <= tol && e_h <= tol, &format!("ucs:UcsJmh->UcsJab->UcsJmh:{}", tag), || format!("{:?} -> {:?} -> {:?}", ua, ja, pa));
        let jab2 = Cam16UcsJab::from_color_unclamped(pol);
        let e2 = ((jab2.a - ja[1]).abs() as f64).max((jab2.b - ja[2]).abs() as f64) / 1f64.max(m);
        out.maxi(&format!("ucs-rect-err-eps:{}", tag), e2 / eps);
        out.check(e2 <= tol && same(jab2.lightness, ja[0]), &format!("ucs:UcsJab->UcsJmh->UcsJab:{}", tag), || format!("{:?} -> {:?} -> {:?}", ja, pa, [jab2.lightness, jab2.a, jab2.b]));
    }
    // rectangular inputs in their own right (including the axes and the origin)
    let mut jabs: Vec<[f64; 3]> = vec![[50.0, 0.0, 0.0], [50.0, 10.0, 0.0], [50.0, -10.0, 0.0], [50.0, 0.0, 10.0], [50.0, 0.0, -10.0], [0.0, 1e-9, -1e-9]];
    for _ in 0..n / 2 { jabs.push([rng.edgy(0.0, 100.0), rng.edgy(-50.0, 50.0), rng.edgy(-50.0, 50.0)]); }
    for c in &jabs {
        let a: [T; 3] = [c[0] as T, c[1] as T, c[2] as T];
        let jab = Cam16UcsJab::<T>::new(a[0], a[1], a[2]);
        let pol = Cam16UcsJmh::from_color_unclamped(jab);
        let pa = [pol.lightness, pol.colorfulness, pol.hue.into_raw_degrees()];
        out.case(&format!("ucs jab2jmh | {} | {}", hx_list(&a), hx_list(&pa)));
        let back = Cam16UcsJab::from_color_unclamped(pol);
        let m = (a[1] as f64).hypot(a[2] as f64);
        let e = ((back.a - a[1]).abs() as f64).max((back.b - a[2]).abs() as f64) / 1f64.max(m);
        out.maxi(&format!("ucs-rect-err-eps:{}", tag), e / eps);
        out.check(e <= tol && same(back.lightness, a[0]), &format!("ucs:UcsJab->UcsJmh->UcsJab:{}", tag), || format!("{:?} -> {:?} -> {:?}", a, pa, [back.lightness, back.a, back.b]));
        out.check((pa[2] as f64) >= 0.0 && (pa[2] as f64) <= 360.0, &format!("ucs:hue-normalized:{}", tag), || format!("{:?} -> hue {:?}", a, pa[2]));
        out.count("cls:ucs-jab-direct");
    }
}
} }
def_ucs!(run_ucs_f32, f32);
def_ucs!(run_ucs_f64, f64);

pub fn run(tier: &str, seed: u64, dir: &str) {
    let mut out = Out::new("C16", dir);
    let mut rng = Rng::new(seed);
    let thorough = tier == "thorough";
    let (n_xyz, n_vc, n_wp, lines_every) = if thorough { (1200, 160, 24, 12) } else { (160, 24, 4, 12) };
    let vcs = viewing_conditions(&mut rng, n_vc);
    let whites = dynamic_whites(&mut rng, n_wp);
    for (i, vc) in vcs.iter().enumerate() {
        let xyzs = xyz_inputs(&mut rng, n_xyz);
        let first = i < 3;
        // static white points
        { let w: Xyz<Any, f32> = <D65 as WhitePoint<f32>>::get_xyz(); let p = set_params!(Parameters::<StaticWp<D65>, f32>::default_static_wp(vc.la as f32), vc, f32); run_d65_f32(&mut out, p, "static:D65", [w.x, w.y, w.z], vc, &xyzs, lines_every, first); }
        { let w: Xyz<Any, f64> = <D65 as WhitePoint<f64>>::get_xyz(); let p = set_params!(Parameters::<StaticWp<D65>, f64>::default_static_wp(vc.la), vc, f64); run_d65_f64(&mut out, p, "static:D65", [w.x, w.y, w.z], vc, &xyzs, lines_every, first); }
        if i % 3 == 0 {
            { let w: Xyz<Any, f32> = <D50 as WhitePoint<f32>>::get_xyz(); let p = set_params!(Parameters::<StaticWp<D50>, f32>::default_static_wp(vc.la as f32), vc, f32); run_d50_f32(&mut out, p, "static:D50", [w.x, w.y, w.z], vc, &xyzs, lines_every, first); }
            { let w: Xyz<Any, f64> = <D50 as WhitePoint<f64>>::get_xyz(); let p = set_params!(Parameters::<StaticWp<D50>, f64>::default_static_wp(vc.la), vc, f64); run_d50_f64(&mut out, p, "static:D50", [w.x, w.y, w.z], vc, &xyzs, lines_every, first); }
        }
        // dynamic white points
        let w = whites[i % whites.len()];
        { let wt = [w[0] as f32, w[1] as f32, w[2] as f32]; let p = set_params!(Parameters::default_dynamic_wp(Xyz::<Any, f32>::new(wt[0], wt[1], wt[2]), vc.la as f32), vc, f32); run_dyn_f32(&mut out, p, "dyn", wt, vc, &xyzs, lines_every, first); }
        { let p = set_params!(Parameters::default_dynamic_wp(Xyz::<Any, f64>::new(w[0], w[1], w[2]), vc.la), vc, f64); run_dyn_f64(&mut out, p, "dyn", w, vc, &xyzs, lines_every, first); }
    }
    let n_ucs = if thorough { 200_000 } else { 8_000 };
    run_ucs_f32(&mut out, &mut rng, n_ucs);
    run_ucs_f64(&mut out, &mut rng, n_ucs);
    // ---- the forms and entry points that are separate code and are not driven above (Alpha wrappers of all seven types, unbaked `Parameters`,
    // the `Convert`/`ConvertOnce` and `*Cam16Unclamped` trait entry points of the inverse directions, the derive-generated UCS routes, collections,
    // dynamic white points with Y_w != 1, stored hues whole turns away): `c16_more.rs`.  Called last, so that the case stream above is unchanged.
    crate::c16_more::run_more(&mut out, &mut rng, thorough, &vcs, &whites);
    out.finish(dir, "\"exhaustive\":{\"note\":\"continuous domain: no finite exhaustive scan; thorough = 7x viewing conditions x 7x colours x 25x UCS\"}");
}
