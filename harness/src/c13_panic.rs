//! C13 — histories in which a colour conversion (or the user's code) **panics** while a buffer is being converted in place.
//!
//! palette's own conversions on `f32`/`f64` do not panic, so the histories run on colour types defined here
//! (`P<ID>`, three layout-compatible "spaces" with `ArrayCast`, `FromColorUnclamped` for every ordered pair and `Clamp`)
//! whose conversion panics on a chosen call, and on `Q<ID>` whose components count how often they are dropped.
//! Everything else is the real API: `FromColorMut` / `IntoColorMut` and both guard types (through the same `family!`
//! dyn-dispatch layer as the ordinary histories of `c13.rs`), `FromColor for Vec / Box<[T]>`, `cast::map_vec_in_place`,
//! `cast::map_slice_box_in_place`.  Every history runs under `catch_unwind`, placed *outside* all guards, so that the unwinding
//! drops the live guards exactly as it would in a user's program.
//!
//! What is compared with what:
//!   * the prediction (terms per slot, as in `c13.rs`) follows `lean/PaletteModel/InPlacePanic.lean`: the elements before the
//!     panicking call are converted, the others are not; the guard whose own conversion panicked does nothing further; every
//!     other live guard converts the whole buffer back once while unwinding.  The `phist` line carries the history, the terms and
//!     whether the real buffer equals the evaluated terms bit for bit; the Lean driver replays it through `InPlace.stepP`.
//!   * oracle clauses (`out.check`), restricted to what C13 itself says or to memory safety:
//!       - `unwind-restores`: a panic in the *user's* code while guards are alive (guards dropped by unwinding = "the guard is
//!         dropped"): the buffer again holds the original type, converted back in a single step per guard;
//!       - `panic-address` / `panic-length` / `panic-capacity`: same memory after any caught panic;
//!       - `no-double-drop`: no component value is ever dropped twice (guard forms and by-value forms, with and without panic);
//!     the partially converted states after a *conversion* panic are **not** oracle clauses (the property is silent about them):
//!     a deviation there is a model disagreement, reported by the driver.
use crate::c13::{family, impl_guard, impl_tgt_start};
use crate::c13::{Conv, DynBuf, DynGuard, Fam, Form, Kind, One, Op, SliceBuf, Term, Tgt, View};
use crate::common::*;
use palette::cast::{self, ArrayCast};
use palette::convert::{
    FromColor, FromColorMut, FromColorMutGuard, FromColorUnclamped, FromColorUnclampedMut, FromColorUnclampedMutGuard, IntoColor, IntoColorMut,
    IntoColorUnclamped, IntoColorUnclampedMut,
};
use palette::Clamp;
use std::cell::{Cell, RefCell};
use std::fmt::Write as _;
use std::panic::{catch_unwind, AssertUnwindSafe};

// ------------------------------------------------------------------------------------------------
// the panic trigger
// ------------------------------------------------------------------------------------------------

thread_local! {
    /// `Some(k)`: the conversion called for the `k`-th time from now on panics (and disarms)
    static ARM: Cell<Option<usize>> = Cell::new(None);
}
fn arm(k: usize) { ARM.with(|a| a.set(Some(k))); }
fn disarm() -> bool { ARM.with(|a| a.replace(None).is_some()) }
#[inline(never)]
fn tick() {
    ARM.with(|a| match a.get() {
        Some(0) => { a.set(None); panic!("C13: conversion panics here"); }
        Some(k) => a.set(Some(k - 1)),
        None => {}
    });
}

// ------------------------------------------------------------------------------------------------
// P<ID>: three f32 "colour spaces" whose conversions can be made to panic
// ------------------------------------------------------------------------------------------------

#[repr(C)]
#[derive(Clone, Copy, Debug, PartialEq)]
pub struct P<const ID: usize>(pub [f32; 3]);
// Safety: `#[repr(C)]` newtype of `[f32; 3]`
unsafe impl<const ID: usize> ArrayCast for P<ID> { type Array = [f32; 3]; }

/// a different affine map for every ordered pair, so that every term has its own value
fn conv_arr(a: usize, b: usize, x: [f32; 3]) -> [f32; 3] {
    let m = 1.0 + 0.25 * ((a * 3 + b) % 7) as f32;
    let c = 0.125 * (b + 1) as f32 - 0.0625 * a as f32;
    [x[0] * m + c, x[1] * m - c, x[2] + c * m]
}
impl<const A: usize, const B: usize> FromColorUnclamped<P<A>> for P<B> {
    fn from_color_unclamped(c: P<A>) -> Self { tick(); P(conv_arr(A, B, c.0)) }
}
impl<const ID: usize> Clamp for P<ID> {
    /// `from_color` = `from_color_unclamped(..).clamp()`: observable, a few hops leave [0, 6]
    fn clamp(self) -> Self { P(self.0.map(|x| x.max(0.0).min(6.0))) }
}

family!(pfam, f32, 3; (0, P<0>, Rgb), (1, P<1>, Rgb), (2, P<2>, Rgb));

// ------------------------------------------------------------------------------------------------
// Q<ID>: components with a counting destructor
// ------------------------------------------------------------------------------------------------

thread_local! { static LEDGER: RefCell<Vec<u32>> = RefCell::new(Vec::new()); }
fn ledger_reset() { LEDGER.with(|l| l.borrow_mut().clear()); }
fn ledger() -> Vec<u32> { LEDGER.with(|l| l.borrow().clone()) }

#[derive(Debug)]
pub struct Trk(u32);
impl Trk { fn new() -> Trk { LEDGER.with(|l| { let mut l = l.borrow_mut(); l.push(0); Trk(l.len() as u32 - 1) }) } }
impl Clone for Trk { fn clone(&self) -> Trk { Trk::new() } }       // a clone is a new value with its own destructor run
impl Drop for Trk { fn drop(&mut self) { LEDGER.with(|l| l.borrow_mut()[self.0 as usize] += 1); } }

#[repr(C)]
#[derive(Clone, Debug)]
pub struct Q<const ID: usize>(pub [Trk; 3]);
// Safety: `#[repr(C)]` newtype of `[Trk; 3]`
unsafe impl<const ID: usize> ArrayCast for Q<ID> { type Array = [Trk; 3]; }
impl<const A: usize, const B: usize> FromColorUnclamped<Q<A>> for Q<B> {
    fn from_color_unclamped(c: Q<A>) -> Self { tick(); Q(c.0) }     // the values move; a panic drops `c` here
}
impl<const ID: usize> Clamp for Q<ID> { fn clamp(self) -> Self { self } }

fn new_q(n: usize) -> Vec<Q<0>> { (0..n).map(|_| Q([Trk::new(), Trk::new(), Trk::new()])).collect() }

// ------------------------------------------------------------------------------------------------
// histories with panics: prediction and interpreter
// ------------------------------------------------------------------------------------------------

#[derive(Clone, Copy, Debug, PartialEq)]
pub enum PS { Op(Op), PanicIn(Op, usize), UserPanic }

fn clc(cl: bool) -> char { if cl { 'c' } else { 'u' } }
fn form_tag(f: Form) -> &'static str { match f { Form::Single => "single", Form::Slice => "slice", Form::Vec => "vec", Form::Boxed => "box" } }
fn show_term(t: &Term, s: &mut String) {
    match t {
        Term::Src(i) => { write!(s, "s{}", i).unwrap(); }
        Term::W(k) => { write!(s, "w{}", k).unwrap(); }
        Term::Conv(cl, a, b, t) => { write!(s, "{}{}.{}(", clc(*cl), a, b).unwrap(); show_term(t, s); s.push(')'); }
    }
}
fn same_bits(a: &[f32; 3], b: &[f32; 3]) -> bool { (0..3).all(|j| a[j].to_bits() == b[j].to_bits() || (a[j] != a[j] && b[j] != b[j])) }

struct PRun<'f> {
    fam: &'f Fam<f32, 3>,
    form: Form,
    n: usize,
    written: Vec<[f32; 3]>,
    steps: &'f [PS],
    pc: usize,
    tag: usize,
    terms: Vec<Term>,
    vals: Vec<[f32; 3]>,
    stack: Vec<(usize, bool)>,   // (original, clamped) of the live guards, innermost last
    ptr0: usize,
    cap0: usize,
    obs: String,
    toks: String,
    problems: Vec<(String, String)>,
    n_obs: u64,
    expect_panic: bool,
    conv_panic_seen: bool,
}

impl<'f> PRun<'f> {
    fn map_conv(&mut self, cl: bool, a: usize, b: usize, upto: usize) {
        for j in 0..upto.min(self.terms.len()) {
            let t = std::mem::replace(&mut self.terms[j], Term::Src(0));
            self.terms[j] = Term::Conv(cl, a, b, Box::new(t));
            self.vals[j] = (self.fam.conv)(cl, a, b, self.vals[j]);
        }
    }
    /// every live guard is dropped by the unwinding, innermost first: one full back-conversion each
    fn predict_unwind(&mut self) {
        while let Some((u, cl)) = self.stack.pop() { let t = self.tag; self.map_conv(cl, t, u, usize::MAX); self.tag = u; }
    }
    fn predict(&mut self, st: PS) {
        match st {
            PS::Op(op) => match op {
                Op::Start { cl, t, .. } => { let u = self.tag; self.map_conv(cl, u, t, usize::MAX); self.stack.push((u, cl)); self.tag = t; }
                Op::Deref => {}
                Op::Write { i, k } => { self.terms[i] = Term::W(k); self.vals[i] = self.written[k]; }
                Op::Then { cl, c } => { let t = self.tag; self.map_conv(cl, t, c, usize::MAX); self.stack.last_mut().unwrap().1 = cl; self.tag = c; }
                Op::Switch => { let top = self.stack.last_mut().unwrap(); top.1 = !top.1; }
                Op::Restore | Op::Drop => { let (u, cl) = self.stack.pop().unwrap(); let t = self.tag; self.map_conv(cl, t, u, usize::MAX); self.tag = u; }
                Op::Forget => { let (u, _) = self.stack.pop().unwrap(); self.tag = u; }
                Op::Own { cl, t, .. } => { let u = self.tag; self.map_conv(cl, u, t, usize::MAX); self.tag = t; }
            },
            PS::UserPanic => self.predict_unwind(),
            PS::PanicIn(op, k) => {
                // a single colour: the one conversion panics before the assignment; slices: the first k elements are converted
                let upto = if self.form == Form::Single { 0 } else { k };
                match op {
                    // no guard is created; the guards that were alive stay alive until the unwinding reaches them
                    Op::Start { cl, t, .. } => { let u = self.tag; self.map_conv(cl, u, t, upto); }
                    // the guard is consumed (its reference was taken before the conversion ran): prefix converted, no restore by it
                    Op::Then { cl, c } => { let t = self.tag; self.map_conv(cl, t, c, upto); let (u, _) = self.stack.pop().unwrap(); self.tag = u; }
                    Op::Restore | Op::Drop => { let (u, cl) = self.stack.pop().unwrap(); let t = self.tag; self.map_conv(cl, t, u, upto); self.tag = u; }
                    _ => unreachable!("no conversion to panic in"),
                }
                self.predict_unwind();
            }
        }
    }
    fn token(&mut self, st: PS, clamped_now: Option<bool>) {
        let s = &mut self.toks;
        if !s.is_empty() { s.push(' '); }
        let (op, k) = match st { PS::Op(o) => (o, None), PS::PanicIn(o, k) => (o, Some(k)), PS::UserPanic => { s.push_str("upanic"); return; } };
        match op {
            Op::Start { cl, t, via } => write!(s, "fcm:{}:{}:{}", clc(cl), t, via).unwrap(),
            Op::Deref => s.push_str("deref"),
            Op::Write { i, k } => write!(s, "w:{}:{}", i, k).unwrap(),
            Op::Then { cl, c } => write!(s, "then:{}:{}", clc(cl), c).unwrap(),
            Op::Switch => s.push_str(if clamped_now == Some(true) { "toU" } else { "toC" }),
            Op::Restore => s.push_str("restore"),
            Op::Drop => s.push_str("drop"),
            Op::Forget => s.push_str("forget"),
            Op::Own { cl, t, via } => write!(s, "own:{}:{}:{}", clc(cl), t, via).unwrap(),
        }
        if let Some(k) = k { write!(s, "!{}", k).unwrap(); }
    }
    fn observe(&mut self, v: View<f32, 3>, g: Option<(usize, bool)>) {
        self.n_obs += 1;
        let what = format!("{}:{}", form_tag(self.form), self.pc);
        let mut ok_vals = v.vals.len() == self.vals.len();
        if ok_vals { for j in 0..v.vals.len() { if !same_bits(&v.vals[j], &self.vals[j]) { ok_vals = false; } } }
        if !ok_vals {
            let j = (0..v.vals.len().min(self.vals.len())).find(|&j| !same_bits(&v.vals[j], &self.vals[j])).unwrap_or(0);
            let mut ts = String::new(); if j < self.terms.len() { show_term(&self.terms[j], &mut ts); }
            self.problems.push(("values".into(), format!("{} slot {} holds {:?} but {} = {:?}", what, j, v.vals.get(j), ts, self.vals.get(j))));
        }
        if v.ptr != self.ptr0 { self.problems.push(("address".into(), format!("{} buffer at {:#x}, was {:#x}", what, v.ptr, self.ptr0))); }
        if v.len != self.n { self.problems.push(("length".into(), format!("{} length {} was {}", what, v.len, self.n))); }
        if let Some(c) = v.cap { if self.form == Form::Vec && c != self.cap0 { self.problems.push(("capacity".into(), format!("{} capacity {} was {}", what, c, self.cap0))); } }
        let s = &mut self.obs;
        write!(s, " ; {} ", v.ty).unwrap();
        match g { Some((o, cl)) => write!(s, "{} {} ", o, clc(cl)).unwrap(), None => s.push_str("- - ") }
        write!(s, "{} {} {} ", (v.ptr == self.ptr0) as u8, v.len, match v.cap { Some(c) if self.form == Form::Vec => c.to_string(), _ => "-".into() }).unwrap();
        write!(s, "{}", ok_vals as u8).unwrap();
        for t in &self.terms { s.push(' '); show_term(t, s); }
    }
    /// the operations on one live guard; returns when the guard has been consumed — or never, when a step panics
    fn episode<'a>(&mut self, mut g: Box<dyn DynGuard<'a, f32, 3> + 'a>) {
        loop {
            if self.pc >= self.steps.len() { return; }
            let st = self.steps[self.pc];
            self.token(st, Some(g.clamped()));
            self.predict(st);
            self.pc += 1;
            let (op, pk) = match st {
                PS::Op(o) => (o, None),
                PS::PanicIn(o, k) => (o, Some(k)),
                PS::UserPanic => { self.expect_panic = true; panic!("C13: the user's code panics while guards are alive"); }
            };
            if let Some(k) = pk { self.expect_panic = true; self.conv_panic_seen = true; arm(k); }
            match op {
                Op::Start { cl, t, via } => {
                    {
                        let inner = g.nest(cl, t, via);      // panics here when armed
                        let gi = (inner.orig(), inner.clamped());
                        self.observe(inner.view(), Some(gi));
                        self.episode(inner);
                    }
                    if !matches!(self.steps[self.pc - 1], PS::Op(Op::Restore)) { let gi = (g.orig(), g.clamped()); self.observe(g.view(), Some(gi)); }
                    continue;
                }
                Op::Deref => {}
                Op::Write { i, k } => g.write(i, self.written[k]),
                Op::Then { cl, c } => g = g.then_into(cl, c),
                Op::Switch => g = g.switch(),
                Op::Restore => { let v = g.restore(); let top = self.stack.last().copied(); self.observe(v, top); return; }
                Op::Drop => { g.drop_(); return; }
                Op::Forget => { g.forget_(); return; }
                Op::Own { .. } => unreachable!(),
            }
            let gi = (g.orig(), g.clamped());
            self.observe(g.view(), Some(gi));
        }
    }
}

pub struct POutcome { pub line: String, pub problems: Vec<(String, String)>, pub n_obs: u64, pub conv_panic: bool, pub leaked: bool }

fn observe_root(r: &mut PRun, buf: &dyn DynBuf<f32, 3>) {
    let mut v = buf.view();
    if r.form != Form::Vec { v.cap = None; }
    r.observe(v, None);
}

/// executes one history with panics on the implementation; every panic is caught here, outside all guards
pub fn run_panic_history(fam: &Fam<f32, 3>, form: Form, u0: usize, cap_extra: usize, init: &[[f32; 3]], written: &[[f32; 3]], steps: &[PS]) -> POutcome {
    let mut buf: Option<Box<dyn DynBuf<f32, 3>>> = Some((fam.new_buf)(form, u0, init, cap_extra));
    let v0 = buf.as_ref().unwrap().view();
    let mut r = PRun { fam, form, n: init.len(), written: written.to_vec(), steps, pc: 0, tag: u0, terms: (0..init.len()).map(Term::Src).collect(), vals: init.to_vec(),
        stack: vec![], ptr0: v0.ptr, cap0: v0.cap.unwrap_or(init.len()), obs: String::new(), toks: String::new(), problems: vec![], n_obs: 0, expect_panic: false, conv_panic_seen: false };
    let mut leaked = false;
    while r.pc < steps.len() && !leaked {
        let st = steps[r.pc];
        let (op, pk) = match st { PS::Op(o) => (Some(o), None), PS::PanicIn(o, k) => (Some(o), Some(k)), PS::UserPanic => (None, None) };
        match op {
            Some(Op::Start { cl, t, via }) => {
                let b = buf.as_mut().unwrap();
                let res = catch_unwind(AssertUnwindSafe(|| {
                    r.token(st, None); r.predict(st); r.pc += 1;
                    if let Some(k) = pk { r.expect_panic = true; r.conv_panic_seen = true; arm(k); }
                    let g = b.start(cl, t, via);          // panics here when armed
                    let gi = (g.orig(), g.clamped());
                    r.observe(g.view(), Some(gi));
                    r.episode(g);
                }));
                let still_armed = disarm();
                match res {
                    Ok(()) => {
                        if r.expect_panic { r.problems.push(("panic".into(), "a step that should panic returned".into())); r.expect_panic = false; }
                        if !matches!(steps[r.pc - 1], PS::Op(Op::Restore)) { observe_root(&mut r, &**buf.as_ref().unwrap()); }
                    }
                    Err(_) => {
                        if !r.expect_panic || still_armed { r.problems.push(("panic".into(), format!("unexpected panic at step {}", r.pc))); }
                        r.expect_panic = false;
                        observe_root(&mut r, &**buf.as_ref().unwrap());
                    }
                }
                continue;
            }
            Some(Op::Write { i, k }) => { r.token(st, None); r.predict(st); r.pc += 1; buf.as_mut().unwrap().write(i, written[k]); }
            Some(Op::Deref) => { r.token(st, None); r.predict(st); r.pc += 1; }
            Some(Op::Own { cl, t, via }) => {
                r.token(st, None); r.pc += 1;
                let owner = buf.take().unwrap();
                match pk {
                    None => { r.predict(st); buf = Some(owner.owned(cl, t, via)); }
                    Some(k) => {
                        r.conv_panic_seen = true;
                        arm(k);
                        let res = catch_unwind(AssertUnwindSafe(move || owner.owned(cl, t, via)));
                        let still_armed = disarm();
                        match res {
                            Err(_) if !still_armed => { leaked = true; r.n_obs += 1; r.obs.push_str(" ; leaked"); continue; }
                            _ => { r.problems.push(("panic".into(), "a by-value conversion that should panic returned".into())); leaked = true; r.obs.push_str(" ; returned"); continue; }
                        }
                    }
                }
            }
            None => { r.token(st, None); r.predict(st); r.pc += 1; let _ = catch_unwind(|| panic!("C13: user panic without guards")); }
            _ => unreachable!("guard operation without a guard"),
        }
        observe_root(&mut r, &**buf.as_ref().unwrap());
    }
    let cap_tok = if form == Form::Vec { r.cap0.to_string() } else { init.len().to_string() };
    let mut line = format!("phist f32 3 {} {} {} {} | {}", form_tag(form), u0, init.len(), cap_tok, r.toks);
    line.push_str(" ;");
    for a in init { for x in a { line.push(' '); line.push_str(&x.hx()); } }
    line.push_str(" ;");
    for a in written { for x in a { line.push(' '); line.push_str(&x.hx()); } }
    line.push_str(" |");
    line.push_str(&r.obs);
    POutcome { line, problems: r.problems, n_obs: r.n_obs, conv_panic: r.conv_panic_seen, leaked }
}

// ------------------------------------------------------------------------------------------------
// generators
// ------------------------------------------------------------------------------------------------

fn gen_color(rng: &mut Rng) -> [f32; 3] { [rng.edgy(0.0, 1.0) as f32, rng.edgy(0.0, 1.0) as f32, rng.edgy(0.0, 1.0) as f32] }

/// a random history with zero, one or several caught panics; valid by construction
fn gen_panic_history(rng: &mut Rng, form: Form, n: usize, max_steps: usize, written: &mut Vec<[f32; 3]>) -> Vec<PS> {
    let nt = 3u64;
    let calls = if form == Form::Single { 1 } else { n };       // conversions per pass
    let mut steps = vec![];
    let mut stack: Vec<bool> = vec![];                          // clamped, per live guard
    let target = 2 + rng.below(max_steps as u64) as usize;
    let owned_ok = form == Form::Vec || form == Form::Boxed;
    let mut panics = 0;
    while steps.len() < target {
        let r = rng.below(100);
        let may_panic = calls > 0 && rng.chance(if panics == 0 { 0.35 } else { 0.15 });
        let k = if calls > 0 { match rng.below(4) { 0 => 0, 1 => calls - 1, _ => rng.below(calls as u64) as usize } } else { 0 };
        if stack.is_empty() {
            if r < 55 {
                let op = Op::Start { cl: rng.chance(0.6), t: rng.below(nt) as usize, via: rng.below(2) as u8 };
                if may_panic { steps.push(PS::PanicIn(op, k)); panics += 1; } else { steps.push(PS::Op(op)); if let Op::Start { cl, .. } = op { stack.push(cl); } }
            } else if r < 65 && n > 0 { let kk = written.len(); written.push(gen_color(rng)); steps.push(PS::Op(Op::Write { i: rng.below(n as u64) as usize, k: kk })); }
            else if r < 70 { steps.push(PS::Op(Op::Deref)); }
            else if r < 73 { steps.push(PS::UserPanic); }
            else if owned_ok {
                let op = Op::Own { cl: rng.chance(0.5), t: rng.below(nt) as usize, via: rng.below(3) as u8 };
                if may_panic && n > 0 && rng.chance(0.4) { steps.push(PS::PanicIn(op, k.min(n - 1))); return steps; }   // the owner is leaked: the history ends
                steps.push(PS::Op(op));
            }
        } else {
            let cl = *stack.last().unwrap();
            if r < 8 { steps.push(PS::Op(Op::Deref)); }
            else if r < 22 && n > 0 { let kk = written.len(); written.push(gen_color(rng)); steps.push(PS::Op(Op::Write { i: rng.below(n as u64) as usize, k: kk })); }
            else if r < 45 {
                let ncl = if rng.chance(0.7) { cl } else { !cl };
                let op = Op::Then { cl: ncl, c: rng.below(nt) as usize };
                if may_panic { steps.push(PS::PanicIn(op, k)); panics += 1; stack.clear(); } else { steps.push(PS::Op(op)); *stack.last_mut().unwrap() = ncl; }
            }
            else if r < 52 { steps.push(PS::Op(Op::Switch)); *stack.last_mut().unwrap() = !cl; }
            else if r < 66 && stack.len() < 3 {
                let op = Op::Start { cl: rng.chance(0.5), t: rng.below(nt) as usize, via: rng.below(2) as u8 };
                if may_panic { steps.push(PS::PanicIn(op, k)); panics += 1; stack.clear(); } else { steps.push(PS::Op(op)); if let Op::Start { cl, .. } = op { stack.push(cl); } }
            }
            else if r < 76 { if may_panic { steps.push(PS::PanicIn(Op::Restore, k)); panics += 1; stack.clear(); } else { steps.push(PS::Op(Op::Restore)); stack.pop(); } }
            else if r < 88 { if may_panic { steps.push(PS::PanicIn(Op::Drop, k)); panics += 1; stack.clear(); } else { steps.push(PS::Op(Op::Drop)); stack.pop(); } }
            else if r < 94 { steps.push(PS::UserPanic); panics += 1; stack.clear(); }
            else { steps.push(PS::Op(Op::Forget)); stack.pop(); }
        }
    }
    while !stack.is_empty() {
        let r = rng.below(10);
        steps.push(PS::Op(if r < 5 { Op::Drop } else if r < 9 { Op::Restore } else { Op::Forget }));
        stack.pop();
    }
    steps
}

fn emit(out: &mut Out, fam: &Fam<f32, 3>, form: Form, u0: usize, cap_extra: usize, init: &[[f32; 3]], written: &[[f32; 3]], steps: &[PS]) {
    let key = form_tag(form);
    let res = catch_unwind(AssertUnwindSafe(|| run_panic_history(fam, form, u0, cap_extra, init, written, steps)));
    disarm();
    match res {
        Ok(o) => {
            out.case(&o.line);
            let find = |c: &str| o.problems.iter().find(|p| p.0 == c);
            let short = || if o.line.len() > 1200 { o.line[..1200].to_string() } else { o.line.clone() };
            for clause in ["address", "length", "capacity", "panic"] {
                let bad = find(clause);
                out.check(bad.is_none(), &format!("panic-{}:{}", clause, key), || format!("{} :: {}", bad.unwrap().1, short()));
            }
            // values: an oracle clause only where the property speaks (guards dropped by an unwinding that no conversion caused)
            if !o.conv_panic {
                let bad = find("values");
                out.check(bad.is_none(), &format!("unwind-restores:{}", key), || format!("{} :: {}", bad.unwrap().1, short()));
            }
            out.oracle_evals += o.n_obs.saturating_sub(1);
            out.count(&format!("cls:panic-history:form:{}", key));
            out.count(&format!("cls:panic-history:len:{}", match init.len() { 0 => "0", 1 => "1", 2..=4 => "2-4", _ => "5+" }));
            if o.leaked { out.count("cls:panic-history:owner-leaked"); }
            for st in steps { out.count(match st {
                PS::Op(_) => "cls:panic-step:completes", PS::UserPanic => "cls:panic-step:user-panic",
                PS::PanicIn(Op::Start { .. }, _) => "cls:panic-step:in-from_color_mut", PS::PanicIn(Op::Then { .. }, _) => "cls:panic-step:in-then_into",
                PS::PanicIn(Op::Restore, _) => "cls:panic-step:in-restore", PS::PanicIn(Op::Drop, _) => "cls:panic-step:in-drop", PS::PanicIn(Op::Own { .. }, _) => "cls:panic-step:in-owned",
                PS::PanicIn(..) => "cls:panic-step:other" }); }
        }
        Err(_) => { out.check(false, &format!("panic-escaped:{}", key), || format!("a panic escaped the history: u0={} n={} steps={:?}", u0, init.len(), steps)); }
    }
}

// ------------------------------------------------------------------------------------------------
// counting destructors: by-value forms (compared with the model) and guard forms (oracle only)
// ------------------------------------------------------------------------------------------------

/// per slot: how often its value was dropped (the three components of a slot must agree; a disagreement is reported as 99)
fn slot_counts(n: usize) -> Vec<u32> {
    let l = ledger();
    (0..n).map(|j| { let c = &l[3 * j..3 * j + 3]; if c[0] == c[1] && c[1] == c[2] { c[0] } else { 99 } }).collect()
}

fn owned_case(out: &mut Out, form: Form, via: u8, n: usize, k: Option<usize>) {
    ledger_reset();
    let v = new_q(n);                                   // ids 3j..3j+2 belong to slot j
    if let Some(k) = k { arm(k); }
    // the conversions move the values (no clone): a slot's value keeps its identity through the conversion
    let res: Result<Box<dyn std::any::Any>, _> = catch_unwind(AssertUnwindSafe(move || -> Box<dyn std::any::Any> {
        match (form, via) {
            (Form::Vec, 0) => Box::new(cast::map_vec_in_place(v, |a: Q<0>| -> Q<1> { tick(); Q(a.0) })),
            (Form::Vec, 1) => Box::new(<Vec<Q<1>> as FromColor<Vec<Q<0>>>>::from_color(v)),
            (Form::Vec, 2) => Box::new(<Vec<Q<1>> as FromColorUnclamped<Vec<Q<0>>>>::from_color_unclamped(v)),
            (Form::Vec, _) => { let r: Vec<Q<1>> = v.into_color(); Box::new(r) }
            (_, 0) => Box::new(cast::map_slice_box_in_place(v.into_boxed_slice(), |a: Q<0>| -> Q<1> { tick(); Q(a.0) })),
            (_, 1) => Box::new(<Box<[Q<1>]> as FromColor<Box<[Q<0>]>>>::from_color(v.into_boxed_slice())),
            (_, 2) => Box::new(<Box<[Q<1>]> as FromColorUnclamped<Box<[Q<0>]>>>::from_color_unclamped(v.into_boxed_slice())),
            (_, _) => { let r: Box<[Q<1>]> = v.into_boxed_slice().into_color_unclamped(); Box::new(r) }
        }
    }));
    let still_armed = disarm();
    let d = slot_counts(n);
    let panicked = res.is_err();
    drop(res);                                           // the result, if there is one, is dropped here
    let e = slot_counts(n);
    let l = ledger();
    let expect_panic = matches!(k, Some(k) if k < n);
    out.check(panicked == expect_panic && !(expect_panic && still_armed), &format!("owned-panic-as-armed:{}", form_tag(form)), || format!("via {} n {} k {:?}: panicked {}", via, n, k, panicked));
    // memory safety: nothing is ever dropped twice (no value beyond the 3n initial ones exists: the conversions move)
    out.check(l.iter().all(|c| *c <= 1) && l.len() == 3 * n, &format!("no-double-drop:owned:{}", form_tag(form)), || format!("via {} n {} k {:?}: drop counts {:?}", via, n, k, l));
    let show = |v: &Vec<u32>| v.iter().map(|x| x.to_string()).collect::<Vec<_>>().join(" ");
    out.case(&format!("pown {} {} {} {} | | {} ; {}", form_tag(form), via, n, match k { Some(k) => k.to_string(), None => "-".into() }, show(&d), show(&e)));
    out.count(if panicked { "cls:owned-drop-count:panicked" } else { "cls:owned-drop-count:finished" });
    out.maxi("owned-panic-leaked-values", e.iter().filter(|c| **c == 0).count() as f64);
}

/// guard forms on `Q`: forward conversion, back-conversion in `Drop` or a user panic may panic; afterwards the buffer is dropped.
/// Oracle: no value is dropped twice, at any point.  (That nothing is leaked either is recorded, not demanded.)
fn guard_drop_case(out: &mut Out, rng: &mut Rng, n: usize) {
    ledger_reset();
    let mut v = new_q(n);
    let which = rng.below(5);
    let k = if n == 0 { 0 } else { rng.below(n as u64) as usize };
    let cl = rng.chance(0.5);
    let res = catch_unwind(AssertUnwindSafe(|| {
        match which {
            0 => { if n > 0 { arm(k); } if cl { let g = <[Q<1>]>::from_color_mut(&mut v[..]); drop(g); } else { let g = <[Q<1>]>::from_color_unclamped_mut(&mut v[..]); drop(g); } }   // forward conversion panics
            1 => { let g = <[Q<1>]>::from_color_mut(&mut v[..]); if n > 0 { arm(k); } drop(g); }                                   // the back-conversion in `Drop` panics
            2 => { let g = <[Q<1>]>::from_color_mut(&mut v[..]); if n > 0 { arm(k); } let _g2 = g.then_into_color_mut::<[Q<2>]>(); }
            3 => { let _g = <[Q<1>]>::from_color_unclamped_mut(&mut v[..]); panic!("C13: user panic"); }
            _ => { if n > 0 { let g = Q::<2>::from_color_mut(&mut v[0]); arm(0); let _ = g.restore(); } }                             // single colour, `restore` panics
        }
    }));
    disarm();
    let mid = ledger();
    drop(v);
    let l = ledger();
    out.check(mid.iter().all(|c| *c <= 1) && l.iter().all(|c| *c <= 1), "no-double-drop:guard-forms", || format!("scenario {} n {} k {} cl {}: panicked {}, counts {:?} then {:?}", which, n, k, cl, res.is_err(), mid, l));
    out.maxi("guard-form-leaked-values", l.iter().filter(|c| **c == 0).count() as f64);
    out.count(&format!("cls:guard-drop-count:scenario{}:{}", which, if res.is_err() { "panicked" } else { "completed" }));
}

pub fn run_panics(out: &mut Out, rng: &mut Rng, tier: &str) {
    let fam = pfam::fam();
    let forms = [Form::Single, Form::Slice, Form::Vec, Form::Boxed];
    let (n_random, n_guard) = match tier { "thorough" => (60_000, 20_000), "miri" => (150, 60), _ => (8_000, 3_000) };
    // ---- structured: every panicking operation x every element index x form, with and without an outer guard alive
    for form in forms { for n in [1usize, 2, 4] {
        if form == Form::Single && n != 1 { continue; }
        for k in 0..n { for outer in [false, true] { for (ci, cl) in [true, false].into_iter().enumerate() {
            let init: Vec<[f32; 3]> = (0..n).map(|_| gen_color(rng)).collect();
            let written = vec![gen_color(rng)];
            let u0 = (k + ci) % 3;
            let pre: Vec<PS> = if outer { vec![PS::Op(Op::Start { cl: !cl, t: (u0 + 1) % 3, via: 0 }), PS::Op(Op::Write { i: n - 1, k: 0 })] } else { vec![] };
            let closing: Vec<PS> = if outer { vec![PS::Op(Op::Start { cl, t: u0, via: 1 }), PS::Op(Op::Drop)] } else { vec![] };
            // (a) `from_color_mut` panics
            let mut s = pre.clone(); s.push(PS::PanicIn(Op::Start { cl, t: (u0 + 2) % 3, via: (k % 2) as u8 }, k)); s.extend(closing.clone());
            emit(out, &fam, form, u0, k % 3, &init, &written, &s);
            // (b)-(d) `then_into_*`, `restore`, `drop` panic on a guard (nested inside `pre` when `outer`)
            for what in 0..3 {
                let mut s = pre.clone();
                s.push(PS::Op(Op::Start { cl, t: (u0 + 2) % 3, via: 1 }));
                s.push(match what { 0 => PS::PanicIn(Op::Then { cl: !cl, c: u0 }, k), 1 => PS::PanicIn(Op::Restore, k), _ => PS::PanicIn(Op::Drop, k) });
                s.extend(closing.clone());
                emit(out, &fam, form, u0, (k + what) % 3, &init, &written, &s);
            }
            // (e) the user's code panics with one or two guards alive
            let mut s = pre.clone(); s.push(PS::Op(Op::Start { cl, t: (u0 + 2) % 3, via: 0 })); s.push(PS::Op(Op::Then { cl, c: (u0 + 1) % 3 })); s.push(PS::UserPanic);
            emit(out, &fam, form, u0, 0, &init, &written, &s);
            // (f) by-value conversion panics
            if !outer && (form == Form::Vec || form == Form::Boxed) {
                for via in 0..3u8 { emit(out, &fam, form, u0, via as usize, &init, &written, &[PS::Op(Op::Own { cl: !cl, t: (u0 + 1) % 3, via }), PS::PanicIn(Op::Own { cl, t: (u0 + 2) % 3, via }, k)]); }
            }
        } } }
    } }
    // ---- random histories with panics
    for _ in 0..n_random {
        let form = *rng.pick(&forms);
        let n = if form == Form::Single { 1 } else { match rng.below(8) { 0 => 0, 1 => 1, _ => 1 + rng.below(6) as usize } };
        let init: Vec<[f32; 3]> = (0..n).map(|_| gen_color(rng)).collect();
        let mut written = vec![];
        let steps = gen_panic_history(rng, form, n, 9, &mut written);
        emit(out, &fam, form, rng.below(3) as usize, rng.below(4) as usize, &init, &written, &steps);
    }
    // ---- counting destructors
    for form in [Form::Vec, Form::Boxed] { for via in 0..4u8 { for n in 0..6usize {
        owned_case(out, form, via, n, None);
        for k in 0..n { owned_case(out, form, via, n, Some(k)); }
    } } }
    for _ in 0..n_guard { let n = rng.below(6) as usize; guard_drop_case(out, rng, n); }
}
