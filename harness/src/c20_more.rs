//! C20 coverage audit (`AUDIT_C20.md`): forms, shapes, entry points and type parameters inside the property's quantifier that `c20.rs`
//! does not drive.  Called last by `c20::run`, so the case stream above it is unchanged.
//!
//!  A. the NON-STRUCT arms of `AlphaSerializer` / `AlphaDeserializer` ("struct, tuple and flattened shapes"): every palette colour is a
//!     derived struct, so `c20.rs` only ever reaches `serialize_struct` / `deserialize_struct`.  `Alpha<X, T>` is generic in `X`; the arms
//!     for unit, unit struct, newtype, tuple struct, tuple / array, sequence, map and `#[serde(flatten)]` hosts are reached with
//!     harness-defined colour-like `X` (the same ones palette's own feature-gated `serde_various_types` test uses, plus sequence / map /
//!     flatten).  Predicate: the property's own (round trip, own elements plus alpha at the same level, missing alpha = full opacity).
//!  B. `Alpha<C, A>` with `A` different from the colour's component type, and integer alphas beyond `u8` (`max_intensity` of `u16`/`u32`).
//!  C. `as_array` / `as_uint` under their direct names (`serialize_as_array`, ..) and for further `ArrayCast` / `UintCast` types.
//!  D. other entry points of the two formats (`to_value`/`from_value`, `to_vec`/`from_slice`, `from_reader`, pretty, RON with struct names,
//!     `ron::de::from_bytes` / `from_reader`).
//!  E. identifiers presented as byte strings (`AlphaFieldVisitor::visit_bytes`), through serde's own `MapDeserializer`.
//! Helper code is instantiated per concrete type by macros; no palette trait bound is restated in generic code (the generic helpers only
//! ask the concrete wrapper type for `Serialize + DeserializeOwned`).
use crate::c20::Comp;
use crate::c20_tree::*;
use crate::common::*;
use ::serde::de::value::MapDeserializer;
use ::serde::de::{self, DeserializeOwned, MapAccess, SeqAccess, Visitor};
use ::serde::ser::{SerializeMap, SerializeSeq};
use ::serde::{Deserialize, Deserializer, Serialize, Serializer};
use palette::blend::PreAlpha;
use palette::cast;
use palette::stimulus::Stimulus;
use palette::white_point::D65;
use palette::{encoding, Alpha};
use std::fmt;
use std::marker::PhantomData;
use std::panic::{catch_unwind, AssertUnwindSafe};

fn guarded<R>(f: impl FnOnce() -> R) -> Option<R> { catch_unwind(AssertUnwindSafe(f)).ok() }
fn toks<T: Comp>(xs: &[T]) -> String { xs.iter().map(|x| x.tok()).collect::<Vec<_>>().join(" ") }
/// full opacity of an alpha of component type `T`, stated independently of `Stimulus::max_intensity` (which the helpers call)
fn opaque_tok<T: Comp>() -> String { match T::TAG { "f32" => h32(1.0), "f64" => h64(1.0), _ => "255".to_string() } }
fn rec<X: Serialize + ?Sized>(x: &X) -> Option<Node> { guarded(|| record(x).ok()).flatten() }

const FORMATS: [&str; 3] = ["json", "ron", "ron-named"];
fn to_text<X: Serialize>(fmt: &str, x: &X) -> Option<String> {
    guarded(|| match fmt {
        "json" => serde_json::to_string(x).ok(),
        "json-pretty" => serde_json::to_string_pretty(x).ok(),
        "ron" => ron::to_string(x).ok(),
        // RON that spells struct names (`Rgb(red:..)`), as palette's own deserialize tests write it
        _ => ron::ser::to_string_pretty(x, ron::ser::PrettyConfig::new().struct_names(true)).ok(),
    }).flatten()
}
fn from_text<X: DeserializeOwned>(fmt: &str, s: &str) -> Result<X, String> {
    guarded(|| if fmt.starts_with("json") { serde_json::from_str::<X>(s).map_err(|e| e.to_string()) } else { ron::from_str::<X>(s).map_err(|e| e.to_string()) }).unwrap_or(Err("panic".into()))
}

// ------------------------------------------------------------------------------------------------ trees
/// top-level entries `(key, value token)` of a recorded tree whose children are all leaves (numbers, or a newtype around a number);
/// `None` when something is nested deeper or is not a number
fn entries(n: &Node) -> Option<Vec<(Option<String>, String)>> {
    fn leaf_tok(n: &Node) -> Option<String> { match n { Node::Num(s) => Some(s.clone()), Node::Newtype(_, v) => if let Node::Num(s) = &**v { Some(s.clone()) } else { None }, _ => None } }
    match n {
        Node::Unit | Node::UnitStruct(_) => Some(vec![]),
        Node::Newtype(_, v) => leaf_tok(v).map(|t| vec![(None, t)]),
        Node::Seq(_, xs) | Node::Tuple(_, xs) | Node::TupleStruct(_, _, xs) => xs.iter().map(|x| leaf_tok(x).map(|t| (None, t))).collect(),
        Node::Struct(_, _, fs) => fs.iter().map(|(k, v)| leaf_tok(v).map(|t| (Some(k.to_string()), t))).collect(),
        Node::Map(_, es) => es.iter().map(|(k, v)| match k { Node::Other(s) => s.strip_prefix("str:").and_then(|k| leaf_tok(v).map(|t| (Some(k.to_string()), t))), _ => None }).collect(),
        _ => None,
    }
}
fn keyed(n: &Node) -> bool { matches!(n, Node::Struct(..) | Node::Map(..)) }
/// the length a tree declares to its serializer is the number of elements it then writes (what a length-prefixed compact format relies on)
fn declared_ok(n: &Node) -> bool {
    match n {
        Node::Seq(l, xs) => l.map_or(true, |l| l == xs.len()),
        Node::Tuple(l, xs) | Node::TupleStruct(_, l, xs) => *l == xs.len(),
        Node::Map(l, es) => l.map_or(true, |l| l == es.len()),
        Node::Struct(_, l, fs) => *l == fs.len(),
        _ => true,
    }
}
/// a colour with alpha is the colour's own entries plus one more at the same level, named `alpha` where entries have names
fn flat_ok(plain: &Node, with: &Node, a: &str) -> bool {
    match (entries(plain), entries(with)) {
        (Some(mut p), Some(w)) => { p.push((if keyed(with) { Some("alpha".to_string()) } else { None }, a.to_string())); p == w }
        _ => false,
    }
}
/// the compact (sequence) presentation of a recorded tree
fn compact(n: &Node) -> Option<GIn> {
    match n {
        Node::Newtype(_, v) => Some(GIn::Val(leaf(v))),
        Node::Seq(_, xs) | Node::Tuple(_, xs) | Node::TupleStruct(_, _, xs) => Some(GIn::Seq(xs.iter().map(leaf).collect())),
        Node::Struct(..) => as_seq(n),
        _ => None,
    }
}
/// what serde_json shows of a value: entries (key, number text), children all scalars
fn json_entries(text: &str) -> Option<Vec<(Option<String>, String)>> {
    let v: serde_json::Value = serde_json::from_str(text).ok()?;
    let num = |x: &serde_json::Value| if let serde_json::Value::Number(n) = x { Some(n.to_string()) } else { None };
    let mut es: Vec<(Option<String>, String)> = match &v {
        serde_json::Value::Null => vec![],
        serde_json::Value::Number(n) => vec![(None, n.to_string())],
        serde_json::Value::Array(xs) => xs.iter().map(|x| num(x).map(|t| (None, t))).collect::<Option<Vec<_>>>()?,
        serde_json::Value::Object(m) => m.iter().map(|(k, x)| num(x).map(|t| (Some(k.clone()), t))).collect::<Option<Vec<_>>>()?,
        _ => return None,
    };
    if matches!(v, serde_json::Value::Object(_)) { es.sort(); }
    Some(es)
}

// ------------------------------------------------------------------------------------------------ A. colour-like values of every shape
#[derive(Serialize, Deserialize)] struct Empty;
#[derive(Serialize, Deserialize)] struct UnitTuple();
#[derive(Serialize, Deserialize)] struct Newtype<T>(T);
#[derive(Serialize, Deserialize)] struct Tuple2<T>(T, T);
#[derive(Serialize, Deserialize)] struct Named<T> { value: T, other: T }
/// a user struct that carries a colour through `#[serde(flatten)]`: serde derives `serialize_map(None)` / `deserialize_map` for it
#[derive(Serialize, Deserialize)] struct Flat<C> { #[serde(flatten)] color: C }
/// a colour that presents itself as a sequence of exactly three numbers (`serialize_seq` / `deserialize_seq`)
struct SeqColor<T>([T; 3]);
impl<T: Serialize> Serialize for SeqColor<T> {
    fn serialize<S: Serializer>(&self, s: S) -> Result<S::Ok, S::Error> { let mut q = s.serialize_seq(Some(3))?; for x in &self.0 { q.serialize_element(x)?; } q.end() }
}
impl<'de, T: Deserialize<'de>> Deserialize<'de> for SeqColor<T> {
    fn deserialize<D: Deserializer<'de>>(d: D) -> Result<Self, D::Error> {
        struct V<T>(PhantomData<T>);
        impl<'de, T: Deserialize<'de>> Visitor<'de> for V<T> {
            type Value = SeqColor<T>;
            fn expecting(&self, f: &mut fmt::Formatter) -> fmt::Result { f.write_str("three numbers") }
            fn visit_seq<A: SeqAccess<'de>>(self, mut a: A) -> Result<SeqColor<T>, A::Error> {
                let x = a.next_element()?.ok_or_else(|| de::Error::invalid_length(0, &self))?;
                let y = a.next_element()?.ok_or_else(|| de::Error::invalid_length(1, &self))?;
                let z = a.next_element()?.ok_or_else(|| de::Error::invalid_length(2, &self))?;
                Ok(SeqColor([x, y, z]))
            }
        }
        d.deserialize_seq(V(PhantomData))
    }
}
/// a colour that presents itself as a map with a declared length, key and value written separately (`serialize_map(Some)`,
/// `serialize_key` / `serialize_value`, `deserialize_map` with identifier keys)
struct MapColor<T> { x: T, y: T }
impl<T: Serialize> Serialize for MapColor<T> {
    fn serialize<S: Serializer>(&self, s: S) -> Result<S::Ok, S::Error> {
        let mut m = s.serialize_map(Some(2))?; m.serialize_key("x")?; m.serialize_value(&self.x)?; m.serialize_key("y")?; m.serialize_value(&self.y)?; m.end()
    }
}
enum XY { X, Y }
impl<'de> Deserialize<'de> for XY {
    fn deserialize<D: Deserializer<'de>>(d: D) -> Result<Self, D::Error> {
        struct V;
        impl<'de> Visitor<'de> for V {
            type Value = XY;
            fn expecting(&self, f: &mut fmt::Formatter) -> fmt::Result { f.write_str("x or y") }
            fn visit_str<E: de::Error>(self, v: &str) -> Result<XY, E> { match v { "x" => Ok(XY::X), "y" => Ok(XY::Y), _ => Err(E::unknown_field(v, &["x", "y"])) } }
        }
        d.deserialize_identifier(V)
    }
}
impl<'de, T: Deserialize<'de>> Deserialize<'de> for MapColor<T> {
    fn deserialize<D: Deserializer<'de>>(d: D) -> Result<Self, D::Error> {
        struct V<T>(PhantomData<T>);
        impl<'de, T: Deserialize<'de>> Visitor<'de> for V<T> {
            type Value = MapColor<T>;
            fn expecting(&self, f: &mut fmt::Formatter) -> fmt::Result { f.write_str("a map with x and y") }
            fn visit_map<A: MapAccess<'de>>(self, mut m: A) -> Result<MapColor<T>, A::Error> {
                let (mut x, mut y) = (None, None);
                while let Some(k) = m.next_key::<XY>()? {
                    match k {
                        XY::X => { if x.is_some() { return Err(de::Error::duplicate_field("x")); } x = Some(m.next_value()?); }
                        XY::Y => { if y.is_some() { return Err(de::Error::duplicate_field("y")); } y = Some(m.next_value()?); }
                    }
                }
                Ok(MapColor { x: x.ok_or_else(|| de::Error::missing_field("x"))?, y: y.ok_or_else(|| de::Error::missing_field("y"))? })
            }
        }
        d.deserialize_map(V(PhantomData))
    }
}

/// one colour-like value `x`, the same with alpha `w`, through every route; `parts` / `oparts` give (recorded colour, alpha)
#[allow(clippy::too_many_arguments)]
fn shape_case<X, W, O, T: Comp>(out: &mut Out, kind: &str, x: &X, w: &W, a: T, parts: impl Fn(&W) -> (Option<Node>, T), oparts: impl Fn(&O) -> (Option<Node>, T), opt: bool)
where X: Serialize + DeserializeOwned, W: Serialize + DeserializeOwned, O: DeserializeOwned {
    let key = format!("shape-{}:{}", kind, T::TAG);
    let (nx, nw) = (rec(x), rec(w));
    out.check(nx.is_some() && nw.is_some(), &format!("serialize-ok:{}", key), || format!("alpha {}: recording the data model failed or panicked (plain {} with alpha {})", a.tok(), nx.is_some(), nw.is_some()));
    let (nx, nw) = match (nx, nw) { (Some(p), Some(q)) => (p, q), _ => return };
    let show = |n: &Node| n.tok();
    let same = |b: &W| { let (bc, ba) = parts(b); bc.as_ref() == Some(&nx) && ba.tok() == a.tok() };
    // the colour's own elements plus the alpha at the same level; declared length = written length
    out.check(flat_ok(&nx, &nw, &a.tok()), &format!("alpha-flat:{}", key), || format!("plain {} with alpha {} -> {}", show(&nx), a.tok(), show(&nw)));
    out.check(declared_ok(&nw), &format!("length-declared:{}", key), || format!("{} declares a length it does not write", show(&nw)));
    for fmt in FORMATS {
        // only where the format can carry the plain value at all (RON has no flattened / string-keyed identifier maps, ..)
        let plain_ok = to_text(fmt, x).map_or(false, |t| matches!(from_text::<X>(fmt, &t), Ok(b) if rec(&b).as_ref() == Some(&nx)));
        if !plain_ok { out.count(&format!("cls:shape-format-cannot-carry-plain:{}:{}", fmt, kind)); continue; }
        let tx = to_text(fmt, x).unwrap();
        match to_text(fmt, w) {
            None => out.check(false, &format!("serialize-ok:{}:{}", fmt, key), || format!("{} with alpha {} failed to serialize or panicked", show(&nx), a.tok())),
            Some(tw) => {
                let back = from_text::<W>(fmt, &tw);
                out.check(matches!(&back, Ok(b) if same(b)), &format!("roundtrip:{}:{}", fmt, key), || format!("{} -> {} -> {}", show(&nw), tw, match &back { Ok(_) => "a different value".to_string(), Err(e) => format!("error {}", e) }));
                if fmt == "json" {
                    let (jp, jw) = (json_entries(&tx), json_entries(&tw));
                    let want = jp.map(|mut p| { p.push((if keyed(&nw) { Some("alpha".to_string()) } else { None }, serde_json::to_string(&a).ok().and_then(|t| json_entries(&t)).and_then(|v| v.into_iter().next()).map_or(String::new(), |e| e.1))); if keyed(&nw) { p.sort(); } p });
                    out.check(want.is_some() && want == jw, &format!("alpha-flat:json:{}", key), || format!("plain {} with alpha {}", tx, tw));
                }
                if opt {
                    // data without an alpha gives full opacity; data with one gives it back
                    let r = from_text::<O>(fmt, &tx).map(|o| oparts(&o));
                    out.check(matches!(&r, Ok((c, b)) if c.as_ref() == Some(&nx) && b.tok() == opaque_tok::<T>()), &format!("optional-alpha:absent:{}:{}", fmt, key), || format!("{} -> {:?}", tx, r.as_ref().map(|(c, b)| format!("{} {}", c.as_ref().map_or("?".into(), |c| c.tok()), b.tok()))));
                    let r = from_text::<O>(fmt, &tw).map(|o| oparts(&o));
                    out.check(matches!(&r, Ok((c, b)) if c.as_ref() == Some(&nx) && b.tok() == a.tok()), &format!("optional-alpha:present:{}:{}", fmt, key), || format!("{} -> {:?}", tw, r.as_ref().map(|(c, b)| format!("{} {}", c.as_ref().map_or("?".into(), |c| c.tok()), b.tok()))));
                }
            }
        }
    }
    // compact sequence form of the recorded tree, read back by the generic reader: whole sequence visible (serde_json style) and cut at
    // the announced length (bincode / postcard style).  The struct shape under a length-bounded reader is the known limitation that
    // `c20.rs` counts as information (`bounded_sequence_reader_loses_alpha`); every other shape announces `len + 1` itself.
    if let Some(gin) = compact(&nw) {
        for bounded in [false, true] {
            if bounded && matches!(nw, Node::Struct(..)) { continue; }
            let back = guarded(|| W::deserialize(TreeDe { input: &gin, bounded }));
            out.check(matches!(&back, Some(Ok(b)) if same(b)), &format!("roundtrip:{}:{}", if bounded { "compact-bounded" } else { "compact" }, key), || format!("{} -> {} -> {}", show(&nw), gin.toks(), match &back { Some(Ok(_)) => "a different value".to_string(), Some(Err(e)) => format!("error {}", e.0), None => "panic".into() }));
        }
    }
    out.count(&format!("cls:shape:{}", kind));
}

macro_rules! shapes { ($out:expr, $rng:expr, $n:expr, $t:ty) => {{
    type T = $t;
    // `#[serde(deserialize_with = "palette::serde::deserialize_with_optional_alpha")]`, at this alpha type
    struct O<X>(Alpha<X, T>);
    impl<'de, X: Deserialize<'de>> Deserialize<'de> for O<X> { fn deserialize<D: Deserializer<'de>>(d: D) -> Result<Self, D::Error> { palette::serde::deserialize_with_optional_alpha(d).map(O) } }
    macro_rules! one { ($a:expr, $kind:literal, $x:ty, $mk:expr, $opt:expr) => {
        shape_case::<$x, Alpha<$x, T>, O<$x>, T>($out, $kind, &$mk, &Alpha { color: $mk, alpha: $a }, $a, |w| (rec(&w.color), w.alpha), |o| (rec(&o.0.color), o.0.alpha), $opt);
    } }
    for _ in 0..$n {
        let (p, q, r): (T, T, T) = (<T as Comp>::gen($rng), <T as Comp>::gen($rng), <T as Comp>::gen($rng));
        let a: T = <T as Comp>::gen($rng);
        one!(a, "unit", (), (), false);
        one!(a, "unit-struct", Empty, Empty, false);
        one!(a, "unit-tuple", UnitTuple, UnitTuple(), false);
        one!(a, "newtype", Newtype<T>, Newtype(p), false);
        one!(a, "tuple-struct", Tuple2<T>, Tuple2(p, q), true);
        one!(a, "struct", Named<T>, Named { value: p, other: q }, true);
        one!(a, "tuple", (T, T, T), (p, q, r), true);
        one!(a, "array", [T; 3], [p, q, r], true);
        one!(a, "seq", SeqColor<T>, SeqColor([p, q, r]), true);
        one!(a, "map", MapColor<T>, MapColor { x: p, y: q }, true);
        one!(a, "flatten-rgb", Flat<palette::rgb::Rgb<encoding::Srgb, T>>, Flat { color: palette::rgb::Rgb::<encoding::Srgb, T>::new(p, q, r) }, true);
        one!(a, "flatten-hsl", Flat<palette::Hsl<encoding::Srgb, T>>, Flat { color: palette::Hsl::<encoding::Srgb, T>::new_srgb(p, q, r) }, true);
    }
}} }

// ------------------------------------------------------------------------------------------------ B. alpha of another component type
/// `C` with components `T` under `Alpha<C, A>`, `A != T`: same clauses as `c20::colour`, evaluated bit for bit; `ser` / `de` lines for the
/// model (its tokens are opaque, so mixed component types need no new op)
#[allow(clippy::too_many_arguments)]
fn mixed_case<C, W, O, T: Comp, A: Comp>(out: &mut Out, ty: &str, c: &C, w: &W, comps: &[T], a: A, parts: impl Fn(&W) -> (String, A), oparts: impl Fn(&O) -> (String, A))
where C: Serialize + DeserializeOwned, W: Serialize + DeserializeOwned, O: DeserializeOwned {
    let key = format!("{}:{}+{}", ty, T::TAG, A::TAG);
    let inp = format!("{} {}", toks(comps), a.tok());
    let (nc, nw) = (rec(c), rec(w));
    out.check(nc.is_some() && nw.is_some(), &format!("serialize-ok:{}", key), || format!("{}: recording the data model failed or panicked", inp));
    let (nc, nw) = match (nc, nw) { (Some(p), Some(q)) => (p, q), _ => return };
    out.case(&format!("ser {} {} alpha | {} | {}", ty, T::TAG, inp, nw.tok()));
    out.check(flat_ok(&nc, &nw, &a.tok()) && keyed(&nw) && declared_ok(&nw), &format!("alpha-flat:{}", key), || format!("plain {} with alpha {}", nc.tok(), nw.tok()));
    let same = |b: &W| { let (bc, ba) = parts(b); bc == toks(comps) && ba.tok() == a.tok() };
    let want_absent = format!("{} {}", toks(comps), opaque_tok::<A>());
    let want_present = inp.clone();
    let show_o = |r: &Result<(String, A), String>| match r { Ok((c, b)) => format!("ok {} {}", c, b.tok()), Err(e) => format!("error {}", e) };
    for fmt in FORMATS {
        let (tc, tw) = match (to_text(fmt, c), to_text(fmt, w)) { (Some(p), Some(q)) => (p, q), _ => { out.check(false, &format!("serialize-ok:{}:{}", fmt, key), || format!("{} failed to serialize or panicked", inp)); continue; } };
        let back = from_text::<W>(fmt, &tw);
        out.check(matches!(&back, Ok(b) if same(b)), &format!("roundtrip:{}:{}", fmt, key), || format!("{} -> {} -> {}", inp, tw, match &back { Ok(_) => "a different colour".to_string(), Err(e) => format!("error {}", e) }));
        let r = from_text::<O>(fmt, &tc).map(|o| oparts(&o));
        out.check(matches!(&r, Ok((c, b)) if format!("{} {}", c, b.tok()) == want_absent), &format!("optional-alpha:absent:{}:{}", fmt, key), || format!("{} -> {}, want {}", tc, show_o(&r), want_absent));
        let r = from_text::<O>(fmt, &tw).map(|o| oparts(&o));
        out.check(matches!(&r, Ok((c, b)) if format!("{} {}", c, b.tok()) == want_present), &format!("optional-alpha:present:{}:{}", fmt, key), || format!("{} -> {}, want {}", tw, show_o(&r), want_present));
    }
    for (form, gw, gc) in [("tree-map", as_map(&nw), as_map(&nc)), ("tree-seq", as_seq(&nw), as_seq(&nc)), ("tree-idx", as_idx(&nw), as_idx(&nc))] {
        let (gw, gc) = match (gw, gc) { (Some(p), Some(q)) => (p, q), _ => { out.check(false, &format!("struct-shape:{}", key), || format!("not a struct: {}", nw.tok())); continue; } };
        let back = guarded(|| W::deserialize(TreeDe { input: &gw, bounded: false }));
        out.check(matches!(&back, Some(Ok(b)) if same(b)), &format!("roundtrip:{}:{}", form, key), || format!("{} -> {} -> {}", inp, gw.toks(), match &back { Some(Ok(_)) => "a different colour".to_string(), Some(Err(e)) => format!("error {}", e.0), None => "panic".into() }));
        for (cls, gin, want) in [("absent", &gc, &want_absent), ("present", &gw, &want_present)] {
            let r = guarded(|| O::deserialize(TreeDe { input: gin, bounded: false }).map(|o| oparts(&o)).map_err(|e| e.0)).unwrap_or(Err("panic".into()));
            out.check(matches!(&r, Ok((c, b)) if &format!("{} {}", c, b.tok()) == want), &format!("optional-alpha:{}:{}:{}", cls, form, key), || format!("{} -> {}, want {}", gin.toks(), show_o(&r), want));
            // the model's default is looked up by the alpha's component type
            if let Ok((c, b)) = &r { out.case(&format!("de tree {} {} optalpha | {} | ok {} {}", ty, A::TAG, gin.toks(), c, b.tok())); }
        }
    }
    out.count(&format!("cls:mixed-alpha:{}+{}", T::TAG, A::TAG));
}
macro_rules! mixed { ($out:expr, $rng:expr, $n:expr, $name:literal, $c:ty, $t:ty, $a:ty, $len:literal) => {{
    struct O(Alpha<$c, $a>);
    impl<'de> Deserialize<'de> for O { fn deserialize<D: Deserializer<'de>>(d: D) -> Result<Self, D::Error> { palette::serde::deserialize_with_optional_alpha(d).map(O) } }
    for _ in 0..$n {
        let mut comps = [<$t as Comp>::gen($rng); $len];
        for x in comps.iter_mut() { *x = <$t as Comp>::gen($rng); }
        let a = <$a as Comp>::gen($rng);
        let c: $c = cast::from_array(comps);
        let w: Alpha<$c, $a> = Alpha { color: c, alpha: a };
        mixed_case::<$c, Alpha<$c, $a>, O, $t, $a>($out, $name, &c, &w, &comps, a,
            |w| { let arr: [$t; $len] = cast::into_array(w.color); (toks(&arr), w.alpha) }, |o| { let arr: [$t; $len] = cast::into_array(o.0.color); (toks(&arr), o.0.alpha) });
    }
}} }
/// integer component types beyond `u8`: full opacity of an integer alpha is the type's largest value (stated here independently of
/// `Stimulus::max_intensity`, which the helper calls)
macro_rules! int_alpha { ($out:expr, $rng:expr, $n:expr, $t:ty) => {{
    type C = palette::rgb::Rgb<encoding::Srgb, $t>;
    struct O(Alpha<C, $t>);
    impl<'de> Deserialize<'de> for O { fn deserialize<D: Deserializer<'de>>(d: D) -> Result<Self, D::Error> { palette::serde::deserialize_with_optional_alpha(d).map(O) } }
    let key = format!("Rgb:{}", stringify!($t));
    for i in 0..$n {
        let mut g = || match $rng.below(6) { 0 => 0, 1 => <$t>::MAX, 2 => 1, _ => $rng.next() as $t };
        let (r, gr, b, a) = (g(), g(), g(), if i == 0 { <$t>::MAX - 1 } else { g() });
        let c = C::new(r, gr, b);
        let w: Alpha<C, $t> = Alpha { color: c, alpha: a };
        let inp = format!("{} {} {} {}", r, gr, b, a);
        for fmt in FORMATS {
            let (tc, tw) = match (to_text(fmt, &c), to_text(fmt, &w)) { (Some(p), Some(q)) => (p, q), _ => { $out.check(false, &format!("serialize-ok:{}:{}", fmt, key), || format!("{} failed to serialize or panicked", inp)); continue; } };
            let back = from_text::<Alpha<C, $t>>(fmt, &tw);
            $out.check(matches!(&back, Ok(x) if *x == w), &format!("roundtrip:{}:{}:alpha", fmt, key), || format!("{} -> {} -> {:?}", inp, tw, back));
            let back = from_text::<C>(fmt, &tc);
            $out.check(matches!(&back, Ok(x) if *x == c), &format!("roundtrip:{}:{}:plain", fmt, key), || format!("{} -> {} -> {:?}", inp, tc, back));
            let r0 = from_text::<O>(fmt, &tc).map(|o| o.0);
            $out.check(matches!(&r0, Ok(x) if x.color == c && x.alpha == <$t>::MAX), &format!("optional-alpha:absent:{}:{}", fmt, key), || format!("{} -> {:?}, want alpha {}", tc, r0, <$t>::MAX));
            let r1 = from_text::<O>(fmt, &tw).map(|o| o.0);
            $out.check(matches!(&r1, Ok(x) if *x == w), &format!("optional-alpha:present:{}:{}", fmt, key), || format!("{} -> {:?}", tw, r1));
        }
        if let (Some(nc), Some(nw)) = (rec(&c), rec(&w)) {
            $out.check(flat_ok(&nc, &nw, &a.to_string()) && keyed(&nw) && declared_ok(&nw), &format!("alpha-flat:{}", key), || format!("plain {} with alpha {}", nc.tok(), nw.tok()));
            $out.case(&format!("ser Rgb {} alpha | {} | {}", stringify!($t), inp, nw.tok()));
        }
        $out.count("cls:int-alpha");
    }
}} }

// ------------------------------------------------------------------------------------------------ C. helpers: direct names, more types
/// `serialize_as_array` / `deserialize_as_array` (direct names, wrapper `D`) against the `as_array` module paths (wrapper `M`) and the cast values
fn arr_case<D: Serialize + DeserializeOwned, M: Serialize + DeserializeOwned>(out: &mut Out, what: &str, d: &D, m: &M, inp: &str, n: usize, vd: impl Fn(&D) -> String, vm: impl Fn(&M) -> String) {
    let (nd, nm) = (rec(d), rec(m));
    // the serialized form is the sequence of exactly the values `cast::into_array` gives, under either name
    let vals = |n: &Node| entries(n).map(|es| es.into_iter().map(|(_, v)| v).collect::<Vec<_>>().join(" "));
    out.check(nd.is_some() && nd == nm && nd.as_ref().and_then(vals).as_deref() == Some(inp) && nd.as_ref().map_or(false, declared_ok), &format!("as-array-values:tree:{}", what), || format!("{} -> {:?} / {:?}", inp, nd.as_ref().map(|n| n.tok()), nm.as_ref().map(|n| n.tok())));
    if let Some(nd) = &nd { out.case(&format!("arr ser | {} | {}", inp, nd.tok())); }
    for fmt in ["json", "ron"] {
        let (td, tm) = (to_text(fmt, d), to_text(fmt, m));
        out.check(td.is_some() && td == tm, &format!("as-array-values:{}:{}", fmt, what), || format!("{} -> {:?} / {:?}", inp, td, tm));
        if let Some(t) = &td {
            let (bd, bm) = (from_text::<D>(fmt, t).map(|b| vd(&b)), from_text::<M>(fmt, t).map(|b| vm(&b)));
            out.check(bd.as_deref() == Ok(inp) && bm.as_deref() == Ok(inp), &format!("as-array-roundtrip:{}:{}", fmt, what), || format!("{} -> {} -> {:?} / {:?}", inp, t, bd, bm));
        }
    }
    // the compact form read back by the generic reader, and sequences of other lengths refused
    if let Some(gin) = nd.as_ref().and_then(compact) {
        let r = guarded(|| D::deserialize(TreeDe { input: &gin, bounded: true }).map(|b| vd(&b)).map_err(|e| e.0)).unwrap_or(Err("panic".into()));
        out.check(r.as_deref() == Ok(inp), &format!("as-array-roundtrip:compact:{}", what), || format!("{} -> {:?}", gin.toks(), r));
        out.case(&format!("arrde tree {} | {} | {}", n, gin.toks(), match &r { Ok(s) => format!("ok {}", s), Err(_) => "err".into() }));
    }
    out.count("cls:as-array-more");
}
macro_rules! arr_more { ($out:expr, $what:literal, $x:ty, $t:ty, $m:literal, $arr:expr) => {{
    struct D($x); struct M($x);
    impl Serialize for D { fn serialize<S: Serializer>(&self, s: S) -> Result<S::Ok, S::Error> { palette::serde::serialize_as_array(&self.0, s) } }
    impl<'de> Deserialize<'de> for D { fn deserialize<De: Deserializer<'de>>(d: De) -> Result<Self, De::Error> { palette::serde::deserialize_as_array(d).map(D) } }
    impl Serialize for M { fn serialize<S: Serializer>(&self, s: S) -> Result<S::Ok, S::Error> { palette::serde::as_array::serialize(&self.0, s) } }
    impl<'de> Deserialize<'de> for M { fn deserialize<De: Deserializer<'de>>(d: De) -> Result<Self, De::Error> { palette::serde::as_array::deserialize(d).map(M) } }
    let arr: [$t; $m] = $arr;
    let x: $x = cast::from_array(arr);
    let y: $x = cast::from_array(arr);
    arr_case::<D, M>($out, concat!($what, ":", stringify!($t)), &D(x), &M(y), &toks(&arr), $m, |d| { let a: [$t; $m] = cast::into_array_ref(&d.0).clone(); toks(&a) }, |m| { let a: [$t; $m] = cast::into_array_ref(&m.0).clone(); toks(&a) });
}} }
fn uint_case<D: Serialize + DeserializeOwned, M: Serialize + DeserializeOwned>(out: &mut Out, what: &str, d: &D, m: &M, u: &str, fmts: &[&str], vd: impl Fn(&D) -> String, vm: impl Fn(&M) -> String) {
    let (nd, nm) = (rec(d), rec(m));
    // the unsigned-integer form is the number `cast::into_uint` gives, under either name, and reads back through `cast::from_uint`
    out.check(nd.is_some() && nd == nm && matches!(&nd, Some(Node::Num(s)) if s == u), &format!("as-uint-value:tree:{}", what), || format!("{} -> {:?} / {:?}", u, nd.as_ref().map(|n| n.tok()), nm.as_ref().map(|n| n.tok())));
    if let Some(nd) = &nd { out.case(&format!("uint ser | {} | {}", u, nd.tok())); }
    for fmt in fmts {
        let (td, tm) = (to_text(fmt, d), to_text(fmt, m));
        out.check(td.as_deref() == Some(u) && td == tm, &format!("as-uint-value:{}:{}", fmt, what), || format!("{} -> {:?} / {:?}", u, td, tm));
        if let Some(t) = &td {
            out.case(&format!("uint {} | {} | {}", fmt, u, t));
            let (bd, bm) = (from_text::<D>(fmt, t).map(|b| vd(&b)), from_text::<M>(fmt, t).map(|b| vm(&b)));
            out.check(bd.as_deref() == Ok(u) && bm.as_deref() == Ok(u), &format!("as-uint-roundtrip:{}:{}", fmt, what), || format!("{} -> {} -> {:?} / {:?}", u, t, bd, bm));
        }
    }
    out.count("cls:as-uint-more");
}
macro_rules! uint_more { ($out:expr, $what:literal, $x:ty, $u:ty, $val:expr, $fmts:expr) => {{
    struct D($x); struct M($x);
    impl Serialize for D { fn serialize<S: Serializer>(&self, s: S) -> Result<S::Ok, S::Error> { palette::serde::serialize_as_uint(&self.0, s) } }
    impl<'de> Deserialize<'de> for D { fn deserialize<De: Deserializer<'de>>(d: De) -> Result<Self, De::Error> { palette::serde::deserialize_as_uint(d).map(D) } }
    impl Serialize for M { fn serialize<S: Serializer>(&self, s: S) -> Result<S::Ok, S::Error> { palette::serde::as_uint::serialize(&self.0, s) } }
    impl<'de> Deserialize<'de> for M { fn deserialize<De: Deserializer<'de>>(d: De) -> Result<Self, De::Error> { palette::serde::as_uint::deserialize(d).map(M) } }
    let u: $u = $val;
    let (x, y): ($x, $x) = (cast::from_uint(u), cast::from_uint(u));
    uint_case::<D, M>($out, $what, &D(x), &M(y), &u.to_string(), $fmts, |d| { let v: $u = *cast::into_uint_ref(&d.0); v.to_string() }, |m| { let v: $u = *cast::into_uint_ref(&m.0); v.to_string() });
}} }

// ------------------------------------------------------------------------------------------------ D. other entry points of the two formats
fn entry_points<X: Serialize + DeserializeOwned>(out: &mut Out, key: &str, x: &X) {
    let nx = match rec(x) { Some(n) => n, None => return };
    let inp = nx.tok();
    let same = |b: &X| rec(b).as_ref() == Some(&nx);
    let mut route = |name: &str, r: Option<Result<X, String>>| {
        out.check(matches!(&r, Some(Ok(b)) if same(b)), &format!("roundtrip:{}:{}", name, key), || format!("{} -> {}", inp, match &r { Some(Ok(_)) => "a different colour".to_string(), Some(Err(e)) => format!("error {}", e), None => "panic".into() }));
    };
    route("json-value", guarded(|| serde_json::to_value(x).and_then(serde_json::from_value::<X>).map_err(|e| e.to_string())));
    route("json-bytes", guarded(|| serde_json::to_vec(x).and_then(|v| serde_json::from_slice::<X>(&v)).map_err(|e| e.to_string())));
    route("json-reader", guarded(|| serde_json::to_string(x).and_then(|s| serde_json::from_reader::<_, X>(s.as_bytes())).map_err(|e| e.to_string())));
    route("json-pretty", guarded(|| serde_json::to_string_pretty(x).and_then(|s| serde_json::from_str::<X>(&s)).map_err(|e| e.to_string())));
    route("json-value-text", guarded(|| serde_json::to_string(x).and_then(|s| serde_json::from_str::<serde_json::Value>(&s)).and_then(serde_json::from_value::<X>).map_err(|e| e.to_string())));
    route("ron-pretty", guarded(|| ron::ser::to_string_pretty(x, ron::ser::PrettyConfig::new()).map_err(|e| e.to_string()).and_then(|s| ron::from_str::<X>(&s).map_err(|e| e.to_string()))));
    route("ron-named", guarded(|| ron::ser::to_string_pretty(x, ron::ser::PrettyConfig::new().struct_names(true)).map_err(|e| e.to_string()).and_then(|s| ron::from_str::<X>(&s).map_err(|e| e.to_string()))));
    route("ron-bytes", guarded(|| ron::to_string(x).map_err(|e| e.to_string()).and_then(|s| ron::de::from_bytes::<X>(s.as_bytes()).map_err(|e| e.to_string()))));
    route("ron-reader", guarded(|| ron::to_string(x).map_err(|e| e.to_string()).and_then(|s| ron::de::from_reader::<_, X>(s.as_bytes()).map_err(|e| e.to_string()))));
    out.count("cls:entry-points");
}

// ------------------------------------------------------------------------------------------------ E. identifiers as byte strings
/// a self-describing reader that names struct fields by byte strings (`visit_bytes`): serde's own `MapDeserializer` over `(&[u8], T)`
macro_rules! bytes_keys { ($out:expr, $name:literal, $wrap:literal, $w:ty, $o:ty, $t:ty, $wv:expr, $vals:expr, $wparts:expr, $oparts:expr) => {{
    let w: $w = $wv;
    let vals: Vec<$t> = $vals;
    let (wparts, oparts) = ($wparts, $oparts);
    let key = format!("{}:{}:{}", $name, <$t as Comp>::TAG, $wrap);
    if let Some(Node::Struct(_, _, fs)) = rec(&w) {
        if fs.len() == vals.len() {
            let items: Vec<(&[u8], $t)> = fs.iter().zip(&vals).map(|((k, _), v)| (k.as_bytes(), *v)).collect();
            let want = toks(&vals);
            let back = guarded(|| <$w>::deserialize(MapDeserializer::<_, TErr>::new(items.clone().into_iter())).map(|b| wparts(&b)).map_err(|e| e.0));
            $out.check(matches!(&back, Some(Ok(s)) if *s == want), &format!("roundtrip:bytes-keys:{}", key), || format!("{} -> {:?}", want, back));
            // alpha last and alpha first; without the alpha entry: full opacity through the optional helper
            let mut rev = items.clone(); rev.reverse();
            let back = guarded(|| <$w>::deserialize(MapDeserializer::<_, TErr>::new(rev.into_iter())).map(|b| wparts(&b)).map_err(|e| e.0));
            $out.check(matches!(&back, Some(Ok(s)) if *s == want), &format!("roundtrip:bytes-keys-reversed:{}", key), || format!("{} -> {:?}", want, back));
            let no_alpha: Vec<(&[u8], $t)> = items[..items.len() - 1].to_vec();
            let want_o = format!("{} {}", toks(&vals[..vals.len() - 1]), opaque_tok::<$t>());
            let back = guarded(|| <$o>::deserialize(MapDeserializer::<_, TErr>::new(no_alpha.into_iter())).map(|b| oparts(&b)).map_err(|e| e.0));
            $out.check(matches!(&back, Some(Ok(s)) if *s == want_o), &format!("optional-alpha:absent:bytes-keys:{}", key), || format!("{} -> {:?}", want_o, back));
            let back = guarded(|| <$o>::deserialize(MapDeserializer::<_, TErr>::new(items.clone().into_iter())).map(|b| oparts(&b)).map_err(|e| e.0));
            $out.check(matches!(&back, Some(Ok(s)) if *s == want), &format!("optional-alpha:present:bytes-keys:{}", key), || format!("{} -> {:?}", want, back));
            $out.count("cls:bytes-keys");
        } else { $out.check(false, &format!("struct-shape:bytes-keys:{}", key), || format!("{} fields for {} values", fs.len(), vals.len())); }
    } else { $out.check(false, &format!("struct-shape:bytes-keys:{}", key), || "not a struct".to_string()); }
}} }

struct OA<C, T>(Alpha<C, T>);
struct OP<C: palette::blend::Premultiply>(PreAlpha<C>);
macro_rules! oa { ($($t:ty),*) => { $(impl<'de, C: Deserialize<'de>> Deserialize<'de> for OA<C, $t> { fn deserialize<D: Deserializer<'de>>(d: D) -> Result<Self, D::Error> { palette::serde::deserialize_with_optional_alpha(d).map(OA) } })* } }
oa!(f32, f64, u8);
type LinRgb<T> = palette::rgb::Rgb<encoding::Linear<encoding::Srgb>, T>;
impl<'de> Deserialize<'de> for OP<LinRgb<f32>> { fn deserialize<D: Deserializer<'de>>(d: D) -> Result<Self, D::Error> { palette::serde::deserialize_with_optional_pre_alpha(d).map(OP) } }
impl<'de> Deserialize<'de> for OP<palette::Lab<D65, f64>> { fn deserialize<D: Deserializer<'de>>(d: D) -> Result<Self, D::Error> { palette::serde::deserialize_with_optional_pre_alpha(d).map(OP) } }

// ------------------------------------------------------------------------------------------------ run
pub fn run_more(out: &mut Out, rng: &mut Rng, thorough: bool) {
    type S = encoding::Srgb;
    let n = if thorough { 400 } else { 40 };
    // A
    shapes!(out, rng, n, f32); shapes!(out, rng, n, f64); shapes!(out, rng, n, u8);
    // B
    mixed!(out, rng, n, "Rgb", palette::rgb::Rgb<S, f32>, f32, u8, 3);
    mixed!(out, rng, n, "Rgb", palette::rgb::Rgb<S, u8>, u8, f32, 3);
    mixed!(out, rng, n, "Lab", palette::Lab<D65, f64>, f64, f32, 3);
    mixed!(out, rng, n, "Hsv", palette::Hsv<S, f32>, f32, f64, 3);
    mixed!(out, rng, n, "Oklch", palette::Oklch<f64>, f64, u8, 3);
    mixed!(out, rng, n, "Luma", palette::luma::Luma<S, u8>, u8, f64, 1);
    mixed!(out, rng, n, "Cam16UcsJmh", palette::cam16::Cam16UcsJmh<f32>, f32, u8, 3);
    int_alpha!(out, rng, n, u16); int_alpha!(out, rng, n, u32); int_alpha!(out, rng, n, u64);
    for _ in 0..n {
        let f = |rng: &mut Rng| <f32 as Comp>::gen(rng);
        let d = |rng: &mut Rng| <f64 as Comp>::gen(rng);
        let b = |rng: &mut Rng| <u8 as Comp>::gen(rng);
        // C
        arr_more!(out, "Cam16Jmh", palette::cam16::Cam16Jmh<f32>, f32, 3, [f(rng), f(rng), f(rng)]);
        arr_more!(out, "Cam16Jch", palette::cam16::Cam16Jch<f64>, f64, 3, [d(rng), d(rng), d(rng)]);
        arr_more!(out, "Cam16Qcha", Alpha<palette::cam16::Cam16Qch<f64>, f64>, f64, 4, [d(rng), d(rng), d(rng), d(rng)]);
        arr_more!(out, "Hsla", palette::Hsla<S, f32>, f32, 4, [f(rng), f(rng), f(rng), f(rng)]);
        arr_more!(out, "Oklaba", palette::Oklaba<f64>, f64, 4, [d(rng), d(rng), d(rng), d(rng)]);
        arr_more!(out, "Xyz", palette::Xyz<D65, f32>, f32, 3, [f(rng), f(rng), f(rng)]);
        arr_more!(out, "Lms", palette::lms::Lms<palette::lms::matrix::VonKries, f64>, f64, 3, [d(rng), d(rng), d(rng)]);
        arr_more!(out, "PreAlpha<Lab>", PreAlpha<palette::Lab<D65, f64>>, f64, 4, [d(rng), d(rng), d(rng), d(rng)]);
        arr_more!(out, "Lumaa", palette::luma::Lumaa<S, u8>, u8, 2, [b(rng), b(rng)]);
        let r64 = rng.next();
        uint_more!(out, "Luma<u64>", palette::luma::Luma<S, u64>, u64, if rng.chance(0.2) { u64::MAX } else { r64 }, &["json", "ron"]);
        // RON 0.8 is built without `integer128`: 128-bit integers are JSON only
        uint_more!(out, "Luma<u128>", palette::luma::Luma<S, u128>, u128, if rng.chance(0.2) { u128::MAX } else { (u128::from(r64) << 64) | u128::from(rng.next()) }, &["json"]);
        uint_more!(out, "PackedLumaa", palette::luma::PackedLumaa, u16, rng.next() as u16, &["json", "ron"]);
        uint_more!(out, "PackedAluma", palette::luma::PackedAluma, u16, rng.next() as u16, &["json", "ron"]);
        uint_more!(out, "Packed<Rgba,u64>", palette::cast::Packed<palette::rgb::channels::Rgba, u64>, u64, rng.next(), &["json", "ron"]);
        uint_more!(out, "Packed<Argb,u8>", palette::cast::Packed<palette::rgb::channels::Argb, u8>, u8, rng.next() as u8, &["json", "ron"]);
        uint_more!(out, "PackedRgba", palette::rgb::PackedRgba, u32, rng.next() as u32, &["json", "ron"]);
        // D
        let (p, q, r, a) = (f(rng), f(rng), f(rng), f(rng));
        let (pd, qd, rd, ad) = (d(rng), d(rng), d(rng), d(rng));
        let (p8, q8, r8, a8) = (b(rng), b(rng), b(rng), b(rng));
        entry_points(out, "Rgb:f32:plain", &palette::Srgb::<f32>::new(p, q, r));
        entry_points(out, "Rgb:f32:alpha", &palette::Srgba::<f32>::new(p, q, r, a));
        entry_points(out, "Hsl:f64:alpha", &palette::Hsla::<S, f64>::new_srgb(pd, qd, rd, ad));
        entry_points(out, "Lab:u8:alpha", &palette::Laba::<D65, u8>::new(p8, q8, r8, a8));
        entry_points(out, "Rgb:f32:prealpha", &PreAlpha { color: LinRgb::<f32>::new(p, q, r), alpha: a });
        entry_points(out, "Oklch:f64:alpha", &palette::Oklcha::<f64>::new(pd, qd, rd, ad));
        entry_points(out, "Luma:f32:alpha", &palette::luma::Lumaa::<S, f32>::new(p, a));
        entry_points(out, "Cam16UcsJmh:f32:alpha", &Alpha { color: palette::cam16::Cam16UcsJmh::<f32>::new(p, q, r), alpha: a });
        entry_points(out, "LabHue:f64:plain", &palette::hues::LabHue::<f64>::new(pd));
        // E
        bytes_keys!(out, "Rgb", "alpha", palette::Srgba<f32>, OA<palette::Srgb<f32>, f32>, f32, palette::Srgba::<f32>::new(p, q, r, a), vec![p, q, r, a],
            |w: &palette::Srgba<f32>| toks(&[w.red, w.green, w.blue, w.alpha]), |o: &OA<palette::Srgb<f32>, f32>| toks(&[o.0.red, o.0.green, o.0.blue, o.0.alpha]));
        bytes_keys!(out, "Hsv", "alpha", palette::Hsva<S, f64>, OA<palette::Hsv<S, f64>, f64>, f64, palette::Hsva::<S, f64>::new_srgb(pd, qd, rd, ad), vec![pd, qd, rd, ad],
            |w: &palette::Hsva<S, f64>| toks(&[w.hue.into_inner(), w.saturation, w.value, w.alpha]), |o: &OA<palette::Hsv<S, f64>, f64>| toks(&[o.0.hue.into_inner(), o.0.saturation, o.0.value, o.0.alpha]));
        bytes_keys!(out, "Lab", "alpha", palette::Laba<D65, u8>, OA<palette::Lab<D65, u8>, u8>, u8, palette::Laba::<D65, u8>::new(p8, q8, r8, a8), vec![p8, q8, r8, a8],
            |w: &palette::Laba<D65, u8>| toks(&[w.l, w.a, w.b, w.alpha]), |o: &OA<palette::Lab<D65, u8>, u8>| toks(&[o.0.l, o.0.a, o.0.b, o.0.alpha]));
        bytes_keys!(out, "Rgb", "prealpha", PreAlpha<LinRgb<f32>>, OP<LinRgb<f32>>, f32, PreAlpha { color: LinRgb::<f32>::new(p, q, r), alpha: a }, vec![p, q, r, a],
            |w: &PreAlpha<LinRgb<f32>>| toks(&[w.red, w.green, w.blue, w.alpha]), |o: &OP<LinRgb<f32>>| toks(&[o.0.red, o.0.green, o.0.blue, o.0.alpha]));
        bytes_keys!(out, "Lab", "prealpha", PreAlpha<palette::Lab<D65, f64>>, OP<palette::Lab<D65, f64>>, f64, PreAlpha { color: palette::Lab::<D65, f64>::new(pd, qd, rd), alpha: ad }, vec![pd, qd, rd, ad],
            |w: &PreAlpha<palette::Lab<D65, f64>>| toks(&[w.l, w.a, w.b, w.alpha]), |o: &OP<palette::Lab<D65, f64>>| toks(&[o.0.l, o.0.a, o.0.b, o.0.alpha]));
    }
}
