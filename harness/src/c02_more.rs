//! C02, second part (coverage audit, see AUDIT_C02.md): the configurations, entry points and forms inside the property's quantifier
//! ("every directly implemented conversion x RGB standard x white point x f32/f64") that the three family modules do not drive.
//! Every clause is the property's own predicate evaluated on the implementation, in one of two shapes:
//!
//!  * `def:...` - the result is compared with an independent f64 evaluation of the published definition (the `spec` modules of
//!    `conv_cie.rs` / `conv_rgb.rs`, constants re-typed here from the standards), tolerances as justified for the sibling clauses;
//!  * `...=...` - an entry point / form that the property says yields the same value as an already judged one is compared with it
//!    **bit for bit** (no tolerance).
//!
//!  A. RGB spaces without a hard-coded matrix: `(Primaries, WhitePoint)` as `RgbSpace`, `(Space, TransferFn)` and
//!     `(Primaries, WhitePoint, TransferFn)` as `RgbStandard` -> `matrix.rs::rgb_to_xyz_matrix`, `mat3_from_primaries`, `matrix_inverse`
//!     (no built-in space reaches them: all have `Some(..)` tables).  The derived matrix is not a 7-digit table, so it is held to
//!     rounding only.
//!  B. `DciP3Plus<F>` (own `Primaries` impl, own pair of tables, transfer function chosen by the user) as RGB and luma standard.
//!  C. the method entry points `into_linear` / `from_linear` / `into_encoding` / `from_encoding` of `Rgb`, `Luma` and of their `Alpha`
//!     wrappers (8 + 8 hand-written functions).
//!  D. `Matrix3`: `Xyz::matrix_from_rgb`, `Rgb::matrix_from_xyz`, `Lms::matrix_from_xyz`, `Xyz::matrix_from_lms`, `Convert` /
//!     `ConvertOnce` for the matrix, for `&M` and `Box<M>` (convert.rs), `then`, `invert`, `identity`, `scale`.
//!  E. trait entry points and collection forms of the unclamped conversion (from_into_color_unclamped.rs: `IntoColorUnclamped`,
//!     `Vec`, `Box<[T]>`; from_into_color_unclamped_mut.rs: in place for a colour and for `[T]`, `then_into_color_unclamped_mut`) and
//!     of the clamping one where the defined value lies inside the destination's bounds (from_into_color.rs, try_from_into_color.rs).
//!  F. `Alpha<D, A>: FromColorUnclamped<Alpha<S, A>>` / `<S>` (alpha/alpha.rs) and the derive-generated way out of `Alpha`.
//!  G. forwarding configurations, with protocol lines for the model where its `conv` op knows the configuration: the eleven white
//!     points the CIE family was not run with, the hexcone edges for five more RGB standards, `Lms<WithLmsMatrix<Wp, M>>`, luma
//!     standards Rec2020 / DisplayP3, tuple standards over a built-in space, `Gamma<Srgb>` (protocol lines only: no published
//!     definition), `WhitePoint::get_xyz` at f32.
//!  H. the hand-written identity impls `X: FromColorUnclamped<X>`.
use crate::common::*;
use crate::conv_cie::spec as cie;
use crate::conv_common::*;
use crate::conv_rgb::spec as rs;
use palette::cast;
use palette::convert::{Convert, ConvertOnce, FromColorUnclamped, FromColorUnclampedMut, IntoColorUnclamped, IntoColorUnclampedMut, TryFromColor, TryIntoColor};
use palette::encoding::gamma::GammaFn;
use palette::encoding::linear::LinearFn;
use palette::encoding::{AdobeRgb, DciP3, DciP3Plus, DisplayP3, F2p2, Gamma, Linear, P3Gamma, ProPhotoRgb, Rec2020, Rec709, RecOetf, Srgb};
use palette::lms::matrix::{Bradford, UnitMatrix, VonKries, WithLmsMatrix};
use palette::lms::Lms;
use palette::luma::Luma;
use palette::rgb::Rgb;
use palette::white_point::{self as wp, Any, D50, D65, E};
use palette::{Alpha, FromColor, Hsl, Hsluv, Hsv, Hwb, IntoColor, IsWithinBounds, Lab, Lch, Lchuv, Luv, Okhsl, Okhsv, Okhwb, Oklab, Oklch, Xyz, Yxy};
use rs::Tf;

// published primaries (x, y) - IEC 61966-2-1 / BT.709, Adobe RGB (1998), BT.2020, SMPTE RP 431-2, ISO 22028-2 (ROMM), Canon DCI-P3+
const P_709: [(f64, f64); 3] = [(0.64, 0.33), (0.30, 0.60), (0.15, 0.06)];
const P_ADOBE: [(f64, f64); 3] = [(0.64, 0.33), (0.21, 0.71), (0.15, 0.06)];
const P_2020: [(f64, f64); 3] = [(0.708, 0.292), (0.170, 0.797), (0.131, 0.046)];
const P_P3: [(f64, f64); 3] = [(0.680, 0.320), (0.265, 0.690), (0.150, 0.060)];
const P_ROMM: [(f64, f64); 3] = [(0.7347, 0.2653), (0.1596, 0.8404), (0.0366, 0.0001)];
const P_P3PLUS: [(f64, f64); 3] = [(0.740, 0.270), (0.220, 0.780), (0.090, -0.090)];

/// tabulated-matrix tolerance of the sibling clauses (conv_rgb.rs `MAT_TOL`, proved bound 3 x 5e-7 in C02_Rgb)
const MAT_TOL: f64 = 3e-7;

fn bits_eq<T: Fl, const N: usize>(a: &[T; N], b: &[T; N]) -> bool { a.iter().zip(b).all(|(x, y)| x.bits64() == y.bits64()) }
/// equal bits, or both zero (a clamp may return either zero)
fn same_val<T: Fl, const N: usize>(a: &[T; N], b: &[T; N]) -> bool { a.iter().zip(b).all(|(x, y)| x.bits64() == y.bits64() || (x.to64() == 0.0 && y.to64() == 0.0)) }
/// "element i <source>: got .., single conversion .." for the first element of a collection form that differs from the element-wise result
fn first_diff<T: Fl, S: std::fmt::Debug>(src: &[S], got: &[[T; 3]], want: &[[T; 3]], eq: fn(&[T; 3], &[T; 3]) -> bool) -> String {
    if got.len() != want.len() { return format!("{} elements in, {} out", want.len(), got.len()); }
    match (0..want.len()).find(|&i| !eq(&got[i], &want[i])) { Some(i) => format!("element {} of {} {:?}: collection form gives {:?}, single conversion {:?}", i, want.len(), src[i], got[i], want[i]), None => "no difference".into() }
}
fn thresholds_enc(tf: Tf) -> Vec<f64> { match tf { Tf::Srgb => vec![0.04045], Tf::Rec => vec![4.5 * rs::BETA], Tf::ProPhoto => vec![0.03125], _ => vec![] } }
fn dec3(tf: Tf, c: [f64; 3]) -> [f64; 3] { [rs::decode(tf, c[0]), rs::decode(tf, c[1]), rs::decode(tf, c[2])] }

/// conv_rgb.rs `enc_ok`: `got` lies in the image of [lin - delta, lin + delta] under the published curve, +- rounding; None where
/// the published curve says nothing (pure power law at a negative argument)
fn enc_ok(tf: Tf, lin: f64, delta: f64, got: f64, r: f64) -> Option<bool> {
    if rs::power_law(tf) && lin - delta < 0.0 {
        if got.is_nan() { return None; }
        if lin + delta < 0.0 { return None; }
        return Some(got >= -r && got <= rs::encode(tf, lin + delta) * (1.0 + r) + r);
    }
    let (lo, hi) = (rs::encode(tf, lin - delta), rs::encode(tf, lin + delta));
    Some(got >= lo - r * (1.0 + lo.abs()) && got <= hi + r * (1.0 + hi.abs()))
}

fn rgb_ins<T: Fl>(rng: &mut Rng, n: usize, tf: Tf) -> Vec<[f64; 3]> {
    let mut xs = rgb_cube(rng, n);
    for t in thresholds_enc(tf) { for d in [0i64, 1, -1, 2, -2, 16, -16] { let x = T::of(t).nudge(d).to64(); xs.push([x, x, x]); xs.push([x, 0.5, 0.25]); xs.push([1.0, 0.3, x]); } }
    xs.push([1.0, 1.0, 1.0]);
    xs
}

// =====================================================================================================================
// A + B: Rgb<S> <-> Xyz<Wp> for standards the family module cannot name
// =====================================================================================================================
/// `$mat_tol`: 0 for a matrix the crate derives (rounding only), MAT_TOL for a tabulated one.
macro_rules! rgb_xyz_def { ($out:ident, $rng:ident, $n:expr, $T:ty, $S:ty, $cfg:expr, $Wp:ty, $prim:expr, $white:expr, $tf:expr, $mat_tol:expr, $back:expr) => {{
    type T = $T;
    let tag = <T as Fl>::TAG;
    // rounding slack of an edge evaluated in T, as in conv_rgb.rs
    let r = 256.0 * <T as Fl>::eps();
    let white: [f64; 3] = $white;
    let m = rs::rgb_to_xyz($prim, white);
    let mi = rs::inverse(&m);
    let tf: Tf = $tf;
    let mat_tol: f64 = $mat_tol;
    for c in rgb_ins::<T>($rng, $n, tf) {
        let a: [T; 3] = arr_of(c);
        let d: [T; 3] = cast::into_array(Xyz::<$Wp, T>::from_color_unclamped(cast::from_array::<Rgb<$S, T>>(a)));
        let (a64, got) = (to64(&a), to64(&d));
        let want = rs::mul_v(&m, dec3(tf, a64));
        for i in 0..3 { $out.maxi(&format!("dev:Rgb->Xyz:{}:{}", $cfg, tag), (got[i] - want[i]).abs()); }
        // tabulated matrix: the sibling's MAT_TOL + r.  Derived matrix: nothing is tabulated, the crate computes a 3x3 inverse (condition < 10) and
        // two products in T, then one transfer curve and three products per colour: 64 eps of the unit scale (observed 3 eps), as in conv_cie.rs
        let t_fwd = if mat_tol == 0.0 { 64.0 * <T as Fl>::eps() } else { mat_tol + r };
        $out.check((0..3).all(|i| (got[i] - want[i]).abs() <= t_fwd), &format!("def:Rgb->Xyz:{}:{}", $cfg, tag), || format!("{:?} -> {:?}, primaries/white/curve of the standard give {:?}", a64, got, want));
        if a64 == [1.0, 1.0, 1.0] { $out.check((0..3).all(|i| (got[i] - white[i]).abs() <= 1e-6 + r), &format!("white:Rgb->Xyz:{}:{}", $cfg, tag), || format!("(1,1,1) -> {:?} but the white point is {:?}", got, white)); }
    }
    if $back {
        let mut ys = box_inputs([(0.0, white[0]), (0.0, white[1]), (0.0, white[2])], $rng, $n, false);
        for g in 0..=32 { let y = g as f64 / 32.0; ys.push([white[0] * y, white[1] * y, white[2] * y]); }
        for c in ys {
            let a: [T; 3] = arr_of(c);
            let d: [T; 3] = cast::into_array(Rgb::<$S, T>::from_color_unclamped(cast::from_array::<Xyz<$Wp, T>>(a)));
            let (a64, got) = (to64(&a), to64(&d));
            let lin = rs::mul_v(&mi, a64);
            let scale = a64.iter().fold(0.0f64, |m, v| m.max(v.abs()));
            // as the sibling `def:Xyz->Rgb`: the table's share per unit of |xyz| (rows of M^-1 sum to < 5.3), 8 r for the cancellation in T
            let delta = mat_tol * scale * 3.0 + 8.0 * r * scale;
            for i in 0..3 {
                if got[i].is_nan() { if rs::power_law(tf) && lin[i] < delta { $out.count("cls:more:outside-published-curve"); } else { $out.check(false, &format!("def:Xyz->Rgb:{}:{}", $cfg, tag), || format!("{:?} -> {:?}: NaN", a64, got)); } continue; }
                match enc_ok(tf, lin[i], delta, got[i], r) {
                    Some(ok) => $out.check(ok, &format!("def:Xyz->Rgb:{}:{}", $cfg, tag), || format!("{:?} -> {:?} (component {}), the standard gives encode({:e})", a64, got, i, lin[i])),
                    None => $out.count("cls:more:outside-published-curve"),
                }
            }
        }
    }
}} }

/// two standards that the definitions make the same thing: every conversion in and out of them agrees bit for bit
macro_rules! same_standard { ($out:ident, $rng:ident, $n:expr, $T:ty, $S1:ty, $S2:ty, $Wp:ty, $cfg:expr, $tf:expr) => {{
    type T = $T;
    let tag = <T as Fl>::TAG;
    for c in rgb_ins::<T>($rng, $n, $tf) {
        let a: [T; 3] = arr_of(c);
        let x1: [T; 3] = cast::into_array(Xyz::<$Wp, T>::from_color_unclamped(cast::from_array::<Rgb<$S1, T>>(a)));
        let x2: [T; 3] = cast::into_array(Xyz::<$Wp, T>::from_color_unclamped(cast::from_array::<Rgb<$S2, T>>(a)));
        $out.check(bits_eq(&x1, &x2), &format!("tuple-standard=named:Rgb->Xyz:{}:{}", $cfg, tag), || format!("{:?}: tuple form {:?}, named standard {:?}", a, x1, x2));
        let b1: [T; 3] = cast::into_array(Rgb::<$S1, T>::from_color_unclamped(cast::from_array::<Xyz<$Wp, T>>(a)));
        let b2: [T; 3] = cast::into_array(Rgb::<$S2, T>::from_color_unclamped(cast::from_array::<Xyz<$Wp, T>>(a)));
        $out.check(bits_eq(&b1, &b2), &format!("tuple-standard=named:Xyz->Rgb:{}:{}", $cfg, tag), || format!("{:?}: tuple form {:?}, named standard {:?}", a, b1, b2));
        let l1: [T; 3] = cast::into_array(Rgb::<Linear<Srgb>, T>::from_color_unclamped(cast::from_array::<Rgb<$S1, T>>(a)));
        let l2: [T; 3] = cast::into_array(Rgb::<Linear<Srgb>, T>::from_color_unclamped(cast::from_array::<Rgb<$S2, T>>(a)));
        $out.check(bits_eq(&l1, &l2), &format!("tuple-standard=named:Rgb->Rgb:{}:{}", $cfg, tag), || format!("{:?}: tuple form {:?}, named standard {:?}", a, l1, l2));
    }
}} }

macro_rules! part_ab { ($fname:ident, $T:ty) => {
fn $fname(out: &mut Out, rng: &mut Rng, n: usize) {
    let (d65, d50, dci) = (rs::D65, rs::D50, rs::dci_white());
    // A: derived matrices (rounding only)
    rgb_xyz_def!(out, rng, n, $T, (Srgb, D65, Srgb), "(Srgb,D65,Srgb)", D65, P_709, d65, Tf::Srgb, 0.0, true);
    rgb_xyz_def!(out, rng, n, $T, ((AdobeRgb, D65), AdobeRgb), "((AdobeRgb,D65),AdobeRgb)", D65, P_ADOBE, d65, Tf::Adobe, 0.0, true);
    rgb_xyz_def!(out, rng, n, $T, (Rec2020, D65, RecOetf), "(Rec2020,D65,RecOetf)", D65, P_2020, d65, Tf::Rec, 0.0, true);
    rgb_xyz_def!(out, rng, n, $T, (ProPhotoRgb, D50, ProPhotoRgb), "(ProPhotoRgb,D50,ProPhotoRgb)", D50, P_ROMM, d50, Tf::ProPhoto, 0.0, true);
    rgb_xyz_def!(out, rng, n, $T, (DciP3, DciP3, P3Gamma), "(DciP3,DciP3,P3Gamma)", DciP3, P_P3, dci, Tf::P3, 0.0, false);
    rgb_xyz_def!(out, rng, n, $T, (DisplayP3, D65, LinearFn), "(DisplayP3,D65,LinearFn)", D65, P_P3, d65, Tf::Linear, 0.0, true);
    // primaries and white point that no named standard combines
    rgb_xyz_def!(out, rng, n, $T, (Srgb, D50, LinearFn), "(Srgb,D50,LinearFn)", D50, P_709, d50, Tf::Linear, 0.0, true);
    rgb_xyz_def!(out, rng, n, $T, (Rec2020, E, Srgb), "(Rec2020,E,Srgb)", E, P_2020, [1.0, 1.0, 1.0], Tf::Srgb, 0.0, true);
    rgb_xyz_def!(out, rng, n, $T, (DciP3Plus<LinearFn>, DciP3, LinearFn), "(DciP3Plus,DciP3,LinearFn)", DciP3, P_P3PLUS, dci, Tf::Linear, 0.0, true);
    // B: DciP3Plus<F> - tabulated matrices, transfer function of the user's choice
    rgb_xyz_def!(out, rng, n, $T, DciP3Plus<LinearFn>, "DciP3Plus<LinearFn>", DciP3, P_P3PLUS, dci, Tf::Linear, MAT_TOL, true);
    rgb_xyz_def!(out, rng, n, $T, Linear<DciP3Plus<Srgb>>, "Linear<DciP3Plus<Srgb>>", DciP3, P_P3PLUS, dci, Tf::Linear, MAT_TOL, true);
    rgb_xyz_def!(out, rng, n, $T, DciP3Plus<Srgb>, "DciP3Plus<Srgb>", DciP3, P_P3PLUS, dci, Tf::Srgb, MAT_TOL, true);
    rgb_xyz_def!(out, rng, n, $T, DciP3Plus<P3Gamma>, "DciP3Plus<P3Gamma>", DciP3, P_P3PLUS, dci, Tf::P3, MAT_TOL, false);
    rgb_xyz_def!(out, rng, n, $T, DciP3Plus<RecOetf>, "DciP3Plus<RecOetf>", DciP3, P_P3PLUS, dci, Tf::Rec, MAT_TOL, true);
    // tuple standards over a built-in space are the named standard
    same_standard!(out, rng, n / 2, $T, (Srgb, RecOetf), Rec709, D65, "(Srgb,RecOetf)=Rec709", Tf::Rec);
    same_standard!(out, rng, n / 2, $T, (Srgb, Srgb), Srgb, D65, "(Srgb,Srgb)=Srgb", Tf::Srgb);
    same_standard!(out, rng, n / 2, $T, (Srgb, LinearFn), Linear<Srgb>, D65, "(Srgb,LinearFn)=Linear<Srgb>", Tf::Linear);
    // luma: DciP3Plus<F> and the tuple form
    {
        type T = $T;
        let tag = <T as Fl>::TAG;
        let r = 256.0 * <T as Fl>::eps();
        let mut ls: Vec<f64> = (0..=32).map(|i| i as f64 / 32.0).collect();
        for _ in 0..n / 2 { ls.push(rng.unit()); }
        for t in [0.04045, 4.5 * rs::BETA] { for d in [0i64, 1, -1, 2, -2, 16, -16] { ls.push(<T as Fl>::of(t).nudge(d).to64()); } }
        macro_rules! luma_def { ($L:ty, $cfg:expr, $Wp:ty, $white:expr, $tf:expr) => {{
            let w: [f64; 3] = $white;
            for &l in &ls {
                let a = <T as Fl>::of(l);
                let d: [T; 3] = cast::into_array(Xyz::<$Wp, T>::from_color_unclamped(Luma::<$L, T>::new(a)));
                let y = rs::decode($tf, a.to64());
                let want = [w[0] * y, y, w[2] * y];
                out.check(close3(&to64(&d), &want, r, &[1.0, 1.0, 1.0]), &format!("def:Luma->Xyz:{}:{}", $cfg, tag), || format!("{:?} -> {:?}, definition gives {:?}", a, d, want));
                let yx: [T; 3] = cast::into_array(Yxy::<$Wp, T>::from_color_unclamped(Luma::<$L, T>::new(a)));
                let ws = w[0] + w[1] + w[2];
                let want = [w[0] / ws, w[1] / ws, y];
                out.check(close3(&to64(&yx), &want, r, &[1.0, 1.0, 1.0]), &format!("def:Luma->Yxy:{}:{}", $cfg, tag), || format!("{:?} -> {:?}, definition gives {:?}", a, yx, want));
                let b: Luma<$L, T> = Luma::from_color_unclamped(Xyz::<$Wp, T>::new(<T as Fl>::of(0.3), a, <T as Fl>::of(0.2)));
                let want = rs::encode($tf, a.to64());
                out.check(close(b.luma.to64(), want, r, 1.0), &format!("def:Xyz->Luma:{}:{}", $cfg, tag), || format!("Y = {:?} -> {:?}, definition gives {}", a, b.luma, want));
                let b: Luma<$L, T> = Luma::from_color_unclamped(Yxy::<$Wp, T>::new(<T as Fl>::of(0.3), <T as Fl>::of(0.3), a));
                out.check(close(b.luma.to64(), want, r, 1.0), &format!("def:Yxy->Luma:{}:{}", $cfg, tag), || format!("Y = {:?} -> {:?}, definition gives {}", a, b.luma, want));
            }
        }} }
        luma_def!(DciP3Plus<Srgb>, "DciP3Plus<Srgb>", DciP3, dci, Tf::Srgb);
        luma_def!(DciP3Plus<RecOetf>, "DciP3Plus<RecOetf>", DciP3, dci, Tf::Rec);
        luma_def!((D65, Srgb), "(D65,Srgb)", D65, d65, Tf::Srgb);
        luma_def!((D50, ProPhotoRgb), "(D50,ProPhotoRgb)", D50, d50, Tf::ProPhoto);
        luma_def!((E, LinearFn), "(E,LinearFn)", E, [1.0, 1.0, 1.0], Tf::Linear);
        luma_def!(Rec2020, "Rec2020", D65, d65, Tf::Rec);
        luma_def!(DisplayP3, "DisplayP3", D65, d65, Tf::Srgb);
        // Luma -> Rgb / Luma -> Luma through the tuple standards: gray of the same encoded value (definition: R = G = B = Y)
        for &l in &ls {
            let a = <T as Fl>::of(l);
            let g: [T; 3] = cast::into_array(Rgb::<DciP3Plus<Srgb>, T>::from_color_unclamped(Luma::<DciP3Plus<Srgb>, T>::new(a)));
            out.check(g.iter().all(|x| x.bits64() == a.bits64()), &format!("def:Luma->Rgb:DciP3Plus<Srgb>:{}", tag), || format!("{:?} -> {:?}", a, g));
            let g: [T; 3] = cast::into_array(Rgb::<DciP3Plus<LinearFn>, T>::from_color_unclamped(Luma::<DciP3Plus<Srgb>, T>::new(a)));
            let want = rs::decode(Tf::Srgb, a.to64());
            out.check(g.iter().all(|x| close(x.to64(), want, r, 1.0)), &format!("def:Luma->Rgb:DciP3Plus<Srgb>->DciP3Plus<LinearFn>:{}", tag), || format!("{:?} -> {:?}, definition gives {}", a, g, want));
            let g: Luma<(D65, RecOetf), T> = Luma::from_color_unclamped(Luma::<(D65, Srgb), T>::new(a));
            let want = rs::encode(Tf::Rec, rs::decode(Tf::Srgb, a.to64()));
            out.check(close(g.luma.to64(), want, r, 1.0), &format!("def:Luma->Luma:(D65,Srgb)->(D65,RecOetf):{}", tag), || format!("{:?} -> {:?}, definition gives {}", a, g.luma, want));
        }
    }
}
} }
part_ab!(part_ab_f32, f32);
part_ab!(part_ab_f64, f64);

// =====================================================================================================================
// C: into_linear / from_linear / into_encoding / from_encoding (Rgb, Luma, and their Alpha wrappers)
// =====================================================================================================================
macro_rules! linear_methods { ($out:ident, $rng:ident, $n:expr, $T:ty, $S:ty, $Sp:ty, $LWp:ty, $cfg:expr, $tf:expr) => {{
    type T = $T;
    let tag = format!("{}:{}", $cfg, <T as Fl>::TAG);
    for c in rgb_ins::<T>($rng, $n, $tf) {
        let a: [T; 3] = arr_of(c);
        let al: T = <T as Fl>::of(c[0] * 0.5 + 0.25);
        let enc: Rgb<$S, T> = cast::from_array(a);
        let lin: Rgb<Linear<$Sp>, T> = cast::from_array(a);
        // the judged forms
        let want_lin: [T; 3] = cast::into_array(Rgb::<Linear<$Sp>, T>::from_color_unclamped(enc));
        let want_enc: [T; 3] = cast::into_array(Rgb::<$S, T>::from_color_unclamped(lin));
        let g: [T; 3] = cast::into_array(enc.into_linear::<T>());
        $out.check(bits_eq(&g, &want_lin), &format!("into_linear=from-color-unclamped:Rgb:{}", tag), || format!("{:?}: {:?} vs {:?}", a, g, want_lin));
        let g: [T; 3] = cast::into_array(Rgb::<Linear<$Sp>, T>::from_encoding::<T, $S>(enc));
        $out.check(bits_eq(&g, &want_lin), &format!("from_encoding=from-color-unclamped:Rgb:{}", tag), || format!("{:?}: {:?} vs {:?}", a, g, want_lin));
        let g: [T; 3] = cast::into_array(Rgb::<$S, T>::from_linear::<T>(lin));
        $out.check(bits_eq(&g, &want_enc), &format!("from_linear=from-color-unclamped:Rgb:{}", tag), || format!("{:?}: {:?} vs {:?}", a, g, want_enc));
        let g: [T; 3] = cast::into_array(lin.into_encoding::<T, $S>());
        $out.check(bits_eq(&g, &want_enc), &format!("into_encoding=from-color-unclamped:Rgb:{}", tag), || format!("{:?}: {:?} vs {:?}", a, g, want_enc));
        // Alpha wrappers: colour as above, transparency carried over
        let (enca, lina) = (Alpha::<Rgb<$S, T>, T> { color: enc, alpha: al }, Alpha::<Rgb<Linear<$Sp>, T>, T> { color: lin, alpha: al });
        let g: Alpha<Rgb<Linear<$Sp>, T>, T> = enca.into_linear::<T, T>();
        let gc: [T; 3] = cast::into_array(g.color);
        $out.check(bits_eq(&gc, &want_lin) && g.alpha.bits64() == al.bits64(), &format!("into_linear=from-color-unclamped:Alpha<Rgb>:{}", tag), || format!("{:?}/{:?}: {:?}/{:?} vs {:?}", a, al, gc, g.alpha, want_lin));
        let g: Alpha<Rgb<Linear<$Sp>, T>, T> = Alpha::<Rgb<Linear<$Sp>, T>, T>::from_encoding::<T, T, $S>(enca);
        let gc: [T; 3] = cast::into_array(g.color);
        $out.check(bits_eq(&gc, &want_lin) && g.alpha.bits64() == al.bits64(), &format!("from_encoding=from-color-unclamped:Alpha<Rgb>:{}", tag), || format!("{:?}/{:?}: {:?}/{:?} vs {:?}", a, al, gc, g.alpha, want_lin));
        let g: Alpha<Rgb<$S, T>, T> = Alpha::<Rgb<$S, T>, T>::from_linear::<T, T>(lina);
        let gc: [T; 3] = cast::into_array(g.color);
        $out.check(bits_eq(&gc, &want_enc) && g.alpha.bits64() == al.bits64(), &format!("from_linear=from-color-unclamped:Alpha<Rgb>:{}", tag), || format!("{:?}/{:?}: {:?}/{:?} vs {:?}", a, al, gc, g.alpha, want_enc));
        let g: Alpha<Rgb<$S, T>, T> = lina.into_encoding::<T, T, $S>();
        let gc: [T; 3] = cast::into_array(g.color);
        $out.check(bits_eq(&gc, &want_enc) && g.alpha.bits64() == al.bits64(), &format!("into_encoding=from-color-unclamped:Alpha<Rgb>:{}", tag), || format!("{:?}/{:?}: {:?}/{:?} vs {:?}", a, al, gc, g.alpha, want_enc));
        // Luma
        let (le, ll) = (Luma::<$S, T>::new(a[0]), Luma::<Linear<$LWp>, T>::new(a[0]));
        let want_lin: T = Luma::<Linear<$LWp>, T>::from_color_unclamped(le).luma;
        let want_enc: T = Luma::<$S, T>::from_color_unclamped(ll).luma;
        let g = [le.into_linear::<T>().luma, Luma::<Linear<$LWp>, T>::from_encoding::<T, $S>(le).luma,
                 Alpha::<Luma<$S, T>, T> { color: le, alpha: al }.into_linear::<T, T>().color.luma, Alpha::<Luma<Linear<$LWp>, T>, T>::from_encoding::<T, T, $S>(Alpha { color: le, alpha: al }).color.luma];
        $out.check(g.iter().all(|x| x.bits64() == want_lin.bits64()), &format!("into_linear/from_encoding=from-color-unclamped:Luma:{}", tag), || format!("{:?}: [into_linear, from_encoding, Alpha::into_linear, Alpha::from_encoding] = {:?} vs {:?}", a[0], g, want_lin));
        let g = [Luma::<$S, T>::from_linear::<T>(ll).luma, ll.into_encoding::<T, $S>().luma,
                 Alpha::<Luma<$S, T>, T>::from_linear::<T, T>(Alpha { color: ll, alpha: al }).color.luma, Alpha::<Luma<Linear<$LWp>, T>, T> { color: ll, alpha: al }.into_encoding::<T, T, $S>().color.luma];
        $out.check(g.iter().all(|x| x.bits64() == want_enc.bits64()), &format!("from_linear/into_encoding=from-color-unclamped:Luma:{}", tag), || format!("{:?}: [from_linear, into_encoding, Alpha::from_linear, Alpha::into_encoding] = {:?} vs {:?}", a[0], g, want_enc));
        let ga = [Alpha::<Luma<$S, T>, T> { color: le, alpha: al }.into_linear::<T, T>().alpha, Alpha::<Luma<$S, T>, T>::from_linear::<T, T>(Alpha { color: ll, alpha: al }).alpha];
        $out.check(ga.iter().all(|x| x.bits64() == al.bits64()), &format!("linear-methods-keep-alpha:Luma:{}", tag), || format!("{:?} -> {:?}", al, ga));
    }
}} }
macro_rules! part_c { ($fname:ident, $T:ty) => {
fn $fname(out: &mut Out, rng: &mut Rng, n: usize) {
    linear_methods!(out, rng, n, $T, Srgb, Srgb, D65, "Srgb", Tf::Srgb);
    linear_methods!(out, rng, n, $T, Rec709, Srgb, D65, "Rec709", Tf::Rec);
    linear_methods!(out, rng, n, $T, AdobeRgb, AdobeRgb, D65, "AdobeRgb", Tf::Adobe);
    linear_methods!(out, rng, n, $T, Rec2020, Rec2020, D65, "Rec2020", Tf::Rec);
    linear_methods!(out, rng, n, $T, DisplayP3, DisplayP3, D65, "DisplayP3", Tf::Srgb);
    linear_methods!(out, rng, n, $T, DciP3, DciP3, DciP3, "DciP3", Tf::P3);
    linear_methods!(out, rng, n, $T, ProPhotoRgb, ProPhotoRgb, D50, "ProPhotoRgb", Tf::ProPhoto);
}
} }
part_c!(part_c_f32, f32);
part_c!(part_c_f64, f64);

// =====================================================================================================================
// D: Matrix3 entry points
// =====================================================================================================================
macro_rules! matrix3_space { ($out:ident, $rng:ident, $n:expr, $T:ty, $Sp:ty, $Wp:ty, $cfg:expr, $prim:expr, $white:expr, $mat_tol:expr) => {{
    type T = $T;
    let tag = format!("{}:{}", $cfg, <T as Fl>::TAG);
    let r = 256.0 * <T as Fl>::eps();
    let m = rs::rgb_to_xyz($prim, $white);
    let mi = rs::inverse(&m);
    let fwd = Xyz::<$Wp, T>::matrix_from_rgb::<Linear<$Sp>>();
    let bwd = Rgb::<Linear<$Sp>, T>::matrix_from_xyz();
    let fwd_box = Box::new(fwd);
    for c in rgb_cube($rng, $n) {
        let a: [T; 3] = arr_of(c);
        let a64 = to64(&a);
        let (rgb, xyz): (Rgb<Linear<$Sp>, T>, Xyz<$Wp, T>) = (cast::from_array(a), cast::from_array(a));
        let want_x: [T; 3] = cast::into_array(Xyz::<$Wp, T>::from_color_unclamped(rgb));
        let want_r: [T; 3] = cast::into_array(Rgb::<Linear<$Sp>, T>::from_color_unclamped(xyz));
        // the `&M` and `Box<M>` impls of convert.rs are named explicitly (method syntax would auto-deref to the matrix's own impl)
        let g: [[T; 3]; 6] = [cast::into_array(fwd.convert(rgb)), cast::into_array(fwd.convert_once(rgb)), cast::into_array(Convert::convert(&&fwd, rgb)), cast::into_array(ConvertOnce::convert_once(&fwd, rgb)),
                              cast::into_array(Convert::convert(&fwd_box, rgb)), cast::into_array(ConvertOnce::convert_once(fwd_box.clone(), rgb))];
        $out.check(g.iter().all(|x| bits_eq(x, &want_x)), &format!("matrix3-convert=from-color-unclamped:Rgb->Xyz:{}", tag), || format!("{:?}: [convert, convert_once, &convert, &convert_once, Box convert, Box convert_once] = {:?} vs {:?}", a, g, want_x));
        let g: [[T; 3]; 2] = [cast::into_array(bwd.convert(xyz)), cast::into_array(ConvertOnce::convert_once(&bwd, xyz))];
        $out.check(g.iter().all(|x| bits_eq(x, &want_r)), &format!("matrix3-convert=from-color-unclamped:Xyz->Rgb:{}", tag), || format!("{:?}: [convert, &convert_once] = {:?} vs {:?}", a, g, want_r));
        // invert(): the inverse transformation, i.e. the published definition of the way back, up to the table's 7 digits and rounding
        let g: [T; 3] = cast::into_array(fwd.invert().convert(xyz));
        let want = rs::mul_v(&mi, a64);
        let scale = a64.iter().fold(0.0f64, |m, v| m.max(v.abs()));
        // inverse of the 7-digit table A = M + E, |E x| <= 1.5e-7 |x| (three entries, each rounded by <= 0.5e-7):
        // |A^-1 x - M^-1 x| <= |M^-1| |E| |A^-1 x| <= 5.3 * 1.5e-7 * 5.3 |x| = 14 * MAT_TOL |x| (rows of |M^-1| sum to < 5.3 for every space)
        let tol: f64 = 14.0 * $mat_tol * scale + 8.0 * r * scale;
        for i in 0..3 { $out.maxi(&format!("dev:matrix3-invert:Xyz->Rgb:{}", <T as Fl>::TAG), (g[i].to64() - want[i]).abs()); }
        $out.check((0..3).all(|i| (g[i].to64() - want[i]).abs() <= tol), &format!("def:matrix3-invert:Xyz->Rgb:{}", tag), || format!("{:?} -> {:?}, inverse of the standard's matrix gives {:?}", a64, g, want));
        // the other way the factors are |M| <= 1.1: within the table's own tolerance
        let tol: f64 = $mat_tol * scale * 3.0 + 8.0 * r * scale;
        let g: [T; 3] = cast::into_array(bwd.invert().convert(rgb));
        let want = rs::mul_v(&m, a64);
        $out.check((0..3).all(|i| (g[i].to64() - want[i]).abs() <= tol), &format!("def:matrix3-invert:Rgb->Xyz:{}", tag), || format!("{:?} -> {:?}, the standard's matrix gives {:?}", a64, g, want));
        // then(): the composition is the conversion through both steps (re-associated: rounding only; |entries| of the products < 5.3)
        let g: [T; 3] = cast::into_array(fwd.then(bwd).convert(rgb));
        $out.check(close3(&to64(&g), &a64, 3.0 * $mat_tol + 16.0 * r, &[1.0, 1.0, 1.0]), &format!("def:matrix3-then:Rgb->Xyz->Rgb:{}", tag), || format!("{:?} -> {:?}", a64, g));
    }
}} }
macro_rules! part_d { ($fname:ident, $T:ty) => {
fn $fname(out: &mut Out, rng: &mut Rng, n: usize) {
    type T = $T;
    let tag = <T as Fl>::TAG;
    let (d65, d50, dci) = (rs::D65, rs::D50, rs::dci_white());
    matrix3_space!(out, rng, n, $T, Srgb, D65, "Srgb", P_709, d65, MAT_TOL);
    matrix3_space!(out, rng, n, $T, AdobeRgb, D65, "AdobeRgb", P_ADOBE, d65, MAT_TOL);
    matrix3_space!(out, rng, n, $T, Rec2020, D65, "Rec2020", P_2020, d65, MAT_TOL);
    matrix3_space!(out, rng, n, $T, DisplayP3, D65, "DisplayP3", P_P3, d65, MAT_TOL);
    matrix3_space!(out, rng, n, $T, DciP3, DciP3, "DciP3", P_P3, dci, MAT_TOL);
    matrix3_space!(out, rng, n, $T, ProPhotoRgb, D50, "ProPhotoRgb", P_ROMM, d50, MAT_TOL);
    matrix3_space!(out, rng, n, $T, DciP3Plus<Srgb>, DciP3, "DciP3Plus", P_P3PLUS, dci, MAT_TOL);
    matrix3_space!(out, rng, n, $T, (Srgb, D50), D50, "(Srgb,D50)", P_709, d50, 0.0);
    // Lms matrices, identity, scale, then() across families
    macro_rules! lms3 { ($M:ty, $mn:expr) => {{
        let (f, b) = (Lms::<WithLmsMatrix<D65, $M>, T>::matrix_from_xyz(), Xyz::<D65, T>::matrix_from_lms::<WithLmsMatrix<D65, $M>>());
        let rgb_to_lms = Xyz::<D65, T>::matrix_from_rgb::<Linear<Srgb>>().then(f);
        let cm = cie::cone($mn);
        let sm = rs::rgb_to_xyz(P_709, d65);
        let r = 256.0 * <T as Fl>::eps();
        for c in rgb_cube(rng, n) {
            let a: [T; 3] = arr_of(c);
            let want_l: [T; 3] = cast::into_array(Lms::<WithLmsMatrix<D65, $M>, T>::from_color_unclamped(cast::from_array::<Xyz<D65, T>>(a)));
            let want_x: [T; 3] = cast::into_array(Xyz::<D65, T>::from_color_unclamped(cast::from_array::<Lms<WithLmsMatrix<D65, $M>, T>>(a)));
            let bare_l: [T; 3] = cast::into_array(Lms::<$M, T>::from_color_unclamped(cast::from_array::<Xyz<Any, T>>(a)));
            let bare_x: [T; 3] = cast::into_array(Xyz::<Any, T>::from_color_unclamped(cast::from_array::<Lms<$M, T>>(a)));
            let gl: [T; 3] = cast::into_array(f.convert(cast::from_array::<Xyz<D65, T>>(a)));
            let gx: [T; 3] = cast::into_array(b.convert(cast::from_array::<Lms<WithLmsMatrix<D65, $M>, T>>(a)));
            out.check(bits_eq(&gl, &want_l) && bits_eq(&gx, &want_x), &format!("matrix3-convert=from-color-unclamped:Lms:{}:{}", $mn, tag), || format!("{:?}: matrix {:?} / {:?}, conversion {:?} / {:?}", a, gl, gx, want_l, want_x));
            out.check(bits_eq(&bare_l, &want_l) && bits_eq(&bare_x, &want_x), &format!("with-lms-matrix=bare-matrix:Lms:{}:{}", $mn, tag), || format!("{:?}: WithLmsMatrix<D65, M> {:?} / {:?}, M {:?} / {:?}", a, want_l, want_x, bare_l, bare_x));
            // linear sRGB -> LMS through the composed matrix = cone matrix applied to the standard's XYZ
            let g: [T; 3] = cast::into_array(rgb_to_lms.convert(cast::from_array::<Rgb<Linear<Srgb>, T>>(a)));
            let want = cie::mul(cm, rs::mul_v(&sm, to64(&a)));
            out.check(close3(&to64(&g), &want, 2.5 * MAT_TOL + 4.0 * r, &[1.0, 1.0, 1.0]), &format!("def:matrix3-then:Rgb->Xyz->Lms:{}:{}", $mn, tag), || format!("{:?} -> {:?}, published matrices give {:?}", a, g, want));
        }
    }} }
    lms3!(Bradford, "Bradford"); lms3!(VonKries, "VonKries"); lms3!(UnitMatrix, "UnitMatrix");
    for c in rgb_cube(rng, n / 2) {
        let a: [T; 3] = arr_of(c);
        let id: [T; 3] = cast::into_array(palette::convert::Matrix3::<Xyz<D65, T>, Xyz<D65, T>>::identity().convert(cast::from_array::<Xyz<D65, T>>(a)));
        out.check((0..3).all(|i| id[i].to64() == a[i].to64()), &format!("def:matrix3-identity:{}", tag), || format!("{:?} -> {:?}", a, id));
        let s = [<T as Fl>::of(2.0), <T as Fl>::of(0.5), <T as Fl>::of(-3.0)];
        let g: [T; 3] = cast::into_array(palette::convert::Matrix3::<Xyz<D65, T>, Xyz<D65, T>>::scale(s[0], s[1], s[2]).convert(cast::from_array::<Xyz<D65, T>>(a)));
        out.check((0..3).all(|i| g[i].to64() == (s[i] * a[i]).to64()), &format!("def:matrix3-scale:{}", tag), || format!("{:?} -> {:?}", a, g));
    }
}
} }
part_d!(part_d_f32, f32);
part_d!(part_d_f64, f64);

// =====================================================================================================================
// E + F: trait entry points, collection forms, in-place forms, Alpha
// =====================================================================================================================
/// one directly implemented edge S -> D (both three components of T), inputs in the source's nominal box
macro_rules! forms { ($out:ident, $rng:ident, $n:expr, $T:ty, $S:ty, $D:ty, $cfg:expr, $box:expr, $hwb:expr) => {{
    type T = $T;
    let tag = format!("{}:{}", $cfg, <T as Fl>::TAG);
    let ins: Vec<[T; 3]> = box_inputs(nominal_box($box), $rng, $n, $hwb).into_iter().map(arr_of::<T, 3>).collect();
    let src: Vec<$S> = ins.iter().map(|a| cast::from_array::<$S>(*a)).collect();
    let want: Vec<[T; 3]> = src.iter().map(|s| cast::into_array(<$D>::from_color_unclamped(*s))).collect();
    let nan = |a: &[T; 3]| a.iter().any(|x| x.to64().is_nan());
    // IntoColorUnclamped
    for (s, w) in src.iter().zip(&want) {
        let g: [T; 3] = cast::into_array(IntoColorUnclamped::<$D>::into_color_unclamped(*s));
        $out.check(bits_eq(&g, w), &format!("into-color-unclamped=from-color-unclamped:{}", tag), || format!("{:?}: {:?} vs {:?}", s, g, w));
    }
    // Vec / Box<[T]>
    let v: Vec<$D> = Vec::<$D>::from_color_unclamped(src.clone());
    { let g: Vec<[T; 3]> = v.iter().map(|c| cast::into_array(*c)).collect();
      $out.check(g.len() == want.len() && g.iter().zip(&want).all(|(g, w)| bits_eq(g, w)), &format!("vec-from-color-unclamped=elementwise:{}", tag), || first_diff(&src, &g, &want, bits_eq)); }
    let v: Vec<$D> = src.clone().into_color_unclamped();
    { let g: Vec<[T; 3]> = v.iter().map(|c| cast::into_array(*c)).collect();
      $out.check(g.len() == want.len() && g.iter().zip(&want).all(|(g, w)| bits_eq(g, w)), &format!("vec-into-color-unclamped=elementwise:{}", tag), || first_diff(&src, &g, &want, bits_eq)); }
    let b: Box<[$D]> = Box::<[$D]>::from_color_unclamped(src.clone().into_boxed_slice());
    { let g: Vec<[T; 3]> = b.iter().map(|c| cast::into_array(*c)).collect();
      $out.check(g.len() == want.len() && g.iter().zip(&want).all(|(g, w)| bits_eq(g, w)), &format!("box-from-color-unclamped=elementwise:{}", tag), || first_diff(&src, &g, &want, bits_eq)); }
    let b: Box<[$D]> = src.clone().into_boxed_slice().into_color_unclamped();
    { let g: Vec<[T; 3]> = b.iter().map(|c| cast::into_array(*c)).collect();
      $out.check(g.len() == want.len() && g.iter().zip(&want).all(|(g, w)| bits_eq(g, w)), &format!("box-into-color-unclamped=elementwise:{}", tag), || first_diff(&src, &g, &want, bits_eq)); }
    // in place: one colour (value seen through the guard), then a slice, both spellings
    for (s, w) in src.iter().zip(&want).take(64) {
        let mut x = *s;
        let g: [T; 3] = { let guard = <$D>::from_color_unclamped_mut(&mut x); cast::into_array(*guard) };
        $out.check(bits_eq(&g, w), &format!("from-color-unclamped-mut=from-color-unclamped:{}", tag), || format!("{:?}: guard shows {:?}, conversion {:?}", s, g, w));
        let mut x = *s;
        let g: [T; 3] = { let guard = IntoColorUnclampedMut::<$D>::into_color_unclamped_mut(&mut x); cast::into_array(*guard) };
        $out.check(bits_eq(&g, w), &format!("into-color-unclamped-mut=from-color-unclamped:{}", tag), || format!("{:?}: guard shows {:?}, conversion {:?}", s, g, w));
    }
    {
        let mut buf = src.clone();
        let g: Vec<[T; 3]> = { let guard = <[$D]>::from_color_unclamped_mut(&mut buf[..]); guard.iter().map(|c| cast::into_array(*c)).collect() };
        $out.check(g.len() == want.len() && g.iter().zip(&want).all(|(g, w)| bits_eq(g, w)), &format!("slice-from-color-unclamped-mut=elementwise:{}", tag), || first_diff(&src, &g, &want, bits_eq));
        let mut buf = src.clone();
        let g: Vec<[T; 3]> = { let guard = IntoColorUnclampedMut::<[$D]>::into_color_unclamped_mut(&mut buf[..]); guard.iter().map(|c| cast::into_array(*c)).collect() };
        $out.check(g.len() == want.len() && g.iter().zip(&want).all(|(g, w)| bits_eq(g, w)), &format!("slice-into-color-unclamped-mut=elementwise:{}", tag), || first_diff(&src, &g, &want, bits_eq));
    }
    // the clamping entry points where the defined value lies inside the destination's bounds: clamping must not alter it
    let mut inside = 0u64;
    for (s, w) in src.iter().zip(&want) {
        if nan(w) { continue; }
        let u: $D = cast::from_array(*w);
        if !u.is_within_bounds() { continue; }
        inside += 1;
        let g: [[T; 3]; 2] = [cast::into_array(<$D>::from_color(*s)), cast::into_array(IntoColor::<$D>::into_color(*s))];
        $out.check(g.iter().all(|x| same_val(x, w)), &format!("from-color=unclamped-where-within-bounds:{}", tag), || format!("{:?}: [from_color, into_color] = {:?}, from_color_unclamped {:?}", s, g, w));
        let t1: Option<[T; 3]> = <$D>::try_from_color(*s).ok().map(|c| cast::into_array(c));
        let t2: Option<[T; 3]> = TryIntoColor::<$D>::try_into_color(*s).ok().map(|c| cast::into_array(c));
        $out.check(t1.map_or(false, |x| same_val(&x, w)) && t2.map_or(false, |x| same_val(&x, w)), &format!("try-from-color=unclamped-where-within-bounds:{}", tag), || format!("{:?}: try_from_color {:?}, try_into_color {:?}, from_color_unclamped {:?}", s, t1, t2, w));
    }
    $out.count_n(&format!("cls:more:within-destination-bounds:{}", $cfg), inside);
    {
        let keep: Vec<usize> = (0..src.len()).filter(|&i| !nan(&want[i]) && cast::from_array::<$D>(want[i]).is_within_bounds()).collect();
        let s2: Vec<$S> = keep.iter().map(|&i| src[i]).collect();
        let v: Vec<$D> = Vec::<$D>::from_color(s2.clone());
        let w2: Vec<[T; 3]> = keep.iter().map(|&i| want[i]).collect();
        let g: Vec<[T; 3]> = v.iter().map(|c| cast::into_array(*c)).collect();
        $out.check(g.len() == w2.len() && g.iter().zip(&w2).all(|(g, w)| same_val(g, w)), &format!("vec-from-color=unclamped-where-within-bounds:{}", tag), || first_diff(&s2, &g, &w2, same_val));
        let b: Box<[$D]> = s2.clone().into_boxed_slice().into_color();
        let g: Vec<[T; 3]> = b.iter().map(|c| cast::into_array(*c)).collect();
        $out.check(g.len() == w2.len() && g.iter().zip(&w2).all(|(g, w)| same_val(g, w)), &format!("box-into-color=unclamped-where-within-bounds:{}", tag), || first_diff(&s2, &g, &w2, same_val));
    }
    // F: Alpha on either side - the colour part is the plain conversion
    for (k, (s, w)) in src.iter().zip(&want).enumerate().take(256) {
        let al: T = <T as Fl>::of((k % 17) as f64 / 16.0);
        let g: Alpha<$D, T> = Alpha::<$D, T>::from_color_unclamped(Alpha::<$S, T> { color: *s, alpha: al });
        let gc: [T; 3] = cast::into_array(g.color);
        $out.check(bits_eq(&gc, w) && g.alpha.bits64() == al.bits64(), &format!("alpha-from-color-unclamped=plain:Alpha->Alpha:{}", tag), || format!("{:?}/{:?}: {:?}/{:?}, plain conversion {:?}", s, al, gc, g.alpha, w));
        let g: Alpha<$D, T> = Alpha::<$D, T>::from_color_unclamped(*s);
        let gc: [T; 3] = cast::into_array(g.color);
        $out.check(bits_eq(&gc, w), &format!("alpha-from-color-unclamped=plain:plain->Alpha:{}", tag), || format!("{:?}: {:?}, plain conversion {:?}", s, gc, w));
        let g: [T; 3] = cast::into_array(<$D>::from_color_unclamped(Alpha::<$S, T> { color: *s, alpha: al }));
        $out.check(bits_eq(&g, w), &format!("alpha-from-color-unclamped=plain:Alpha->plain:{}", tag), || format!("{:?}/{:?}: {:?}, plain conversion {:?}", s, al, g, w));
        // alpha of another component type
        let g: Alpha<$D, u8> = Alpha::<$D, u8>::from_color_unclamped(Alpha::<$S, u8> { color: *s, alpha: (k % 256) as u8 });
        let gc: [T; 3] = cast::into_array(g.color);
        $out.check(bits_eq(&gc, w) && g.alpha == (k % 256) as u8, &format!("alpha-from-color-unclamped=plain:Alpha<_,u8>:{}", tag), || format!("{:?}/{}: {:?}/{}, plain conversion {:?}", s, k % 256, gc, g.alpha, w));
    }
}} }
/// `then_into_color_unclamped_mut`: a method with bounds of its own - concrete types only
macro_rules! chain { ($out:ident, $rng:ident, $n:expr, $T:ty, $A:ty, $B:ty, $C:ty, $cfg:expr, $box:expr) => {{
    type T = $T;
    let tag = format!("{}:{}", $cfg, <T as Fl>::TAG);
    for c in box_inputs(nominal_box($box), $rng, $n, false) {
        let a: [T; 3] = arr_of(c);
        let s: $A = cast::from_array(a);
        let want: [T; 3] = cast::into_array(<$C>::from_color_unclamped(<$B>::from_color_unclamped(s)));
        let mut x = s;
        let g: [T; 3] = { let guard = <$B>::from_color_unclamped_mut(&mut x).then_into_color_unclamped_mut::<$C>(); cast::into_array(*guard) };
        $out.check(bits_eq(&g, &want), &format!("then-into-color-unclamped-mut=stepwise:{}", tag), || format!("{:?}: guard shows {:?}, the two conversions {:?}", a, g, want));
    }
}} }
macro_rules! part_ef { ($fname:ident, $T:ty) => {
fn $fname(out: &mut Out, rng: &mut Rng, n: usize) {
    type T = $T;
    forms!(out, rng, n, $T, Rgb<Srgb, T>, Xyz<D65, T>, "Rgb->Xyz", "Rgb", false);
    forms!(out, rng, n, $T, Xyz<D65, T>, Rgb<Srgb, T>, "Xyz->Rgb", "XyzD65", false);
    forms!(out, rng, n, $T, Xyz<D50, T>, Lab<D50, T>, "Xyz->Lab:D50", "Xyz", false);
    forms!(out, rng, n, $T, Lab<D65, T>, Xyz<D65, T>, "Lab->Xyz", "Lab", false);
    forms!(out, rng, n, $T, Lab<D65, T>, Lch<D65, T>, "Lab->Lch", "Lab", false);
    forms!(out, rng, n, $T, Xyz<D65, T>, Luv<D65, T>, "Xyz->Luv", "XyzD65", false);
    forms!(out, rng, n, $T, Lchuv<D65, T>, Hsluv<D65, T>, "Lchuv->Hsluv", "Lchuv", false);
    forms!(out, rng, n, $T, Xyz<D65, T>, Yxy<D65, T>, "Xyz->Yxy", "XyzD65", false);
    forms!(out, rng, n, $T, Rgb<Srgb, T>, Hsl<Srgb, T>, "Rgb->Hsl", "Rgb", false);
    forms!(out, rng, n, $T, Hsv<Srgb, T>, Rgb<Srgb, T>, "Hsv->Rgb", "Hsv", false);
    forms!(out, rng, n, $T, Hsv<Srgb, T>, Hwb<Srgb, T>, "Hsv->Hwb", "Hsv", false);
    forms!(out, rng, n, $T, Hwb<Srgb, T>, Hsv<Srgb, T>, "Hwb->Hsv", "Hwb", true);
    forms!(out, rng, n, $T, Rgb<Srgb, T>, Rgb<Linear<Srgb>, T>, "Rgb->LinRgb", "Rgb", false);
    forms!(out, rng, n, $T, Xyz<D65, T>, Oklab<T>, "Xyz->Oklab", "XyzD65", false);
    forms!(out, rng, n, $T, Oklab<T>, Oklch<T>, "Oklab->Oklch", "Oklab", false);
    forms!(out, rng, n, $T, Okhsl<T>, Oklab<T>, "Okhsl->Oklab", "Okhsl", false);
    forms!(out, rng, n, $T, Okhsv<T>, Okhwb<T>, "Okhsv->Okhwb", "Okhsv", false);
    forms!(out, rng, n, $T, Xyz<Any, T>, Lms<Bradford, T>, "Xyz->Lms", "Xyz", false);
    chain!(out, rng, n, $T, Rgb<Srgb, T>, Xyz<D65, T>, Lab<D65, T>, "Rgb->Xyz->Lab", "Rgb");
    chain!(out, rng, n, $T, Lch<D65, T>, Lab<D65, T>, Xyz<D65, T>, "Lch->Lab->Xyz", "Lch");
    chain!(out, rng, n, $T, Okhsv<T>, Oklab<T>, Oklch<T>, "Okhsv->Oklab->Oklch", "Okhsv");
}
} }
part_ef!(part_ef_f32, f32);
part_ef!(part_ef_f64, f64);

// =====================================================================================================================
// G: forwarding configurations (white points, RGB standards for the hexcone edges), with protocol lines; H: identities
// =====================================================================================================================
macro_rules! part_gh { ($fname:ident, $T:ty) => {
fn $fname(out: &mut Out, rng: &mut Rng, n: usize) {
    type T = $T;
    let tag = <T as Fl>::TAG;
    let eps = <T as Fl>::eps();
    // tolerances of conv_cie.rs
    let tol = 64.0 * eps;
    macro_rules! white_point { ($Wp:ty, $wpn:expr) => {{
        // the formulas are judged with the white point the crate uses (f64 instantiation); that this constant is the published one (ASTM E308;
        // the crate rounds the 10 degree observer values to four digits) is the clause `white-point-published`, with its own tolerance 5e-5
        let w: [f64; 3] = cast::into_array(<$Wp as wp::WhitePoint<f64>>::get_xyz());
        let w_pub = cie::white($wpn);
        let (xn, labn, luvn) = (format!("Xyz:{}", $wpn), format!("Lab:{}", $wpn), format!("Luv:{}", $wpn));
        let mut xs = box_inputs(nominal_box("Xyz"), rng, n, false);
        let e = (6.0f64 / 29.0).powi(3);
        for i in 0..3 { for k in [0i64, 1, -1, 2, -2] { let mut c = [0.3 * w[0], 0.3 * w[1], 0.3 * w[2]]; c[i] = <T as Fl>::of(e * w[i]).nudge(k).to64(); xs.push(c); } }
        for k in 0..=16 { let g = k as f64 / 16.0; xs.push([g * w[0], g * w[1], g * w[2]]); }
        let r = edge::<Xyz<$Wp, T>, Lab<$Wp, T>, T, 3, 3>(out, &xn, &labn, &xs);
        for (a, d) in &r { let want = cie::xyz_to_lab(w, to64(a));
            out.check(close3(&to64(d), &want, tol, &[116.0, 500.0, 200.0]), &format!("def:Xyz->Lab:{}:{}", $wpn, tag), || format!("{:?} -> {:?}, CIE 15 gives {:?}", a, d, want)); }
        let r = edge::<Xyz<$Wp, T>, Luv<$Wp, T>, T, 3, 3>(out, &xn, &luvn, &xs);
        let (un, vn) = cie::upvp(w);
        for (a, d) in &r { let a64 = to64(a); let want = cie::xyz_to_luv(w, a64);
            let (up, vp) = if a64[0] + 15.0 * a64[1] + 3.0 * a64[2] != 0.0 { cie::upvp(a64) } else { (0.0, 0.0) };
            let (su, sv) = (13.0 * want[0].abs() * up.abs().max(un), 13.0 * want[0].abs() * vp.abs().max(vn));
            out.check(close3(&to64(d), &want, 4.0 * tol, &[116.0, su, sv]), &format!("def:Xyz->Luv:{}:{}", $wpn, tag), || format!("{:?} -> {:?}, CIE 15 gives {:?}", a, d, want)); }
        let mut ls = box_inputs(nominal_box("Lab"), rng, n, false);
        for k in [0i64, 1, -1, 2, -2] { ls.push([<T as Fl>::of(8.0).nudge(k).to64(), 0.0, 0.0]); }
        let r = edge::<Lab<$Wp, T>, Xyz<$Wp, T>, T, 3, 3>(out, &labn, &xn, &ls);
        for (a, d) in &r { let want = cie::lab_to_xyz(w, to64(a));
            out.check(close3(&to64(d), &want, 8.0 * tol, &[1.0, 1.0, 1.0]), &format!("def:Lab->Xyz:{}:{}", $wpn, tag), || format!("{:?} -> {:?}, CIE 15 gives {:?}", a, d, want)); }
        // Luv -> Xyz on the part of the box that is a physical colour (v' >= 0.01, u' >= 0), L at and above the cutoff; scales as the sibling clause
        let mut us = box_inputs(nominal_box("Luv"), rng, n, false);
        for k in [0i64, 1, -1, 2, -2] { us.push([<T as Fl>::of(8.0).nudge(k).to64(), 10.0, -5.0]); }
        let r = edge::<Luv<$Wp, T>, Xyz<$Wp, T>, T, 3, 3>(out, &luvn, &xn, &us);
        for (a, d) in &r {
            let a64 = to64(a); let d64 = to64(d);
            if a64[0] < <T as Fl>::of(1e-5).to64() { continue; }
            let want = cie::luv_to_xyz(w, a64);
            let (ut, vt) = (a64[1] / (13.0 * a64[0]), a64[2] / (13.0 * a64[0]));
            let (up, vp) = (ut + un, vt + vn);
            if vp == 0.0 { continue; }
            let cv = vt.abs().max(vn) / vp.abs(); let cu = ut.abs().max(un);
            let y = want[1];
            let sx = y * 2.25 * (cu + up.abs() * cv) / vp.abs(); let sz = y * (3.0 + 0.75 * cu + 5.0 * vt.abs().max(vn) + (3.0 + 0.75 * up.abs() + 5.0 * vp.abs()) * cv) / vp.abs();
            out.check(close3(&d64, &want, 4.0 * tol, &[sx.max(1.0), 1.0, sz.max(1.0)]), &format!("def:Luv->Xyz:{}:{}", $wpn, tag), || format!("{:?} -> {:?}, CIE 15 gives {:?}", a, d, want));
        }
        // the white-point-free edges once per white point (protocol lines; the definitions do not mention the white point)
        let ps = box_inputs(nominal_box("Lch"), rng, n / 4, false);
        let r = edge::<Lch<$Wp, T>, Lab<$Wp, T>, T, 3, 3>(out, &format!("Lch:{}", $wpn), &labn, &ps);
        for (a, d) in &r { let a64 = to64(a); let want = cie::from_polar(a64);
            out.check(close3(&to64(d), &want, tol, &[1.0, a64[1], a64[1]]), &format!("def:Lch->Lab:{}:{}", $wpn, tag), || format!("{:?} -> {:?}, CIE 15 gives {:?}", a, d, want)); }
        let hs = box_inputs([(0.0, 360.0), (0.0, 100.0), (1.0, 99.0)], rng, n / 4, false);
        let r = edge::<Hsluv<$Wp, T>, Lchuv<$Wp, T>, T, 3, 3>(out, &format!("Hsluv:{}", $wpn), &format!("Lchuv:{}", $wpn), &hs);
        for (a, d) in &r { let a64 = to64(a); let d64 = to64(d); let want = cie::hsluv_to_lch(a64);
            let ok = d64[2] == a64[0] && d64[0] == a64[2] && close(d64[1], want[1], 4.0 * tol * (1.0 + a64[0].abs() / 45.0), 1.0);
            out.check(ok, &format!("def:Hsluv->Lchuv:{}:{}", $wpn, tag), || format!("{:?} -> {:?}, HSLuv reference gives {:?}", a, d, want)); }
        // WhitePoint::get_xyz in this component type
        let got: [T; 3] = cast::into_array(<$Wp as wp::WhitePoint<T>>::get_xyz());
        out.check((0..3).all(|k| (got[k].to64() - w_pub[k]).abs() <= 5e-5), &format!("white-point-published:{}:{}", $wpn, tag), || format!("get_xyz() = {:?}, published {:?}", got, w_pub));
    }} }
    white_point!(wp::B, "B"); white_point!(wp::C, "C"); white_point!(wp::D55, "D55"); white_point!(wp::D75, "D75");
    white_point!(wp::F2, "F2"); white_point!(wp::F7, "F7"); white_point!(wp::F11, "F11");
    white_point!(wp::D50Degree10, "D50Degree10"); white_point!(wp::D55Degree10, "D55Degree10"); white_point!(wp::D65Degree10, "D65Degree10"); white_point!(wp::D75Degree10, "D75Degree10");

    // hexcone edges for more standards (definitions do not mention the standard; tolerances of conv_rgb.rs)
    let htol = 360.0 * 64.0 * eps;
    macro_rules! hexcone_std { ($S:ty, $sn:expr) => {{
        let xs = rgb_cube(rng, n);
        let res = edge::<Rgb<$S, T>, Hsv<$S, T>, T, 3, 3>(out, &format!("Rgb:{}", $sn), &format!("Hsv:{}", $sn), &xs);
        for (a, d) in &res { let (a64, got) = (to64(a), to64(d)); let want = rs::rgb_to_hsv(a64);
            out.check(hue_close(got[0], want[0], htol) && close(got[1], want[1], tol, 1.0) && close(got[2], want[2], tol, 1.0), &format!("def:Rgb->Hsv:{}:{}", $sn, tag), || format!("{:?} -> {:?}, hexcone gives {:?}", a64, got, want)); }
        let res = edge::<Rgb<$S, T>, Hsl<$S, T>, T, 3, 3>(out, &format!("Rgb:{}", $sn), &format!("Hsl:{}", $sn), &xs);
        for (a, d) in &res { let (a64, got) = (to64(a), to64(d)); let want = rs::rgb_to_hsl(a64);
            let sum = a64.iter().cloned().fold(0.0, f64::max) + a64.iter().cloned().fold(1.0, f64::min);
            let stol = tol * (1.0 + if sum > 1.0 { 1.0 / (2.0 - sum).max(1e-300) } else { 0.0 });
            out.check(hue_close(got[0], want[0], htol) && (got[1] - want[1]).abs() <= stol && close(got[2], want[2], tol, 1.0), &format!("def:Rgb->Hsl:{}:{}", $sn, tag), || format!("{:?} -> {:?}, double hexcone gives {:?}", a64, got, want)); }
        let mut hs = box_inputs([(-360.0, 720.0), (0.0, 1.0), (0.0, 1.0)], rng, n, false);
        for k in -6..=12 { for d in [0i64, 1, -1] { hs.push([<T as Fl>::of(60.0 * k as f64).nudge(d).to64(), 0.7, 0.6]); } }
        let res = edge::<Hsv<$S, T>, Rgb<$S, T>, T, 3, 3>(out, &format!("Hsv:{}", $sn), &format!("Rgb:{}", $sn), &hs);
        for (a, d) in &res { let (a64, got) = (to64(a), to64(d)); let want = rs::hsv_to_rgb(a64); let t = tol * (1.0 + a64[0].abs() / 60.0);
            out.check((0..3).all(|i| (got[i] - want[i]).abs() <= t), &format!("def:Hsv->Rgb:{}:{}", $sn, tag), || format!("{:?} -> {:?}, hexcone gives {:?}", a64, got, want)); }
        let res = edge::<Hsl<$S, T>, Rgb<$S, T>, T, 3, 3>(out, &format!("Hsl:{}", $sn), &format!("Rgb:{}", $sn), &hs);
        for (a, d) in &res { let (a64, got) = (to64(a), to64(d)); let want = rs::hsl_to_rgb(a64); let t = tol * (1.0 + a64[0].abs() / 60.0);
            out.check((0..3).all(|i| (got[i] - want[i]).abs() <= t), &format!("def:Hsl->Rgb:{}:{}", $sn, tag), || format!("{:?} -> {:?}, double hexcone gives {:?}", a64, got, want)); }
        let res = edge::<Hsv<$S, T>, Hwb<$S, T>, T, 3, 3>(out, &format!("Hsv:{}", $sn), &format!("Hwb:{}", $sn), &hs);
        for (a, d) in &res { let (a64, got) = (to64(a), to64(d)); let want = rs::hsv_to_hwb(a64);
            out.check(got[0] == a64[0] && close(got[1], want[1], tol, 1.0) && close(got[2], want[2], tol, 1.0), &format!("def:Hsv->Hwb:{}:{}", $sn, tag), || format!("{:?} -> {:?}, Smith & Lyons give {:?}", a64, got, want)); }
        let mut ws = box_inputs([(-360.0, 720.0), (0.0, 1.0), (0.0, 1.0)], rng, n, true);
        ws.retain(|c| 1.0 - c[2] >= 1e-3);
        let res = edge::<Hwb<$S, T>, Hsv<$S, T>, T, 3, 3>(out, &format!("Hwb:{}", $sn), &format!("Hsv:{}", $sn), &ws);
        for (a, d) in &res { let (a64, got) = (to64(a), to64(d)); let want = rs::hwb_to_hsv(a64); let v = 1.0 - a64[2];
            out.check(got[0] == a64[0] && (got[1] - want[1]).abs() <= tol * (1.0 + a64[1] / (v * v)) && close(got[2], want[2], tol, 1.0), &format!("def:Hwb->Hsv:{}:{}", $sn, tag), || format!("{:?} -> {:?}, Smith & Lyons give {:?}", a64, got, want)); }
    }} }
    hexcone_std!(Rec709, "Rec709"); hexcone_std!(AdobeRgb, "AdobeRgb"); hexcone_std!(Rec2020, "Rec2020"); hexcone_std!(DciP3, "DciP3"); hexcone_std!(Linear<ProPhotoRgb>, "LinProPhotoRgb");

    // Gamma<Srgb, F2p2>: no published standard - correspondence with the model only
    {
        let xs = rgb_cube(rng, n);
        edge::<Rgb<Gamma<Srgb, F2p2>, T>, Xyz<D65, T>, T, 3, 3>(out, "Rgb:GammaSrgb", "Xyz:D65", &xs);
        let _ = core::marker::PhantomData::<GammaFn<F2p2>>;
    }

    // H: hand-written identities
    macro_rules! ident { ($C:ty, $cn:expr, $box:expr) => { for c in box_inputs(nominal_box($box), rng, 16, false) {
        let a: [T; 3] = arr_of(c);
        let g: [T; 3] = cast::into_array(<$C>::from_color_unclamped(cast::from_array::<$C>(a)));
        out.check(bits_eq(&g, &a), &format!("identity:{}:{}", $cn, tag), || format!("{:?} -> {:?}", a, g));
    } } }
    ident!(Xyz<D65, T>, "Xyz", "Xyz"); ident!(Yxy<D65, T>, "Yxy", "Yxy"); ident!(Lab<D65, T>, "Lab", "Lab"); ident!(Lch<D65, T>, "Lch", "Lch"); ident!(Luv<D65, T>, "Luv", "Luv");
    ident!(Lchuv<D65, T>, "Lchuv", "Lchuv"); ident!(Hsluv<D65, T>, "Hsluv", "Hsluv"); ident!(Lms<Bradford, T>, "Lms", "Lms"); ident!(Oklab<T>, "Oklab", "Oklab"); ident!(Oklch<T>, "Oklch", "Oklch");
    // (Okhsl, Okhsv, Okhwb have no hand-written identity: `Okhsl -> Okhsl` is derived through Oklab, a round trip - C01's business)
    ident!(Rgb<AdobeRgb, T>, "Rgb<AdobeRgb>", "Rgb"); ident!(Hsl<Rec2020, T>, "Hsl<Rec2020>", "Hsl");
    ident!(Hsv<DciP3, T>, "Hsv<DciP3>", "Hsv"); ident!(Hwb<ProPhotoRgb, T>, "Hwb<ProPhotoRgb>", "Hwb");
    for i in 0..=8 { let a = <T as Fl>::of(i as f64 / 8.0);
        let g = Luma::<DisplayP3, T>::from_color_unclamped(Luma::<DisplayP3, T>::new(a)).luma;
        out.check(g.bits64() == a.bits64(), &format!("identity:Luma<DisplayP3>:{}", tag), || format!("{:?} -> {:?}", a, g)); }
}
} }
part_gh!(part_gh_f32, f32);
part_gh!(part_gh_f64, f64);

pub fn run_more(out: &mut Out, rng: &mut Rng, tier: &str) {
    crate::wp_published::run(out, "C02");   // constants of white_point.rs against the published table (witness for a wrong literal)
    let n = if tier == "thorough" { 4_000 } else { 120 };
    part_ab_f32(out, rng, n); part_ab_f64(out, rng, n);
    part_c_f32(out, rng, n); part_c_f64(out, rng, n);
    part_d_f32(out, rng, n); part_d_f64(out, rng, n);
    part_ef_f32(out, rng, n); part_ef_f64(out, rng, n);
    part_gh_f32(out, rng, n); part_gh_f64(out, rng, n);
}
