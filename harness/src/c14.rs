//! C14 — white stays white, neutrals stay neutral, adaptation maps white onto white.
use crate::common::*;
use crate::conv_common::*;
use palette::cast::{from_array, into_array};
use palette::chromatic_adaptation::{adaptation_matrix, AdaptFromUnclamped, AdaptIntoUnclamped};
use palette::convert::{Convert, FromColorUnclamped};
use palette::encoding::{self, Linear};
use palette::lms::matrix::{Bradford, UnitMatrix, VonKries};
use palette::rgb::{Rgb, RgbSpace, RgbStandard};
use palette::white_point::*;
use palette::{Hsl, Hsluv, Hsv, Hwb, Lab, Lch, Lchuv, Luv, Okhsl, Okhsv, Okhwb, Oklab, Oklch, Xyz, Yxy};

macro_rules! for_pairs {
    ($mac:ident; $args:tt; [$($a:ident),*]; $bs:tt) => { $( for_pairs!(@inner $mac; $args; $a; $bs); )* };
    (@inner $mac:ident; $args:tt; $a:ident; [$($b:ident),*]) => { $( $mac!($args, $a, $b); )* };
}

fn wp_xyz<W: WhitePoint<f64>>() -> [f64; 3] { into_array(W::get_xyz()) }

// one small non-generic function per (component type, white point pair, cone matrix): concrete types, so that the library's own trait
// bounds decide what compiles, and separate functions, so that the optimiser is not handed one 1350-fold inlined body
macro_rules! adapt_one { ($t:ty, $i:ty, $o:ty, $m:ty, $out:expr, $rng:expr, $iname:expr, $oname:expr, $mname:expr) => {{
    #[inline(never)] fn one(out: &mut Out, rng: &mut Rng, iname: &str, oname: &str, mname: &str) {
    let fwd = adaptation_matrix::<$t, $i, $o, $m>(None, None);
    let back = adaptation_matrix::<$t, $o, $i, $m>(None, None);
    let arr = fwd.into_array();
    out.case(&format!("adapt {} {} {} | | {}", iname, oname, mname, hx_list(&arr)));
    let (wi, wo) = (wp_xyz::<$i>(), wp_xyz::<$o>());
    // the source white point lands on the destination white point.  The cone matrix pairs are 7-digit tables (inverse to 1e-7, decided in
    // C14_White.lean: adaptation error <= 7e-8 in exact arithmetic), f32 adds ~8 eps of values <= 2: 2e-7 / 4e-6.
    let tol = if <$t as Fl>::TAG == "f32" { 4e-6 } else { 2e-7 };
    let wi_t: [$t; 3] = arr_of(wi);
    let mapped: [$t; 3] = into_array(fwd.convert(from_array::<Xyz<$i, $t>>(wi_t)));
    let e = (0..3).map(|k| (mapped[k].to64() - wo[k]).abs()).fold(0.0, f64::max);
    out.maxi(&format!("adapt-white-err:{}", <$t as Fl>::TAG), e);
    out.check(e <= tol, &format!("adapt-white:{}:{}", mname, <$t as Fl>::TAG), || format!("{} -> {}: white {:?} maps to {:?}, want {:?}", iname, oname, wi, mapped, wo));
    // dynamic white points: the same STATIC type on both sides, the white points passed as values (the documented white-balance form);
    // the matrix must be the one of the corresponding static pair, in particular it maps the source white onto the destination white
    {
        let wi_t: [$t; 3] = arr_of(wp_xyz::<$i>()); let wo_t: [$t; 3] = arr_of(wp_xyz::<$o>());
        let dynm = adaptation_matrix::<$t, palette::white_point::D65, palette::white_point::D65, $m>(Some(from_array::<Xyz<palette::white_point::D65, $t>>(wi_t)), Some(from_array::<Xyz<palette::white_point::D65, $t>>(wo_t)));
        let mapped: [$t; 3] = into_array(dynm.convert(from_array::<Xyz<palette::white_point::D65, $t>>(wi_t)));
        let e = (0..3).map(|k| (mapped[k].to64() - wo_t[k].to64()).abs()).fold(0.0, f64::max);
        out.check(e <= tol, &format!("adapt-white-dynamic:{}:{}", mname, <$t as Fl>::TAG), || format!("adaptation_matrix::<D65, D65>(Some({}), Some({})): white {:?} maps to {:?}, want {:?}", iname, oname, wi_t, mapped, wo_t));
        let (da, sa) = (dynm.into_array(), arr);
        out.check(da.iter().zip(sa.iter()).all(|(p, q)| p.to64().to_bits() == q.to64().to_bits() || (p.to64() - q.to64()).abs() <= 4.0 * <$t as Fl>::eps()), &format!("adapt-dynamic=static:{}:{}", mname, <$t as Fl>::TAG), || format!("{} -> {}: dynamic {:?} static {:?}", iname, oname, da, sa));
    }
    // there and back returns the original colour (linear, so a handful of colours settles the matrix product; C14_White decides ‖A'A − I‖ <= 1e-6)
    let tol_rt = if <$t as Fl>::TAG == "f32" { 2e-5 } else { 2e-6 };
    for _ in 0..4 {
        let x = [rng.range(0.0, 1.2), rng.range(0.0, 1.2), rng.range(0.0, 1.2)];
        let xt: [$t; 3] = arr_of(x);
        let y: Xyz<$o, $t> = fwd.convert(from_array::<Xyz<$i, $t>>(xt));
        let z: [$t; 3] = into_array(back.convert(y));
        let e = (0..3).map(|k| (z[k].to64() - xt[k].to64()).abs()).fold(0.0, f64::max);
        out.maxi(&format!("adapt-roundtrip-err:{}", <$t as Fl>::TAG), e);
        out.check(e <= tol_rt, &format!("adapt-roundtrip:{}:{}", mname, <$t as Fl>::TAG), || format!("{} -> {} -> {}: {:?} came back as {:?}", iname, oname, iname, xt, z));
    }
    out.count("cls:adapt-pair");
    }
    one($out, $rng, $iname, $oname, $mname);
}} }


/// the adaptation entry points of the traits against the matrix of `adaptation_matrix` (a subset of the white point pairs: the traits
/// are generic, the shortcut a mutant might add is per pair)
macro_rules! adapt_entry { ($t:ty, $i:ty, $o:ty, $m:ty, $out:expr, $iname:expr, $oname:expr, $mname:expr) => {{
    // (equal white points: the traits return the colour itself, bit for bit — checked below; the matrix is M⁻¹·M of 7-digit tables)
    if $iname != $oname {
    let fwd = adaptation_matrix::<$t, $i, $o, $m>(None, None);
    let wi = wp_xyz::<$i>();
    // every entry point is the same transform: `adapt_from_unclamped_with::<M>`, `adapt_into_unclamped_with::<M>` and (Bradford being the
    // documented default) `adapt_from_unclamped` / `adapt_into_unclamped` equal the matrix of `adaptation_matrix` applied to the colour
    {
        let cols: [[f64; 3]; 3] = [wi, [0.3, 0.4, 0.2], [0.9, 0.1, 0.6]];
        for c in cols {
            let ct: [$t; 3] = arr_of(c);
            let want: [$t; 3] = into_array(fwd.convert(from_array::<Xyz<$i, $t>>(ct)));
            let a: [$t; 3] = into_array(<Xyz<$o, $t> as AdaptFromUnclamped<Xyz<$i, $t>>>::adapt_from_unclamped_with::<$m>(from_array::<Xyz<$i, $t>>(ct)));
            let b: [$t; 3] = into_array(<Xyz<$i, $t> as AdaptIntoUnclamped<Xyz<$o, $t>>>::adapt_into_unclamped_with::<$m>(from_array::<Xyz<$i, $t>>(ct)));
            let close = |p: &[$t; 3], q: &[$t; 3]| (0..3).all(|k| (p[k].to64() - q[k].to64()).abs() <= 8.0 * <$t as Fl>::eps() * (1.0 + q[k].to64().abs()));
            $out.check(close(&a, &want) && close(&b, &want), &format!("adapt-entry-points:{}:{}", $mname, <$t as Fl>::TAG), || format!("{} -> {}: {:?}: matrix {:?}, adapt_from_unclamped_with {:?}, adapt_into_unclamped_with {:?}", $iname, $oname, ct, want, a, b));
            if $mname == "Bradford" {
                let d: [$t; 3] = into_array(<Xyz<$o, $t> as AdaptFromUnclamped<Xyz<$i, $t>>>::adapt_from_unclamped(from_array::<Xyz<$i, $t>>(ct)));
                let e: [$t; 3] = into_array(<Xyz<$i, $t> as AdaptIntoUnclamped<Xyz<$o, $t>>>::adapt_into_unclamped(from_array::<Xyz<$i, $t>>(ct)));
                $out.check(close(&d, &want) && close(&e, &want), &format!("adapt-entry-points-default:{}", <$t as Fl>::TAG), || format!("{} -> {}: {:?}: Bradford matrix {:?}, adapt_from_unclamped {:?}, adapt_into_unclamped {:?}", $iname, $oname, ct, want, d, e));
            }
        }
    }
    }
}} }

macro_rules! adapt_case { ( ($out:ident, $rng:ident), $i:ident, $o:ident ) => {{
    adapt_one!(f32, $i, $o, Bradford, $out, $rng, stringify!($i), stringify!($o), "Bradford"); adapt_one!(f64, $i, $o, Bradford, $out, $rng, stringify!($i), stringify!($o), "Bradford");
    adapt_one!(f32, $i, $o, VonKries, $out, $rng, stringify!($i), stringify!($o), "VonKries"); adapt_one!(f64, $i, $o, VonKries, $out, $rng, stringify!($i), stringify!($o), "VonKries");
    adapt_one!(f32, $i, $o, UnitMatrix, $out, $rng, stringify!($i), stringify!($o), "UnitMatrix"); adapt_one!(f64, $i, $o, UnitMatrix, $out, $rng, stringify!($i), stringify!($o), "UnitMatrix");
}} }

/// one RGB standard: white -> its white point -> L* = 100, zero chroma; grays neutral; matrix pair inverse; hard-coded = derived from primaries
fn standard_one<S, T: Fl>(out: &mut Out, name: &str, grays: usize)
where S: RgbStandard + 'static, S::Space: RgbSpace, <S::Space as RgbSpace>::WhitePoint: WhitePoint<T> + WhitePoint<f64>,
      Xyz<<S::Space as RgbSpace>::WhitePoint, T>: FromColorUnclamped<Rgb<S, T>> + palette::cast::ArrayCast<Array = [T; 3]>,
      Rgb<S, T>: FromColorUnclamped<Xyz<<S::Space as RgbSpace>::WhitePoint, T>> + palette::cast::ArrayCast<Array = [T; 3]>,
      Lab<<S::Space as RgbSpace>::WhitePoint, T>: FromColorUnclamped<Xyz<<S::Space as RgbSpace>::WhitePoint, T>> + palette::cast::ArrayCast<Array = [T; 3]>,
      Luv<<S::Space as RgbSpace>::WhitePoint, T>: FromColorUnclamped<Xyz<<S::Space as RgbSpace>::WhitePoint, T>> + palette::cast::ArrayCast<Array = [T; 3]>,
      Lch<<S::Space as RgbSpace>::WhitePoint, T>: FromColorUnclamped<Xyz<<S::Space as RgbSpace>::WhitePoint, T>> + palette::cast::ArrayCast<Array = [T; 3]>,
      Lchuv<<S::Space as RgbSpace>::WhitePoint, T>: FromColorUnclamped<Xyz<<S::Space as RgbSpace>::WhitePoint, T>> + palette::cast::ArrayCast<Array = [T; 3]>,
      Hsv<S, T>: FromColorUnclamped<Rgb<S, T>> + palette::cast::ArrayCast<Array = [T; 3]>, Hsl<S, T>: FromColorUnclamped<Rgb<S, T>> + palette::cast::ArrayCast<Array = [T; 3]>,
{
    type Wp<S> = <<S as RgbStandard>::Space as RgbSpace>::WhitePoint;
    let tag = format!("{}:{}", name, T::TAG);
    let wp = wp_xyz::<Wp<S>>();
    // 7-digit matrices: row sums reproduce the white point to <= 6e-7 in exact arithmetic (decided per space in C14_White.lean); f32 adds rounding
    let tol_w = if T::TAG == "f32" { 3e-6 } else { 1e-6 };
    let white: [T; 3] = into_array(Xyz::<Wp<S>, T>::from_color_unclamped(from_array::<Rgb<S, T>>(arr_of([1.0, 1.0, 1.0]))));
    let e = (0..3).map(|k| (white[k].to64() - wp[k]).abs()).fold(0.0, f64::max);
    out.maxi(&format!("rgb-white-err:{}", T::TAG), e);
    out.check(e <= tol_w, &format!("rgb-white-is-whitepoint:{}", tag), || format!("white -> {:?}, white point {:?}", white, wp));
    out.case(&format!("rgbwhite {} | | {}", name, hx_list(&white)));
    // grays: zero chroma / saturation everywhere, L* = 100 at white, back to equal components.
    // tolerances: a*, b* = 500/200·(f(x/xn) − f(y/yn)) amplify the 6e-7 white mismatch by <= 500/3: 2e-4 (f64); u*, v* by 13·L·4/… <= 1.5e3·6e-7: 1.5e-3;
    // f32 adds cbrt/division rounding of 100-scale values: 2e-3 / 1e-2.
    let (tol_ab, tol_uv, tol_l) = if T::TAG == "f32" { (4e-3, 2e-2, 2e-4) } else { (2e-4, 1.5e-3, 1e-4) };
    for i in 0..=grays {
        let g = i as f64 / grays as f64;
        let rgb: Rgb<S, T> = from_array(arr_of([g, g, g]));
        let xyz = Xyz::<Wp<S>, T>::from_color_unclamped(rgb);
        let xa: [T; 3] = into_array(xyz);
        let lab: [T; 3] = into_array(Lab::<Wp<S>, T>::from_color_unclamped(from_array::<Xyz<Wp<S>, T>>(xa)));
        let luv: [T; 3] = into_array(Luv::<Wp<S>, T>::from_color_unclamped(from_array::<Xyz<Wp<S>, T>>(xa)));
        let lch: [T; 3] = into_array(Lch::<Wp<S>, T>::from_color_unclamped(from_array::<Xyz<Wp<S>, T>>(xa)));
        let lchuv: [T; 3] = into_array(Lchuv::<Wp<S>, T>::from_color_unclamped(from_array::<Xyz<Wp<S>, T>>(xa)));
        out.maxi(&format!("gray-lab-ab:{}", T::TAG), lab[1].to64().abs().max(lab[2].to64().abs()));
        out.maxi(&format!("gray-luv-uv:{}", T::TAG), luv[1].to64().abs().max(luv[2].to64().abs()));
        out.check(lab[1].to64().abs() <= tol_ab && lab[2].to64().abs() <= tol_ab && lch[1].to64().abs() <= 1.5 * tol_ab, &format!("gray-neutral-lab:{}", tag), || format!("gray {} -> Lab {:?}, Lch {:?}", g, lab, lch));
        out.check(luv[1].to64().abs() <= tol_uv && luv[2].to64().abs() <= tol_uv && lchuv[1].to64().abs() <= 1.5 * tol_uv, &format!("gray-neutral-luv:{}", tag), || format!("gray {} -> Luv {:?}, Lchuv {:?}", g, luv, lchuv));
        if i == grays { out.check((lab[0].to64() - 100.0).abs() <= tol_l && (luv[0].to64() - 100.0).abs() <= tol_l, &format!("white-L-100:{}", tag), || format!("white -> Lab {:?}, Luv {:?}", lab, luv)); }
        let hsv: [T; 3] = into_array(Hsv::<S, T>::from_color_unclamped(from_array::<Rgb<S, T>>(arr_of([g, g, g]))));
        let hsl: [T; 3] = into_array(Hsl::<S, T>::from_color_unclamped(from_array::<Rgb<S, T>>(arr_of([g, g, g]))));
        out.check(hsv[1].to64() == 0.0 && hsl[1].to64() == 0.0, &format!("gray-neutral-hsv-hsl:{}", tag), || format!("gray {} -> Hsv {:?}, Hsl {:?}", g, hsv, hsl));
        // and back to equal RGB components (pure power-law transfer functions amplify near black: compare in linear light via the same matrix)
        let back: [T; 3] = into_array(Rgb::<S, T>::from_color_unclamped(from_array::<Xyz<Wp<S>, T>>(xa)));
        if back.iter().all(|v| v.finite()) {
            let spread = back.iter().map(|v| v.to64()).fold(f64::MIN, f64::max) - back.iter().map(|v| v.to64()).fold(f64::MAX, f64::min);
            out.maxi(&format!("gray-back-spread:{}", T::TAG), spread);
            // Hölder bound of DESIGN §3 C01 for the pure power laws near zero: (3·1.5e-7)^(1/2.6) = 3.6e-3; elsewhere Lipschitz (<= 16·5e-7)
            out.check(spread <= 4e-3, &format!("gray-back-equal:{}", tag), || format!("gray {} -> {:?} -> {:?}", g, xa, back));
        } else { out.count("cls:gray-back-nonfinite(C07)"); }
        out.count("cls:gray");
    }
}


/// "… and back to equal RGB components": gray -> colour space `$C` -> linear RGB of the same space (tight: no transfer function in the way) and
/// -> the encoded standard; and the space's own exact neutral (chroma/saturation set to 0, any hue) -> linear RGB.
/// `$neutral` rewrites the component array of `$C` into the exact neutral of the same lightness (None: the space has no such form).
macro_rules! neutral_back {
    (@lin direct, $S:ty, $Sp:ty, $T:ty, $C:ty, $a:expr) => { into_array(Rgb::<Linear<$Sp>, $T>::from_color_unclamped(from_array::<$C>($a))) };
    (@lin via_enc, $S:ty, $Sp:ty, $T:ty, $C:ty, $a:expr) => { into_array(Rgb::<$S, $T>::from_color_unclamped(from_array::<$C>($a)).into_linear::<$T>()) };
    ($out:expr, $grays:expr, $S:ty, $Sp:ty, $sn:expr, $T:ty, $C:ty, $cn:expr, $tol_lin:expr, $tol_enc:expr, $neutral:expr, $how:ident) => {{
    let tag = format!("{}:{}:{}", $cn, $sn, <$T as Fl>::TAG);
    let okhsl_f32 = $cn == "Okhsl" && <$T as Fl>::TAG == "f32";
    let (tol_lin, tol_enc): (f64, f64) = if okhsl_f32 { (1.5e-3, 1e-3) } else { ($tol_lin, $tol_enc) };
    // an exact Ok* neutral comes back through M1inv·(1,1,1), the published D65, not the crate's 5-digit one: C14.oklab_neutral_back decides a
    // spread of at most 4e-4 (and more than 1e-4) in every D65 space; 5e-4 with rounding
    let tol_neutral: f64 = if $cn.starts_with("Ok") { 5e-4 } else { tol_lin };
    let neutral: Option<fn([$T; 3]) -> [$T; 3]> = $neutral;
    for i in 0..=$grays {
        let g = i as f64 / $grays as f64;
        let ga: [$T; 3] = arr_of([g, g, g]);
        let c = <$C>::from_color_unclamped(from_array::<Rgb<$S, $T>>(ga));
        let ca: [$T; 3] = into_array(c);
        let lin_want: [$T; 3] = into_array(Rgb::<Linear<$Sp>, $T>::from_color_unclamped(from_array::<Rgb<$S, $T>>(ga)));
        let lin: [$T; 3] = neutral_back!(@lin $how, $S, $Sp, $T, $C, ca);
        let enc: [$T; 3] = into_array(Rgb::<$S, $T>::from_color_unclamped(from_array::<$C>(ca)));
        let spread = |v: &[$T; 3]| v.iter().map(|x| x.to64()).fold(f64::MIN, f64::max) - v.iter().map(|x| x.to64()).fold(f64::MAX, f64::min);
        let dist = |v: &[$T; 3], w: f64| v.iter().map(|x| (x.to64() - w).abs()).fold(0.0, f64::max);
        if lin.iter().chain(enc.iter()).all(|v| v.finite()) {
            let gl = lin_want[0].to64();
            // relative to the gray's own linear value: the matrices and white point tables are linear maps, their mismatch scales with the colour
            let e_lin = spread(&lin) / (gl + 1e-3);
            $out.maxi(&format!("gray-roundtrip-lin-dist(info):{}:{}", $cn, <$T as Fl>::TAG), dist(&lin, gl) / (gl + 1e-3));
            $out.maxi(&format!("gray-roundtrip-lin:{}:{}", $cn, <$T as Fl>::TAG), e_lin);
            $out.check(e_lin <= tol_lin, &format!("gray-roundtrip-lin:{}", tag), || format!("gray {} ({:?}) -> {:?} -> linear {:?}, want {}", g, ga, ca, lin, gl));
            let e_enc = spread(&enc);   // the property asks for equal components; how close they are to the original gray is C01's round trip
            $out.maxi(&format!("gray-roundtrip-enc-dist(info):{}:{}", $cn, <$T as Fl>::TAG), dist(&enc, g));
            $out.maxi(&format!("gray-roundtrip-enc:{}:{}", $cn, <$T as Fl>::TAG), e_enc);
            $out.check(e_enc <= tol_enc, &format!("gray-roundtrip-enc:{}", tag), || format!("gray {} -> {:?} -> {:?}", g, ca, enc));
        } else { $out.count("cls:gray-back-nonfinite(C07)"); }
        if let Some(nf) = neutral {
            let na = nf(ca);
            let lin: [$T; 3] = neutral_back!(@lin $how, $S, $Sp, $T, $C, na);
            if lin.iter().all(|v| v.finite()) {
                let m = lin.iter().map(|x| x.to64().abs()).fold(0.0, f64::max);
                let e = spread(&lin) / (m + 1e-3);
                $out.maxi(&format!("neutral-back-spread:{}:{}", $cn, <$T as Fl>::TAG), e);
                $out.check(e <= tol_neutral, &format!("neutral-back-equal:{}", tag), || format!("neutral {:?} -> linear {:?}", na, lin));
            } else { $out.count("cls:gray-back-nonfinite(C07)"); }
        }
        $out.count("cls:gray-back");
    }
}} }

/// a gray given as `Luma<S>` (every luma standard, hence every reference white): its chromaticity in Yxy is the white point's, its XYZ is
/// `Y·w`, CIELAB/CIELUV chroma are zero, through the direct edges (`Luma → Yxy` has its own shortcut) and through Xyz; and `Yxy::default()`
/// (the black of the space) carries the white point's chromaticity
macro_rules! luma_gray { ($out:expr, $grays:expr, $s:ty, $sn:expr, $t:ty) => {{
    use palette::luma::{Luma, LumaStandard};
    type W = <$s as LumaStandard>::WhitePoint;
    let tag = format!("{}:{}", $sn, <$t as Fl>::TAG);
    let w = wp_xyz::<W>(); let (wx, wy) = (w[0] / (w[0] + w[1] + w[2]), w[1] / (w[0] + w[1] + w[2]));
    let tol = if <$t as Fl>::TAG == "f32" { 2e-6 } else { 1e-12 };
    let d: [$t; 3] = into_array(Yxy::<W, $t>::default());
    $out.check((d[0].to64() - wx).abs() <= tol && (d[1].to64() - wy).abs() <= tol && d[2].to64() == 0.0, &format!("yxy-default-is-white-chromaticity:{}", tag), || format!("Yxy::default() = {:?}, white point chromaticity ({}, {})", d, wx, wy));
    for i in 0..=$grays {
        let g = i as f64 / $grays as f64;
        let l = Luma::<$s, $t>::new(<$t as Fl>::of(g));
        let yxy: [$t; 3] = into_array(Yxy::<W, $t>::from_color_unclamped(l));
        let xyz: [$t; 3] = into_array(Xyz::<W, $t>::from_color_unclamped(l));
        let via: [$t; 3] = into_array(Yxy::<W, $t>::from_color_unclamped(from_array::<Xyz<W, $t>>(xyz)));
        let lab: [$t; 3] = into_array(Lab::<W, $t>::from_color_unclamped(from_array::<Yxy<W, $t>>(yxy)));
        let y = xyz[1].to64();
        // x, y of a gray are the white point's for every luminance (black included: the shortcut keeps them, Xyz → Yxy falls back to them)
        $out.check((yxy[0].to64() - wx).abs() <= tol && (yxy[1].to64() - wy).abs() <= tol, &format!("luma-gray-chromaticity:{}", tag), || format!("Luma {} -> Yxy {:?}, white point chromaticity ({}, {})", g, yxy, wx, wy));
        // (black has no chromaticity: `Xyz(0,0,0) → Yxy` is (0, 0, 0) while the shortcut keeps the white point's x, y — C01Whole.luma_yxy_commutes is "off black")
        if i > 0 { $out.check((via[0].to64() - wx).abs() <= 40.0 * tol && (via[1].to64() - wy).abs() <= 40.0 * tol && (via[2].to64() - yxy[2].to64()).abs() <= tol, &format!("luma-gray-yxy-via-xyz:{}", tag), || format!("Luma {} -> Yxy {:?} but via Xyz {:?}", g, yxy, via)); }
        $out.check((0..3).all(|k| (xyz[k].to64() - y * w[k]).abs() <= tol * 2.0), &format!("luma-gray-is-scaled-white:{}", tag), || format!("Luma {} -> Xyz {:?}, white {:?}", g, xyz, w));
        let tol_ab = if <$t as Fl>::TAG == "f32" { 4e-3 } else { 1e-9 };
        $out.check(lab[1].to64().abs() <= tol_ab && lab[2].to64().abs() <= tol_ab, &format!("luma-gray-neutral-lab-via-yxy:{}", tag), || format!("Luma {} -> Yxy {:?} -> Lab {:?}", g, yxy, lab));
        $out.count("cls:luma-gray");
    }
}} }

/// RGB spaces assembled from parts, `(Primaries, WhitePoint)`: white is that white point, grays are neutral, the two matrices are mutual
/// inverses (red, green, blue come back) — for built-in primaries under their own and under other white points
macro_rules! tuple_space { ($out:expr, $p:ty, $w:ty, $name:expr, $t:ty) => {{
    type S = Linear<($p, $w)>;
    let tag = format!("{}:{}", $name, <$t as Fl>::TAG);
    let wp = wp_xyz::<$w>();
    let tol = if <$t as Fl>::TAG == "f32" { 4e-6 } else { 1e-6 };
    let white: [$t; 3] = into_array(Xyz::<$w, $t>::from_color_unclamped(from_array::<Rgb<S, $t>>(arr_of([1.0, 1.0, 1.0]))));
    let e = (0..3).map(|k| (white[k].to64() - wp[k]).abs()).fold(0.0, f64::max);
    $out.check(e <= tol, &format!("tuple-space-white:{}", tag), || format!("white of {} -> {:?}, white point {:?}", $name, white, wp));
    for g in [0.1, 0.5, 0.9] {
        let x: [$t; 3] = into_array(Xyz::<$w, $t>::from_color_unclamped(from_array::<Rgb<S, $t>>(arr_of([g, g, g]))));
        let lab: [$t; 3] = into_array(Lab::<$w, $t>::from_color_unclamped(from_array::<Xyz<$w, $t>>(x)));
        let tol_ab = if <$t as Fl>::TAG == "f32" { 4e-3 } else { 2e-4 };
        $out.check(lab[1].to64().abs() <= tol_ab && lab[2].to64().abs() <= tol_ab, &format!("tuple-space-gray-neutral:{}", tag), || format!("gray {} of {} -> Xyz {:?} -> Lab {:?}", g, $name, x, lab));
    }
    for c in [[1.0, 0.0, 0.0], [0.0, 1.0, 0.0], [0.0, 0.0, 1.0], [0.2, 0.5, 0.8]] {
        let a: [$t; 3] = arr_of(c);
        let back: [$t; 3] = into_array(Rgb::<S, $t>::from_color_unclamped(Xyz::<$w, $t>::from_color_unclamped(from_array::<Rgb<S, $t>>(a))));
        let e = (0..3).map(|k| (back[k].to64() - c[k]).abs()).fold(0.0, f64::max);
        $out.check(e <= 10.0 * tol, &format!("tuple-space-matrices-inverse:{}", tag), || format!("{:?} of {} -> Xyz -> {:?}", c, $name, back));
    }
    $out.count("cls:tuple-space");
}} }

pub fn run(tier: &str, seed: u64, dir: &str) {
    let mut out = Out::new("C14", dir);
    let mut rng = Rng::new(seed);
    {
        let (o, r) = (&mut out, &mut rng);
        for_pairs!(adapt_case; (o, r); [A, B, C, D50, D55, D65, D75, E, F2, F7, F11, D50Degree10, D55Degree10, D65Degree10, D75Degree10]; [A, B, C, D50, D55, D65, D75, E, F2, F7, F11, D50Degree10, D55Degree10, D65Degree10, D75Degree10]);
    }
    {
        let o = &mut out;
        macro_rules! entry_case { ( ($out:ident), $i:ident, $o:ident ) => {{
            adapt_entry!(f32, $i, $o, Bradford, $out, stringify!($i), stringify!($o), "Bradford"); adapt_entry!(f64, $i, $o, Bradford, $out, stringify!($i), stringify!($o), "Bradford");
            adapt_entry!(f32, $i, $o, VonKries, $out, stringify!($i), stringify!($o), "VonKries"); adapt_entry!(f64, $i, $o, UnitMatrix, $out, stringify!($i), stringify!($o), "UnitMatrix");
        }} }
        for_pairs!(entry_case; (o); [A, D50, D65, E, F2]; [A, D50, D65, E, F2]);
    }
    let grays = if tier == "thorough" { 65536 } else { 1024 };
    macro_rules! std_case { ($s:ty, $n:expr) => { standard_one::<$s, f32>(&mut out, $n, grays); standard_one::<$s, f64>(&mut out, $n, grays); } }
    std_case!(encoding::Srgb, "Srgb"); std_case!(Linear<encoding::Srgb>, "LinSrgb"); std_case!(encoding::AdobeRgb, "AdobeRgb"); std_case!(encoding::Rec709, "Rec709");
    std_case!(encoding::Rec2020, "Rec2020"); std_case!(encoding::DisplayP3, "DisplayP3"); std_case!(encoding::DciP3, "DciP3"); std_case!(encoding::ProPhotoRgb, "ProPhotoRgb");
    // identity between equal white points: exact bits
    for _ in 0..200 {
        let x = [rng.range(-0.2, 1.3), rng.range(-0.2, 1.3), rng.range(-0.2, 1.3)];
        let a: [f64; 3] = into_array(Xyz::<D65, f64>::adapt_from_unclamped(from_array::<Xyz<D65, f64>>(x)));
        out.check(a.iter().zip(&x).all(|(p, q)| p.to_bits() == q.to_bits()), "adapt-identity:f64", || format!("{:?} -> {:?}", x, a));
        let xf: [f32; 3] = arr_of(x);
        let a: [f32; 3] = into_array(Xyz::<D50, f32>::adapt_from_unclamped(from_array::<Xyz<D50, f32>>(xf)));
        out.check(a.iter().zip(&xf).all(|(p, q)| p.to_bits() == q.to_bits()), "adapt-identity:f32", || format!("{:?} -> {:?}", xf, a));
    }
    // grays as Luma under every luma standard (D65, D50, DCI white, and linear standards of arbitrary white points)
    {
        let lg = if tier == "thorough" { 4096 } else { 128 };
        macro_rules! lboth { ($s:ty, $n:expr) => { luma_gray!(out, lg, $s, $n, f32); luma_gray!(out, lg, $s, $n, f64); } }
        lboth!(encoding::Srgb, "Srgb"); lboth!(encoding::Rec709, "Rec709"); lboth!(encoding::Rec2020, "Rec2020"); lboth!(encoding::AdobeRgb, "AdobeRgb"); lboth!(encoding::DisplayP3, "DisplayP3");
        lboth!(encoding::DciP3, "DciP3"); lboth!(encoding::ProPhotoRgb, "ProPhotoRgb"); lboth!(Linear<D50>, "Linear<D50>"); lboth!(Linear<A>, "Linear<A>"); lboth!(Linear<E>, "Linear<E>"); lboth!(Linear<F11>, "Linear<F11>");
    }
    // RGB spaces assembled from (primaries, white point)
    {
        macro_rules! tboth { ($p:ty, $w:ty, $n:expr) => { tuple_space!(out, $p, $w, $n, f32); tuple_space!(out, $p, $w, $n, f64); } }
        tboth!(encoding::Srgb, D65, "(Srgb, D65)"); tboth!(encoding::Srgb, D50, "(Srgb, D50)"); tboth!(encoding::AdobeRgb, E, "(AdobeRgb, E)"); tboth!(encoding::Rec2020, D50, "(Rec2020, D50)");
        tboth!(encoding::DisplayP3, A, "(DisplayP3, A)"); tboth!(encoding::ProPhotoRgb, D50, "(ProPhotoRgb, D50)"); tboth!(encoding::ProPhotoRgb, D65, "(ProPhotoRgb, D65)");
    }
    // back from every colorimetric space to equal RGB components
    {
        let gb = if tier == "thorough" { 4096 } else { 256 };
        fn ab0<T: Fl>(a: [T; 3]) -> [T; 3] { [a[0], T::of(0.0), T::of(0.0)] }            // Lab, Luv, Oklab: (L, 0, 0)
        fn lch0<T: Fl>(a: [T; 3]) -> [T; 3] { [a[0], T::of(0.0), T::of(123.0)] }         // Lch, Lchuv, Oklch: (L, 0, any hue)
        fn hs0<T: Fl>(a: [T; 3]) -> [T; 3] { [T::of(-77.0), T::of(0.0), a[2]] }          // Hsv, Hsl, Hsluv, Okhsl, Okhsv: (any hue, 0, v)
        macro_rules! cie_back { ($S:ty, $Sp:ty, $sn:expr, $W:ty, $T:ty, $tl:expr, $te:expr) => {
            neutral_back!(out, gb, $S, $Sp, $sn, $T, Xyz<$W, $T>, "Xyz", $tl, $te, None, direct);
            neutral_back!(out, gb, $S, $Sp, $sn, $T, Lab<$W, $T>, "Lab", $tl, $te, Some(ab0::<$T>), direct);
            neutral_back!(out, gb, $S, $Sp, $sn, $T, Luv<$W, $T>, "Luv", $tl, $te, Some(ab0::<$T>), direct);
            neutral_back!(out, gb, $S, $Sp, $sn, $T, Lch<$W, $T>, "Lch", $tl, $te, Some(lch0::<$T>), direct);
            neutral_back!(out, gb, $S, $Sp, $sn, $T, Lchuv<$W, $T>, "Lchuv", $tl, $te, Some(lch0::<$T>), direct);
            neutral_back!(out, gb, $S, $Sp, $sn, $T, Hsv<$S, $T>, "Hsv", $tl, $te, Some(hs0::<$T>), via_enc);
            neutral_back!(out, gb, $S, $Sp, $sn, $T, Hsl<$S, $T>, "Hsl", $tl, $te, Some(hs0::<$T>), via_enc);
            neutral_back!(out, gb, $S, $Sp, $sn, $T, Hwb<$S, $T>, "Hwb", $tl, $te, None, via_enc);
        } }
        macro_rules! ok_back { ($S:ty, $Sp:ty, $sn:expr, $T:ty, $tl:expr, $te:expr) => {
            neutral_back!(out, gb, $S, $Sp, $sn, $T, Oklab<$T>, "Oklab", $tl, $te, Some(ab0::<$T>), direct);
            neutral_back!(out, gb, $S, $Sp, $sn, $T, Oklch<$T>, "Oklch", $tl, $te, Some(lch0::<$T>), direct);
            neutral_back!(out, gb, $S, $Sp, $sn, $T, Okhsl<$T>, "Okhsl", $tl, $te, Some(hs0::<$T>), direct);
            neutral_back!(out, gb, $S, $Sp, $sn, $T, Okhsv<$T>, "Okhsv", $tl, $te, Some(hs0::<$T>), direct);
            neutral_back!(out, gb, $S, $Sp, $sn, $T, Okhwb<$T>, "Okhwb", $tl, $te, None, direct);
            neutral_back!(out, gb, $S, $Sp, $sn, $T, Hsluv<D65, $T>, "Hsluv", $tl, $te, Some(hs0::<$T>), direct);
        } }
        macro_rules! both { ($m:ident, $($a:tt)*) => { $m!($($a)*, f32, TOL_LIN_F32, TOL_ENC_F32); $m!($($a)*, f64, TOL_LIN_F64, TOL_ENC_F64); } }
        // tolerances: the 7-digit matrix pairs are inverse to 1e-6 (C14.rgb_matrix_pairs_inverse), M1/M1inv to 1e-9 (C14.oklab_back_matrices): 2e-6 relative
        // at f64 (measured 4.4e-7); f32 adds ~30 roundings of O(1) values: 2e-5 (measured 3.8e-6).  Okhsl's toe / gamut-intersection arithmetic
        // is markedly less accurate at f32 (measured 3.1e-4 relative near black): 1.5e-3.
        const TOL_LIN_F32: f64 = 2e-5; const TOL_ENC_F32: f64 = 2e-5; const TOL_LIN_F64: f64 = 2e-6; const TOL_ENC_F64: f64 = 2e-6;
        both!(cie_back, encoding::Srgb, encoding::Srgb, "Srgb", D65); both!(cie_back, encoding::AdobeRgb, encoding::AdobeRgb, "AdobeRgb", D65);
        both!(cie_back, encoding::Rec709, encoding::Srgb, "Rec709", D65); both!(cie_back, encoding::Rec2020, encoding::Rec2020, "Rec2020", D65);
        both!(cie_back, encoding::DisplayP3, encoding::DisplayP3, "DisplayP3", D65); both!(cie_back, encoding::DciP3, encoding::DciP3, "DciP3", encoding::DciP3);
        both!(cie_back, encoding::ProPhotoRgb, encoding::ProPhotoRgb, "ProPhotoRgb", D50); both!(cie_back, Linear<encoding::Srgb>, encoding::Srgb, "LinSrgb", D65);
        both!(ok_back, encoding::Srgb, encoding::Srgb, "Srgb"); both!(ok_back, encoding::AdobeRgb, encoding::AdobeRgb, "AdobeRgb");
        both!(ok_back, encoding::Rec709, encoding::Srgb, "Rec709"); both!(ok_back, encoding::Rec2020, encoding::Rec2020, "Rec2020");
        both!(ok_back, encoding::DisplayP3, encoding::DisplayP3, "DisplayP3"); both!(ok_back, Linear<encoding::Srgb>, encoding::Srgb, "LinSrgb");
    }
    // Oklab of D65 white = (1, 0, 0); Oklab/Oklch of grays neutral
    for i in 0..=256 {
        let g = i as f64 / 256.0;
        let lab: [f64; 3] = into_array(Oklab::<f64>::from_color_unclamped(from_array::<Rgb<encoding::Srgb, f64>>([g, g, g])));
        let lch: [f64; 3] = into_array(Oklch::<f64>::from_color_unclamped(from_array::<Rgb<encoding::Srgb, f64>>([g, g, g])));
        out.maxi("gray-oklab-ab:f64", lab[1].abs().max(lab[2].abs()));
        // Ottosson's published matrices make sRGB gray neutral to ~4e-8 (direct matrices) — 1e-6 leaves room for the cube root near black
        out.check(lab[1].abs() <= 1e-6 && lab[2].abs() <= 1e-6 && lch[1].abs() <= 2e-6, "gray-neutral-oklab:f64", || format!("gray {} -> Oklab {:?} Oklch {:?}", g, lab, lch));
        let labf: [f32; 3] = into_array(Oklab::<f32>::from_color_unclamped(from_array::<Rgb<encoding::Srgb, f32>>([g as f32, g as f32, g as f32])));
        out.check(labf[1].abs() <= 2e-6 * 50.0 && labf[2].abs() <= 2e-6 * 50.0, "gray-neutral-oklab:f32", || format!("gray {} -> Oklab {:?}", g, labf));
    }
    let w: [f64; 3] = into_array(Oklab::<f64>::from_color_unclamped(from_array::<Xyz<D65, f64>>(wp_xyz::<D65>())));
    out.maxi("oklab-white-err:f64", (w[0] - 1.0).abs().max(w[1].abs()).max(w[2].abs()));
    // Ottosson's M1 sends the D65 of chromaticity (0.3127, 0.3290), i.e. XYZ (0.95046, 1, 1.08906), to LMS (1,1,1); the crate's 5-digit D65
    // (0.95047, 1, 1.08883) differs from it by 2.3e-4 in Z, which is 3.7e-5 in Oklab b (C14_White.oklab_white decides |M1·w − 1| <= 1.5e-4, and
    // cbrt divides that by 3).  "Oklab (1, 0, 0) for D65" is therefore checked to 1e-4, the accuracy of the white point digits themselves.
    out.check((w[0] - 1.0).abs() <= 1e-4 && w[1].abs() <= 1e-4 && w[2].abs() <= 1e-4, "oklab-white:f64", || format!("D65 -> Oklab {:?}", w));
    // coverage audit (AUDIT_C14.md): deprecated adaptation API, DCI / dynamic white points, every white point under Lab / Luv in both directions, further
    // standards, integer components, the Matrix3 API, Oklab per standard, CAM16 J of the adopted white: `c14_more.rs`.  Called last: the case stream above is unchanged.
    crate::c14_more::run_more(&mut out, &mut rng, tier);
    out.finish(dir, "");
}
