mod common;
mod conv_common;
mod conv_cie;
mod pairs;
mod c01;
mod c02;
mod c03;
mod c05;
mod c06;
mod c14;
mod c18;
mod c20;
mod c20_tree;
mod c04;

fn main() {
    let a: Vec<String> = std::env::args().collect();
    if a.len() < 5 { eprintln!("usage: harness <prop> <quick|thorough> <seed> <outdir>"); std::process::exit(2); }
    let (prop, tier, seed, dir) = (a[1].as_str(), a[2].as_str(), a[3].parse::<u64>().unwrap_or(0), a[4].as_str());
    common::quiet_panics();
    match prop {
        "C01" => c01::run(tier, seed, dir),
        "C02" => c02::run(tier, seed, dir),
        "C03" => c03::run(tier, seed, dir),
        "C05" => c05::run(tier, seed, dir),
        "C06" => c06::run(tier, seed, dir),
        "C14" => c14::run(tier, seed, dir),
        "C18" => c18::run(tier, seed, dir),
        "C20" => c20::run(tier, seed, dir),
        "C04" => c04::run(tier, seed, dir),
        _ => { eprintln!("unknown property {}", prop); std::process::exit(2); }
    }
}
