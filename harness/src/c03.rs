//! C03 — clamped, checked and unclamped conversions obey one bounds contract.
use crate::common::*;
use palette::cast::{self, ArrayCast};
use palette::convert::{FromColorUnclamped, TryFromColor};
use palette::{Alpha, Clamp, ClampAssign, FromColor, IsWithinBounds};
use palette::rgb::Rgb; use palette::luma::Luma; use palette::{Hsl, Hsv, Hwb, Lab, Lch, Luv, Lchuv, Hsluv, Xyz, Yxy, Oklab, Oklch, Okhsl, Okhsv, Okhwb};

#[derive(Clone, Copy, Debug)]
pub enum B<T> { Both(T, T), Min(T), Un }

pub trait Comp: Copy + PartialOrd + PartialEq + std::fmt::Debug + 'static {
    const TAG: &'static str;
    fn txt(self) -> String;
    fn same(self, o: Self) -> bool;
    fn around(lo: Self, hi: Option<Self>, rng: &mut Rng) -> Vec<Self>;
    fn wild(rng: &mut Rng) -> Vec<Self>;
    fn alpha_max() -> Self; fn czero() -> Self;
}
impl Comp for f32 {
    const TAG: &'static str = "f32";
    fn txt(self) -> String { h32(self) }
    fn same(self, o: Self) -> bool { self.to_bits() == o.to_bits() || (self == 0.0 && o == 0.0) }
    fn around(lo: f32, hi: Option<f32>, rng: &mut Rng) -> Vec<f32> {
        let top = hi.unwrap_or(lo + 1000.0);
        let mut v = vec![lo - 1e6, lo - (top - lo) * 3.7 - 1.0, nudge32(lo, -1), lo, nudge32(lo, 1), lo + (top - lo) * rng.unit() as f32, top];
        if let Some(h) = hi { v.extend([nudge32(h, -1), nudge32(h, 1), h + (h - lo) * 2.9 + 1.0, 3.0e38]); } else { v.extend([1e9, 3.0e38]); }
        v.push(-3.0e38); v
    }
    fn wild(rng: &mut Rng) -> Vec<f32> { vec![-1000.5, 0.0, 359.5, 1e6, rng.range(-720.0, 720.0) as f32] }
    fn alpha_max() -> f32 { 1.0 } fn czero() -> f32 { 0.0 }
}
impl Comp for f64 {
    const TAG: &'static str = "f64";
    fn txt(self) -> String { h64(self) }
    fn same(self, o: Self) -> bool { self.to_bits() == o.to_bits() || (self == 0.0 && o == 0.0) }
    fn around(lo: f64, hi: Option<f64>, rng: &mut Rng) -> Vec<f64> {
        let top = hi.unwrap_or(lo + 1000.0);
        let mut v = vec![lo - 1e6, lo - (top - lo) * 3.7 - 1.0, nudge64(lo, -1), lo, nudge64(lo, 1), lo + (top - lo) * rng.unit(), top];
        if let Some(h) = hi { v.extend([nudge64(h, -1), nudge64(h, 1), h + (h - lo) * 2.9 + 1.0, 1.0e300]); } else { v.extend([1e9, 1.0e300]); }
        v.push(-1.0e300); v
    }
    fn wild(rng: &mut Rng) -> Vec<f64> { vec![-1000.5, 0.0, 359.5, 1e6, rng.range(-720.0, 720.0)] }
    fn alpha_max() -> f64 { 1.0 } fn czero() -> f64 { 0.0 }
}
macro_rules! comp_int { ($t:ty, $tag:expr) => { impl Comp for $t {
    const TAG: &'static str = $tag;
    fn txt(self) -> String { self.to_string() }
    fn same(self, o: Self) -> bool { self == o }
    fn around(lo: $t, hi: Option<$t>, rng: &mut Rng) -> Vec<$t> { let h = hi.unwrap_or(<$t>::MAX); vec![lo, lo.saturating_add(1), h, h.saturating_sub(1), (rng.next() as $t), h / 2] }
    fn wild(rng: &mut Rng) -> Vec<$t> { vec![0, <$t>::MAX, rng.next() as $t] }
    fn alpha_max() -> $t { <$t>::MAX } fn czero() -> $t { 0 }
} } }
comp_int!(u8, "u8"); comp_int!(u16, "u16");
comp_int!(u32, "u32"); comp_int!(u64, "u64"); comp_int!(u128, "u128"); // coverage audit (c03_more.rs)

pub(crate) fn arr_txt<T: Comp>(a: &[T]) -> String { a.iter().map(|x| x.txt()).collect::<Vec<_>>().join(" ") }
pub(crate) fn bounds_txt<T: Comp>(bs: &[B<T>]) -> String { bs.iter().map(|b| match b { B::Both(l, h) => format!("{} {}", l.txt(), h.txt()), B::Min(l) => format!("{} -", l.txt()), B::Un => "* *".to_string() }).collect::<Vec<_>>().join(" ") }
pub(crate) fn same_arr<T: Comp>(a: &[T], b: &[T]) -> bool { a.len() == b.len() && a.iter().zip(b).all(|(x, y)| x.same(*y)) }

pub(crate) fn candidates<T: Comp, const N: usize>(bounds: &[B<T>; N], rng: &mut Rng, n_rand: usize) -> Vec<[T; N]> {
    let per: Vec<Vec<T>> = bounds.iter().map(|b| match b { B::Both(l, h) => T::around(*l, Some(*h), rng), B::Min(l) => T::around(*l, None, rng), B::Un => T::wild(rng) }).collect();
    let mut out = vec![];
    // full product of the per-component boundary classes
    let total: usize = per.iter().map(|p| p.len()).product();
    for mut k in 0..total { let mut a = [per[0][0]; N]; for i in 0..N { a[i] = per[i][k % per[i].len()]; k /= per[i].len(); } out.push(a); }
    for _ in 0..n_rand { let mut a = [per[0][0]; N]; for i in 0..N { let fresh = match &bounds[i] { B::Both(l, h) => T::around(*l, Some(*h), rng), B::Min(l) => T::around(*l, None, rng), B::Un => T::wild(rng) }; a[i] = *rng.pick(&fresh); } out.push(a); }
    out
}

pub(crate) fn run_type<C, T: Comp, const N: usize>(out: &mut Out, rng: &mut Rng, key: &str, bounds: [B<T>; N], n_rand: usize)
where C: ArrayCast<Array = [T; N]> + Clamp + ClampAssign + IsWithinBounds<Mask = bool> + Clone,
      Alpha<C, T>: Clamp + ClampAssign + Clone, T: palette::stimulus::Stimulus,
{
    let cands = candidates(&bounds, rng, n_rand);
    let tag = format!("{}:{}", key, T::TAG);
    let mut slice_in: Vec<C> = vec![]; let mut slice_want: Vec<[T; N]> = vec![];
    for vs in &cands {
        let c: C = cast::from_array(*vs);
        let wb = c.is_within_bounds();
        let cl = c.clone().clamp();
        let wa = cl.is_within_bounds();
        let arr: [T; N] = cast::into_array(cl.clone());
        if emit() { out.case(&format!("clamp {} | {} {} {} | {} {} {}", key, N, arr_txt(vs), bounds_txt(&bounds), arr_txt(&arr), wb as u8, wa as u8)); }
        out.count(if wb { "cls:in-bounds" } else { "cls:out-of-bounds" });
        out.check(wa, &format!("clamped-is-within:{}", tag), || format!("{:?} -> {:?}", vs, arr));
        if wb { out.check(same_arr(vs, &arr), &format!("in-bounds-unchanged:{}", tag), || format!("{:?} -> {:?}", vs, arr)); }
        let again: [T; N] = cast::into_array(cl.clone().clamp());
        out.check(same_arr(&arr, &again), &format!("idempotent:{}", tag), || format!("{:?} -> {:?} -> {:?}", vs, arr, again));
        // the documented bounds: every clamped component lies between the accessors, untouched ones are untouched
        for i in 0..N { let ok = match bounds[i] { B::Both(l, h) => l <= arr[i] && arr[i] <= h, B::Min(l) => l <= arr[i], B::Un => arr[i].same(vs[i]) };
            out.check(ok, &format!("documented-bounds:{}", tag), || format!("component {} of {:?} -> {:?}, bounds {:?}", i, vs, arr, bounds[i])); }
        // is_within_bounds agrees with the accessors
        let wb_ref = (0..N).all(|i| match bounds[i] { B::Both(l, h) => l <= vs[i] && vs[i] <= h, B::Min(l) => l <= vs[i], B::Un => true });
        out.check(wb == wb_ref, &format!("within-matches-accessors:{}", tag), || format!("{:?}: is_within_bounds {} but accessors say {}", vs, wb, wb_ref));
        // assigning form
        let mut ca = c.clone(); ca.clamp_assign(); let arr_a: [T; N] = cast::into_array(ca);
        out.check(same_arr(&arr, &arr_a), &format!("assign-equals-value:{}", tag), || format!("{:?}: clamp {:?} clamp_assign {:?}", vs, arr, arr_a));
        // Alpha: colour and alpha clamped separately
        for a in [T::czero(), T::alpha_max()].into_iter().chain(T::around(T::czero(), Some(T::alpha_max()), rng).into_iter().take(3)) {
            let ac = Alpha { color: c.clone(), alpha: a };
            let r = ac.clone().clamp();
            let rc: [T; N] = cast::into_array(r.color.clone());
            let a_want = if a < T::czero() { T::czero() } else if a > T::alpha_max() { T::alpha_max() } else { a };
            out.check(same_arr(&rc, &arr) && r.alpha.same(a_want), &format!("alpha-clamp:{}", tag), || format!("{:?} alpha {:?} -> {:?} alpha {:?}", vs, a, rc, r.alpha));
            // (`Alpha<C, T>: IsWithinBounds` requires `T: IsWithinBounds`, which no component type implements, so the wrapped form of
            //  `is_within_bounds` cannot be called; the colour part and the alpha range are checked separately instead)
            out.check(r.color.is_within_bounds() && T::czero() <= r.alpha && r.alpha <= T::alpha_max(), &format!("alpha-clamped-is-within:{}", tag), || format!("{:?} alpha {:?}", vs, a));
            let mut aa = ac.clone(); aa.clamp_assign(); let ra: [T; N] = cast::into_array(aa.color.clone());
            out.check(same_arr(&ra, &arr) && aa.alpha.same(a_want), &format!("alpha-assign:{}", tag), || format!("{:?} alpha {:?}", vs, a));
        }
        slice_in.push(c); slice_want.push(arr);
    }
    // slice form = map
    slice_in.as_mut_slice().clamp_assign();
    for (c, w) in slice_in.into_iter().zip(slice_want) { let a: [T; N] = cast::into_array(c); out.check(same_arr(&a, &w), &format!("slice-equals-map:{}", tag), || format!("{:?} vs {:?}", a, w)); }
}

/// HWB family: whiteness + blackness coupled
/// protocol lines are suppressed for configurations the Lean model does not cover (integer HWB arithmetic, the macro-generated partial CAM16 types): oracle only
pub(crate) static EMIT: std::sync::atomic::AtomicBool = std::sync::atomic::AtomicBool::new(true);
pub(crate) fn emit() -> bool { EMIT.load(std::sync::atomic::Ordering::Relaxed) }

pub(crate) fn run_hwb<C, T: Comp + std::ops::Add<Output = T>>(out: &mut Out, rng: &mut Rng, key: &str, one: T, n_rand: usize, mk: fn(f64) -> T)
where C: ArrayCast<Array = [T; 3]> + Clamp + ClampAssign + IsWithinBounds<Mask = bool> + Clone {
    let tag = format!("{}:{}", key, T::TAG);
    let z = T::czero();
    let mut vals: Vec<T> = T::around(z, Some(one), rng);
    for x in [0.3, 0.5, 0.7, 0.1, 0.9, 1.5, -0.2, 0.6, 0.4, 1e-9, 0.999999, 1.0 / 3.0, 2.0 / 3.0] { vals.push(mk(x)); }
    let mut pairs: Vec<(T, T)> = vec![];
    for &w in &vals { for &b in &vals { pairs.push((w, b)); } }
    for _ in 0..n_rand { pairs.push((mk(rng.range(-0.5, 2.0)), mk(rng.range(-0.5, 2.0)))); pairs.push((mk(rng.unit()), mk(rng.unit()))); let w = rng.unit(); pairs.push((mk(w), mk(1.0 - w))); }
    for (w, b) in pairs {
        let h = mk(rng.range(-360.0, 720.0));
        let c: C = cast::from_array([h, w, b]);
        let wb = c.is_within_bounds();
        let cl = c.clone().clamp();
        let wa = cl.is_within_bounds();
        let arr: [T; 3] = cast::into_array(cl.clone());
        if emit() { out.case(&format!("clamphwb | {} {} {} {} | {} {} {} {}", z.txt(), one.txt(), w.txt(), b.txt(), arr[1].txt(), arr[2].txt(), wb as u8, wa as u8)); }
        out.count(if wb { "cls:hwb-in-bounds" } else { "cls:hwb-out-of-bounds" });
        out.check(wa, &format!("clamped-is-within:{}", tag), || format!("w {:?} b {:?} -> w {:?} b {:?}", w, b, arr[1], arr[2]));
        if wb { out.check(same_arr(&[h, w, b], &arr), &format!("in-bounds-unchanged:{}", tag), || format!("w {:?} b {:?} -> {:?}", w, b, arr)); }
        let again: [T; 3] = cast::into_array(cl.clone().clamp());
        out.check(same_arr(&arr, &again), &format!("idempotent:{}", tag), || format!("w {:?} b {:?} -> {:?} -> {:?}", w, b, arr, again));
        out.check(arr[0].same(h), &format!("documented-bounds:{}", tag), || "hue changed".to_string());
        out.check(z <= arr[1] && arr[1] <= one && z <= arr[2] && arr[2] <= one, &format!("documented-bounds:{}", tag), || format!("w {:?} b {:?} -> {:?}", w, b, arr));
        let mut ca = c.clone(); ca.clamp_assign(); let arr_a: [T; 3] = cast::into_array(ca);
        out.check(same_arr(&arr, &arr_a), &format!("assign-equals-value:{}", tag), || format!("w {:?} b {:?}: clamp {:?} clamp_assign {:?}", w, b, arr, arr_a));
    }
}

/// FromColor = clamp ∘ unclamped, TryFromColor succeeds exactly when the unclamped result is within bounds
/// the collection forms of the clamping conversion (`Vec<D>: FromColor<Vec<S>>`, `Box<[D]>: FromColor<Box<[S]>>`, in place over the same
/// allocation) must give, element for element, the single-colour `from_color`; likewise the unclamped forms
pub(crate) fn run_convert_collections<S, D, T: Comp>(out: &mut Out, key: &str, srcs: &[[T; 3]])
where S: ArrayCast<Array = [T; 3]> + Clone, D: ArrayCast<Array = [T; 3]> + FromColorUnclamped<S> + FromColor<S> + Clamp + Clone,
      Vec<D>: FromColor<Vec<S>> + FromColorUnclamped<Vec<S>>, Box<[D]>: FromColor<Box<[S]>> + FromColorUnclamped<Box<[S]>> {
    let finite = |a: &[T; 3]| a.iter().all(|x| x.partial_cmp(x).is_some());
    let v: Vec<S> = srcs.iter().map(|s| cast::from_array(*s)).collect();
    let single: Vec<[T; 3]> = v.iter().map(|c| cast::into_array(D::from_color(c.clone()))).collect();
    let single_u: Vec<[T; 3]> = v.iter().map(|c| cast::into_array(D::from_color_unclamped(c.clone()))).collect();
    let vv: Vec<[T; 3]> = <Vec<D>>::from_color(v.clone()).into_iter().map(|c| cast::into_array(c)).collect();
    let vb: Vec<[T; 3]> = <Box<[D]>>::from_color(v.clone().into_boxed_slice()).into_vec().into_iter().map(|c| cast::into_array(c)).collect();
    let uv: Vec<[T; 3]> = <Vec<D>>::from_color_unclamped(v.clone()).into_iter().map(|c| cast::into_array(c)).collect();
    let ub: Vec<[T; 3]> = <Box<[D]>>::from_color_unclamped(v.clone().into_boxed_slice()).into_vec().into_iter().map(|c| cast::into_array(c)).collect();
    for i in 0..srcs.len() {
        if !finite(&single_u[i]) { continue; }
        out.check(same_arr(&vv[i], &single[i]), &format!("vec-from-color=elementwise:{}", key), || format!("{:?}: Vec form {:?}, single {:?}", srcs[i], vv[i], single[i]));
        out.check(same_arr(&vb[i], &single[i]), &format!("box-from-color=elementwise:{}", key), || format!("{:?}: Box<[T]> form {:?}, single {:?}", srcs[i], vb[i], single[i]));
        out.check(same_arr(&uv[i], &single_u[i]), &format!("vec-from-color-unclamped=elementwise:{}", key), || format!("{:?}: Vec form {:?}, single {:?}", srcs[i], uv[i], single_u[i]));
        out.check(same_arr(&ub[i], &single_u[i]), &format!("box-from-color-unclamped=elementwise:{}", key), || format!("{:?}: Box<[T]> form {:?}, single {:?}", srcs[i], ub[i], single_u[i]));
    }
    out.count("cls:collection-forms");
}

pub(crate) fn run_convert<S, D, T: Comp, const N: usize, const M: usize>(out: &mut Out, key: &str, srcs: &[[T; N]])
where S: ArrayCast<Array = [T; N]> + Clone, D: ArrayCast<Array = [T; M]> + FromColorUnclamped<S> + FromColor<S> + TryFromColor<S> + Clamp + IsWithinBounds<Mask = bool> + Clone {
    for s in srcs {
        let sc: S = cast::from_array(*s);
        let u = D::from_color_unclamped(sc.clone());
        let ua: [T; M] = cast::into_array(u.clone());
        if !ua.iter().all(|x| x.partial_cmp(x).is_some()) { out.count("cls:convert-nan-skipped"); continue; }
        let f: [T; M] = cast::into_array(D::from_color(sc.clone()));
        let want: [T; M] = cast::into_array(u.clone().clamp());
        out.check(same_arr(&f, &want), &format!("from-color=clamp∘unclamped:{}", key), || format!("{:?}: from_color {:?}, unclamped.clamp() {:?}", s, f, want));
        let inb = u.is_within_bounds();
        match D::try_from_color(sc.clone()) {
            Ok(v) => { let va: [T; M] = cast::into_array(v); out.check(inb && same_arr(&va, &ua), &format!("try-ok-iff-within:{}", key), || format!("{:?}: Ok({:?}) but unclamped {:?} within={}", s, va, ua, inb)); out.count("cls:try-ok"); }
            Err(e) => { let ea: [T; M] = cast::into_array(e.color()); out.check(!inb && same_arr(&ea, &ua), &format!("try-err-iff-outside:{}", key), || format!("{:?}: Err({:?}) but unclamped {:?} within={}", s, ea, ua, inb)); out.count("cls:try-err"); }
        }
    }
}

macro_rules! both { ($lo:expr, $hi:expr) => { B::Both($lo, $hi) } }

macro_rules! run_floats { ($out:expr, $rng:expr, $n:expr, $t:ty) => {{
    use palette::encoding::Srgb as S; use palette::white_point::D65;
    type T = $t;
    let (out, rng, n) = ($out, $rng, $n);
    // Okhsv widens its upper bounds by ok_utils::MAX_SRGB_SATURATION_INACCURACY (1e-6, crate-private): documented slack of that type
    let slack: T = 1e-6;
    run_type::<Rgb<S, T>, T, 3>(out, rng, "Rgb@rgb/rgb.rs", [both!(Rgb::<S, T>::min_red(), Rgb::<S, T>::max_red()), both!(Rgb::<S, T>::min_green(), Rgb::<S, T>::max_green()), both!(Rgb::<S, T>::min_blue(), Rgb::<S, T>::max_blue())], n);
    run_type::<Luma<S, T>, T, 1>(out, rng, "Luma@luma/luma.rs", [both!(Luma::<S, T>::min_luma(), Luma::<S, T>::max_luma())], n);
    run_type::<Hsl<S, T>, T, 3>(out, rng, "Hsl@hsl.rs", [B::Un, both!(Hsl::<S, T>::min_saturation(), Hsl::<S, T>::max_saturation()), both!(Hsl::<S, T>::min_lightness(), Hsl::<S, T>::max_lightness())], n);
    run_type::<Hsv<S, T>, T, 3>(out, rng, "Hsv@hsv.rs", [B::Un, both!(Hsv::<S, T>::min_saturation(), Hsv::<S, T>::max_saturation()), both!(Hsv::<S, T>::min_value(), Hsv::<S, T>::max_value())], n);
    run_type::<Lab<D65, T>, T, 3>(out, rng, "Lab@lab.rs", [both!(Lab::<D65, T>::min_l(), Lab::<D65, T>::max_l()), both!(Lab::<D65, T>::min_a(), Lab::<D65, T>::max_a()), both!(Lab::<D65, T>::min_b(), Lab::<D65, T>::max_b())], n);
    run_type::<Lch<D65, T>, T, 3>(out, rng, "Lch@lch.rs", [both!(Lch::<D65, T>::min_l(), Lch::<D65, T>::max_l()), B::Min(Lch::<D65, T>::min_chroma()), B::Un], n);
    run_type::<Luv<D65, T>, T, 3>(out, rng, "Luv@luv.rs", [both!(Luv::<D65, T>::min_l(), Luv::<D65, T>::max_l()), both!(Luv::<D65, T>::min_u(), Luv::<D65, T>::max_u()), both!(Luv::<D65, T>::min_v(), Luv::<D65, T>::max_v())], n);
    run_type::<Lchuv<D65, T>, T, 3>(out, rng, "Lchuv@lchuv.rs", [both!(Lchuv::<D65, T>::min_l(), Lchuv::<D65, T>::max_l()), both!(Lchuv::<D65, T>::min_chroma(), Lchuv::<D65, T>::max_chroma()), B::Un], n);
    run_type::<Hsluv<D65, T>, T, 3>(out, rng, "Hsluv@hsluv.rs", [B::Un, both!(Hsluv::<D65, T>::min_saturation(), Hsluv::<D65, T>::max_saturation()), both!(Hsluv::<D65, T>::min_l(), Hsluv::<D65, T>::max_l())], n);
    run_type::<Xyz<D65, T>, T, 3>(out, rng, "Xyz@xyz.rs", [both!(Xyz::<D65, T>::min_x(), Xyz::<D65, T>::max_x()), both!(Xyz::<D65, T>::min_y(), Xyz::<D65, T>::max_y()), both!(Xyz::<D65, T>::min_z(), Xyz::<D65, T>::max_z())], n);
    run_type::<Yxy<D65, T>, T, 3>(out, rng, "Yxy@yxy.rs", [both!(Yxy::<D65, T>::min_x(), Yxy::<D65, T>::max_x()), both!(Yxy::<D65, T>::min_y(), Yxy::<D65, T>::max_y()), both!(Yxy::<D65, T>::min_luma(), Yxy::<D65, T>::max_luma())], n);
    run_type::<palette::lms::Lms<palette::lms::matrix::Bradford, T>, T, 3>(out, rng, "Lms@lms/lms.rs", [B::Min(palette::lms::Lms::<palette::lms::matrix::Bradford, T>::min_long()), B::Min(palette::lms::Lms::<palette::lms::matrix::Bradford, T>::min_medium()), B::Min(palette::lms::Lms::<palette::lms::matrix::Bradford, T>::min_short())], n);
    run_type::<Oklab<T>, T, 3>(out, rng, "Oklab@oklab/properties.rs", [both!(Oklab::<T>::min_l(), Oklab::<T>::max_l()), B::Un, B::Un], n);
    run_type::<Oklch<T>, T, 3>(out, rng, "Oklch@oklch/properties.rs", [both!(Oklch::<T>::min_l(), Oklch::<T>::max_l()), B::Min(Oklch::<T>::min_chroma()), B::Un], n);
    run_type::<Okhsl<T>, T, 3>(out, rng, "Okhsl@okhsl/properties.rs", [B::Un, both!(Okhsl::<T>::min_saturation(), Okhsl::<T>::max_saturation()), both!(Okhsl::<T>::min_lightness(), Okhsl::<T>::max_lightness())], n);
    run_type::<Okhsv<T>, T, 3>(out, rng, "Okhsv@okhsv/properties.rs", [B::Un, both!(Okhsv::<T>::min_saturation(), Okhsv::<T>::max_saturation() + slack), both!(Okhsv::<T>::min_value(), Okhsv::<T>::max_value() + slack)], n);
    run_type::<palette::cam16::Cam16UcsJab<T>, T, 3>(out, rng, "Cam16UcsJab@cam16/ucs_jab.rs", [both!(palette::cam16::Cam16UcsJab::<T>::min_lightness(), palette::cam16::Cam16UcsJab::<T>::max_lightness()), B::Un, B::Un], n);
    run_type::<palette::cam16::Cam16UcsJmh<T>, T, 3>(out, rng, "Cam16UcsJmh@cam16/ucs_jmh.rs", [both!(palette::cam16::Cam16UcsJmh::<T>::min_lightness(), palette::cam16::Cam16UcsJmh::<T>::max_lightness()), B::Min(palette::cam16::Cam16UcsJmh::<T>::min_colorfulness()), B::Un], n);
    run_hwb::<Hwb<S, T>, T>(out, rng, "Hwb", 1.0, n * 4, |x| x as T);
    run_hwb::<Okhwb<T>, T>(out, rng, "Okhwb", 1.0, n * 4, |x| x as T);
    // conversions: far out-of-range and in-range sources
    let mut srcs: Vec<[T; 3]> = vec![];
    for _ in 0..n { srcs.push([rng.range(-1.0, 2.0) as T, rng.range(-1.0, 2.0) as T, rng.range(-1.0, 2.0) as T]); srcs.push([rng.unit() as T, rng.unit() as T, rng.unit() as T]); }
    for a in [0.0, 1.0, -0.5, 1.5] { for b in [0.0, 1.0, 2.0] { for c in [0.0, 1.0, -1.0] { srcs.push([a as T, b as T, c as T]); } } }
    macro_rules! conv { ($s:ty, $d:ty, $k:expr) => { run_convert::<$s, $d, T, 3, 3>(out, concat!($k, ":", stringify!($t)), &srcs); run_convert_collections::<$s, $d, T>(out, concat!($k, ":", stringify!($t)), &srcs); } }
    conv!(Rgb<S, T>, Hsl<S, T>, "Rgb->Hsl"); conv!(Rgb<S, T>, Hsv<S, T>, "Rgb->Hsv"); conv!(Rgb<S, T>, Hwb<S, T>, "Rgb->Hwb"); conv!(Rgb<S, T>, Lab<D65, T>, "Rgb->Lab");
    conv!(Rgb<S, T>, Xyz<D65, T>, "Rgb->Xyz"); conv!(Xyz<D65, T>, Rgb<S, T>, "Xyz->Rgb"); conv!(Xyz<D65, T>, Yxy<D65, T>, "Xyz->Yxy"); conv!(Xyz<D65, T>, Luv<D65, T>, "Xyz->Luv");
    conv!(Xyz<D65, T>, Lch<D65, T>, "Xyz->Lch"); conv!(Xyz<D65, T>, Oklab<T>, "Xyz->Oklab"); conv!(Rgb<S, T>, Okhsv<T>, "Rgb->Okhsv"); conv!(Rgb<S, T>, Okhsl<T>, "Rgb->Okhsl");
    conv!(Rgb<S, T>, Okhwb<T>, "Rgb->Okhwb"); conv!(Rgb<S, T>, Hsluv<D65, T>, "Rgb->Hsluv"); conv!(Rgb<S, T>, Lchuv<D65, T>, "Rgb->Lchuv"); conv!(Rgb<S, T>, Oklch<T>, "Rgb->Oklch");
    conv!(Hsl<S, T>, Rgb<S, T>, "Hsl->Rgb"); conv!(Hsv<S, T>, Rgb<S, T>, "Hsv->Rgb"); conv!(Lab<D65, T>, Rgb<S, T>, "Lab->Rgb"); conv!(Hsv<S, T>, Hwb<S, T>, "Hsv->Hwb");
    run_convert::<Rgb<S, T>, Luma<S, T>, T, 3, 1>(out, concat!("Rgb->Luma:", stringify!($t)), &srcs);
}} }

pub fn run(tier: &str, seed: u64, dir: &str) {
    let mut out = Out::new("C03", dir);
    let mut rng = Rng::new(seed);
    let n = if tier == "thorough" { 4000 } else { 300 };
    run_floats!(&mut out, &mut rng, n, f32);
    run_floats!(&mut out, &mut rng, n, f64);
    {
        use palette::encoding::Srgb as S;
        run_type::<Rgb<S, u8>, u8, 3>(&mut out, &mut rng, "Rgb@rgb/rgb.rs", [B::Both(Rgb::<S, u8>::min_red(), Rgb::<S, u8>::max_red()), B::Both(Rgb::<S, u8>::min_green(), Rgb::<S, u8>::max_green()), B::Both(Rgb::<S, u8>::min_blue(), Rgb::<S, u8>::max_blue())], n);
        run_type::<Rgb<S, u16>, u16, 3>(&mut out, &mut rng, "Rgb@rgb/rgb.rs", [B::Both(Rgb::<S, u16>::min_red(), Rgb::<S, u16>::max_red()), B::Both(Rgb::<S, u16>::min_green(), Rgb::<S, u16>::max_green()), B::Both(Rgb::<S, u16>::min_blue(), Rgb::<S, u16>::max_blue())], n);
        run_type::<Luma<S, u8>, u8, 1>(&mut out, &mut rng, "Luma@luma/luma.rs", [B::Both(Luma::<S, u8>::min_luma(), Luma::<S, u8>::max_luma())], n);
        // integer components with bounds from below only (every unsigned value is within bounds: clamping must change nothing)
        type LmsB<T> = palette::lms::Lms<palette::lms::matrix::Bradford, T>;
        run_type::<LmsB<u8>, u8, 3>(&mut out, &mut rng, "Lms@lms/lms.rs", [B::Min(LmsB::<u8>::min_long()), B::Min(LmsB::<u8>::min_medium()), B::Min(LmsB::<u8>::min_short())], n);
        run_type::<LmsB<u16>, u16, 3>(&mut out, &mut rng, "Lms@lms/lms.rs", [B::Min(LmsB::<u16>::min_long()), B::Min(LmsB::<u16>::min_medium()), B::Min(LmsB::<u16>::min_short())], n);
        EMIT.store(false, std::sync::atomic::Ordering::Relaxed);
        run_type::<palette::cam16::Cam16Jch<u8>, u8, 3>(&mut out, &mut rng, "Cam16Jch@cam16/partial.rs", [B::Min(0u8), B::Min(0u8), B::Un], n);
        run_hwb::<Hwb<S, u8>, u8>(&mut out, &mut rng, "Hwb", 255, n, |x| (x.clamp(0.0, 1.0) * 255.0) as u8);
        EMIT.store(true, std::sync::atomic::Ordering::Relaxed);
    }
    // coverage audit: forms, entry points, component types and type parameters the clauses above do not drive (`c03_more.rs`).
    // Called last, so that the case stream above is unchanged.
    crate::c03_more::run_more(&mut out, &mut rng, tier);
    out.finish(dir, "");
}
