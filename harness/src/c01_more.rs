//! C01, second part (coverage audit, see AUDIT_C01.md): the forms, entry points and type parameters inside the property's quantifier that
//! `c01.rs` does not drive.  Every clause is the property's own predicate evaluated on the implementation (round trip, direct = step by
//! step, alpha passes through), at the tolerances of the sibling clauses in `c01.rs`:
//!
//!  * `bnd-*`: every source type with each component at exactly its documented minimum / maximum (black, white, zero chroma, full
//!    saturation, hue 0 / 360, whiteness + blackness = 1) combined with interior values of the others, all ordered pairs, every
//!    intermediate.  Unlike `c01.rs` a NaN / infinite result is a FAILURE here (a colour of the nominal range that comes back as NaN has
//!    not come back), not a skipped case;
//!  * `luma-*`: `Rgb<S> <- Luma<St>` (rgb/rgb.rs, `TypeId` test on the two transfer functions), the derived `Hsl/Hsv/Hwb<S> <- Luma<St>`
//!    behind it and `Luma<S1> <- Luma<S2>` (luma/luma.rs) for pairs of standards with DIFFERENT and with equal transfer functions,
//!    against the step-by-step routes through Xyz / Yxy / linear luma and back; `conv Luma:.. Rgb:..` / `conv Luma:.. Luma:..` lines;
//!  * `cfg-*`: all ordered pairs of the twelve types that exist at the D50 white point with `ProPhotoRgb`, at the DCI white point with
//!    `DciP3`, and the rows / columns of the five standard-carrying types at `Rec2020` / D65 (including the Ok family), the CIE family at
//!    further white points;
//!  * `lms-*`: `Lms<M, T>` (a member of the XYZ group whose 2 x 17 derived impls the all-pairs table leaves out);
//!  * `alpha-*`: the derived `impl FromColorUnclamped<Alpha<_C, _A>> for B` (alpha dropped), `Alpha<B, T> <- A` (alpha attached by the
//!    conversion), `WithAlpha::{with_alpha, without_alpha, split}` (derived per colour type), an alpha of another component type;
//!  * `form-*`: `IntoColorUnclamped`, `Vec` / `Box<[T]>` forms, `FromColorUnclampedMut` / `IntoColorUnclampedMut` for a colour and for
//!    `[T]` (guard dropped, `restore()`d, chained with `then_into_color_unclamped_mut`) - the in-place round trip.
//!
//! Helpers are macros instantiated at concrete types: palette's trait bounds are not restated anywhere (a changed bound must not stop
//! the harness from compiling).
#![allow(clippy::all)]
use crate::common::*;
use crate::pairs::*;
use palette::cast::{from_array, into_array};
use palette::convert::{FromColorUnclamped, FromColorUnclampedMut, IntoColorUnclamped, IntoColorUnclampedMut};
use palette::encoding::{AdobeRgb, DciP3, DisplayP3, Gamma, Linear, ProPhotoRgb, Rec2020, Rec709, Srgb};
use palette::lms::matrix::{Bradford, VonKries, WithLmsMatrix};
use palette::lms::Lms;
use palette::luma::Luma;
use palette::rgb::Rgb;
use palette::white_point::{D50, D65, E, F11, A as WpA, D65Degree10};
use palette::{Alpha, Hsl, Hsluv, Hsv, Hwb, Lab, Lch, Lchuv, Luv, Okhsl, Okhsv, Okhwb, Oklab, Oklch, WithAlpha, Xyz, Yxy};

pub type Routes = Vec<Vec<Option<Vec<usize>>>>;
type F<T> = fn(&[T]) -> Vec<T>;

trait Dy: Fl { fn direct(a: usize, b: usize, x: &[Self]) -> Option<Vec<Self>>; }
impl Dy for f32 { fn direct(a: usize, b: usize, x: &[f32]) -> Option<Vec<f32>> { direct_f32(a, b, x) } }
impl Dy for f64 { fn direct(a: usize, b: usize, x: &[f64]) -> Option<Vec<f64>> { direct_f64(a, b, x) } }

fn arr<T: Copy, const N: usize>(x: &[T]) -> [T; N] { core::array::from_fn(|i| x[i]) }
fn fin<T: Fl>(a: &[T]) -> bool { a.iter().all(|x| x.finite()) }
fn bits_eq<T: Fl>(a: &[T], b: &[T]) -> bool { a.len() == b.len() && a.iter().zip(b).all(|(x, y)| x.bits64() == y.bits64() || (x.to64().is_nan() && y.to64().is_nan())) }
fn maxdiff<T: Fl>(a: &[T], b: &[T]) -> f64 { if a.len() != b.len() { return f64::NAN; } a.iter().zip(b).map(|(x, y)| (x.to64() - y.to64()).abs()).fold(0.0, |m, e| if e.is_nan() || m.is_nan() { f64::NAN } else { m.max(e) }) }
fn v_of<T: Fl>(c: &[f64]) -> Vec<T> { c.iter().map(|v| T::of(*v)).collect() }
fn is_okh(n: &str) -> bool { n.starts_with("Okh") }
/// K2 (known finding, see c01.rs): f32, blue edge of the sRGB gamut
fn blue_edge_f32<T: Fl>(okhsl: &[T]) -> bool { T::TAG == "f32" && okhsl.len() == 3 && (okhsl[0].to64().rem_euclid(360.0) - 264.05).abs() <= 0.6 && okhsl[1].to64() >= 0.95 }

const XYZ: usize = 0; const RGB: usize = 1; const LUMA: usize = 2; const OKLAB: usize = 12; const OKHSL: usize = 14;
fn uses_shortcut(path: &[usize]) -> bool { path.windows(2).any(|w| (w[0] == RGB && w[1] == OKLAB) || (w[0] == OKLAB && w[1] == RGB)) }
fn has_okh_idx(p: &[usize]) -> bool { p.iter().any(|&t| is_okh(NAMES[t])) }

// =====================================================================================================================================
// bnd-*: components at exactly their documented minimum / maximum
// =====================================================================================================================================

fn lattice3(a: &[f64], b: &[f64], c: &[f64]) -> Vec<Vec<f64>> { let mut v = vec![]; for &x in a { for &y in b { for &z in c { v.push(vec![x, y, z]); } } } v }
const HUES: [f64; 4] = [0.0, 30.0, 200.0, 360.0];
/// destinations that can represent colours outside the sRGB gamut / imaginary colours (no division by a gamut-dependent quantity)
const UNBOUNDED: [&str; 9] = ["Xyz", "Rgb", "Yxy", "Lab", "Lch", "Luv", "Lchuv", "Oklab", "Oklch"];

/// (colour, representable by every type?)  `false`: on a face of the type's box that lies outside the sRGB gamut - only `UNBOUNDED` destinations
fn boundary_sources(name: &str) -> Vec<(Vec<f64>, bool)> {
    let all = |v: Vec<Vec<f64>>| v.into_iter().map(|c| (c, true)).collect::<Vec<_>>();
    let some = |v: Vec<Vec<f64>>| v.into_iter().map(|c| (c, false)).collect::<Vec<_>>();
    match name {
        "Rgb" => all(lattice3(&[0.0, 0.3, 0.75, 1.0], &[0.0, 0.3, 0.75, 1.0], &[0.0, 0.3, 0.75, 1.0])),
        "Luma" => vec![(vec![0.0], true), (vec![0.4], true), (vec![1.0], true)],
        "Hsl" | "Hsv" | "Okhsl" | "Okhsv" => all(lattice3(&HUES, &[0.0, 0.4, 1.0], &[0.0, 0.35, 0.8, 1.0])),
        "Hwb" | "Okhwb" => { let mut v = vec![]; for h in HUES { for (w, b) in [(0.0, 0.0), (0.0, 0.3), (0.0, 1.0), (0.3, 0.0), (0.3, 0.3), (1.0, 0.0), (0.75, 0.25), (0.25, 0.75)] { v.push(vec![h, w, b]); } } all(v) }
        // saturation exactly 100 is the HSLuv gamut boundary, which lies up to 2e-4 (linear) outside the crate's sRGB cube (HSLuv's own matrix M):
        // Hsluv(30, 100, 35) -> Rgb = (0.519, 0.247, -0.000196), not representable by the hexcone / Okh* types - unbounded destinations only
        "Hsluv" => { let mut v = all(lattice3(&HUES, &[0.0, 40.0], &[0.0, 35.0, 80.0, 100.0])); v.extend(some(lattice3(&HUES, &[100.0], &[0.0, 35.0, 80.0, 100.0]))); v }
        // (the face Y = 0 of the Xyz box with X, Z > 0 is left out: L* = 0 / y = 0 there, Luv, Lchuv and Yxy cannot represent such a colour)
        "Xyz" => { let mut v = all(vec![vec![0.0, 0.0, 0.0], vec![0.95047, 1.0, 1.08883], vec![0.190094, 0.2, 0.217766]]);
            v.extend(some(vec![vec![0.0, 0.4, 0.5], vec![0.95047, 0.6, 0.5], vec![0.5, 1.0, 0.5], vec![0.4, 0.4, 0.0], vec![0.4, 0.4, 1.08883]])); v }
        "Yxy" => { let mut v = all(vec![vec![0.3127, 0.3290, 0.0], vec![0.3127, 0.3290, 0.4], vec![0.3127, 0.3290, 1.0], vec![0.4, 0.35, 0.0]]);
            v.extend(some(vec![vec![0.0, 0.4, 0.3], vec![1.0, 0.4, 0.3], vec![0.3, 1.0, 0.3]])); v }
        "Lab" => { let mut v = all(vec![vec![0.0, 0.0, 0.0], vec![50.0, 0.0, 0.0], vec![100.0, 0.0, 0.0]]);
            v.extend(some(vec![vec![50.0, -128.0, 10.0], vec![50.0, 127.0, 10.0], vec![75.0, 10.0, -128.0], vec![75.0, 10.0, 127.0]])); v }
        "Luv" => { let mut v = all(vec![vec![0.0, 0.0, 0.0], vec![50.0, 0.0, 0.0], vec![100.0, 0.0, 0.0]]);
            v.extend(some(vec![vec![50.0, -84.0, 10.0], vec![50.0, 176.0, 10.0], vec![75.0, 10.0, -135.0], vec![75.0, 10.0, 108.0]])); v }
        "Oklab" => { let mut v = all(vec![vec![0.0, 0.0, 0.0], vec![0.5, 0.0, 0.0], vec![1.0, 0.0, 0.0]]);
            v.extend(some(vec![vec![0.5, -0.4, 0.05], vec![0.5, 0.4, 0.05], vec![0.75, 0.05, -0.4], vec![0.75, 0.05, 0.4]])); v }
        "Lch" => { let mut v = all(lattice3(&[0.0, 50.0, 100.0], &[0.0], &[0.0, 90.0, 360.0])); v.extend(all(lattice3(&[40.0, 70.0], &[15.0], &[0.0, 360.0]))); v.extend(some(lattice3(&[50.0], &[128.0], &[30.0, 200.0]))); v }
        "Lchuv" => { let mut v = all(lattice3(&[0.0, 50.0, 100.0], &[0.0], &[0.0, 90.0, 360.0])); v.extend(all(lattice3(&[40.0, 70.0], &[15.0], &[0.0, 360.0]))); v.extend(some(lattice3(&[50.0], &[180.0], &[30.0, 200.0]))); v }
        "Oklch" => { let mut v = all(lattice3(&[0.0, 0.5, 1.0], &[0.0], &[0.0, 90.0, 360.0])); v.extend(all(lattice3(&[0.4, 0.7], &[0.05], &[0.0, 360.0]))); v.extend(some(lattice3(&[0.5], &[0.4], &[30.0, 200.0]))); v }
        _ => vec![],
    }
}

fn dist_xyz<T: Dy>(ty: usize, p: &[T], q: &[T]) -> f64 {
    match (T::direct(ty, XYZ, p), T::direct(ty, XYZ, q)) { (Some(a), Some(b)) => maxdiff(&a, &b), _ => f64::NAN }
}

/// HSLuv at lightness exactly 0 / 100 (known finding D5: the two guards of the HSLuv reference are missing, chroma / saturation come out
/// as NaN or inf there): failures of a route through `Lchuv <-> Hsluv` started from such a colour are reported under their own clause
fn hsluv_pole<T: Dy>(a: usize, x: &[T]) -> bool {
    // the colour's CIE lightness is exactly 0 or 100 (or rounds to it) <=> its Hsluv form has l at the pole
    match T::direct(a, 9, x) { Some(l) => { let v = l[0].to64(); !(v > 1e-4 && v < 100.0 - 1e-4) } None => false }
}

fn boundary_t<T: Dy>(out: &mut Out, routes: &Routes) {
    let nt = NAMES.len();
    let tol0 = if T::TAG == "f32" { 2e-4 } else { 2e-6 };       // as c01.rs
    let tol_okh = if T::TAG == "f32" { 6e-4 } else { 2e-6 };
    for a in 0..nt {
        if !PRESENT[a] { continue; }
        for (c64, everywhere) in boundary_sources(NAMES[a]) {
            let x: Vec<T> = v_of(&c64);
            out.count("cls:bnd-source");
            let pole = hsluv_pole(a, &x);
            for b in 0..nt {
                if !PRESENT[b] || b == LUMA || a == b { continue; }
                if !everywhere && !UNBOUNDED.contains(&NAMES[b]) { continue; }
                let key = format!("{}->{}:{}", NAMES[a], NAMES[b], T::TAG);
                let route = routes[a][b].clone();
                let d = match T::direct(a, b, &x) { Some(d) => d, None => continue };
                let through_hsluv = |p: &Option<Vec<usize>>, ends: &[usize]| ends.iter().any(|&t| NAMES[t] == "Hsluv") || p.as_ref().map_or(false, |p| p.iter().any(|&t| NAMES[t] == "Hsluv"));
                if let Some(back) = T::direct(b, a, &d) {
                    let okh = has_okh_idx(&[a, b]) || route.as_ref().map_or(false, |p| has_okh_idx(p));
                    let e = dist_xyz(a, &x, &back);
                    let ok = fin(&d) && fin(&back) && e <= if okh { tol_okh } else { tol0 };
                    let edge = okh && T::direct(a, OKHSL, &x).map_or(false, |h| blue_edge_f32(&h));
                    let clause = if pole && through_hsluv(&route, &[a, b]) { format!("hsluv-at-L-pole-C01:bnd-roundtrip:{}", key) } else if edge { format!("ok-f32-blue-edge:bnd-roundtrip:{}", key) } else { format!("bnd-roundtrip:{}", key) };
                    out.check(ok, &clause, || format!("{:?} -> {:?} -> {:?} (XYZ distance {:e}; NaN/inf counts as a failure)", x, d, back, e));
                }
                for c in 0..nt {
                    if !PRESENT[c] || c == LUMA || c == a || c == b { continue; }
                    if !everywhere && !UNBOUNDED.contains(&NAMES[c]) { continue; }
                    let (ac, acb) = match T::direct(a, c, &x) { Some(ac) => match T::direct(c, b, &ac) { Some(acb) => (ac, acb), None => continue }, None => continue };
                    let via_path: Vec<usize> = match (&routes[a][c], &routes[c][b]) { (Some(p), Some(q)) => p.iter().chain(q.iter().skip(1)).cloned().collect(), _ => vec![] };
                    let okh = has_okh_idx(&[a, b, c]) || route.as_ref().map_or(false, |p| has_okh_idx(p)) || has_okh_idx(&via_path);
                    let mixed = route.as_ref().map_or(false, |p| uses_shortcut(p)) != uses_shortcut(&via_path);
                    let tol = if okh { tol_okh } else { tol0 };
                    let e = dist_xyz(b, &d, &acb);
                    let finite = fin(&d) && fin(&ac) && fin(&acb);
                    let edge = okh && T::direct(a, OKHSL, &x).map_or(false, |h| blue_edge_f32(&h));
                    let hs = pole && (through_hsluv(&route, &[a, b, c]) || via_path.iter().any(|&t| NAMES[t] == "Hsluv"));
                    let detail = || format!("{:?}: direct {:?}, via {} {:?} -> {:?} (XYZ distance {:e}; NaN/inf counts as a failure)", x, d, NAMES[c], ac, acb, e);
                    // K1 exactly as in c01.rs: within the decided matrix discrepancy under its own clause, beyond it a violation
                    let holds = finite && e <= if mixed { tol + 2.5e-3 } else { tol };
                    if hs { out.check(holds, &format!("hsluv-at-L-pole-C01:bnd-commute:{}:via-{}", key, NAMES[c]), detail); }
                    else if edge { out.check(finite && e <= tol, &format!("ok-f32-blue-edge:bnd-commute:{}:via-{}", key, NAMES[c]), detail); }
                    else {
                        out.check(holds, &format!("bnd-commute:{}:via-{}", key, NAMES[c]), detail);
                        if mixed { out.check(finite && e <= tol, &format!("oklab-shortcut-matrices:commute:bnd:{}:via-{}", key, NAMES[c]), detail); }
                    }
                }
            }
        }
    }
}

// =====================================================================================================================================
// cfg-*: tables of conversions at non-default type parameters
// =====================================================================================================================================

struct Tab<T: Fl> { cfg: &'static str, names: Vec<&'static str>, f: Vec<Vec<Option<F<T>>>> }
impl<T: Fl> Tab<T> {
    fn idx(&self, n: &str) -> Option<usize> { self.names.iter().position(|x| *x == n) }
    fn go(&self, a: usize, b: usize, x: &[T]) -> Option<Vec<T>> { self.f[a][b].map(|f| f(x)) }
}

macro_rules! conv_fn { ($A:ty, $B:ty) => { Some((|x: &[T]| -> Vec<T> { into_array(<$B>::from_color_unclamped(from_array::<$A>(arr(x)))).to_vec() }) as F<T>) } }
/// all ordered pairs of one list of types
macro_rules! table_full {
    (@rows $all:tt; $($A:ty),+) => { vec![ $( table_full!(@row $A; $all) ),+ ] };
    (@row $A:ty; [$($B:ty),+]) => { vec![ $( conv_fn!($A, $B) ),+ ] };
    ($($A:ty),+) => { table_full!(@rows [$($A),+]; $($A),+) };
}
/// rows `$A -> every $B`
macro_rules! table_rows {
    (@row $A:ty; [$($B:ty),+]) => { vec![ $( conv_fn!($A, $B) ),+ ] };
    ([$($A:ty),+]; $all:tt) => { vec![ $( table_rows!(@row $A; $all) ),+ ] };
}
/// columns `every $B -> $A`, as rows indexed by $A
macro_rules! table_cols {
    (@row $A:ty; [$($B:ty),+]) => { vec![ $( conv_fn!($B, $A) ),+ ] };
    ([$($A:ty),+]; $all:tt) => { vec![ $( table_cols!(@row $A; $all) ),+ ] };
}

/// round trip and commutation over a table, from in-gamut colours of the type `src_ty` pushed to every source type by the implementation.
/// Non-finite results are skipped as in c01.rs (pure power laws return NaN for the -1e-10 a 7-digit matrix pair leaves: D6, C07).
fn eval_tab<T: Fl>(out: &mut Out, tab: &Tab<T>, src_ty: usize, cube: &[Vec<T>]) {
    let nt = tab.names.len();
    let xyz = tab.idx("Xyz").unwrap();
    let okhsl = tab.idx("Okhsl");
    let tol0 = if T::TAG == "f32" { 2e-4 } else { 2e-6 };       // as c01.rs (XYZ distance)
    let tol_okh = if T::TAG == "f32" { 6e-4 } else { 2e-6 };
    let dist = |ty: usize, p: &[T], q: &[T]| -> f64 { match (tab.go(ty, xyz, p), tab.go(ty, xyz, q)) { (Some(a), Some(b)) => maxdiff(&a, &b), _ => f64::NAN } };
    for a in 0..nt {
        let srcs: Vec<Vec<T>> = cube.iter().filter_map(|c| tab.go(src_ty, a, c)).filter(|c| fin(c)).collect();
        for b in 0..nt {
            if tab.names[b] == "Luma" || a == b { continue; }
            let key = format!("{}:{}->{}:{}", tab.cfg, tab.names[a], tab.names[b], T::TAG);
            for x in &srcs {
                let d = match tab.go(a, b, x) { Some(d) => d, None => break };
                if !fin(&d) { out.count("cls:nonfinite-skipped"); continue; }
                let edge = okhsl.and_then(|o| tab.go(a, o, x)).map_or(false, |h| blue_edge_f32(&h));
                if let (Some(back), true) = (tab.go(b, a, &d), tab.f[a][xyz].is_some()) {
                    if fin(&back) {
                        let okh = is_okh(tab.names[a]) || is_okh(tab.names[b]);
                        let e = dist(a, x, &back);
                        if e.is_nan() { out.count("cls:nonfinite-skipped"); }   // the measuring conversion to Xyz is itself non-finite (power law of -1e-8)
                        else {
                            out.maxi(&format!("cfg-roundtrip-xyz-err:{}:{}", tab.cfg, T::TAG), e);
                            let clause = if edge && okh { format!("ok-f32-blue-edge:cfg-roundtrip:{}", key) } else { format!("cfg-roundtrip:{}", key) };
                            out.check(e <= if okh { tol_okh } else { tol0 }, &clause, || format!("{:?} -> {:?} -> {:?} (XYZ distance {:e})", x, d, back, e));
                        }
                    } else { out.count("cls:nonfinite-skipped"); }
                }
                if tab.f[b][xyz].is_none() { continue; }
                for c in 0..nt {
                    if tab.names[c] == "Luma" || c == a || c == b { continue; }
                    let acb = match tab.go(a, c, x).and_then(|ac| tab.go(c, b, &ac)) { Some(v) => v, None => continue };
                    if !fin(&acb) { out.count("cls:nonfinite-skipped"); continue; }
                    let okh = is_okh(tab.names[a]) || is_okh(tab.names[b]) || is_okh(tab.names[c]);
                    let e = dist(b, &d, &acb);
                    if e.is_nan() { out.count("cls:nonfinite-skipped"); continue; }
                    out.maxi(&format!("cfg-commute-xyz-err:{}:{}", tab.cfg, T::TAG), e);
                    let clause = if edge && okh { format!("ok-f32-blue-edge:cfg-commute:{}:via-{}", key, tab.names[c]) } else { format!("cfg-commute:{}:via-{}", key, tab.names[c]) };
                    out.check(e <= if okh { tol_okh } else { tol0 }, &clause, || format!("{:?}: direct {:?}, via {} {:?} (XYZ distance {:e})", x, d, tab.names[c], acb, e));
                }
            }
        }
        out.count("cls:cfg-source-type");
    }
}

fn cube64(rng: &mut Rng, n: usize) -> Vec<[f64; 3]> {
    let mut cube = vec![];
    for r in [0.0, 1e-9, 0.25, 0.5, 1.0 - 1e-9, 1.0] { for g in [0.0, 0.5, 1.0] { for b in [0.0, 1e-9, 0.5, 1.0] { cube.push([r, g, b]); } } }
    for i in 0..=8 { let g = i as f64 / 8.0; cube.push([g, g, g]); }
    for _ in 0..n { cube.push([rng.unit(), rng.unit(), rng.unit()]); }
    cube
}

// =====================================================================================================================================
// per component type: everything that needs concrete palette types
// =====================================================================================================================================

macro_rules! more_t { ($fname:ident, $t:ty, $other:ty) => {
fn $fname(out: &mut Out, rng: &mut Rng, n: usize) {
    type T = $t;
    let tag = <T as Fl>::TAG;
    let tol = if tag == "f32" { 2e-5 } else { 1e-6 };   // encoded-RGB comparisons, as `rgb_standards!` / `cross_standard!` in c01.rs

    // ---------------------------------------------------------------------------------------------------------------- luma standards
    // Rgb<S> <- Luma<St>: copy when the transfer functions are the same type, else decode with St's and encode with S's; direct = via
    // Xyz / Yxy / linear luma (step by step), Luma -> Rgb -> Luma comes back; the derived Hsl/Hsv/Hwb<S> <- Luma<St> go through that edge.
    let mut ls: Vec<f64> = vec![0.0, 1e-9, 0.001, 0.003, 0.0031308, 0.01, 0.018, 0.04045, 0.0812, 0.1, 0.2, 0.25, 0.5, 0.75, 0.9, 1.0 - 1e-9, 1.0];
    for _ in 0..n { ls.push(rng.unit()); }
    macro_rules! luma_rgb { ($St:ty, $stn:expr, $S:ty, $sn:expr, $Wp:ty, $cfg:expr) => {{
        let powlaw = |n: &str| n == "AdobeRgb" || n == "DciP3" || n == "GammaSrgb" || n == "LinGamma";
        // pure power laws amplify the matrix mismatch of the Xyz route near black (Hölder, DESIGN §3 C01): 4e-3 there, as in c01.rs
        let t_comm = if powlaw($stn) || powlaw($sn) { 4e-3 } else { 4.0 * tol };
        let t_back = if powlaw($stn) || powlaw($sn) { 4e-3 } else { 10.0 * tol };
        let key = format!("{}:{}->{}:{}", $cfg, $stn, $sn, tag);
        for l in &ls {
            let a: [T; 1] = [<T as Fl>::of(*l)];
            let src = || from_array::<Luma<$St, T>>(a);
            let direct: [T; 3] = into_array(<Rgb<$S, T>>::from_color_unclamped(src()));
            if $cfg == "D65" { out.case(&format!("conv Luma:{} Rgb:{} | {} | {}", $stn, $sn, hx_list(&a), hx_list(&direct))); }
            out.check(fin(&direct), &format!("luma-rgb-finite:{}", key), || format!("Luma<{}>({:?}) -> Rgb<{}> {:?}", $stn, a, $sn, direct));
            let via_xyz: [T; 3] = into_array(<Rgb<$S, T>>::from_color_unclamped(<Xyz<$Wp, T>>::from_color_unclamped(src())));
            let via_yxy: [T; 3] = into_array(<Rgb<$S, T>>::from_color_unclamped(<Yxy<$Wp, T>>::from_color_unclamped(src())));
            let via_lin: [T; 3] = into_array(<Rgb<$S, T>>::from_color_unclamped(<Luma<Linear<$Wp>, T>>::from_color_unclamped(src())));
            let via_lab: [T; 3] = into_array(<Rgb<$S, T>>::from_color_unclamped(<Lab<$Wp, T>>::from_color_unclamped(src())));
            for (what, via) in [("Xyz", via_xyz), ("Yxy", via_yxy), ("LinLuma", via_lin), ("Lab", via_lab)] {
                if !fin(&via) { out.count("cls:nonfinite-skipped"); continue; }
                let e = maxdiff(&direct, &via);
                out.maxi(&format!("luma-rgb-commute-err:{}", tag), e);
                out.check(e <= t_comm, &format!("luma-rgb-commute:{}:via-{}", key, what), || format!("Luma<{}>({:?}): direct Rgb<{}> {:?}, via {} {:?}", $stn, a, $sn, direct, what, via));
            }
            let back: [T; 1] = into_array(<Luma<$St, T>>::from_color_unclamped(from_array::<Rgb<$S, T>>(direct)));
            let e = maxdiff(&back, &a);
            out.check(e <= t_back, &format!("luma-rgb-roundtrip:{}", key), || format!("Luma<{}>({:?}) -> Rgb<{}> {:?} -> {:?}", $stn, a, $sn, direct, back));
            // derived: Hsl/Hsv/Hwb<S> <- Luma<St> (nearest colour Rgb<S>): read back as Rgb<S>
            let hsl: [T; 3] = into_array(<Rgb<$S, T>>::from_color_unclamped(<Hsl<$S, T>>::from_color_unclamped(src())));
            let hsv: [T; 3] = into_array(<Rgb<$S, T>>::from_color_unclamped(<Hsv<$S, T>>::from_color_unclamped(src())));
            let hwb: [T; 3] = into_array(<Rgb<$S, T>>::from_color_unclamped(<Hwb<$S, T>>::from_color_unclamped(src())));
            for (what, v) in [("Hsl", hsl), ("Hsv", hsv), ("Hwb", hwb)] {
                let e = maxdiff(&direct, &v);
                out.check(e <= t_comm, &format!("luma-hexcone-commute:{}:{}", key, what), || format!("Luma<{}>({:?}) -> {}<{}> -> Rgb {:?}, Luma -> Rgb {:?}", $stn, a, what, $sn, v, direct));
            }
            let bl: [T; 1] = into_array(<Luma<$St, T>>::from_color_unclamped(<Hsv<$S, T>>::from_color_unclamped(src())));
            out.check(maxdiff(&bl, &a) <= t_back, &format!("luma-hexcone-roundtrip:{}:Hsv", key), || format!("Luma<{}>({:?}) -> Hsv<{}> -> Luma {:?}", $stn, a, $sn, bl));
        }
        out.count("cls:luma-rgb-pair");
    }} }
    macro_rules! luma_row { ($St:ty, $stn:expr) => {
        luma_rgb!($St, $stn, Srgb, "Srgb", D65, "D65"); luma_rgb!($St, $stn, Linear<Srgb>, "LinSrgb", D65, "D65"); luma_rgb!($St, $stn, Rec709, "Rec709", D65, "D65");
        luma_rgb!($St, $stn, AdobeRgb, "AdobeRgb", D65, "D65"); luma_rgb!($St, $stn, DisplayP3, "DisplayP3", D65, "D65"); luma_rgb!($St, $stn, Rec2020, "Rec2020", D65, "D65");
        luma_rgb!($St, $stn, Linear<Rec2020>, "LinRec2020", D65, "D65"); luma_rgb!($St, $stn, Gamma<Srgb>, "GammaSrgb", D65, "D65");
    } }
    luma_row!(Srgb, "Srgb"); luma_row!(Linear<D65>, "LinSrgb"); luma_row!(Rec709, "Rec709"); luma_row!(AdobeRgb, "AdobeRgb"); luma_row!(Gamma<D65>, "GammaSrgb");
    // other white points (no protocol lines: the model names luma standards by RGB standard names of the same white point)
    luma_rgb!(DciP3, "DciP3", Linear<DciP3>, "LinDciP3", DciP3, "Dci"); luma_rgb!(Linear<DciP3>, "LinDciP3", DciP3, "DciP3", DciP3, "Dci"); luma_rgb!(DciP3, "DciP3", DciP3, "DciP3", DciP3, "Dci");
    luma_rgb!(ProPhotoRgb, "ProPhotoRgb", Linear<ProPhotoRgb>, "LinProPhotoRgb", D50, "D50"); luma_rgb!(Linear<D50>, "LinProPhotoRgb", ProPhotoRgb, "ProPhotoRgb", D50, "D50");
    luma_rgb!(ProPhotoRgb, "ProPhotoRgb", ProPhotoRgb, "ProPhotoRgb", D50, "D50"); luma_rgb!(Gamma<D50>, "LinGamma", ProPhotoRgb, "ProPhotoRgb", D50, "D50");

    // Luma<S1> <- Luma<S2> (luma/luma.rs: same standard -> reinterpret, else decode / encode) against the route through Xyz, and back
    macro_rules! luma_luma { ($S1:ty, $n1:expr, $S2:ty, $n2:expr, $Wp:ty, $cfg:expr) => {{
        let powlaw = |n: &str| n == "AdobeRgb" || n == "DciP3" || n == "GammaSrgb";
        let t = if powlaw($n1) || powlaw($n2) { 4e-3 } else { 10.0 * tol };
        let key = format!("{}:{}->{}:{}", $cfg, $n1, $n2, tag);
        for l in &ls {
            let a: [T; 1] = [<T as Fl>::of(*l)];
            let direct: [T; 1] = into_array(<Luma<$S2, T>>::from_color_unclamped(from_array::<Luma<$S1, T>>(a)));
            if $cfg == "D65" { out.case(&format!("conv Luma:{} Luma:{} | {} | {}", $n1, $n2, hx_list(&a), hx_list(&direct))); }
            let via: [T; 1] = into_array(<Luma<$S2, T>>::from_color_unclamped(<Xyz<$Wp, T>>::from_color_unclamped(from_array::<Luma<$S1, T>>(a))));
            let via2: [T; 1] = into_array(<Luma<$S2, T>>::from_color_unclamped(<Yxy<$Wp, T>>::from_color_unclamped(from_array::<Luma<$S1, T>>(a))));
            out.check(fin(&direct) && maxdiff(&direct, &via) <= t && maxdiff(&direct, &via2) <= t, &format!("luma-luma-commute:{}", key), || format!("Luma<{}>({:?}): direct {:?}, via Xyz {:?}, via Yxy {:?}", $n1, a, direct, via, via2));
            let back: [T; 1] = into_array(<Luma<$S1, T>>::from_color_unclamped(from_array::<Luma<$S2, T>>(direct)));
            out.check(maxdiff(&back, &a) <= t, &format!("luma-luma-roundtrip:{}", key), || format!("Luma<{}>({:?}) -> Luma<{}> {:?} -> {:?}", $n1, a, $n2, direct, back));
        }
        out.count("cls:luma-luma-pair");
    }} }
    luma_luma!(Srgb, "Srgb", Linear<D65>, "LinSrgb", D65, "D65"); luma_luma!(Linear<D65>, "LinSrgb", Srgb, "Srgb", D65, "D65"); luma_luma!(Srgb, "Srgb", Rec709, "Rec709", D65, "D65");
    luma_luma!(Rec709, "Rec709", AdobeRgb, "AdobeRgb", D65, "D65"); luma_luma!(AdobeRgb, "AdobeRgb", Linear<D65>, "LinSrgb", D65, "D65"); luma_luma!(Srgb, "Srgb", Srgb, "Srgb", D65, "D65");
    luma_luma!(Srgb, "Srgb", DisplayP3, "DisplayP3", D65, "D65"); luma_luma!(Rec2020, "Rec2020", Gamma<D65>, "GammaSrgb", D65, "D65");
    luma_luma!(DciP3, "DciP3", Linear<DciP3>, "LinDciP3", DciP3, "Dci"); luma_luma!(Linear<D50>, "LinProPhotoRgb", ProPhotoRgb, "ProPhotoRgb", D50, "D50");

    // ---------------------------------------------------------------------------------------------------------------- config tables
    let cube: Vec<Vec<T>> = cube64(rng, n).iter().map(|c| v_of::<T>(c)).collect();
    {   // D50 / ProPhotoRgb: every ordered pair of the twelve types that exist there
        let tab: Tab<T> = Tab { cfg: "ProPhoto-D50", names: vec!["Xyz", "Rgb", "Luma", "Hsl", "Hsv", "Hwb", "Lab", "Lch", "Luv", "Lchuv", "Hsluv", "Yxy"],
            f: table_full!(Xyz<D50, T>, Rgb<ProPhotoRgb, T>, Luma<ProPhotoRgb, T>, Hsl<ProPhotoRgb, T>, Hsv<ProPhotoRgb, T>, Hwb<ProPhotoRgb, T>, Lab<D50, T>, Lch<D50, T>, Luv<D50, T>, Lchuv<D50, T>, Hsluv<D50, T>, Yxy<D50, T>) };
        eval_tab(out, &tab, 1, &cube);
        for c in cube.iter().take(40) { let x: [T; 3] = arr(c);
            let d: [T; 3] = into_array(<Xyz<D50, T>>::from_color_unclamped(from_array::<Rgb<ProPhotoRgb, T>>(x))); out.case(&format!("conv Rgb:ProPhotoRgb Xyz:D50 | {} | {}", hx_list(&x), hx_list(&d)));
            let e: [T; 3] = into_array(<Rgb<ProPhotoRgb, T>>::from_color_unclamped(from_array::<Xyz<D50, T>>(d))); out.case(&format!("conv Xyz:D50 Rgb:ProPhotoRgb | {} | {}", hx_list(&d), hx_list(&e))); }
    }
    {   // DCI white point / DciP3 (pure power law 2.6) and its linear standard
        let tab: Tab<T> = Tab { cfg: "DciP3", names: vec!["Xyz", "Rgb", "Luma", "Hsl", "Hsv", "Hwb", "Lab", "Lch", "Luv", "Lchuv", "Hsluv", "Yxy"],
            f: table_full!(Xyz<DciP3, T>, Rgb<DciP3, T>, Luma<DciP3, T>, Hsl<DciP3, T>, Hsv<DciP3, T>, Hwb<DciP3, T>, Lab<DciP3, T>, Lch<DciP3, T>, Luv<DciP3, T>, Lchuv<DciP3, T>, Hsluv<DciP3, T>, Yxy<DciP3, T>) };
        eval_tab(out, &tab, 1, &cube);
        for c in cube.iter().take(40) { let x: [T; 3] = arr(c);
            let d: [T; 3] = into_array(<Xyz<DciP3, T>>::from_color_unclamped(from_array::<Rgb<DciP3, T>>(x))); out.case(&format!("conv Rgb:DciP3 Xyz:DciP3 | {} | {}", hx_list(&x), hx_list(&d))); }
    }
    {   // D65 / Rec2020: rows and columns of the five standard-carrying types against all seventeen (the other 12 x 12 block is c01.rs's table)
        let names = vec!["Rgb", "Luma", "Hsl", "Hsv", "Hwb", "Xyz", "Lab", "Lch", "Luv", "Lchuv", "Hsluv", "Yxy", "Oklab", "Oklch", "Okhsl", "Okhsv", "Okhwb"];
        let rows: Vec<Vec<Option<F<T>>>> = table_rows!([Rgb<Rec2020, T>, Luma<Rec2020, T>, Hsl<Rec2020, T>, Hsv<Rec2020, T>, Hwb<Rec2020, T>];
            [Rgb<Rec2020, T>, Luma<Rec2020, T>, Hsl<Rec2020, T>, Hsv<Rec2020, T>, Hwb<Rec2020, T>, Xyz<D65, T>, Lab<D65, T>, Lch<D65, T>, Luv<D65, T>, Lchuv<D65, T>, Hsluv<D65, T>, Yxy<D65, T>, Oklab<T>, Oklch<T>, Okhsl<T>, Okhsv<T>, Okhwb<T>]);
        let cols: Vec<Vec<Option<F<T>>>> = table_cols!([Rgb<Rec2020, T>, Luma<Rec2020, T>, Hsl<Rec2020, T>, Hsv<Rec2020, T>, Hwb<Rec2020, T>];
            [Rgb<Rec2020, T>, Luma<Rec2020, T>, Hsl<Rec2020, T>, Hsv<Rec2020, T>, Hwb<Rec2020, T>, Xyz<D65, T>, Lab<D65, T>, Lch<D65, T>, Luv<D65, T>, Lchuv<D65, T>, Hsluv<D65, T>, Yxy<D65, T>, Oklab<T>, Oklch<T>, Okhsl<T>, Okhsv<T>, Okhwb<T>]);
        let mut f: Vec<Vec<Option<F<T>>>> = vec![vec![None; 17]; 17];
        for i in 0..5 { for j in 0..17 { f[i][j] = rows[i][j]; f[j][i] = cols[i][j]; } }
        // the Xyz row / column is needed to measure distances: same code as c01.rs's table
        macro_rules! xyz_rc { ($i:expr, $B:ty) => { f[5][$i] = conv_fn!(Xyz<D65, T>, $B); f[$i][5] = conv_fn!($B, Xyz<D65, T>); } }
        xyz_rc!(5, Xyz<D65, T>); xyz_rc!(6, Lab<D65, T>); xyz_rc!(7, Lch<D65, T>); xyz_rc!(8, Luv<D65, T>); xyz_rc!(9, Lchuv<D65, T>); xyz_rc!(10, Hsluv<D65, T>); xyz_rc!(11, Yxy<D65, T>); xyz_rc!(12, Oklab<T>);
        xyz_rc!(13, Oklch<T>); xyz_rc!(14, Okhsl<T>); xyz_rc!(15, Okhsv<T>); xyz_rc!(16, Okhwb<T>);
        // ... and the Okhsl column, to recognise the f32 blue edge (K2)
        macro_rules! okhsl_c { ($i:expr, $B:ty) => { f[$i][14] = conv_fn!($B, Okhsl<T>); } }
        okhsl_c!(6, Lab<D65, T>); okhsl_c!(7, Lch<D65, T>); okhsl_c!(8, Luv<D65, T>); okhsl_c!(9, Lchuv<D65, T>); okhsl_c!(10, Hsluv<D65, T>); okhsl_c!(11, Yxy<D65, T>); okhsl_c!(12, Oklab<T>); okhsl_c!(13, Oklch<T>);
        okhsl_c!(14, Okhsl<T>); okhsl_c!(15, Okhsv<T>); okhsl_c!(16, Okhwb<T>);
        let tab: Tab<T> = Tab { cfg: "Rec2020-D65", names, f };
        // sources: sRGB-gamut colours (the Ok family's hue-saturation forms are shaped after the sRGB gamut) written as Rec2020
        let src: Vec<Vec<T>> = cube.iter().map(|c| into_array(<Rgb<Rec2020, T>>::from_color_unclamped(from_array::<Rgb<Srgb, T>>(arr(c)))).to_vec()).filter(|c: &Vec<T>| fin(c)).collect();
        eval_tab(out, &tab, 0, &src);
    }
    // CIE family at further white points: every ordered pair of the seven white-point-carrying types, sources pushed from Xyz<Wp>
    macro_rules! cie_wp { ($Wp:ty, $n:expr) => {{
        let tab: Tab<T> = Tab { cfg: $n, names: vec!["Xyz", "Yxy", "Lab", "Lch", "Luv", "Lchuv", "Hsluv"],
            f: table_full!(Xyz<$Wp, T>, Yxy<$Wp, T>, Lab<$Wp, T>, Lch<$Wp, T>, Luv<$Wp, T>, Lchuv<$Wp, T>, Hsluv<$Wp, T>) };
        // colours around the white point's neutral axis: the sRGB-cube colours as XYZ, scaled into the white point
        let w: [T; 3] = into_array(<Xyz<$Wp, T>>::from_color_unclamped(from_array::<Luma<Linear<$Wp>, T>>([<T as Fl>::of(1.0)])));
        let src: Vec<Vec<T>> = cube.iter().step_by(2).map(|c| { let x: [T; 3] = into_array(<Xyz<D65, T>>::from_color_unclamped(from_array::<Rgb<Srgb, T>>(arr(c))));
            vec![<T as Fl>::of(x[0].to64() / 0.95047 * w[0].to64()), x[1], <T as Fl>::of(x[2].to64() / 1.08883 * w[2].to64())] }).collect();
        eval_tab(out, &tab, 0, &src);
    }} }
    cie_wp!(WpA, "wp-A"); cie_wp!(E, "wp-E"); cie_wp!(F11, "wp-F11"); cie_wp!(D65Degree10, "wp-D65Degree10");

    // ---------------------------------------------------------------------------------------------------------------- Lms
    // Lms<M, T> is a member of the XYZ group: X <- Lms and Lms <- X are derived for every X (through Xyz<M::XyzMeta>), 34 impls
    macro_rules! lms_with { ($M:ty, $mn:expr, $X:ty, $xn:expr) => {{ {
        let okh = is_okh($xn); let t = if okh { if tag == "f32" { 6e-4 } else { 2e-6 } } else { if tag == "f32" { 2e-4 } else { 2e-6 } };   // XYZ distance, as c01.rs
        let key = format!("{}:{}:{}", $mn, $xn, tag);
        for c in cube.iter() {
            let rgb: [T; 3] = arr(c);
            let x = <$X>::from_color_unclamped(from_array::<Rgb<Srgb, T>>(rgb));
            let xa = into_array(x);
            if !fin(&xa) { out.count("cls:nonfinite-skipped"); continue; }
            let to_xyz = |v: $X| -> [T; 3] { into_array(<Xyz<D65, T>>::from_color_unclamped(v)) };
            let lms: [T; 3] = into_array(<Lms<$M, T>>::from_color_unclamped(x));
            let via: [T; 3] = into_array(<Lms<$M, T>>::from_color_unclamped(<Xyz<D65, T>>::from_color_unclamped(x)));
            // compare the two Lms values as XYZ
            let lx: [T; 3] = into_array(<Xyz<D65, T>>::from_color_unclamped(from_array::<Lms<$M, T>>(lms)));
            let vx: [T; 3] = into_array(<Xyz<D65, T>>::from_color_unclamped(from_array::<Lms<$M, T>>(via)));
            let edge = okh && blue_edge_f32(&into_array(Okhsl::<T>::from_color_unclamped(from_array::<Rgb<Srgb, T>>(rgb))));
            let pre = if edge { "ok-f32-blue-edge:" } else { "" };
            if fin(&lms) && fin(&via) { out.check(maxdiff(&lx, &vx) <= t, &format!("{}lms-commute-into:{}", pre, key), || format!("{} {:?}: direct Lms {:?}, via Xyz {:?}", $xn, xa, lms, via)); }
            let back = <$X>::from_color_unclamped(from_array::<Lms<$M, T>>(lms));
            let back_via = <$X>::from_color_unclamped(<Xyz<D65, T>>::from_color_unclamped(from_array::<Lms<$M, T>>(lms)));
            let (ba, bva) = (into_array(back), into_array(back_via));
            if fin(&ba) && fin(&bva) {
                let e = maxdiff(&to_xyz(back), &to_xyz(x));
                out.maxi(&format!("lms-roundtrip-xyz-err:{}", tag), e);
                out.check(e <= t, &format!("{}lms-roundtrip:{}", pre, key), || format!("{} {:?} -> Lms<{}> {:?} -> {:?} (XYZ distance {:e})", $xn, xa, $mn, lms, ba, e));
                out.check(maxdiff(&to_xyz(back), &to_xyz(back_via)) <= t, &format!("{}lms-commute-from:{}", pre, key), || format!("Lms<{}> {:?}: direct {} {:?}, via Xyz {:?}", $mn, lms, $xn, ba, bva));
            } else { out.count("cls:nonfinite-skipped"); }
            // alpha passes through the derived impls, bit for bit
            let al = <T as Fl>::of(0.37);
            let wa = <Alpha<Lms<$M, T>, T>>::from_color_unclamped(Alpha { color: x, alpha: al });
            let wb = <Alpha<$X, T>>::from_color_unclamped(Alpha { color: from_array::<Lms<$M, T>>(lms), alpha: al });
            out.check(bits_eq(&into_array(wa.color), &lms) && wa.alpha.bits64() == al.bits64() && bits_eq(&into_array(wb.color), &ba) && wb.alpha.bits64() == al.bits64(),
                &format!("lms-alpha-passthrough:{}", key), || format!("{} {:?} alpha {:?}: {:?} / {:?} vs {:?} / {:?}", $xn, xa, al, wa, wb, lms, ba));
        }
        out.count("cls:lms-type");
    } }} }
    macro_rules! lms_all { ($M:ty, $mn:expr) => { lms_with!($M, $mn, Xyz<D65, T>, "Xyz"); lms_with!($M, $mn, Rgb<Srgb, T>, "Rgb"); lms_with!($M, $mn, Hsl<Srgb, T>, "Hsl"); lms_with!($M, $mn, Hsluv<D65, T>, "Hsluv");
        lms_with!($M, $mn, Hsv<Srgb, T>, "Hsv"); lms_with!($M, $mn, Hwb<Srgb, T>, "Hwb"); lms_with!($M, $mn, Lab<D65, T>, "Lab"); lms_with!($M, $mn, Lch<D65, T>, "Lch"); lms_with!($M, $mn, Lchuv<D65, T>, "Lchuv");
        lms_with!($M, $mn, Luv<D65, T>, "Luv"); lms_with!($M, $mn, Oklab<T>, "Oklab"); lms_with!($M, $mn, Oklch<T>, "Oklch"); lms_with!($M, $mn, Okhsl<T>, "Okhsl"); lms_with!($M, $mn, Okhsv<T>, "Okhsv");
        lms_with!($M, $mn, Okhwb<T>, "Okhwb"); lms_with!($M, $mn, Yxy<D65, T>, "Yxy"); } }
    lms_all!(WithLmsMatrix<D65, Bradford>, "Bradford");
    lms_with!(WithLmsMatrix<D65, VonKries>, "VonKries", Xyz<D65, T>, "Xyz"); lms_with!(WithLmsMatrix<D65, VonKries>, "VonKries", Rgb<Srgb, T>, "Rgb"); lms_with!(WithLmsMatrix<D65, VonKries>, "VonKries", Lab<D65, T>, "Lab");
    lms_with!(WithLmsMatrix<D65, VonKries>, "VonKries", Okhsv<T>, "Okhsv");
    // Luma <- Lms, Lms <- Luma (single channel: only direct = via Xyz)
    for l in ls.iter().take(17) {
        let a: [T; 1] = [<T as Fl>::of(*l)];
        let d: [T; 3] = into_array(<Lms<WithLmsMatrix<D65, Bradford>, T>>::from_color_unclamped(from_array::<Luma<Srgb, T>>(a)));
        let v: [T; 3] = into_array(<Lms<WithLmsMatrix<D65, Bradford>, T>>::from_color_unclamped(<Xyz<D65, T>>::from_color_unclamped(from_array::<Luma<Srgb, T>>(a))));
        let back: [T; 1] = into_array(<Luma<Srgb, T>>::from_color_unclamped(from_array::<Lms<WithLmsMatrix<D65, Bradford>, T>>(d)));
        out.check(maxdiff(&d, &v) <= 10.0 * tol && maxdiff(&back, &a) <= 10.0 * tol, &format!("lms-luma:{}", tag), || format!("Luma {:?} -> Lms {:?} (via Xyz {:?}) -> Luma {:?}", a, d, v, back));
    }

    // ---------------------------------------------------------------------------------------------------------------- alpha forms
    // everything bit for bit against the plain conversion `B::from_color_unclamped(a)` (the property: attaching a transparency value
    // never changes the converted colour, and the transparency value itself comes out unchanged)
    macro_rules! alpha_pair { ($A:ty, $an:expr, $B:ty, $bn:expr) => {{
        let key = format!("{}->{}:{}", $an, $bn, tag);
        for (i, c) in cube.iter().enumerate().step_by(3) {
            let a: $A = <$A>::from_color_unclamped(from_array::<Rgb<Srgb, T>>(arr(c)));
            let plain = into_array(<$B>::from_color_unclamped(a));
            let al: T = <T as Fl>::of([0.0, 0.37, 1.0, 0.999][i % 4]);
            // derived `impl FromColorUnclamped<Alpha<_C, _A>> for B`: the alpha is dropped, for any alpha type
            let d1 = into_array(<$B>::from_color_unclamped(Alpha { color: a, alpha: al }));
            let d2 = into_array(<$B>::from_color_unclamped(Alpha { color: a, alpha: 200u8 }));
            let d3 = into_array(<$B>::from_color_unclamped(Alpha { color: a, alpha: 0.25 as $other }));
            out.check(bits_eq(&d1, &plain) && bits_eq(&d2, &plain) && bits_eq(&d3, &plain), &format!("alpha-dropped:{}", key), || format!("{:?}: plain {:?}, from Alpha {:?} / {:?} / {:?}", a, plain, d1, d2, d3));
            // `Alpha<B, T> <- A`: the conversion attaches an alpha, the colour is the plain conversion
            let e1 = <Alpha<$B, T>>::from_color_unclamped(a);
            let e2 = <Alpha<$B, u8>>::from_color_unclamped(a);
            out.check(bits_eq(&into_array(e1.color), &plain) && bits_eq(&into_array(e2.color), &plain), &format!("alpha-attached-by-conversion:{}", key), || format!("{:?}: plain {:?}, into Alpha {:?} / {:?}", a, plain, e1, e2));
            // `with_alpha` (derived per colour type), then the conversion, then `split` / `without_alpha` (Alpha's own impl)
            let w = a.with_alpha(al);
            let g = <Alpha<$B, T>>::from_color_unclamped(w);
            let (gc, ga) = g.split();
            let gw = into_array(g.without_alpha());
            out.check(bits_eq(&into_array(gc), &plain) && bits_eq(&gw, &plain) && ga.bits64() == al.bits64() && g.alpha.bits64() == al.bits64(), &format!("alpha-with-alpha:{}", key), || format!("{:?} with_alpha({:?}): {:?}, plain {:?}", a, al, g, plain));
            // `split` / `without_alpha` of a plain colour (derived): the colour unchanged
            let (pc, _pa): ($A, T) = a.split();
            let pw: $A = WithAlpha::<T>::without_alpha(a);
            out.check(bits_eq(&into_array(<$B>::from_color_unclamped(pc)), &plain) && bits_eq(&into_array(<$B>::from_color_unclamped(pw)), &plain), &format!("alpha-split-plain:{}", key), || format!("{:?}: split {:?}, without_alpha {:?}", a, pc, pw));
            // alpha of another component type, and the source-side entry point
            let h1 = <Alpha<$B, u8>>::from_color_unclamped(Alpha { color: a, alpha: 200u8 });
            let h2 = <Alpha<$B, $other>>::from_color_unclamped(a.with_alpha(0.25 as $other));
            let h3: Alpha<$B, T> = Alpha { color: a, alpha: al }.into_color_unclamped();
            let h4: Alpha<$B, u16> = a.with_alpha(40000u16).into_color_unclamped();
            out.check(bits_eq(&into_array(h1.color), &plain) && h1.alpha == 200 && bits_eq(&into_array(h2.color), &plain) && h2.alpha == 0.25 && bits_eq(&into_array(h3.color), &plain) && h3.alpha.bits64() == al.bits64()
                && bits_eq(&into_array(h4.color), &plain) && h4.alpha == 40000, &format!("alpha-other-type:{}", key), || format!("{:?}: plain {:?}; {:?} / {:?} / {:?} / {:?}", a, plain, h1, h2, h3, h4));
        }
        out.count("cls:alpha-pair");
    }} }
    macro_rules! alpha_to { ($B:ty, $bn:expr) => { alpha_pair!(Rgb<Srgb, T>, "Rgb", $B, $bn); alpha_pair!(Lab<D65, T>, "Lab", $B, $bn); alpha_pair!(Okhsv<T>, "Okhsv", $B, $bn); alpha_pair!(Hsluv<D65, T>, "Hsluv", $B, $bn); } }
    alpha_to!(Xyz<D65, T>, "Xyz"); alpha_to!(Rgb<Srgb, T>, "Rgb"); alpha_to!(Luma<Srgb, T>, "Luma"); alpha_to!(Hsl<Srgb, T>, "Hsl"); alpha_to!(Hsluv<D65, T>, "Hsluv"); alpha_to!(Hsv<Srgb, T>, "Hsv"); alpha_to!(Hwb<Srgb, T>, "Hwb");
    alpha_to!(Lab<D65, T>, "Lab"); alpha_to!(Lch<D65, T>, "Lch"); alpha_to!(Lchuv<D65, T>, "Lchuv"); alpha_to!(Luv<D65, T>, "Luv"); alpha_to!(Oklab<T>, "Oklab"); alpha_to!(Oklch<T>, "Oklch"); alpha_to!(Okhsl<T>, "Okhsl");
    alpha_to!(Okhsv<T>, "Okhsv"); alpha_to!(Yxy<D65, T>, "Yxy"); alpha_to!(Lms<WithLmsMatrix<D65, Bradford>, T>, "Lms");
    alpha_pair!(Rgb<Srgb, T>, "Rgb", Okhwb<T>, "Okhwb"); alpha_pair!(Lab<D65, T>, "Lab", Okhwb<T>, "Okhwb"); alpha_pair!(Hsluv<D65, T>, "Hsluv", Okhwb<T>, "Okhwb");   // (Okhwb <- Okhwb does not exist)
    // every colour type as the source of `with_alpha` / `split` (derived per type)
    macro_rules! alpha_from { ($A:ty, $an:expr) => { alpha_pair!($A, $an, Xyz<D65, T>, "Xyz"); } }
    alpha_from!(Xyz<D65, T>, "Xyz"); alpha_from!(Luma<Srgb, T>, "Luma"); alpha_from!(Hsl<Srgb, T>, "Hsl"); alpha_from!(Hsv<Srgb, T>, "Hsv"); alpha_from!(Hwb<Srgb, T>, "Hwb"); alpha_from!(Lch<D65, T>, "Lch");
    alpha_from!(Lchuv<D65, T>, "Lchuv"); alpha_from!(Luv<D65, T>, "Luv"); alpha_from!(Oklab<T>, "Oklab"); alpha_from!(Oklch<T>, "Oklch"); alpha_from!(Okhsl<T>, "Okhsl"); alpha_from!(Okhwb<T>, "Okhwb"); alpha_from!(Yxy<D65, T>, "Yxy");
    alpha_from!(Lms<WithLmsMatrix<D65, Bradford>, T>, "Lms"); alpha_from!(Rgb<AdobeRgb, T>, "Rgb<AdobeRgb>");

    // ---------------------------------------------------------------------------------------------------------------- entry points / forms
    macro_rules! forms { ($A:ty, $an:expr, $B:ty, $bn:expr, $C:ty) => {{
        let key = format!("{}->{}:{}", $an, $bn, tag);
        // (first and last element chromatic, not black / white: an element the conversion leaves as it is would hide a skipped element)
        let src: Vec<$A> = cube.iter().skip(27).step_by(2).chain(cube.iter().skip(30).take(1)).map(|c| <$A>::from_color_unclamped(from_array::<Rgb<Srgb, T>>(arr(c)))).collect();
        let plain: Vec<[T; 3]> = src.iter().map(|a| into_array(<$B>::from_color_unclamped(*a))).collect();
        let round: Vec<[T; 3]> = plain.iter().map(|d| into_array(<$A>::from_color_unclamped(from_array::<$B>(*d)))).collect();
        let same = |v: &[[T; 3]], w: &[[T; 3]]| v.len() == w.len() && v.iter().zip(w).all(|(p, q)| bits_eq(p, q));
        let arrs = |v: &[$B]| -> Vec<[T; 3]> { v.iter().map(|d| into_array(*d)).collect() };
        let arrs_a = |v: &[$A]| -> Vec<[T; 3]> { v.iter().map(|d| into_array(*d)).collect() };
        // IntoColorUnclamped (blanket), Vec and Box<[T]> forms of both traits
        let i1: Vec<[T; 3]> = src.iter().map(|a| { let d: $B = (*a).into_color_unclamped(); into_array(d) }).collect();
        out.check(same(&i1, &plain), &format!("form-into-color-unclamped:{}", key), || format!("into_color_unclamped differs from from_color_unclamped: {:?} vs {:?}", i1.iter().zip(&plain).find(|(p, q)| !bits_eq(*p, *q)), src.len()));
        let v1 = <Vec<$B>>::from_color_unclamped(src.clone());
        let v2: Vec<$B> = src.clone().into_color_unclamped();
        out.check(same(&arrs(&v1), &plain) && same(&arrs(&v2), &plain), &format!("form-vec:{}", key), || format!("Vec form differs from elementwise: {:?} / {:?} vs {:?}", arrs(&v1).first(), arrs(&v2).first(), plain.first()));
        let b1 = <Box<[$B]>>::from_color_unclamped(src.clone().into_boxed_slice());
        let b2: Box<[$B]> = src.clone().into_boxed_slice().into_color_unclamped();
        out.check(same(&arrs(&b1), &plain) && same(&arrs(&b2), &plain), &format!("form-box:{}", key), || format!("Box<[T]> form differs from elementwise: {:?} / {:?} vs {:?}", arrs(&b1).last(), arrs(&b2).last(), plain.last()));
        // in place, single colour: the guard shows B::from_color_unclamped(a); dropped or restore()d, the place holds A::from_color_unclamped of that
        let mut ok_view = true; let mut ok_drop = true; let mut ok_restore = true; let mut ok_into = true; let mut ok_then = true;
        let (mut bad_view, mut bad_drop, mut bad_restore, mut bad_into, mut bad_then) = (String::new(), String::new(), String::new(), String::new(), String::new());
        for (i, a) in src.iter().enumerate() {
            let mut p = *a;
            { let g = <$B>::from_color_unclamped_mut(&mut p); if !bits_eq(&into_array(*g), &plain[i]) { ok_view = false; bad_view = format!("{:?}: guard shows {:?}, conversion gives {:?}", a, *g, plain[i]); } }
            if !bits_eq(&into_array(p), &round[i]) { ok_drop = false; bad_drop = format!("{:?}: after drop {:?}, round trip gives {:?}", a, p, round[i]); }
            let mut p = *a;
            { let g = <$B>::from_color_unclamped_mut(&mut p); let r: &mut $A = g.restore(); if !bits_eq(&into_array(*r), &round[i]) { ok_restore = false; bad_restore = format!("{:?}: restore() gives {:?}, round trip gives {:?}", a, *r, round[i]); } }
            let mut p = *a;
            { let g = IntoColorUnclampedMut::<$B>::into_color_unclamped_mut(&mut p); if !bits_eq(&into_array(*g), &plain[i]) { ok_into = false; bad_into = format!("{:?}: into_color_unclamped_mut shows {:?}, conversion gives {:?}", a, *g, plain[i]); } }
            if !bits_eq(&into_array(p), &round[i]) { ok_into = false; bad_into = format!("{:?}: after into_color_unclamped_mut dropped {:?}, round trip gives {:?}", a, p, round[i]); }
            // chained: A -> B -> C in place, restored as A <- C
            let mut p = *a;
            let want_c = into_array(<$C>::from_color_unclamped(from_array::<$B>(plain[i])));
            { let g = <$B>::from_color_unclamped_mut(&mut p).then_into_color_unclamped_mut::<$C>(); if !bits_eq(&into_array(*g), &want_c) { ok_then = false; bad_then = format!("{:?}: chained guard shows {:?}, step by step {:?}", a, *g, want_c); } }
            let want_back = into_array(<$A>::from_color_unclamped(from_array::<$C>(want_c)));
            if !bits_eq(&into_array(p), &want_back) { ok_then = false; bad_then = format!("{:?}: after the chained guard dropped {:?}, A <- C gives {:?}", a, p, want_back); }
        }
        out.check(ok_view, &format!("form-mut-view:{}", key), || bad_view.clone());
        out.check(ok_drop, &format!("form-mut-dropped=roundtrip:{}", key), || bad_drop.clone());
        out.check(ok_restore, &format!("form-mut-restore=roundtrip:{}", key), || bad_restore.clone());
        out.check(ok_into, &format!("form-into-mut:{}", key), || bad_into.clone());
        out.check(ok_then, &format!("form-mut-then:{}", key), || bad_then.clone());
        // in place, slice
        let mut s = src.clone();
        { let g = <[$B]>::from_color_unclamped_mut(&mut s[..]); let seen = arrs(&*g); out.check(same(&seen, &plain), &format!("form-slice-mut-view:{}", key), || format!("slice guard shows {:?}, elementwise {:?}", seen.first(), plain.first())); }
        out.check(same(&arrs_a(&s), &round), &format!("form-slice-mut-dropped=roundtrip:{}", key), || format!("after drop {:?}, elementwise round trip {:?}", arrs_a(&s).first(), round.first()));
        let mut s = src.clone();
        { let g = <[$B]>::from_color_unclamped_mut(&mut s[..]); let r: &mut [$A] = g.restore(); let seen = arrs_a(r); out.check(same(&seen, &round), &format!("form-slice-mut-restore=roundtrip:{}", key), || format!("restore() gives {:?}, elementwise round trip {:?}", seen.last(), round.last())); }
        let mut s = src.clone();
        { let g = IntoColorUnclampedMut::<[$B]>::into_color_unclamped_mut(&mut s[..]); let seen = arrs(&*g); out.check(same(&seen, &plain), &format!("form-slice-into-mut:{}", key), || format!("slice guard shows {:?}, elementwise {:?}", seen.first(), plain.first())); }
        // the in-place round trip returns the original colour (the property's predicate on this entry point; encoded / native units, all types
        // here have components of order one or are compared relative to their range)
        out.count("cls:forms-pair");
    }} }
    forms!(Rgb<Srgb, T>, "Rgb", Lab<D65, T>, "Lab", Lch<D65, T>); forms!(Rgb<Srgb, T>, "Rgb", Hsl<Srgb, T>, "Hsl", Hsv<Srgb, T>); forms!(Rgb<Srgb, T>, "Rgb", Oklab<T>, "Oklab", Okhsv<T>);
    forms!(Lch<D65, T>, "Lch", Hwb<Srgb, T>, "Hwb", Xyz<D65, T>); forms!(Okhsl<T>, "Okhsl", Luv<D65, T>, "Luv", Hsluv<D65, T>); forms!(Yxy<D65, T>, "Yxy", Rgb<Linear<Srgb>, T>, "LinRgb", Lms<WithLmsMatrix<D65, Bradford>, T>);
    forms!(Hsv<Srgb, T>, "Hsv", Hsv<AdobeRgb, T>, "Hsv<AdobeRgb>", Xyz<D65, T>); forms!(Xyz<D65, T>, "Xyz", Oklch<T>, "Oklch", Okhwb<T>);
}
} }
more_t!(more_f32, f32, f64);
more_t!(more_f64, f64, f32);

pub fn run_more(out: &mut Out, rng: &mut Rng, tier: &str, routes: &Routes) {
    let n = if tier == "thorough" { 600 } else { 24 };
    boundary_t::<f32>(out, routes);
    boundary_t::<f64>(out, routes);
    more_f32(out, rng, n);
    more_f64(out, rng, n);
}
