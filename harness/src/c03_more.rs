//! C03, second part (coverage audit, see AUDIT_C03.md): the forms, entry points, component types and type parameters inside the
//! property's quantifier that `c03.rs` does not drive.  Every clause is the property's own predicate evaluated on the implementation:
//!
//!  * `Cam16<T>` (six fields, no `ArrayCast`; its own `impl_clamp!` / `impl_is_within_bounds!` invocation) - all clauses of `run_type`
//!    plus protocol lines for the model (`clamp Cam16@cam16/full.rs | 6 ..`, the key is in the extracted bounds table);
//!  * the six partial CAM16 types at f32 / f64 (`make_partial_cam16!` instantiates the macros once per type) - oracle only;
//!  * `[T]: IsWithinBounds` (lib.rs: the `&=` loop with the early `break`) - a clamped slice reports itself as within bounds, a slice
//!    that reports itself as within bounds is left unchanged, and the slice answer is the conjunction of the element answers (which
//!    is what the two clauses before amount to, element answers being checked by `c03.rs`);
//!  * `Alpha<C, A>` with an alpha type `A` that is not the colour's component type, `Alpha` around the HWB family, slices of `Alpha`;
//!  * integer components u32 / u64 / u128 (and u16 / u8 for the HWB family), non-default RGB standards, white points (the bounds of
//!    `Xyz<Wp>` are the white point's), luma standards and LMS matrices;
//!  * the trait entry points `IntoColor`, `TryIntoColor`, `IntoColorUnclamped` (single colours, `Vec`, `Box<[T]>`);
//!  * the in-place clamping conversions `FromColorMut` / `IntoColorMut` (single colour and `[T]`; guard dropped, `restore()`d,
//!    chained with `then_into_color_mut`);
//!  * the clamping conversion between `Alpha`-wrapped colours, into and out of `Alpha`;
//!  * SIMD component types (`wide` f32x4 / f32x8 / f64x2 / f64x4): mask, clamp and the slice forms lane by lane against the scalar forms (`run_simd`).
//!
//! Tolerances: none, everything is compared bit for bit (`Comp::same`: equal bits, or both zero - `f32::clamp(-0.0, 0.0, 1.0)` may return
//! either zero).  Conversions whose unclamped result contains a NaN are skipped as in `run_convert` (the property speaks of finite
//! components; clamping a NaN is outside it).
use crate::c03::{arr_txt, bounds_txt, run_convert, run_hwb, run_type, same_arr, Comp, B, EMIT};
use crate::common::*;
use palette::cast::{self, ArrayCast};
use palette::convert::{FromColorMut, FromColorUnclamped, IntoColorMut, IntoColorUnclamped, TryIntoColor};
use palette::luma::Luma;
use palette::rgb::Rgb;
use palette::{Alpha, Clamp, ClampAssign, FromColor, Hsl, Hsluv, Hsv, Hwb, IntoColor, IsWithinBounds, Lab, Lch, Lchuv, Luv, Okhsl, Okhsv, Okhwb, Oklab, Oklch, Xyz, Yxy};
use palette::num::{FromScalarArray, IntoScalarArray, PartialCmp};
use std::sync::atomic::Ordering::Relaxed;
use wide::{f32x4, f32x8, f64x2, f64x4};

fn finite<T: Comp>(a: &[T]) -> bool { a.iter().all(|x| x.partial_cmp(x).is_some()) }

/// component values that are inside some types' ranges and outside others' (no bounds table needed: the clauses below only compare forms)
pub trait Pool: Comp { fn pool(rng: &mut Rng) -> Vec<Self>; fn of(x: f64) -> Self; }
impl Pool for f32 {
    fn pool(rng: &mut Rng) -> Vec<f32> { vec![-1.0e6, -0.5, nudge32(0.0, -1), 0.0, nudge32(0.0, 1), 0.25, 0.5, nudge32(1.0, -1), 1.0, nudge32(1.0, 1), 1.5, 50.0, 100.0, nudge32(100.0, 1), 127.0, 180.0, 1.0e6, rng.unit() as f32, rng.range(-2.0, 3.0) as f32, rng.range(-200.0, 200.0) as f32] }
    fn of(x: f64) -> f32 { x as f32 }
}
impl Pool for f64 {
    fn pool(rng: &mut Rng) -> Vec<f64> { vec![-1.0e6, -0.5, nudge64(0.0, -1), 0.0, nudge64(0.0, 1), 0.25, 0.5, nudge64(1.0, -1), 1.0, nudge64(1.0, 1), 1.5, 50.0, 100.0, nudge64(100.0, 1), 127.0, 180.0, 1.0e6, rng.unit(), rng.range(-2.0, 3.0), rng.range(-200.0, 200.0)] }
    fn of(x: f64) -> f64 { x }
}
macro_rules! pool_int { ($($t:ty),+) => { $( impl Pool for $t {
    fn pool(rng: &mut Rng) -> Vec<$t> { vec![0, 1, <$t>::MAX / 2, <$t>::MAX - 1, <$t>::MAX, rng.next() as $t, rng.next() as $t] }
    fn of(x: f64) -> $t { (x.clamp(0.0, 1.0) * <$t>::MAX as f64) as $t }
} )+ } }
pool_int!(u8, u16, u32, u64, u128);

fn pool_colors<T: Pool, const N: usize>(rng: &mut Rng, n: usize) -> Vec<[T; N]> {
    let p = T::pool(rng);
    let mut v = vec![];
    for _ in 0..n { let mut a = [p[0]; N]; for x in a.iter_mut() { *x = *rng.pick(&p); } v.push(a); }
    // mostly-inside colours, so that in-bounds slices longer than one element exist for every type
    for _ in 0..n { let mut a = [p[0]; N]; for x in a.iter_mut() { *x = T::of(rng.range(0.05, 0.45)); } v.push(a); }
    v
}

/// `[C]: IsWithinBounds` and `[C]: ClampAssign` together (lib.rs), also through `Vec<C>` / `Box<[C]>` (auto-deref to the slice impl)
fn slice_forms<C, T: Pool, const N: usize>(out: &mut Out, rng: &mut Rng, key: &str, extra: &[[T; N]])
where C: ArrayCast<Array = [T; N]> + Clamp + IsWithinBounds<Mask = bool> + Clone, [C]: IsWithinBounds<Mask = bool> + ClampAssign {
    let tag = format!("{}:{}", key, T::TAG);
    let mut cols = pool_colors::<T, N>(rng, 60); cols.extend_from_slice(extra);
    let inside: Vec<[T; N]> = cols.iter().filter(|a| cast::from_array::<C>(**a).is_within_bounds()).cloned().collect();
    let outside: Vec<[T; N]> = cols.iter().filter(|a| !cast::from_array::<C>(**a).is_within_bounds()).cloned().collect();
    out.count_n(&format!("cls:slice-pool-inside:{}", T::TAG), inside.len() as u64); out.count_n(&format!("cls:slice-pool-outside:{}", T::TAG), outside.len() as u64);
    let mut slices: Vec<Vec<[T; N]>> = vec![vec![], cols.clone(), inside.clone()];
    for a in &cols { slices.push(vec![*a]); }
    // one out-of-bounds element first / in the middle / last among in-bounds ones, and two of them
    for o in outside.iter().take(12) {
        let k = inside.len().min(6);
        for pos in [0, k / 2, k] { let mut s: Vec<[T; N]> = inside.iter().take(k).cloned().collect(); s.insert(pos, *o); slices.push(s); }
        let mut s: Vec<[T; N]> = inside.iter().take(k).cloned().collect(); s.insert(0, *o); s.push(*o); slices.push(s);
    }
    for _ in 0..40 { let len = 1 + rng.below(5) as usize; slices.push((0..len).map(|_| *rng.pick(&cols)).collect()); }
    for s in &slices {
        let v: Vec<C> = s.iter().map(|a| cast::from_array(*a)).collect();
        let all = v.iter().all(|c| c.is_within_bounds());
        let sw = v.as_slice().is_within_bounds();
        out.count(if sw { "cls:slice-in-bounds" } else { "cls:slice-out-of-bounds" });
        // the slice answer is the conjunction of its elements' answers (otherwise one of the two clauses below fails for this very slice)
        out.check(sw == all, &format!("slice-within=all-elements:{}", tag), || format!("{:?}: slice says {}, elements say {}", s, sw, all));
        let boxed: Box<[C]> = v.clone().into_boxed_slice();
        out.check(v.is_within_bounds() == sw && boxed.is_within_bounds() == sw, &format!("vec-box-within=slice:{}", tag), || format!("{:?}", s));
        let mut cl = v.clone(); cl.as_mut_slice().clamp_assign();
        out.check(cl.as_slice().is_within_bounds(), &format!("slice-clamped-is-within:{}", tag), || format!("{:?} -> {:?}", s, cl.iter().map(|c| cast::into_array(c.clone())).collect::<Vec<[T; N]>>()));
        let after: Vec<[T; N]> = cl.iter().map(|c| cast::into_array(c.clone())).collect();
        if sw { out.check(after.iter().zip(s).all(|(x, y)| same_arr(x, y)), &format!("slice-in-bounds-unchanged:{}", tag), || format!("{:?} -> {:?}", s, after)); }
        let want: Vec<[T; N]> = v.iter().map(|c| cast::into_array(c.clone().clamp())).collect();
        out.check(after.iter().zip(&want).all(|(x, y)| same_arr(x, y)), &format!("slice-equals-map:{}", tag), || format!("{:?}: slice {:?}, element-wise {:?}", s, after, want));
        let mut again = cl.clone(); again.as_mut_slice().clamp_assign();
        let again: Vec<[T; N]> = again.into_iter().map(|c| cast::into_array(c)).collect();
        out.check(again.iter().zip(&after).all(|(x, y)| same_arr(x, y)), &format!("slice-idempotent:{}", tag), || format!("{:?}", s));
    }
}

/// `Alpha<C, A>` where `A` need not be the component type of `C`: colour and alpha are clamped separately, alpha to `[min_alpha(), max_alpha()]`
/// (the accessors are read at the concrete call site and passed in: no palette bound is restated here)
fn alpha_forms<C, T: Pool, A: Pool, const N: usize>(out: &mut Out, rng: &mut Rng, key: &str, amin: A, amax: A)
where C: ArrayCast<Array = [T; N]> + Clamp + IsWithinBounds<Mask = bool> + Clone, Alpha<C, A>: Clamp + ClampAssign + Clone, [Alpha<C, A>]: ClampAssign {
    let tag = format!("{}:{}+{}", key, T::TAG, A::TAG);
    let cols = pool_colors::<T, N>(rng, 40);
    let alphas: Vec<A> = { let mut v = A::around(amin, Some(amax), rng); v.extend(A::pool(rng)); v };
    let mut slice_in: Vec<Alpha<C, A>> = vec![]; let mut slice_want: Vec<([T; N], A)> = vec![];
    for (i, a) in cols.iter().enumerate() {
        let c: C = cast::from_array(*a);
        let want_c: [T; N] = cast::into_array(c.clone().clamp());
        for al in [alphas[i % alphas.len()], alphas[(i * 7 + 3) % alphas.len()], amin, amax] {
            let want_a = if al < amin { amin } else if al > amax { amax } else { al };
            let ac = Alpha { color: c.clone(), alpha: al };
            let r = ac.clone().clamp();
            let rc: [T; N] = cast::into_array(r.color.clone());
            out.check(same_arr(&rc, &want_c) && r.alpha.same(want_a), &format!("alpha-clamp:{}", tag), || format!("{:?} alpha {:?} -> {:?} alpha {:?}", a, al, rc, r.alpha));
            out.check(r.color.is_within_bounds() && amin <= r.alpha && r.alpha <= amax, &format!("alpha-clamped-is-within:{}", tag), || format!("{:?} alpha {:?} -> {:?} alpha {:?}", a, al, rc, r.alpha));
            if c.is_within_bounds() && amin <= al && al <= amax { out.check(same_arr(&rc, a) && r.alpha.same(al), &format!("alpha-in-bounds-unchanged:{}", tag), || format!("{:?} alpha {:?} -> {:?} alpha {:?}", a, al, rc, r.alpha)); out.count("cls:alpha-in-bounds"); }
            let r2 = r.clone().clamp(); let r2c: [T; N] = cast::into_array(r2.color);
            out.check(same_arr(&r2c, &rc) && r2.alpha.same(r.alpha), &format!("alpha-idempotent:{}", tag), || format!("{:?} alpha {:?}", a, al));
            let mut aa = ac.clone(); aa.clamp_assign(); let ra: [T; N] = cast::into_array(aa.color.clone());
            out.check(same_arr(&ra, &want_c) && aa.alpha.same(want_a), &format!("alpha-assign:{}", tag), || format!("{:?} alpha {:?} -> {:?} alpha {:?}", a, al, ra, aa.alpha));
            slice_in.push(ac); slice_want.push((want_c, want_a));
        }
    }
    slice_in.as_mut_slice().clamp_assign();
    for (r, (wc, wa)) in slice_in.into_iter().zip(slice_want) { let rc: [T; N] = cast::into_array(r.color); out.check(same_arr(&rc, &wc) && r.alpha.same(wa), &format!("alpha-slice-equals-map:{}", tag), || format!("{:?} {:?} vs {:?} {:?}", rc, r.alpha, wc, wa)); }
}

/// the trait entry points on the source side: `IntoColor`, `TryIntoColor`, `IntoColorUnclamped` (and the `Vec` / `Box<[T]>` forms of the first and last)
fn run_into<S, D, T: Comp>(out: &mut Out, key: &str, srcs: &[[T; 3]])
where S: ArrayCast<Array = [T; 3]> + Clone + IntoColor<D> + TryIntoColor<D> + IntoColorUnclamped<D>,
      D: ArrayCast<Array = [T; 3]> + FromColorUnclamped<S> + Clamp + IsWithinBounds<Mask = bool> + Clone,
      Vec<S>: IntoColor<Vec<D>> + IntoColorUnclamped<Vec<D>>, Box<[S]>: IntoColor<Box<[D]>> + IntoColorUnclamped<Box<[D]>> {
    let v: Vec<S> = srcs.iter().map(|s| cast::from_array(*s)).collect();
    let vi: Vec<D> = v.clone().into_color(); let vu: Vec<D> = v.clone().into_color_unclamped();
    let bi: Box<[D]> = v.clone().into_boxed_slice().into_color(); let bu: Box<[D]> = v.clone().into_boxed_slice().into_color_unclamped();
    for (i, s) in srcs.iter().enumerate() {
        let sc = v[i].clone();
        let u = D::from_color_unclamped(sc.clone());
        let ua: [T; 3] = cast::into_array(u.clone());
        if !finite(&ua) { out.count("cls:into-nan-skipped"); continue; }
        let iu: D = sc.clone().into_color_unclamped(); let iua: [T; 3] = cast::into_array(iu);
        out.check(same_arr(&iua, &ua), &format!("into-color-unclamped=from-color-unclamped:{}", key), || format!("{:?}: into {:?}, from {:?}", s, iua, ua));
        let want: [T; 3] = cast::into_array(u.clone().clamp());
        let ic: D = sc.clone().into_color(); let ica: [T; 3] = cast::into_array(ic);
        out.check(same_arr(&ica, &want), &format!("into-color=clamp∘unclamped:{}", key), || format!("{:?}: into_color {:?}, unclamped.clamp() {:?}", s, ica, want));
        let inb = u.is_within_bounds();
        let t: Result<D, _> = sc.clone().try_into_color();
        match t {
            Ok(x) => { let xa: [T; 3] = cast::into_array(x); out.check(inb && same_arr(&xa, &ua), &format!("try-into-ok-iff-within:{}", key), || format!("{:?}: Ok({:?}) but unclamped {:?} within={}", s, xa, ua, inb)); out.count("cls:try-into-ok"); }
            Err(e) => { let ea: [T; 3] = cast::into_array(e.color()); out.check(!inb && same_arr(&ea, &ua), &format!("try-into-err-iff-outside:{}", key), || format!("{:?}: Err({:?}) but unclamped {:?} within={}", s, ea, ua, inb)); out.count("cls:try-into-err"); }
        }
        let (a, b, c, d): ([T; 3], [T; 3], [T; 3], [T; 3]) = (cast::into_array(vi[i].clone()), cast::into_array(vu[i].clone()), cast::into_array(bi[i].clone()), cast::into_array(bu[i].clone()));
        out.check(same_arr(&a, &want), &format!("vec-into-color=elementwise:{}", key), || format!("{:?}: Vec form {:?}, single {:?}", s, a, want));
        out.check(same_arr(&c, &want), &format!("box-into-color=elementwise:{}", key), || format!("{:?}: Box<[T]> form {:?}, single {:?}", s, c, want));
        out.check(same_arr(&b, &ua), &format!("vec-into-color-unclamped=elementwise:{}", key), || format!("{:?}: Vec form {:?}, single {:?}", s, b, ua));
        out.check(same_arr(&d, &ua), &format!("box-into-color-unclamped=elementwise:{}", key), || format!("{:?}: Box<[T]> form {:?}, single {:?}", s, d, ua));
    }
    out.count("cls:into-entry-points");
}

/// the in-place clamping conversions: `D::from_color_mut(&mut S)` shows `clamp(unclamped(s))` through the guard and restores, when the guard is
/// dropped or `restore()`d, with the clamping conversion back (`clamp(unclamped(d))`); `[D]::from_color_mut(&mut [S])` does so element by element
fn run_mut<S, D, T: Comp>(out: &mut Out, key: &str, srcs: &[[T; 3]])
where S: ArrayCast<Array = [T; 3]> + FromColorUnclamped<D> + Clamp + Clone + FromColorMut<D> + IntoColorMut<D>,
      D: ArrayCast<Array = [T; 3]> + FromColorUnclamped<S> + Clamp + Clone + FromColorMut<S>,
      [S]: FromColorMut<[D]>, [D]: FromColorMut<[S]> {
    let mut ok_srcs: Vec<[T; 3]> = vec![]; let mut want_there: Vec<[T; 3]> = vec![]; let mut want_back: Vec<[T; 3]> = vec![];
    for s in srcs {
        let sc: S = cast::from_array(*s);
        let u = D::from_color_unclamped(sc.clone()); let ua: [T; 3] = cast::into_array(u.clone());
        if !finite(&ua) { out.count("cls:mut-nan-skipped"); continue; }
        let there = u.clamp(); let ta: [T; 3] = cast::into_array(there.clone());
        let ub = S::from_color_unclamped(there); let uba: [T; 3] = cast::into_array(ub.clone());
        if !finite(&uba) { out.count("cls:mut-nan-skipped"); continue; }
        let ba: [T; 3] = cast::into_array(ub.clamp());
        // guard dropped
        let mut x = sc.clone();
        { let g = D::from_color_mut(&mut x); let ga: [T; 3] = cast::into_array((*g).clone());
          out.check(same_arr(&ga, &ta), &format!("from-color-mut=clamp∘unclamped:{}", key), || format!("{:?}: guard shows {:?}, unclamped.clamp() {:?}", s, ga, ta)); }
        let xa: [T; 3] = cast::into_array(x);
        out.check(same_arr(&xa, &ba), &format!("from-color-mut-restored=clamp∘unclamped:{}", key), || format!("{:?}: restored {:?}, expected {:?}", s, xa, ba));
        // the source-side entry point, restore() called
        let mut y = sc.clone();
        let ra: [T; 3] = { let g = IntoColorMut::<D>::into_color_mut(&mut y); let ga: [T; 3] = cast::into_array((*g).clone());
          out.check(same_arr(&ga, &ta), &format!("into-color-mut=clamp∘unclamped:{}", key), || format!("{:?}: guard shows {:?}, unclamped.clamp() {:?}", s, ga, ta));
          cast::into_array(g.restore().clone()) };
        let ya: [T; 3] = cast::into_array(y);
        out.check(same_arr(&ra, &ba) && same_arr(&ya, &ba), &format!("into-color-mut-restored=clamp∘unclamped:{}", key), || format!("{:?}: restore() gave {:?}, left {:?}, expected {:?}", s, ra, ya, ba));
        ok_srcs.push(*s); want_there.push(ta); want_back.push(ba);
    }
    // slice form
    let mut v: Vec<S> = ok_srcs.iter().map(|s| cast::from_array(*s)).collect();
    { let g = <[D]>::from_color_mut(v.as_mut_slice());
      out.check(g.len() == ok_srcs.len(), &format!("slice-from-color-mut=elementwise:{}", key), || format!("length {} vs {}", g.len(), ok_srcs.len()));
      for (i, d) in g.iter().enumerate() { let da: [T; 3] = cast::into_array(d.clone()); out.check(same_arr(&da, &want_there[i]), &format!("slice-from-color-mut=elementwise:{}", key), || format!("element {} {:?}: guard shows {:?}, single {:?}", i, ok_srcs[i], da, want_there[i])); } }
    for (i, c) in v.into_iter().enumerate() { let ca: [T; 3] = cast::into_array(c); out.check(same_arr(&ca, &want_back[i]), &format!("slice-from-color-mut-restored=elementwise:{}", key), || format!("element {} {:?}: restored {:?}, single {:?}", i, ok_srcs[i], ca, want_back[i])); }
    out.count("cls:in-place-conversions");
}

/// `FromColorMutGuard::then_into_color_mut`: the chained in-place conversion S -> M -> D is again a clamping conversion at each step, and the
/// guard restores straight from D to S with the clamping conversion
/// (a macro, instantiated at concrete types: `then_into_color_mut` has bounds of its own, which a generic helper would have to restate)
macro_rules! run_mut_chain { ($out:expr, $key:expr, $srcs:expr, $S:ty, $M:ty, $D:ty, $T:ty) => {{
    type Src_ = $S; type Mid_ = $M; type Dst_ = $D; type Cmp_ = $T;
    let (out, key, srcs): (&mut Out, &str, &[[Cmp_; 3]]) = ($out, $key, $srcs);
    for s in srcs {
        let sc: Src_ = cast::from_array(*s);
        let m = Mid_::from_color_unclamped(sc.clone()); if !finite(&cast::into_array::<Mid_>(m.clone())) { continue; }
        let d = Dst_::from_color_unclamped(m.clamp()); if !finite(&cast::into_array::<Dst_>(d.clone())) { continue; }
        let d = d.clamp(); let da: [Cmp_; 3] = cast::into_array(d.clone());
        let b = Src_::from_color_unclamped(d); if !finite(&cast::into_array::<Src_>(b.clone())) { continue; }
        let ba: [Cmp_; 3] = cast::into_array(b.clamp());
        let mut x = sc.clone();
        { let g = Mid_::from_color_mut(&mut x).then_into_color_mut::<Dst_>(); let ga: [Cmp_; 3] = cast::into_array((*g).clone());
          out.check(same_arr(&ga, &da), &format!("then-into-color-mut=clamp∘unclamped:{}", key), || format!("{:?}: guard shows {:?}, step-wise clamp(unclamped) {:?}", s, ga, da)); }
        let xa: [Cmp_; 3] = cast::into_array(x);
        out.check(same_arr(&xa, &ba), &format!("then-into-color-mut-restored=clamp∘unclamped:{}", key), || format!("{:?}: restored {:?}, expected {:?}", s, xa, ba));
    }
    out.count("cls:in-place-chains");
}} }

/// the clamping conversion with `Alpha` on either side: it is the unclamped conversion of that form followed by `Alpha`'s / the colour's clamp
fn run_alpha_conv<S, D, T: Pool>(out: &mut Out, key: &str, srcs: &[[T; 3]], amin: T, amax: T)
where S: ArrayCast<Array = [T; 3]> + Clone, D: ArrayCast<Array = [T; 3]> + IsWithinBounds<Mask = bool> + Clamp + Clone,
      Alpha<D, T>: FromColor<Alpha<S, T>> + FromColorUnclamped<Alpha<S, T>> + FromColor<S> + FromColorUnclamped<S> + Clamp + Clone,
      Alpha<S, T>: IntoColor<Alpha<D, T>> + Clone, D: FromColor<Alpha<S, T>> + FromColorUnclamped<Alpha<S, T>> {
    let p = T::pool(&mut Rng::new(7));
    let alphas = [p[0], T::of(0.0), p[10], T::of(1.0), T::of(0.3), amin, amax];   // floats: p[0] = -1e6, p[10] = 1.5
    for (i, s) in srcs.iter().enumerate() {
        let al = alphas[i % alphas.len()];
        let sa = Alpha { color: cast::from_array::<S>(*s), alpha: al };
        let u: Alpha<D, T> = FromColorUnclamped::from_color_unclamped(sa.clone());
        let ua: [T; 3] = cast::into_array(u.color.clone());
        if !finite(&ua) || !finite(&[u.alpha]) { out.count("cls:alpha-conv-nan-skipped"); continue; }
        let w = u.clone().clamp(); let wa: [T; 3] = cast::into_array(w.color.clone());
        let f: Alpha<D, T> = FromColor::from_color(sa.clone()); let fa: [T; 3] = cast::into_array(f.color.clone());
        out.check(same_arr(&fa, &wa) && f.alpha.same(w.alpha), &format!("alpha-from-color=clamp∘unclamped:{}", key), || format!("{:?} alpha {:?}: from_color {:?} {:?}, unclamped.clamp() {:?} {:?}", s, al, fa, f.alpha, wa, w.alpha));
        out.check(f.color.is_within_bounds() && amin <= f.alpha && f.alpha <= amax, &format!("alpha-from-color-is-within:{}", key), || format!("{:?} alpha {:?} -> {:?} {:?}", s, al, fa, f.alpha));
        let g: Alpha<D, T> = sa.clone().into_color(); let ga: [T; 3] = cast::into_array(g.color.clone());
        out.check(same_arr(&ga, &wa) && g.alpha.same(w.alpha), &format!("alpha-into-color=clamp∘unclamped:{}", key), || format!("{:?} alpha {:?}: into_color {:?} {:?}, unclamped.clamp() {:?} {:?}", s, al, ga, g.alpha, wa, w.alpha));
        // plain -> Alpha
        let u2: Alpha<D, T> = FromColorUnclamped::from_color_unclamped(sa.color.clone()); let w2 = u2.clone().clamp(); let w2a: [T; 3] = cast::into_array(w2.color.clone());
        let f2: Alpha<D, T> = FromColor::from_color(sa.color.clone()); let f2a: [T; 3] = cast::into_array(f2.color.clone());
        out.check(same_arr(&f2a, &w2a) && f2.alpha.same(w2.alpha), &format!("plain-to-alpha-from-color=clamp∘unclamped:{}", key), || format!("{:?}: from_color {:?} {:?}, unclamped.clamp() {:?} {:?}", s, f2a, f2.alpha, w2a, w2.alpha));
        // Alpha -> plain
        let u3: D = FromColorUnclamped::from_color_unclamped(sa.clone()); let w3a: [T; 3] = cast::into_array(u3.clamp());
        let f3: D = FromColor::from_color(sa.clone()); let f3a: [T; 3] = cast::into_array(f3);
        out.check(same_arr(&f3a, &w3a), &format!("alpha-to-plain-from-color=clamp∘unclamped:{}", key), || format!("{:?} alpha {:?}: from_color {:?}, unclamped.clamp() {:?}", s, al, f3a, w3a));
    }
    out.count("cls:alpha-conversions");
}

/// `Cam16<T>`: six fields (hue third), no `ArrayCast`; all clauses of `run_type` on the struct itself
macro_rules! cam16_full { ($out:expr, $rng:expr, $t:ty, $nudge:ident, $huge:expr, $n_rand:expr) => {{
    use palette::cam16::Cam16; use palette::hues::Cam16Hue;
    type T = $t;
    let (out, rng): (&mut Out, &mut Rng) = ($out, $rng);
    let key = "Cam16@cam16/full.rs"; let tag = format!("{}:{}", key, <T as Comp>::TAG);
    // the invocation names `T::zero()` as lower bound of the five non-hue fields and no upper bound (there are no min_/max_ accessors on this type)
    let z: T = 0.0;
    let bounds: [B<T>; 6] = [B::Min(z), B::Min(z), B::Un, B::Min(z), B::Min(z), B::Min(z)];
    let mk = |a: [T; 6]| Cam16 { lightness: a[0], chroma: a[1], hue: Cam16Hue::new(a[2]), brightness: a[3], colorfulness: a[4], saturation: a[5] };
    let un = |c: Cam16<T>| -> [T; 6] { [c.lightness, c.chroma, c.hue.into_raw_degrees(), c.brightness, c.colorfulness, c.saturation] };
    let cls = |rng: &mut Rng| -> Vec<T> { vec![-1.0e6, $nudge(z, -1), z, $nudge(z, 1), rng.range(0.0, 150.0) as T, $huge] };
    let hues = |rng: &mut Rng| -> Vec<T> { vec![-1000.5, 0.0, 359.5, 1.0e6, rng.range(-720.0, 720.0) as T] };
    let mut cands: Vec<[T; 6]> = vec![];
    let per: Vec<Vec<T>> = (0..5).map(|_| cls(rng)).collect();
    for mut k in 0..(6usize.pow(5)) { let mut a = [z; 6]; for (j, i) in [0usize, 1, 3, 4, 5].iter().enumerate() { a[*i] = per[j][k % 6]; k /= 6; } let hs = hues(rng); a[2] = *rng.pick(&hs); cands.push(a); }
    for _ in 0..$n_rand { let mut a = [z; 6]; for i in [0usize, 1, 3, 4, 5] { a[i] = if rng.chance(0.7) { rng.range(0.0, 150.0) as T } else { { let cs = cls(rng); *rng.pick(&cs) } }; } let hs = hues(rng); a[2] = *rng.pick(&hs); cands.push(a); }
    let mut slice_in: Vec<Cam16<T>> = vec![]; let mut slice_want: Vec<[T; 6]> = vec![];
    for vs in &cands {
        let c = mk(*vs);
        let wb = c.is_within_bounds();
        let cl = c.clamp();
        let wa = cl.is_within_bounds();
        let arr = un(cl);
        out.case(&format!("clamp {} | 6 {} {} | {} {} {}", key, arr_txt(vs), bounds_txt(&bounds), arr_txt(&arr), wb as u8, wa as u8));
        out.count(if wb { "cls:in-bounds" } else { "cls:out-of-bounds" });
        out.check(wa, &format!("clamped-is-within:{}", tag), || format!("{:?} -> {:?}", vs, arr));
        if wb { out.check(same_arr(vs, &arr), &format!("in-bounds-unchanged:{}", tag), || format!("{:?} -> {:?}", vs, arr)); }
        let again = un(cl.clamp());
        out.check(same_arr(&arr, &again), &format!("idempotent:{}", tag), || format!("{:?} -> {:?} -> {:?}", vs, arr, again));
        for i in 0..6 { let ok = match bounds[i] { B::Both(l, h) => l <= arr[i] && arr[i] <= h, B::Min(l) => l <= arr[i], B::Un => arr[i].same(vs[i]) };
            out.check(ok, &format!("documented-bounds:{}", tag), || format!("component {} of {:?} -> {:?}, bounds {:?}", i, vs, arr, bounds[i])); }
        let wb_ref = (0..6).all(|i| match bounds[i] { B::Both(l, h) => l <= vs[i] && vs[i] <= h, B::Min(l) => l <= vs[i], B::Un => true });
        out.check(wb == wb_ref, &format!("within-matches-accessors:{}", tag), || format!("{:?}: is_within_bounds {} but the documented bounds say {}", vs, wb, wb_ref));
        let mut ca = c; ca.clamp_assign(); let arr_a = un(ca);
        out.check(same_arr(&arr, &arr_a), &format!("assign-equals-value:{}", tag), || format!("{:?}: clamp {:?} clamp_assign {:?}", vs, arr, arr_a));
        for a in [0.0 as T, 1.0, -0.5, 1.5, rng.unit() as T] {
            let ac = Alpha { color: c, alpha: a };
            let r = ac.clamp(); let rc = un(r.color);
            let a_want: T = if a < 0.0 { 0.0 } else if a > 1.0 { 1.0 } else { a };
            out.check(same_arr(&rc, &arr) && r.alpha.same(a_want), &format!("alpha-clamp:{}", tag), || format!("{:?} alpha {:?} -> {:?} alpha {:?}", vs, a, rc, r.alpha));
            out.check(r.color.is_within_bounds() && 0.0 <= r.alpha && r.alpha <= 1.0, &format!("alpha-clamped-is-within:{}", tag), || format!("{:?} alpha {:?}", vs, a));
            let mut aa = ac; aa.clamp_assign(); let ra = un(aa.color);
            out.check(same_arr(&ra, &arr) && aa.alpha.same(a_want), &format!("alpha-assign:{}", tag), || format!("{:?} alpha {:?}", vs, a));
        }
        slice_in.push(c); slice_want.push(arr);
    }
    // slice forms
    let sw_all = slice_in.iter().all(|c| c.is_within_bounds());
    out.check(slice_in.as_slice().is_within_bounds() == sw_all, &format!("slice-within=all-elements:{}", tag), || "whole candidate list".to_string());
    for chunk in slice_in.chunks(3).take(2000) {
        let all = chunk.iter().all(|c| c.is_within_bounds()); let sw = chunk.is_within_bounds();
        out.check(sw == all, &format!("slice-within=all-elements:{}", tag), || format!("{:?}: slice says {}, elements say {}", chunk, sw, all));
        let mut cl = chunk.to_vec(); cl.as_mut_slice().clamp_assign();
        out.check(cl.as_slice().is_within_bounds(), &format!("slice-clamped-is-within:{}", tag), || format!("{:?}", chunk));
        if sw { out.check(cl.iter().zip(chunk).all(|(x, y)| same_arr(&un(*x), &un(*y))), &format!("slice-in-bounds-unchanged:{}", tag), || format!("{:?}", chunk)); }
    }
    slice_in.as_mut_slice().clamp_assign();
    for (c, w) in slice_in.into_iter().zip(slice_want) { let a = un(c); out.check(same_arr(&a, &w), &format!("slice-equals-map:{}", tag), || format!("{:?} vs {:?}", a, w)); }
}} }

macro_rules! more_floats { ($out:expr, $rng:expr, $n:expr, $t:ty, $nudge:ident, $huge:expr) => {{
    use palette::encoding::{AdobeRgb, Linear, Rec2020, Srgb as S}; use palette::white_point::{A as WpA, D50, D65, E as WpE};
    use palette::cam16::{Cam16Jch, Cam16Jmh, Cam16Jsh, Cam16Qch, Cam16Qmh, Cam16Qsh, Cam16UcsJab, Cam16UcsJmh};
    use palette::lms::{matrix::{Bradford, VonKries}, Lms};
    type T = $t;
    let (out, rng, n): (&mut Out, &mut Rng, usize) = ($out, $rng, $n);
    cam16_full!(out, rng, $t, $nudge, $huge, n);
    // the six partial CAM16 types (the model's bounds table has no entry for them: oracle only, no protocol lines)
    EMIT.store(false, Relaxed);
    let z: T = 0.0;
    run_type::<Cam16Jch<T>, T, 3>(out, rng, "Cam16Jch@cam16/partial.rs", [B::Min(z), B::Min(z), B::Un], n);
    run_type::<Cam16Jmh<T>, T, 3>(out, rng, "Cam16Jmh@cam16/partial.rs", [B::Min(z), B::Min(z), B::Un], n);
    run_type::<Cam16Jsh<T>, T, 3>(out, rng, "Cam16Jsh@cam16/partial.rs", [B::Min(z), B::Min(z), B::Un], n);
    run_type::<Cam16Qch<T>, T, 3>(out, rng, "Cam16Qch@cam16/partial.rs", [B::Min(z), B::Min(z), B::Un], n);
    run_type::<Cam16Qmh<T>, T, 3>(out, rng, "Cam16Qmh@cam16/partial.rs", [B::Min(z), B::Min(z), B::Un], n);
    run_type::<Cam16Qsh<T>, T, 3>(out, rng, "Cam16Qsh@cam16/partial.rs", [B::Min(z), B::Min(z), B::Un], n);
    EMIT.store(true, Relaxed);
    // non-default type parameters (same generic impls; the bounds of Xyz are its white point's): with protocol lines
    macro_rules! rgbk { ($s:ty) => { run_type::<Rgb<$s, T>, T, 3>(out, rng, "Rgb@rgb/rgb.rs", [B::Both(Rgb::<$s, T>::min_red(), Rgb::<$s, T>::max_red()), B::Both(Rgb::<$s, T>::min_green(), Rgb::<$s, T>::max_green()), B::Both(Rgb::<$s, T>::min_blue(), Rgb::<$s, T>::max_blue())], n / 3); } }
    rgbk!(Linear<S>); rgbk!(AdobeRgb); rgbk!(Linear<Rec2020>);
    macro_rules! xyzk { ($w:ty) => { run_type::<Xyz<$w, T>, T, 3>(out, rng, "Xyz@xyz.rs", [B::Both(Xyz::<$w, T>::min_x(), Xyz::<$w, T>::max_x()), B::Both(Xyz::<$w, T>::min_y(), Xyz::<$w, T>::max_y()), B::Both(Xyz::<$w, T>::min_z(), Xyz::<$w, T>::max_z())], n / 3); } }
    xyzk!(D50); xyzk!(WpA); xyzk!(WpE);
    run_type::<Luma<Linear<D65>, T>, T, 1>(out, rng, "Luma@luma/luma.rs", [B::Both(Luma::<Linear<D65>, T>::min_luma(), Luma::<Linear<D65>, T>::max_luma())], n / 3);
    run_type::<Luma<Linear<D50>, T>, T, 1>(out, rng, "Luma@luma/luma.rs", [B::Both(Luma::<Linear<D50>, T>::min_luma(), Luma::<Linear<D50>, T>::max_luma())], n / 3);
    run_type::<Lab<D50, T>, T, 3>(out, rng, "Lab@lab.rs", [B::Both(Lab::<D50, T>::min_l(), Lab::<D50, T>::max_l()), B::Both(Lab::<D50, T>::min_a(), Lab::<D50, T>::max_a()), B::Both(Lab::<D50, T>::min_b(), Lab::<D50, T>::max_b())], n / 3);
    run_type::<Hsl<Linear<S>, T>, T, 3>(out, rng, "Hsl@hsl.rs", [B::Un, B::Both(Hsl::<Linear<S>, T>::min_saturation(), Hsl::<Linear<S>, T>::max_saturation()), B::Both(Hsl::<Linear<S>, T>::min_lightness(), Hsl::<Linear<S>, T>::max_lightness())], n / 3);
    run_type::<Hsv<AdobeRgb, T>, T, 3>(out, rng, "Hsv@hsv.rs", [B::Un, B::Both(Hsv::<AdobeRgb, T>::min_saturation(), Hsv::<AdobeRgb, T>::max_saturation()), B::Both(Hsv::<AdobeRgb, T>::min_value(), Hsv::<AdobeRgb, T>::max_value())], n / 3);
    run_type::<Lms<VonKries, T>, T, 3>(out, rng, "Lms@lms/lms.rs", [B::Min(Lms::<VonKries, T>::min_long()), B::Min(Lms::<VonKries, T>::min_medium()), B::Min(Lms::<VonKries, T>::min_short())], n / 3);
    run_hwb::<Hwb<Linear<S>, T>, T>(out, rng, "Hwb", 1.0, n, |x| x as T);
    run_hwb::<Hwb<AdobeRgb, T>, T>(out, rng, "Hwb", 1.0, n, |x| x as T);

    // [T]: IsWithinBounds / ClampAssign for every colour type with an array form
    macro_rules! sl { ($c:ty, $k:expr, $nn:literal) => { slice_forms::<$c, T, $nn>(out, rng, $k, &[]); } }
    sl!(Rgb<S, T>, "Rgb", 3); sl!(Luma<S, T>, "Luma", 1); sl!(Hsl<S, T>, "Hsl", 3); sl!(Hsv<S, T>, "Hsv", 3); sl!(Hwb<S, T>, "Hwb", 3); sl!(Lab<D65, T>, "Lab", 3); sl!(Lch<D65, T>, "Lch", 3);
    sl!(Luv<D65, T>, "Luv", 3); sl!(Lchuv<D65, T>, "Lchuv", 3); sl!(Hsluv<D65, T>, "Hsluv", 3); sl!(Xyz<D65, T>, "Xyz", 3); sl!(Xyz<D50, T>, "Xyz<D50>", 3); sl!(Yxy<D65, T>, "Yxy", 3); sl!(Lms<Bradford, T>, "Lms", 3);
    sl!(Oklab<T>, "Oklab", 3); sl!(Oklch<T>, "Oklch", 3); sl!(Okhsl<T>, "Okhsl", 3); sl!(Okhsv<T>, "Okhsv", 3); sl!(Okhwb<T>, "Okhwb", 3); sl!(Cam16UcsJab<T>, "Cam16UcsJab", 3); sl!(Cam16UcsJmh<T>, "Cam16UcsJmh", 3);
    sl!(Cam16Jch<T>, "Cam16Jch", 3); sl!(Cam16Jmh<T>, "Cam16Jmh", 3); sl!(Cam16Jsh<T>, "Cam16Jsh", 3); sl!(Cam16Qch<T>, "Cam16Qch", 3); sl!(Cam16Qmh<T>, "Cam16Qmh", 3); sl!(Cam16Qsh<T>, "Cam16Qsh", 3);

    // Alpha: alpha of another component type, Alpha around the HWB family and the CAM16 types
    macro_rules! al { ($c:ty, $a:ty, $k:expr, $nn:literal) => { alpha_forms::<$c, T, $a, $nn>(out, rng, $k, Alpha::<$c, $a>::min_alpha(), Alpha::<$c, $a>::max_alpha()); } }
    al!(Rgb<S, T>, u8, "Rgb", 3); al!(Rgb<S, T>, u16, "Rgb", 3); al!(Rgb<S, T>, f32, "Rgb", 3); al!(Rgb<S, T>, f64, "Rgb", 3); al!(Hsl<S, T>, f32, "Hsl", 3); al!(Hsl<S, T>, f64, "Hsl", 3); al!(Luma<S, T>, u8, "Luma", 1);
    al!(Lab<D65, T>, f32, "Lab", 3); al!(Lab<D65, T>, f64, "Lab", 3); al!(Lch<D65, T>, u32, "Lch", 3); al!(Oklch<T>, f32, "Oklch", 3); al!(Oklch<T>, f64, "Oklch", 3);
    al!(Hwb<S, T>, T, "Hwb", 3); al!(Hwb<S, T>, u8, "Hwb", 3); al!(Okhwb<T>, T, "Okhwb", 3); al!(Okhwb<T>, f32, "Okhwb", 3); al!(Okhwb<T>, f64, "Okhwb", 3);
    al!(Cam16Jch<T>, T, "Cam16Jch", 3); al!(Cam16Qsh<T>, u8, "Cam16Qsh", 3); al!(Cam16UcsJab<T>, T, "Cam16UcsJab", 3); al!(Lms<Bradford, T>, T, "Lms", 3);

    // conversions
    let mut srcs: Vec<[T; 3]> = vec![];
    for _ in 0..n { srcs.push([rng.range(-1.0, 2.0) as T, rng.range(-1.0, 2.0) as T, rng.range(-1.0, 2.0) as T]); srcs.push([rng.unit() as T, rng.unit() as T, rng.unit() as T]); }
    for a in [0.0, 1.0, -0.5, 1.5] { for b in [0.0, 1.0, 2.0] { for c in [0.0, 1.0, -1.0] { srcs.push([a as T, b as T, c as T]); } } }
    // hue-first sources for the cylindrical types: hues whole turns away, saturation / lightness around their ranges
    let mut hsrcs: Vec<[T; 3]> = vec![];
    for _ in 0..n { hsrcs.push([rng.range(-1080.0, 1080.0) as T, rng.range(-0.5, 1.5) as T, rng.range(-0.5, 1.5) as T]); hsrcs.push([rng.range(0.0, 360.0) as T, rng.unit() as T, rng.unit() as T]); }
    macro_rules! into { ($s:ty, $d:ty, $k:expr, $src:expr) => { run_into::<$s, $d, T>(out, concat!($k, ":", stringify!($t)), $src); } }
    into!(Rgb<S, T>, Hsl<S, T>, "Rgb->Hsl", &srcs); into!(Rgb<S, T>, Hsv<S, T>, "Rgb->Hsv", &srcs); into!(Rgb<S, T>, Hwb<S, T>, "Rgb->Hwb", &srcs); into!(Rgb<S, T>, Lab<D65, T>, "Rgb->Lab", &srcs);
    into!(Rgb<S, T>, Xyz<D65, T>, "Rgb->Xyz", &srcs); into!(Xyz<D65, T>, Rgb<S, T>, "Xyz->Rgb", &srcs); into!(Xyz<D65, T>, Yxy<D65, T>, "Xyz->Yxy", &srcs); into!(Xyz<D65, T>, Luv<D65, T>, "Xyz->Luv", &srcs);
    into!(Xyz<D65, T>, Lch<D65, T>, "Xyz->Lch", &srcs); into!(Xyz<D65, T>, Oklab<T>, "Xyz->Oklab", &srcs); into!(Rgb<S, T>, Okhsv<T>, "Rgb->Okhsv", &srcs); into!(Rgb<S, T>, Okhsl<T>, "Rgb->Okhsl", &srcs);
    into!(Rgb<S, T>, Okhwb<T>, "Rgb->Okhwb", &srcs); into!(Rgb<S, T>, Hsluv<D65, T>, "Rgb->Hsluv", &srcs); into!(Rgb<S, T>, Lchuv<D65, T>, "Rgb->Lchuv", &srcs); into!(Rgb<S, T>, Oklch<T>, "Rgb->Oklch", &srcs);
    into!(Hsl<S, T>, Rgb<S, T>, "Hsl->Rgb", &hsrcs); into!(Hsv<S, T>, Rgb<S, T>, "Hsv->Rgb", &hsrcs); into!(Lab<D65, T>, Rgb<S, T>, "Lab->Rgb", &srcs); into!(Hsv<S, T>, Hwb<S, T>, "Hsv->Hwb", &hsrcs);
    into!(Rgb<AdobeRgb, T>, Xyz<D65, T>, "Rgb<AdobeRgb>->Xyz", &srcs); into!(Xyz<D50, T>, Lab<D50, T>, "Xyz<D50>->Lab<D50>", &srcs); into!(Rgb<Linear<S>, T>, Hsl<Linear<S>, T>, "Rgb<Linear>->Hsl<Linear>", &srcs);
    // FromColor / TryFromColor with hue-first sources and non-default parameters (the clauses of `run_convert`)
    run_convert::<Hsl<S, T>, Rgb<S, T>, T, 3, 3>(out, concat!("Hsl->Rgb(turns):", stringify!($t)), &hsrcs); run_convert::<Hsv<S, T>, Hwb<S, T>, T, 3, 3>(out, concat!("Hsv->Hwb(turns):", stringify!($t)), &hsrcs);
    run_convert::<Hwb<S, T>, Hsv<S, T>, T, 3, 3>(out, concat!("Hwb->Hsv(turns):", stringify!($t)), &hsrcs); run_convert::<Okhsv<T>, Okhwb<T>, T, 3, 3>(out, concat!("Okhsv->Okhwb(turns):", stringify!($t)), &hsrcs);
    run_convert::<Rgb<AdobeRgb, T>, Xyz<D65, T>, T, 3, 3>(out, concat!("Rgb<AdobeRgb>->Xyz:", stringify!($t)), &srcs); run_convert::<Xyz<D50, T>, Lab<D50, T>, T, 3, 3>(out, concat!("Xyz<D50>->Lab<D50>:", stringify!($t)), &srcs);
    run_convert::<Xyz<D50, T>, Rgb<palette::encoding::ProPhotoRgb, T>, T, 3, 3>(out, concat!("Xyz<D50>->Rgb<ProPhoto>:", stringify!($t)), &srcs); run_convert::<Xyz<palette::white_point::Any, T>, Lms<Bradford, T>, T, 3, 3>(out, concat!("Xyz<Any>->Lms:", stringify!($t)), &srcs);
    run_convert::<Luma<S, T>, Rgb<S, T>, T, 1, 3>(out, concat!("Luma->Rgb:", stringify!($t)), &srcs.iter().map(|a| [a[0]]).collect::<Vec<_>>());
    // in-place conversions
    macro_rules! inplace { ($s:ty, $d:ty, $k:expr, $src:expr) => { run_mut::<$s, $d, T>(out, concat!($k, ":", stringify!($t)), $src); } }
    inplace!(Rgb<S, T>, Hsl<S, T>, "Rgb<->Hsl", &srcs); inplace!(Rgb<S, T>, Hwb<S, T>, "Rgb<->Hwb", &srcs); inplace!(Rgb<S, T>, Lab<D65, T>, "Rgb<->Lab", &srcs); inplace!(Rgb<S, T>, Xyz<D65, T>, "Rgb<->Xyz", &srcs);
    inplace!(Xyz<D65, T>, Rgb<S, T>, "Xyz<->Rgb", &srcs); inplace!(Hsv<S, T>, Rgb<S, T>, "Hsv<->Rgb", &hsrcs); inplace!(Rgb<S, T>, Okhsv<T>, "Rgb<->Okhsv", &srcs); inplace!(Xyz<D65, T>, Lch<D65, T>, "Xyz<->Lch", &srcs);
    run_mut_chain!(out, concat!("Rgb->Hsl->Hsv:", stringify!($t)), &srcs, Rgb<S, $t>, Hsl<S, $t>, Hsv<S, $t>, $t); run_mut_chain!(out, concat!("Rgb->Xyz->Lab:", stringify!($t)), &srcs, Rgb<S, $t>, Xyz<D65, $t>, Lab<D65, $t>, $t);
    run_mut_chain!(out, concat!("Hsv->Rgb->Hwb:", stringify!($t)), &hsrcs, Hsv<S, $t>, Rgb<S, $t>, Hwb<S, $t>, $t);
    // Alpha on either side
    macro_rules! aconv { ($s:ty, $d:ty, $k:expr, $src:expr) => { run_alpha_conv::<$s, $d, T>(out, concat!($k, ":", stringify!($t)), $src, Alpha::<$d, T>::min_alpha(), Alpha::<$d, T>::max_alpha()); } }
    aconv!(Rgb<S, T>, Hsl<S, T>, "Rgb->Hsl", &srcs); aconv!(Rgb<S, T>, Hwb<S, T>, "Rgb->Hwb", &srcs); aconv!(Rgb<S, T>, Lab<D65, T>, "Rgb->Lab", &srcs); aconv!(Xyz<D65, T>, Rgb<S, T>, "Xyz->Rgb", &srcs);
    aconv!(Hsv<S, T>, Rgb<S, T>, "Hsv->Rgb", &hsrcs); aconv!(Rgb<S, T>, Oklch<T>, "Rgb->Oklch", &srcs); aconv!(Xyz<D65, T>, Yxy<D65, T>, "Xyz->Yxy", &srcs); aconv!(Rgb<S, T>, Okhwb<T>, "Rgb->Okhwb", &srcs);
}} }

// ---- SIMD component types (`wide`: f32x4, f32x8, f64x2, f64x4) -------------------------------------------------------------------------
// The bounds contract lane by lane: the mask returned by `is_within_bounds` carries one answer per lane, `clamp` acts on every lane, and the
// slice form `[C<V>]: IsWithinBounds` is the lane-wise conjunction over the elements.  Every clause compares a vector form with the scalar
// form of the same colour type on the lane's own colour (covered by `c03.rs`), bit for bit (`Comp::same`); nothing but finite components.
pub trait SLane: Pool { fn nd(self, k: i32) -> Self; fn lane_bool(self) -> Option<bool>; fn to64(self) -> f64; }
impl SLane for f32 { fn nd(self, k: i32) -> f32 { nudge32(self, k) } fn to64(self) -> f64 { self as f64 }
    fn lane_bool(self) -> Option<bool> { match self.to_bits() { 0 => Some(false), u32::MAX => Some(true), _ => None } } }
impl SLane for f64 { fn nd(self, k: i32) -> f64 { nudge64(self, k as i64) } fn to64(self) -> f64 { self }
    fn lane_bool(self) -> Option<bool> { match self.to_bits() { 0 => Some(false), u64::MAX => Some(true), _ => None } } }

/// the operations under test, written out at the concrete types by `simd_c03!` (no palette bound is restated in `simd_forms`)
struct SimdOps<'a, CS, CV, V> {
    within_s: &'a dyn Fn(&CS) -> bool, clamp_s: &'a dyn Fn(CS) -> CS,
    within_v: &'a dyn Fn(&CV) -> V, clamp_v: &'a dyn Fn(CV) -> CV, assign_v: &'a dyn Fn(&mut CV),
    /// `None`: the slice form does not exist for this type (`Alpha<C, T>: IsWithinBounds` asks for `T: IsWithinBounds`, which no component type is)
    slice_within: &'a dyn Fn(&[CV]) -> Option<V>, slice_assign: &'a dyn Fn(&mut [CV]),
}

/// per component: (values inside the range: {exactly min, inside, exactly max}; values outside: {far below, 1 ulp below min, 1 ulp above max, far above})
fn simd_vals<T: SLane>(b: &B<T>, rng: &mut Rng) -> (Vec<T>, Vec<T>) {
    match b {
        B::Both(l, h) => { let mid = T::of(l.to64() + (h.to64() - l.to64()) * rng.range(0.02, 0.45));
            (vec![*l, mid, mid, *h], vec![T::of(-1.0e6), l.nd(-1), h.nd(1), T::of(1.0e6)]) }
        B::Min(l) => { let mid = T::of(l.to64() + 50.0 * rng.range(0.01, 1.0)); (vec![*l, mid, T::of(1.0e6)], vec![T::of(-1.0e6), l.nd(-1)]) }
        B::Un => (vec![T::of(-1000.5), T::of(0.0), T::of(359.5), T::of(1.0e6), T::of(rng.range(-720.0, 720.0))], vec![]),
    }
}

fn simd_forms<CS, CV, T: SLane, V: Copy, const N: usize, const NC: usize>(out: &mut Out, rng: &mut Rng, key: &str, vtag: &str, bounds: &[B<T>; NC], n: usize, ops: &SimdOps<CS, CV, V>)
where CS: ArrayCast<Array = [T; NC]> + Clone, CV: ArrayCast<Array = [V; NC]> + Clone, V: FromScalarArray<N, Scalar = T> + IntoScalarArray<N, Scalar = T> {
    use core::array::from_fn;
    let tag = format!("{}:{}", key, vtag);
    let pack = |l: &[[T; NC]; N]| -> CV { cast::from_array::<CV>(from_fn(|j| V::from_array(from_fn(|i| l[i][j])))) };
    let unpack = |c: &CV| -> [[T; NC]; N] { let a: [V; NC] = cast::into_array(c.clone()); let t: [[T; N]; NC] = a.map(|v| v.into_array()); from_fn(|i| from_fn(|j| t[j][i])) };
    let mask = |m: V| -> [Option<bool>; N] { m.into_array().map(|x| x.lane_bool()) };
    let sc = |l: &[T; NC]| -> CS { cast::from_array::<CS>(*l) };
    // one lane's colour: `inside` - every component from {min, inside, max} (retried until the scalar form reports it within bounds: the HWB sum);
    // otherwise every component an independent choice among all seven classes
    let lane = |rng: &mut Rng, inside: bool| -> [T; NC] {
        for _ in 0..40 {
            let a: [T; NC] = from_fn(|j| { let (i, o) = simd_vals(&bounds[j], rng); if inside || o.is_empty() { *rng.pick(&i) } else { let k = rng.below((i.len() + o.len()) as u64) as usize; if k < i.len() { i[k] } else { o[k - i.len()] } } });
            if !inside || (ops.within_s)(&sc(&a)) { return a; }
        }
        from_fn(|j| simd_vals(&bounds[j], rng).0[1])
    };
    // a lane colour with exactly one bounded component pushed out of its range (below / above, by one ulp / far)
    let lane_out = |rng: &mut Rng| -> [T; NC] {
        let mut a = lane(rng, true);
        let bounded: Vec<usize> = (0..NC).filter(|j| !matches!(bounds[*j], B::Un)).collect();
        let j = *rng.pick(&bounded); let (_, o) = simd_vals(&bounds[j], rng); a[j] = *rng.pick(&o); a
    };
    let mut pool: Vec<[[T; NC]; N]> = vec![];
    for i in 0..n { pool.push(match i % 4 { 0 => from_fn(|_| lane(rng, false)), 1 => from_fn(|_| { let ins = rng.chance(0.5); lane(rng, ins) }), 2 => from_fn(|_| if rng.chance(0.3) { lane_out(rng) } else { lane(rng, true) }), _ => from_fn(|_| lane(rng, true)) }); }
    // every lane on the same boundary value (white / black and their neighbours), and one lane of each class next to in-range lanes
    for j in 0..NC { let (i, o) = simd_vals(&bounds[j], rng); for v in i.iter().chain(o.iter()) { let base = lane(rng, true); let mut a = base; a[j] = *v; pool.push([a; N]); pool.push(from_fn(|k| if k == j % N { a } else { base })); } }
    for ls in &pool {
        let cv = pack(ls);
        let ws: [bool; N] = from_fn(|i| (ops.within_s)(&sc(&ls[i])));
        let wv = mask((ops.within_v)(&cv));
        for i in 0..N { out.count(if ws[i] { "cls:simd-lane-in-bounds" } else { "cls:simd-lane-out-of-bounds" });
            out.check(wv[i] == Some(ws[i]), &format!("simd-within-lane=scalar:{}", tag), || format!("lane {} of {:?}: scalar is_within_bounds {}, mask lane {:?} (None = neither all ones nor zero)", i, ls, ws[i], wv[i])); }
        let cl = (ops.clamp_v)(cv.clone()); let cla = unpack(&cl);
        let want: [[T; NC]; N] = from_fn(|i| cast::into_array((ops.clamp_s)(sc(&ls[i]))));
        for i in 0..N { out.check(same_arr(&cla[i], &want[i]), &format!("simd-clamp-lane=scalar:{}", tag), || format!("lane {} of {:?}: vector clamp {:?}, scalar clamp {:?}", i, ls, cla[i], want[i])); }
        let wa = mask((ops.within_v)(&cl));
        out.check(wa.iter().all(|x| *x == Some(true)), &format!("simd-clamped-is-within:{}", tag), || format!("{:?} -> {:?}: mask {:?}", ls, cla, wa));
        for i in 0..N { if wv[i] == Some(true) { out.check(same_arr(&cla[i], &ls[i]), &format!("simd-in-bounds-unchanged:{}", tag), || format!("lane {} of {:?} -> {:?}", i, ls, cla[i])); } }
        let again = unpack(&(ops.clamp_v)(cl.clone()));
        out.check((0..N).all(|i| same_arr(&again[i], &cla[i])), &format!("simd-idempotent:{}", tag), || format!("{:?} -> {:?} -> {:?}", ls, cla, again));
        let mut ca = cv.clone(); (ops.assign_v)(&mut ca); let caa = unpack(&ca);
        out.check((0..N).all(|i| same_arr(&caa[i], &cla[i])), &format!("simd-assign-equals-value:{}", tag), || format!("{:?}: clamp {:?}, clamp_assign {:?}", ls, cla, caa));
    }
    // slices: elements out of bounds in different lanes (first / middle / last), in-bounds elements around one out-of-bounds lane, random picks
    let el_in = |rng: &mut Rng| -> [[T; NC]; N] { from_fn(|_| lane(rng, true)) };
    let el_out = |rng: &mut Rng, k: usize| -> [[T; NC]; N] { let o = lane_out(rng); from_fn(|i| if i == k % N { o } else { lane(rng, true) }) };
    let mut slices: Vec<Vec<[[T; NC]; N]>> = vec![vec![]];
    for k in 0..N {
        slices.push(vec![el_out(rng, k), el_out(rng, k + 1), el_out(rng, k + 2)]);
        slices.push(vec![el_out(rng, k), el_in(rng), el_in(rng)]); slices.push(vec![el_in(rng), el_out(rng, k), el_in(rng)]); slices.push(vec![el_in(rng), el_in(rng), el_out(rng, k)]);
        slices.push(vec![el_out(rng, k), el_in(rng), el_out(rng, k + 1)]); slices.push(vec![el_in(rng), el_in(rng), el_in(rng)]);
        slices.push((0..N + 1).map(|i| el_out(rng, k + i)).collect());
    }
    for _ in 0..(n / 4).max(20) { let len = 1 + rng.below(5) as usize; slices.push((0..len).map(|_| *rng.pick(&pool)).collect()); }
    for s in &slices {
        let v: Vec<CV> = s.iter().map(|l| pack(l)).collect();
        let want_mask: [bool; N] = from_fn(|i| s.iter().all(|l| (ops.within_s)(&sc(&l[i]))));
        if let Some(m) = (ops.slice_within)(v.as_slice()) { let m = mask(m);
            out.count(if want_mask.iter().all(|x| *x) { "cls:simd-slice-in-bounds" } else if want_mask.iter().any(|x| *x) { "cls:simd-slice-mixed-lanes" } else { "cls:simd-slice-out-of-bounds" });
            out.check((0..N).all(|i| m[i] == Some(want_mask[i])), &format!("simd-slice-within=and-of-elements:{}", tag), || format!("{:?}: slice mask {:?}, lane-wise conjunction of the elements' scalar answers {:?}", s, m, want_mask)); }
        let mut cl = v.clone(); (ops.slice_assign)(cl.as_mut_slice());
        let after: Vec<[[T; NC]; N]> = cl.iter().map(|c| unpack(c)).collect();
        let want: Vec<[[T; NC]; N]> = v.iter().map(|c| unpack(&(ops.clamp_v)(c.clone()))).collect();
        out.check(after.len() == want.len() && after.iter().zip(&want).all(|(x, y)| (0..N).all(|i| same_arr(&x[i], &y[i]))), &format!("simd-slice-equals-map:{}", tag), || format!("{:?}: slice {:?}, element-wise {:?}", s, after, want));
        if let Some(m) = (ops.slice_within)(cl.as_slice()) { let m = mask(m);
            out.check(m.iter().all(|x| *x == Some(true)), &format!("simd-slice-clamped-is-within:{}", tag), || format!("{:?} -> {:?}: mask {:?}", s, after, m)); }
    }
}

/// one colour type at one vector type; `$CS` / `$CV` are the scalar and the vector colour, `$sw` says whether `[$CV]: IsWithinBounds` exists
macro_rules! simd_c03 {
    ($out:expr, $rng:expr, $n:expr, $key:expr, $vtag:expr, $CS:ty, $CV:ty, $T:ty, $V:ty, $N:literal, $NC:literal, $bounds:expr, within |$c:ident| $ws:expr, $wv:expr, slice |$s:ident| $sw:expr) => {{
        let ops: SimdOps<$CS, $CV, $V> = SimdOps {
            within_s: &|$c: &$CS| $ws, clamp_s: &|c: $CS| c.clamp(),
            within_v: &|$c: &$CV| $wv, clamp_v: &|c: $CV| c.clamp(), assign_v: &|c: &mut $CV| c.clamp_assign(),
            slice_within: &|$s: &[$CV]| $sw, slice_assign: &|s: &mut [$CV]| s.clamp_assign(),
        };
        let b: [B<$T>; $NC] = $bounds;
        simd_forms::<$CS, $CV, $T, $V, $N, $NC>($out, $rng, $key, $vtag, &b, $n, &ops);
    }};
}

macro_rules! simd_all { ($out:expr, $rng:expr, $n:expr, $T:ty, $V:ty, $N:literal, $vtag:expr) => {{
    use palette::encoding::Srgb as S; use palette::white_point::D65;
    type T = $T; type V = $V;
    let (out, rng, n): (&mut Out, &mut Rng, usize) = ($out, $rng, $n);
    macro_rules! plain { ($k:expr, $cs:ty, $cv:ty, $nc:literal, $b:expr) => { simd_c03!(out, rng, n, $k, $vtag, $cs, $cv, T, V, $N, $nc, $b, within |c| c.is_within_bounds(), c.is_within_bounds(), slice |s| Some(s.is_within_bounds())); } }
    // Okhsv widens its upper bounds by 1e-6 (see c03.rs)
    let slack: T = 1e-6;
    plain!("Rgb", Rgb<S, T>, Rgb<S, V>, 3, [B::Both(Rgb::<S, T>::min_red(), Rgb::<S, T>::max_red()), B::Both(Rgb::<S, T>::min_green(), Rgb::<S, T>::max_green()), B::Both(Rgb::<S, T>::min_blue(), Rgb::<S, T>::max_blue())]);
    plain!("Luma", Luma<S, T>, Luma<S, V>, 1, [B::Both(Luma::<S, T>::min_luma(), Luma::<S, T>::max_luma())]);
    plain!("Hsv", Hsv<S, T>, Hsv<S, V>, 3, [B::Un, B::Both(Hsv::<S, T>::min_saturation(), Hsv::<S, T>::max_saturation()), B::Both(Hsv::<S, T>::min_value(), Hsv::<S, T>::max_value())]);
    plain!("Hsl", Hsl<S, T>, Hsl<S, V>, 3, [B::Un, B::Both(Hsl::<S, T>::min_saturation(), Hsl::<S, T>::max_saturation()), B::Both(Hsl::<S, T>::min_lightness(), Hsl::<S, T>::max_lightness())]);
    plain!("Hwb", Hwb<S, T>, Hwb<S, V>, 3, [B::Un, B::Both(Hwb::<S, T>::min_whiteness(), Hwb::<S, T>::max_whiteness()), B::Both(Hwb::<S, T>::min_blackness(), Hwb::<S, T>::max_blackness())]);
    plain!("Lab", Lab<D65, T>, Lab<D65, V>, 3, [B::Both(Lab::<D65, T>::min_l(), Lab::<D65, T>::max_l()), B::Both(Lab::<D65, T>::min_a(), Lab::<D65, T>::max_a()), B::Both(Lab::<D65, T>::min_b(), Lab::<D65, T>::max_b())]);
    plain!("Lch", Lch<D65, T>, Lch<D65, V>, 3, [B::Both(Lch::<D65, T>::min_l(), Lch::<D65, T>::max_l()), B::Min(Lch::<D65, T>::min_chroma()), B::Un]);
    plain!("Xyz", Xyz<D65, T>, Xyz<D65, V>, 3, [B::Both(Xyz::<D65, T>::min_x(), Xyz::<D65, T>::max_x()), B::Both(Xyz::<D65, T>::min_y(), Xyz::<D65, T>::max_y()), B::Both(Xyz::<D65, T>::min_z(), Xyz::<D65, T>::max_z())]);
    plain!("Oklab", Oklab<T>, Oklab<V>, 3, [B::Both(Oklab::<T>::min_l(), Oklab::<T>::max_l()), B::Un, B::Un]);
    plain!("Okhsv", Okhsv<T>, Okhsv<V>, 3, [B::Un, B::Both(Okhsv::<T>::min_saturation(), Okhsv::<T>::max_saturation() + slack), B::Both(Okhsv::<T>::min_value(), Okhsv::<T>::max_value() + slack)]);
    // Alpha<Rgb>: no `IsWithinBounds` of its own to call (it asks for `T: IsWithinBounds`); "within" = the colour's answer and the alpha between the accessors
    simd_c03!(out, rng, n, "Alpha<Rgb>", $vtag, Alpha<Rgb<S, T>, T>, Alpha<Rgb<S, V>, V>, T, V, $N, 4,
        [B::Both(Rgb::<S, T>::min_red(), Rgb::<S, T>::max_red()), B::Both(Rgb::<S, T>::min_green(), Rgb::<S, T>::max_green()), B::Both(Rgb::<S, T>::min_blue(), Rgb::<S, T>::max_blue()), B::Both(Alpha::<Rgb<S, T>, T>::min_alpha(), Alpha::<Rgb<S, T>, T>::max_alpha())],
        within |c| c.color.is_within_bounds() && Alpha::<Rgb<S, T>, T>::min_alpha() <= c.alpha && c.alpha <= Alpha::<Rgb<S, T>, T>::max_alpha(),
               c.color.is_within_bounds() & PartialCmp::gt_eq(&c.alpha, &Alpha::<Rgb<S, V>, V>::min_alpha()) & PartialCmp::lt_eq(&c.alpha, &Alpha::<Rgb<S, V>, V>::max_alpha()),
        slice |_s| None);
}} }

fn run_simd(out: &mut Out, rng: &mut Rng, tier: &str) {
    let n = if tier == "thorough" { 4000 } else { 240 };
    simd_all!(out, rng, n, f32, f32x4, 4, "f32x4");
    simd_all!(out, rng, n, f32, f32x8, 8, "f32x8");
    simd_all!(out, rng, n, f64, f64x2, 2, "f64x2");
    simd_all!(out, rng, n, f64, f64x4, 4, "f64x4");
}

pub fn run_more(out: &mut Out, rng: &mut Rng, tier: &str) {
    let n = if tier == "thorough" { 3000 } else { 240 };
    more_floats!(out, rng, n, f32, nudge32, 3.0e38);
    more_floats!(out, rng, n, f64, nudge64, 1.0e300);
    {
        use palette::encoding::{Linear, Srgb as S}; use palette::lms::{matrix::Bradford, Lms}; use palette::white_point::D65;
        // integer components beyond u8 / u16 (with protocol lines: the driver compares integers as naturals)
        macro_rules! ints { ($t:ty) => {{
            run_type::<Rgb<S, $t>, $t, 3>(out, rng, "Rgb@rgb/rgb.rs", [B::Both(Rgb::<S, $t>::min_red(), Rgb::<S, $t>::max_red()), B::Both(Rgb::<S, $t>::min_green(), Rgb::<S, $t>::max_green()), B::Both(Rgb::<S, $t>::min_blue(), Rgb::<S, $t>::max_blue())], n / 3);
            run_type::<Rgb<Linear<S>, $t>, $t, 3>(out, rng, "Rgb@rgb/rgb.rs", [B::Both(Rgb::<Linear<S>, $t>::min_red(), Rgb::<Linear<S>, $t>::max_red()), B::Both(Rgb::<Linear<S>, $t>::min_green(), Rgb::<Linear<S>, $t>::max_green()), B::Both(Rgb::<Linear<S>, $t>::min_blue(), Rgb::<Linear<S>, $t>::max_blue())], n / 3);
            run_type::<Luma<S, $t>, $t, 1>(out, rng, "Luma@luma/luma.rs", [B::Both(Luma::<S, $t>::min_luma(), Luma::<S, $t>::max_luma())], n / 3);
            run_type::<Lms<Bradford, $t>, $t, 3>(out, rng, "Lms@lms/lms.rs", [B::Min(Lms::<Bradford, $t>::min_long()), B::Min(Lms::<Bradford, $t>::min_medium()), B::Min(Lms::<Bradford, $t>::min_short())], n / 3);
            slice_forms::<Rgb<S, $t>, $t, 3>(out, rng, "Rgb", &[]); slice_forms::<Luma<S, $t>, $t, 1>(out, rng, "Luma", &[]); slice_forms::<Lms<Bradford, $t>, $t, 3>(out, rng, "Lms", &[]);
            alpha_forms::<Rgb<S, $t>, $t, f32, 3>(out, rng, "Rgb", Alpha::<Rgb<S, $t>, f32>::min_alpha(), Alpha::<Rgb<S, $t>, f32>::max_alpha());
            alpha_forms::<Rgb<S, $t>, $t, f64, 3>(out, rng, "Rgb", Alpha::<Rgb<S, $t>, f64>::min_alpha(), Alpha::<Rgb<S, $t>, f64>::max_alpha());
            alpha_forms::<Rgb<S, $t>, $t, u8, 3>(out, rng, "Rgb", Alpha::<Rgb<S, $t>, u8>::min_alpha(), Alpha::<Rgb<S, $t>, u8>::max_alpha());
            alpha_forms::<Luma<S, $t>, $t, $t, 1>(out, rng, "Luma", Alpha::<Luma<S, $t>, $t>::min_alpha(), Alpha::<Luma<S, $t>, $t>::max_alpha());
        }} }
        ints!(u32); ints!(u64); ints!(u128);
        // the remaining forms at u8 / u16 (plain forms are in c03.rs)
        slice_forms::<Rgb<S, u8>, u8, 3>(out, rng, "Rgb", &[]); slice_forms::<Rgb<S, u16>, u16, 3>(out, rng, "Rgb", &[]); slice_forms::<Luma<S, u8>, u8, 1>(out, rng, "Luma", &[]);
        alpha_forms::<Rgb<S, u8>, u8, f32, 3>(out, rng, "Rgb", Alpha::<Rgb<S, u8>, f32>::min_alpha(), Alpha::<Rgb<S, u8>, f32>::max_alpha());
        alpha_forms::<Rgb<S, u8>, u8, f64, 3>(out, rng, "Rgb", Alpha::<Rgb<S, u8>, f64>::min_alpha(), Alpha::<Rgb<S, u8>, f64>::max_alpha());
        alpha_forms::<Rgb<S, u8>, u8, u16, 3>(out, rng, "Rgb", Alpha::<Rgb<S, u8>, u16>::min_alpha(), Alpha::<Rgb<S, u8>, u16>::max_alpha());
        alpha_forms::<Rgb<S, u16>, u16, f32, 3>(out, rng, "Rgb", Alpha::<Rgb<S, u16>, f32>::min_alpha(), Alpha::<Rgb<S, u16>, f32>::max_alpha());
        alpha_forms::<Luma<S, u8>, u8, f32, 1>(out, rng, "Luma", Alpha::<Luma<S, u8>, f32>::min_alpha(), Alpha::<Luma<S, u8>, f32>::max_alpha());
        alpha_forms::<Luma<S, u16>, u16, u16, 1>(out, rng, "Luma", Alpha::<Luma<S, u16>, u16>::min_alpha(), Alpha::<Luma<S, u16>, u16>::max_alpha());
        // the HWB family at the integer types (the model has no integer HWB arithmetic: oracle only)
        EMIT.store(false, Relaxed);
        run_hwb::<Hwb<S, u16>, u16>(out, rng, "Hwb", u16::MAX, n, |x| (x.clamp(0.0, 1.0) * 65535.0) as u16);
        run_hwb::<Hwb<S, u32>, u32>(out, rng, "Hwb", u32::MAX, n, |x| (x.clamp(0.0, 1.0) * 4294967295.0) as u32);
        run_hwb::<Okhwb<u8>, u8>(out, rng, "Okhwb", u8::MAX, n, |x| (x.clamp(0.0, 1.0) * 255.0) as u8);
        run_hwb::<Okhwb<u16>, u16>(out, rng, "Okhwb", u16::MAX, n, |x| (x.clamp(0.0, 1.0) * 65535.0) as u16);
        run_type::<palette::cam16::Cam16Qmh<u16>, u16, 3>(out, rng, "Cam16Qmh@cam16/partial.rs", [B::Min(0u16), B::Min(0u16), B::Un], n / 3);
        EMIT.store(true, Relaxed);
        slice_forms::<Hwb<S, u8>, u8, 3>(out, rng, "Hwb", &[]); slice_forms::<Okhwb<u16>, u16, 3>(out, rng, "Okhwb", &[]);
    }
    // SIMD component types, last (the case stream and the random stream above are unchanged)
    run_simd(out, rng, tier);
}
