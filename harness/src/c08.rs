//! C08 — blending and compositing follow the W3C formulas and Porter-Duff identities.
//!
//! Correspondence: every case is one call of the real `Blend` / `Compose` / `BlendWith` / `Premultiply` API on a colour built
//! from a cast array; the line carries the inputs exactly as the API received them and the outputs as bit patterns.
//! Oracle: the W3C Compositing and Blending Level 1 formulas, written here independently in `f64`, and the property's
//! identities, evaluated on the implementation's outputs.
//!
//! Tolerance (`tol::<T>() = 16 eps(T)`, "a few ulps of 1"): on the property's domain every quantity is in [0,1]; the
//! premultiplied result is a sum of three non-negative products (no cancellation) computed with ≤ 10 roundings, the
//! per-mode function adds ≤ 6 roundings of quantities ≤ 4 (soft-light polynomial), the result alpha 3 roundings, and
//! un-premultiplication divides a numerator ≤ alpha_o by alpha_o (the relative errors add, the absolute error stays ≤ the
//! relative one).  That is ≤ 16 eps in total (observed: ≤ 2.5 eps, recorded in the evidence as `dev/eps:*`).  For `f64` the oracle's own `f64` evaluation is
//! inside the same budget.  `PreAlpha` inputs: the implementation recovers the straight colour as `c_pre / alpha`, one
//! more rounding *of the argument* of the per-mode function; there the budget is widened by the variation of the W3C
//! function over the ±4-ulp box around the recovered colour (only matters next to the dodge/burn discontinuities).
use crate::common::*;
use palette::blend::{Blend, BlendWith, Compose, Equation, Equations, Parameter, Parameters, PreAlpha, Premultiply};
use palette::cast::{self, ArrayCast};
use palette::Alpha;

pub trait Fx: Fl + PartialEq {
    fn tiny() -> Self;      // smallest normal
    fn subnormal() -> Self; // a subnormal alpha (is_valid_divisor = false although non-zero)
    fn is_norm(self) -> bool;
    fn one() -> Self { Self::of(1.0) }
    fn zero() -> Self { Self::of(0.0) }
}
impl Fx for f32 {
    fn tiny() -> f32 { f32::MIN_POSITIVE }
    fn subnormal() -> f32 { f32::from_bits(0x0004_0000) }
    fn is_norm(self) -> bool { self.is_normal() }
}
impl Fx for f64 {
    fn tiny() -> f64 { f64::MIN_POSITIVE }
    fn subnormal() -> f64 { f64::from_bits(0x0000_4000_0000_0000) }
    fn is_norm(self) -> bool { self.is_normal() }
}
fn tol<T: Fx>() -> f64 { 16.0 * T::eps() }

pub const MODES: [&str; 11] = ["multiply", "screen", "overlay", "darken", "lighten", "dodge", "burn", "hard_light", "soft_light", "difference", "exclusion"];
pub const SYM_MODES: [&str; 6] = ["multiply", "screen", "darken", "lighten", "difference", "exclusion"];
pub const OPS: [&str; 6] = ["over", "inside", "outside", "atop", "xor", "plus"];
pub const SYM_OPS: [&str; 2] = ["xor", "plus"];

// ------------------------------------------------------------------------------------------------
// The specification, written from the W3C text (https://www.w3.org/TR/compositing-1/), not from palette.
// B(cb, cs): backdrop first, as in the recommendation.
pub(crate) fn w3c_b(mode: &str, cb: f64, cs: f64) -> f64 {
    match mode {
        "multiply" => cb * cs,
        "screen" => cb + cs - cb * cs,
        "overlay" => w3c_b("hard_light", cs, cb),
        "darken" => cb.min(cs),
        "lighten" => cb.max(cs),
        "dodge" => if cb == 0.0 { 0.0 } else if cs == 1.0 { 1.0 } else { (cb / (1.0 - cs)).min(1.0) },
        "burn" => if cb == 1.0 { 1.0 } else if cs == 0.0 { 0.0 } else { 1.0 - ((1.0 - cb) / cs).min(1.0) },
        "hard_light" => if cs <= 0.5 { cb * (2.0 * cs) } else { let s = 2.0 * cs - 1.0; cb + s - cb * s },
        "soft_light" => {
            if cs <= 0.5 { cb - (1.0 - 2.0 * cs) * cb * (1.0 - cb) }
            else {
                let d = if cb <= 0.25 { ((16.0 * cb - 12.0) * cb + 4.0) * cb } else { cb.sqrt() };
                cb + (2.0 * cs - 1.0) * (d - cb)
            }
        }
        "difference" => (cb - cs).abs(),
        "exclusion" => cb + cs - 2.0 * cb * cs,
        _ => unreachable!(),
    }
}
/// W3C §5/§10: `Cs' = (1 - αb)·Cs + αb·B(Cb, Cs)`, then source-over: `co = αs·Cs' + αb·Cb·(1 - αs)`, `αo = αs + αb·(1 - αs)`.
pub(crate) fn w3c_blend_pre(b: f64, cs: f64, sa: f64, cb: f64, da: f64) -> f64 {
    let cs2 = (1.0 - da) * cs + da * b;
    sa * cs2 + da * cb * (1.0 - sa)
}
pub(crate) fn w3c_over_alpha(sa: f64, da: f64) -> f64 { sa + da * (1.0 - sa) }
/// Porter-Duff fractions (Fa, Fb) of W3C §9.1: `co = αs·Fa·Cs + αb·Fb·Cb`, `αo = αs·Fa + αb·Fb`.
fn pd_f(op: &str, sa: f64, da: f64) -> (f64, f64) {
    match op {
        "over" => (1.0, 1.0 - sa),          // source-over
        "inside" => (da, 0.0),              // source-in
        "outside" => (1.0 - da, 0.0),       // source-out
        "atop" => (da, 1.0 - sa),           // source-atop
        "xor" => (1.0 - da, 1.0 - sa),
        "plus" => (1.0, 1.0),               // lighter
        _ => unreachable!(),
    }
}

// ------------------------------------------------------------------------------------------------
#[derive(Clone, Copy)]
pub struct Case<T, const N: usize> { pub(crate) s: [T; N], pub(crate) sa: T, pub(crate) d: [T; N], pub(crate) da: T }

fn hx<T: Fx>(a: &[T]) -> String { hx_list(a) }
fn line_in<T: Fx, const N: usize>(s: &[T; N], sa: T, d: &[T; N], da: T) -> String {
    format!("{} {} {} {} {}", N, hx(s), sa.hx(), hx(d), da.hx())
}
fn mk<C: ArrayCast<Array = [T; N]>, T, const N: usize>(a: [T; N]) -> C { cast::from_array(a) }
fn un<C: ArrayCast<Array = [T; N]>, T, const N: usize>(c: C) -> [T; N] { cast::into_array(c) }
fn mk_a<C: ArrayCast<Array = [T; N]>, T, const N: usize>(a: [T; N], al: T) -> Alpha<C, T> { Alpha { color: cast::from_array(a), alpha: al } }
fn mk_p<C: ArrayCast<Array = [T; N]> + Premultiply<Scalar = T>, T, const N: usize>(a: [T; N], al: T) -> PreAlpha<C> { PreAlpha { color: cast::from_array(a), alpha: al } }
fn close(a: f64, b: f64, t: f64) -> bool { (a - b).abs() <= t }
fn same<T: Fx>(a: T, b: T) -> bool { a.bits64() == b.bits64() || a == b }

struct Ctx<'a> { out: &'a mut Out, ty: &'a str }

/// range clause: component (premultiplied or straight, as returned) and alpha in [0,1] up to rounding
fn check_range<T: Fx>(cx: &mut Ctx, what: &str, form: &str, comps: &[T], alpha: Option<T>, w3c_hi: bool, detail: &dyn Fn() -> String) {
    let t = tol::<T>();
    let lo_ok = comps.iter().all(|x| x.to64() >= -t) && alpha.map_or(true, |a| a.to64() >= -t);
    let hi_ok = comps.iter().all(|x| x.to64() <= 1.0 + t) && alpha.map_or(true, |a| a.to64() <= 1.0 + t);
    let nan_ok = comps.iter().all(|x| x.finite()) && alpha.map_or(true, |a| a.finite());
    cx.out.check(nan_ok, &format!("finite:{}:{}:{}:{}", what, form, cx.ty, T::TAG), || detail());
    cx.out.check(lo_ok, &format!("range-lo:{}:{}:{}:{}", what, form, cx.ty, T::TAG), || detail());
    cx.out.check(hi_ok, &format!("range-hi:{}:{}:{}:{}", what, form, cx.ty, T::TAG),
        || format!("{}{}", detail(), if w3c_hi { " [the W3C formula value itself is above 1]" } else { "" }));
}

/// a result alpha that is non-zero but below the normal range: `unpremultiply` (guard `is_normal`) returns the zero colour.  In
/// premultiplied terms — the terms the property is stated in — the difference is below 2^-126 (f32) / 2^-1022 (f64).
fn result_alpha_subnormal<T: Fx>(ao: f64) -> bool { ao > 0.0 && ao < T::tiny().to64() }
/// expected straight colour from a premultiplied W3C value
fn straight(co: f64, ao: f64) -> f64 { if ao > 0.0 { co / ao } else { 0.0 } }

// ------------------------------------------------------------------------------------------------
pub(crate) fn run_blend<C, T, const N: usize>(out: &mut Out, ty: &str, cases: &[Case<T, N>])
where T: Fx, C: ArrayCast<Array = [T; N]> + Premultiply<Scalar = T> + Blend + Clone, Alpha<C, T>: Blend, PreAlpha<C>: Blend,
{
    let fo: [fn(C, C) -> C; 11] = [C::multiply, C::screen, C::overlay, C::darken, C::lighten, C::dodge, C::burn, C::hard_light, C::soft_light, C::difference, C::exclusion];
    let fa: [fn(Alpha<C, T>, Alpha<C, T>) -> Alpha<C, T>; 11] = [Blend::multiply, Blend::screen, Blend::overlay, Blend::darken, Blend::lighten, Blend::dodge, Blend::burn, Blend::hard_light, Blend::soft_light, Blend::difference, Blend::exclusion];
    let fp: [fn(PreAlpha<C>, PreAlpha<C>) -> PreAlpha<C>; 11] = [Blend::multiply, Blend::screen, Blend::overlay, Blend::darken, Blend::lighten, Blend::dodge, Blend::burn, Blend::hard_light, Blend::soft_light, Blend::difference, Blend::exclusion];
    let t = tol::<T>();
    let one = T::one();
    let mut cx = Ctx { out, ty };
    for c in cases {
        let (sa64, da64) = (c.sa.to64(), c.da.to64());
        let ps: PreAlpha<C> = PreAlpha::new(mk(c.s), c.sa);
        let pd: PreAlpha<C> = PreAlpha::new(mk(c.d), c.da);
        let (psa, pda): ([T; N], [T; N]) = (un(ps.color.clone()), un(pd.color.clone()));
        let sub_alpha = (c.sa != T::zero() && !c.sa.is_norm()) || (c.da != T::zero() && !c.da.is_norm());
        for (mi, mode) in MODES.iter().enumerate() {
            // ---------- opaque colours: the plain per-component blend function
            let r: [T; N] = un(fo[mi](mk(c.s), mk(c.d)));
            cx.out.case(&format!("blend {} {} opaque | {} | {}", ty, mode, line_in(&c.s, one, &c.d, one), hx(&r)));
            for k in 0..N {
                let want = w3c_b(mode, c.d[k].to64(), c.s[k].to64());
                let dev = (r[k].to64() - want).abs();
                cx.out.maxi(&format!("dev/eps:opaque:{}", T::TAG), dev / T::eps());
                cx.out.check(dev <= t, &format!("opaque-reduces-to-B:{}:{}:{}", mode, ty, T::TAG),
                    || format!("cs={:e} cb={:e}: impl {:e}, W3C B(cb,cs) {:e}", c.s[k].to64(), c.d[k].to64(), r[k].to64(), want));
            }
            check_range(&mut cx, mode, "opaque", &r, None, false, &|| format!("s={:?} d={:?} -> {:?}", c.s, c.d, r));
            // ---------- Alpha<C, T>
            let ra = fa[mi](mk_a(c.s, c.sa), mk_a(c.d, c.da));
            let (rc, ral): ([T; N], T) = (un(ra.color), ra.alpha);
            cx.out.case(&format!("blend {} {} alpha | {} | {} {}", ty, mode, line_in(&c.s, c.sa, &c.d, c.da), hx(&rc), ral.hx()));
            let ao = w3c_over_alpha(sa64, da64);
            if !sub_alpha {
                cx.out.check(close(ral.to64(), ao, t), &format!("formula-alpha:{}:alpha:{}:{}", mode, ty, T::TAG),
                    || format!("as={:e} ab={:e}: impl {:e}, W3C {:e}", sa64, da64, ral.to64(), ao));
                for k in 0..N {
                    let (cs, cb) = (c.s[k].to64(), c.d[k].to64());
                    let co = w3c_blend_pre(w3c_b(mode, cb, cs), cs, sa64, cb, da64);
                    let want = straight(co, ao);
                    let dev = (rc[k].to64() - want).abs();
                    if result_alpha_subnormal::<T>(ao) { cx.out.count("cls:result-alpha-subnormal"); cx.out.check(rc[k] == T::zero() || dev <= t, &format!("formula-subnormal-result-alpha:{}:alpha:{}:{}", mode, ty, T::TAG), || format!("ao={:e}: impl {:e}", ao, rc[k].to64())); continue; }
                    cx.out.maxi(&format!("dev/eps:alpha:{}", T::TAG), dev / T::eps());
                    cx.out.check(dev <= t, &format!("formula:{}:alpha:{}:{}", mode, ty, T::TAG),
                        || format!("cs={:e} as={:e} cb={:e} ab={:e}: impl {:e}, W3C co/ao {:e}", cs, sa64, cb, da64, rc[k].to64(), want));
                }
                check_range(&mut cx, mode, "alpha", &rc, Some(ral), false, &|| format!("s={:?}/{:?} d={:?}/{:?} -> {:?}/{:?}", c.s, c.sa, c.d, c.da, rc, ral));
                if c.sa == one && c.da == one {
                    // opaque inputs through the Alpha form give the opaque form's colour
                    let ok = (0..N).all(|k| close(rc[k].to64(), r[k].to64(), t)) && ral == one;
                    cx.out.check(ok, &format!("alpha1-equals-opaque:{}:{}:{}", mode, ty, T::TAG), || format!("s={:?} d={:?}: alpha form {:?}/{:?}, opaque form {:?}", c.s, c.d, rc, ral, r));
                }
            } else { cx.out.count("cls:subnormal-alpha-correspondence-only"); }
            // ---------- PreAlpha<C>
            let rp = fp[mi](ps.clone(), pd.clone());
            let (rpc, rpa): ([T; N], T) = (un(rp.color), rp.alpha);
            cx.out.case(&format!("blend {} {} pre | {} | {} {}", ty, mode, line_in(&psa, c.sa, &pda, c.da), hx(&rpc), rpa.hx()));
            if !sub_alpha {
                cx.out.check(close(rpa.to64(), ao, t), &format!("formula-alpha:{}:pre:{}:{}", mode, ty, T::TAG),
                    || format!("as={:e} ab={:e}: impl {:e}, W3C {:e}", sa64, da64, rpa.to64(), ao));
                for k in 0..N {
                    // premultiplied inputs as given; the straight colours are what the premultiplied ones denote
                    let (sp, dp) = (psa[k].to64(), pda[k].to64());
                    let cs = if sa64 > 0.0 { (sp / sa64).min(1.0) } else { 0.0 };
                    let cb = if da64 > 0.0 { (dp / da64).min(1.0) } else { 0.0 };
                    let b0 = w3c_b(mode, cb, cs);
                    let h = 4.0 * T::eps();
                    let mut var: f64 = 0.0;
                    for fs in [1.0 - h, 1.0, 1.0 + h] { for fb in [1.0 - h, 1.0, 1.0 + h] {
                        var = var.max((w3c_b(mode, (cb * fb).min(1.0), (cs * fs).min(1.0)) - b0).abs());
                    } }
                    let want = sp * (1.0 - da64) + sa64 * da64 * b0 + (1.0 - sa64) * dp;
                    let tk = t * ao.max(T::tiny().to64()) + sa64 * da64 * var;
                    let dev = (rpc[k].to64() - want).abs();
                    if var == 0.0 { cx.out.maxi(&format!("dev/eps/ao:pre:{}", T::TAG), dev / T::eps() / ao.max(T::tiny().to64())); }
                    cx.out.check(dev <= tk, &format!("formula:{}:pre:{}:{}", mode, ty, T::TAG),
                        || format!("cs_pre={:e} as={:e} cb_pre={:e} ab={:e}: impl {:e}, W3C co {:e} (tolerance {:e})", sp, sa64, dp, da64, rpc[k].to64(), want, tk));
                }
                check_range(&mut cx, mode, "pre", &rpc, Some(rpa), false, &|| format!("s={:?}/{:?} d={:?}/{:?} -> {:?}/{:?}", psa, c.sa, pda, c.da, rpc, rpa));
            }
            // ---------- commutative modes are symmetric (all three forms)
            if SYM_MODES.contains(mode) && !sub_alpha {
                let r2: [T; N] = un(fo[mi](mk(c.d), mk(c.s)));
                cx.out.check((0..N).all(|k| close(r[k].to64(), r2[k].to64(), t)), &format!("symmetric:{}:opaque:{}:{}", mode, ty, T::TAG), || format!("s={:?} d={:?}: {:?} vs swapped {:?}", c.s, c.d, r, r2));
                let ra2 = fa[mi](mk_a(c.d, c.da), mk_a(c.s, c.sa));
                let rc2: [T; N] = un(ra2.color);
                cx.out.check((0..N).all(|k| close(rc[k].to64(), rc2[k].to64(), t)) && close(ral.to64(), ra2.alpha.to64(), t), &format!("symmetric:{}:alpha:{}:{}", mode, ty, T::TAG),
                    || format!("s={:?}/{:?} d={:?}/{:?}: {:?}/{:?} vs swapped {:?}/{:?}", c.s, c.sa, c.d, c.da, rc, ral, rc2, ra2.alpha));
                let rp2 = fp[mi](pd.clone(), ps.clone());
                let rpc2: [T; N] = un(rp2.color);
                // premultiplied: scale of the comparison is the result alpha (plus the argument-rounding allowance, which is 0 for
                // the symmetric modes: none of them is discontinuous)
                let tk = t * ao.max(T::tiny().to64());
                cx.out.check((0..N).all(|k| close(rpc[k].to64(), rpc2[k].to64(), tk)) && close(rpa.to64(), rp2.alpha.to64(), t), &format!("symmetric:{}:pre:{}:{}", mode, ty, T::TAG),
                    || format!("s={:?}/{:?} d={:?}/{:?}: {:?}/{:?} vs swapped {:?}/{:?}", psa, c.sa, pda, c.da, rpc, rpa, rpc2, rp2.alpha));
            }
        }
        cx.out.count(&format!("cls:blend:as={}", acls(c.sa)));
        cx.out.count(&format!("cls:blend:ab={}", acls(c.da)));
    }
}

fn acls<T: Fx>(a: T) -> &'static str {
    if a == T::zero() { "0" } else if a == T::one() { "1" } else if !a.is_norm() { "subnormal" } else if a.to64() < 1e-30 { "tiny" } else { "mid" }
}

pub(crate) fn run_compose<C, T, const N: usize, const M: usize>(out: &mut Out, ty: &str, cases: &[Case<T, N>], rng: &mut Rng)
where T: Fx, C: ArrayCast<Array = [T; N]> + Premultiply<Scalar = T> + Compose + BlendWith<Color = C> + Clone + core::ops::Mul<Output = C> + core::ops::Mul<T, Output = C>,
      Alpha<C, T>: Compose + BlendWith<Color = C>, PreAlpha<C>: Compose + BlendWith<Color = C> + ArrayCast<Array = [T; M]>,
      Equations: palette::blend::BlendFunction<C>,
{
    let fo: [fn(C, C) -> C; 6] = [C::over, C::inside, C::outside, C::atop, C::xor, C::plus];
    let fa: [fn(Alpha<C, T>, Alpha<C, T>) -> Alpha<C, T>; 6] = [Compose::over, Compose::inside, Compose::outside, Compose::atop, Compose::xor, Compose::plus];
    let fp: [fn(PreAlpha<C>, PreAlpha<C>) -> PreAlpha<C>; 6] = [Compose::over, Compose::inside, Compose::outside, Compose::atop, Compose::xor, Compose::plus];
    let t = tol::<T>();
    let (one, zero) = (T::one(), T::zero());
    let mut cx = Ctx { out, ty };
    for (ci, c) in cases.iter().enumerate() {
        let (sa64, da64) = (c.sa.to64(), c.da.to64());
        let sub_alpha = (c.sa != zero && !c.sa.is_norm()) || (c.da != zero && !c.da.is_norm());
        // ---------- premultiply / unpremultiply
        for (col, al) in [(c.s, c.sa), (c.d, c.da)] {
            let p: PreAlpha<C> = mk::<C, T, N>(col).premultiply(al);
            let (pc, pa): ([T; N], T) = (un(p.color.clone()), p.alpha);
            let (uc, ua) = C::unpremultiply(p.clone());
            let uc: [T; N] = un(uc);
            cx.out.case(&format!("premul {} | {} {} {} | {} {} {} {}", ty, N, hx(&col), al.hx(), hx(&pc), pa.hx(), hx(&uc), ua.hx()));
            // the other entry points to the same two functions agree bit for bit
            let p2: PreAlpha<C> = PreAlpha::new(mk(col), al); let p3: PreAlpha<C> = mk_a::<C, T, N>(col, al).premultiply(); let p4: PreAlpha<C> = PreAlpha::from(mk_a::<C, T, N>(col, al));
            let u2 = p.clone().unpremultiply(); let u3: Alpha<C, T> = p.clone().into();
            let same_arr = |a: [T; N], b: [T; N]| (0..N).all(|k| same(a[k], b[k]));
            cx.out.check(same_arr(un(p2.color), pc) && same_arr(un(p3.color), pc) && same_arr(un(p4.color), pc) && same(p2.alpha, pa) && same(p3.alpha, pa) && same(p4.alpha, pa)
                && same_arr(un(u2.color), uc) && same_arr(un(u3.color), uc) && same(u2.alpha, ua) && same(u3.alpha, ua),
                &format!("premultiply-entry-points-agree:{}:{}", ty, T::TAG), || format!("{:?}/{:?}", col, al));
            cx.out.check(same(ua, al) && same(pa, al), &format!("roundtrip-alpha:{}:{}", ty, T::TAG), || format!("{:?}/{:?} -> alpha {:?}", col, al, ua));
            if al == zero {
                cx.out.count("cls:roundtrip:alpha=0");
                cx.out.check(uc.iter().all(|x| *x == zero), &format!("roundtrip-zero-alpha-gives-zero-colour:{}:{}", ty, T::TAG), || format!("{:?}/{:?} -> {:?}", col, al, uc));
            } else if al.is_norm() {
                cx.out.count("cls:roundtrip:alpha-normal");
                // c·a/a: two roundings, each ≤ eps/2 relative, plus the subnormal granularity of c·a (≤ 2^-p of the smallest normal a)
                for k in 0..N {
                    let dev = (uc[k].to64() - col[k].to64()).abs();
                    cx.out.maxi(&format!("roundtrip-dev/eps:{}", T::TAG), dev / T::eps());
                    cx.out.check(dev <= 4.0 * T::eps(), &format!("roundtrip:{}:{}", ty, T::TAG), || format!("c={:e} alpha={:e} -> {:e}", col[k].to64(), al.to64(), uc[k].to64()));
                }
            } else {
                // non-zero but subnormal alpha: c·alpha has lost the colour (relative rounding error up to 100 %), no implementation can
                // return it; the guard (`is_normal`) gives the zero colour.  Either answer is within the rounding of c·alpha.
                cx.out.count("cls:roundtrip:alpha-subnormal");
                for k in 0..N {
                    let ok = uc[k] == zero || (uc[k].to64() - col[k].to64()).abs() <= col[k].to64().abs();
                    cx.out.check(ok, &format!("roundtrip-subnormal-alpha:{}:{}", ty, T::TAG), || format!("c={:e} alpha={:e} -> {:e}", col[k].to64(), al.to64(), uc[k].to64()));
                }
            }
        }
        if ci % 4 == 0 {
            // unpremultiply of a PreAlpha that is not the image of premultiply (any c_pre ≤ alpha)
            let mut pc = c.s; for k in 0..N { pc[k] = T::of(c.s[k].to64() * c.sa.to64() * rng.unit()); }
            let (uc, ua) = C::unpremultiply(mk_p::<C, T, N>(pc, c.sa));
            let uc: [T; N] = un(uc);
            cx.out.case(&format!("unpremul {} | {} {} {} | {} {}", ty, N, hx(&pc), c.sa.hx(), hx(&uc), ua.hx()));
        }
        let ps: PreAlpha<C> = PreAlpha::new(mk(c.s), c.sa);
        let pd: PreAlpha<C> = PreAlpha::new(mk(c.d), c.da);
        let (psa, pda): ([T; N], [T; N]) = (un(ps.color.clone()), un(pd.color.clone()));
        for (oi, op) in OPS.iter().enumerate() {
            let (fa_, fb_) = pd_f(op, sa64, da64);
            let ao_w3c = sa64 * fa_ + da64 * fb_;
            let ao = ao_w3c.min(1.0).max(0.0); // palette clamps the result alpha (only `plus` can exceed 1)
            // ---------- opaque
            let r: [T; N] = un(fo[oi](mk(c.s), mk(c.d)));
            cx.out.case(&format!("compose {} {} opaque | {} | {}", ty, op, line_in(&c.s, one, &c.d, one), hx(&r)));
            {
                let (f1, f2) = pd_f(op, 1.0, 1.0);
                let ao1 = (f1 + f2).min(1.0);
                let mut hi = false;
                for k in 0..N {
                    let co = f1 * c.s[k].to64() + f2 * c.d[k].to64();
                    let want = straight(co, ao1);
                    hi |= want > 1.0;
                    cx.out.check(close(r[k].to64(), want, t), &format!("formula:{}:opaque:{}:{}", op, ty, T::TAG), || format!("cs={:e} cb={:e}: impl {:e}, Porter-Duff {:e}", c.s[k].to64(), c.d[k].to64(), r[k].to64(), want));
                }
                check_range(&mut cx, op, "opaque", &r, None, hi, &|| format!("s={:?} d={:?} -> {:?}", c.s, c.d, r));
            }
            // ---------- PreAlpha: the operators themselves
            let rp = fp[oi](ps.clone(), pd.clone());
            let (rpc, rpa): ([T; N], T) = (un(rp.color.clone()), rp.alpha);
            cx.out.case(&format!("compose {} {} pre | {} | {} {}", ty, op, line_in(&psa, c.sa, &pda, c.da), hx(&rpc), rpa.hx()));
            // ---------- Alpha
            let ra = fa[oi](mk_a(c.s, c.sa), mk_a(c.d, c.da));
            let (rc, ral): ([T; N], T) = (un(ra.color.clone()), ra.alpha);
            cx.out.case(&format!("compose {} {} alpha | {} | {} {}", ty, op, line_in(&c.s, c.sa, &c.d, c.da), hx(&rc), ral.hx()));
            if !sub_alpha {
                let mut hi = false;
                cx.out.check(close(rpa.to64(), ao, t) && close(ral.to64(), ao, t), &format!("formula-alpha:{}:{}:{}", op, ty, T::TAG),
                    || format!("as={:e} ab={:e}: impl pre {:e} alpha-form {:e}, Porter-Duff {:e} (unclamped {:e})", sa64, da64, rpa.to64(), ral.to64(), ao, ao_w3c));
                for k in 0..N {
                    let (sp, dp) = (psa[k].to64(), pda[k].to64());
                    let co = fa_ * sp + fb_ * dp;
                    hi |= co > 1.0;
                    let tk = t * ao.max(T::tiny().to64());
                    cx.out.check(close(rpc[k].to64(), co, tk), &format!("formula:{}:pre:{}:{}", op, ty, T::TAG),
                        || format!("cs_pre={:e} as={:e} cb_pre={:e} ab={:e}: impl {:e}, Porter-Duff co {:e}", sp, sa64, dp, da64, rpc[k].to64(), co));
                    // Alpha form: straight colours in, straight colour out
                    let co2 = fa_ * (c.s[k].to64() * sa64) + fb_ * (c.d[k].to64() * da64);
                    let want = straight(co2, ao);
                    let dev = (rc[k].to64() - want).abs();
                    if result_alpha_subnormal::<T>(ao) { cx.out.count("cls:result-alpha-subnormal"); cx.out.check(rc[k] == T::zero() || dev <= t, &format!("formula-subnormal-result-alpha:{}:alpha:{}:{}", op, ty, T::TAG), || format!("ao={:e}: impl {:e}", ao, rc[k].to64())); continue; }
                    cx.out.maxi(&format!("dev/eps:compose-alpha:{}", T::TAG), dev / T::eps() / want.abs().max(1.0));
                    cx.out.check(dev <= t * want.abs().max(1.0), &format!("formula:{}:alpha:{}:{}", op, ty, T::TAG),
                        || format!("cs={:e} as={:e} cb={:e} ab={:e}: impl {:e}, Porter-Duff co/ao {:e}", c.s[k].to64(), sa64, c.d[k].to64(), da64, rc[k].to64(), want));
                }
                check_range(&mut cx, op, "pre", &rpc, Some(rpa), hi, &|| format!("s={:?}/{:?} d={:?}/{:?} -> {:?}/{:?}", psa, c.sa, pda, c.da, rpc, rpa));
                check_range(&mut cx, op, "alpha", &rc, Some(ral), hi, &|| format!("s={:?}/{:?} d={:?}/{:?} -> {:?}/{:?}", c.s, c.sa, c.d, c.da, rc, ral));
                if SYM_OPS.contains(op) {
                    let r2: [T; N] = un(fo[oi](mk(c.d), mk(c.s)));
                    let rp2 = fp[oi](pd.clone(), ps.clone()); let rpc2: [T; N] = un(rp2.color);
                    let ra2 = fa[oi](mk_a(c.d, c.da), mk_a(c.s, c.sa)); let rc2: [T; N] = un(ra2.color);
                    let tk = t * ao.max(T::tiny().to64());
                    cx.out.check((0..N).all(|k| close(r[k].to64(), r2[k].to64(), t * r[k].to64().abs().max(1.0))), &format!("symmetric:{}:opaque:{}:{}", op, ty, T::TAG), || format!("{:?} vs {:?}", r, r2));
                    cx.out.check((0..N).all(|k| close(rpc[k].to64(), rpc2[k].to64(), tk)) && close(rpa.to64(), rp2.alpha.to64(), t), &format!("symmetric:{}:pre:{}:{}", op, ty, T::TAG), || format!("s={:?}/{:?} d={:?}/{:?}: {:?}/{:?} vs swapped {:?}/{:?}", psa, c.sa, pda, c.da, rpc, rpa, rpc2, rp2.alpha));
                    cx.out.check((0..N).all(|k| close(rc[k].to64(), rc2[k].to64(), t * rc[k].to64().abs().max(1.0))) && close(ral.to64(), ra2.alpha.to64(), t), &format!("symmetric:{}:alpha:{}:{}", op, ty, T::TAG), || format!("s={:?}/{:?} d={:?}/{:?}: {:?}/{:?} vs swapped {:?}/{:?}", c.s, c.sa, c.d, c.da, rc, ral, rc2, ra2.alpha));
                }
            }
            // ---------- blend_with: a closure calling the real operator must be the operator, in all three forms, bit for bit
            if ci % 3 == oi % 3 {
                let f = fp[oi];
                let bo: [T; N] = un(mk::<C, T, N>(c.s).blend_with(mk(c.d), move |a: PreAlpha<C>, b: PreAlpha<C>| f(a, b)));
                let bp = ps.clone().blend_with(pd.clone(), move |a: PreAlpha<C>, b: PreAlpha<C>| f(a, b));
                let ba = mk_a::<C, T, N>(c.s, c.sa).blend_with(mk_a(c.d, c.da), move |a: PreAlpha<C>, b: PreAlpha<C>| f(a, b));
                let (bpc, bac): ([T; N], [T; N]) = (un(bp.color), un(ba.color));
                let ok = (0..N).all(|k| same(bo[k], r[k]) && same(bpc[k], rpc[k]) && same(bac[k], rc[k])) && same(bp.alpha, rpa) && same(ba.alpha, ral);
                cx.out.check(ok, &format!("blend_with(closure)=operator:{}:{}:{}", op, ty, T::TAG), || format!("s={:?}/{:?} d={:?}/{:?}", c.s, c.sa, c.d, c.da));
                cx.out.case(&format!("blendwith {} alpha fn {} | {} | {} {}", ty, op, line_in(&c.s, c.sa, &c.d, c.da), hx(&bac), ba.alpha.hx()));
                cx.out.case(&format!("blendwith {} opaque fn {} | {} | {}", ty, op, line_in(&c.s, one, &c.d, one), hx(&bo)));
                // the same operator written as OpenGL-style `Equations` (Fa, Fb as parameters): equal up to rounding where the alpha is not clamped
                let (psrc, pdst, ns, nd) = match *op {
                    "over" => (Parameter::One, Parameter::OneMinusSourceAlpha, "1", "1-sa"),
                    "inside" => (Parameter::DestinationAlpha, Parameter::Zero, "da", "0"),
                    "outside" => (Parameter::OneMinusDestinationAlpha, Parameter::Zero, "1-da", "0"),
                    "atop" => (Parameter::DestinationAlpha, Parameter::OneMinusSourceAlpha, "da", "1-sa"),
                    "xor" => (Parameter::OneMinusDestinationAlpha, Parameter::OneMinusSourceAlpha, "1-da", "1-sa"),
                    _ => (Parameter::One, Parameter::One, "1", "1"),
                };
                let eq = Equations::from_parameters(psrc, pdst);
                let ep = ps.clone().blend_with(pd.clone(), eq);
                let epc: [T; N] = un(ep.color);
                cx.out.case(&format!("blendwith {} pre eq add add {} {} {} {} | {} | {} {}", ty, ns, nd, ns, nd, line_in(&psa, c.sa, &pda, c.da), hx(&epc), ep.alpha.hx()));
                if !sub_alpha && *op != "plus" {
                    let tk = t * ao.max(T::tiny().to64());
                    cx.out.check((0..N).all(|k| close(epc[k].to64(), rpc[k].to64(), tk)) && close(ep.alpha.to64(), rpa.to64(), t), &format!("equations(Fa,Fb)=operator:{}:{}:{}", op, ty, T::TAG),
                        || format!("s={:?}/{:?} d={:?}/{:?}: equations {:?}/{:?}, operator {:?}/{:?}", psa, c.sa, pda, c.da, epc, ep.alpha, rpc, rpa));
                }
            }
        }
        // ---------- random `Equations` (correspondence only: they are not part of the property's statement, but `blend_with` is observed through them)
        if ci % 5 == 0 {
            let eqs = [(Equation::Add, "add"), (Equation::Subtract, "sub"), (Equation::ReverseSubtract, "rsub"), (Equation::Min, "min"), (Equation::Max, "max")];
            let pars = [(Parameter::One, "1"), (Parameter::Zero, "0"), (Parameter::SourceColor, "sc"), (Parameter::OneMinusSourceColor, "1-sc"), (Parameter::DestinationColor, "dc"),
                        (Parameter::OneMinusDestinationColor, "1-dc"), (Parameter::SourceAlpha, "sa"), (Parameter::OneMinusSourceAlpha, "1-sa"), (Parameter::DestinationAlpha, "da"), (Parameter::OneMinusDestinationAlpha, "1-da")];
            let (ce, ae) = (*rng.pick(&eqs), *rng.pick(&eqs));
            let (p1, p2, p3, p4) = (*rng.pick(&pars), *rng.pick(&pars), *rng.pick(&pars), *rng.pick(&pars));
            let eq = Equations { color_equation: ce.0, alpha_equation: ae.0, color_parameters: Parameters { source: p1.0, destination: p2.0 }, alpha_parameters: Parameters { source: p3.0, destination: p4.0 } };
            let ep = ps.clone().blend_with(pd.clone(), eq);
            let epc: [T; N] = un(ep.color);
            cx.out.case(&format!("blendwith {} pre eq {} {} {} {} {} {} | {} | {} {}", ty, ce.1, ae.1, p1.1, p2.1, p3.1, p4.1, line_in(&psa, c.sa, &pda, c.da), hx(&epc), ep.alpha.hx()));
            // oracle: the OpenGL blend equation (tables 17.1/17.2 of the GL specification, `lean/PaletteSpec/BlendEquations.lean`,
            // theorem `C08.equations_eq_gl`), evaluated independently in f64.  All operands are in [0,1], the value is two products
            // and one sum/difference (min/max: exact): error <= 2 eps of 1 in exact-product terms; the alarm level is the file's 16 eps.
            {
                let fac = |p: &str, cs: f64, cd: f64| -> f64 { match p { "1" => 1.0, "0" => 0.0, "sc" => cs, "1-sc" => 1.0 - cs, "dc" => cd, "1-dc" => 1.0 - cd,
                    "sa" => sa64, "1-sa" => 1.0 - sa64, "da" => da64, _ => 1.0 - da64 } };
                let gl = |e: &str, s: f64, sf: f64, d: f64, df: f64| -> f64 { match e { "add" => s * sf + d * df, "sub" => s * sf - d * df, "rsub" => d * df - s * sf, "min" => s.min(d), _ => s.max(d) } };
                let mut ok = true; let mut worst = 0.0f64;
                for k in 0..N {
                    let (s, d) = (psa[k].to64(), pda[k].to64());
                    let dev = (epc[k].to64() - gl(ce.1, s, fac(p1.1, s, d), d, fac(p2.1, s, d))).abs();
                    worst = worst.max(dev); if !(dev <= t) { ok = false; }
                }
                // alpha: the `...Color` parameters read the alpha (GL "alpha blend factor" column)
                let deva = (ep.alpha.to64() - gl(ae.1, sa64, fac(p3.1, sa64, da64), da64, fac(p4.1, sa64, da64))).abs();
                worst = worst.max(deva); if !(deva <= t) { ok = false; }
                cx.out.maxi(&format!("equations-vs-gl-dev/eps:{}", T::TAG), worst / T::eps());
                cx.out.check(ok, &format!("equations=opengl:{}:{}", ty, T::TAG), || format!("eq {} {} {} {} {} {} s={:?}/{:?} d={:?}/{:?}: got {:?}/{:?}", ce.1, ae.1, p1.1, p2.1, p3.1, p4.1, psa, c.sa, pda, c.da, epc, ep.alpha));
                cx.out.count(&format!("cls:equation:{}", ce.1));
            }
            let ea = mk_a::<C, T, N>(c.s, c.sa).blend_with(mk_a(c.d, c.da), eq);
            let eac: [T; N] = un(ea.color);
            cx.out.case(&format!("blendwith {} alpha eq {} {} {} {} {} {} | {} | {} {}", ty, ce.1, ae.1, p1.1, p2.1, p3.1, p4.1, line_in(&c.s, c.sa, &c.d, c.da), hx(&eac), ea.alpha.hx()));
        }
        // ---------- the `over` identities, in premultiplied terms and through the Alpha form
        if !sub_alpha {
            // fully transparent source (whatever its colour) over a backdrop returns the backdrop
            let tr = PreAlpha::<C>::new(mk(c.s), zero).over(pd.clone());
            let trc: [T; N] = un(tr.color);
            let tk = t * da64.max(T::tiny().to64());
            let dev = (0..N).map(|k| (trc[k].to64() - pda[k].to64()).abs()).fold(0.0, f64::max);
            cx.out.maxi(&format!("transparent-over-dev:{}", T::TAG), dev);
            cx.out.check(dev <= tk && close(tr.alpha.to64(), da64, t), &format!("transparent-source-over-returns-backdrop:pre:{}:{}", ty, T::TAG), || format!("s={:?}/0 d={:?}/{:?} -> {:?}/{:?}", c.s, pda, c.da, trc, tr.alpha));
            let tra = mk_a::<C, T, N>(c.s, zero).over(mk_a(c.d, c.da));
            let trac: [T; N] = un(tra.color);
            let want_zero = c.da == zero;
            cx.out.check((0..N).all(|k| close(trac[k].to64(), if want_zero { 0.0 } else { c.d[k].to64() }, t)) && close(tra.alpha.to64(), da64, t), &format!("transparent-source-over-returns-backdrop:alpha:{}:{}", ty, T::TAG),
                || format!("s={:?}/0 d={:?}/{:?} -> {:?}/{:?}", c.s, c.d, c.da, trac, tra.alpha));
            // an opaque source over anything returns the source
            let op_ = PreAlpha::<C>::new(mk(c.s), one).over(pd.clone());
            let opc: [T; N] = un(op_.color);
            cx.out.check((0..N).all(|k| close(opc[k].to64(), c.s[k].to64(), t)) && close(op_.alpha.to64(), 1.0, t), &format!("opaque-source-over-returns-source:pre:{}:{}", ty, T::TAG), || format!("s={:?}/1 d={:?}/{:?} -> {:?}/{:?}", c.s, pda, c.da, opc, op_.alpha));
            let opa = mk_a::<C, T, N>(c.s, one).over(mk_a(c.d, c.da));
            let opac: [T; N] = un(opa.color);
            cx.out.check((0..N).all(|k| close(opac[k].to64(), c.s[k].to64(), t)) && close(opa.alpha.to64(), 1.0, t), &format!("opaque-source-over-returns-source:alpha:{}:{}", ty, T::TAG), || format!("s={:?}/1 d={:?}/{:?} -> {:?}/{:?}", c.s, c.d, c.da, opac, opa.alpha));
        }
        cx.out.count(&format!("cls:compose:as={}", acls(c.sa)));
        cx.out.count(&format!("cls:compose:ab={}", acls(c.da)));
    }
}

// ------------------------------------------------------------------------------------------------
// generators

fn colour_grid<T: Fx>() -> Vec<T> {
    let (q, h) = (T::of(0.25), T::of(0.5));
    vec![T::zero(), T::tiny(), q.nudge(-1), q, q.nudge(1), h.nudge(-1), h, h.nudge(1), T::one()]
}
fn alpha_grid<T: Fx>() -> Vec<T> {
    let (q, h) = (T::of(0.25), T::of(0.5));
    vec![T::zero(), T::tiny(), q.nudge(-1), q.nudge(1), h.nudge(-1), h.nudge(1), T::one()]
}
/// colour pairs (cs, cb) that sit on the branch conditions of the per-mode functions
fn threshold_pairs<T: Fx>(rng: &mut Rng) -> Vec<(T, T)> {
    let mut v = vec![];
    let (q, h, one) = (T::of(0.25), T::of(0.5), T::one());
    for k in [-16i64, -2, -1, 0, 1, 2, 16] {
        for o in [0.0, 0.1, 0.25, 0.3, 0.5, 0.75, 1.0] { v.push((h.nudge(k), T::of(o))); v.push((T::of(o), h.nudge(k))); v.push((T::of(o), q.nudge(k))); v.push((h.nudge(k), q.nudge(-k))); }
    }
    // dodge / burn guards and their `min(1, ·)` crossover at cs + cb = 1
    for k in [0i64, -1, -2, -16] { for o in [0.0, 0.3, 1.0] { v.push((one.nudge(k), T::of(o))); v.push((T::of(o), one.nudge(k))); } }
    for o in [T::zero(), T::tiny(), T::of(1e-9)] { for p in [0.0, 0.4, 1.0] { v.push((o, T::of(p))); v.push((T::of(p), o)); } }
    for _ in 0..24 { let x = rng.unit(); for k in [-2i64, 0, 2] { v.push((T::of(x), T::of(1.0 - x).nudge(k))); } }
    v
}

pub(crate) fn pack<T: Fx, const N: usize>(pairs: &[(T, T)], alphas: &[(T, T)], out: &mut Vec<Case<T, N>>) {
    for &(sa, da) in alphas {
        let mut i = 0;
        while i < pairs.len() {
            let mut s = [T::zero(); N]; let mut d = [T::zero(); N];
            for k in 0..N { let (a, b) = pairs[(i + k) % pairs.len()]; s[k] = a; d[k] = b; }
            out.push(Case { s, sa, d, da });
            i += N;
        }
    }
}

/// `frac`: which share of the full grid product to keep (1.0 = exhaustive grid)
pub(crate) fn gen_cases<T: Fx, const N: usize>(rng: &mut Rng, frac: f64, n_rand: usize) -> Vec<Case<T, N>> {
    let cg = colour_grid::<T>(); let ag = alpha_grid::<T>();
    let mut pairs = vec![]; for &a in &cg { for &b in &cg { pairs.push((a, b)); } }
    let mut alphas = vec![]; for &a in &ag { for &b in &ag { alphas.push((a, b)); } }
    let mut all = vec![];
    pack::<T, N>(&pairs, &alphas, &mut all);
    let mut out: Vec<Case<T, N>> = if frac >= 1.0 { all } else { all.into_iter().filter(|_| rng.chance(frac)).collect() };
    // thresholds × a smaller alpha set
    let thr = threshold_pairs::<T>(rng);
    let asub: Vec<(T, T)> = vec![(T::one(), T::one()), (T::of(0.5), T::of(0.75)), (T::one(), T::of(0.3)), (T::of(0.6), T::one()), (T::tiny(), T::of(0.5)), (T::zero(), T::one()), (T::of(0.9), T::zero())];
    let mut thr_cases = vec![]; pack::<T, N>(&thr, &asub, &mut thr_cases);
    out.extend(thr_cases.into_iter().filter(|_| frac >= 1.0 || rng.chance((frac * 4.0).min(1.0))));
    // random, each scalar sometimes from the grid
    let pickc = |rng: &mut Rng| -> T { if rng.chance(0.2) { *rng.pick(&cg) } else { T::of(rng.unit()) } };
    for _ in 0..n_rand {
        let mut s = [T::zero(); N]; let mut d = [T::zero(); N];
        for k in 0..N { s[k] = pickc(rng); d[k] = pickc(rng); }
        let sa = if rng.chance(0.3) { *rng.pick(&ag) } else { T::of(rng.unit()) };
        let da = if rng.chance(0.3) { *rng.pick(&ag) } else { T::of(rng.unit()) };
        out.push(Case { s, sa, d, da });
    }
    // both alphas next to 1 (where `xor`'s result alpha is small): 1 - k ulps, 1 - 10^-j
    let near1: Vec<T> = vec![T::one(), T::one().nudge(-1), T::one().nudge(-2), T::one().nudge(-3), T::one().nudge(-5), T::of(1.0 - 1e-5), T::of(1.0 - 1e-3), T::of(0.99)];
    for &sa in &near1 { for &da in &near1 {
        if frac < 1.0 && !rng.chance(0.5) { continue; }
        let mut s = [T::zero(); N]; let mut d = [T::zero(); N];
        for k in 0..N { s[k] = if k == 0 { T::one() } else { pickc(rng) }; d[k] = if k == 1 { T::one() } else { pickc(rng) }; }
        out.push(Case { s, sa, d, da });
    } }
    // a few subnormal alphas: correspondence and the weak round-trip clause only
    for _ in 0..(4 + n_rand / 200) {
        let mut s = [T::zero(); N]; let mut d = [T::zero(); N];
        for k in 0..N { s[k] = pickc(rng); d[k] = pickc(rng); }
        let sub = T::subnormal().nudge(rng.below(1000) as i64);
        let (sa, da) = match rng.below(3) { 0 => (sub, T::of(rng.unit())), 1 => (T::of(rng.unit()), sub), _ => (sub, T::zero()) };
        out.push(Case { s, sa, d, da });
    }
    out
}

macro_rules! blend_type { ($out:expr, $rng:expr, $t:ty, $c:ty, $n:literal, $m:literal, $name:expr, $frac:expr, $nr:expr) => {{
    let cases = gen_cases::<$t, $n>($rng, $frac, $nr);
    run_blend::<$c, $t, $n>($out, $name, &cases);
    run_compose::<$c, $t, $n, $m>($out, $name, &cases, $rng);
}} }
macro_rules! compose_type { ($out:expr, $rng:expr, $t:ty, $c:ty, $n:literal, $m:literal, $name:expr, $frac:expr, $nr:expr) => {{
    let cases = gen_cases::<$t, $n>($rng, $frac, $nr);
    run_compose::<$c, $t, $n, $m>($out, $name, &cases, $rng);
}} }

macro_rules! run_floats { ($out:expr, $rng:expr, $t:ty, $thorough:expr) => {{
    use palette::white_point::D65;
    type T = $t;
    let (out, rng, th) = ($out, $rng, $thorough);
    // quick: the full grid on LinSrgb, a sample of it elsewhere; thorough: the full grid on every type
    let (f_main, f_other, nr) = if th { (1.0, 1.0, 8000) } else { (1.0, 0.06, 600) };
    // types with `Blend` (StimulusColor) and `Compose`
    blend_type!(out, rng, T, palette::LinSrgb<T>, 3, 4, "LinSrgb", f_main, nr * 2);
    blend_type!(out, rng, T, palette::Srgb<T>, 3, 4, "Srgb", f_other, nr);
    blend_type!(out, rng, T, palette::Xyz<D65, T>, 3, 4, "Xyz", f_other, nr);
    blend_type!(out, rng, T, palette::LinLuma<D65, T>, 1, 2, "LinLuma", f_other, nr);
    blend_type!(out, rng, T, palette::lms::Lms<palette::lms::matrix::Bradford, T>, 3, 4, "Lms", f_other, nr);
    // types with `Premultiply` only (`Compose`, `BlendWith`)
    compose_type!(out, rng, T, palette::Lab<D65, T>, 3, 4, "Lab", f_other, nr);
    compose_type!(out, rng, T, palette::Luv<D65, T>, 3, 4, "Luv", f_other, nr);
    compose_type!(out, rng, T, palette::Oklab<T>, 3, 4, "Oklab", f_other, nr);
    compose_type!(out, rng, T, palette::Yxy<D65, T>, 3, 4, "Yxy", f_other, nr);
    compose_type!(out, rng, T, palette::cam16::Cam16UcsJab<T>, 3, 4, "Cam16UcsJab", f_other, nr);
}} }

pub fn run(tier: &str, seed: u64, dir: &str) {
    let mut out = Out::new("C08", dir);
    let mut rng = Rng::new(seed);
    let th = tier == "thorough";
    run_floats!(&mut out, &mut rng, f32, th);
    run_floats!(&mut out, &mut rng, f64, th);
    // coverage audit: further entry points / type parameters (`c08_more.rs`).  Called last, so that the case stream above is unchanged.
    crate::c08_more::run_more(&mut out, &mut rng, th);
    out.finish(dir, "");
}
