//! C06 — coverage audit additions (see AUDIT_C06.md): entry points and forms inside the property's quantifier ("converting a color
//! component between number formats ... x every ordered pair of the seven component formats") that `c06.rs` did not drive.
//! `c06.rs` calls `IntoStimulus::<U>::into_stimulus` on bare numbers only; every other way the crate offers to change the number
//! format of a colour component is a separate function / impl block that was neither executed by C06 nor (except `Rgb` / `Luma`
//! `into_format`, Tie_Format.lean) translated.  Called from `c06::run` after the scalar stream, so that stream is unchanged.
//!
//! The property's predicate for these forms is the per-component statement itself, so each clause compares the form bit for bit
//! (NaN = NaN) with the covered scalar conversion of the same (source, target) pair, whose saturation / nearest / monotone / end-point
//! / round-trip clauses `c06.rs` evaluates; colours are built from three DIFFERENT neighbouring sources so that a swapped or
//! duplicated component is visible.  Nothing beyond "this component was converted by the T -> U conversion" is demanded; hues are not
//! looked at (C11).  Everything is instantiated per CONCRETE type by `macro_rules` (no palette trait bound is restated).
//!
//! 1. `pair_forms!` — all 49 ordered pairs (T, U):
//!    * `<U as FromStimulus<T>>::from_stimulus` (blanket impl) — the entry point every `into_format` uses;
//!    * `Rgb<Srgb>::into_format / from_format`, `Rgb<Linear<Srgb>>` and `Rgb<AdobeRgb>` (non-default standards: generic today, guard);
//!    * `Alpha<Rgb<Srgb, T>, U>::into_format::<U, T>() / from_format`: the alpha has a DIFFERENT component type than the colour and
//!      is converted by the reverse pair U -> T, so all 49 alpha pairs are driven as well;
//!    * the same for `Luma<Srgb>` (+ `Luma<Linear<D65>>`), `Lumaa`, `Lms<VonKries>` (+ `Bradford`), `Lmsa`;
//!    * the alpha conversions hidden in `Alpha<Rgb>::into_linear / from_linear / into_encoding / from_encoding` and the four
//!      `Alpha<Luma>` siblings (`B::from_stimulus(self.alpha)`; the colour part is C05's);
//!    * `Stimulus::max_intensity`: the conversion of T's maximum is U's maximum ("MAX to exactly 1.0 or MAX").
//! 2. `hue_forms!` — the six hue-bearing types (`Hsl`, `Hsv`, `Hwb`, `Okhsl`, `Okhsv`, `Okhwb`; own `into_format` bodies each, own
//!    files for the Ok* `Alpha` forms) for the nine pairs of {u8, f32, f64} that `FromAngle` admits, opaque and `Alpha` with all 49
//!    alpha pairs, `into_format` and `from_format` (where it exists); one non-default RGB standard.
//! 3. `from_impl!` — the `From` impls that forward to `into_format`: `Rgb`/`Rgba` u8<->f32, u8<->f64, f32<->f64, `Lms`/`Lmsa`
//!    f32<->f64; and the alpha of `From<LinSrgba<T>> for Srgba<U>` / `From<Srgba<T>> for LinSrgba<U>` (rgb.rs).
//! Protocol: `stim <T> <U> | x | y` lines (existing op of StimulusDriver.lean) with y taken from `Rgb::into_format`, the `Rgba` alpha
//! and the `Hsl`-family saturation component, so the model is compared with the colour forms too.
use crate::common::*;
use palette::encoding::{AdobeRgb, Linear, Srgb};
use palette::lms::{BradfordLms, VonKriesLms};
use palette::luma::Luma;
use palette::rgb::Rgb;
use palette::stimulus::{FromStimulus, IntoStimulus, Stimulus};
use palette::white_point::D65;
use palette::{Alpha, Hsl, Hsv, Hwb, LinSrgba, Okhsl, Okhsv, Okhwb, OklabHue, RgbHue, Srgba};

/// the harness's own description of a component format (NOT a palette trait)
pub trait Comp: Copy + std::fmt::Debug + 'static {
    const TY: &'static str;
    fn txt(self) -> String;
    /// bit for bit; NaN payloads are not part of the contract
    fn same(self, o: Self) -> bool;
    /// the format's maximum as the property names it: `MAX` of the integer type, `1.0` for floats
    fn maxv() -> Self;
    fn of(s: &Srcs) -> &Vec<Self>;
}
pub struct Srcs { u8: Vec<u8>, u16: Vec<u16>, u32: Vec<u32>, u64: Vec<u64>, u128: Vec<u128>, f32: Vec<f32>, f64: Vec<f64> }

macro_rules! comp_uint { ($($t:ident),+) => { $(
    impl Comp for $t {
        const TY: &'static str = stringify!($t);
        fn txt(self) -> String { self.to_string() }
        fn same(self, o: Self) -> bool { self == o }
        fn maxv() -> Self { <$t>::MAX }
        fn of(s: &Srcs) -> &Vec<Self> { &s.$t }
    }
    impl Gen for $t {
        fn srcs(rng: &mut Rng, n: usize) -> Vec<Self> {
            let max = <$t>::MAX;
            let mut v: Vec<$t> = vec![0, 1, 2, 3, max, max - 1, max - 2, max / 2, max / 2 + 1, max / 3, max / 255, max / 255 * 127, max / 255 * 128, max / 5 * 4];
            for k in 0..<$t>::BITS { let p = (1 as $t) << k; v.push(p); v.push(p - 1); v.push(max - p); v.push(max - p + 1); }
            for _ in 0..n { let r = (((rng.next() as u128) << 64) | rng.next() as u128) as $t; let sh = rng.below(<$t>::BITS as u64) as u32; v.push(r >> sh); }
            v
        }
    }
)+ } }
macro_rules! comp_float { ($t:ident, $nudge:ident, $k:ty, $rand_bits:expr) => {
    impl Comp for $t {
        const TY: &'static str = stringify!($t);
        fn txt(self) -> String { <$t as Fl>::hx(self) }
        fn same(self, o: Self) -> bool { self.to_bits() == o.to_bits() || (self.is_nan() && o.is_nan()) }
        fn maxv() -> Self { 1.0 }
        fn of(s: &Srcs) -> &Vec<Self> { &s.$t }
    }
    impl Gen for $t {
        fn srcs(rng: &mut Rng, n: usize) -> Vec<Self> {
            let mut v: Vec<$t> = vec![];
            let specials: [$t; 30] = [0.0, -0.0, 1.0, -1.0, 0.5, 0.25, -0.25, 2.0, 1e-9, -1e-9, <$t>::MIN_POSITIVE, <$t>::MAX, <$t>::MIN, <$t>::INFINITY, <$t>::NEG_INFINITY,
                <$t>::NAN, -800.0, -1e5, -0.3, 1.4, 8388608.0, 16777216.0, 4503599627370496.0, 1.0 / 255.0, 0.5 / 255.0, 1.5 / 255.0, 0.5 / 65535.0, 32768.0 / 65535.0,
                0.5 / 4294967295.0, 1.0 / 3.0];
            for s in specials { for k in [-1, 0, 1] { v.push($nudge(s, k as $k)); } }
            // rounding ties of x*MAX for the small targets, next to 1, and powers of two
            for m in [255.0, 65535.0] { for _ in 0..(n / 4).max(8) { let k = rng.below(m as u64) as $t + 0.5; for d in [-1, 0, 1] { v.push($nudge(k / m, d as $k)); } } }
            for k in [1, 2, 8, 16, 23, 24, 32, 52, 53, 64, 100, 127] { v.push((2.0 as $t).powi(-k)); v.push(1.0 - (2.0 as $t).powi(-(k.min(24)))); }
            for _ in 0..n { v.push(rng.unit() as $t); }
            for _ in 0..n / 2 { v.push($rand_bits(rng)); }
            for _ in 0..n / 4 { v.push(rng.range(-2.0, 3.0) as $t); }
            v
        }
    }
} }
trait Gen: Sized { fn srcs(rng: &mut Rng, n: usize) -> Vec<Self>; }
comp_uint!(u8, u16, u32, u64, u128);
comp_float!(f32, nudge32, i32, |r: &mut Rng| f32::from_bits(r.next() as u32));
comp_float!(f64, nudge64, i64, |r: &mut Rng| f64::from_bits(r.next()));

fn list<X: Comp>(xs: &[X]) -> String { xs.iter().map(|x| x.txt()).collect::<Vec<_>>().join(" ") }

/// `got` (components of the converted colour, struct order) must be the covered scalar conversion of each input, bit for bit
fn chk<I: Comp, O: Comp>(out: &mut Out, clause: &str, form: &str, key: &str, inp: &[I], got: &[O], want: &[O]) {
    let ok = got.len() == want.len() && got.iter().zip(want).all(|(g, w)| g.same(*w));
    out.check(ok, &format!("{}:{}:{}", clause, form, key), || format!("[{}] -> [{}], into_stimulus gives [{}]", list(inp), list(got), list(want)));
}
const CW: &str = "form-converts-each-component";   // colour components
const AW: &str = "form-converts-alpha";            // alpha component (its own type pair)

macro_rules! pair_forms { ($out:expr, $s:expr, $T:ty, $U:ty) => {{
    type T = $T; type U = $U;
    let out: &mut Out = $out; let s: &Srcs = $s;
    let xs: &Vec<T> = <T as Comp>::of(s); let ys: &Vec<U> = <U as Comp>::of(s);
    let key = format!("{}->{}", <T as Comp>::TY, <U as Comp>::TY);
    let rkey = format!("{}->{}", <U as Comp>::TY, <T as Comp>::TY);
    // the covered scalar path of c06.rs
    let sc = |x: T| -> U { IntoStimulus::<U>::into_stimulus(x) };
    let sc_rev = |y: U| -> T { IntoStimulus::<T>::into_stimulus(y) };
    // "MAX to exactly 1.0 or MAX", with the maximum the crate itself declares for the format
    { let (mt, mu) = (<T as Stimulus>::max_intensity(), <U as Stimulus>::max_intensity());
      out.check(mt.same(<T as Comp>::maxv()) && mu.same(<U as Comp>::maxv()) && <U as FromStimulus<T>>::from_stimulus(mt).same(<U as Comp>::maxv()), &format!("max-intensity:{}", key),
          || format!("max_intensity {} -> {}, target max_intensity {}", mt.txt(), <U as FromStimulus<T>>::from_stimulus(mt).txt(), mu.txt())); }
    for i in 0..xs.len() {
        let (a, b, c) = (xs[i], xs[(i + 1) % xs.len()], xs[(i + 2) % xs.len()]);
        let al: U = ys[i % ys.len()];
        let inp = [a, b, c];
        let want = [sc(a), sc(b), sc(c)];
        let want_al = [sc_rev(al)];
        out.count("cls:forms:colour");
        // ---- the blanket FromStimulus
        chk(out, "from_stimulus=into_stimulus", "FromStimulus", &key, &inp[..1], &[<U as FromStimulus<T>>::from_stimulus(a)], &want[..1]);
        // ---- Rgb
        let r = Rgb::<Srgb, T>::new(a, b, c).into_format::<U>();
        chk(out, CW, "Rgb<Srgb>::into_format", &key, &inp, &[r.red, r.green, r.blue], &want);
        if i % 2 == 0 { for (x, y) in inp.iter().zip([r.red, r.green, r.blue]) { out.case(&format!("stim {} {} | {} | {}", <T as Comp>::TY, <U as Comp>::TY, x.txt(), y.txt())); } }
        let r = Rgb::<Srgb, U>::from_format(Rgb::<Srgb, T>::new(a, b, c));
        chk(out, CW, "Rgb<Srgb>::from_format", &key, &inp, &[r.red, r.green, r.blue], &want);
        let r = Rgb::<Linear<Srgb>, T>::new(a, b, c).into_format::<U>();
        chk(out, CW, "Rgb<Linear<Srgb>>::into_format", &key, &inp, &[r.red, r.green, r.blue], &want);
        let r = Rgb::<AdobeRgb, U>::from_format(Rgb::<AdobeRgb, T>::new(a, b, c));
        chk(out, CW, "Rgb<AdobeRgb>::from_format", &key, &inp, &[r.red, r.green, r.blue], &want);
        // ---- Rgba, alpha of the other component type (converted U -> T)
        let r = Alpha::<Rgb<Srgb, T>, U> { color: Rgb::new(a, b, c), alpha: al }.into_format::<U, T>();
        chk(out, CW, "Alpha<Rgb>::into_format", &key, &inp, &[r.color.red, r.color.green, r.color.blue], &want);
        chk(out, AW, "Alpha<Rgb>::into_format", &rkey, &[al], &[r.alpha], &want_al);
        if i % 2 == 0 { out.case(&format!("stim {} {} | {} | {}", <U as Comp>::TY, <T as Comp>::TY, al.txt(), r.alpha.txt())); }
        let r = Alpha::<Rgb<Srgb, U>, T>::from_format(Alpha::<Rgb<Srgb, T>, U> { color: Rgb::new(a, b, c), alpha: al });
        chk(out, CW, "Alpha<Rgb>::from_format", &key, &inp, &[r.color.red, r.color.green, r.color.blue], &want);
        chk(out, AW, "Alpha<Rgb>::from_format", &rkey, &[al], &[r.alpha], &want_al);
        // ---- Luma, Lumaa
        let r = Luma::<Srgb, T>::new(a).into_format::<U>();
        chk(out, CW, "Luma<Srgb>::into_format", &key, &inp[..1], &[r.luma], &want[..1]);
        let r = Luma::<Srgb, U>::from_format(Luma::<Srgb, T>::new(b));
        chk(out, CW, "Luma<Srgb>::from_format", &key, &inp[1..2], &[r.luma], &want[1..2]);
        let r = Luma::<Linear<D65>, T>::new(c).into_format::<U>();
        chk(out, CW, "Luma<Linear<D65>>::into_format", &key, &inp[2..], &[r.luma], &want[2..]);
        let r = Alpha::<Luma<Srgb, T>, U> { color: Luma::new(a), alpha: al }.into_format::<U, T>();
        chk(out, CW, "Alpha<Luma>::into_format", &key, &inp[..1], &[r.color.luma], &want[..1]);
        chk(out, AW, "Alpha<Luma>::into_format", &rkey, &[al], &[r.alpha], &want_al);
        let r = Alpha::<Luma<Srgb, U>, T>::from_format(Alpha::<Luma<Srgb, T>, U> { color: Luma::new(b), alpha: al });
        chk(out, CW, "Alpha<Luma>::from_format", &key, &inp[1..2], &[r.color.luma], &want[1..2]);
        chk(out, AW, "Alpha<Luma>::from_format", &rkey, &[al], &[r.alpha], &want_al);
        // ---- Lms, Lmsa
        let r = VonKriesLms::<D65, T>::new(a, b, c).into_format::<U>();
        chk(out, CW, "Lms<VonKries>::into_format", &key, &inp, &[r.long, r.medium, r.short], &want);
        let r = VonKriesLms::<D65, U>::from_format(VonKriesLms::<D65, T>::new(a, b, c));
        chk(out, CW, "Lms<VonKries>::from_format", &key, &inp, &[r.long, r.medium, r.short], &want);
        let r = BradfordLms::<D65, T>::new(a, b, c).into_format::<U>();
        chk(out, CW, "Lms<Bradford>::into_format", &key, &inp, &[r.long, r.medium, r.short], &want);
        let r = Alpha::<VonKriesLms<D65, T>, U> { color: VonKriesLms::<D65, T>::new(a, b, c), alpha: al }.into_format::<U, T>();
        chk(out, CW, "Alpha<Lms>::into_format", &key, &inp, &[r.color.long, r.color.medium, r.color.short], &want);
        chk(out, AW, "Alpha<Lms>::into_format", &rkey, &[al], &[r.alpha], &want_al);
        let r = Alpha::<VonKriesLms<D65, U>, T>::from_format(Alpha::<VonKriesLms<D65, T>, U> { color: VonKriesLms::<D65, T>::new(a, b, c), alpha: al });
        chk(out, CW, "Alpha<Lms>::from_format", &key, &inp, &[r.color.long, r.color.medium, r.color.short], &want);
        chk(out, AW, "Alpha<Lms>::from_format", &rkey, &[al], &[r.alpha], &want_al);
        // ---- the alpha conversion inside the transfer-function forms (colour fixed at f32; its conversion is C05's)
        let r = Alpha::<Rgb<Srgb, f32>, T> { color: Rgb::new(0.25, 0.5, 0.75), alpha: a }.into_linear::<f32, U>();
        chk(out, AW, "Alpha<Rgb>::into_linear", &key, &inp[..1], &[r.alpha], &want[..1]);
        let r = Alpha::<Rgb<Srgb, f32>, U>::from_linear(Alpha::<Rgb<Linear<Srgb>, f32>, T> { color: Rgb::new(0.25, 0.5, 0.75), alpha: b });
        chk(out, AW, "Alpha<Rgb>::from_linear", &key, &inp[1..2], &[r.alpha], &want[1..2]);
        let r = Alpha::<Rgb<Linear<Srgb>, f32>, T> { color: Rgb::new(0.25, 0.5, 0.75), alpha: c }.into_encoding::<f32, U, Srgb>();
        chk(out, AW, "Alpha<Rgb>::into_encoding", &key, &inp[2..], &[r.alpha], &want[2..]);
        let r = Alpha::<Rgb<Linear<Srgb>, f32>, U>::from_encoding(Alpha::<Rgb<Srgb, f32>, T> { color: Rgb::new(0.25, 0.5, 0.75), alpha: a });
        chk(out, AW, "Alpha<Rgb>::from_encoding", &key, &inp[..1], &[r.alpha], &want[..1]);
        let r = Alpha::<Luma<Srgb, f32>, T> { color: Luma::new(0.5), alpha: b }.into_linear::<f32, U>();
        chk(out, AW, "Alpha<Luma>::into_linear", &key, &inp[1..2], &[r.alpha], &want[1..2]);
        let r = Alpha::<Luma<Srgb, f32>, U>::from_linear(Alpha::<Luma<Linear<D65>, f32>, T> { color: Luma::new(0.5), alpha: c });
        chk(out, AW, "Alpha<Luma>::from_linear", &key, &inp[2..], &[r.alpha], &want[2..]);
        let r = Alpha::<Luma<Linear<D65>, f32>, T> { color: Luma::new(0.5), alpha: a }.into_encoding::<f32, U, Srgb>();
        chk(out, AW, "Alpha<Luma>::into_encoding", &key, &inp[..1], &[r.alpha], &want[..1]);
        let r = Alpha::<Luma<Linear<D65>, f32>, U>::from_encoding(Alpha::<Luma<Srgb, f32>, T> { color: Luma::new(0.5), alpha: b });
        chk(out, AW, "Alpha<Luma>::from_encoding", &key, &inp[1..2], &[r.alpha], &want[1..2]);
    }
}} }

/// one hue-bearing type: `$mk` builds the colour from (raw hue, x, y), `$f1 / $f2` are its two stimulus fields
macro_rules! hue_type { ($out:expr, $name:expr, $key:expr, $akey:expr, $T:ty, $U:ty, $A:ty, $B:ty, $C:ident < $($S:ty),* >, $Hue:ident, $f1:ident, $f2:ident, $h:expr, $inp:expr, $want:expr, $al:expr, $want_al:expr, from_format: $ff:tt, emit: $emit:expr) => {{
    let (inp, want): (&[$T; 2], &[$U; 2]) = ($inp, $want);
    let r = $C::<$($S,)* $T>::new_const($Hue::new($h), inp[0], inp[1]).into_format::<$U>();
    chk($out, CW, concat!($name, "::into_format"), $key, inp, &[r.$f1, r.$f2], want);
    if $emit { $out.case(&format!("stim {} {} | {} | {}", <$T as Comp>::TY, <$U as Comp>::TY, inp[0].txt(), r.$f1.txt())); }
    hue_type!(@ff $ff, $out, $name, $key, $T, $U, $C < $($S),* >, $Hue, $f1, $f2, $h, inp, want);
    let r = Alpha::<$C<$($S,)* $T>, $A> { color: $C::new_const($Hue::new($h), inp[0], inp[1]), alpha: $al }.into_format::<$U, $B>();
    chk($out, CW, concat!("Alpha<", $name, ">::into_format"), $key, inp, &[r.color.$f1, r.color.$f2], want);
    chk($out, AW, concat!("Alpha<", $name, ">::into_format"), $akey, &[$al], &[r.alpha], $want_al);
    let r = Alpha::<$C<$($S,)* $U>, $B>::from_format(Alpha::<$C<$($S,)* $T>, $A> { color: $C::new_const($Hue::new($h), inp[0], inp[1]), alpha: $al });
    chk($out, CW, concat!("Alpha<", $name, ">::from_format"), $key, inp, &[r.color.$f1, r.color.$f2], want);
    chk($out, AW, concat!("Alpha<", $name, ">::from_format"), $akey, &[$al], &[r.alpha], $want_al);
}};
    (@ff yes, $out:expr, $name:expr, $key:expr, $T:ty, $U:ty, $C:ident < $($S:ty),* >, $Hue:ident, $f1:ident, $f2:ident, $h:expr, $inp:expr, $want:expr) => {
        let r = $C::<$($S,)* $U>::from_format($C::<$($S,)* $T>::new_const($Hue::new($h), $inp[0], $inp[1]));
        chk($out, CW, concat!($name, "::from_format"), $key, $inp, &[r.$f1, r.$f2], $want);
    };
    // `Okhsv` and `Okhwb` have no opaque `from_format`
    (@ff no, $out:expr, $name:expr, $key:expr, $T:ty, $U:ty, $C:ident < $($S:ty),* >, $Hue:ident, $f1:ident, $f2:ident, $h:expr, $inp:expr, $want:expr) => {};
}

/// colour pair (T, U) in {u8, f32, f64}^2 (what `FromAngle` admits), alpha pair (A, B) any
macro_rules! hue_forms { ($out:expr, $s:expr, $T:ty, $U:ty, $A:ty, $B:ty) => {{
    let out: &mut Out = $out; let s: &Srcs = $s;
    let xs: &Vec<$T> = <$T as Comp>::of(s); let als: &Vec<$A> = <$A as Comp>::of(s);
    let key = format!("{}->{}", <$T as Comp>::TY, <$U as Comp>::TY);
    let akey = format!("{}->{}", <$A as Comp>::TY, <$B as Comp>::TY);
    for i in 0..xs.len() {
        let (a, b, h) = (xs[i], xs[(i + 1) % xs.len()], xs[(i + 2) % xs.len()]);
        let al: $A = als[i % als.len()];
        let inp = [a, b];
        let want: [$U; 2] = [IntoStimulus::<$U>::into_stimulus(a), IntoStimulus::<$U>::into_stimulus(b)];
        let want_al: [$B; 1] = [IntoStimulus::<$B>::into_stimulus(al)];
        out.count("cls:forms:hue-colour");
        hue_type!(out, "Hsl<Srgb>", &key, &akey, $T, $U, $A, $B, Hsl<Srgb>, RgbHue, saturation, lightness, h, &inp, &want, al, &want_al, from_format: yes, emit: i % 4 == 0);
        hue_type!(out, "Hsv<Srgb>", &key, &akey, $T, $U, $A, $B, Hsv<Srgb>, RgbHue, saturation, value, h, &inp, &want, al, &want_al, from_format: yes, emit: i % 4 == 1);
        hue_type!(out, "Hwb<Srgb>", &key, &akey, $T, $U, $A, $B, Hwb<Srgb>, RgbHue, whiteness, blackness, h, &inp, &want, al, &want_al, from_format: yes, emit: i % 4 == 2);
        hue_type!(out, "Okhsl", &key, &akey, $T, $U, $A, $B, Okhsl<>, OklabHue, saturation, lightness, h, &inp, &want, al, &want_al, from_format: yes, emit: i % 4 == 3);
        hue_type!(out, "Okhsv", &key, &akey, $T, $U, $A, $B, Okhsv<>, OklabHue, saturation, value, h, &inp, &want, al, &want_al, from_format: no, emit: i % 4 == 0);
        hue_type!(out, "Okhwb", &key, &akey, $T, $U, $A, $B, Okhwb<>, OklabHue, whiteness, blackness, h, &inp, &want, al, &want_al, from_format: no, emit: i % 4 == 1);
        // non-default RGB standard (generic today; guard)
        if i % 4 == 0 { hue_type!(out, "Hsl<AdobeRgb>", &key, &akey, $T, $U, $A, $B, Hsl<AdobeRgb>, RgbHue, saturation, lightness, h, &inp, &want, al, &want_al, from_format: yes, emit: false); }
        if i % 4 == 1 { hue_type!(out, "Hsv<Linear<Srgb>>", &key, &akey, $T, $U, $A, $B, Hsv<Linear<Srgb>>, RgbHue, saturation, value, h, &inp, &want, al, &want_al, from_format: yes, emit: false); }
        if i % 4 == 2 { hue_type!(out, "Hwb<AdobeRgb>", &key, &akey, $T, $U, $A, $B, Hwb<AdobeRgb>, RgbHue, whiteness, blackness, h, &inp, &want, al, &want_al, from_format: yes, emit: false); }
    }
}} }

pub fn run_more(out: &mut Out, rng: &mut Rng, tier: &str) {
    let n = if tier == "thorough" { 4000 } else { 256 };
    let s = Srcs { u8: <u8 as Gen>::srcs(rng, n), u16: <u16 as Gen>::srcs(rng, n), u32: <u32 as Gen>::srcs(rng, n), u64: <u64 as Gen>::srcs(rng, n),
                   u128: <u128 as Gen>::srcs(rng, n), f32: <f32 as Gen>::srcs(rng, n), f64: <f64 as Gen>::srcs(rng, n) };
    let s = &s;
    macro_rules! row { ($T:ty) => { pair_forms!(out, s, $T, u8); pair_forms!(out, s, $T, u16); pair_forms!(out, s, $T, u32); pair_forms!(out, s, $T, u64);
                                     pair_forms!(out, s, $T, u128); pair_forms!(out, s, $T, f32); pair_forms!(out, s, $T, f64); } }
    row!(u8); row!(u16); row!(u32); row!(u64); row!(u128); row!(f32); row!(f64);

    // hue-bearing types: all 49 alpha pairs (A, B), the 9 colour pairs of {u8, f32, f64} cycling under them (each colour pair 5-6 times)
    hue_forms!(out, s, u8, u8, u8, u8); hue_forms!(out, s, u8, f32, u8, u16); hue_forms!(out, s, u8, f64, u8, u32); hue_forms!(out, s, f32, u8, u8, u64); hue_forms!(out, s, f32, f32, u8, u128); hue_forms!(out, s, f32, f64, u8, f32); hue_forms!(out, s, f64, u8, u8, f64);
    hue_forms!(out, s, f64, f32, u16, u8); hue_forms!(out, s, f64, f64, u16, u16); hue_forms!(out, s, u8, u8, u16, u32); hue_forms!(out, s, u8, f32, u16, u64); hue_forms!(out, s, u8, f64, u16, u128); hue_forms!(out, s, f32, u8, u16, f32); hue_forms!(out, s, f32, f32, u16, f64);
    hue_forms!(out, s, f32, f64, u32, u8); hue_forms!(out, s, f64, u8, u32, u16); hue_forms!(out, s, f64, f32, u32, u32); hue_forms!(out, s, f64, f64, u32, u64); hue_forms!(out, s, u8, u8, u32, u128); hue_forms!(out, s, u8, f32, u32, f32); hue_forms!(out, s, u8, f64, u32, f64);
    hue_forms!(out, s, f32, u8, u64, u8); hue_forms!(out, s, f32, f32, u64, u16); hue_forms!(out, s, f32, f64, u64, u32); hue_forms!(out, s, f64, u8, u64, u64); hue_forms!(out, s, f64, f32, u64, u128); hue_forms!(out, s, f64, f64, u64, f32); hue_forms!(out, s, u8, u8, u64, f64);
    hue_forms!(out, s, u8, f32, u128, u8); hue_forms!(out, s, u8, f64, u128, u16); hue_forms!(out, s, f32, u8, u128, u32); hue_forms!(out, s, f32, f32, u128, u64); hue_forms!(out, s, f32, f64, u128, u128); hue_forms!(out, s, f64, u8, u128, f32); hue_forms!(out, s, f64, f32, u128, f64);
    hue_forms!(out, s, f64, f64, f32, u8); hue_forms!(out, s, u8, u8, f32, u16); hue_forms!(out, s, u8, f32, f32, u32); hue_forms!(out, s, u8, f64, f32, u64); hue_forms!(out, s, f32, u8, f32, u128); hue_forms!(out, s, f32, f32, f32, f32); hue_forms!(out, s, f32, f64, f32, f64);
    hue_forms!(out, s, f64, u8, f64, u8); hue_forms!(out, s, f64, f32, f64, u16); hue_forms!(out, s, f64, f64, f64, u32); hue_forms!(out, s, u8, u8, f64, u64); hue_forms!(out, s, u8, f32, f64, u128); hue_forms!(out, s, u8, f64, f64, f32); hue_forms!(out, s, f32, u8, f64, f64);

    from_impls(out, s);
    lin_from_impls(out, s);
}

fn from_impls(out: &mut Out, s: &Srcs) {
    macro_rules! rgb_from { ($T:ty, $U:ty) => {{
        let mk = |a: $T, b: $T, c: $T| Rgb::<Srgb, $T>::new(a, b, c);
        let mka = |a: $T, b: $T, c: $T, d: $T| Alpha::<Rgb<Srgb, $T>, $T> { color: Rgb::new(a, b, c), alpha: d };
        for i in 0..<$T as Comp>::of(s).len() {
            let xs = <$T as Comp>::of(s);
            let (a, b, c, d) = (xs[i], xs[(i + 1) % xs.len()], xs[(i + 2) % xs.len()], xs[(i + 3) % xs.len()]);
            let key = format!("{}->{}", <$T as Comp>::TY, <$U as Comp>::TY);
            let want: [$U; 4] = [IntoStimulus::<$U>::into_stimulus(a), IntoStimulus::<$U>::into_stimulus(b), IntoStimulus::<$U>::into_stimulus(c), IntoStimulus::<$U>::into_stimulus(d)];
            out.count("cls:forms:from-impl");
            let r: Rgb<Srgb, $U> = Rgb::<Srgb, $U>::from(mk(a, b, c));
            chk(out, CW, "From<Rgb>", &key, &[a, b, c], &[r.red, r.green, r.blue], &want[..3]);
            let r: Rgb<Linear<Srgb>, $U> = Rgb::<Linear<Srgb>, $T>::new(a, b, c).into();
            chk(out, CW, "Into<Rgb<Linear<Srgb>>>", &key, &[a, b, c], &[r.red, r.green, r.blue], &want[..3]);
            let r: Alpha<Rgb<Srgb, $U>, $U> = Alpha::<Rgb<Srgb, $U>, $U>::from(mka(a, b, c, d));
            chk(out, CW, "From<Alpha<Rgb>>", &key, &[a, b, c], &[r.color.red, r.color.green, r.color.blue], &want[..3]);
            chk(out, AW, "From<Alpha<Rgb>>", &key, &[d], &[r.alpha], &want[3..]);
        }
    }} }
    rgb_from!(u8, f32); rgb_from!(f32, u8); rgb_from!(u8, f64); rgb_from!(f64, u8); rgb_from!(f32, f64); rgb_from!(f64, f32);
    macro_rules! lms_from { ($T:ty, $U:ty) => {{
        let xs = <$T as Comp>::of(s);
        let key = format!("{}->{}", <$T as Comp>::TY, <$U as Comp>::TY);
        for i in 0..xs.len() {
            let (a, b, c, d) = (xs[i], xs[(i + 1) % xs.len()], xs[(i + 2) % xs.len()], xs[(i + 3) % xs.len()]);
            let want: [$U; 4] = [IntoStimulus::<$U>::into_stimulus(a), IntoStimulus::<$U>::into_stimulus(b), IntoStimulus::<$U>::into_stimulus(c), IntoStimulus::<$U>::into_stimulus(d)];
            out.count("cls:forms:from-impl");
            let r: VonKriesLms<D65, $U> = VonKriesLms::<D65, $U>::from(VonKriesLms::<D65, $T>::new(a, b, c));
            chk(out, CW, "From<Lms>", &key, &[a, b, c], &[r.long, r.medium, r.short], &want[..3]);
            let r: Alpha<VonKriesLms<D65, $U>, $U> = Alpha::<VonKriesLms<D65, $U>, $U>::from(Alpha::<VonKriesLms<D65, $T>, $T> { color: VonKriesLms::<D65, $T>::new(a, b, c), alpha: d });
            chk(out, CW, "From<Alpha<Lms>>", &key, &[a, b, c], &[r.color.long, r.color.medium, r.color.short], &want[..3]);
            chk(out, AW, "From<Alpha<Lms>>", &key, &[d], &[r.alpha], &want[3..]);
        }
    }} }
    lms_from!(f32, f64); lms_from!(f64, f32);
}

/// `From<LinSrgba<T>> for Srgba<U>` and `From<Srgba<T>> for LinSrgba<U>` (rgb.rs): the colour goes through the transfer function
/// (C05), the alpha through `FromStimulus` — only the alpha is looked at
fn lin_from_impls(out: &mut Out, s: &Srcs) {
    macro_rules! enc { ($T:ty, $U:ty, $c1:expr, $c2:expr, $c3:expr) => {{
        let xs = <$T as Comp>::of(s);
        let key = format!("{}->{}", <$T as Comp>::TY, <$U as Comp>::TY);
        for &a in xs.iter() {
            let want: [$U; 1] = [IntoStimulus::<$U>::into_stimulus(a)];
            let r: Srgba<$U> = Srgba::<$U>::from(LinSrgba::<$T>::new($c1, $c2, $c3, a));
            chk(out, AW, "From<LinSrgba>-for-Srgba", &key, &[a], &[r.alpha], &want);
        }
    }} }
    macro_rules! dec { ($T:ty, $U:ty, $c1:expr, $c2:expr, $c3:expr) => {{
        let xs = <$T as Comp>::of(s);
        let key = format!("{}->{}", <$T as Comp>::TY, <$U as Comp>::TY);
        for &a in xs.iter() {
            let want: [$U; 1] = [IntoStimulus::<$U>::into_stimulus(a)];
            let r: LinSrgba<$U> = LinSrgba::<$U>::from(Srgba::<$T>::new($c1, $c2, $c3, a));
            chk(out, AW, "From<Srgba>-for-LinSrgba", &key, &[a], &[r.alpha], &want);
        }
    }} }
    enc!(f32, f32, 0.25, 0.5, 0.75); enc!(f64, f64, 0.25, 0.5, 0.75); enc!(f32, u8, 0.25, 0.5, 0.75); enc!(f64, u8, 0.25, 0.5, 0.75);
    dec!(f32, f32, 0.25, 0.5, 0.75); dec!(f64, f64, 0.25, 0.5, 0.75); dec!(u8, f32, 64, 128, 191); dec!(u8, f64, 64, 128, 191);
}
