//! C02 — conversions match the published colorimetric definitions (every directly implemented edge).
use crate::common::*;

pub fn run(tier: &str, seed: u64, dir: &str) {
    let mut out = Out::new("C02", dir);
    let mut rng = Rng::new(seed);
    crate::conv_cie::run_family(&mut out, &mut rng, tier);
    crate::conv_rgb::run_family(&mut out, &mut rng, tier);
    crate::conv_ok::run_family(&mut out, &mut rng, tier);
    // coverage audit (AUDIT_C02.md): configurations, entry points and forms the family modules do not drive; last, so that the earlier case stream is unchanged
    crate::c02_more::run_more(&mut out, &mut rng, tier);
    out.finish(dir, "");
}
