//! Published tristimulus values of the CIE standard illuminants (Y = 1), 2° and 10° observer: ASTM E308-01 as tabulated by
//! Lindbloom ("Reference white") — the same table as lean/PaletteSpec/WhitePoints.lean, written from the publication, not from palette.
//! The theorem `C02Wp.white_points_published` decides the extracted constants against it; this clause gives the *witness* when a
//! constant of white_point.rs is wrong in the source (seed C14-9: two digits of illuminant B transposed), where the code's own logic
//! has no failing input: the white point returned through the public API next to the published value.
//! Tolerance: 5e-5 (palette rounds the 10° observer values to four digits; same bound as the theorem) + 1e-6 for the f32 reading.
use crate::common::Out;
use palette::white_point::{self as wp, WhitePoint};

pub fn run(out: &mut Out, prop: &str) {
    macro_rules! one { ($w:ty, $name:expr, $x:expr, $z:expr) => {{
        let a: palette::Xyz<wp::Any, f64> = <$w as WhitePoint<f64>>::get_xyz();
        let b: palette::Xyz<wp::Any, f32> = <$w as WhitePoint<f32>>::get_xyz();
        let ok64 = (a.x - $x).abs() <= 5.0e-5 && a.y == 1.0 && (a.z - $z).abs() <= 5.0e-5;
        let ok32 = ((b.x as f64) - $x).abs() <= 5.1e-5 && b.y == 1.0 && ((b.z as f64) - $z).abs() <= 5.1e-5;
        out.check(ok64, &format!("white-point=published:{}:f64", $name), || format!("{}::get_xyz() = ({:e}, {:e}, {:e}), published ASTM E308 ({:e}, 1, {:e}) [{}]", $name, a.x, a.y, a.z, $x, $z, prop));
        out.check(ok32, &format!("white-point=published:{}:f32", $name), || format!("{}::get_xyz() = ({:e}, {:e}, {:e}), published ASTM E308 ({:e}, 1, {:e}) [{}]", $name, b.x, b.y, b.z, $x, $z, prop));
    }}; }
    one!(wp::A, "A", 1.09850, 0.35585); one!(wp::B, "B", 0.99072, 0.85223); one!(wp::C, "C", 0.98074, 1.18232);
    one!(wp::D50, "D50", 0.96422, 0.82521); one!(wp::D55, "D55", 0.95682, 0.92149); one!(wp::D65, "D65", 0.95047, 1.08883);
    one!(wp::D75, "D75", 0.94972, 1.22638); one!(wp::E, "E", 1.0, 1.0); one!(wp::F2, "F2", 0.99186, 0.67393);
    one!(wp::F7, "F7", 0.95041, 1.08747); one!(wp::F11, "F11", 1.00962, 0.64350);
    one!(wp::D50Degree10, "D50Degree10", 0.96720, 0.81427); one!(wp::D55Degree10, "D55Degree10", 0.95799, 0.90926);
    one!(wp::D65Degree10, "D65Degree10", 0.94811, 1.07304); one!(wp::D75Degree10, "D75Degree10", 0.94416, 1.20641);
}
