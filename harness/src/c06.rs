//! C06 — component number-format conversion (`palette::stimulus`).
use crate::common::*;
use palette::stimulus::IntoStimulus;

#[derive(Clone, Copy, Debug, PartialEq)]
pub enum V { U8(u8), U16(u16), U32(u32), U64(u64), U128(u128), F32(f32), F64(f64) }
pub const TYS: [&str; 7] = ["u8", "u16", "u32", "u64", "u128", "f32", "f64"];
impl V {
    pub fn ty(&self) -> &'static str { match self { V::U8(_) => "u8", V::U16(_) => "u16", V::U32(_) => "u32", V::U64(_) => "u64", V::U128(_) => "u128", V::F32(_) => "f32", V::F64(_) => "f64" } }
    pub fn txt(&self) -> String { match self { V::U8(x) => x.to_string(), V::U16(x) => x.to_string(), V::U32(x) => x.to_string(), V::U64(x) => x.to_string(), V::U128(x) => x.to_string(), V::F32(x) => h32(*x), V::F64(x) => h64(*x) } }
    pub fn as_u128(&self) -> Option<u128> { match self { V::U8(x) => Some(*x as u128), V::U16(x) => Some(*x as u128), V::U32(x) => Some(*x as u128), V::U64(x) => Some(*x as u128), V::U128(x) => Some(*x), _ => None } }
    pub fn as_f64(&self) -> Option<f64> { match self { V::F32(x) => Some(*x as f64), V::F64(x) => Some(*x), _ => None } }
}
pub fn max_of(ty: &str) -> u128 { match ty { "u8" => u8::MAX as u128, "u16" => u16::MAX as u128, "u32" => u32::MAX as u128, "u64" => u64::MAX as u128, "u128" => u128::MAX, _ => 0 } }
pub fn bits_of(ty: &str) -> u32 { match ty { "u8" => 8, "u16" => 16, "u32" => 32, "u64" => 64, "u128" => 128, _ => 0 } }

macro_rules! conv_to { ($x:expr, $dst:expr) => { match $dst {
    "u8" => V::U8(IntoStimulus::<u8>::into_stimulus($x)), "u16" => V::U16(IntoStimulus::<u16>::into_stimulus($x)),
    "u32" => V::U32(IntoStimulus::<u32>::into_stimulus($x)), "u64" => V::U64(IntoStimulus::<u64>::into_stimulus($x)),
    "u128" => V::U128(IntoStimulus::<u128>::into_stimulus($x)), "f32" => V::F32(IntoStimulus::<f32>::into_stimulus($x)),
    "f64" => V::F64(IntoStimulus::<f64>::into_stimulus($x)), _ => unreachable!() } } }
/// the implementation under test
pub fn conv(v: V, dst: &str) -> V {
    match v { V::U8(x) => conv_to!(x, dst), V::U16(x) => conv_to!(x, dst), V::U32(x) => conv_to!(x, dst), V::U64(x) => conv_to!(x, dst),
              V::U128(x) => conv_to!(x, dst), V::F32(x) => conv_to!(x, dst), V::F64(x) => conv_to!(x, dst) }
}

fn mk_uint(ty: &str, x: u128) -> V { match ty { "u8" => V::U8(x as u8), "u16" => V::U16(x as u16), "u32" => V::U32(x as u32), "u64" => V::U64(x as u64), _ => V::U128(x) } }

/// interesting unsigned sources of a width
fn uint_sources(ty: &str, rng: &mut Rng, n_rand: usize, out: &mut Vec<V>) {
    let max = max_of(ty); let bits = bits_of(ty);
    let mut push = |x: u128| out.push(mk_uint(ty, x & max));
    for k in 0..bits { let p = 1u128 << k; push(p); push(p - 1); push(p + 1); push(max - p); push(max - p + 1); }
    push(0); push(max); push(max / 2); push(max / 2 + 1); push(max / 255); push(max / 3);
    for _ in 0..n_rand { let r = ((rng.next() as u128) << 64) | rng.next() as u128; let sh = rng.below(bits as u64) as u32; push((r & max) >> sh); }
}
fn f32_sources(rng: &mut Rng, n_rand: usize, out: &mut Vec<V>) {
    let specials = [0.0f32, -0.0, 1.0, -1.0, 0.5, 0.25, -0.25, 2.0, 1e-9, -1e-9, f32::MIN_POSITIVE, -f32::MIN_POSITIVE, f32::MAX, f32::MIN,
        f32::INFINITY, f32::NEG_INFINITY, f32::NAN, -800.0, -1e5, -0.3, 1.4, 8388608.0, 16777216.0, -8388608.0, 1.0 / 255.0, 0.5 / 255.0, 1.5 / 255.0, 2.5 / 255.0,
        0.5 / 65535.0, 1.5 / 65535.0, 32768.0 / 65535.0, -32899.0 / 255.0, -32.9, -129.0 / 65535.0 * 65535.0, f32::from_bits(0x4b44_0000), f32::from_bits(1), f32::from_bits(0x8000_0001), f32::from_bits(0x7fc0_0001), f32::from_bits(0xffc0_0000)];
    for s in specials { for k in [-2, -1, 0, 1, 2] { out.push(V::F32(nudge32(s, k))); } }
    // rounding ties of x*MAX for the small targets
    for m in [255.0f32, 65535.0] { for _ in 0..n_rand / 8 { let k = rng.below(m as u64) as f32 + 0.5; let x = k / m; for d in [-1, 0, 1] { out.push(V::F32(nudge32(x, d))); } } }
    for m in [255.0f64, 65535.0, 4294967295.0, 18446744073709551615.0, 340282366920938463463374607431768211455.0] {
        for t in [8388608.0f64, 16777216.0, 4503599627370496.0, 9007199254740992.0] { for d in -3..=3 { out.push(V::F32(nudge32((t / m) as f32, d))); } }
    }
    for k in 0..=130 { for d in -2..=2 { out.push(V::F32(nudge32(2f32.powi(-k), d))); } }
    for _ in 0..n_rand { out.push(V::F32(rng.unit() as f32)); }
    for _ in 0..n_rand / 2 { out.push(V::F32(f32::from_bits(rng.next() as u32))); }
    for _ in 0..n_rand / 4 { out.push(V::F32(rng.range(-2.0, 3.0) as f32)); }
    for _ in 0..n_rand / 4 { let e = rng.range(-40.0, 40.0); let s = if rng.chance(0.5) { -1.0 } else { 1.0 }; out.push(V::F32((s * 10f64.powf(e)) as f32)); }
}
fn f64_sources(rng: &mut Rng, n_rand: usize, out: &mut Vec<V>) {
    let specials = [0.0f64, -0.0, 1.0, -1.0, 0.5, 0.25, -0.25, 2.0, 1e-9, -1e-9, f64::MIN_POSITIVE, f64::MAX, f64::MIN, f64::INFINITY, f64::NEG_INFINITY, f64::NAN,
        -800.0, -1e5, -1e18, -0.3, 1.4, 4503599627370496.0, 9007199254740992.0, 1.0 / 255.0, 0.5 / 255.0, 1.5 / 255.0, 0.5 / 65535.0, 0.5 / 4294967295.0, 1.5 / 4294967295.0,
        1.0 / 18446744073709551615.0, 0.5 / 18446744073709551615.0, -((1u64 << 52) as f64) / 255.0, -((1u64 << 52) as f64) / 65535.0, f64::from_bits(1), f64::from_bits(0x7ff8_0000_0000_0001)];
    for s in specials { for k in [-2, -1, 0, 1, 2] { out.push(V::F64(nudge64(s, k))); } }
    for m in [255.0f64, 65535.0, 4294967295.0] { for _ in 0..n_rand / 8 { let k = rng.below(m as u64) as f64 + 0.5; let x = k / m; for d in [-1, 0, 1] { out.push(V::F64(nudge64(x, d))); } } }
    for _ in 0..n_rand { out.push(V::F64(rng.unit())); }
    for _ in 0..n_rand / 2 { out.push(V::F64(f64::from_bits(rng.next()))); }
    for _ in 0..n_rand / 4 { out.push(V::F64(rng.range(-2.0, 3.0))); }
    for _ in 0..n_rand / 4 { let e = rng.range(-300.0, 300.0); let s = if rng.chance(0.5) { -1.0 } else { 1.0 }; out.push(V::F64(s * 10f64.powf(e))); }
    for k in 0..64 { out.push(V::F64(1.0 / (1u128 << k) as f64)); out.push(V::F64(1.0 - 1.0 / (1u128 << k.min(53)) as f64)); }
    // the code's own switch-over points: x*MAX next to 2^23, 2^24, 2^52, 2^53 (magic-number range / direct cast), for every target MAX,
    // and every power of two down to 2^-130, each with its neighbouring floats
    for m in [255.0f64, 65535.0, 4294967295.0, 18446744073709551615.0, 340282366920938463463374607431768211455.0] {
        for t in [8388608.0f64, 16777216.0, 4503599627370496.0, 9007199254740992.0] { for d in -3..=3 { out.push(V::F64(nudge64(t / m, d))); } }
    }
    for k in 0..=130 { for d in -2..=2 { out.push(V::F64(nudge64(2f64.powi(-k), d))); } }
}

/// Exact reference for float -> uint on [0,1]: the set of integers that are a nearest integer to the
/// *rounded* product fl(x*MAX) (the property allows one rounding of the product).  Returns (lo, hi) inclusive.
fn nearest_window(prod: f64, max: u128) -> (u128, u128) {
    // prod is the product rounded in the working precision (f32 products are exactly representable in f64)
    if prod >= max as f64 { return (max, max); }
    let fl = prod.floor();
    let frac = prod - fl;
    let lo = fl as u128;
    if frac == 0.0 { (lo, lo) } else if frac < 0.5 { (lo, lo) } else if frac > 0.5 { (lo + 1, lo + 1) } else { (lo, lo + 1) }
}

fn total_key64(x: f64) -> i64 { let b = x.to_bits() as i64; if b < 0 { i64::MIN.wrapping_sub(b) } else { b } }

pub fn run(tier: &str, seed: u64, dir: &str) {
    let mut out = Out::new("C06", dir);
    let mut rng = Rng::new(seed);
    let n = if tier == "thorough" { 40_000 } else { 4_000 };

    let mut src: Vec<V> = vec![];
    for ty in ["u8", "u16", "u32", "u64", "u128"] { uint_sources(ty, &mut rng, n / 4, &mut src); }
    for x in 0..=255u8 { src.push(V::U8(x)); }
    if tier == "thorough" { for x in 0..=65535u16 { src.push(V::U16(x)); } } else { for x in (0..=65535u32).step_by(97) { src.push(V::U16(x as u16)); } }
    f32_sources(&mut rng, n, &mut src);
    f64_sources(&mut rng, n, &mut src);

    // ---- correspondence lines + point-wise oracle
    for v in &src {
        for dst in TYS {
            let r = conv(*v, dst);
            out.case(&format!("stim {} {} | {} | {}", v.ty(), dst, v.txt(), r.txt()));
            point_oracle(&mut out, *v, dst, r);
        }
    }
    // ---- monotonicity over sorted sources, per (src type, dst type)
    for sty in TYS {
        let mut xs: Vec<V> = src.iter().cloned().filter(|v| v.ty() == sty && v.as_f64().map_or(true, |f| !f.is_nan())).collect();
        xs.sort_by(|a, b| match (a.as_u128(), b.as_u128()) { (Some(x), Some(y)) => x.cmp(&y), _ => a.as_f64().unwrap().partial_cmp(&b.as_f64().unwrap()).unwrap().then(total_key64(a.as_f64().unwrap()).cmp(&total_key64(b.as_f64().unwrap()))) });
        for dst in TYS {
            let mut prev: Option<(V, V)> = None;
            for v in &xs {
                let r = conv(*v, dst);
                if let Some((pv, pr)) = prev {
                    let ok = match (pr.as_u128(), r.as_u128()) { (Some(a), Some(b)) => a <= b, _ => { let (a, b) = (pr.as_f64().unwrap(), r.as_f64().unwrap()); a <= b } };
                    out.check(ok, &format!("monotone:{}->{}", sty, dst), || format!("{} -> {} but {} -> {}", pv.txt(), pr.txt(), v.txt(), r.txt()));
                }
                prev = Some((*v, r));
            }
        }
    }
    // coverage audit: colour forms / entry points of the same conversions (`c06_more.rs`).  After the scalar stream, so that it is unchanged.
    crate::c06_more::run_more(&mut out, &mut rng, tier);
    // ---- exhaustive scans (thorough): every f32 pattern for f32 -> u8/u16, every u32 for integer sources
    let mut extra = String::new();
    if tier == "thorough" {
        let (bp8, bad8) = exhaustive_f32::<u8>(&mut out, 255);
        let (bp16, bad16) = exhaustive_f32::<u16>(&mut out, 65535);
        let badu = exhaustive_u32(&mut out);
        extra = format!("\"exhaustive\":{{\"f32_to_u8_breakpoints\":{},\"f32_to_u8_bad\":{},\"f32_to_u16_breakpoints\":{},\"f32_to_u16_bad\":{},\"u32_sources_bad\":{}}}", bp8, bad8, bp16, bad16, badu);
    }
    out.finish(dir, &extra);
}

fn point_oracle(out: &mut Out, v: V, dst: &str, r: V) {
    let sty = v.ty();
    let key = format!("{}->{}", sty, dst);
    match (v.as_f64(), r.as_u128()) {
        (Some(x), Some(y)) => {
            // float -> uint
            let max = max_of(dst);
            if x.is_nan() || x >= 1.0 { out.check(y == max, &format!("saturate-high:{}", key), || format!("{} -> {} (want MAX)", v.txt(), y)); out.count("cls:float>=1|nan"); }
            else if x <= 0.0 { out.check(y == 0, &format!("saturate-low:{}", key), || format!("{} ({:e}) -> {} (want 0)", v.txt(), x, y)); out.count("cls:float<=0"); }
            else {
                // product in the working precision of the implementation: f32 only for (f32 -> u8/u16)
                let prod = if sty == "f32" && (dst == "u8" || dst == "u16") { ((x as f32) * (max as f32)) as f64 } else { x * (max as f64) };
                let (lo, hi) = nearest_window(prod, max);
                // for 64/128-bit targets the product itself carries 53 bits; allow the exact product's window as well
                out.check(lo <= y && y <= hi, &format!("nearest:{}", key), || format!("{} ({:e}) -> {} (nearest to x*MAX is {}..{})", v.txt(), x, y, lo, hi));
                out.count("cls:float-in(0,1)");
            }
        }
        (None, Some(y)) => {
            // uint -> uint
            let x = v.as_u128().unwrap();
            let (smax, dmax) = (max_of(sty), max_of(dst));
            if x == 0 { out.check(y == 0, &format!("zero:{}", key), || format!("0 -> {}", y)); }
            if x == smax { out.check(y == dmax, &format!("max:{}", key), || format!("MAX -> {}", y)); }
            if bits_of(dst) > bits_of(sty) && bits_of(sty) <= 32 {
                // widening then narrowing reproduces the original
                let back = conv(r, sty);
                out.check(back == v, &format!("widen-narrow:{}", key), || format!("{} -> {} -> {}", v.txt(), r.txt(), back.txt()));
                out.count("cls:widen-narrow");
            }
        }
        (None, None) => {
            // uint -> float
            let x = v.as_u128().unwrap();
            let f = r.as_f64().unwrap();
            if x == 0 { out.check(f == 0.0, &format!("zero:{}", key), || format!("0 -> {:e}", f)); }
            if x == max_of(sty) { out.check(f == 1.0, &format!("max:{}", key), || format!("MAX -> {:e}", f)); }
            let enough = (dst == "f32" && bits_of(sty) <= 16) || (dst == "f64" && bits_of(sty) <= 32);
            if enough {
                let back = conv(r, sty);
                out.check(back == v, &format!("int-float-int:{}", key), || format!("{} -> {} -> {}", v.txt(), r.txt(), back.txt()));
                out.count("cls:int-float-int");
            }
        }
        (Some(x), None) => {
            // float -> float: value preserved up to the target's precision
            let f = r.as_f64().unwrap();
            let ok = if x.is_nan() { f.is_nan() } else if dst == "f32" { f == (x as f32) as f64 } else { f == x };
            out.check(ok, &format!("float-float:{}", key), || format!("{} -> {}", v.txt(), r.txt()));
        }
    }
}

trait SmallU: Copy + PartialOrd + Into<u128> + Send + 'static {}
impl SmallU for u8 {} impl SmallU for u16 {}

/// every f32 bit pattern: saturation, nearest, monotone.  Returns (#breakpoints, #bad patterns).
fn exhaustive_f32<U: SmallU>(out: &mut Out, max: u32) -> (u64, u64) where f32: IntoStimulus<U> {
    let threads = 16u64;
    let chunk = (1u64 << 32) / threads;
    let handles: Vec<_> = (0..threads).map(|t| std::thread::spawn(move || {
        let mut bad: Vec<(u32, u128)> = vec![]; let mut nbad = 0u64; let mut bps = 0u64;
        let mut prev: Option<(f32, u128)> = None;
        for b in t * chunk..(t + 1) * chunk {
            let x = f32::from_bits(b as u32);
            let y: u128 = IntoStimulus::<U>::into_stimulus(x).into();
            let ok = if x.is_nan() || x >= 1.0 { y == max as u128 } else if x <= 0.0 { y == 0 } else { let (lo, hi) = nearest_window((x * max as f32) as f64, max as u128); lo <= y && y <= hi };
            // bit patterns ascend in magnitude within a sign: positive ascending = value ascending, negative ascending = value descending
            let mono = match prev { Some((px, py)) if !x.is_nan() && !px.is_nan() && (px.is_sign_negative() == x.is_sign_negative()) => if x.is_sign_negative() { y <= py } else { py <= y }, _ => true };
            if let Some((_, py)) = prev { if py != y { bps += 1; } }
            if !(ok && mono) { nbad += 1; if bad.len() < 4 { bad.push((b as u32, y)); } }
            prev = Some((x, y));
        }
        (bps, nbad, bad)
    })).collect();
    let (mut bps, mut nbad) = (0, 0);
    for h in handles { let (b, n, bad) = h.join().unwrap(); bps += b; nbad += n;
        for (bits, y) in bad { out.check(false, &format!("exhaustive:f32->u{}", if max == 255 { 8 } else { 16 }), || format!("x{:08x} ({:e}) -> {}", bits, f32::from_bits(bits), y)); } }
    out.oracle_evals += 1u64 << 32;
    (bps, nbad)
}

/// every u32 source: u32 -> u8/u16 monotone & ends, u32 -> u64 -> u32 identity, u32 -> f64 -> u32 identity; every u16 through f32.
fn exhaustive_u32(out: &mut Out) -> u64 {
    let threads = 16u64; let chunk = (1u64 << 32) / threads;
    let handles: Vec<_> = (0..threads).map(|t| std::thread::spawn(move || {
        let mut bad: Vec<String> = vec![]; let mut nbad = 0u64;
        let (mut p8, mut p16, mut pf) = (0u8, 0u16, -1.0f64);
        for b in t * chunk..(t + 1) * chunk {
            let x = b as u32;
            let y8: u8 = x.into_stimulus(); let y16: u16 = x.into_stimulus(); let y64: u64 = x.into_stimulus(); let f: f64 = x.into_stimulus();
            let back64: u32 = y64.into_stimulus(); let backf: u32 = f.into_stimulus();
            let ok = y8 >= p8 && y16 >= p16 && f > pf && back64 == x && backf == x;
            if !ok { nbad += 1; if bad.len() < 4 { bad.push(format!("u32 {} -> u8 {} u16 {} u64 {} (back {}) f64 {:e} (back {})", x, y8, y16, y64, back64, f, backf)); } }
            p8 = y8; p16 = y16; pf = f;
        }
        (nbad, bad)
    })).collect();
    let mut nbad = 0;
    for h in handles { let (n, bad) = h.join().unwrap(); nbad += n; for d in bad { out.check(false, "exhaustive:u32-sources", || d); } }
    out.oracle_evals += 1u64 << 32;
    nbad
}
