//! C16, second part (coverage audit, see AUDIT_C16.md): the forms and entry points inside the property's quantifier that are SEPARATE CODE in
//! palette (own impl block / macro-generated per type / derive-generated) and are not executed by `c16.rs`:
//!
//!  * `impl<T, A> Alpha<Cam16<T>, A>` (full.rs) and the six `impl<T, A> Alpha<$name<T>, A>` blocks of `make_partial_cam16!` (partial.rs):
//!    `from_xyz`, `into_xyz`, `from_full`, `into_full`, `new`, `From<Alpha<Cam16<T>, A>>` — alpha types equal to and different from `T`;
//!  * unbaked `Parameters` handed to `from_xyz` / `into_xyz` / `into_full` (`impl Into<BakedParameters>`) and `BakedParameters::from`;
//!  * `BakedParameters as Convert / ConvertOnce` for partial → XYZ, partial → Cam16, Cam16 → XYZ (the 12 impls of `impl_convert_cam16_partial!`
//!    and the `Cam16` one called directly), and the public trait entry points `IntoCam16Unclamped`, `Cam16FromUnclamped`, `Cam16IntoUnclamped`,
//!    `FromCam16Unclamped` (cam16.rs blanket impls, xyz.rs:418, full.rs:356, partial.rs:475);
//!  * `FromColorUnclamped<Self>` (identity impls), `FromColor` / `IntoColor` / `IntoColorUnclamped` of `Cam16` → partial, and the derive-generated
//!    `FromColorUnclamped<Alpha<..>>` / alpha.rs blanket forms;
//!  * the derive-generated CAM16-UCS routes (`Cam16UcsJab` ↔ `Cam16Jmh` in one step, `Cam16` → `Cam16UcsJmh` / `Cam16UcsJab`), the Alpha forms of the
//!    four UCS edges, and their `Vec` / `Box<[_]>` / `&mut [_]` forms;
//!  * dynamic white points with `Y_w ≠ 1` (every white of `c16.rs` has `Y_w = 1`, which makes `y_w` in `prepare_parameters` invisible);
//!  * stored hues whole turns away on the way back (protocol lines only: `cam16inv` / `cam16ful` of the driver).
//!
//! Predicates.  Every wrapper / trait form above is the SAME conversion as the inherent form `c16.rs` judges against the property (tolerances
//! justified there), so the clause is `uncovered form = covered form, bit for bit` (NaN = NaN) — tolerance 0, and the alpha is carried over
//! unchanged ("returns the original" for a colour with transparency).  The two derive-generated UCS routes are judged by the property's own
//! predicate (lossless), with the tolerance derived from the sibling clauses at the clause.
use crate::c16::{hue_dist_deg, spec_cam16, xyz_inputs, Vc, CORPUS};
use crate::common::*;
use palette::cam16::{BakedParameters, Cam16, Cam16FromUnclamped, Cam16IntoUnclamped, Cam16Jch, Cam16Jmh, Cam16Jsh, Cam16Qch, Cam16Qmh, Cam16Qsh, Cam16UcsJab, Cam16UcsJmh, Discounting,
    FromCam16Unclamped, IntoCam16Unclamped, Parameters, StaticWp, Surround};
use palette::convert::{Convert, ConvertOnce, FromColorUnclamped, IntoColorUnclamped, IntoColorUnclampedMut};
use palette::white_point::{Any, WhitePoint, D50, D65};
use palette::{Alpha, FromColor, IntoColor, Xyz};

/// bit for bit; two NaNs count as equal (a colour outside CAM16's domain yields NaN attributes in both forms)
fn eqb<T: Fl>(a: T, b: T) -> bool { a.bits64() == b.bits64() || (a.to64().is_nan() && b.to64().is_nan()) }
fn eqs<T: Fl>(a: &[T], b: &[T]) -> bool { a.len() == b.len() && a.iter().zip(b.iter()).all(|(x, y)| eqb(*x, *y)) }

macro_rules! set_params { ($p:expr, $vc:expr, $t:ty) => {{
    let mut p = $p;
    p.background_luminance = $vc.yb as $t;
    p.surround = match $vc.sur.0 { "dark" => Surround::Dark, "dim" => Surround::Dim, "average" => Surround::Average, _ => Surround::Percent($vc.sur.1 as $t) };
    p.discounting = match $vc.disc.0 { "auto" => Discounting::Auto, _ => Discounting::Custom($vc.disc.1 as $t) };
    p
}} }

/// one (white point kind, component type, alpha type): everything is instantiated concretely (no palette bound is restated here)
macro_rules! def_more { ($fname:ident, $wpp:ty, $swp:ty, $t:ty, $a:ty, $aval:expr) => {
#[allow(clippy::too_many_arguments)]
fn $fname(out: &mut Out, params: Parameters<$wpp, $t>, wp_tok: &str, wp: [$t; 3], vc: &Vc, xyzs: &[[f64; 3]], n_turn_lines: usize) {
    type T = $t; type A = $a;
    let tag = <T as Fl>::TAG;
    let eps = <T as Fl>::eps();
    let al: A = $aval;
    let baked: BakedParameters<$wpp, T> = params.bake();
    let baked_from: BakedParameters<$wpp, T> = BakedParameters::from(params);
    let p7: [T; 7] = [wp[0], wp[1], wp[2], vc.la as T, vc.yb as T, vc.sur.1 as T, vc.disc.1 as T];
    let cfg = format!("{} {} {}", wp_tok, vc.sur.0, vc.disc.0);
    let p7s = hx_list(&p7);
    let wp64 = [wp[0] as f64, wp[1] as f64, wp[2] as f64];
    let c6 = |c: Cam16<T>| -> [T; 6] { [c.lightness, c.chroma, c.hue.into_raw_degrees(), c.brightness, c.colorfulness, c.saturation] };
    let x3 = |c: Xyz<$swp, T>| -> [T; 3] { [c.x, c.y, c.z] };
    let who = || format!("alpha type {}, {:?} wp {:?}", stringify!($a), vc, wp);
    for (ix, x) in xyzs.iter().enumerate() {
        let xt: [T; 3] = [x[0] as T, x[1] as T, x[2] as T];
        let x64 = [xt[0] as f64, xt[1] as f64, xt[2] as f64];
        let xyz: Xyz<$swp, T> = Xyz::new(xt[0], xt[1], xt[2]);
        let xyza: Alpha<Xyz<$swp, T>, A> = Alpha { color: xyz, alpha: al };
        // ---------------- covered forms (judged against the property in c16.rs)
        let full: Cam16<T> = Cam16::from_xyz(xyz, baked);
        let fa = c6(full);
        let back: [T; 3] = x3(full.into_xyz(baked));
        out.count(&format!("cls:more:{}", tag));
        // ---------------- unbaked parameters / BakedParameters::from
        let f_unb: Cam16<T> = Cam16::from_xyz(xyz, params);
        let f_from: Cam16<T> = Cam16::from_xyz(xyz, baked_from);
        let b_unb: Xyz<$swp, T> = full.into_xyz(params);
        out.check(eqs(&c6(f_unb), &fa) && eqs(&c6(f_from), &fa) && eqs(&x3(b_unb), &back), &format!("unbaked-parameters=baked:Cam16:{}", tag), || format!("XYZ {:?}, {}: from_xyz {:?} / {:?} vs {:?}; into_xyz {:?} vs {:?}", xt, who(), c6(f_unb), c6(f_from), fa, x3(b_unb), back));
        // ---------------- trait entry points of the full type
        let t_into: Cam16<T> = xyz.into_cam16_unclamped(baked);
        let t_from: Cam16<T> = <Cam16<T> as Cam16FromUnclamped<$wpp, Xyz<$swp, T>>>::cam16_from_unclamped(xyz, baked);
        let t_once: Cam16<T> = ConvertOnce::convert_once(baked, xyz);
        out.check(eqs(&c6(t_into), &fa) && eqs(&c6(t_from), &fa) && eqs(&c6(t_once), &fa), &format!("trait-entry=from_xyz:Cam16:{}", tag), || format!("XYZ {:?}, {}: {:?} {:?} {:?} vs {:?}", xt, who(), c6(t_into), c6(t_from), c6(t_once), fa));
        let b_conv: Xyz<$swp, T> = Convert::convert(&baked, full);
        let b_once: Xyz<$swp, T> = ConvertOnce::convert_once(baked, full);
        let b_into: Xyz<$swp, T> = full.cam16_into_unclamped(baked);
        let b_from: Xyz<$swp, T> = <Xyz<$swp, T> as FromCam16Unclamped<$wpp, Cam16<T>>>::from_cam16_unclamped(full, baked);
        out.check(eqs(&x3(b_conv), &back) && eqs(&x3(b_once), &back) && eqs(&x3(b_into), &back) && eqs(&x3(b_from), &back), &format!("trait-entry=into_xyz:Cam16:{}", tag), || format!("{:?}, {}: {:?} {:?} {:?} {:?} vs {:?}", fa, who(), x3(b_conv), x3(b_once), x3(b_into), x3(b_from), back));
        // ---------------- Cam16a (full.rs `impl<T, A> Alpha<Cam16<T>, A>`)
        let fulla: Alpha<Cam16<T>, A> = <Alpha<Cam16<T>, A>>::from_xyz(xyza, baked);
        out.check(eqs(&c6(fulla.color), &fa) && fulla.alpha == al, &format!("alpha-form=plain:Cam16::from_xyz:{}", tag), || format!("XYZ {:?}, {}: {:?} alpha {:?} vs {:?} alpha {:?}", xt, who(), c6(fulla.color), fulla.alpha, fa, al));
        // (the inputs of the inverse / projection forms are built from the COVERED forward result, so that each clause isolates one form)
        let full_in: Alpha<Cam16<T>, A> = Alpha { color: full, alpha: al };
        let backa: Alpha<Xyz<$swp, T>, A> = full_in.into_xyz(baked);
        out.check(eqs(&x3(backa.color), &back) && backa.alpha == al, &format!("alpha-form=plain:Cam16::into_xyz:{}", tag), || format!("{:?}, {}: {:?} alpha {:?} vs {:?} alpha {:?}", fa, who(), x3(backa.color), backa.alpha, back, al));
        let fulla_unb: Alpha<Cam16<T>, A> = <Alpha<Cam16<T>, A>>::from_xyz(xyza, params);
        out.check(eqs(&c6(fulla_unb.color), &fa) && fulla_unb.alpha == al, &format!("unbaked-parameters=baked:Cam16a:{}", tag), || format!("XYZ {:?}, {}", xt, who()));
        // every attribute of an in-domain colour is >= 0: the clamped conversions then equal the unclamped ones
        let nonneg = fa.iter().enumerate().all(|(i, v)| i == 2 || *v >= 0.0);
        // reference for the domain of the UCS-from-full clause
        let sp = spec_cam16(x64, wp64, p7[3] as f64, p7[4] as f64, if vc.sur.0 == "percent" { p7[5] as f64 } else { vc.sur.1 }, if vc.disc.0 == "custom" { Some(p7[6] as f64) } else { None });
        let is_black = x64 == [0.0, 0.0, 0.0];
        let in_domain = sp.a_resp > 0.0 && sp.t_den > 0.0 && sp.j.is_finite();
        macro_rules! partial { ($ty:ident, $kname:expr, $lum:ident, $chr:ident) => {{
            let p3 = |p: $ty<T>| -> [T; 3] { [p.$lum, p.$chr, p.hue.into_raw_degrees()] };
            // covered forms
            let p: $ty<T> = $ty::from_xyz(xyz, baked);
            let pa = p3(p);
            let r: [T; 3] = x3(p.into_xyz(baked));
            let ex: [T; 6] = c6(p.into_full(baked));
            let pf: [T; 3] = p3($ty::from_full(full));
            // ---- unbaked parameters
            let p_unb: $ty<T> = $ty::from_xyz(xyz, params); let r_unb: Xyz<$swp, T> = p.into_xyz(params); let ex_unb: Cam16<T> = p.into_full(params);
            out.check(eqs(&p3(p_unb), &pa) && eqs(&x3(r_unb), &r) && eqs(&c6(ex_unb), &ex), &format!("unbaked-parameters=baked:{}:{}", $kname, tag), || format!("XYZ {:?}, {}: from_xyz {:?} vs {:?}; into_xyz {:?} vs {:?}; into_full {:?} vs {:?}", xt, who(), p3(p_unb), pa, x3(r_unb), r, c6(ex_unb), ex));
            // ---- trait entry points: XYZ -> partial
            let t1: $ty<T> = xyz.into_cam16_unclamped(baked);
            let t2: $ty<T> = <$ty<T> as Cam16FromUnclamped<$wpp, Xyz<$swp, T>>>::cam16_from_unclamped(xyz, baked);
            out.check(eqs(&p3(t1), &pa) && eqs(&p3(t2), &pa), &format!("trait-entry=from_xyz:{}:{}", $kname, tag), || format!("XYZ {:?}, {}: {:?} {:?} vs {:?}", xt, who(), p3(t1), p3(t2), pa));
            // ---- partial -> XYZ through Convert / ConvertOnce / Cam16IntoUnclamped / FromCam16Unclamped
            let c1: Xyz<$swp, T> = Convert::convert(&baked, p);
            let c2: Xyz<$swp, T> = ConvertOnce::convert_once(baked, p);
            let c3: Xyz<$swp, T> = p.cam16_into_unclamped(baked);
            let c4: Xyz<$swp, T> = <Xyz<$swp, T> as FromCam16Unclamped<$wpp, $ty<T>>>::from_cam16_unclamped(p, baked);
            out.check(eqs(&x3(c1), &r) && eqs(&x3(c2), &r) && eqs(&x3(c3), &r) && eqs(&x3(c4), &r), &format!("trait-entry=into_xyz:{}:{}", $kname, tag), || format!("{:?}, {}: {:?} {:?} {:?} {:?} vs {:?}", pa, who(), x3(c1), x3(c2), x3(c3), x3(c4), r));
            // ---- partial -> Cam16 through Convert / ConvertOnce / IntoCam16Unclamped / Cam16FromUnclamped
            let e1: Cam16<T> = Convert::convert(&baked, p);
            let e2: Cam16<T> = ConvertOnce::convert_once(baked, p);
            let e3: Cam16<T> = p.into_cam16_unclamped(baked);
            let e4: Cam16<T> = <Cam16<T> as Cam16FromUnclamped<$wpp, $ty<T>>>::cam16_from_unclamped(p, baked);
            out.check(eqs(&c6(e1), &ex) && eqs(&c6(e2), &ex) && eqs(&c6(e3), &ex) && eqs(&c6(e4), &ex), &format!("trait-entry=into_full:{}:{}", $kname, tag), || format!("{:?}, {}: {:?} {:?} {:?} {:?} vs {:?}", pa, who(), c6(e1), c6(e2), c6(e3), c6(e4), ex));
            // ---- Cam16 -> partial: identity impl, IntoColorUnclamped, and (attributes >= 0) the clamped FromColor / IntoColor
            let i1: $ty<T> = $ty::from_color_unclamped(p);
            let i2: $ty<T> = full.into_color_unclamped();
            out.check(eqs(&p3(i1), &pa) && eqs(&p3(i2), &pf), &format!("from_full=attributes:trait-forms:{}:{}", $kname, tag), || format!("{:?}: identity {:?} vs {:?}; into_color_unclamped {:?} vs {:?}", fa, p3(i1), pa, p3(i2), pf));
            if nonneg {
                let k1: $ty<T> = $ty::from_color(full); let k2: $ty<T> = full.into_color();
                out.check(eqs(&p3(k1), &pf) && eqs(&p3(k2), &pf), &format!("from_full=attributes:clamped-in-bounds:{}:{}", $kname, tag), || format!("{:?}: from_color {:?}, into_color {:?} vs {:?}", fa, p3(k1), p3(k2), pf));
            }
            // ---- the Alpha block of make_partial_cam16!
            let pal: Alpha<$ty<T>, A> = <Alpha<$ty<T>, A>>::from_xyz(xyza, baked);
            out.check(eqs(&p3(pal.color), &pa) && pal.alpha == al, &format!("alpha-form=plain:{}::from_xyz:{}", $kname, tag), || format!("XYZ {:?}, {}: {:?} alpha {:?} vs {:?} alpha {:?}", xt, who(), p3(pal.color), pal.alpha, pa, al));
            let pal_unb: Alpha<$ty<T>, A> = <Alpha<$ty<T>, A>>::from_xyz(xyza, params);
            out.check(eqs(&p3(pal_unb.color), &pa) && pal_unb.alpha == al, &format!("unbaked-parameters=baked:{}a:{}", $kname, tag), || format!("XYZ {:?}, {}", xt, who()));
            let pal_in: Alpha<$ty<T>, A> = Alpha { color: p, alpha: al };
            let ral: Alpha<Xyz<$swp, T>, A> = pal_in.into_xyz(baked);
            out.check(eqs(&x3(ral.color), &r) && ral.alpha == al, &format!("alpha-form=plain:{}::into_xyz:{}", $kname, tag), || format!("{:?}, {}: {:?} alpha {:?} vs {:?} alpha {:?}", pa, who(), x3(ral.color), ral.alpha, r, al));
            let exal: Alpha<Cam16<T>, A> = pal_in.into_full(baked);
            out.check(eqs(&c6(exal.color), &ex) && exal.alpha == al, &format!("alpha-form=plain:{}::into_full:{}", $kname, tag), || format!("{:?}, {}: {:?} alpha {:?} vs {:?} alpha {:?}", pa, who(), c6(exal.color), exal.alpha, ex, al));
            let pfa1: Alpha<$ty<T>, A> = <Alpha<$ty<T>, A>>::from_full(full_in);
            let pfa2: Alpha<$ty<T>, A> = full_in.into();
            let pfa3: Alpha<$ty<T>, A> = <Alpha<$ty<T>, A>>::from_color_unclamped(full_in);   // alpha.rs blanket over FromColorUnclamped<Cam16<T>>
            let pfa4: $ty<T> = $ty::from_color_unclamped(full_in);                              // derive-generated FromColorUnclamped<Alpha<_, _>>: alpha dropped
            out.check([pfa1, pfa2, pfa3].iter().all(|q| eqs(&p3(q.color), &pf) && q.alpha == al) && eqs(&p3(pfa4), &pf), &format!("alpha-form=plain:{}::from_full:{}", $kname, tag), || format!("{:?}, {}: {:?} {:?} {:?} {:?} vs {:?}", fa, who(), p3(pfa1.color), p3(pfa2.color), p3(pfa3.color), p3(pfa4), pf));
            // constructors of the Alpha form feed the same inverse
            let n1: Alpha<$ty<T>, A> = <Alpha<$ty<T>, A>>::new(pa[0], pa[1], pa[2], al);
            let n2: Alpha<$ty<T>, A> = <Alpha<$ty<T>, A>>::from_components((pa[0], pa[1], pa[2], al));
            let (nl, nc, nh, na) = n1.into_components();
            let rn: Alpha<Xyz<$swp, T>, A> = n2.into_xyz(baked);
            out.check(eqs(&[nl, nc, nh.into_raw_degrees()], &pa) && na == al && eqs(&x3(rn.color), &r) && rn.alpha == al, &format!("alpha-form=plain:{}::new:{}", $kname, tag), || format!("{:?}, {}: components {:?}, into_xyz {:?} vs {:?}", pa, who(), [nl, nc, nh.into_raw_degrees()], x3(rn.color), r));
            // ---- stored hue whole turns away (correspondence with the model only: the stored value is what the model is given)
            if ix < n_turn_lines {
                for k in [-2.0 as T, 1.0 as T, 3.0 as T] {
                    let ht: T = pa[2] + 360.0 as T * k;
                    let q = $ty::<T>::new(pa[0], pa[1], ht);
                    let qa = p3(q);
                    let qx: Xyz<$swp, T> = q.into_xyz(baked);
                    out.case(&format!("cam16inv {} {} | {} {} | {}", cfg, $kname, p7s, hx_list(&qa), hx_list(&x3(qx))));
                    let qf: Cam16<T> = q.into_full(baked);
                    out.case(&format!("cam16ful {} {} | {} {} | {}", cfg, $kname, p7s, hx_list(&qa), hx_list(&c6(qf))));
                    out.count("cls:more:hue-turns");
                }
            }
        }} }
        partial!(Cam16Jch, "Jch", lightness, chroma);
        partial!(Cam16Jmh, "Jmh", lightness, colorfulness);
        partial!(Cam16Jsh, "Jsh", lightness, saturation);
        partial!(Cam16Qch, "Qch", brightness, chroma);
        partial!(Cam16Qmh, "Qmh", brightness, colorfulness);
        partial!(Cam16Qsh, "Qsh", brightness, saturation);
        // ---------------- derive-generated routes from the full colour into CAM16-UCS (Cam16 -> Cam16Jmh -> Cam16UcsJmh [-> Cam16UcsJab])
        // Property: the UCS forms convert to and from lightness / colourfulness / hue without loss.  Tolerance: that of the sibling clause
        // `ucs:Jmh->UcsJmh->Jmh` (2⁶ ε of max(1, |component|), hue untouched) for the polar form; the rectangular form adds the polar pair
        // (sibling `ucs:UcsJmh->UcsJab->UcsJmh`, 2⁶ ε of max(1, M′)) whose M′ error is carried through M = (e^{0.0228 M′} − 1)/0.0228 with
        // dM/dM′ = 1 + 0.0228 M ≤ 3.8 (M ≤ 120) and M′ ≤ M: at most 2⁶ ε · (1 + 3.8) of max(1, M) < 2⁹ ε; the hue is compared on the circle,
        // weighted by the colourfulness, as there.
        if !is_black && in_domain && fa[0] <= 100.0 as T && fa[4] <= 120.0 as T {
            let (j, m, h) = (fa[0] as f64, fa[4] as f64, fa[2]);
            let u: Cam16UcsJmh<T> = Cam16UcsJmh::from_color_unclamped(full);
            let ub: Cam16Jmh<T> = Cam16Jmh::from_color_unclamped(u);
            let e = ((ub.lightness as f64 - j).abs() / 1f64.max(j)).max((ub.colorfulness as f64 - m).abs() / 1f64.max(m));
            out.maxi(&format!("ucs-from-full-err-eps:{}", tag), e / eps);
            out.check(e <= 64.0 * eps && eqb(u.hue.into_raw_degrees(), h) && eqb(ub.hue.into_raw_degrees(), h), &format!("ucs:Cam16->UcsJmh->Jmh:{}", tag), || format!("{:?} -> {:?} -> {:?}", fa, [u.lightness, u.colorfulness, u.hue.into_raw_degrees()], [ub.lightness, ub.colorfulness, ub.hue.into_raw_degrees()]));
            let v: Cam16UcsJab<T> = Cam16UcsJab::from_color_unclamped(full);
            let vb: Cam16Jmh<T> = Cam16Jmh::from_color_unclamped(v);
            let e = ((vb.lightness as f64 - j).abs() / 1f64.max(j)).max((vb.colorfulness as f64 - m).abs() / 1f64.max(m));
            let e_h = hue_dist_deg(vb.hue.into_raw_degrees() as f64, h as f64).to_radians() * m / 1f64.max(m) / 1f64.max((h as f64).abs().to_radians());
            out.maxi(&format!("ucs-jab-from-full-err-eps:{}", tag), e.max(e_h) / eps);
            out.check(e <= 512.0 * eps && e_h <= 512.0 * eps, &format!("ucs:Cam16->UcsJab->Jmh:{}", tag), || format!("{:?} -> {:?} -> {:?}", fa, [v.lightness, v.a, v.b], [vb.lightness, vb.colorfulness, vb.hue.into_raw_degrees()]));
        }
    }
}
} }
def_more!(more_d65_f32, StaticWp<D65>, D65, f32, f32, 0.625f32);
def_more!(more_d65_f64, StaticWp<D65>, D65, f64, f64, 0.625f64);
def_more!(more_d50_f32, StaticWp<D50>, D50, f32, u8, 200u8);
def_more!(more_d50_f64, StaticWp<D50>, D50, f64, f32, 0.25f32);
def_more!(more_dyn_f32, Xyz<Any, f32>, Any, f32, u16, 40000u16);
def_more!(more_dyn_f64, Xyz<Any, f64>, Any, f64, f64, 1.0f64);

// ---------------------------------------------------------------------------------------------------------------------
// CAM16-UCS: derive-generated one-step routes, Alpha forms, collections
// ---------------------------------------------------------------------------------------------------------------------
macro_rules! def_ucs_more { ($fname:ident, $t:ty, $a:ty, $aval:expr) => {
fn $fname(out: &mut Out, rng: &mut Rng, n: usize) {
    type T = $t; type A = $a;
    let tag = <T as Fl>::TAG; let eps = <T as Fl>::eps();
    let al: A = $aval;
    let j3 = |c: Cam16Jmh<T>| -> [T; 3] { [c.lightness, c.colorfulness, c.hue.into_raw_degrees()] };
    let u3 = |c: Cam16UcsJmh<T>| -> [T; 3] { [c.lightness, c.colorfulness, c.hue.into_raw_degrees()] };
    let b3 = |c: Cam16UcsJab<T>| -> [T; 3] { [c.lightness, c.a, c.b] };
    let mut jmhs: Vec<[f64; 3]> = vec![[50.0, 80.0, 120.0], [0.0, 0.0, 0.0], [100.0, 0.0, 0.0], [45.544264720360346, 39.4130607870103, 259.225345298129], [100.0, 120.0, 359.999], [1e-6, 1e-6, -180.0], [50.0, 0.0, 90.0]];
    for _ in 0..n { jmhs.push([rng.edgy(0.0, 100.0), rng.edgy(0.0, 120.0), rng.edgy(-360.0, 720.0)]); }
    let mut batch: Vec<Cam16Jmh<T>> = vec![];
    for (ix, c) in jmhs.iter().enumerate() {
        let a: [T; 3] = [c[0] as T, c[1] as T, c[2] as T];
        let jmh = Cam16Jmh::<T>::new(a[0], a[1], a[2]);
        // covered forms (c16.rs, `ucs …` lines and clauses)
        let ucs: Cam16UcsJmh<T> = Cam16UcsJmh::from_color_unclamped(jmh); let ua = u3(ucs);
        let jab: Cam16UcsJab<T> = Cam16UcsJab::from_color_unclamped(ucs); let ja = b3(jab);
        let pol: Cam16UcsJmh<T> = Cam16UcsJmh::from_color_unclamped(jab); let pa = u3(pol);
        let bk: Cam16Jmh<T> = Cam16Jmh::from_color_unclamped(ucs); let ba = j3(bk);
        out.count("cls:more:ucs");
        // ---- derive-generated one-step routes Cam16Jmh <-> Cam16UcsJab.  Property: lossless (tolerance: see `ucs:Cam16->UcsJab->Jmh` above)
        let jd: Cam16UcsJab<T> = Cam16UcsJab::from_color_unclamped(jmh); let jda = b3(jd);
        let bd: Cam16Jmh<T> = Cam16Jmh::from_color_unclamped(jd); let bda = j3(bd);
        let (j, m) = (a[0] as f64, a[1] as f64);
        let e = ((bda[0] as f64 - j).abs() / 1f64.max(j)).max((bda[1] as f64 - m).abs() / 1f64.max(m));
        let e_h = hue_dist_deg(bda[2] as f64, a[2] as f64).to_radians() * m / 1f64.max(m) / 1f64.max((a[2] as f64).abs().to_radians());
        out.maxi(&format!("ucs-jab-direct-route-err-eps:{}", tag), e.max(e_h) / eps);
        out.check(e <= 512.0 * eps && e_h <= 512.0 * eps, &format!("ucs:Jmh->UcsJab->Jmh:{}", tag), || format!("{:?} -> {:?} -> {:?}", a, jda, bda));
        // the model's reading of the one-step routes: the composition of the two edges (lines of the existing driver ops, every 4th input)
        if ix % 4 == 0 {
            out.case(&format!("ucs jmh2jab | {} | {}", hx_list(&ua), hx_list(&jda)));
            out.case(&format!("ucs ucs2jmh | {} | {}", hx_list(&pa), hx_list(&j3(Cam16Jmh::from_color_unclamped(jab)))));
        }
        // ---- identity impls
        let i1: Cam16UcsJmh<T> = Cam16UcsJmh::from_color_unclamped(ucs); let i2: Cam16UcsJab<T> = Cam16UcsJab::from_color_unclamped(jab); let i3: Cam16Jmh<T> = Cam16Jmh::from_color_unclamped(jmh);
        out.check(eqs(&u3(i1), &ua) && eqs(&b3(i2), &ja) && eqs(&j3(i3), &a), &format!("ucs:identity-conversion:{}", tag), || format!("{:?}", a));
        // ---- IntoColorUnclamped entry point
        let q1: Cam16UcsJmh<T> = jmh.into_color_unclamped(); let q2: Cam16UcsJab<T> = ucs.into_color_unclamped(); let q3: Cam16UcsJmh<T> = jab.into_color_unclamped(); let q4: Cam16Jmh<T> = ucs.into_color_unclamped();
        out.check(eqs(&u3(q1), &ua) && eqs(&b3(q2), &ja) && eqs(&u3(q3), &pa) && eqs(&j3(q4), &ba), &format!("ucs:into_color_unclamped=from_color_unclamped:{}", tag), || format!("{:?}", a));
        // ---- Alpha forms of the four edges (alpha.rs blanket / derive-generated FromColorUnclamped<Alpha<..>>): same colour, alpha carried
        let jmha: Alpha<Cam16Jmh<T>, A> = Alpha { color: jmh, alpha: al };
        let ucsa: Alpha<Cam16UcsJmh<T>, A> = <Alpha<Cam16UcsJmh<T>, A>>::from_color_unclamped(jmha);
        let jaba: Alpha<Cam16UcsJab<T>, A> = <Alpha<Cam16UcsJab<T>, A>>::from_color_unclamped(ucsa);
        let pola: Alpha<Cam16UcsJmh<T>, A> = <Alpha<Cam16UcsJmh<T>, A>>::from_color_unclamped(jaba);
        let bka: Alpha<Cam16Jmh<T>, A> = <Alpha<Cam16Jmh<T>, A>>::from_color_unclamped(ucsa);
        out.check(eqs(&u3(ucsa.color), &ua) && eqs(&b3(jaba.color), &ja) && eqs(&u3(pola.color), &pa) && eqs(&j3(bka.color), &ba) && ucsa.alpha == al && jaba.alpha == al && pola.alpha == al && bka.alpha == al,
            &format!("ucs:alpha-form=plain:{}", tag), || format!("{:?} alpha {:?} ({}): {:?} {:?} {:?} {:?} vs {:?} {:?} {:?} {:?}", a, al, stringify!($a), u3(ucsa.color), b3(jaba.color), u3(pola.color), j3(bka.color), ua, ja, pa, ba));
        // alpha dropped / alpha added by the derive-generated impls
        let s1: Cam16UcsJmh<T> = Cam16UcsJmh::from_color_unclamped(jmha); let s2: Cam16UcsJab<T> = Cam16UcsJab::from_color_unclamped(ucsa); let s3: Cam16UcsJmh<T> = Cam16UcsJmh::from_color_unclamped(jaba); let s4: Cam16Jmh<T> = Cam16Jmh::from_color_unclamped(ucsa);
        out.check(eqs(&u3(s1), &ua) && eqs(&b3(s2), &ja) && eqs(&u3(s3), &pa) && eqs(&j3(s4), &ba), &format!("ucs:alpha-stripped=plain:{}", tag), || format!("{:?}", a));
        // ---- collections: Vec, Box<[_]>, &mut [_] (in place, restored when the guard drops)
        batch.push(jmh);
        if batch.len() == 5 || ix + 1 == jmhs.len() {
            let want_u: Vec<[T; 3]> = batch.iter().map(|c| u3(Cam16UcsJmh::from_color_unclamped(*c))).collect();
            let want_b: Vec<[T; 3]> = batch.iter().map(|c| b3(Cam16UcsJab::from_color_unclamped(Cam16UcsJmh::from_color_unclamped(*c)))).collect();
            let vu: Vec<Cam16UcsJmh<T>> = Vec::from_color_unclamped(batch.clone());
            let bu: Box<[Cam16UcsJmh<T>]> = <Box<[Cam16UcsJmh<T>]>>::from_color_unclamped(batch.clone().into_boxed_slice());
            let vb: Vec<Cam16UcsJab<T>> = Vec::from_color_unclamped(vu.clone());
            let bb: Box<[Cam16UcsJab<T>]> = <Box<[Cam16UcsJab<T>]>>::from_color_unclamped(bu.clone());
            let vp: Vec<Cam16UcsJmh<T>> = Vec::from_color_unclamped(vb.clone());
            let vj: Vec<Cam16Jmh<T>> = Vec::from_color_unclamped(vu.clone());
            let mut work = batch.clone();
            let mu: Vec<[T; 3]> = { let g = IntoColorUnclampedMut::<[Cam16UcsJmh<T>]>::into_color_unclamped_mut(&mut work[..]); g.iter().map(|c| u3(*c)).collect() };
            let ok_u = vu.len() == batch.len() && bu.len() == batch.len() && mu.len() == batch.len() && (0..batch.len()).all(|i| eqs(&u3(vu[i]), &want_u[i]) && eqs(&u3(bu[i]), &want_u[i]) && eqs(&mu[i], &want_u[i]));
            let ok_b = vb.len() == batch.len() && bb.len() == batch.len() && (0..batch.len()).all(|i| eqs(&b3(vb[i]), &want_b[i]) && eqs(&b3(bb[i]), &want_b[i]));
            let ok_p = vp.len() == batch.len() && (0..batch.len()).all(|i| eqs(&u3(vp[i]), &u3(Cam16UcsJmh::from_color_unclamped(vb[i]))));
            let ok_j = vj.len() == batch.len() && (0..batch.len()).all(|i| eqs(&j3(vj[i]), &j3(Cam16Jmh::from_color_unclamped(vu[i]))));
            out.check(ok_u && ok_b && ok_p && ok_j, &format!("ucs:collection-form=elementwise:{}", tag), || format!("batch starting at {:?}: Jmh->UcsJmh {}, UcsJmh->UcsJab {}, UcsJab->UcsJmh {}, UcsJmh->Jmh {}", j3(batch[0]), ok_u, ok_b, ok_p, ok_j));
            batch.clear();
        }
    }
}
} }
def_ucs_more!(ucs_more_f32, f32, u8, 17u8);
def_ucs_more!(ucs_more_f64, f64, f64, 0.5f64);

pub fn run_more(out: &mut Out, rng: &mut Rng, thorough: bool, vcs: &[Vc], whites: &[[f64; 3]]) {
    let n_rand = if thorough { 96 } else { 16 };
    let step = if thorough { 2 } else { 3 };
    for (i, vc) in vcs.iter().enumerate() {
        // the corpus of the repo's tests, then a thinned copy of the input distribution of c16.rs
        let all = xyz_inputs(rng, n_rand);
        let xyzs: Vec<[f64; 3]> = all.iter().enumerate().filter(|(k, _)| *k < CORPUS.len() || (*k + i) % step == 0).map(|(_, x)| *x).collect();
        let turns = if i < 6 { CORPUS.len() } else { 0 };
        { let w: Xyz<Any, f32> = <D65 as WhitePoint<f32>>::get_xyz(); let p = set_params!(Parameters::<StaticWp<D65>, f32>::default_static_wp(vc.la as f32), vc, f32); more_d65_f32(out, p, "static:D65", [w.x, w.y, w.z], vc, &xyzs, turns); }
        { let w: Xyz<Any, f64> = <D65 as WhitePoint<f64>>::get_xyz(); let p = set_params!(Parameters::<StaticWp<D65>, f64>::default_static_wp(vc.la), vc, f64); more_d65_f64(out, p, "static:D65", [w.x, w.y, w.z], vc, &xyzs, turns); }
        if i % 3 == 1 {
            { let w: Xyz<Any, f32> = <D50 as WhitePoint<f32>>::get_xyz(); let p = set_params!(Parameters::<StaticWp<D50>, f32>::default_static_wp(vc.la as f32), vc, f32); more_d50_f32(out, p, "static:D50", [w.x, w.y, w.z], vc, &xyzs, turns); }
            { let w: Xyz<Any, f64> = <D50 as WhitePoint<f64>>::get_xyz(); let p = set_params!(Parameters::<StaticWp<D50>, f64>::default_static_wp(vc.la), vc, f64); more_d50_f64(out, p, "static:D50", [w.x, w.y, w.z], vc, &xyzs, turns); }
        }
        let w = whites[(i + 1) % whites.len()];
        { let wt = [w[0] as f32, w[1] as f32, w[2] as f32]; let p = set_params!(Parameters::default_dynamic_wp(Xyz::<Any, f32>::new(wt[0], wt[1], wt[2]), vc.la as f32), vc, f32); more_dyn_f32(out, p, "dyn", wt, vc, &xyzs, turns); }
        { let p = set_params!(Parameters::default_dynamic_wp(Xyz::<Any, f64>::new(w[0], w[1], w[2]), vc.la), vc, f64); more_dyn_f64(out, p, "dyn", w, vc, &xyzs, turns); }
        // ---- dynamic white points that are not normalised to Y_w = 1 (`y_w` of prepare_parameters: n = Y_b / Y_w, D_RGB = D·Y_w / RGB_w + 1 − D):
        // the whole of c16.rs's per-condition run (published equations, round trips, partial = full, correspondence lines)
        if i % 4 == 0 {
            let s = [0.8, 1.25, 0.9, 1.1][(i / 4) % 4];
            let wy = [w[0] * s, w[1] * s, w[2] * s];
            let few: Vec<[f64; 3]> = xyzs.iter().take(CORPUS.len() + 40).cloned().collect();
            { let wt = [wy[0] as f32, wy[1] as f32, wy[2] as f32]; let p = set_params!(Parameters::default_dynamic_wp(Xyz::<Any, f32>::new(wt[0], wt[1], wt[2]), vc.la as f32), vc, f32); crate::c16::run_dyn_f32(out, p, "dyn", wt, vc, &few, 4, i < 8); }
            { let p = set_params!(Parameters::default_dynamic_wp(Xyz::<Any, f64>::new(wy[0], wy[1], wy[2]), vc.la), vc, f64); crate::c16::run_dyn_f64(out, p, "dyn", wy, vc, &few, 4, i < 8); }
            out.count("cls:more:white-Yw-not-1");
        }
    }
    let n_ucs = if thorough { 40_000 } else { 3_000 };
    ucs_more_f32(out, rng, n_ucs);
    ucs_more_f64(out, rng, n_ucs);
}
