//! C17 — results do not depend on the component representation (f32 / f64 / SIMD lanes).
//!
//! Protocol lines (replayed by `lean/PaletteModel/SimdDriver.lean`):
//!   simd <Src> <Dst> <vt> | N  x(lane0 c0 c1 c2) x(lane1 ..) ..        | y(lane0 d0 d1 d2) ..      vt in f32,f64 (N=1), f32x4,f32x8,f64x2,f64x4
//!   pack <Type> <vt>      | N A  lane-major scalars                      | component-major SIMD fields, then the unpacked lane-major scalars
//!   vmask <vt>            | N a.. b.. x.. y..                            | lt le eq ne ge gt (N bits each) sel.. lazysel.. and.. or.. xor.. not.. valid.. all none
//! Second part of the oracle (the operations that compile for the wide types and are not driven here: colour differences, contrast, Luma, Cam16,
//! the `num`/`angle` traits on the wide types themselves, ...): `c17_more.rs`, called at the end of `run`.
//! Oracle (the property's own predicate, implementation against implementation): every lane of a SIMD result equals the scalar
//! result for that lane's input; pack/unpack keep lane order; masks act lane by lane; f32 agrees with f64 to single precision.
use crate::common::*;
use palette::blend::{Blend, Compose, PreAlpha, Premultiply};
use palette::bool_mask::{BoolMask, LazySelect, Select};
use palette::cast::{self, ArrayCast};
use palette::convert::FromColorUnclamped;
use palette::encoding::{Linear, Srgb};
use palette::num::{FromScalarArray, IntoScalarArray, IsValidDivisor, PartialCmp};
use palette::rgb::Rgb;
use palette::white_point::{Any, D65};
use palette::{Alpha, Clamp, ClampAssign, Darken, Desaturate, Hsl, Hsluv, Hsv, Hwb, IsWithinBounds, Lab, Lch, Lchuv, Lighten, Luv, Mix, Oklab, Oklch, Saturate, ShiftHue, Xyz, Yxy};
use std::panic::{catch_unwind, AssertUnwindSafe};
use wide::{f32x4, f32x8, f64x2, f64x4};

type RgbS<X> = Rgb<Srgb, X>;
type RgbL<X> = Rgb<Linear<Srgb>, X>;
type HsvS<X> = Hsv<Srgb, X>;
type HslS<X> = Hsl<Srgb, X>;
type HwbS<X> = Hwb<Srgb, X>;
type XyzD<X> = Xyz<D65, X>;
type XyzA<X> = Xyz<Any, X>;
type YxyD<X> = Yxy<D65, X>;
type LabD<X> = Lab<D65, X>;
type LchD<X> = Lch<D65, X>;
type LuvD<X> = Luv<D65, X>;
type LchuvD<X> = Lchuv<D65, X>;
type HsluvD<X> = Hsluv<D65, X>;
type LumaS<X> = palette::luma::Luma<Srgb, X>;
type LumaL<X> = palette::luma::Luma<Linear<D65>, X>;
type LmsB<X> = palette::lms::Lms<palette::lms::matrix::Bradford, X>;
type OklabT<X> = Oklab<X>;
type OklchT<X> = Oklch<X>;

/// How lane results are compared with scalar results.
#[derive(Clone, Copy)]
pub struct Cmp {
    /// 0 = exact (same bits, or both zero); otherwise |a-b| <= tol * eps(T) * max(scale, |a|, |b|)
    pub tol: f64,
    pub scale: [f64; 4],
    /// component that is a hue in degrees: compared on the circle, against the scale 360
    pub hue: Option<usize>,
    /// the chroma that belongs to that hue.  When it is exactly zero in both results the two outputs describe the same
    /// (achromatic) colour whatever the hue coordinate says, and the hue is not compared: `wide` negates as `0 - x`, so
    /// `-(+0.0)` is `+0.0` where IEEE negation gives `-0.0`, and `LabHue::from_cartesian` = `π + atan2(-b, -a)` returns
    /// 180° for a = b = +0 in a SIMD lane and 0° in scalar code (counted as `cls:hue-not-compared-at-zero-chroma`).
    pub chroma: Option<usize>,
}
/// only `+ - * / min max select`, identical operation order in both representations: every lane must be bit-identical
pub const fn exact() -> Cmp { Cmp { tol: 0.0, scale: [1.0; 4], hue: None, chroma: None } }
/// `wide`'s polynomial `pow`/`sin`/`cos`/`atan2`/`exp`/`ln` instead of libm, unfused `mul_add`, `sqrt(a²+b²)` instead of `hypot`:
/// each is accurate to a few ulp of its result (measured maxima are recorded in the evidence: <= 3 eps for the transfer
/// functions and the RGB->XYZ rows, <= 1.1 eps of 360° for hues, <= 1 eps for sin/cos products, thorough tier); 16 eps of the
/// component's natural scale leaves a margin of ~6x over the measured maxima while staying far below anything a wrong
/// branch or a wrong formula produces.
pub const fn approx(scale: [f64; 4], hue: Option<usize>) -> Cmp { Cmp { tol: 16.0, scale, hue, chroma: match hue { Some(_) => Some(1), None => None } } }
/// Rgb -> Hsv/Hsl/Hwb: the branch-free algorithm computes `hue_base + m/chroma - 6` where the scalar one computes `sep/d + coeff`:
/// the same real number modulo 6 sextants (theorem `hsv_mask_eq_scalar`), with two extra roundings at magnitude < 16,
/// i.e. <= 8 eps sextants = 480 eps degrees = 1.4 eps of 360°.  Tolerance 4 eps of 360°, hue on the circle; the other two components exact.
pub const fn hue_branch() -> Cmp { Cmp { tol: 4.0, scale: [360.0, 0.0, 0.0, 0.0], hue: Some(0), chroma: None } }

pub fn circ(a: f64, b: f64) -> f64 { let d = (a - b).rem_euclid(360.0); d.min(360.0 - d) }

/// (ok, distance in eps*scale)
pub fn lane_cmp<T: Fl>(a: T, b: T, c: &Cmp, k: usize) -> (bool, f64) {
    let (x, y) = (a.to64(), b.to64());
    if x.is_nan() || y.is_nan() { let ok = x.is_nan() && y.is_nan(); return (ok, if ok { 0.0 } else { f64::INFINITY }); }
    let same = a.bits64() == b.bits64() || (x == 0.0 && y == 0.0);
    if same { return (true, 0.0); }
    let is_hue = c.hue == Some(k);
    // in the hue-branch class only the hue carries a tolerance
    let tol = if c.scale[k] == 0.0 { 0.0 } else { c.tol };
    if tol == 0.0 { return (false, f64::INFINITY); }
    if x.is_infinite() || y.is_infinite() { return (false, f64::INFINITY); }
    let (d, s) = if is_hue { (circ(x, y), 360.0) } else { ((x - y).abs(), c.scale[k].max(x.abs()).max(y.abs())) };
    let dist = d / (T::eps() * s);
    (dist <= tol, dist)
}

// ------------------------------------------------------------------------------------------------------------------
// input pools
// ------------------------------------------------------------------------------------------------------------------

/// branch signature of an input, used to build lane groups whose lanes sit on different branches
pub fn class_of(space: &str, c: &[f64]) -> u32 {
    let ord = |a: f64, b: f64| -> u32 { if a < b { 0 } else if a == b { 1 } else { 2 } };
    match space {
        "Rgb" | "RgbL" => {
            let (r, g, b) = (c[0], c[1], c[2]);
            let o = ord(r, g) * 9 + ord(g, b) * 3 + ord(r, b); // hue sector incl. ties (27 codes, 13 realisable)
            let mx = r.max(g).max(b); let mn = r.min(g).min(b);
            let t = if space == "Rgb" { 0.04045 } else { 0.0031308 };
            o * 8 + ((mx + mn > 1.0) as u32) * 4 + ((mn <= t) as u32) * 2 + ((mx <= t) as u32)
        }
        "Hsv" | "Hsl" | "Hwb" => {
            let h = c[0].rem_euclid(360.0);
            let sector = (h / 60.0).floor() as u32;
            let x = (2.0 - c[1]) * c[2];
            sector * 16 + ((c[2] < 0.5) as u32) * 8 + ((x < 1.0) as u32) * 4 + ((c[2] == 0.0 || c[2] == 1.0) as u32) * 2 + ((c[1] == 0.0) as u32)
        }
        "Xyz" => { let s = c[0] + c[1] + c[2]; let e = 216.0 / 24389.0; ((s == 0.0) as u32) * 8 + ((c[0] / 0.95047 > e) as u32) * 4 + ((c[1] > e) as u32) * 2 + ((c[2] / 1.08883 > e) as u32) }
        "Yxy" => ((c[1] == 0.0) as u32) * 2 + ((c[1].abs() < 1e-30) as u32),
        "Lab" | "Luv" | "Oklab" => { let fy = (c[0] + 16.0) / 116.0; let e = 6.0 / 29.0; ((fy > e) as u32) * 8 + ((fy + c[1] / 500.0 > e) as u32) * 4 + ((fy - c[2] / 200.0 > e) as u32) * 2 + ((c[1] == 0.0 && c[2] == 0.0) as u32) }
        "Lch" | "Lchuv" | "Oklch" => { let h = c[2].rem_euclid(360.0); ((h / 90.0).floor() as u32) * 2 + ((c[1] == 0.0) as u32) }
        _ => 0,
    }
}

pub fn thresholds_around(v: &mut Vec<f64>, t: f64) {
    for k in [-16i64, -2, -1, 0, 1, 2, 16] { v.push(nudge64(t, k)); v.push(nudge32(t as f32, k as i32) as f64); }
}

/// in-gamut RGB: lattice with the piecewise thresholds, every ordering/tie of the three channels, grays, near-grays, random
fn rgb_pool(rng: &mut Rng, n: usize, linear: bool) -> Vec<[f64; 3]> {
    let mut v: Vec<[f64; 3]> = vec![];
    let t = if linear { 0.0031308 } else { 0.04045 };
    let mut lat = vec![0.0, 1.0, 0.5, 0.25, 0.75, 1e-9, 1.0 - 1e-9, t, 1.0 / 3.0, 2.0 / 3.0];
    thresholds_around(&mut lat, t);
    for &a in &lat { for &b in &lat { for &c in &lat { if rng.chance(0.12) || (a == b || b == c) && rng.chance(0.4) { v.push([a, b, c]); } } } }
    for &a in &[0.0, 1.0, 0.5, t] { for &b in &[0.0, 1.0, 0.5, t] { for &c in &[0.0, 1.0, 0.5, t] { v.push([a, b, c]); } } }
    // tiny but non-zero colours: sums/values that are subnormal in f32 or in f64 (zero-divisor guards)
    for &e in &[1e-40, 3e-39, 1e-45, 1e-310, 5e-324, 1.17549435e-38, 2.2250738585072014e-308, 1e-30, 1e-20] {
        v.push([e, e, e]); v.push([e, 0.0, 0.0]); v.push([0.0, e, e / 2.0]); v.push([e / 2.0, e / 4.0, e]); v.push([e, 0.5, 0.0]);
    }
    for _ in 0..n {
        let (a, b, c) = (rng.unit(), rng.unit(), rng.unit());
        v.push([a, b, c]);
        // ties and near-ties (hue sector edges, zero chroma)
        match rng.below(10) {
            0 => v.push([a, a, c]), 1 => v.push([a, c, a]), 2 => v.push([c, a, a]), 3 => v.push([a, a, a]),
            4 => v.push([a, nudge64(a, 1), c]), 5 => v.push([a, c, nudge32(a as f32, -1) as f64]), 6 => v.push([nudge32(a as f32, 1) as f64, a, a]),
            // max + min around 1 (Hsl saturation branch)
            7 => { let mn = a.min(0.999); v.push([1.0 - mn, mn * rng.unit().max(0.0) + (1.0 - mn).min(mn) * 0.0 + mn.min(1.0 - mn), mn]); }
            8 => { let mx = 0.5 + a / 2.0; let mn = 1.0 - mx; v.push([mx, mn + (mx - mn) * b, nudge32(mn as f32, rng.below(5) as i32 - 2) as f64]); }
            _ => { let s = *rng.pick(&[t, 0.5, 1.0]); v.push([nudge32(s as f32, rng.below(9) as i32 - 4).min(1.0) as f64, b, c]); }
        }
    }
    v.retain(|c| c.iter().all(|x| (0.0..=1.0).contains(x)));
    v
}

/// in-gamut colours of another space: the RGB pool pushed through the scalar f64 implementation, plus the space's own boundaries
fn derived_pool<D>(rgb: &[[f64; 3]], extra: Vec<[f64; 3]>) -> Vec<[f64; 3]>
where D: FromColorUnclamped<RgbS<f64>> + ArrayCast<Array = [f64; 3]> {
    let mut v: Vec<[f64; 3]> = rgb.iter().map(|c| cast::into_array(D::from_color_unclamped(cast::from_array::<RgbS<f64>>(*c)))).collect();
    v.extend(extra);
    v.retain(|c| c.iter().all(|x| x.is_finite()));
    v
}

fn hue_extras(rng: &mut Rng, hue_at: usize, lo1: f64, hi1: f64, lo2: f64, hi2: f64) -> Vec<[f64; 3]> {
    let mut hs = vec![];
    for k in -6..=12 { thresholds_around(&mut hs, 60.0 * k as f64); }
    for k in [90.0, 270.0, 45.0] { thresholds_around(&mut hs, k); }
    let mut v = vec![];
    let mut others = vec![lo1, hi1, (lo1 + hi1) / 2.0];
    thresholds_around(&mut others, 0.5);
    for &h in &hs {
        for _ in 0..3 {
            let a = if rng.chance(0.3) { *rng.pick(&others) } else { rng.range(lo1, hi1) };
            let b = if rng.chance(0.3) { *rng.pick(&[lo2, hi2, (lo2 + hi2) / 2.0, 0.5]) } else { rng.range(lo2, hi2) };
            let mut c = [0.0; 3]; c[hue_at] = h; let mut it = [a, b].into_iter();
            for i in 0..3 { if i != hue_at { c[i] = it.next().unwrap(); } }
            v.push(c);
        }
    }
    v
}

/// lane groups: deliberately mixed branches, random, homogeneous, splat
pub fn make_groups(space: &str, pool: &[[f64; 3]], n_lanes: usize, rng: &mut Rng, n_groups: usize) -> (Vec<Vec<[f64; 3]>>, u64) {
    let mut idx: Vec<usize> = (0..pool.len()).collect();
    idx.sort_by_key(|&i| class_of(space, &pool[i]));
    let m = idx.len();
    let stride = (m / n_lanes).max(1);
    let mut groups = vec![]; let mut mixed = 0u64;
    for g in 0..n_groups {
        let lanes: Vec<[f64; 3]> = match g % 8 {
            // lanes taken from far-apart positions of the class-sorted pool: different branches by construction
            0 | 1 | 2 | 3 => { let s = rng.below(m as u64) as usize; (0..n_lanes).map(|i| pool[idx[(s + i * stride) % m]]).collect() }
            4 | 5 => (0..n_lanes).map(|_| pool[rng.below(m as u64) as usize]).collect(),
            // neighbours in the sorted order: same branch in every lane
            6 => { let s = rng.below(m as u64) as usize; (0..n_lanes).map(|i| pool[idx[(s + i) % m]]).collect() }
            _ => { let c = pool[rng.below(m as u64) as usize]; vec![c; n_lanes] }
        };
        let c0 = class_of(space, &lanes[0]);
        if lanes.iter().any(|l| class_of(space, l) != c0) { mixed += 1; }
        groups.push(lanes);
    }
    (groups, mixed)
}

// ------------------------------------------------------------------------------------------------------------------
// conversions: every lane of the SIMD result against the scalar result
// ------------------------------------------------------------------------------------------------------------------

pub struct EdgeSpec { pub src: &'static str, pub dst: &'static str, pub cmp: Cmp, pub model: bool }

fn simd_edge<S, D, SV, DV, T: Fl, const N: usize>(out: &mut Out, e: &EdgeSpec, vtag: &str, groups: &[Vec<[f64; 3]>])
where S: ArrayCast<Array = [T; 3]> + Clone, D: ArrayCast<Array = [T; 3]> + FromColorUnclamped<S>,
      SV: From<[S; N]>, DV: FromColorUnclamped<SV>, [D; N]: From<DV> {
    let key = format!("{}->{}:{}", e.src, e.dst, vtag);
    for g in groups {
        let lanes: [[T; 3]; N] = core::array::from_fn(|i| arr_of3::<T>(g[i]));
        let r = catch_unwind(AssertUnwindSafe(|| {
            let sc: [S; N] = core::array::from_fn(|i| cast::from_array(lanes[i]));
            let so: Vec<[T; 3]> = sc.iter().map(|s| cast::into_array(D::from_color_unclamped(s.clone()))).collect();
            let back: [D; N] = DV::from_color_unclamped(SV::from(sc)).into();
            let vo: Vec<[T; 3]> = back.into_iter().map(|d| cast::into_array(d)).collect();
            (so, vo)
        }));
        let (so, vo) = match r { Ok(x) => x, Err(_) => { out.check(false, &format!("no-panic:{}", key), || format!("{:?}", g)); continue; } };
        for i in 0..N {
            let mut ok = true; let mut worst = 0.0f64;
            let achromatic = e.cmp.chroma.map_or(false, |c| so[i][c].to64() == 0.0 && vo[i][c].to64() == 0.0);
            if achromatic { out.count("cls:hue-not-compared-at-zero-chroma"); }
            for k in 0..3 { if achromatic && e.cmp.hue == Some(k) { continue; } let (o, d) = lane_cmp(so[i][k], vo[i][k], &e.cmp, k); ok &= o; if d.is_finite() { worst = worst.max(d); } }
            out.maxi(&format!("lane-vs-scalar-eps:{}->{}:{}", e.src, e.dst, T::TAG), worst);
            out.check(ok, &format!("lane=scalar:{}", key), || format!("lane {} of {:?}: input {:?} scalar {:?} simd lane {:?}", i, g, lanes[i], so[i], vo[i]));
        }
        if e.model {
            let xs: Vec<String> = lanes.iter().map(|l| hx_list(l)).collect(); let ys: Vec<String> = vo.iter().map(|l| hx_list(l)).collect();
            out.case(&format!("simd {} {} {} | {} {} | {}", e.src, e.dst, vtag, N, xs.join(" "), ys.join(" ")));
            out.case(&format!("simd {} {} {} | 1 {} | {}", e.src, e.dst, T::TAG, hx_list(&lanes[0]), hx_list(&so[0])));
        }
    }
}

pub fn arr_of3<T: Fl>(a: [f64; 3]) -> [T; 3] { [T::of(a[0]), T::of(a[1]), T::of(a[2])] }

/// f32 against f64 on the scalar types.  Both are evaluated at the same (f32-representable) input, so only the internal
/// roundings differ.  Tolerance: 32 eps32 of the component scale (a chain of <= ~20 f32 operations incl. matrix rows with
/// cancellation factor <= 6 and libm calls; observed <= 3.6 eps32 where the conversion is well-conditioned) **plus** the measured conditioning of the conversion at that point: the largest
/// change of the f64 result when one input component moves by 4 f32 ulps.  Where the formula is ill-conditioned (hue of a
/// near-gray, x/y of a near-black, saturation next to white) single-precision *inputs* already cannot determine the result
/// any better, which is what "to single-precision accuracy" can mean there.
fn prec_edge<S32, D32, S64, D64>(out: &mut Out, e: &EdgeSpec, pool: &[[f64; 3]])
where S32: ArrayCast<Array = [f32; 3]>, D32: ArrayCast<Array = [f32; 3]> + FromColorUnclamped<S32>,
      S64: ArrayCast<Array = [f64; 3]>, D64: ArrayCast<Array = [f64; 3]> + FromColorUnclamped<S64> {
    let f64at = |x: [f64; 3]| -> [f64; 3] { cast::into_array(D64::from_color_unclamped(cast::from_array::<S64>(x))) };
    let eps = f32::EPSILON as f64;
    for c in pool {
        let x32: [f32; 3] = [c[0] as f32, c[1] as f32, c[2] as f32];
        // f32's subnormal range has no relative precision at all: outside "single-precision accuracy" by the format itself
        if x32.iter().any(|v| *v != 0.0 && v.abs() < 1e-30) { out.count("cls:prec-skipped-f32-subnormal-range"); continue; }
        let x64 = [x32[0] as f64, x32[1] as f64, x32[2] as f64];
        let r = catch_unwind(AssertUnwindSafe(|| {
            let y32: [f32; 3] = cast::into_array(D32::from_color_unclamped(cast::from_array::<S32>(x32)));
            (y32, f64at(x64))
        }));
        let (y32, y64) = match r { Ok(v) => v, Err(_) => { out.check(false, &format!("no-panic:{}->{}:scalar", e.src, e.dst), || format!("{:?}", c)); continue; } };
        let mut sens = [0.0f64; 3];
        for j in 0..3 { for s in [-4i32, 4] { let mut p = x64; p[j] = nudge32(x32[j], s) as f64; let q = f64at(p);
            for k in 0..3 { let d = if e.cmp.hue == Some(k) { circ(q[k], y64[k]) } else { (q[k] - y64[k]).abs() }; if d.is_finite() { sens[k] = sens[k].max(d); } else { sens[k] = f64::INFINITY; } } } }
        let mut ok = true; let mut worst = 0.0f64;
        for k in 0..3 {
            let (a, b) = (y32[k] as f64, y64[k]);
            if a.is_nan() || b.is_nan() { ok &= a.is_nan() && b.is_nan(); continue; }
            let is_hue = e.cmp.hue == Some(k);
            let sc = if is_hue { 360.0 } else { natural_scale(e.dst)[k].max(b.abs()) };
            let d = if is_hue { circ(a, b) } else { (a - b).abs() };
            let tol = 32.0 * eps * sc + 2.0 * sens[k];
            if !(d <= tol) { ok = false; }
            if sens[k] <= eps * sc { worst = worst.max(d / (eps * sc)); }
        }
        out.maxi(&format!("f32-vs-f64-eps32(well-conditioned):{}->{}", e.src, e.dst), worst);
        out.check(ok, &format!("f32~f64:{}->{}", e.src, e.dst), || format!("input {:?}: f32 {:?} f64 {:?} (sensitivity {:?})", x32, y32, y64, sens));
    }
}

pub fn natural_scale(space: &str) -> [f64; 4] {
    match space {
        "Lab" | "Luv" => [100.0, 128.0, 128.0, 1.0],
        "Lch" | "Lchuv" => [100.0, 128.0, 360.0, 1.0],
        "Hsluv" => [360.0, 100.0, 100.0, 1.0],
        "Hsv" | "Hsl" | "Hwb" => [360.0, 1.0, 1.0, 1.0],
        "Oklch" => [1.0, 1.0, 360.0, 1.0],
        _ => [1.0, 1.0, 1.0, 1.0],
    }
}

macro_rules! edge4 { ($out:expr, $pools:expr, $rng:expr, $ng:expr, $s:ident, $d:ident, $sn:expr, $dn:expr, $pool:expr, $cmp:expr, $model:expr) => {{
    let e = EdgeSpec { src: $sn, dst: $dn, cmp: $cmp, model: $model };
    let pool: &Vec<[f64; 3]> = &$pools[$pool];
    let (g, mx) = make_groups($pool, pool, 4, $rng, $ng); $out.count_n("cls:groups-with-lanes-on-different-branches", mx); $out.count_n("cls:groups", g.len() as u64);
    simd_edge::<$s<f32>, $d<f32>, $s<f32x4>, $d<f32x4>, f32, 4>($out, &e, "f32x4", &g);
    simd_edge::<$s<f64>, $d<f64>, $s<f64x4>, $d<f64x4>, f64, 4>($out, &e, "f64x4", &g);
    let (g, mx) = make_groups($pool, pool, 8, $rng, $ng); $out.count_n("cls:groups-with-lanes-on-different-branches", mx); $out.count_n("cls:groups", g.len() as u64);
    simd_edge::<$s<f32>, $d<f32>, $s<f32x8>, $d<f32x8>, f32, 8>($out, &e, "f32x8", &g);
    let (g, mx) = make_groups($pool, pool, 2, $rng, $ng); $out.count_n("cls:groups-with-lanes-on-different-branches", mx); $out.count_n("cls:groups", g.len() as u64);
    simd_edge::<$s<f64>, $d<f64>, $s<f64x2>, $d<f64x2>, f64, 2>($out, &e, "f64x2", &g);
    let stride = (pool.len() / (4 * $ng).max(1)).max(1);
    let sub: Vec<[f64; 3]> = pool.iter().step_by(stride).cloned().collect();
    prec_edge::<$s<f32>, $d<f32>, $s<f64>, $d<f64>>($out, &e, &sub);
    // coverage audit (c17_more2.rs): every lane assignment of two inputs on different branches / with a special value.  Own PRNG (a clone), no
    // protocol lines: the random stream and the case stream of the clauses above are unchanged.
    { let mut prng = $rng.clone(); let th = $ng > 1000;
      let e = EdgeSpec { src: concat!("pat:", $sn), dst: $dn, cmp: $cmp, model: false };
      let g = crate::c17_more2::pattern_groups($pool, pool, 4, &mut prng, th, $out);
      simd_edge::<$s<f32>, $d<f32>, $s<f32x4>, $d<f32x4>, f32, 4>($out, &e, "f32x4", &g);
      simd_edge::<$s<f64>, $d<f64>, $s<f64x4>, $d<f64x4>, f64, 4>($out, &e, "f64x4", &g);
      let g = crate::c17_more2::pattern_groups($pool, pool, 8, &mut prng, th, $out);
      simd_edge::<$s<f32>, $d<f32>, $s<f32x8>, $d<f32x8>, f32, 8>($out, &e, "f32x8", &g);
      let g = crate::c17_more2::pattern_groups($pool, pool, 2, &mut prng, th, $out);
      simd_edge::<$s<f64>, $d<f64>, $s<f64x2>, $d<f64x2>, f64, 2>($out, &e, "f64x2", &g); }
}} }

// ------------------------------------------------------------------------------------------------------------------
// operators
// ------------------------------------------------------------------------------------------------------------------

/// binary colour operator with one per-lane scalar parameter; `fs` is the scalar form, `fv` the same expression on the SIMD type
fn op_run<C, CV, T: Fl, V, const N: usize>(out: &mut Out, name: &str, vtag: &str, groups: &[(Vec<[f64; 3]>, Vec<[f64; 3]>, Vec<f64>)], cmp: &Cmp,
    fs: impl Fn(C, C, T) -> C, fv: impl Fn(CV, CV, V) -> CV)
where C: ArrayCast<Array = [T; 3]> + Clone, CV: From<[C; N]>, [C; N]: From<CV>, V: FromScalarArray<N, Scalar = T> {
    let key = format!("{}:{}", name, vtag);
    for (ga, gb, gp) in groups {
        let la: [[T; 3]; N] = core::array::from_fn(|i| arr_of3::<T>(ga[i]));
        let lb: [[T; 3]; N] = core::array::from_fn(|i| arr_of3::<T>(gb[i]));
        let lp: [T; N] = core::array::from_fn(|i| T::of(gp[i]));
        let r = catch_unwind(AssertUnwindSafe(|| {
            let so: Vec<[T; 3]> = (0..N).map(|i| cast::into_array(fs(cast::from_array(la[i]), cast::from_array(lb[i]), lp[i]))).collect();
            let a: [C; N] = core::array::from_fn(|i| cast::from_array(la[i])); let b: [C; N] = core::array::from_fn(|i| cast::from_array(lb[i]));
            let back: [C; N] = fv(CV::from(a), CV::from(b), V::from_array(lp)).into();
            let vo: Vec<[T; 3]> = back.into_iter().map(|d| cast::into_array(d)).collect();
            (so, vo)
        }));
        let (so, vo) = match r { Ok(x) => x, Err(_) => { out.check(false, &format!("no-panic:{}", key), || format!("{:?} {:?} {:?}", ga, gb, gp)); continue; } };
        for i in 0..N {
            let mut ok = true; let mut worst = 0.0f64;
            for k in 0..3 { let (o, d) = lane_cmp(so[i][k], vo[i][k], cmp, k); ok &= o; if d.is_finite() { worst = worst.max(d); } }
            out.maxi(&format!("lane-vs-scalar-eps:op:{}:{}", name, T::TAG), worst);
            out.check(ok, &format!("lane=scalar:op:{}", key), || format!("lane {}: a {:?} b {:?} p {:?}: scalar {:?} simd lane {:?}", i, la[i], lb[i], lp[i], so[i], vo[i]));
        }
    }
}

/// mask-valued operator (`is_within_bounds`): every mask lane is all-ones / all-zeros and equals the scalar `bool`
fn mask_run<C, CV, T: Fl, V, const N: usize>(out: &mut Out, name: &str, vtag: &str, groups: &[(Vec<[f64; 3]>, Vec<[f64; 3]>, Vec<f64>)], fs: impl Fn(C) -> bool, fv: impl Fn(CV) -> V)
where C: ArrayCast<Array = [T; 3]> + Clone, CV: From<[C; N]>, V: IntoScalarArray<N, Scalar = T> {
    let key = format!("{}:{}", name, vtag);
    for (ga, _, _) in groups {
        let la: [[T; 3]; N] = core::array::from_fn(|i| arr_of3::<T>(ga[i]));
        let so: Vec<bool> = (0..N).map(|i| fs(cast::from_array(la[i]))).collect();
        let a: [C; N] = core::array::from_fn(|i| cast::from_array(la[i]));
        let m: [T; N] = fv(CV::from(a)).into_array();
        for i in 0..N {
            let bits = m[i].bits64(); let ones = if T::TAG == "f32" { 0xffff_ffffu64 } else { u64::MAX };
            out.check((bits == ones) == so[i] && (bits == ones || bits == 0), &format!("mask-lane=scalar:op:{}", key), || format!("lane {} input {:?}: scalar {} mask bits {:x}", i, la[i], so[i], bits));
            out.count(if so[i] { "cls:within-true" } else { "cls:within-false" });
        }
    }
}

pub fn op_groups(space: &str, pool: &[[f64; 3]], n_lanes: usize, rng: &mut Rng, n_groups: usize, plo: f64, phi: f64) -> Vec<(Vec<[f64; 3]>, Vec<[f64; 3]>, Vec<f64>)> {
    let (ga, _) = make_groups(space, pool, n_lanes, rng, n_groups);
    let (gb, _) = make_groups(space, pool, n_lanes, rng, n_groups);
    ga.into_iter().zip(gb).map(|(a, b)| {
        // per-lane parameter: signs and ends deliberately mixed across lanes (lighten's factor >= 0 branch, mix's clamp)
        let p: Vec<f64> = (0..n_lanes).map(|i| match (i + rng.below(3) as usize) % 6 { 0 => plo, 1 => phi, 2 => 0.0, 3 => rng.range(plo, 0.0f64.max(plo)), _ => rng.range(plo, phi) }).collect();
        (a, b, p)
    }).collect()
}

macro_rules! op4 { ($out:expr, $pools:expr, $rng:expr, $ng:expr, $c:ident, $pool:expr, $name:expr, $cmp:expr, ($plo:expr, $phi:expr), |$a:ident, $b:ident, $p:ident| $body:expr) => {{
    let pool: &Vec<[f64; 3]> = &$pools[$pool]; let cmp: Cmp = $cmp;
    let g = op_groups($pool, pool, 4, $rng, $ng, $plo, $phi);
    op_run::<$c<f32>, $c<f32x4>, f32, f32x4, 4>($out, $name, "f32x4", &g, &cmp, |$a, $b, $p| $body, |$a, $b, $p| $body);
    op_run::<$c<f64>, $c<f64x4>, f64, f64x4, 4>($out, $name, "f64x4", &g, &cmp, |$a, $b, $p| $body, |$a, $b, $p| $body);
    let g = op_groups($pool, pool, 8, $rng, $ng, $plo, $phi);
    op_run::<$c<f32>, $c<f32x8>, f32, f32x8, 8>($out, $name, "f32x8", &g, &cmp, |$a, $b, $p| $body, |$a, $b, $p| $body);
    let g = op_groups($pool, pool, 2, $rng, $ng, $plo, $phi);
    op_run::<$c<f64>, $c<f64x2>, f64, f64x2, 2>($out, $name, "f64x2", &g, &cmp, |$a, $b, $p| $body, |$a, $b, $p| $body);
    // coverage audit (c17_more2.rs): every lane assignment of two (a, b, p) inputs; own PRNG (a clone)
    { let mut prng = $rng.clone(); let th = $ng > 1000; let name_ = format!("pat:{}", $name); let name: &str = &name_;
      let g = crate::c17_more2::pattern_op_groups($pool, pool, 4, &mut prng, $plo, $phi, th, $out);
      op_run::<$c<f32>, $c<f32x4>, f32, f32x4, 4>($out, name, "f32x4", &g, &cmp, |$a, $b, $p| $body, |$a, $b, $p| $body);
      op_run::<$c<f64>, $c<f64x4>, f64, f64x4, 4>($out, name, "f64x4", &g, &cmp, |$a, $b, $p| $body, |$a, $b, $p| $body);
      let g = crate::c17_more2::pattern_op_groups($pool, pool, 8, &mut prng, $plo, $phi, th, $out);
      op_run::<$c<f32>, $c<f32x8>, f32, f32x8, 8>($out, name, "f32x8", &g, &cmp, |$a, $b, $p| $body, |$a, $b, $p| $body);
      let g = crate::c17_more2::pattern_op_groups($pool, pool, 2, &mut prng, $plo, $phi, th, $out);
      op_run::<$c<f64>, $c<f64x2>, f64, f64x2, 2>($out, name, "f64x2", &g, &cmp, |$a, $b, $p| $body, |$a, $b, $p| $body); }
}} }

macro_rules! within4 { ($out:expr, $pools:expr, $rng:expr, $ng:expr, $c:ident, $pool:expr, $name:expr) => {{
    // in-gamut pool widened a little so that both answers occur
    let pool: Vec<[f64; 3]> = $pools[$pool].iter().map(|c| { let mut d = *c; for k in 0..3 { if $rng.chance(0.15) { d[k] = d[k] * 1.5 + $rng.range(-0.3, 0.3); } } d }).collect();
    let g = op_groups($pool, &pool, 4, $rng, $ng, 0.0, 1.0);
    mask_run::<$c<f32>, $c<f32x4>, f32, f32x4, 4>($out, $name, "f32x4", &g, |c| c.is_within_bounds(), |c| c.is_within_bounds());
    mask_run::<$c<f64>, $c<f64x4>, f64, f64x4, 4>($out, $name, "f64x4", &g, |c| c.is_within_bounds(), |c| c.is_within_bounds());
    let g = op_groups($pool, &pool, 8, $rng, $ng, 0.0, 1.0);
    mask_run::<$c<f32>, $c<f32x8>, f32, f32x8, 8>($out, $name, "f32x8", &g, |c| c.is_within_bounds(), |c| c.is_within_bounds());
    let g = op_groups($pool, &pool, 2, $rng, $ng, 0.0, 1.0);
    mask_run::<$c<f64>, $c<f64x2>, f64, f64x2, 2>($out, $name, "f64x2", &g, |c| c.is_within_bounds(), |c| c.is_within_bounds());
    // clamp on the same widened pool: out-of-range lanes next to in-range lanes
    let cmp = exact();
    let g4 = op_groups($pool, &pool, 4, $rng, $ng, 0.0, 1.0);
    op_run::<$c<f32>, $c<f32x4>, f32, f32x4, 4>($out, concat!("clamp:", $name), "f32x4", &g4, &cmp, |a, _b, _p| a.clamp(), |a, _b, _p| a.clamp());
    op_run::<$c<f64>, $c<f64x4>, f64, f64x4, 4>($out, concat!("clamp:", $name), "f64x4", &g4, &cmp, |a, _b, _p| a.clamp(), |a, _b, _p| a.clamp());
    op_run::<$c<f32>, $c<f32x4>, f32, f32x4, 4>($out, concat!("clamp_assign:", $name), "f32x4", &g4, &cmp, |mut a, _b, _p| { a.clamp_assign(); a }, |mut a, _b, _p| { a.clamp_assign(); a });
    let g8 = op_groups($pool, &pool, 8, $rng, $ng, 0.0, 1.0);
    op_run::<$c<f32>, $c<f32x8>, f32, f32x8, 8>($out, concat!("clamp:", $name), "f32x8", &g8, &cmp, |a, _b, _p| a.clamp(), |a, _b, _p| a.clamp());
    let g2 = op_groups($pool, &pool, 2, $rng, $ng, 0.0, 1.0);
    op_run::<$c<f64>, $c<f64x2>, f64, f64x2, 2>($out, concat!("clamp:", $name), "f64x2", &g2, &cmp, |a, _b, _p| a.clamp(), |a, _b, _p| a.clamp());
    // coverage audit (c17_more2.rs): every lane assignment of two inputs from the widened pool (in-bounds next to out-of-bounds lanes) and of the
    // in-gamut special values (exactly on a bound) next to generic ones: mask lanes, clamp, clamp_assign for all four SIMD types
    { let mut prng = $rng.clone(); let th = $ng > 500;
      let g = crate::c17_more2::pattern_op_groups($pool, &pool, 4, &mut prng, 0.0, 1.0, th, $out);
      mask_run::<$c<f32>, $c<f32x4>, f32, f32x4, 4>($out, &format!("pat:{}", $name), "f32x4", &g, |c| c.is_within_bounds(), |c| c.is_within_bounds());
      mask_run::<$c<f64>, $c<f64x4>, f64, f64x4, 4>($out, &format!("pat:{}", $name), "f64x4", &g, |c| c.is_within_bounds(), |c| c.is_within_bounds());
      op_run::<$c<f32>, $c<f32x4>, f32, f32x4, 4>($out, &format!("pat:clamp:{}", $name), "f32x4", &g, &cmp, |a, _b, _p| a.clamp(), |a, _b, _p| a.clamp());
      op_run::<$c<f64>, $c<f64x4>, f64, f64x4, 4>($out, &format!("pat:clamp:{}", $name), "f64x4", &g, &cmp, |a, _b, _p| a.clamp(), |a, _b, _p| a.clamp());
      op_run::<$c<f32>, $c<f32x4>, f32, f32x4, 4>($out, &format!("pat:clamp_assign:{}", $name), "f32x4", &g, &cmp, |mut a, _b, _p| { a.clamp_assign(); a }, |mut a, _b, _p| { a.clamp_assign(); a });
      op_run::<$c<f64>, $c<f64x4>, f64, f64x4, 4>($out, &format!("pat:clamp_assign:{}", $name), "f64x4", &g, &cmp, |mut a, _b, _p| { a.clamp_assign(); a }, |mut a, _b, _p| { a.clamp_assign(); a });
      let g = crate::c17_more2::pattern_op_groups($pool, &pool, 8, &mut prng, 0.0, 1.0, th, $out);
      mask_run::<$c<f32>, $c<f32x8>, f32, f32x8, 8>($out, &format!("pat:{}", $name), "f32x8", &g, |c| c.is_within_bounds(), |c| c.is_within_bounds());
      op_run::<$c<f32>, $c<f32x8>, f32, f32x8, 8>($out, &format!("pat:clamp:{}", $name), "f32x8", &g, &cmp, |a, _b, _p| a.clamp(), |a, _b, _p| a.clamp());
      op_run::<$c<f32>, $c<f32x8>, f32, f32x8, 8>($out, &format!("pat:clamp_assign:{}", $name), "f32x8", &g, &cmp, |mut a, _b, _p| { a.clamp_assign(); a }, |mut a, _b, _p| { a.clamp_assign(); a });
      let g = crate::c17_more2::pattern_op_groups($pool, &pool, 2, &mut prng, 0.0, 1.0, th, $out);
      mask_run::<$c<f64>, $c<f64x2>, f64, f64x2, 2>($out, &format!("pat:{}", $name), "f64x2", &g, |c| c.is_within_bounds(), |c| c.is_within_bounds());
      op_run::<$c<f64>, $c<f64x2>, f64, f64x2, 2>($out, &format!("pat:clamp:{}", $name), "f64x2", &g, &cmp, |a, _b, _p| a.clamp(), |a, _b, _p| a.clamp());
      op_run::<$c<f64>, $c<f64x2>, f64, f64x2, 2>($out, &format!("pat:clamp_assign:{}", $name), "f64x2", &g, &cmp, |mut a, _b, _p| { a.clamp_assign(); a }, |mut a, _b, _p| { a.clamp_assign(); a }); }
    // correspondence lines for the clamp model (Rgb-like boxes only are modelled; the driver ignores nothing: only emitted for "Rgb")
    if $name == "Rgb" { for (ga, _, _) in g4.iter() {
        let la: [[f32; 3]; 4] = core::array::from_fn(|i| arr_of3::<f32>(ga[i]));
        let a: [$c<f32>; 4] = core::array::from_fn(|i| cast::from_array(la[i]));
        let back: [$c<f32>; 4] = <$c<f32x4>>::from(a).clamp().into();
        let xs: Vec<String> = la.iter().map(|l| hx_list(l)).collect(); let ys: Vec<String> = back.into_iter().map(|d| { let r: [f32; 3] = cast::into_array(d); hx_list(&r) }).collect();
        $out.case(&format!("simd Rgb clamp f32x4 | 4 {} | {}", xs.join(" "), ys.join(" ")));
        let s: [f32; 3] = cast::into_array(cast::from_array::<$c<f32>>(la[0]).clamp());
        $out.case(&format!("simd Rgb clamp f32 | 1 {} | {}", hx_list(&la[0]), hx_list(&s)));
    } }
}} }

// ------------------------------------------------------------------------------------------------------------------
// packing / unpacking
// ------------------------------------------------------------------------------------------------------------------

fn pack_run<C, CV, T: Fl, V, const N: usize>(out: &mut Out, ty: &str, vtag: &str, rng: &mut Rng, n: usize)
where C: ArrayCast<Array = [T; 3]> + Clone, CV: From<[C; N]> + ArrayCast<Array = [V; 3]> + Clone, [C; N]: From<CV>,
      Alpha<CV, V>: From<[Alpha<C, T>; N]>, [Alpha<C, T>; N]: From<Alpha<CV, V>>, V: IntoScalarArray<N, Scalar = T> + Clone {
    let key = format!("{}:{}", ty, vtag);
    for it in 0..n {
        // distinct recognisable values per lane and component, plus special values that must travel untouched
        let lanes: [[T; 3]; N] = core::array::from_fn(|i| core::array::from_fn(|k| match (it + i + k) % 11 {
            0 => T::of(-0.0), 1 => T::of(f64::INFINITY), 2 => T::of(f64::NAN), 3 => T::of(1e-40), _ => T::of((i * 10 + k) as f64 + rng.unit()) }));
        let alphas: [T; N] = core::array::from_fn(|i| T::of(100.0 + i as f64 + rng.unit()));
        let cs: [C; N] = core::array::from_fn(|i| cast::from_array(lanes[i]));
        let cv = CV::from(cs.clone());
        let fields: [V; 3] = cast::into_array(cv.clone());
        let comp: Vec<[T; N]> = fields.iter().map(|f| f.clone().into_array()).collect();
        let mut ok = true; for i in 0..N { for k in 0..3 { ok &= comp[k][i].bits64() == lanes[i][k].bits64(); } }
        out.check(ok, &format!("pack-lane-order:{}", key), || format!("{:?} packed as {:?}", lanes, comp));
        let back: [C; N] = cv.into();
        let un: Vec<[T; 3]> = back.into_iter().map(|c| cast::into_array(c)).collect();
        let mut ok2 = true; for i in 0..N { for k in 0..3 { ok2 &= un[i][k].bits64() == lanes[i][k].bits64(); } }
        out.check(ok2, &format!("unpack∘pack=id:{}", key), || format!("{:?} came back as {:?}", lanes, un));
        // Alpha-wrapped form
        let acs: [Alpha<C, T>; N] = core::array::from_fn(|i| Alpha { color: cs[i].clone(), alpha: alphas[i] });
        let av: Alpha<CV, V> = acs.into();
        let afields: [V; 3] = cast::into_array(av.color.clone()); let aal: [T; N] = av.alpha.clone().into_array();
        let mut ok3 = true; for i in 0..N { ok3 &= aal[i].bits64() == alphas[i].bits64(); for k in 0..3 { ok3 &= afields[k].clone().into_array()[i].bits64() == lanes[i][k].bits64(); } }
        let aback: [Alpha<C, T>; N] = av.into();
        for (i, a) in aback.into_iter().enumerate() { ok3 &= a.alpha.bits64() == alphas[i].bits64(); let r: [T; 3] = cast::into_array(a.color); for k in 0..3 { ok3 &= r[k].bits64() == lanes[i][k].bits64(); } }
        out.check(ok3, &format!("alpha-pack-unpack:{}", key), || format!("{:?} alpha {:?}", lanes, alphas));
        let l: Vec<String> = lanes.iter().map(|x| hx_list(x)).collect(); let c: Vec<String> = comp.iter().map(|x| hx_list(x)).collect(); let u: Vec<String> = un.iter().map(|x| hx_list(x)).collect();
        out.case(&format!("simdpack {} {} | {} 3 {} | {} {}", ty, vtag, N, l.join(" "), c.join(" "), u.join(" ")));
    }
}

macro_rules! pack4 { ($out:expr, $rng:expr, $n:expr, $c:ident, $name:expr) => {{
    pack_run::<$c<f32>, $c<f32x4>, f32, f32x4, 4>($out, $name, "f32x4", $rng, $n);
    pack_run::<$c<f32>, $c<f32x8>, f32, f32x8, 8>($out, $name, "f32x8", $rng, $n);
    pack_run::<$c<f64>, $c<f64x2>, f64, f64x2, 2>($out, $name, "f64x2", $rng, $n);
    pack_run::<$c<f64>, $c<f64x4>, f64, f64x4, 4>($out, $name, "f64x4", $rng, $n);
}} }

// ------------------------------------------------------------------------------------------------------------------
// masks: compare / select / bit operations, lane by lane
// ------------------------------------------------------------------------------------------------------------------

fn mask_ops<T, V, const N: usize>(out: &mut Out, vtag: &str, rng: &mut Rng, n: usize)
where T: Fl + PartialCmp<Mask = bool> + IsValidDivisor<Mask = bool>,
      V: Copy + FromScalarArray<N, Scalar = T> + IntoScalarArray<N, Scalar = T> + PartialCmp<Mask = V> + IsValidDivisor<Mask = V> + BoolMask + Select<V> + LazySelect<V>
         + core::ops::BitAnd<Output = V> + core::ops::BitOr<Output = V> + core::ops::BitXor<Output = V> + core::ops::Not<Output = V> {
    let specials = [0.0, -0.0, 1.0, -1.0, 0.5, f64::INFINITY, f64::NEG_INFINITY, f64::NAN, 1e-40, -1e-40, 1e-310, 1e-30, 3.4e38, 1.0 + 1e-7, 1.0 + 2e-16];
    let ones = if T::TAG == "f32" { 0xffff_ffffu64 } else { u64::MAX };
    let bit = |m: V| -> Vec<u64> { m.into_array().iter().map(|x| x.bits64()).collect() };
    for it in 0..n {
        let pickv = |rng: &mut Rng| -> f64 { if rng.chance(0.4) { *rng.pick(&specials) } else { rng.range(-2.0, 2.0) } };
        let a: [T; N] = core::array::from_fn(|_| T::of(pickv(rng)));
        let b: [T; N] = core::array::from_fn(|i| if rng.chance(0.3) { a[i] } else if rng.chance(0.2) { a[i].nudge(if rng.chance(0.5) { 1 } else { -1 }) } else { T::of(pickv(rng)) });
        let x: [T; N] = core::array::from_fn(|i| T::of(10.0 + i as f64 + rng.unit()));
        let y: [T; N] = core::array::from_fn(|i| T::of(-10.0 - i as f64 - rng.unit()));
        let (va, vb, vx, vy) = (V::from_array(a), V::from_array(b), V::from_array(x), V::from_array(y));
        let cmps: [(&str, V, fn(&T, &T) -> bool); 6] = [("lt", PartialCmp::lt(&va, &vb), |p, q| PartialCmp::lt(p, q)), ("le", va.lt_eq(&vb), |p, q| p.lt_eq(q)), ("eq", PartialCmp::eq(&va, &vb), |p, q| PartialCmp::eq(p, q)),
            ("ne", va.neq(&vb), |p, q| p.neq(q)), ("ge", va.gt_eq(&vb), |p, q| p.gt_eq(q)), ("gt", PartialCmp::gt(&va, &vb), |p, q| PartialCmp::gt(p, q))];
        let mut toks: Vec<String> = vec![];
        for (nm, m, f) in cmps.iter() {
            let bits = bit(*m);
            for i in 0..N { let want = f(&a[i], &b[i]);
                out.check((bits[i] == ones) == want && (bits[i] == ones || bits[i] == 0), &format!("mask-compare-lane=scalar:{}:{}", nm, vtag), || format!("a {:?} b {:?} lane {}: scalar {} mask bits {:x}", a[i], b[i], i, want, bits[i]));
                toks.push(((bits[i] == ones) as u8).to_string()); }
        }
        let lt = PartialCmp::lt(&va, &vb); let ne = va.neq(&vb); let ltb: Vec<bool> = (0..N).map(|i| PartialCmp::lt(&a[i], &b[i])).collect(); let neb: Vec<bool> = (0..N).map(|i| a[i].neq(&b[i])).collect();
        let sel = Select::select(lt, vx, vy).into_array(); let lsel = LazySelect::lazy_select(lt, || vx, || vy).into_array();
        for i in 0..N { let want = if ltb[i] { x[i] } else { y[i] };
            out.check(sel[i].bits64() == want.bits64() && lsel[i].bits64() == want.bits64(), &format!("select-lane=scalar:{}", vtag), || format!("lane {}: mask {} -> select {:?} lazy_select {:?}, scalar if-else {:?}", i, ltb[i], sel[i], lsel[i], want));
            out.count(if ltb[i] { "cls:select-true-lane" } else { "cls:select-false-lane" }); }
        toks.extend(sel.iter().map(|v| v.hx())); toks.extend(lsel.iter().map(|v| v.hx()));
        let bops: [(&str, V, fn(bool, bool) -> bool); 4] = [("and", lt & ne, |p, q| p & q), ("or", lt | PartialCmp::eq(&va, &vb), |p, q| p | q), ("xor", lt ^ ne, |p, q| p ^ q), ("not", !lt, |p, _| !p)];
        for (nm, m, f) in bops.iter() { let bits = bit(*m);
            for i in 0..N { let q = if *nm == "or" { PartialCmp::eq(&a[i], &b[i]) } else { neb[i] }; let want = f(ltb[i], q);
                out.check((bits[i] == ones) == want && (bits[i] == ones || bits[i] == 0), &format!("mask-bitop-lane=scalar:{}:{}", nm, vtag), || format!("a {:?} b {:?} lane {}", a[i], b[i], i));
                toks.push(((bits[i] == ones) as u8).to_string()); } }
        // IsValidDivisor, lane by lane like the scalar `is_normal`
        let vd = bit(va.is_valid_divisor());
        for i in 0..N { let want = a[i].is_valid_divisor();
            out.check((vd[i] == ones) == want && (vd[i] == ones || vd[i] == 0), &format!("is_valid_divisor-lane=scalar:{}", vtag), || format!("{:?}: scalar {} mask bits {:x}", a[i], want, vd[i]));
            toks.push(((vd[i] == ones) as u8).to_string()); }
        // whole-mask predicates
        out.check(lt.is_true() == ltb.iter().all(|v| *v) && lt.is_false() == ltb.iter().all(|v| !*v), &format!("mask-all-none:{}", vtag), || format!("{:?} is_true {} is_false {}", ltb, lt.is_true(), lt.is_false()));
        toks.push((lt.is_true() as u8).to_string()); toks.push((lt.is_false() as u8).to_string());
        if it == 0 { for v in [true, false] { let m = bit(V::from_bool(v)); out.check(m.iter().all(|w| (*w == ones) == v && (*w == ones || *w == 0)), &format!("from_bool:{}", vtag), || format!("{} -> {:x?}", v, m)); } }
        out.case(&format!("vmask {} | {} {} {} {} {} | {}", vtag, N, hx_list(&a), hx_list(&b), hx_list(&x), hx_list(&y), toks.join(" ")));
    }
}

// ------------------------------------------------------------------------------------------------------------------

pub fn run(tier: &str, seed: u64, dir: &str) {
    let mut out_ = Out::new("C17", dir);
    let mut rng_ = Rng::new(seed);
    { let out = &mut out_; let rng = &mut rng_;
    let thorough = tier == "thorough";
    let n_pool = if thorough { 60_000 } else { 4_000 };
    let ng = if thorough { 20_000 } else { 400 };

    // ---- pools of in-gamut colours per source space
    let rgb = rgb_pool(rng, n_pool, false);
    let rgbl = rgb_pool(rng, n_pool, true);
    let mut pools: std::collections::BTreeMap<&'static str, Vec<[f64; 3]>> = std::collections::BTreeMap::new();
    let hx = hue_extras(rng, 0, 0.0, 1.0, 0.0, 1.0);
    pools.insert("Hsv", derived_pool::<HsvS<f64>>(&rgb, hx.clone()));
    pools.insert("Hsl", derived_pool::<HslS<f64>>(&rgb, hx.clone()));
    pools.insert("Hwb", derived_pool::<HwbS<f64>>(&rgb, hx.iter().map(|c| [c[0], c[1] * 0.5, c[2] * 0.5]).collect()));
    let mut xyz_extra = vec![[0.0, 0.0, 0.0]]; { let mut t = vec![]; thresholds_around(&mut t, 216.0 / 24389.0); for v in t { xyz_extra.push([v * 0.95047, v, v * 1.08883]); xyz_extra.push([0.3, v, 0.2]); } }
    pools.insert("Xyz", derived_pool::<XyzD<f64>>(&rgb, xyz_extra));
    pools.insert("Yxy", derived_pool::<YxyD<f64>>(&rgb, vec![[0.3, 0.0, 0.5], [0.0, 0.0, 0.0], [0.3127, 0.329, 1.0], [0.3, 1e-40, 0.5], [0.3, 1e-310, 0.5], [0.2, 1e-30, 0.1]]));
    pools.insert("Lab", derived_pool::<LabD<f64>>(&rgb, vec![[0.0, 0.0, 0.0], [100.0, 0.0, 0.0], [50.0, 0.0, 0.0], [8.0, 0.0, 0.0], [7.9996, 1.0, -1.0]]));
    pools.insert("Lch", derived_pool::<LchD<f64>>(&rgb, hue_extras(rng, 2, 0.0, 100.0, 0.0, 128.0)));
    pools.insert("Luv", derived_pool::<LuvD<f64>>(&rgb, vec![[0.0, 0.0, 0.0], [100.0, 0.0, 0.0], [50.0, 0.0, 0.0]]));
    pools.insert("Lchuv", derived_pool::<LchuvD<f64>>(&rgb, hue_extras(rng, 2, 0.0, 100.0, 0.0, 180.0)));
    pools.insert("Oklab", derived_pool::<OklabT<f64>>(&rgb, vec![[0.0, 0.0, 0.0], [1.0, 0.0, 0.0], [0.5, 0.0, 0.0]]));
    pools.insert("Oklch", derived_pool::<OklchT<f64>>(&rgb, hue_extras(rng, 2, 0.0, 1.0, 0.0, 0.4)));
    pools.insert("Rgb", rgb);
    pools.insert("RgbL", rgbl);
    for (k, v) in pools.iter() { out.count_n(&format!("cls:pool:{}", k), v.len() as u64); let mut cl: Vec<u32> = v.iter().map(|c| class_of(k, c)).collect(); cl.sort(); cl.dedup(); out.count_n(&format!("cls:branch-classes:{}", k), cl.len() as u64); }

    let one3 = [1.0, 1.0, 1.0, 1.0];

    // ---- conversions.  `model = true`: also replayed against the Lean model (lifted to lanes).
    // RGB family (hexcone): the only place where SIMD and scalar run different algorithms
    edge4!(out, pools, rng, ng, RgbS, HsvS, "Rgb", "Hsv", "Rgb", hue_branch(), true);
    edge4!(out, pools, rng, ng, RgbS, HslS, "Rgb", "Hsl", "Rgb", hue_branch(), true);
    edge4!(out, pools, rng, ng, RgbS, HwbS, "Rgb", "Hwb", "Rgb", hue_branch(), false);
    edge4!(out, pools, rng, ng, HsvS, RgbS, "Hsv", "Rgb", "Hsv", exact(), false);
    edge4!(out, pools, rng, ng, HslS, RgbS, "Hsl", "Rgb", "Hsl", exact(), false);
    edge4!(out, pools, rng, ng, HwbS, RgbS, "Hwb", "Rgb", "Hwb", exact(), false);
    edge4!(out, pools, rng, ng, HsvS, HslS, "Hsv", "Hsl", "Hsv", exact(), true);
    edge4!(out, pools, rng, ng, HslS, HsvS, "Hsl", "Hsv", "Hsl", exact(), true);
    edge4!(out, pools, rng, ng, HsvS, HwbS, "Hsv", "Hwb", "Hsv", exact(), true);
    edge4!(out, pools, rng, ng, HwbS, HsvS, "Hwb", "Hsv", "Hwb", exact(), true);
    // transfer functions (wide's pow) and the RGB <-> XYZ matrices
    edge4!(out, pools, rng, ng, RgbS, RgbL, "Rgb", "RgbL", "Rgb", approx(one3, None), true);
    edge4!(out, pools, rng, ng, RgbL, RgbS, "RgbL", "Rgb", "RgbL", approx(one3, None), true);
    edge4!(out, pools, rng, ng, RgbS, XyzD, "Rgb", "Xyz", "Rgb", approx(one3, None), false);
    edge4!(out, pools, rng, ng, XyzD, RgbS, "Xyz", "Rgb", "Xyz", approx(one3, None), false);
    edge4!(out, pools, rng, ng, RgbL, XyzD, "RgbL", "Xyz", "RgbL", exact(), false);
    edge4!(out, pools, rng, ng, XyzD, RgbL, "Xyz", "RgbL", "Xyz", exact(), false);
    // CIE family
    edge4!(out, pools, rng, ng, XyzD, YxyD, "Xyz", "Yxy", "Xyz", exact(), true);
    edge4!(out, pools, rng, ng, YxyD, XyzD, "Yxy", "Xyz", "Yxy", exact(), true);
    edge4!(out, pools, rng, ng, XyzD, LabD, "Xyz", "Lab", "Xyz", exact(), false);      // cbrt is applied lane by lane with the scalar function
    edge4!(out, pools, rng, ng, LabD, XyzD, "Lab", "Xyz", "Lab", exact(), false);      // + - * recip powi select only
    edge4!(out, pools, rng, ng, LabD, LchD, "Lab", "Lch", "Lab", approx([100.0, 128.0, 360.0, 1.0], Some(2)), false);
    edge4!(out, pools, rng, ng, LchD, LabD, "Lch", "Lab", "Lch", approx([100.0, 128.0, 128.0, 1.0], None), false);
    edge4!(out, pools, rng, ng, LuvD, LchuvD, "Luv", "Lchuv", "Luv", approx([100.0, 180.0, 360.0, 1.0], Some(2)), false);
    edge4!(out, pools, rng, ng, LchuvD, LuvD, "Lchuv", "Luv", "Lchuv", approx([100.0, 180.0, 180.0, 1.0], None), false);
    edge4!(out, pools, rng, ng, XyzA, LmsB, "Xyz", "Lms", "Xyz", exact(), false);
    edge4!(out, pools, rng, ng, LmsB, XyzA, "Lms", "Xyz", "Xyz", exact(), false);
    // Oklab family
    edge4!(out, pools, rng, ng, OklabT, OklchT, "Oklab", "Oklch", "Oklab", approx([1.0, 1.0, 360.0, 1.0], Some(2)), false);
    edge4!(out, pools, rng, ng, OklchT, OklabT, "Oklch", "Oklab", "Oklch", approx(one3, None), false);
    edge4!(out, pools, rng, ng, XyzD, OklabT, "Xyz", "Oklab", "Xyz", exact(), false);
    edge4!(out, pools, rng, ng, OklabT, XyzD, "Oklab", "Xyz", "Oklab", exact(), false);

    // ---- operators
    let nq = ng / 2;
    within4!(out, pools, rng, nq, RgbS, "Rgb", "Rgb");
    within4!(out, pools, rng, nq, HsvS, "Hsv", "Hsv");
    within4!(out, pools, rng, nq, HslS, "Hsl", "Hsl");
    within4!(out, pools, rng, nq, HwbS, "Hwb", "Hwb");
    within4!(out, pools, rng, nq, LabD, "Lab", "Lab");
    within4!(out, pools, rng, nq, LchD, "Lch", "Lch");
    within4!(out, pools, rng, nq, XyzD, "Xyz", "Xyz");
    within4!(out, pools, rng, nq, YxyD, "Yxy", "Yxy");
    within4!(out, pools, rng, nq, OklabT, "Oklab", "Oklab");
    op4!(out, pools, rng, nq, RgbS, "Rgb", "mix:Rgb", exact(), (-0.5, 1.5), |a, b, p| a.mix(b, p));
    op4!(out, pools, rng, nq, LabD, "Lab", "mix:Lab", exact(), (-0.5, 1.5), |a, b, p| a.mix(b, p));
    op4!(out, pools, rng, nq, XyzD, "Xyz", "mix:Xyz", exact(), (-0.5, 1.5), |a, b, p| a.mix(b, p));
    op4!(out, pools, rng, nq, HsvS, "Hsv", "mix:Hsv", exact(), (-0.5, 1.5), |a, b, p| a.mix(b, p));
    op4!(out, pools, rng, nq, LchD, "Lch", "mix:Lch", exact(), (-0.5, 1.5), |a, b, p| a.mix(b, p));
    op4!(out, pools, rng, nq, RgbS, "Rgb", "lighten:Rgb", exact(), (-1.0, 1.0), |a, _b, p| Lighten::lighten(a, p));
    op4!(out, pools, rng, nq, RgbS, "Rgb", "darken:Rgb", exact(), (-1.0, 1.0), |a, _b, p| Darken::darken(a, p));
    op4!(out, pools, rng, nq, RgbS, "Rgb", "lighten_fixed:Rgb", exact(), (-1.0, 1.0), |a, _b, p| a.lighten_fixed(p));
    op4!(out, pools, rng, nq, HslS, "Hsl", "lighten:Hsl", exact(), (-1.0, 1.0), |a, _b, p| a.lighten(p));
    op4!(out, pools, rng, nq, HsvS, "Hsv", "darken:Hsv", exact(), (-1.0, 1.0), |a, _b, p| a.darken(p));
    op4!(out, pools, rng, nq, LabD, "Lab", "lighten:Lab", exact(), (-1.0, 1.0), |a, _b, p| a.lighten(p));
    op4!(out, pools, rng, nq, LchD, "Lch", "lighten:Lch", exact(), (-1.0, 1.0), |a, _b, p| a.lighten(p));
    op4!(out, pools, rng, nq, HsvS, "Hsv", "saturate:Hsv", exact(), (-1.0, 1.0), |a, _b, p| a.saturate(p));
    op4!(out, pools, rng, nq, HslS, "Hsl", "desaturate:Hsl", exact(), (-1.0, 1.0), |a, _b, p| a.desaturate(p));
    op4!(out, pools, rng, nq, LchD, "Lch", "saturate:Lch", exact(), (-1.0, 1.0), |a, _b, p| a.saturate(p));
    op4!(out, pools, rng, nq, HsvS, "Hsv", "shift_hue:Hsv", exact(), (-400.0, 400.0), |a, _b, p| a.shift_hue(p));
    op4!(out, pools, rng, nq, LchD, "Lch", "shift_hue:Lch", exact(), (-400.0, 400.0), |a, _b, p| a.shift_hue(p));
    op4!(out, pools, rng, nq, RgbS, "Rgb", "add:Rgb", exact(), (0.0, 1.0), |a, b, _p| a + b);
    op4!(out, pools, rng, nq, RgbS, "Rgb", "sub:Rgb", exact(), (0.0, 1.0), |a, b, _p| a - b);
    op4!(out, pools, rng, nq, RgbS, "Rgb", "mul-scalar:Rgb", exact(), (0.0, 2.0), |a, _b, p| a * p);
    op4!(out, pools, rng, nq, RgbS, "Rgb", "div-scalar:Rgb", exact(), (0.25, 2.0), |a, _b, p| a / p);
    op4!(out, pools, rng, nq, LabD, "Lab", "mul:Lab", exact(), (0.0, 1.0), |a, b, _p| a * b);
    // blending (PreAlpha arithmetic with the colour's own alpha = the per-lane parameter), premultiplication
    op4!(out, pools, rng, nq, RgbL, "RgbL", "premultiply:Rgb", exact(), (0.0, 1.0), |a, _b, p| a.premultiply(p).color);
    op4!(out, pools, rng, nq, RgbL, "RgbL", "unpremultiply:Rgb", exact(), (0.0, 1.0), |a, _b, p| Premultiply::unpremultiply(PreAlpha { color: a, alpha: p }).0);
    op4!(out, pools, rng, nq, RgbL, "RgbL", "unpremultiply-tiny-alpha:Rgb", exact(), (0.0, 1e-38), |a, _b, p| Premultiply::unpremultiply(PreAlpha { color: a * p, alpha: p }).0);
    op4!(out, pools, rng, nq, RgbL, "RgbL", "blend-multiply:Rgb", exact(), (0.0, 1.0), |a, b, _p| a.multiply(b));
    op4!(out, pools, rng, nq, RgbL, "RgbL", "blend-screen:Rgb", exact(), (0.0, 1.0), |a, b, _p| a.screen(b));
    op4!(out, pools, rng, nq, RgbL, "RgbL", "blend-overlay:Rgb", exact(), (0.0, 1.0), |a, b, _p| a.overlay(b));
    op4!(out, pools, rng, nq, RgbL, "RgbL", "blend-darken:Rgb", exact(), (0.0, 1.0), |a, b, _p| Blend::darken(a, b));
    op4!(out, pools, rng, nq, RgbL, "RgbL", "blend-lighten:Rgb", exact(), (0.0, 1.0), |a, b, _p| Blend::lighten(a, b));
    op4!(out, pools, rng, nq, RgbL, "RgbL", "blend-dodge:Rgb", exact(), (0.0, 1.0), |a, b, _p| a.dodge(b));
    op4!(out, pools, rng, nq, RgbL, "RgbL", "blend-burn:Rgb", exact(), (0.0, 1.0), |a, b, _p| a.burn(b));
    op4!(out, pools, rng, nq, RgbL, "RgbL", "blend-hard_light:Rgb", exact(), (0.0, 1.0), |a, b, _p| a.hard_light(b));
    op4!(out, pools, rng, nq, RgbL, "RgbL", "blend-soft_light:Rgb", approx(one3, None), (0.0, 1.0), |a, b, _p| a.soft_light(b));   // sqrt
    op4!(out, pools, rng, nq, RgbL, "RgbL", "blend-difference:Rgb", exact(), (0.0, 1.0), |a, b, _p| a.difference(b));
    op4!(out, pools, rng, nq, RgbL, "RgbL", "blend-exclusion:Rgb", exact(), (0.0, 1.0), |a, b, _p| a.exclusion(b));
    op4!(out, pools, rng, nq, RgbL, "RgbL", "compose-over:Rgb", exact(), (0.0, 1.0), |a, b, _p| a.over(b));
    op4!(out, pools, rng, nq, RgbL, "RgbL", "compose-plus:Rgb", exact(), (0.0, 1.0), |a, b, _p| a.plus(b));
    // alpha-carrying blend: result colour after unpremultiplying (zero / non-zero result alpha in different lanes)
    op4!(out, pools, rng, nq, RgbL, "RgbL", "blend-alpha-over:Rgb", exact(), (0.0, 1.0), |a, b, p| { let r = Alpha { color: a, alpha: p.clone() }.over(Alpha { color: b, alpha: p }); r.color });
    op4!(out, pools, rng, nq, RgbL, "RgbL", "blend-alpha-xor:Rgb", exact(), (0.0, 1.0), |a, b, p| { let r = Alpha { color: a, alpha: p.clone() }.xor(Alpha { color: b, alpha: p }); r.color });
    op4!(out, pools, rng, nq, RgbL, "RgbL", "blend-alpha-multiply:Rgb", exact(), (0.0, 1.0), |a, b, p| { let r = Alpha { color: a, alpha: p.clone() }.multiply(Alpha { color: b, alpha: p }); r.color });

    // ---- packing
    let np = if thorough { 2_000 } else { 60 };
    pack4!(out, rng, np, RgbS, "Rgb"); pack4!(out, rng, np, HsvS, "Hsv"); pack4!(out, rng, np, HslS, "Hsl"); pack4!(out, rng, np, HwbS, "Hwb");
    pack4!(out, rng, np, XyzD, "Xyz"); pack4!(out, rng, np, YxyD, "Yxy"); pack4!(out, rng, np, LabD, "Lab"); pack4!(out, rng, np, LchD, "Lch");
    pack4!(out, rng, np, LuvD, "Luv"); pack4!(out, rng, np, LchuvD, "Lchuv"); pack4!(out, rng, np, HsluvD, "Hsluv"); pack4!(out, rng, np, LmsB, "Lms");
    pack4!(out, rng, np, OklabT, "Oklab"); pack4!(out, rng, np, OklchT, "Oklch");

    // ---- masks
    let nm = if thorough { 100_000 } else { 4_000 };
    mask_ops::<f32, f32x4, 4>(out, "f32x4", rng, nm); mask_ops::<f32, f32x8, 8>(out, "f32x8", rng, nm);
    mask_ops::<f64, f64x2, 2>(out, "f64x2", rng, nm); mask_ops::<f64, f64x4, 4>(out, "f64x4", rng, nm);

    // ---- the operations that compile for the wide types and are not driven above (colour differences, contrast, Luma, Cam16, the
    // `num`/`angle` traits on the wide types themselves, ...): `c17_more.rs`.  Called last, so that the case stream above is unchanged.
    crate::c17_more::run_more(out, rng, thorough, ng, &pools);
    crate::c17_more::run_more_audit(out, rng, thorough, ng, &pools);
    // ---- coverage audit (AUDIT_C17.md): packing arms / colour types / slice forms / wrapper forms never executed before, masks and the numeric
    // traits at every lane position: `c17_more2.rs`
    crate::c17_more2::run_more2(out, seed, thorough, &pools);

    }
    out_.finish(dir, "");
}
