//! C07 — finite valid colours never produce NaN, infinity or a panic.
//!
//! The real crate is driven over the boundary lattice the property describes: every component of the source colour is
//! finite, inside the documented range of its space and either exactly on a bound of that range (or exactly zero) or at least
//! one billionth of the range away from every bound (and from zero); hues sit on the sector edges k·60°, ±180°, 360°, next
//! to them and in mid-sector.  Nothing else is generated, so the oracle never demands more than the property states.
//!   × every conversion pair (all XYZ-group pairs for sRGB/D65 through `pairs.rs`, the hand-written edges for the other RGB
//!     standards / white points / cone matrices, CAM16 + partials + UCS)
//!   × every operator, blend mode, compose operator and colour difference × f32/f64,
//! each call under `catch_unwind`.  Oracle clauses: `no-panic:<op>:<types>:<T>` and `finite:<op>:<types>:<T>`; a non-finite
//! result that belongs to a listed finding carries that finding's prefix instead (`powlaw-nan:`, `powlaw-nan-out-of-gamut:`,
//! `hsluv-at-L0:`/`hsluv-at-L100:`, `luv-vprime-zero:`, `cam16-negative-achromatic:`), every other non-finite
//! result is a violation.  `hsl-white-inf:` is the prefix of a REPAIRED defect (c404fc5, `fixed:` in known_findings.json): no
//! finding matches it any more, so a recurrence is a violation that names the old defect.
//! Correspondence: the hand-written edges are replayed by the Lean driver (`convfin` = the `conv` comparison plus agreement of
//! the finite / NaN / ±inf class of every component).
#![allow(clippy::too_many_arguments, clippy::type_complexity)]
use crate::common::*;
use crate::pairs;
use palette::cast::{self, ArrayCast};
use palette::convert::FromColorUnclamped;
use std::panic::{catch_unwind, AssertUnwindSafe};

pub trait F: Fl + std::ops::Add<Output = Self> + std::ops::Sub<Output = Self> + std::ops::Mul<Output = Self> + std::ops::Div<Output = Self> + std::ops::Neg<Output = Self> + Default {}
impl F for f32 {}
impl F for f64 {}

// ------------------------------------------------------------------------------------------------ the property's domain

/// the property's admissibility of one component value `v` (already rounded to the component type) for the range `[lo, hi]`
pub fn admissible(v: f64, lo: f64, hi: f64) -> bool {
    if !v.is_finite() || v < lo || v > hi { return false; }
    if v == lo || v == hi || v == 0.0 { return true; }
    let d = 1e-9 * (hi - lo);
    v - lo >= d && hi - v >= d && v.abs() >= d
}

/// round to `T` and, if rounding left the value inadmissibly close to a bound, step away from it
fn settle<T: F>(x: f64, lo: f64, hi: f64) -> Option<T> {
    let mid = (lo + hi) / 2.0;
    let mut v = T::of(x);
    for _ in 0..64 {
        if admissible(v.to64(), lo, hi) { return Some(v); }
        // move towards the middle of the range (away from the nearest bound); around zero move away from zero
        let w = v.to64();
        let up = if w.abs() < 1e-9 * (hi - lo) && lo < 0.0 && hi > 0.0 { w >= 0.0 } else { w < mid };
        v = v.nudge(if (w >= 0.0) == up { 1 } else { -1 });
    }
    None
}

#[derive(Clone, Copy)]
pub enum Comp { R(f64, f64), Hue }

/// lattice of one component: min, max, 0, ±1e-9·range away from each bound (and from zero), mid, quarter
fn lattice<T: F>(c: Comp, small: bool) -> Vec<T> {
    let mut v: Vec<T> = vec![];
    let mut push = |x: Option<T>| if let Some(x) = x { if !v.iter().any(|y: &T| y.bits64() == x.bits64()) { v.push(x); } };
    match c {
        Comp::R(lo, hi) => {
            let r = hi - lo;
            push(settle(lo, lo, hi)); push(settle(hi, lo, hi));
            if lo <= 0.0 && 0.0 <= hi { push(settle(0.0, lo, hi)); }
            push(settle(lo + 1e-9 * r, lo, hi));
            push(settle((lo + hi) / 2.0, lo, hi));
            if !small {
                push(settle(hi - 1e-9 * r, lo, hi));
                if lo < 0.0 && 0.0 < hi { push(settle(1e-9 * r, lo, hi)); push(settle(-1e-9 * r, lo, hi)); }
                push(settle(lo + 0.25 * r, lo, hi));
            }
        }
        Comp::Hue => {
            // hues: documented as degrees in [0, 360) / (-180, 180]; sector edges, ±180, 360, one billionth of a turn next to 0 and 360, mid-sector
            let hs: &[f64] = if small { &[0.0, 60.0, 180.0, -180.0, 360.0, 30.0, 3.6e-7] } else { &[0.0, 60.0, 120.0, 180.0, 240.0, 300.0, 360.0, -180.0, 3.6e-7, 360.0 - 3.6e-7, 30.0, 90.0, 264.0] };
            for &h in hs { push(settle(h, -180.0, 360.0)); }
        }
    }
    v
}

pub fn lattice_colours<T: F, const N: usize>(bx: &[Comp; N], small: bool, sum_le_one: Option<(usize, usize)>) -> Vec<[T; N]> {
    let per: Vec<Vec<T>> = bx.iter().map(|c| lattice::<T>(*c, small)).collect();
    let total: usize = per.iter().map(|p| p.len()).product();
    let mut out = Vec::with_capacity(total);
    for mut k in 0..total {
        let mut a = [T::of(0.0); N];
        for i in 0..N { a[i] = per[i][k % per[i].len()]; k /= per[i].len(); }
        if let Some((i, j)) = sum_le_one { if a[i].to64() + a[j].to64() > 1.0 { continue; } }
        out.push(a);
    }
    out
}

/// "all in-range colours": the lattice plus a deterministic stream of interior colours of the space's documented box.
/// The partial CAM16 types document no range (the box used for their lattice is this harness's choice, and arbitrary triples of
/// it are not images of any colour: e.g. brightness 26 with colourfulness 60 has |R_a| > 400 in the inverse model), so no
/// interior stream is drawn for them; C16 inverts the forward images of in-range XYZ colours instead.
pub fn with_interior<T: F, const N: usize>(name: &str, bx: &[Comp; N], small: bool, sum_le_one: Option<(usize, usize)>, mut out: Vec<[T; N]>) -> Vec<[T; N]> {
    if name.starts_with("Cam16P") { return out; }
    let total = out.len();
    let mut rng = Rng::new(0xC07 ^ (N as u64) << 4 ^ (total as u64) << 8 ^ if T::TAG == "f32" { 1 << 40 } else { 2 << 40 });
    for _ in 0..(if small { 48 } else { 480 }) {
        let mut a = [T::of(0.0); N]; let mut ok = true;
        for i in 0..N {
            let (lo, hi, lo2, hi2) = match bx[i] { Comp::R(lo, hi) => (lo, hi, lo, hi), Comp::Hue => (-180.0, 360.0, 0.0, 360.0) };
            a[i] = T::of(rng.range(lo2, hi2)); ok &= admissible(a[i].to64(), lo, hi);
        }
        if let Some((i, j)) = sum_le_one { if a[i].to64() + a[j].to64() > 1.0 { ok = false; } }
        if ok { out.push(a); }
    }
    out
}

/// documented component ranges by model name (field order); `Xyz` is the D65 box
pub fn space_box(name: &str) -> [Comp; 3] {
    use Comp::*;
    match name {
        "Xyz" | "Xyz:D65" => [R(0.0, 0.95047), R(0.0, 1.0), R(0.0, 1.08883)],
        "Xyz:D50" => [R(0.0, 0.96422), R(0.0, 1.0), R(0.0, 0.82521)],
        "Xyz:E" => [R(0.0, 1.0), R(0.0, 1.0), R(0.0, 1.0)],
        "Xyz:A" => [R(0.0, 1.09850), R(0.0, 1.0), R(0.0, 0.35585)],
        "Xyz:DciP3" => [R(0.0, 0.314 / 0.351), R(0.0, 1.0), R(0.0, (1.0 - 0.314 - 0.351) / 0.351)],
        "Rgb" | "Yxy" | "Lms" | "Xyz:Any" => [R(0.0, 1.0), R(0.0, 1.0), R(0.0, 1.0)],
        "Luma" => [R(0.0, 1.0), R(0.0, 0.0), R(0.0, 0.0)],
        "Lab" => [R(0.0, 100.0), R(-128.0, 127.0), R(-128.0, 127.0)],
        "Lch" => [R(0.0, 100.0), R(0.0, 128.0), Hue],
        "Luv" => [R(0.0, 100.0), R(-84.0, 176.0), R(-135.0, 108.0)],
        "Lchuv" => [R(0.0, 100.0), R(0.0, 180.0), Hue],
        "Hsluv" => [Hue, R(0.0, 100.0), R(0.0, 100.0)],
        "Hsl" | "Hsv" | "Hwb" | "Okhsl" | "Okhsv" | "Okhwb" => [Hue, R(0.0, 1.0), R(0.0, 1.0)],
        // Oklab's a, b are documented as unbounded; the box that contains the sRGB gamut (|a|, |b| < 0.33) is used
        "Oklab" => [R(0.0, 1.0), R(-0.4, 0.4), R(-0.4, 0.4)],
        "Oklch" => [R(0.0, 1.0), R(0.0, 0.4), Hue],
        "Cam16UcsJab" => [R(0.0, 100.0), R(-50.0, 50.0), R(-50.0, 50.0)],
        "Cam16UcsJmh" => [R(0.0, 100.0), R(0.0, 50.0), Hue],
        "Cam16P" => [R(0.0, 100.0), R(0.0, 100.0), Hue],
        _ => panic!("no box for {}", name),
    }
}
/// Hwb / Okhwb document whiteness and blackness as 0..1 each; `is_within_bounds` additionally asks for whiteness + blackness <= 1, but the
/// property's domain is the documented component range, so the over-specified grays (w + b > 1, e.g. blackness 1 with whiteness > 0)
/// are part of the lattice
fn hwb_like(_name: &str) -> Option<(usize, usize)> { None }
fn space_colours<T: F>(name: &str, small: bool) -> Vec<[T; 3]> {
    let base = name.split(':').next().unwrap();
    let bx = space_box(if name.starts_with("Xyz") { name } else { base });
    // + the edge lattice of the coverage audit (c07_more.rs, A): the admissible values closest to every bound, in both component types
    crate::c07_more::extend(&bx, with_interior(base, &bx, small, hwb_like(base), lattice_colours::<T, 3>(&bx, small, hwb_like(base))))
}

// ------------------------------------------------------------------------------------------------ judging one call

fn show<T: F>(a: &[T]) -> String { format!("{:?}", a.iter().map(|x| x.to64()).collect::<Vec<_>>()) }

/// one guarded call: `no-panic` and `finite` clauses; `known` names the listed finding a non-finite result belongs to (if any)
pub fn judge_known<T: F>(out: &mut Out, what: &str, r: Option<Vec<T>>, input: &dyn Fn() -> String, known: &dyn Fn(&[T]) -> Option<String>) -> Option<Vec<T>> {
    match r {
        None => { out.check(false, &format!("no-panic:{}:{}", what, T::TAG), || format!("{} panicked", input())); None }
        Some(v) => {
            out.check(true, &format!("no-panic:{}:{}", what, T::TAG), String::new);
            if v.iter().all(|x| x.finite()) { out.check(true, &format!("finite:{}:{}", what, T::TAG), String::new); }
            else {
                match known(&v) {
                    Some(k) => { out.count(&format!("cls:known:{}", k)); out.check(false, &format!("{}:{}:{}", k, what, T::TAG), || format!("{} -> {}", input(), show(&v))) }
                    None => out.check(false, &format!("finite:{}:{}", what, T::TAG), || format!("{} -> {}", input(), show(&v))),
                }
            }
            Some(v)
        }
    }
}
fn guard<R>(f: impl FnOnce() -> R) -> Option<R> { catch_unwind(AssertUnwindSafe(f)).ok() }
fn no_known<T: F>(_: &[T]) -> Option<String> { None }

// ------------------------------------------------------------------------------------------------ A. all XYZ-group pairs (sRGB / D65)

trait Direct: F { fn direct(a: usize, b: usize, x: &[Self]) -> Option<Vec<Self>>; fn direct_alpha(a: usize, b: usize, x: &[Self], al: Self) -> Option<(Vec<Self>, Self)>; }
impl Direct for f32 { fn direct(a: usize, b: usize, x: &[f32]) -> Option<Vec<f32>> { pairs::direct_f32(a, b, x) } fn direct_alpha(a: usize, b: usize, x: &[f32], al: f32) -> Option<(Vec<f32>, f32)> { pairs::direct_alpha_f32(a, b, x, al) } }
impl Direct for f64 { fn direct(a: usize, b: usize, x: &[f64]) -> Option<Vec<f64>> { pairs::direct_f64(a, b, x) } fn direct_alpha(a: usize, b: usize, x: &[f64], al: f64) -> Option<(Vec<f64>, f64)> { pairs::direct_alpha_f64(a, b, x, al) } }

fn idx(name: &str) -> usize { pairs::NAMES.iter().position(|n| *n == name).unwrap() }

/// the HSLuv poles (finding D5): the colour's L* is where the HSLuv reference returns before dividing (L > 99.9999999, L < 1e-8)
fn hsluv_pole(l: f64) -> Option<&'static str> { if l < 1e-8 { Some("hsluv-at-L0") } else if l > 99.9999999 { Some("hsluv-at-L100") } else { None } }

fn run_pairs<T: Direct>(out: &mut Out, thorough: bool) {
    let n = pairs::NAMES.len();
    let lchuv = idx("Lchuv");
    for a in 0..n {
        if !pairs::PRESENT[a] { continue; }
        let an = pairs::NAMES[a];
        let cs: Vec<[T; 3]> = space_colours::<T>(an, !thorough && !matches!(an, "Xyz" | "Rgb" | "Lab" | "Luv" | "Hsl" | "Hsv"));
        for b in 0..n {
            if !pairs::PRESENT[b] { continue; }
            let bn = pairs::NAMES[b];
            let what = format!("conv:{}->{}", an, bn);
            let mut present = true;
            for c in &cs {
                if !present { break; }
                let x: Vec<T> = c[..pairs::ARITY[a]].to_vec();
                let r = guard(|| T::direct(a, b, &x));
                let r = match r { Some(None) => { present = false; out.count("cls:pair-not-in-crate"); continue; } Some(Some(v)) => Some(v), None => None };
                out.count(&format!("cls:pair:{}", an));
                let known = |v: &[T]| -> Option<String> {
                    // Rgb -> Hsl divided by (1 - max) + (1 - min): a white that arrives as (1+ulp, 1-ulp, 1) has max != min and that divisor exactly 0.
                    // Repaired by c404fc5 (saturation 0 when the selected divisor is 0): the clause stays, nothing lists it, a recurrence is a violation
                    if bn == "Hsl" && v.len() == 3 && v[1].to64().is_infinite() && v[2].to64() == 1.0 && v[0].finite() { return Some("hsl-white-inf".to_string()); }
                    // the Hsluv poles: on the way into Hsluv (L* of the colour) or out of it (its own l)
                    if bn == "Hsluv" && an != "Hsluv" { if let Some(Some(l)) = guard(|| T::direct(a, lchuv, &x)) { if let Some(k) = hsluv_pole(l[0].to64()) { return Some(k.to_string()); } } }
                    if an == "Hsluv" && bn != "Hsluv" { if let Some(k) = hsluv_pole(x[2].to64()) { return Some(k.to_string()); } }
                    // Luv / Lchuv / Hsluv -> Xyz divides by v' = v/(13 L) + v'_n (theorem C07.luvToXyz_poison): exactly zero only by coincidence
                    None
                };
                judge_known(out, &what, r, &|| format!("{}{}", an, show(&x)), &known);
            }
            // with transparency: alpha in {0, 1e-9, 1} is carried through untouched
            if present && (a + b) % 3 == 0 {
                for c in cs.iter().step_by(7) {
                    let x: Vec<T> = c[..pairs::ARITY[a]].to_vec();
                    for al in [0.0, 1e-9, 1.0] {
                        let al = T::of(al);
                        let r = guard(|| T::direct_alpha(a, b, &x, al));
                        if let Some(Some((_, ao))) = &r { out.check(ao.bits64() == al.bits64(), &format!("alpha-carried:{}:{}", what, T::TAG), || format!("{}{} alpha {:?} -> alpha {:?}", an, show(&x), al, ao)); }
                        if let Some(None) = r { break; }
                    }
                }
            }
        }
    }
}

// ------------------------------------------------------------------------------------------------ B. hand-written edges, other standards / white points

#[derive(Clone, Copy, PartialEq)]
pub(crate) enum Kn { None, PowLaw, Hsluv, HslStd }

/// one hand-written edge on the lattice of its source space: correspondence line + oracle
pub(crate) fn edge<S, D, T: F, const N: usize, const M: usize>(out: &mut Out, src: &str, dst: &str, kn: Kn, small: bool, in_gamut_min: &dyn Fn(&[T; N]) -> f64)
where S: ArrayCast<Array = [T; N]>, D: ArrayCast<Array = [T; M]> + FromColorUnclamped<S> {
    let base = src.split(':').next().unwrap();
    let bx3 = space_box(if src.starts_with("Xyz") { src } else { base });
    let mut bx = [Comp::R(0.0, 0.0); N];
    for i in 0..N { bx[i] = bx3[i]; }
    let cs = crate::c07_more::extend(&bx, with_interior(base, &bx, small, hwb_like(base), lattice_colours::<T, N>(&bx, small, hwb_like(base))));
    let what = format!("edge:{}->{}", src, dst);
    for a in &cs {
        let a = *a;
        let r = guard(|| { let s: S = cast::from_array(a); let d: [T; M] = cast::into_array(D::from_color_unclamped(s)); d.to_vec() });
        if let Some(d) = &r { out.case(&format!("convfin {} {} | {} | {}", src, dst, hx_list(&a), hx_list(d))); }
        let known = |v: &[T]| -> Option<String> {
            match kn {
                Kn::PowLaw => {
                    if v.iter().any(|x| x.to64().is_nan()) && in_gamut_min(&a) < 0.0 {
                        // pure power-law encoding of a negative linear component: inside the destination gamut (up to the 1e-6 the 7-digit
                        // matrices are apart from exact inverses) it is finding D6, outside it the out-of-gamut variant.  (Coverage audit: a NaN
                        // WITHOUT a negative linear component is not that finding and stays a violation.)
                        Some(if in_gamut_min(&a) >= -1e-6 { "powlaw-nan".to_string() } else { "powlaw-nan-out-of-gamut".to_string() })
                    } else { None }
                }
                Kn::Hsluv => { let l = if base == "Hsluv" { a[2].to64() } else { a[0].to64() }; hsluv_pole(l).map(|k| k.to_string()) }
                Kn::HslStd => {
                    // white (lightness exactly 1) arriving as (1+ulp, 1-ulp, 1): max != min and (1 - max) + (1 - min) == 0 (repaired by c404fc5;
                    // not listed any more: a recurrence is a violation under the old name)
                    if dst.starts_with("Hsl:") && v.len() == 3 && v[1].to64().is_infinite() && v[2].to64() == 1.0 && v[0].finite() { Some("hsl-white-inf".to_string()) }
                    else if v.iter().any(|x| x.to64().is_nan()) && in_gamut_min(&a) < 0.0 { Some(if in_gamut_min(&a) >= -1e-6 { "powlaw-nan".to_string() } else { "powlaw-nan-out-of-gamut".to_string() }) }
                    else { None }
                }
                Kn::None => None,
            }
        };
        judge_known(out, &what, r, &|| format!("{}{}", src, show(&a)), &known);
    }
}

macro_rules! edges_for { ($out:expr, $t:ty, $th:expr) => {{
    use palette::encoding::{AdobeRgb, DciP3, DisplayP3, Linear, ProPhotoRgb, Rec2020, Rec709, Srgb};
    use palette::lms::matrix::{Bradford, UnitMatrix, VonKries};
    use palette::lms::Lms; use palette::luma::Luma; use palette::rgb::Rgb;
    use palette::white_point::{Any, A, D50, D65, E};
    use palette::{Hsl, Hsluv, Hsv, Hwb, Lab, Lch, Lchuv, Luv, Okhsl, Okhsv, Okhwb, Oklab, Oklch, Xyz, Yxy};
    type T = $t;
    let out: &mut Out = $out; let small = !$th;
    let nog = |_: &[T; 3]| 0.0f64; let nog1 = |_: &[T; 1]| 0.0f64;
    macro_rules! e { ($S:ty, $D:ty, $sn:expr, $dn:expr) => { edge::<$S, $D, T, 3, 3>(out, $sn, $dn, Kn::None, small, &nog) } }
    // CIE family per white point
    macro_rules! cie { ($wp:ty, $w:expr) => {{
        e!(Xyz<$wp, T>, Yxy<$wp, T>, &format!("Xyz:{}", $w), &format!("Yxy:{}", $w)); e!(Yxy<$wp, T>, Xyz<$wp, T>, &format!("Yxy:{}", $w), &format!("Xyz:{}", $w));
        e!(Xyz<$wp, T>, Lab<$wp, T>, &format!("Xyz:{}", $w), &format!("Lab:{}", $w)); e!(Lab<$wp, T>, Xyz<$wp, T>, &format!("Lab:{}", $w), &format!("Xyz:{}", $w));
        e!(Lab<$wp, T>, Lch<$wp, T>, &format!("Lab:{}", $w), &format!("Lch:{}", $w)); e!(Lch<$wp, T>, Lab<$wp, T>, &format!("Lch:{}", $w), &format!("Lab:{}", $w));
        e!(Xyz<$wp, T>, Luv<$wp, T>, &format!("Xyz:{}", $w), &format!("Luv:{}", $w)); e!(Luv<$wp, T>, Xyz<$wp, T>, &format!("Luv:{}", $w), &format!("Xyz:{}", $w));
        e!(Luv<$wp, T>, Lchuv<$wp, T>, &format!("Luv:{}", $w), &format!("Lchuv:{}", $w)); e!(Lchuv<$wp, T>, Luv<$wp, T>, &format!("Lchuv:{}", $w), &format!("Luv:{}", $w));
        edge::<Lchuv<$wp, T>, Hsluv<$wp, T>, T, 3, 3>(out, &format!("Lchuv:{}", $w), &format!("Hsluv:{}", $w), Kn::Hsluv, small, &nog);
        edge::<Hsluv<$wp, T>, Lchuv<$wp, T>, T, 3, 3>(out, &format!("Hsluv:{}", $w), &format!("Lchuv:{}", $w), Kn::Hsluv, small, &nog);
    }} }
    cie!(D65, "D65"); cie!(D50, "D50"); cie!(E, "E"); cie!(A, "A");
    macro_rules! lms { ($m:ty, $mn:expr) => {{ e!(Xyz<Any, T>, Lms<$m, T>, "Xyz:Any", &format!("Lms:{}", $mn)); e!(Lms<$m, T>, Xyz<Any, T>, &format!("Lms:{}", $mn), "Xyz:Any"); }} }
    lms!(Bradford, "Bradford"); lms!(VonKries, "VonKries"); lms!(UnitMatrix, "UnitMatrix");
    // RGB standards <-> Xyz; the smallest linear component of the source colour in the destination space decides between the two power-law findings
    macro_rules! rgbxyz { ($S:ty, $sn:expr, $wp:ty, $w:expr, $pow:expr) => {{
        edge::<Rgb<$S, T>, Xyz<$wp, T>, T, 3, 3>(out, &format!("Rgb:{}", $sn), &format!("Xyz:{}", $w), Kn::None, small, &nog);
        let lin_min = |a: &[T; 3]| -> f64 { let l: [T; 3] = cast::into_array(Rgb::<Linear<<$S as palette::rgb::RgbStandard>::Space>, T>::from_color_unclamped(cast::from_array::<Xyz<$wp, T>>(*a))); l.iter().map(|x| x.to64()).fold(f64::INFINITY, f64::min) };
        edge::<Xyz<$wp, T>, Rgb<$S, T>, T, 3, 3>(out, &format!("Xyz:{}", $w), &format!("Rgb:{}", $sn), if $pow { Kn::PowLaw } else { Kn::None }, small, &lin_min);
    }} }
    rgbxyz!(Srgb, "Srgb", D65, "D65", false); rgbxyz!(Linear<Srgb>, "LinSrgb", D65, "D65", false); rgbxyz!(Rec709, "Rec709", D65, "D65", false);
    rgbxyz!(AdobeRgb, "AdobeRgb", D65, "D65", true); rgbxyz!(Rec2020, "Rec2020", D65, "D65", false); rgbxyz!(DisplayP3, "DisplayP3", D65, "D65", false);
    rgbxyz!(DciP3, "DciP3", DciP3, "DciP3", true); rgbxyz!(ProPhotoRgb, "ProPhotoRgb", D50, "D50", false); rgbxyz!(Linear<ProPhotoRgb>, "LinProPhotoRgb", D50, "D50", false);
    // Rgb -> Rgb between standards of one white point
    macro_rules! rgbrgb { ($S1:ty, $n1:expr, $S2:ty, $n2:expr, $pow:expr) => {{
        let lin_min = |a: &[T; 3]| -> f64 { let l: [T; 3] = cast::into_array(Rgb::<Linear<<$S2 as palette::rgb::RgbStandard>::Space>, T>::from_color_unclamped(cast::from_array::<Rgb<$S1, T>>(*a))); l.iter().map(|x| x.to64()).fold(f64::INFINITY, f64::min) };
        edge::<Rgb<$S1, T>, Rgb<$S2, T>, T, 3, 3>(out, &format!("Rgb:{}", $n1), &format!("Rgb:{}", $n2), if $pow { Kn::PowLaw } else { Kn::None }, small, &lin_min);
    }} }
    rgbrgb!(Srgb, "Srgb", Linear<Srgb>, "LinSrgb", false); rgbrgb!(Linear<Srgb>, "LinSrgb", Srgb, "Srgb", false); rgbrgb!(Srgb, "Srgb", Rec709, "Rec709", false);
    rgbrgb!(Srgb, "Srgb", AdobeRgb, "AdobeRgb", true); rgbrgb!(AdobeRgb, "AdobeRgb", Srgb, "Srgb", false); rgbrgb!(Srgb, "Srgb", Rec2020, "Rec2020", false);
    rgbrgb!(Rec2020, "Rec2020", Srgb, "Srgb", false); rgbrgb!(DisplayP3, "DisplayP3", Srgb, "Srgb", false); rgbrgb!(Srgb, "Srgb", DisplayP3, "DisplayP3", false);
    rgbrgb!(Rec2020, "Rec2020", AdobeRgb, "AdobeRgb", true); rgbrgb!(DisplayP3, "DisplayP3", AdobeRgb, "AdobeRgb", true);
    // hexcone family
    macro_rules! hex { ($S:ty, $sn:expr) => {{
        e!(Rgb<$S, T>, Hsv<$S, T>, &format!("Rgb:{}", $sn), &format!("Hsv:{}", $sn)); e!(Rgb<$S, T>, Hsl<$S, T>, &format!("Rgb:{}", $sn), &format!("Hsl:{}", $sn));
        e!(Hsv<$S, T>, Rgb<$S, T>, &format!("Hsv:{}", $sn), &format!("Rgb:{}", $sn)); e!(Hsl<$S, T>, Rgb<$S, T>, &format!("Hsl:{}", $sn), &format!("Rgb:{}", $sn));
        e!(Hsl<$S, T>, Hsv<$S, T>, &format!("Hsl:{}", $sn), &format!("Hsv:{}", $sn)); e!(Hsv<$S, T>, Hsl<$S, T>, &format!("Hsv:{}", $sn), &format!("Hsl:{}", $sn));
        e!(Hsv<$S, T>, Hwb<$S, T>, &format!("Hsv:{}", $sn), &format!("Hwb:{}", $sn)); e!(Hwb<$S, T>, Hsv<$S, T>, &format!("Hwb:{}", $sn), &format!("Hsv:{}", $sn));
    }} }
    hex!(Srgb, "Srgb"); hex!(Linear<Srgb>, "LinSrgb"); hex!(AdobeRgb, "AdobeRgb");
    macro_rules! cylstd { ($C:ident, $cn:expr, $S1:ty, $n1:expr, $S2:ty, $n2:expr) => {{
        let lin_min = |a: &[T; 3]| -> f64 { let l: [T; 3] = cast::into_array(Rgb::<Linear<<$S2 as palette::rgb::RgbStandard>::Space>, T>::from_color_unclamped(Rgb::<$S1, T>::from_color_unclamped(cast::from_array::<$C<$S1, T>>(*a)))); l.iter().map(|x| x.to64()).fold(f64::INFINITY, f64::min) };
        edge::<$C<$S1, T>, $C<$S2, T>, T, 3, 3>(out, &format!("{}:{}", $cn, $n1), &format!("{}:{}", $cn, $n2), Kn::HslStd, small, &lin_min);
    }} }
    cylstd!(Hsl, "Hsl", DisplayP3, "DisplayP3", Srgb, "Srgb"); cylstd!(Hsl, "Hsl", Srgb, "Srgb", Linear<Srgb>, "LinSrgb"); cylstd!(Hsl, "Hsl", Srgb, "Srgb", Rec2020, "Rec2020");
    cylstd!(Hsv, "Hsv", Srgb, "Srgb", Rec709, "Rec709"); cylstd!(Hsv, "Hsv", Srgb, "Srgb", AdobeRgb, "AdobeRgb"); cylstd!(Hsv, "Hsv", DisplayP3, "DisplayP3", Srgb, "Srgb");
    cylstd!(Hwb, "Hwb", Srgb, "Srgb", Rec709, "Rec709"); cylstd!(Hwb, "Hwb", Rec2020, "Rec2020", Srgb, "Srgb");
    // Luma
    macro_rules! luma { ($L:ty, $ln:expr, $wp:ty, $w:expr) => {{
        edge::<Luma<$L, T>, Xyz<$wp, T>, T, 1, 3>(out, &format!("Luma:{}", $ln), &format!("Xyz:{}", $w), Kn::None, false, &nog1);
        edge::<Luma<$L, T>, Yxy<$wp, T>, T, 1, 3>(out, &format!("Luma:{}", $ln), &format!("Yxy:{}", $w), Kn::None, false, &nog1);
        edge::<Xyz<$wp, T>, Luma<$L, T>, T, 3, 1>(out, &format!("Xyz:{}", $w), &format!("Luma:{}", $ln), Kn::None, small, &nog);
        edge::<Yxy<$wp, T>, Luma<$L, T>, T, 3, 1>(out, &format!("Yxy:{}", $w), &format!("Luma:{}", $ln), Kn::None, small, &nog);
    }} }
    luma!(Srgb, "Srgb", D65, "D65"); luma!(Linear<D65>, "LinSrgb", D65, "D65"); luma!(Rec709, "Rec709", D65, "D65"); luma!(AdobeRgb, "AdobeRgb", D65, "D65");
    luma!(DciP3, "DciP3", DciP3, "DciP3"); luma!(ProPhotoRgb, "ProPhotoRgb", D50, "D50");
    edge::<Luma<Srgb, T>, Luma<Linear<D65>, T>, T, 1, 1>(out, "Luma:Srgb", "Luma:LinSrgb", Kn::None, false, &nog1);
    edge::<Luma<AdobeRgb, T>, Luma<Srgb, T>, T, 1, 1>(out, "Luma:AdobeRgb", "Luma:Srgb", Kn::None, false, &nog1);
    edge::<Luma<Srgb, T>, Rgb<DisplayP3, T>, T, 1, 3>(out, "Luma:Srgb", "Rgb:DisplayP3", Kn::None, false, &nog1);
    edge::<Luma<Linear<D65>, T>, Rgb<AdobeRgb, T>, T, 1, 3>(out, "Luma:LinSrgb", "Rgb:AdobeRgb", Kn::None, false, &nog1);
    // Ottosson family
    e!(Xyz<D65, T>, Oklab<T>, "Xyz:D65", "Oklab"); e!(Oklab<T>, Xyz<D65, T>, "Oklab", "Xyz:D65");
    e!(Oklab<T>, Oklch<T>, "Oklab", "Oklch"); e!(Oklch<T>, Oklab<T>, "Oklch", "Oklab");
    e!(Okhsl<T>, Oklab<T>, "Okhsl", "Oklab"); e!(Oklab<T>, Okhsl<T>, "Oklab", "Okhsl");
    e!(Okhsv<T>, Oklab<T>, "Okhsv", "Oklab"); e!(Oklab<T>, Okhsv<T>, "Oklab", "Okhsv");
    e!(Okhsv<T>, Okhwb<T>, "Okhsv", "Okhwb"); e!(Okhwb<T>, Okhsv<T>, "Okhwb", "Okhsv");
    macro_rules! okrgb { ($S:ty, $sn:expr, $pow:expr) => {{
        e!(Rgb<$S, T>, Oklab<T>, &format!("Rgb:{}", $sn), "Oklab");
        let lin_min = |a: &[T; 3]| -> f64 { let l: [T; 3] = cast::into_array(Rgb::<Linear<<$S as palette::rgb::RgbStandard>::Space>, T>::from_color_unclamped(cast::from_array::<Oklab<T>>(*a))); l.iter().map(|x| x.to64()).fold(f64::INFINITY, f64::min) };
        edge::<Oklab<T>, Rgb<$S, T>, T, 3, 3>(out, "Oklab", &format!("Rgb:{}", $sn), if $pow { Kn::PowLaw } else { Kn::None }, small, &lin_min);
    }} }
    okrgb!(Srgb, "Srgb", false); okrgb!(Linear<Srgb>, "LinSrgb", false); okrgb!(Rec2020, "Rec2020", false); okrgb!(AdobeRgb, "AdobeRgb", true); okrgb!(DisplayP3, "DisplayP3", false);
}} }

/// theorem-driven witness search (C07.luvToXyz_poison): `Xyz <- Luv` divides by v' = v/(13 L) + v'_n with no guard; in-range Luv colours
/// with v = -13 L v'_n (imaginary, but inside the documented component ranges and far from every bound) hit v' == 0 exactly
macro_rules! luv_vprime { ($out:expr, $t:ty) => {{
    use palette::white_point::D65; use palette::{Luv, Xyz};
    type T = $t;
    let out: &mut Out = $out;
    let (xn, yn, zn) = (0.95047 as T, 1.0 as T, 1.08883 as T);
    let vref: T = 9.0 * yn * (1.0 / (xn + 15.0 * yn + 3.0 * zn));
    for li in 1..=40 {
        let l = li as T * 0.25;
        let v0: T = -(13.0 * l) * vref;
        for k in -3i64..=3 {
            let v = <T as Fl>::nudge(v0, k);
            for u in [0.0 as T, 20.0 as T] {
                let a = [l, u, v];
                if !(0..3).all(|i| { let (lo, hi) = [(0.0, 100.0), (-84.0, 176.0), (-135.0, 108.0)][i]; admissible(a[i] as f64, lo, hi) }) { continue; }
                let r = guard(|| { let x: Xyz<D65, T> = Xyz::from_color_unclamped(Luv::<D65, T>::new(a[0], a[1], a[2])); vec![x.x, x.y, x.z] });
                if let Some(d) = &r { out.case(&format!("convfin Luv:D65 Xyz:D65 | {} | {}", hx_list(&a), hx_list(d))); }
                out.count("cls:luv-vprime-search");
                judge_known(out, "edge:Luv:D65->Xyz:D65", r, &|| format!("Luv:D65{}", show(&a)), &|v: &[T]| if v.iter().any(|x| !x.is_finite()) { Some("luv-vprime-zero".to_string()) } else { None });
            }
        }
    }
}} }

fn run_edges_f32(out: &mut Out, th: bool) { edges_for!(out, f32, th); }
fn run_edges_f64(out: &mut Out, th: bool) { edges_for!(out, f64, th); }

pub fn run(tier: &str, seed: u64, dir: &str) {
    let mut out = Out::new("C07", dir);
    let _rng = Rng::new(seed);
    let th = tier == "thorough";
    run_pairs::<f32>(&mut out, th);
    run_pairs::<f64>(&mut out, th);
    run_edges_f32(&mut out, th);
    run_edges_f64(&mut out, th);
    luv_vprime!(&mut out, f32); luv_vprime!(&mut out, f64);
    crate::c07_ops::run_ops(&mut out, th);
    crate::c07_ops::run_ops_edge(&mut out, th);   // every operator / blend / difference / CAM16 clause again on the edge lattice
    crate::c07_more::run_more(&mut out, th);      // forms of the API not driven above (AUDIT_C07.md)
    out.finish(dir, "\"exhaustive\":{\"note\":\"the boundary lattice is enumerated completely (every combination of the per-component lattice values), plus a deterministic stream of interior colours per space and near-identical pairs for the differences\"}");
}
