/-
  C02 / C01 (RGB family) — the ENCODED `Rgb<S> → Xyz → Rgb<S>` round trip, through the transfer curves.

  `C01Rgb.rgb_xyz_rgb_linear` bounds the round trip in linear light (`≤ 3·2e-7·‖rgb‖∞` per component, decided on the tables);
  `C05T` proves the curves mutually inverse piece by piece.  Here the two are composed:

  * curves with a linear toe (sRGB, Rec.709/2020 OETF, ProPhoto/ROMM): the ENCODER `e(t) = k·t` below `t₀`, `A·t^p − B` above is
    Lipschitz on all of ℝ with the toe slope, up to the join step the published constants leave
    (`ToeEnc.lipschitz`: `|e b − e a| ≤ Λ·|b − a| + J`; `Λ = 12.92`, `4.5 + 1e-9`, `16`; `J = 2.9e-8`, `1e-14`, `0`), and
    `e ∘ d` is the identity on `[0, 1]` up to the same step (`enc_dec_near`; exact away from the slivers next to the joins).
    Hence, for every RGB space of the crate and every encoded colour in `[0,1]³`,
    `Rgb<S> → Xyz → Rgb<S>` returns within `Λ·6e-7 + 2J + Λ·g` of the input:
    sRGB `7.9e-6`, Rec. OETF `2.71e-6`, ProPhoto `9.6e-6` (`srgb_encoded_roundtrip`, `rec_encoded_roundtrip`,
    `prophoto_encoded_roundtrip`).  Negative recovered linear values are covered (the toe is linear there): no hypothesis.
  * pure power laws (Adobe RGB `563/256`, DCI-P3 `2.6`): the encoder `t^(1/γ)` is only Hölder on `[0, ∞)`,
    `|b^q − a^q| ≤ |b − a|^q` (`rpow_holder`), and is not defined below 0 in IEEE arithmetic (NaN: finding D6).  The round trip is
    within `(6e-7)^(1/γ)` (`≤ 1.5e-3` resp. `≤ 4.05e-3`; attained in order of magnitude next to black) **under the explicit hypothesis
    that the recovered linear components are `≥ 0`** (`adobe_encoded_roundtrip`, `p3_encoded_roundtrip`); `d6_p3_green_negative`
    shows on the model at ℝ that the hypothesis fails for pure DCI-P3 green (the kernel-decided `C01Rgb.d6_witness_*` say the same
    over ℚ).
-/
import PaletteProofs.C01_Rgb
import PaletteProofs.C05_Transfer
import Mathlib.Analysis.Convex.SpecificFunctions.Basic
import Mathlib.Analysis.MeanInequalitiesPow

namespace C02Enc
open Transfer RgbTables

/-! ### numeric bounds of `x ^ (m/n)` from integer powers -/

theorem rpow_div_natCast {x : ℝ} (hx : 0 ≤ x) (m n : ℕ) : x ^ ((m : ℝ) / (n : ℝ)) = (x ^ m) ^ ((n : ℝ)⁻¹) := by
  rw [div_eq_mul_inv, Real.rpow_mul hx, Real.rpow_natCast]

theorem le_rpow_of_pow_le {x c : ℝ} (hx : 0 ≤ x) (hc : 0 ≤ c) (m n : ℕ) (hn : n ≠ 0) (h : c ^ n ≤ x ^ m) :
    c ≤ x ^ ((m : ℝ) / (n : ℝ)) :=
  calc c = (c ^ n) ^ ((n : ℝ)⁻¹) := (Real.pow_rpow_inv_natCast hc hn).symm
    _ ≤ (x ^ m) ^ ((n : ℝ)⁻¹) := Real.rpow_le_rpow (pow_nonneg hc n) h (by positivity)
    _ = x ^ ((m : ℝ) / (n : ℝ)) := (rpow_div_natCast hx m n).symm

theorem rpow_le_of_le_pow {x c : ℝ} (hx : 0 ≤ x) (hc : 0 ≤ c) (m n : ℕ) (hn : n ≠ 0) (h : x ^ m ≤ c ^ n) :
    x ^ ((m : ℝ) / (n : ℝ)) ≤ c :=
  calc x ^ ((m : ℝ) / (n : ℝ)) = (x ^ m) ^ ((n : ℝ)⁻¹) := rpow_div_natCast hx m n
    _ ≤ (c ^ n) ^ ((n : ℝ)⁻¹) := Real.rpow_le_rpow (pow_nonneg hx m) h (by positivity)
    _ = c := Real.pow_rpow_inv_natCast hc hn

/-! ### the power segment: tangent bound (concavity), `0 < p ≤ 1` -/

/-- `b^p − a^p ≤ p·a^(p−1)·(b − a)` for `0 < a ≤ b`, `0 ≤ p ≤ 1` (Bernoulli) -/
theorem rpow_sub_le {p a b : ℝ} (hp0 : 0 ≤ p) (hp1 : p ≤ 1) (ha : 0 < a) (hab : a ≤ b) :
    b ^ p - a ^ p ≤ p * a ^ (p - 1) * (b - a) := by
  have hs0 : 0 ≤ (b - a) / a := div_nonneg (by linarith) ha.le
  have hb : b = a * (1 + (b - a) / a) := by field_simp; ring
  have h1 := rpow_one_add_le_one_add_mul_self (by linarith : -1 ≤ (b - a) / a) hp0 hp1
  have h2 : b ^ p = a ^ p * (1 + (b - a) / a) ^ p := by
    conv_lhs => rw [hb]
    rw [Real.mul_rpow ha.le (by linarith)]
  have hap : 0 ≤ a ^ p := Real.rpow_nonneg ha.le p
  have h3 : a ^ (p - 1) = a ^ p / a := Real.rpow_sub_one ha.ne' p
  rw [h2, h3]
  have h4 : a ^ p * (1 + (b - a) / a) ^ p ≤ a ^ p * (1 + p * ((b - a) / a)) := mul_le_mul_of_nonneg_left h1 hap
  have e : p * (a ^ p / a) * (b - a) = a ^ p * (1 + p * ((b - a) / a)) - a ^ p := by field_simp; ring
  linarith

/-- how the slope hypothesis of `ToeEnc` is checked on digits: `c ≤ ts^(1−p)` from integer powers, then `A·p ≤ Λ·c` -/
theorem slope_bound {ts A p Λ c : ℝ} (m n : ℕ) (hn : n ≠ 0) (hts : 0 < ts) (hc : 0 < c) (hAp : 0 ≤ A * p)
    (h1p : 1 - p = (m : ℝ) / (n : ℝ)) (hpow : c ^ n ≤ ts ^ m) (hΛ : A * p ≤ Λ * c) : A * p * ts ^ (p - 1) ≤ Λ := by
  have h1 : c ≤ ts ^ (1 - p) := by rw [h1p]; exact le_rpow_of_pow_le hts.le hc.le m n hn hpow
  have e : ts ^ (p - 1) = (ts ^ (1 - p))⁻¹ := by rw [← Real.rpow_neg hts.le]; congr 1; ring
  have hpos : 0 < ts ^ (1 - p) := Real.rpow_pos_of_pos hts _
  rw [e, ← div_eq_mul_inv, div_le_iff₀ hpos]
  have hΛ0 : 0 ≤ Λ := by
    by_contra hneg
    have : Λ * c < 0 := mul_neg_of_neg_of_pos (not_le.mp hneg) hc
    linarith
  calc A * p ≤ Λ * c := hΛ
    _ ≤ Λ * ts ^ (1 - p) := mul_le_mul_of_nonneg_left h1 hΛ0

/-! ### a curve with a linear toe -/

/-- `e` is `k·t` up to `t₀` and `A·t^p − B` from `t₀` on (either value at `t₀` itself), the power segment has slope `≤ Λ` from
    `ts ≤ t₀` on, the toe has slope `k ≤ Λ`, and the two pieces differ by at most `J` at the join. -/
structure ToeEnc (e : ℝ → ℝ) (k t0 ts A B p Λ J : ℝ) : Prop where
  hp0 : 0 < p
  hp1 : p ≤ 1
  hts : 0 < ts
  hts0 : ts ≤ t0
  hA : 0 ≤ A
  hk : 0 ≤ k
  hkΛ : k ≤ Λ
  slope : A * p * ts ^ (p - 1) ≤ Λ
  jump : |A * t0 ^ p - B - k * t0| ≤ J
  val : ∀ t, (t ≤ t0 ∧ e t = k * t) ∨ (t0 ≤ t ∧ e t = A * t ^ p - B)

namespace ToeEnc
variable {e : ℝ → ℝ} {k t0 ts A B p Λ J : ℝ}

theorem J_nonneg (h : ToeEnc e k t0 ts A B p Λ J) : 0 ≤ J := le_trans (abs_nonneg _) h.jump
theorem Λ_nonneg (h : ToeEnc e k t0 ts A B p Λ J) : 0 ≤ Λ := le_trans h.hk h.hkΛ

/-- the power segment is monotone and `Λ`-Lipschitz on `[ts, ∞)` -/
theorem pow_lip (h : ToeEnc e k t0 ts A B p Λ J) {a b : ℝ} (ha : ts ≤ a) (hab : a ≤ b) :
    0 ≤ (A * b ^ p - B) - (A * a ^ p - B) ∧ (A * b ^ p - B) - (A * a ^ p - B) ≤ Λ * (b - a) := by
  have ha0 : 0 < a := lt_of_lt_of_le h.hts ha
  have e1 : (A * b ^ p - B) - (A * a ^ p - B) = A * (b ^ p - a ^ p) := by ring
  rw [e1]
  constructor
  · exact mul_nonneg h.hA (by linarith [Real.rpow_le_rpow ha0.le hab h.hp0.le])
  · have h1 := rpow_sub_le h.hp0.le h.hp1 ha0 hab
    have h2 : a ^ (p - 1) ≤ ts ^ (p - 1) := Real.rpow_le_rpow_of_nonpos h.hts ha (by linarith [h.hp1])
    have hba : 0 ≤ b - a := by linarith
    have hAp : 0 ≤ A * p := mul_nonneg h.hA h.hp0.le
    calc A * (b ^ p - a ^ p) ≤ A * (p * a ^ (p - 1) * (b - a)) := mul_le_mul_of_nonneg_left h1 h.hA
      _ = (A * p * a ^ (p - 1)) * (b - a) := by ring
      _ ≤ (A * p * ts ^ (p - 1)) * (b - a) := mul_le_mul_of_nonneg_right (mul_le_mul_of_nonneg_left h2 hAp) hba
      _ ≤ Λ * (b - a) := mul_le_mul_of_nonneg_right h.slope hba

theorem lip_ordered (h : ToeEnc e k t0 ts A B p Λ J) {a b : ℝ} (hab : a ≤ b) : |e b - e a| ≤ Λ * (b - a) + J := by
  have hJ := h.J_nonneg
  have hΛ := h.Λ_nonneg
  have hba : 0 ≤ b - a := by linarith
  have hj := abs_le.mp h.jump
  rcases h.val a with ⟨ha, ea⟩ | ⟨ha, ea⟩ <;> rcases h.val b with ⟨hb, eb⟩ | ⟨hb, eb⟩
  · rw [ea, eb, abs_le]
    have h1 : 0 ≤ k * (b - a) := mul_nonneg h.hk hba
    have h2 : k * (b - a) ≤ Λ * (b - a) := mul_le_mul_of_nonneg_right h.hkΛ hba
    constructor <;> nlinarith
  · rw [ea, eb, abs_le]
    obtain ⟨p1, p2⟩ := h.pow_lip h.hts0 hb
    have h1 : 0 ≤ k * (t0 - a) := mul_nonneg h.hk (by linarith)
    have h2 : k * (t0 - a) ≤ Λ * (t0 - a) := mul_le_mul_of_nonneg_right h.hkΛ (by linarith)
    constructor <;> nlinarith
  · have : a = b := le_antisymm hab (le_trans hb ha)
    subst this
    rw [sub_self, abs_zero]; nlinarith
  · rw [ea, eb, abs_le]
    obtain ⟨p1, p2⟩ := h.pow_lip (le_trans h.hts0 ha) hab
    constructor <;> nlinarith

/-- **modulus of continuity of the encoder, on all of ℝ**: Lipschitz with the toe slope, up to the join step -/
theorem lipschitz (h : ToeEnc e k t0 ts A B p Λ J) (a b : ℝ) : |e b - e a| ≤ Λ * |b - a| + J := by
  rcases le_total a b with hab | hab
  · rw [abs_of_nonneg (by linarith : 0 ≤ b - a)]; exact h.lip_ordered hab
  · rw [abs_sub_comm (e b), abs_sub_comm b]
    rw [abs_of_nonneg (by linarith : 0 ≤ a - b)]; exact h.lip_ordered hab

end ToeEnc

/-- the decoder: `x/k` up to `x₀`, `((x + B)/A)^q` from `x₀` on -/
structure ToeDec (d : ℝ → ℝ) (k x0 A B q : ℝ) : Prop where
  val : ∀ x, (x ≤ x0 ∧ d x = x / k) ∨ (x0 ≤ x ∧ d x = ((x + B) / A) ^ q)

/-- **`encode ∘ decode` is the identity on `x ≥ 0` up to the join step**: exact except on the slivers next to the two joins
    (`x₀/k` vs `t₀`, and `d(x₀)` vs `t₀`), of width `≤ g`, where the error is at most `J + Λ·g` -/
theorem enc_dec_near {e d : ℝ → ℝ} {k t0 ts A B p Λ J x0 q g : ℝ} (hE : ToeEnc e k t0 ts A B p Λ J) (hD : ToeDec d k x0 A B q)
    (hpq : q * p = 1) (hk : 0 < k) (hA : 0 < A) (hB : 0 ≤ B) (hx0 : 0 ≤ x0) (hg0 : 0 ≤ g) (hg1 : x0 / k - t0 ≤ g) (hg2 : t0 - ts ≤ g)
    (ht1 : ts ≤ ((x0 + B) / A) ^ q) (x : ℝ) (hx : 0 ≤ x) : |e (d x) - x| ≤ J + Λ * g := by
  have hJ := hE.J_nonneg
  have hΛ := hE.Λ_nonneg
  have hΛg : 0 ≤ Λ * g := mul_nonneg hΛ hg0
  have hj := abs_le.mp hE.jump
  have hq : 0 < q := by
    by_contra hc
    have : q * p ≤ 0 := mul_nonpos_of_nonpos_of_nonneg (not_lt.mp hc) hE.hp0.le
    linarith
  have hbase : 0 ≤ (x + B) / A := div_nonneg (by linarith) hA.le
  have hinv : A * (((x + B) / A) ^ q) ^ p - B = x := by
    rw [← Real.rpow_mul hbase, hpq, Real.rpow_one]; field_simp; ring
  rcases hD.val x with ⟨hxl, hd⟩ | ⟨hxr, hd⟩ <;> rw [hd]
  · rcases hE.val (x / k) with ⟨htl, he⟩ | ⟨htr, he⟩ <;> rw [he]
    · have : k * (x / k) - x = 0 := by field_simp; ring
      rw [this, abs_zero]; linarith
    · obtain ⟨p1, p2⟩ := hE.pow_lip hE.hts0 htr
      have hle : x / k ≤ x0 / k := div_le_div_of_nonneg_right hxl hk.le
      have hw : x / k - t0 ≤ g := by linarith
      have h1 : 0 ≤ k * (x / k - t0) := mul_nonneg hk.le (by linarith)
      have h2 : k * (x / k - t0) ≤ Λ * (x / k - t0) := mul_le_mul_of_nonneg_right hE.hkΛ (by linarith)
      have h3 : Λ * (x / k - t0) ≤ Λ * g := mul_le_mul_of_nonneg_left hw hΛ
      have ex : x = k * (x / k) := by field_simp
      rw [abs_le]
      constructor
      · nlinarith
      · nlinarith
  · have hmono : ((x0 + B) / A) ^ q ≤ ((x + B) / A) ^ q :=
      Real.rpow_le_rpow (div_nonneg (by linarith) hA.le) (div_le_div_of_nonneg_right (by linarith) hA.le) hq.le
    rcases hE.val (((x + B) / A) ^ q) with ⟨htl, he⟩ | ⟨htr, he⟩ <;> rw [he]
    · set t := ((x + B) / A) ^ q with ht
      obtain ⟨p1, p2⟩ := hE.pow_lip (le_trans ht1 hmono) htl
      have hw : t0 - t ≤ g := by linarith
      have h1 : 0 ≤ k * (t0 - t) := mul_nonneg hk.le (by linarith)
      have h2 : k * (t0 - t) ≤ Λ * (t0 - t) := mul_le_mul_of_nonneg_right hE.hkΛ (by linarith)
      have h3 : Λ * (t0 - t) ≤ Λ * g := mul_le_mul_of_nonneg_left hw hΛ
      rw [abs_le]
      constructor
      · nlinarith
      · nlinarith
    · rw [hinv, sub_self, abs_zero]; linarith

/-- the decoder maps `[0, 1]` into `[0, 1]` -/
theorem dec_unit {d : ℝ → ℝ} {k x0 A B q : ℝ} (hD : ToeDec d k x0 A B q) (hk : 1 ≤ k) (hA : 0 < A) (hB : 0 ≤ B) (hAB : 1 + B ≤ A)
    (hq : 0 ≤ q) (x : ℝ) (hx0 : 0 ≤ x) (hx1 : x ≤ 1) : 0 ≤ d x ∧ d x ≤ 1 := by
  rcases hD.val x with ⟨_, hd⟩ | ⟨_, hd⟩ <;> rw [hd]
  · have hk0 : (0 : ℝ) < k := by linarith
    exact ⟨div_nonneg hx0 hk0.le, by rw [div_le_one hk0]; linarith⟩
  · have hb0 : 0 ≤ (x + B) / A := div_nonneg (by linarith) hA.le
    have hb1 : (x + B) / A ≤ 1 := by rw [div_le_one hA]; linarith
    exact ⟨Real.rpow_nonneg hb0 q, Real.rpow_le_one hb0 hb1 hq⟩

/-- **one component of the encoded round trip**: if the linear value comes back within `ε`, the encoded value comes back within
    `Λ·ε + 2J + Λ·g` -/
theorem component_bound {e d : ℝ → ℝ} {k t0 ts A B p Λ J x0 q g ε : ℝ} (hE : ToeEnc e k t0 ts A B p Λ J) (hD : ToeDec d k x0 A B q)
    (hpq : q * p = 1) (hk : 0 < k) (hA : 0 < A) (hB : 0 ≤ B) (hx0 : 0 ≤ x0) (hg0 : 0 ≤ g) (hg1 : x0 / k - t0 ≤ g) (hg2 : t0 - ts ≤ g)
    (ht1 : ts ≤ ((x0 + B) / A) ^ q) (x y : ℝ) (hx : 0 ≤ x) (hy : |y - d x| ≤ ε) : |e y - x| ≤ Λ * ε + 2 * J + Λ * g := by
  have h1 := hE.lipschitz (d x) y
  have h2 := enc_dec_near hE hD hpq hk hA hB hx0 hg0 hg1 hg2 ht1 x hx
  have h3 : Λ * |y - d x| ≤ Λ * ε := mul_le_mul_of_nonneg_left hy hE.Λ_nonneg
  calc |e y - x| = |(e y - e (d x)) + (e (d x) - x)| := by congr 1; ring
    _ ≤ |e y - e (d x)| + |e (d x) - x| := abs_add_le _ _
    _ ≤ Λ * ε + 2 * J + Λ * g := by linarith

/-! ### the three curves of the crate with a linear toe: the constants, checked on the published digits -/

theorem recFrom_hi {x : ℝ} (h : ¬ x < 0.018053968510807) :
    recFromLinear x = x ^ (0.45 : ℝ) * 1.09929682680944 - ((1.09929682680944 : ℝ) - 1.0) := by
  unfold recFromLinear; exact if_neg h
theorem recInto_hi {x : ℝ} (h : ¬ x < (4.5 : ℝ) * 0.018053968510807) :
    recIntoLinear x = (x * ((1.0 : ℝ) / 1.09929682680944) + ((1.0 : ℝ) - 1.0 / 1.09929682680944)) ^ ((1.0 : ℝ) / 0.45) := by
  unfold recIntoLinear; exact if_neg h

/-- **sRGB encoder**: toe slope `12.92`, power segment `1.055·t^(1/2.4) − 0.055` of slope `≤ 12.71` at the join, join step
    `|1.055·t₀^(5/12) − 0.055 − 12.92·t₀| ≤ 2.9e-8` (IEC 61966-2-1's rounded constants; the step is downwards) -/
theorem srgb_enc : ToeEnc srgbFromLinear 12.92 0.0031308 0.0031308 1.055 0.055 ((1.0 : ℝ) / 2.4) 12.92 2.9e-8 where
  hp0 := by norm_num
  hp1 := by norm_num
  hts := by norm_num
  hts0 := le_refl _
  hA := by norm_num
  hk := by norm_num
  hkΛ := le_refl _
  slope := by
    apply slope_bound (c := 0.0346) 7 12 (by norm_num) (by norm_num) (by norm_num) (by norm_num) (by norm_num) (by norm_num)
    norm_num
  jump := by
    have e : ((1.0 : ℝ) / 2.4) = ((5 : ℕ) : ℝ) / ((12 : ℕ) : ℝ) := by norm_num
    have lo := le_rpow_of_pow_le (x := 0.0031308) (c := 0.0904738459) (by norm_num) (by norm_num) 5 12 (by norm_num) (by norm_num)
    have hi := rpow_le_of_le_pow (x := 0.0031308) (c := 0.0904738460) (by norm_num) (by norm_num) 5 12 (by norm_num) (by norm_num)
    rw [e, abs_le]
    constructor <;> nlinarith
  val := fun t => by
    by_cases h : t ≤ 0.0031308
    · exact Or.inl ⟨h, C05T.srgbFrom_lo h⟩
    · exact Or.inr ⟨(not_le.mp h).le, by rw [C05T.srgbFrom_hi h, mul_comm]⟩

theorem srgb_dec : ToeDec srgbIntoLinear 12.92 0.04045 1.055 0.055 2.4 where
  val := fun x => by
    by_cases h : x ≤ 0.04045
    · refine Or.inl ⟨h, ?_⟩
      rw [C05T.srgbInto_lo h]; norm_num; ring
    · refine Or.inr ⟨(not_le.mp h).le, ?_⟩
      rw [C05T.srgbInto_hi h]; congr 1; norm_num; ring

/-- **Rec.709/2020 OETF**: toe slope `4.5`; the 15-digit `α`, `β` make the join smooth to `1e-13`: the power segment has slope
    `≤ 4.5 + 1e-9` from `β − 1e-15` on, join step `≤ 1e-14` -/
theorem rec_enc : ToeEnc recFromLinear 4.5 0.018053968510807 (0.018053968510807 - 1e-15) 1.09929682680944 (1.09929682680944 - 1.0)
    (0.45 : ℝ) (4.5 + 1e-9) 1e-14 where
  hp0 := by norm_num
  hp1 := by norm_num
  hts := by norm_num
  hts0 := by norm_num
  hA := by norm_num
  hk := by norm_num
  hkΛ := by norm_num
  slope := by
    apply slope_bound (c := 0.10992968267) 11 20 (by norm_num) (by norm_num) (by norm_num) (by norm_num) (by norm_num) (by norm_num)
    norm_num
  jump := by
    have e : (0.45 : ℝ) = ((9 : ℕ) : ℝ) / ((20 : ℕ) : ℝ) := by norm_num
    have lo := le_rpow_of_pow_le (x := 0.018053968510807) (c := 0.1642319714795) (by norm_num) (by norm_num) 9 20 (by norm_num) (by norm_num)
    have hi := rpow_le_of_le_pow (x := 0.018053968510807) (c := 0.164231971479502) (by norm_num) (by norm_num) 9 20 (by norm_num) (by norm_num)
    rw [e, abs_le]
    constructor <;> nlinarith
  val := fun t => by
    by_cases h : t < 0.018053968510807
    · exact Or.inl ⟨h.le, C05T.recFrom_lo h⟩
    · exact Or.inr ⟨not_lt.mp h, by rw [recFrom_hi h, mul_comm]⟩

theorem rec_dec : ToeDec recIntoLinear 4.5 (4.5 * 0.018053968510807) 1.09929682680944 (1.09929682680944 - 1.0) ((1.0 : ℝ) / 0.45) where
  val := fun x => by
    by_cases h : x < (4.5 : ℝ) * 0.018053968510807
    · refine Or.inl ⟨h.le, ?_⟩
      rw [C05T.recInto_lo h]; norm_num; ring
    · refine Or.inr ⟨not_lt.mp h, ?_⟩
      rw [recInto_hi h]; congr 1; norm_num; ring

/-- **ProPhoto (ROMM)**: toe slope `16`, power segment `t^(1/1.8)` of slope `80/9` at the join, join exact (`16·2⁻⁹ = (2⁻⁹)^(5/9)`) -/
theorem prophoto_enc : ToeEnc prophotoFromLinear 16 0.001953125 0.001953125 1 0 ((1.0 : ℝ) / 1.8) 16 0 where
  hp0 := by norm_num
  hp1 := by norm_num
  hts := by norm_num
  hts0 := le_refl _
  hA := by norm_num
  hk := by norm_num
  hkΛ := le_refl _
  slope := by
    apply slope_bound (c := 0.0625) 4 9 (by norm_num) (by norm_num) (by norm_num) (by norm_num) (by norm_num) (by norm_num)
    norm_num
  jump := by
    have e : ((1.0 : ℝ) / 1.8) = (1 : ℝ) / 1.8 := by norm_num
    rw [e, C05T.prophoto_join]; norm_num
  val := fun t => by
    by_cases h : t < 0.001953125
    · refine Or.inl ⟨h.le, ?_⟩
      rw [C05T.prophotoFrom_lo h]; norm_num
    · refine Or.inr ⟨not_lt.mp h, ?_⟩
      rw [C05T.prophotoFrom_hi h]; ring

theorem prophoto_dec : ToeDec prophotoIntoLinear 16 0.03125 1 0 1.8 where
  val := fun x => by
    by_cases h : x < 0.03125
    · refine Or.inl ⟨h.le, ?_⟩
      rw [C05T.prophotoInto_lo h]; norm_num; ring
    · refine Or.inr ⟨not_lt.mp h, ?_⟩
      rw [C05T.prophotoInto_hi h]; congr 1; ring

/-! ### composition with the matrix pair -/

theorem linf_le_one (v : V3 ℝ) (h0 : 0 ≤ v.c0 ∧ v.c0 ≤ 1) (h1 : 0 ≤ v.c1 ∧ v.c1 ≤ 1) (h2 : 0 ≤ v.c2 ∧ v.c2 ≤ 1) : C01Rgb.linf v ≤ 1 := by
  unfold C01Rgb.linf
  rw [abs_of_nonneg h0.1, abs_of_nonneg h1.1, abs_of_nonneg h2.1]
  exact max_le h0.2 (max_le h1.2 h2.2)

/-- the encoded round trip is the encoder applied to the linear round trip of the decoded colour (definitional) -/
theorem encoded_eq (m1 m2 : List K) (tf : Transfer.Fn) (x : V3 ℝ) :
    RgbFam.xyzToRgb m2 tf (RgbFam.rgbToXyz m1 tf x)
      = (RgbFam.xyzToRgb m2 .linear (RgbFam.rgbToXyz m1 .linear (RgbFam.intoLinear tf x))).map (Transfer.fromLinear tf) := rfl

/-- **generic encoded round trip** for a transfer function with a linear toe: every RGB space of the crate, every encoded colour of
    the unit cube; each component returns within `Λ·6e-7 + 2J + Λ·g` -/
theorem encoded_roundtrip {tf : Transfer.Fn} {k t0 ts A B p Λ J x0 q g : ℝ}
    (hE : ToeEnc (Transfer.fromLinear tf) k t0 ts A B p Λ J) (hD : ToeDec (Transfer.intoLinear tf) k x0 A B q)
    (hpq : q * p = 1) (hk : 1 ≤ k) (hA : 0 < A) (hB : 0 ≤ B) (hAB : 1 + B ≤ A) (hx0 : 0 ≤ x0) (hg0 : 0 ≤ g) (hg1 : x0 / k - t0 ≤ g)
    (hg2 : t0 - ts ≤ g) (ht1 : ts ≤ ((x0 + B) / A) ^ q)
    (sp : SpaceRow) (hsp : sp ∈ Gen.Mat.rgbSpaces) (x : V3 ℝ)
    (h0 : 0 ≤ x.c0 ∧ x.c0 ≤ 1) (h1 : 0 ≤ x.c1 ∧ x.c1 ≤ 1) (h2 : 0 ≤ x.c2 ∧ x.c2 ≤ 1) :
    let y := RgbFam.xyzToRgb sp.2.2.2.1 tf (RgbFam.rgbToXyz sp.2.2.1 tf x)
    |y.c0 - x.c0| ≤ Λ * 6e-7 + 2 * J + Λ * g ∧ |y.c1 - x.c1| ≤ Λ * 6e-7 + 2 * J + Λ * g ∧ |y.c2 - x.c2| ≤ Λ * 6e-7 + 2 * J + Λ * g := by
  intro y
  have hk0 : (0 : ℝ) < k := by linarith
  have hq : 0 ≤ q := by
    by_contra hc
    have : q * p ≤ 0 := mul_nonpos_of_nonpos_of_nonneg (not_le.mp hc).le hE.hp0.le
    linarith
  have d0 := dec_unit hD hk hA hB hAB hq x.c0 h0.1 h0.2
  have d1 := dec_unit hD hk hA hB hAB hq x.c1 h1.1 h1.2
  have d2 := dec_unit hD hk hA hB hAB hq x.c2 h2.1 h2.2
  have hlin : C01Rgb.linf (RgbFam.intoLinear tf x) ≤ 1 := linf_le_one _ d0 d1 d2
  obtain ⟨l0, l1, l2⟩ := C01Rgb.rgb_xyz_rgb_linear sp hsp (RgbFam.intoLinear tf x)
  have hε : (3 : ℝ) * 2e-7 * C01Rgb.linf (RgbFam.intoLinear tf x) ≤ 6e-7 := by nlinarith
  have ey : y = (RgbFam.xyzToRgb sp.2.2.2.1 .linear (RgbFam.rgbToXyz sp.2.2.1 .linear (RgbFam.intoLinear tf x))).map (Transfer.fromLinear tf) :=
    encoded_eq _ _ tf x
  rw [ey]
  exact ⟨component_bound hE hD hpq hk0 hA hB hx0 hg0 hg1 hg2 ht1 x.c0 _ h0.1 (le_trans l0 hε),
    component_bound hE hD hpq hk0 hA hB hx0 hg0 hg1 hg2 ht1 x.c1 _ h1.1 (le_trans l1 hε),
    component_bound hE hD hpq hk0 hA hB hx0 hg0 hg1 hg2 ht1 x.c2 _ h2.1 (le_trans l2 hε)⟩

/-- **sRGB-encoded `Rgb → Xyz → Rgb`** (standards `Srgb`, `DisplayP3`, and the sRGB curve over any of the seven spaces): every colour
    of the encoded unit cube returns within `7.9e-6` per component (`= 12.92·6e-7 + 2·2.9e-8 + 12.92·5e-9`) -/
theorem srgb_encoded_roundtrip (sp : SpaceRow) (hsp : sp ∈ Gen.Mat.rgbSpaces) (x : V3 ℝ)
    (h0 : 0 ≤ x.c0 ∧ x.c0 ≤ 1) (h1 : 0 ≤ x.c1 ∧ x.c1 ≤ 1) (h2 : 0 ≤ x.c2 ∧ x.c2 ≤ 1) :
    let y := RgbFam.xyzToRgb sp.2.2.2.1 .srgb (RgbFam.rgbToXyz sp.2.2.1 .srgb x)
    |y.c0 - x.c0| ≤ 7.9e-6 ∧ |y.c1 - x.c1| ≤ 7.9e-6 ∧ |y.c2 - x.c2| ≤ 7.9e-6 := by
  have ht1 : (0.0031308 : ℝ) ≤ (((0.04045 : ℝ) + 0.055) / 1.055) ^ (2.4 : ℝ) := by
    have e : (2.4 : ℝ) = ((12 : ℕ) : ℝ) / ((5 : ℕ) : ℝ) := by norm_num
    rw [e]; exact le_rpow_of_pow_le (by norm_num) (by norm_num) 12 5 (by norm_num) (by norm_num)
  have := encoded_roundtrip (tf := .srgb) (g := 5e-9) srgb_enc srgb_dec (by norm_num) (by norm_num) (by norm_num) (by norm_num) (by norm_num)
    (by norm_num) (by norm_num) (by norm_num) (by norm_num) ht1 sp hsp x h0 h1 h2
  have hb : (12.92 : ℝ) * 6e-7 + 2 * 2.9e-8 + 12.92 * 5e-9 ≤ 7.9e-6 := by norm_num
  exact ⟨le_trans this.1 hb, le_trans this.2.1 hb, le_trans this.2.2 hb⟩

/-- **Rec.709/2020-encoded round trip** (standards `Rec709`, `Rec2020`): within `2.71e-6` per component -/
theorem rec_encoded_roundtrip (sp : SpaceRow) (hsp : sp ∈ Gen.Mat.rgbSpaces) (x : V3 ℝ)
    (h0 : 0 ≤ x.c0 ∧ x.c0 ≤ 1) (h1 : 0 ≤ x.c1 ∧ x.c1 ≤ 1) (h2 : 0 ≤ x.c2 ∧ x.c2 ≤ 1) :
    let y := RgbFam.xyzToRgb sp.2.2.2.1 .recOetf (RgbFam.rgbToXyz sp.2.2.1 .recOetf x)
    |y.c0 - x.c0| ≤ 2.71e-6 ∧ |y.c1 - x.c1| ≤ 2.71e-6 ∧ |y.c2 - x.c2| ≤ 2.71e-6 := by
  have ht1 : (0.018053968510807 - 1e-15 : ℝ) ≤ (((4.5 : ℝ) * 0.018053968510807 + (1.09929682680944 - 1.0)) / 1.09929682680944) ^ ((1.0 : ℝ) / 0.45) := by
    have e : ((1.0 : ℝ) / 0.45) = ((20 : ℕ) : ℝ) / ((9 : ℕ) : ℝ) := by norm_num
    rw [e]; exact le_rpow_of_pow_le (by norm_num) (by norm_num) 20 9 (by norm_num) (by norm_num)
  have := encoded_roundtrip (tf := .recOetf) (g := 1e-15) rec_enc rec_dec (by norm_num) (by norm_num) (by norm_num) (by norm_num) (by norm_num)
    (by norm_num) (by norm_num) (by norm_num) (by norm_num) ht1 sp hsp x h0 h1 h2
  have hb : ((4.5 : ℝ) + 1e-9) * 6e-7 + 2 * 1e-14 + (4.5 + 1e-9) * 1e-15 ≤ 2.71e-6 := by norm_num
  exact ⟨le_trans this.1 hb, le_trans this.2.1 hb, le_trans this.2.2 hb⟩

/-- **ProPhoto-encoded round trip** (standard `ProPhotoRgb`): within `9.6e-6 = 16·6e-7` per component; the join contributes nothing -/
theorem prophoto_encoded_roundtrip (sp : SpaceRow) (hsp : sp ∈ Gen.Mat.rgbSpaces) (x : V3 ℝ)
    (h0 : 0 ≤ x.c0 ∧ x.c0 ≤ 1) (h1 : 0 ≤ x.c1 ∧ x.c1 ≤ 1) (h2 : 0 ≤ x.c2 ∧ x.c2 ≤ 1) :
    let y := RgbFam.xyzToRgb sp.2.2.2.1 .prophoto (RgbFam.rgbToXyz sp.2.2.1 .prophoto x)
    |y.c0 - x.c0| ≤ 9.6e-6 ∧ |y.c1 - x.c1| ≤ 9.6e-6 ∧ |y.c2 - x.c2| ≤ 9.6e-6 := by
  have ht1 : (0.001953125 : ℝ) ≤ (((0.03125 : ℝ) + 0) / 1) ^ (1.8 : ℝ) := by
    have e : (1.8 : ℝ) = ((9 : ℕ) : ℝ) / ((5 : ℕ) : ℝ) := by norm_num
    rw [e]; exact le_rpow_of_pow_le (by norm_num) (by norm_num) 9 5 (by norm_num) (by norm_num)
  have := encoded_roundtrip (tf := .prophoto) (g := 0) prophoto_enc prophoto_dec (by norm_num) (by norm_num) (by norm_num) (by norm_num) (by norm_num)
    (by norm_num) (by norm_num) (by norm_num) (by norm_num) ht1 sp hsp x h0 h1 h2
  have hb : (16 : ℝ) * 6e-7 + 2 * 0 + 16 * 0 ≤ 9.6e-6 := by norm_num
  exact ⟨le_trans this.1 hb, le_trans this.2.1 hb, le_trans this.2.2 hb⟩

/-- non-vacuity: the seven spaces, and a colour on the surface of the cube -/
example : Gen.Mat.rgbSpaces.length = 7 ∧ ((0 : ℝ) ≤ 1 ∧ (1 : ℝ) ≤ 1) ∧ ((0 : ℝ) ≤ 0.04045 ∧ (0.04045 : ℝ) ≤ 1) := by
  refine ⟨by decide, ?_, ?_⟩ <;> norm_num

/-! ### pure power laws (Adobe RGB, DCI-P3): Hölder, and only for non-negative recovered linear values -/

/-- **`t ↦ t^q` is `q`-Hölder on `[0, ∞)`** for `0 ≤ q ≤ 1`: `|b^q − a^q| ≤ |b − a|^q` (no Lipschitz bound exists: slope `→ ∞` at 0) -/
theorem rpow_holder {q a b : ℝ} (hq0 : 0 ≤ q) (hq1 : q ≤ 1) (ha : 0 ≤ a) (hb : 0 ≤ b) : |b ^ q - a ^ q| ≤ |b - a| ^ q := by
  have key : ∀ a b : ℝ, 0 ≤ a → a ≤ b → |b ^ q - a ^ q| ≤ |b - a| ^ q := by
    intro a b ha hab
    have hd : 0 ≤ b - a := by linarith
    have h1 := Real.rpow_add_le_add_rpow ha hd hq0 hq1
    rw [add_sub_cancel] at h1
    have h2 : a ^ q ≤ b ^ q := Real.rpow_le_rpow ha hab hq0
    rw [abs_of_nonneg (by linarith), abs_of_nonneg hd]; linarith
  rcases le_total a b with h | h
  · exact key a b ha h
  · rw [abs_sub_comm (b ^ q), abs_sub_comm b]; exact key b a hb h

/-- one component: the linear value `x^γ` comes back as `y ≥ 0` within `ε` ⇒ the encoded value comes back within `ε^q`, `q = 1/γ` -/
theorem powlaw_component {q γ ε : ℝ} (hq0 : 0 ≤ q) (hq1 : q ≤ 1) (hγq : γ * q = 1) (x y : ℝ) (hx : 0 ≤ x) (hy0 : 0 ≤ y)
    (hy : |y - x ^ γ| ≤ ε) : |y ^ q - x| ≤ ε ^ q := by
  have e : x = (x ^ γ) ^ q := by rw [← Real.rpow_mul hx, hγq, Real.rpow_one]
  calc |y ^ q - x| = |y ^ q - (x ^ γ) ^ q| := by rw [← e]
    _ ≤ |y - x ^ γ| ^ q := rpow_holder hq0 hq1 (Real.rpow_nonneg hx γ) hy0
    _ ≤ ε ^ q := Real.rpow_le_rpow (abs_nonneg _) hy hq0

/-- generic power-law round trip: `dec x = x^γ`, `enc t = t^q` -/
theorem powlaw_roundtrip {tf : Transfer.Fn} {q γ : ℝ} (hdec : ∀ x : ℝ, Transfer.intoLinear tf x = x ^ γ)
    (henc : ∀ t : ℝ, Transfer.fromLinear tf t = t ^ q) (hq0 : 0 ≤ q) (hq1 : q ≤ 1) (hγ : 0 ≤ γ) (hγq : γ * q = 1)
    (sp : SpaceRow) (hsp : sp ∈ Gen.Mat.rgbSpaces) (x : V3 ℝ)
    (h0 : 0 ≤ x.c0 ∧ x.c0 ≤ 1) (h1 : 0 ≤ x.c1 ∧ x.c1 ≤ 1) (h2 : 0 ≤ x.c2 ∧ x.c2 ≤ 1)
    (hnn : let l := RgbFam.xyzToRgb sp.2.2.2.1 .linear (RgbFam.rgbToXyz sp.2.2.1 tf x); 0 ≤ l.c0 ∧ 0 ≤ l.c1 ∧ 0 ≤ l.c2) :
    let y := RgbFam.xyzToRgb sp.2.2.2.1 tf (RgbFam.rgbToXyz sp.2.2.1 tf x)
    |y.c0 - x.c0| ≤ (6e-7 : ℝ) ^ q ∧ |y.c1 - x.c1| ≤ (6e-7 : ℝ) ^ q ∧ |y.c2 - x.c2| ≤ (6e-7 : ℝ) ^ q := by
  intro y
  have d : ∀ c : ℝ, 0 ≤ c ∧ c ≤ 1 → 0 ≤ Transfer.intoLinear tf c ∧ Transfer.intoLinear tf c ≤ 1 := fun c hc => by
    rw [hdec]; exact ⟨Real.rpow_nonneg hc.1 γ, Real.rpow_le_one hc.1 hc.2 hγ⟩
  have hlin : C01Rgb.linf (RgbFam.intoLinear tf x) ≤ 1 := linf_le_one _ (d _ h0) (d _ h1) (d _ h2)
  obtain ⟨l0, l1, l2⟩ := C01Rgb.rgb_xyz_rgb_linear sp hsp (RgbFam.intoLinear tf x)
  have hε : (3 : ℝ) * 2e-7 * C01Rgb.linf (RgbFam.intoLinear tf x) ≤ 6e-7 := by nlinarith
  have ey : y = (RgbFam.xyzToRgb sp.2.2.2.1 .linear (RgbFam.rgbToXyz sp.2.2.1 .linear (RgbFam.intoLinear tf x))).map (Transfer.fromLinear tf) :=
    encoded_eq _ _ tf x
  have el : RgbFam.xyzToRgb sp.2.2.2.1 .linear (RgbFam.rgbToXyz sp.2.2.1 tf x)
      = RgbFam.xyzToRgb sp.2.2.2.1 .linear (RgbFam.rgbToXyz sp.2.2.1 .linear (RgbFam.intoLinear tf x)) := rfl
  rw [el] at hnn
  obtain ⟨n0, n1, n2⟩ := hnn
  have c0 : (RgbFam.intoLinear tf x).c0 = x.c0 ^ γ := hdec _
  have c1 : (RgbFam.intoLinear tf x).c1 = x.c1 ^ γ := hdec _
  have c2 : (RgbFam.intoLinear tf x).c2 = x.c2 ^ γ := hdec _
  rw [c0] at l0; rw [c1] at l1; rw [c2] at l2
  rw [ey]
  simp only [V3.map, henc]
  exact ⟨powlaw_component hq0 hq1 hγq _ _ h0.1 n0 (le_trans l0 hε), powlaw_component hq0 hq1 hγq _ _ h1.1 n1 (le_trans l1 hε),
    powlaw_component hq0 hq1 hγq _ _ h2.1 n2 (le_trans l2 hε)⟩

/-- **Adobe RGB-encoded round trip** (`γ = 563/256`): within `(6e-7)^(256/563) ≤ 1.5e-3` per component, **provided the recovered
    linear components are non-negative** (hypothesis `hnn`; without it IEEE `powf` returns NaN: finding D6) -/
theorem adobe_encoded_roundtrip (sp : SpaceRow) (hsp : sp ∈ Gen.Mat.rgbSpaces) (x : V3 ℝ)
    (h0 : 0 ≤ x.c0 ∧ x.c0 ≤ 1) (h1 : 0 ≤ x.c1 ∧ x.c1 ≤ 1) (h2 : 0 ≤ x.c2 ∧ x.c2 ≤ 1)
    (hnn : let l := RgbFam.xyzToRgb sp.2.2.2.1 .linear (RgbFam.rgbToXyz sp.2.2.1 .adobeRgb x); 0 ≤ l.c0 ∧ 0 ≤ l.c1 ∧ 0 ≤ l.c2) :
    let y := RgbFam.xyzToRgb sp.2.2.2.1 .adobeRgb (RgbFam.rgbToXyz sp.2.2.1 .adobeRgb x)
    |y.c0 - x.c0| ≤ 1.5e-3 ∧ |y.c1 - x.c1| ≤ 1.5e-3 ∧ |y.c2 - x.c2| ≤ 1.5e-3 := by
  have hdec : ∀ x : ℝ, Transfer.intoLinear .adobeRgb x = x ^ ((563 : ℝ) / 256) := fun x => by
    show adobeIntoLinear x = _
    simp only [adobeIntoLinear, RealScalar.powf_eq, RealScalar.const_eq, RealScalar.eval_div, RealScalar.eval_ofSci]
    congr 1; norm_num
  have henc : ∀ t : ℝ, Transfer.fromLinear .adobeRgb t = t ^ (((256 : ℕ) : ℝ) / ((563 : ℕ) : ℝ)) := fun x => by
    show adobeFromLinear x = _
    simp only [adobeFromLinear, RealScalar.powf_eq, RealScalar.const_eq, RealScalar.eval_div, RealScalar.eval_ofSci]
    congr 1; norm_num
  have := powlaw_roundtrip hdec henc (by norm_num) (by norm_num) (by norm_num) (by norm_num) sp hsp x h0 h1 h2 hnn
  have hb : (6e-7 : ℝ) ^ (((256 : ℕ) : ℝ) / ((563 : ℕ) : ℝ)) ≤ 1.5e-3 :=
    -- `256/563 ≥ 5/11` and the base is below 1; `(6e-7)^(5/11) ≤ 1.5e-3` from `(6e-7)^5 ≤ (1.5e-3)^11`
    le_trans (Real.rpow_le_rpow_of_exponent_ge (by norm_num) (by norm_num) (by norm_num : (((5 : ℕ) : ℝ) / ((11 : ℕ) : ℝ)) ≤ ((256 : ℕ) : ℝ) / ((563 : ℕ) : ℝ)))
      (rpow_le_of_le_pow (by norm_num) (by norm_num) 5 11 (by norm_num) (by norm_num))
  exact ⟨le_trans this.1 hb, le_trans this.2.1 hb, le_trans this.2.2 hb⟩

/-- **DCI-P3-encoded round trip** (`γ = 2.6`): within `(6e-7)^(5/13) ≤ 4.05e-3` per component, under the same hypothesis -/
theorem p3_encoded_roundtrip (sp : SpaceRow) (hsp : sp ∈ Gen.Mat.rgbSpaces) (x : V3 ℝ)
    (h0 : 0 ≤ x.c0 ∧ x.c0 ≤ 1) (h1 : 0 ≤ x.c1 ∧ x.c1 ≤ 1) (h2 : 0 ≤ x.c2 ∧ x.c2 ≤ 1)
    (hnn : let l := RgbFam.xyzToRgb sp.2.2.2.1 .linear (RgbFam.rgbToXyz sp.2.2.1 .p3Gamma x); 0 ≤ l.c0 ∧ 0 ≤ l.c1 ∧ 0 ≤ l.c2) :
    let y := RgbFam.xyzToRgb sp.2.2.2.1 .p3Gamma (RgbFam.rgbToXyz sp.2.2.1 .p3Gamma x)
    |y.c0 - x.c0| ≤ 4.05e-3 ∧ |y.c1 - x.c1| ≤ 4.05e-3 ∧ |y.c2 - x.c2| ≤ 4.05e-3 := by
  have hdec : ∀ x : ℝ, Transfer.intoLinear .p3Gamma x = x ^ (2.6 : ℝ) := fun x => rfl
  have henc : ∀ t : ℝ, Transfer.fromLinear .p3Gamma t = t ^ (((5 : ℕ) : ℝ) / ((13 : ℕ) : ℝ)) := fun x => by
    show p3FromLinear x = _
    simp only [p3FromLinear, RealScalar.powf_eq, RealScalar.const_eq, RealScalar.eval_div, RealScalar.eval_ofSci]
    congr 1; norm_num
  have := powlaw_roundtrip hdec henc (by norm_num) (by norm_num) (by norm_num) (by norm_num) sp hsp x h0 h1 h2 hnn
  have hb : (6e-7 : ℝ) ^ (((5 : ℕ) : ℝ) / ((13 : ℕ) : ℝ)) ≤ 4.05e-3 :=
    rpow_le_of_le_pow (by norm_num) (by norm_num) 5 13 (by norm_num) (by norm_num)
  exact ⟨le_trans this.1 hb, le_trans this.2.1 hb, le_trans this.2.2 hb⟩

/-- the DCI-P3 row of the generated table -/
def dciP3 : SpaceRow := Gen.Mat.rgbSpaces.getD 2 default

/-- **the hypothesis `hnn` is needed** (finding D6, on the model at ℝ): pure DCI-P3 green `(0, 1, 0)` — encoded = linear there —
    comes back from `Xyz` with a *negative* linear red component; `C01Rgb.d6_witness_dcip3` is the same fact decided over ℚ.
    (An in-gamut colour satisfying `hnn`: mid-gray, below.) -/
theorem d6_p3_green_negative :
    dciP3.1 = "DciP3" ∧ dciP3 ∈ Gen.Mat.rgbSpaces ∧
    (RgbFam.xyzToRgb dciP3.2.2.2.1 .linear (RgbFam.rgbToXyz dciP3.2.2.1 .p3Gamma (⟨0, 1, 0⟩ : V3 ℝ))).c0 < 0 := by
  refine ⟨by decide, ?_, ?_⟩
  · unfold dciP3
    simp only [Gen.Mat.rgbSpaces, List.getD_cons_succ, List.getD_cons_zero]
    exact List.mem_cons_of_mem _ (List.mem_cons_of_mem _ List.mem_cons_self)
  have z : (0 : ℝ) ^ (2.6 : ℝ) = 0 := Real.zero_rpow (by norm_num)
  have o : (1 : ℝ) ^ (2.6 : ℝ) = 1 := Real.one_rpow _
  simp only [dciP3, Gen.Mat.rgbSpaces, List.getD_cons_succ, List.getD_cons_zero, RgbFam.xyzToRgb, RgbFam.rgbToXyz, RgbFam.fromLinear,
    RgbFam.intoLinear, V3.map, Transfer.fromLinear, Transfer.intoLinear, p3IntoLinear, id, M3.ofK, M3.mulVec, RealScalar.powf_eq,
    RealScalar.const_eq, RealScalar.eval_neg, RealScalar.eval_ofSci, z, o]
  norm_num

/-- `hnn` is satisfiable: DCI-P3 mid-gray `(1/2, 1/2, 1/2)` in *linear* light comes back positive (row sums of `B·A` are `1 ± 6e-7`) -/
example : let l := (M3.ofK dciP3.2.2.2.1 : M3 ℝ).mulVec ((M3.ofK dciP3.2.2.1 : M3 ℝ).mulVec ⟨0.5, 0.5, 0.5⟩); 0 ≤ l.c0 ∧ 0 ≤ l.c1 ∧ 0 ≤ l.c2 := by
  simp only [dciP3, Gen.Mat.rgbSpaces, List.getD_cons_succ, List.getD_cons_zero, M3.ofK, M3.mulVec, RealScalar.const_eq, RealScalar.eval_neg,
    RealScalar.eval_ofSci]
  norm_num

end C02Enc
