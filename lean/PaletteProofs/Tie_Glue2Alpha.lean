/-
  Source-text tie, family `glue2`, sub-family `alpha` (C01): conversion of colours WITH transparency and the `WithAlpha` trait.

  `tools/extract.py` (plugin `tools/extract_plugins/glue2.py`, translator `tools/rust2lean_glue2.py` on the dictionary-passing lowering of
  `tools/rust2lean_glue.py`) re-translates on every run
    * `impl<C1: WithAlpha<T>, C2, T> FromColorUnclamped<C1> for Alpha<C2, T>` (alpha/alpha.rs): `let (color, alpha) = other.split();
      Alpha { color: color.into_color_unclamped(), alpha }` - `split` and the conversion are parameters;
    * `impl<C, A> WithAlpha<A> for Alpha<C, A>` (`with_alpha`, `without_alpha`, `split`), the trait defaults `opaque` / `transparent`
      (alpha.rs), `From<C> for Alpha<C, T>`, `Default`, `Deref`, `DerefMut`;
    * the `quote!` template of `#[derive(WithAlpha)]` for a colour without alpha field (palette_derive/src/alpha/with_alpha.rs,
      `implement_for_external_alpha`: every plain colour type of the crate gets its `WithAlpha` from it), read at `#alpha_path = Alpha`
  into `Gen.BodyGlue2Alpha.*` (lean/PaletteModel/Gen/BodiesGlue2Alpha.lean).  `tie_<name>` proves each equal to the explicit model function
  of `PaletteModel/AlphaForms.lean`, for every type and every value of the parameters (all `rfl`).

  Then the C01 clause itself ("Attaching a transparency value never changes the converted color, and the transparency value itself comes
  out unchanged") is proved ABOUT THE TRANSLATED BODIES, for every conversion `conv` (every route of C01, every pair of colour types, every
  component type) at once: `c01_alpha_colour`, `c01_alpha_value` (source `Alpha<C1, T>`), `c01_plain_colour`, `c01_plain_value` (source a
  plain colour: comes out opaque), `c01_attach_then_convert`.  Law-free: no property of `conv` is used.

  Caught by these and by nothing sampled in floats: `alpha` replaced by `T::max_intensity()` in the conversion (invisible at alpha = 1),
  `other.without_alpha()` used for `split().0` with the alpha taken from elsewhere, `split` returning `(self.color, max)`,
  `opaque` / `transparent` exchanged, `From<C>` attaching `min_alpha()`.
  NOT translated: header of Gen/BodiesGlue2Alpha.lean.
-/
import PaletteModel.Gen.BodiesGlue2Alpha

namespace Tie
variable {σ γ γ' ω τ : Type}

/-! ### `impl WithAlpha<A> for Alpha<C, A>` -/
theorem tie_alphaWithAlpha (a : Prim.AlphaOf γ τ) (x : τ) : Gen.BodyGlue2Alpha.alphaWithAlpha a x = AlphaForms.withAlpha a x := rfl
theorem tie_alphaWithoutAlpha (a : Prim.AlphaOf γ τ) : Gen.BodyGlue2Alpha.alphaWithoutAlpha a = AlphaForms.withoutAlpha a := rfl
theorem tie_alphaSplit (a : Prim.AlphaOf γ τ) : Gen.BodyGlue2Alpha.alphaSplit a = AlphaForms.split a := rfl

/-! ### `#[derive(WithAlpha)]` for a plain colour (palette_derive template) -/
theorem tie_plainWithAlpha (mx z : τ) (c : γ) (x : τ) : Gen.BodyGlue2Alpha.plainWithAlpha mx z c x = AlphaForms.attach c x := rfl
theorem tie_plainWithoutAlpha (mx z : τ) (c : γ) : Gen.BodyGlue2Alpha.plainWithoutAlpha mx z c = AlphaForms.plainWithoutAlpha c := rfl
/-- the alpha a plain colour splits into is `max_intensity()`, not `zero()` and not `one()` (all three are parameters) -/
theorem tie_plainSplit (mx z o : τ) (c : γ) : Gen.BodyGlue2Alpha.plainSplit mx z o c = AlphaForms.plainSplit mx c := rfl

/-! ### trait defaults -/
theorem tie_withAlphaOpaque (mx z o : τ) (w : σ → τ → ω) (x : σ) : Gen.BodyGlue2Alpha.withAlphaOpaque mx z o w x = AlphaForms.opaqueOf mx w x := rfl
theorem tie_withAlphaTransparent (mx z o : τ) (w : σ → τ → ω) (x : σ) : Gen.BodyGlue2Alpha.withAlphaTransparent mx z o w x = AlphaForms.transparentOf z w x := rfl

/-! ### the conversion -/
/-- `FromColorUnclamped<C1> for Alpha<C2, T>`: for every `split`, every conversion and whatever `without_alpha` / `max_intensity` are -/
theorem tie_alphaFromColorUnclamped (split : σ → γ × τ) (conv : γ → γ') (wo : σ → γ) (mx : τ) (x : σ) :
    Gen.BodyGlue2Alpha.alphaFromColorUnclamped split conv wo mx x = AlphaForms.convertWith split conv x := rfl

/-! ### `From<C>`, `Default`, `Deref`, `DerefMut` -/
/-- `Alpha::from(color)` attaches `max_alpha()` = `T::max_intensity()` (through the translated `Gen.Body.alphaMaxAlpha`, Tie_Alpha) -/
theorem tie_alphaFromColor (mx z o : τ) (c : γ) : Gen.BodyGlue2Alpha.alphaFromColor mx z o c = AlphaForms.attach c mx := rfl
theorem tie_alphaDefault (mx z o : τ) (d : γ) : Gen.BodyGlue2Alpha.alphaDefault mx z o d = AlphaForms.attach d mx := rfl
theorem tie_alphaDeref (a : Prim.AlphaOf γ τ) : Gen.BodyGlue2Alpha.alphaDeref a = AlphaForms.withoutAlpha a := rfl
theorem tie_alphaDerefMut (a : Prim.AlphaOf γ τ) : Gen.BodyGlue2Alpha.alphaDerefMut a = AlphaForms.withoutAlpha a := rfl

/-! ### the model's two instances are the translated body at the translated `split`s -/
theorem convertAlpha_is_body (conv : γ → γ') (wo : Prim.AlphaOf γ τ → γ) (mx : τ) (a : Prim.AlphaOf γ τ) :
    AlphaForms.convertAlpha conv a = Gen.BodyGlue2Alpha.alphaFromColorUnclamped Gen.BodyGlue2Alpha.alphaSplit conv wo mx a := rfl
theorem convertPlain_is_body (conv : γ → γ') (wo : γ → γ) (mx z o : τ) (c : γ) :
    AlphaForms.convertPlain mx conv c = Gen.BodyGlue2Alpha.alphaFromColorUnclamped (Gen.BodyGlue2Alpha.plainSplit mx z o) conv wo mx c := rfl

/-! ### C01: "Attaching a transparency value never changes the converted color, and the transparency value itself comes out unchanged" -/
/-- source `Alpha<C1, T>`: the colour of the converted value is the conversion of the bare colour -/
theorem c01_alpha_colour (conv : γ → γ') (wo : Prim.AlphaOf γ τ → γ) (mx : τ) (c : γ) (a : τ) :
    (Gen.BodyGlue2Alpha.alphaFromColorUnclamped Gen.BodyGlue2Alpha.alphaSplit conv wo mx ⟨c, a⟩).color = conv c := rfl
/-- source `Alpha<C1, T>`: the alpha comes out unchanged (bit for bit: it is the same value) -/
theorem c01_alpha_value (conv : γ → γ') (wo : Prim.AlphaOf γ τ → γ) (mx : τ) (c : γ) (a : τ) :
    (Gen.BodyGlue2Alpha.alphaFromColorUnclamped Gen.BodyGlue2Alpha.alphaSplit conv wo mx ⟨c, a⟩).alpha = a := rfl
/-- source a plain colour (derived `WithAlpha`): the colour is the plain conversion, the result is opaque -/
theorem c01_plain_colour (conv : γ → γ') (wo : γ → γ) (mx z o : τ) (c : γ) :
    (Gen.BodyGlue2Alpha.alphaFromColorUnclamped (Gen.BodyGlue2Alpha.plainSplit mx z o) conv wo mx c).color = conv c := rfl
theorem c01_plain_value (conv : γ → γ') (wo : γ → γ) (mx z o : τ) (c : γ) :
    (Gen.BodyGlue2Alpha.alphaFromColorUnclamped (Gen.BodyGlue2Alpha.plainSplit mx z o) conv wo mx c).alpha = mx := rfl
/-- attaching an alpha (`with_alpha` of the plain colour) and converting = converting and attaching the same alpha -/
theorem c01_attach_then_convert (conv : γ → γ') (wo : Prim.AlphaOf γ τ → γ) (mx z : τ) (c : γ) (a : τ) :
    Gen.BodyGlue2Alpha.alphaFromColorUnclamped Gen.BodyGlue2Alpha.alphaSplit conv wo mx (Gen.BodyGlue2Alpha.plainWithAlpha mx z c a)
      = Gen.BodyGlue2Alpha.plainWithAlpha mx z (conv c) a := rfl
/-- converting there and back with alpha: the colour round trip is the bare round trip, the alpha is untouched (so C01's
    round-trip clause for `Alpha` types is the clause for the bare types) -/
theorem c01_alpha_roundtrip (f : γ → γ') (g : γ' → γ) (wo : Prim.AlphaOf γ τ → γ) (wo' : Prim.AlphaOf γ' τ → γ') (mx : τ) (c : γ) (a : τ) :
    Gen.BodyGlue2Alpha.alphaFromColorUnclamped Gen.BodyGlue2Alpha.alphaSplit g wo' mx
      (Gen.BodyGlue2Alpha.alphaFromColorUnclamped Gen.BodyGlue2Alpha.alphaSplit f wo mx ⟨c, a⟩) = ⟨g (f c), a⟩ := rfl
/-- `opaque` of a plain colour then `split`: the colour and `max_intensity()` -/
theorem opaque_then_split (mx z o : τ) (c : γ) :
    Gen.BodyGlue2Alpha.alphaSplit (Gen.BodyGlue2Alpha.withAlphaOpaque mx z o (Gen.BodyGlue2Alpha.plainWithAlpha mx z) c) = Gen.BodyGlue2Alpha.plainSplit mx z o c := rfl
/-- `with_alpha` then `split` on an `Alpha`: the colour kept, the new alpha -/
theorem withAlpha_then_split (a : Prim.AlphaOf γ τ) (x : τ) :
    Gen.BodyGlue2Alpha.alphaSplit (Gen.BodyGlue2Alpha.alphaWithAlpha a x) = (a.color, x) := rfl

end Tie
