/-
  "Poisoned reals" (DESIGN §2.1): the fourth reading of the model.  `PReal := Option ℝ`; `none` is *poison*.
  A division by zero, `sqrt` of a negative number, `ln` of a non-positive number, `powf` with a negative base (or `0` to a
  non-positive power) and **any** operation on poison give poison; comparisons with poison are false (as with NaN), so an
  `if` on poison takes its `else` arm, exactly what `lazy_select!` / `if` do on a NaN.  `isValidDivisor none = false`,
  `isValidDivisor (some x) = (x ≠ 0)`.

  C07 reads the *unchanged* model functions at this type: "`f (some inputs) ≠ none`" says that on the branch actually
  selected no divisor is zero and every partial function stays inside its domain.

  What this reading cannot exhibit (stated in the `level_note` of C07): overflow to infinity, `inf − inf`, the gap between
  `≠ 0` and `is_normal`, libm returning NaN inside the mathematical domain, and rounding (a value that is non-zero at ℝ and
  rounds to zero, e.g. finding `hsl-white-inf`).
-/
import PaletteProofs.Real
import PaletteProofs.RealAngle

/-- poisoned reals -/
def PReal : Type := Option ℝ

namespace PReal
open Classical

/-- the embedding `ℝ → PReal` (written `some` throughout) -/
@[reducible] def ok (x : ℝ) : PReal := some x
/-- poison -/
@[reducible] def poison : PReal := none

noncomputable def lift1 (f : ℝ → ℝ) : PReal → PReal
  | some a => some (f a)
  | none => none
noncomputable def lift2 (f : ℝ → ℝ → ℝ) : PReal → PReal → PReal
  | some a, some b => some (f a b)
  | _, _ => none

noncomputable def pdiv : PReal → PReal → PReal
  | some a, some b => if b = 0 then none else some (a / b)
  | _, _ => none
noncomputable def psqrt : PReal → PReal
  | some a => if a < 0 then none else some (Real.sqrt a)
  | none => none
noncomputable def pln : PReal → PReal
  | some a => if a ≤ 0 then none else some (Real.log a)
  | none => none
/-- `powf`: poison for a negative base (IEEE: NaN unless the exponent is an integer; every exponent in the crate is a
    non-integer constant) and for `0` to a non-positive power (`0^(-y) = +inf`; `0^0` is excluded with it, conservatively) -/
noncomputable def ppow : PReal → PReal → PReal
  | some a, some b => if a < 0 ∨ (a = 0 ∧ b ≤ 0) then none else some (a ^ b)
  | _, _ => none

def plt : PReal → PReal → Prop
  | some a, some b => a < b
  | _, _ => False
def ple : PReal → PReal → Prop
  | some a, some b => a ≤ b
  | _, _ => False

noncomputable instance : Add PReal := ⟨lift2 (· + ·)⟩
noncomputable instance : Sub PReal := ⟨lift2 (· - ·)⟩
noncomputable instance : Mul PReal := ⟨lift2 (· * ·)⟩
noncomputable instance : Div PReal := ⟨pdiv⟩
noncomputable instance : Neg PReal := ⟨lift1 (fun a => -a)⟩
instance : LT PReal := ⟨plt⟩
instance : LE PReal := ⟨ple⟩
noncomputable instance : OfScientific PReal := ⟨fun m s e => some (OfScientific.ofScientific m s e : ℝ)⟩

end PReal

open Classical in
noncomputable instance instScalarPReal : Scalar PReal where
  const := K.eval
  abs := PReal.lift1 (fun x => |x|)
  sqrt := PReal.psqrt
  cbrt := PReal.lift1 (Scalar.cbrt (α := ℝ))
  exp := PReal.lift1 Real.exp
  ln := PReal.pln
  floor := PReal.lift1 (fun x => (⌊x⌋ : ℝ))
  ceil := PReal.lift1 (fun x => (⌈x⌉ : ℝ))
  round := PReal.lift1 (Scalar.round (α := ℝ))
  sin := PReal.lift1 Real.sin
  cos := PReal.lift1 Real.cos
  powf := PReal.ppow
  atan2 := PReal.lift2 (fun y x => Complex.arg ⟨x, y⟩)
  min := PReal.lift2 (fun a b => min a b)
  max := PReal.lift2 (fun a b => max a b)
  isValidDivisor := fun x => match x with
    | some a => decide (a ≠ 0)
    | none => false
  decLt := fun _ _ => Classical.propDecidable _
  decLe := fun _ _ => Classical.propDecidable _

noncomputable instance instAnglePReal : Angle PReal where
  pi := some Real.pi
  radToDeg := PReal.lift1 (fun x => x * (180 / Real.pi))
  degToRad := PReal.lift1 (fun x => x * (Real.pi / 180))
  hypot := PReal.lift2 (fun a b => Real.sqrt (a * a + b * b))

instance instViaF64PReal : ViaF64 PReal PReal := ⟨id, id⟩

namespace PReal

/-! ### evaluation lemmas: every operation on `ok` values, and poison propagation -/
section
variable (a b c : ℝ)

@[simp] theorem some_ne_none : (ok a) ≠ poison := by intro h; cases h
@[simp] theorem none_ne_some : poison ≠ ok a := by intro h; cases h
@[simp] theorem some_inj' : ((ok a) = ok b) ↔ a = b := by
  constructor
  · intro h; exact Option.some.inj h
  · intro h; rw [h]

@[simp] theorem add_some : (ok a) + ok b = ok (a + b) := rfl
@[simp] theorem sub_some : (ok a) - ok b = ok (a - b) := rfl
@[simp] theorem mul_some : (ok a) * ok b = ok (a * b) := rfl
@[simp] theorem neg_some : -(ok a) = ok (-a) := rfl
theorem div_some : (ok a) / ok b = if b = 0 then poison else ok (a / b) := rfl
@[simp] theorem div_some_of_ne (h : b ≠ 0) : (ok a) / ok b = ok (a / b) := by
  rw [div_some, if_neg h]
@[simp] theorem div_some_zero : (ok a) / ok 0 = poison := by
  rw [div_some, if_pos rfl]
theorem div_zero_of_eq (h : b = 0) : (ok a) / ok b = poison := by
  rw [div_some, if_pos h]

@[simp] theorem none_add (x : PReal) : poison + x = poison := rfl
@[simp] theorem add_none (x : PReal) : x + poison = poison := by cases x <;> rfl
@[simp] theorem none_sub (x : PReal) : poison - x = poison := rfl
@[simp] theorem sub_none (x : PReal) : x - poison = poison := by cases x <;> rfl
@[simp] theorem none_mul (x : PReal) : poison * x = poison := rfl
@[simp] theorem mul_none (x : PReal) : x * poison = poison := by cases x <;> rfl
@[simp] theorem none_div (x : PReal) : poison / x = poison := rfl
@[simp] theorem div_none (x : PReal) : x / poison = poison := by cases x <;> rfl
@[simp] theorem neg_none : -poison = poison := rfl

@[simp] theorem lt_some : ((ok a) < ok b) ↔ a < b := Iff.rfl
@[simp] theorem le_some : ((ok a) ≤ ok b) ↔ a ≤ b := Iff.rfl
@[simp] theorem not_none_lt (x : PReal) : ¬ (poison < x) := fun h => h
@[simp] theorem not_lt_none (x : PReal) : ¬ (x < poison) := by cases x <;> exact fun h => h
@[simp] theorem not_none_le (x : PReal) : ¬ (poison ≤ x) := fun h => h
@[simp] theorem not_le_none (x : PReal) : ¬ (x ≤ poison) := by cases x <;> exact fun h => h

@[simp] theorem eqv_some : Scalar.eqv (ok a) (ok b) ↔ a = b := by
  unfold Scalar.eqv
  simp only [le_some]
  exact ⟨fun h => le_antisymm h.1 h.2, fun h => ⟨le_of_eq h, le_of_eq h.symm⟩⟩
@[simp] theorem not_eqv_none_left (x : PReal) : ¬ Scalar.eqv poison x := fun h => h.1
@[simp] theorem not_eqv_none_right (x : PReal) : ¬ Scalar.eqv x poison := fun h => not_none_le _ h.2

@[simp] theorem ofSci (m : Nat) (s : Bool) (e : Nat) :
    (OfScientific.ofScientific m s e : PReal) = ok (OfScientific.ofScientific m s e : ℝ) := rfl

@[simp] theorem abs_some : Scalar.abs (ok a) = ok |a| := rfl
theorem sqrt_some : Scalar.sqrt (ok a) = if a < 0 then poison else ok (Real.sqrt a) := rfl
@[simp] theorem sqrt_some_of_nonneg (h : 0 ≤ a) : Scalar.sqrt (ok a) = ok (Real.sqrt a) := by
  rw [sqrt_some, if_neg (not_lt.mpr h)]
theorem sqrt_some_of_neg (h : a < 0) : Scalar.sqrt (ok a) = poison := by
  rw [sqrt_some, if_pos h]
@[simp] theorem cbrt_some : Scalar.cbrt (ok a) = ok (Scalar.cbrt a) := rfl
@[simp] theorem exp_some : Scalar.exp (ok a) = ok (Real.exp a) := rfl
theorem ln_some : Scalar.ln (ok a) = if a ≤ 0 then poison else ok (Real.log a) := rfl
@[simp] theorem ln_some_of_pos (h : 0 < a) : Scalar.ln (ok a) = ok (Real.log a) := by
  rw [ln_some, if_neg (not_le.mpr h)]
@[simp] theorem floor_some : Scalar.floor (ok a) = ok (⌊a⌋ : ℝ) := rfl
@[simp] theorem ceil_some : Scalar.ceil (ok a) = ok (⌈a⌉ : ℝ) := rfl
@[simp] theorem round_some : Scalar.round (ok a) = ok (Scalar.round a) := rfl
@[simp] theorem sin_some : Scalar.sin (ok a) = ok (Real.sin a) := rfl
@[simp] theorem cos_some : Scalar.cos (ok a) = ok (Real.cos a) := rfl
theorem powf_some : Scalar.powf (ok a) (ok b) = if a < 0 ∨ (a = 0 ∧ b ≤ 0) then poison else ok (a ^ b) := rfl
@[simp] theorem powf_some_of_pos (h : 0 < a) : Scalar.powf (ok a) (ok b) = ok (a ^ b) := by
  rw [powf_some, if_neg]; rintro (h1 | ⟨h1, _⟩) <;> linarith
theorem powf_some_of_nonneg_pos (h : 0 ≤ a) (hb : 0 < b) : Scalar.powf (ok a) (ok b) = ok (a ^ b) := by
  rw [powf_some, if_neg]; rintro (h1 | ⟨_, h1⟩) <;> linarith
theorem powf_some_of_neg (h : a < 0) : Scalar.powf (ok a) (ok b) = poison := by
  rw [powf_some, if_pos (Or.inl h)]
@[simp] theorem atan2_some : Scalar.atan2 (ok a) (ok b) = ok (Complex.arg ⟨b, a⟩) := rfl
@[simp] theorem min_some : Scalar.min (ok a) (ok b) = ok (min a b) := rfl
@[simp] theorem max_some : Scalar.max (ok a) (ok b) = ok (max a b) := rfl
@[simp] theorem valid_some : Scalar.isValidDivisor (ok a) = decide (a ≠ 0) := rfl
@[simp] theorem valid_none : Scalar.isValidDivisor poison = false := rfl
@[simp] theorem mulAdd_some : Scalar.mulAdd (ok a) (ok b) (ok c) = ok (a * b + c) := rfl
@[simp] theorem mulSub_some : Scalar.mulSub (ok a) (ok b) (ok c) = ok (a * b - c) := rfl

@[simp] theorem sqrt_none : Scalar.sqrt poison = poison := rfl
@[simp] theorem abs_none : Scalar.abs poison = poison := rfl
@[simp] theorem cbrt_none : Scalar.cbrt poison = poison := rfl
@[simp] theorem sin_none : Scalar.sin poison = poison := rfl
@[simp] theorem cos_none : Scalar.cos poison = poison := rfl
@[simp] theorem powf_none_left (x : PReal) : Scalar.powf poison x = poison := rfl
@[simp] theorem powf_none_right (x : PReal) : Scalar.powf x poison = poison := by cases x <;> rfl
@[simp] theorem min_none_left (x : PReal) : Scalar.min poison x = poison := rfl
@[simp] theorem min_none_right (x : PReal) : Scalar.min x poison = poison := by cases x <;> rfl
@[simp] theorem max_none_left (x : PReal) : Scalar.max poison x = poison := rfl
@[simp] theorem max_none_right (x : PReal) : Scalar.max x poison = poison := by cases x <;> rfl

/-! constants: `T::from_f64(k)` is the expression `k` read with the poisoned operations (a constant `c / 0` would be poison) -/
@[simp] theorem const_eq (k : K) : (Scalar.const k : PReal) = K.eval k := rfl
@[simp] theorem eval_lit (m : Nat) (s : Bool) (e : Nat) : (K.eval (K.lit m s e) : PReal) = ok (OfScientific.ofScientific m s e : ℝ) := rfl
@[simp] theorem eval_add (x y : K) : (K.eval (x + y) : PReal) = K.eval x + K.eval y := rfl
@[simp] theorem eval_sub (x y : K) : (K.eval (x - y) : PReal) = K.eval x - K.eval y := rfl
@[simp] theorem eval_mul (x y : K) : (K.eval (x * y) : PReal) = K.eval x * K.eval y := rfl
@[simp] theorem eval_div (x y : K) : (K.eval (x / y) : PReal) = K.eval x / K.eval y := rfl
@[simp] theorem eval_neg (x : K) : (K.eval (-x) : PReal) = - K.eval x := rfl
@[simp] theorem eval_ofSci (m : Nat) (s : Bool) (e : Nat) : (K.eval (OfScientific.ofScientific m s e : K) : PReal) = ok (OfScientific.ofScientific m s e : ℝ) := rfl

/-! `Angle` / `ViaF64` -/
@[simp] theorem angle_pi : (Angle.pi : PReal) = ok Real.pi := rfl
@[simp] theorem radToDeg_some : Angle.radToDeg (ok a) = ok (a * (180 / Real.pi)) := rfl
@[simp] theorem degToRad_some : Angle.degToRad (ok a) = ok (a * (Real.pi / 180)) := rfl
@[simp] theorem hypot_some : Angle.hypot (ok a) (ok b) = ok (Real.sqrt (a * a + b * b)) := rfl
@[simp] theorem up_eq (x : PReal) : (ViaF64.up x : PReal) = x := rfl
@[simp] theorem down_eq (x : PReal) : (ViaF64.down x : PReal) = x := rfl

/-- `Scalar.clamp` on values -/
theorem clamp_some (v lo hi : ℝ) :
    Scalar.clamp (ok v) (ok lo) (ok hi) = ok (if v < lo then lo else if hi < v then hi else v) := by
  unfold Scalar.clamp
  simp only [lt_some]
  split_ifs <;> rfl

end

/-! ### a value that passes a comparison is not poison -/
theorem ne_none_of_lt_left {x y : PReal} (h : x < y) : x ≠ poison := by
  rintro rfl; exact not_none_lt _ h
theorem ne_none_of_lt_right {x y : PReal} (h : x < y) : y ≠ poison := by
  rintro rfl; exact not_lt_none _ h
theorem ne_none_of_le_left {x y : PReal} (h : x ≤ y) : x ≠ poison := by
  rintro rfl; exact not_none_le _ h
theorem ne_none_of_le_right {x y : PReal} (h : x ≤ y) : y ≠ poison := by
  rintro rfl; exact not_le_none _ h

theorem exists_of_ne_none {x : PReal} (h : x ≠ poison) : ∃ r : ℝ, x = ok r := by
  cases x with
  | none => exact absurd rfl h
  | some r => exact ⟨r, rfl⟩

end PReal

/-! ### colours over `PReal` -/

/-- a real colour read as a poisoned one -/
def V3.lift (c : V3 ℝ) : V3 PReal := ⟨PReal.ok c.c0, PReal.ok c.c1, PReal.ok c.c2⟩

/-- no component is poison -/
def V3.Finite (v : V3 PReal) : Prop := ∃ r : V3 ℝ, v = r.lift

theorem V3.finite_iff (v : V3 PReal) : v.Finite ↔ v.c0 ≠ PReal.poison ∧ v.c1 ≠ PReal.poison ∧ v.c2 ≠ PReal.poison := by
  constructor
  · rintro ⟨r, rfl⟩
    exact ⟨PReal.some_ne_none _, PReal.some_ne_none _, PReal.some_ne_none _⟩
  · rintro ⟨h0, h1, h2⟩
    obtain ⟨a, ha⟩ := PReal.exists_of_ne_none h0
    obtain ⟨b, hb⟩ := PReal.exists_of_ne_none h1
    obtain ⟨c, hc⟩ := PReal.exists_of_ne_none h2
    refine ⟨⟨a, b, c⟩, ?_⟩
    cases v
    simp only at ha hb hc
    subst ha hb hc
    rfl

theorem V3.finite_mk (a b c : ℝ) : V3.Finite (⟨PReal.ok a, PReal.ok b, PReal.ok c⟩ : V3 PReal) := ⟨⟨a, b, c⟩, rfl⟩

/-- a list of components without poison -/
def PReal.AllOk (l : List PReal) : Prop := ∀ x ∈ l, x ≠ PReal.poison

theorem PReal.allOk_map_ok (l : List ℝ) : PReal.AllOk (l.map PReal.ok) := by
  intro x hx
  obtain ⟨a, _, rfl⟩ := List.mem_map.mp hx
  exact PReal.some_ne_none a
