/-
  C12 (packed part) — "packing a color into an integer with any channel order and unpacking it returns the same
  color with each channel in the documented byte position".

  Theorems about `PaletteModel/Packed.lean` over the channel orders `tools/extract.py` regenerates from
  `rgb/channels.rs` and `luma/channels.rs` (`Gen/Channels.lean`).  All statements are for *every* `u32` (`u16`)
  value and every colour; `Nat` arithmetic (`omega`), no bit-blasting.
-/
import PaletteModel.Packed

set_option linter.unusedSimpArgs false

namespace C12
open Packed

/-! ## big-endian bytes ⇄ integer -/

/-- closed forms (kept apart so that the kernel never has to unfold `* 16777216` on a variable) -/
theorem fromBe4 (a b c d : Nat) : fromBeBytes [a, b, c, d] = a * 16777216 + (b * 65536 + (c * 256 + d)) := by
  simp [fromBeBytes]
theorem toBe4 (x : Nat) : toBeBytes 4 x = [x / 16777216 % 256, x / 65536 % 256, x / 256 % 256, x % 256] := by
  simp [toBeBytes]
theorem fromBe2 (a b : Nat) : fromBeBytes [a, b] = a * 256 + b := by
  simp [fromBeBytes]
theorem toBe2 (x : Nat) : toBeBytes 2 x = [x / 256 % 256, x % 256] := by
  simp [toBeBytes]

theorem fromBe_toBe4 (x : Nat) (h : x < 2 ^ 32) : fromBeBytes (toBeBytes 4 x) = x := by
  rw [toBe4, fromBe4]; omega

theorem toBe_fromBe4 (b0 b1 b2 b3 : Nat) (h0 : b0 < 256) (h1 : b1 < 256) (h2 : b2 < 256) (h3 : b3 < 256) :
    toBeBytes 4 (fromBeBytes [b0, b1, b2, b3]) = [b0, b1, b2, b3] := by
  rw [fromBe4, toBe4]; simp only [List.cons.injEq, and_true]; omega

theorem fromBe4_lt (b0 b1 b2 b3 : Nat) (h0 : b0 < 256) (h1 : b1 < 256) (h2 : b2 < 256) (h3 : b3 < 256) :
    fromBeBytes [b0, b1, b2, b3] < 2 ^ 32 := by
  rw [fromBe4]; omega

theorem fromBe_toBe2 (x : Nat) (h : x < 2 ^ 16) : fromBeBytes (toBeBytes 2 x) = x := by
  rw [toBe2, fromBe2]; omega

theorem toBe_fromBe2 (b0 b1 : Nat) (h0 : b0 < 256) (h1 : b1 < 256) : toBeBytes 2 (fromBeBytes [b0, b1]) = [b0, b1] := by
  rw [fromBe2, toBe2]; simp only [List.cons.injEq, and_true]; omega

theorem toBe4_lt (x : Nat) : ∀ b ∈ toBeBytes 4 x, b < 256 := by
  rw [toBe4]; simp only [List.mem_cons, List.not_mem_nil, or_false]; omega

/-! ## the channel orders of the source (decided on `Gen/Channels.lean`) -/

/-- index of the component a letter of an order's name stands for, in `[red, green, blue, alpha]` -/
def rgbaChan (letter : Nat) : Nat :=
  if letter = 82 ∨ letter = 114 then 0 else if letter = 71 ∨ letter = 103 then 1 else if letter = 66 ∨ letter = 98 then 2
  else if letter = 65 ∨ letter = 97 then 3 else 99
/-- in `[luma, alpha]` -/
def lumaChan (letter : Nat) : Nat := if letter = 76 ∨ letter = 108 then 0 else if letter = 65 ∨ letter = 97 then 1 else 99

theorem rgbaChan_R : rgbaChan 82 = 0 := by decide
theorem rgbaChan_r : rgbaChan 114 = 0 := by decide
theorem rgbaChan_G : rgbaChan 71 = 1 := by decide
theorem rgbaChan_g : rgbaChan 103 = 1 := by decide
theorem rgbaChan_B : rgbaChan 66 = 2 := by decide
theorem rgbaChan_b : rgbaChan 98 = 2 := by decide
theorem rgbaChan_A : rgbaChan 65 = 3 := by decide
theorem rgbaChan_a : rgbaChan 97 = 3 := by decide
theorem lumaChan_L : lumaChan 76 = 0 := by decide
theorem lumaChan_l : lumaChan 108 = 0 := by decide
theorem lumaChan_A : lumaChan 65 = 1 := by decide
theorem lumaChan_a : lumaChan 97 = 1 := by decide

/-- four RGBA orders and two luma orders, as the property says -/
theorem order_counts : rgbaOrders.length = 4 ∧ lumaOrders.length = 2 := by decide

/-- **documented position**: an order's name, read left to right, lists the components from the most significant
    byte down (`Argb` = `0xAARRGGBB`, `Al` = `0xAALL`): slot `i` of `pack` holds the component named by letter `i` -/
theorem pack_matches_name : (∀ o ∈ rgbaOrders, o.pack = o.name.map rgbaChan) ∧ (∀ o ∈ lumaOrders, o.pack = o.name.map lumaChan) := by
  decide

/-- `unpack` reads every component from the slot `pack` put it in, and both are permutations -/
def inverse (n : Nat) (o : Order) : Bool :=
  o.pack.length == n && o.unpack.length == n &&
  (List.range n).all (fun k => o.pack.getD (o.unpack.getD k n) n == k) &&
  (List.range n).all (fun i => o.unpack.getD (o.pack.getD i n) n == i)

theorem orders_inverse : (∀ o ∈ rgbaOrders, inverse 4 o = true) ∧ (∀ o ∈ lumaOrders, inverse 2 o = true) := by decide

/-- the plain `From` impls: `Rgb ⇄ u32` is ARGB, `Rgba ⇄ u32` is RGBA, `Luma ⇄ u16` is AL, `Lumaa ⇄ u16` is LA -/
theorem default_orders :
    Gen.Channels.fromU32Rgb = [65, 114, 103, 98] ∧ Gen.Channels.intoU32Rgb = [65, 114, 103, 98] ∧
    Gen.Channels.fromU32Rgba = [82, 103, 98, 97] ∧ Gen.Channels.intoU32Rgba = [82, 103, 98, 97] ∧
    Gen.Channels.fromU16Luma = [65, 108] ∧ Gen.Channels.intoU16Luma = [65, 108] ∧
    Gen.Channels.fromU16Lumaa = [76, 97] ∧ Gen.Channels.intoU16Lumaa = [76, 97] := by decide

/-! ## every order, every colour, every integer -/

/-- `P` of every element, as a conjunction that `simp` can unfold over the generated list -/
def AllP (P : Order → Prop) : List Order → Prop
  | [] => True
  | o :: os => P o ∧ AllP P os

theorem allP_iff {P : Order → Prop} (l : List Order) : (∀ o ∈ l, P o) ↔ AllP P l := by
  induction l with
  | nil => simp [AllP]
  | cons o os ih => simp [AllP, List.forall_mem_cons, ih]

theorem forall_rgbaOrders {P : Order → Prop} : (∀ o ∈ rgbaOrders, P o) ↔ AllP P rgbaOrders := allP_iff _
theorem forall_lumaOrders {P : Order → Prop} : (∀ o ∈ lumaOrders, P o) ↔ AllP P lumaOrders := allP_iff _

/-- array level: `unpack(pack(c)) = c` and `pack(unpack(p)) = p` for each order -/
theorem unpackArr_packArr : ∀ o ∈ rgbaOrders, ∀ r g b a : Nat, unpackArr o (packArr o [r, g, b, a]) = [r, g, b, a] := by
  rw [forall_rgbaOrders]; simp only [rgbaOrders, zip3, Gen.Channels.rgbaOrderNames, Gen.Channels.rgbaPack, Gen.Channels.rgbaUnpack, AllP]
  repeat' constructor
  all_goals intros; rfl

theorem packArr_unpackArr : ∀ o ∈ rgbaOrders, ∀ p0 p1 p2 p3 : Nat, packArr o (unpackArr o [p0, p1, p2, p3]) = [p0, p1, p2, p3] := by
  rw [forall_rgbaOrders]; simp only [rgbaOrders, zip3, Gen.Channels.rgbaOrderNames, Gen.Channels.rgbaPack, Gen.Channels.rgbaUnpack, AllP]
  repeat' constructor
  all_goals intros; rfl

/-- **`unpack ∘ pack = id`, every order, every `Rgba<u8>`** -/
theorem unpackU32_packU32 : ∀ o ∈ rgbaOrders, ∀ r g b a : Nat, r < 256 → g < 256 → b < 256 → a < 256 →
    unpackU32 o (packU32 o [r, g, b, a]) = [r, g, b, a] := by
  rw [forall_rgbaOrders]; simp only [rgbaOrders, zip3, Gen.Channels.rgbaOrderNames, Gen.Channels.rgbaPack, Gen.Channels.rgbaUnpack, AllP]
  repeat' constructor
  all_goals
    intro r g b a hr hg hb ha
    simp only [unpackU32, packU32, unpackArr, packArr, permute, List.map_cons, List.map_nil, List.getD_cons_zero, List.getD_cons_succ, List.getD_nil, fromBe4, toBe4, fromBe2, toBe2, List.cons.injEq, and_true, List.cons_append, List.nil_append, List.take_succ_cons, List.take_zero]
    omega

/-- **`pack ∘ unpack = id`, every order, all 2³² values** -/
theorem packU32_unpackU32 : ∀ o ∈ rgbaOrders, ∀ x : Nat, x < 2 ^ 32 → packU32 o (unpackU32 o x) = x := by
  rw [forall_rgbaOrders]; simp only [rgbaOrders, zip3, Gen.Channels.rgbaOrderNames, Gen.Channels.rgbaPack, Gen.Channels.rgbaUnpack, AllP]
  repeat' constructor
  all_goals
    intro x hx
    simp only [unpackU32, packU32, unpackArr, packArr, permute, List.map_cons, List.map_nil, List.getD_cons_zero, List.getD_cons_succ, List.getD_nil, fromBe4, toBe4, fromBe2, toBe2, List.cons.injEq, and_true, List.cons_append, List.nil_append, List.take_succ_cons, List.take_zero]
    omega

/-- a packed colour is a `u32`, and unpacked components are bytes -/
theorem packU32_lt : ∀ o ∈ rgbaOrders, ∀ r g b a : Nat, r < 256 → g < 256 → b < 256 → a < 256 → packU32 o [r, g, b, a] < 2 ^ 32 := by
  rw [forall_rgbaOrders]; simp only [rgbaOrders, zip3, Gen.Channels.rgbaOrderNames, Gen.Channels.rgbaPack, Gen.Channels.rgbaUnpack, AllP]
  repeat' constructor
  all_goals
    intro r g b a hr hg hb ha
    simp only [packU32, packArr, permute, List.map_cons, List.map_nil, List.getD_cons_zero, List.getD_cons_succ, List.getD_nil, fromBe4, toBe4, fromBe2, toBe2, List.cons.injEq, and_true, List.cons_append, List.nil_append, List.take_succ_cons, List.take_zero]
    omega

/-- **each channel in the documented byte position**: byte `i` (from the most significant) of the packed integer is
    the component named by letter `i` of the order's name, for every order and colour -/
theorem packU32_bytes : ∀ o ∈ rgbaOrders, ∀ r g b a : Nat, r < 256 → g < 256 → b < 256 → a < 256 →
    toBeBytes 4 (packU32 o [r, g, b, a]) = o.name.map (fun l => [r, g, b, a].getD (rgbaChan l) 0) := by
  rw [forall_rgbaOrders]; simp only [rgbaOrders, zip3, Gen.Channels.rgbaOrderNames, Gen.Channels.rgbaPack, Gen.Channels.rgbaUnpack, AllP]
  repeat' constructor
  all_goals
    intro r g b a hr hg hb ha
    simp only [packU32, packArr, permute, rgbaChan_R, rgbaChan_r, rgbaChan_G, rgbaChan_g, rgbaChan_B, rgbaChan_b, rgbaChan_A, rgbaChan_a, List.map_cons, List.map_nil, List.getD_cons_zero, List.getD_cons_succ, List.getD_nil, fromBe4, toBe4, fromBe2, toBe2, List.cons.injEq, and_true, List.cons_append, List.nil_append, List.take_succ_cons, List.take_zero]
    omega

/-- and the other way round: component `rgbaChan (letter i)` of `unpack x` is byte `i` of `x`, all 2³² values -/
theorem unpackU32_bytes : ∀ o ∈ rgbaOrders, ∀ x : Nat,
    o.name.map (fun l => (unpackU32 o x).getD (rgbaChan l) 0) = toBeBytes 4 x := by
  rw [forall_rgbaOrders]; simp only [rgbaOrders, zip3, Gen.Channels.rgbaOrderNames, Gen.Channels.rgbaPack, Gen.Channels.rgbaUnpack, AllP]
  repeat' constructor
  all_goals
    intro x
    simp only [unpackU32, unpackArr, permute, rgbaChan_R, rgbaChan_r, rgbaChan_G, rgbaChan_g, rgbaChan_B, rgbaChan_b, rgbaChan_A, rgbaChan_a, List.map_cons, List.map_nil, List.getD_cons_zero, List.getD_cons_succ, List.getD_nil, fromBe4, toBe4, fromBe2, toBe2, List.cons.injEq, and_true, List.cons_append, List.nil_append, List.take_succ_cons, List.take_zero]

/-! ## luma: two orders, `u16` -/

theorem unpackU16_packU16 : ∀ o ∈ lumaOrders, ∀ l a : Nat, l < 256 → a < 256 → unpackU16 o (packU16 o [l, a]) = [l, a] := by
  rw [forall_lumaOrders]; simp only [lumaOrders, zip3, Gen.Channels.lumaOrderNames, Gen.Channels.lumaPack, Gen.Channels.lumaUnpack, AllP]
  repeat' constructor
  all_goals
    intro l a hl ha
    simp only [unpackU16, packU16, unpackArr, packArr, permute, List.map_cons, List.map_nil, List.getD_cons_zero, List.getD_cons_succ, List.getD_nil, fromBe4, toBe4, fromBe2, toBe2, List.cons.injEq, and_true, List.cons_append, List.nil_append, List.take_succ_cons, List.take_zero]
    omega

theorem packU16_unpackU16 : ∀ o ∈ lumaOrders, ∀ x : Nat, x < 2 ^ 16 → packU16 o (unpackU16 o x) = x := by
  rw [forall_lumaOrders]; simp only [lumaOrders, zip3, Gen.Channels.lumaOrderNames, Gen.Channels.lumaPack, Gen.Channels.lumaUnpack, AllP]
  repeat' constructor
  all_goals
    intro x hx
    simp only [unpackU16, packU16, unpackArr, packArr, permute, List.map_cons, List.map_nil, List.getD_cons_zero, List.getD_cons_succ, List.getD_nil, fromBe4, toBe4, fromBe2, toBe2, List.cons.injEq, and_true, List.cons_append, List.nil_append, List.take_succ_cons, List.take_zero]
    omega

theorem packU16_bytes : ∀ o ∈ lumaOrders, ∀ l a : Nat, l < 256 → a < 256 →
    toBeBytes 2 (packU16 o [l, a]) = o.name.map (fun c => [l, a].getD (lumaChan c) 0) := by
  rw [forall_lumaOrders]; simp only [lumaOrders, zip3, Gen.Channels.lumaOrderNames, Gen.Channels.lumaPack, Gen.Channels.lumaUnpack, AllP]
  repeat' constructor
  all_goals
    intro l a hl ha
    simp only [packU16, packArr, permute, lumaChan_L, lumaChan_l, lumaChan_A, lumaChan_a, List.map_cons, List.map_nil, List.getD_cons_zero, List.getD_cons_succ, List.getD_nil, fromBe4, toBe4, fromBe2, toBe2, List.cons.injEq, and_true, List.cons_append, List.nil_append, List.take_succ_cons, List.take_zero]
    omega

/-! ## the plain integers: `From<u32>` and friends, in the documented layout -/

def argb : Order := defaultOrder rgbaOrders Gen.Channels.fromU32Rgb
def rgba : Order := defaultOrder rgbaOrders Gen.Channels.fromU32Rgba

theorem default_orders_exist : argb ∈ rgbaOrders ∧ rgba ∈ rgbaOrders ∧
    defaultOrder rgbaOrders Gen.Channels.intoU32Rgb = argb ∧ defaultOrder rgbaOrders Gen.Channels.intoU32Rgba = rgba := by decide

theorem argb_perm : argb.pack = [3, 0, 1, 2] ∧ argb.unpack = [1, 2, 3, 0] := by decide
theorem rgba_perm : rgba.pack = [0, 1, 2, 3] ∧ rgba.unpack = [0, 1, 2, 3] := by decide

/-- `Srgb::from(0xAARRGGBB)`: red, green, blue are bytes 1, 2, 3; the top byte is ignored -/
theorem rgb_from_u32 (x : Nat) : rgbFromU32 argb x = [x / 2 ^ 16 % 256, x / 2 ^ 8 % 256, x % 256] := by
  simp only [rgbFromU32, unpackU32, unpackArr, permute, argb_perm.2, List.map_cons, List.map_nil, List.getD_cons_zero, List.getD_cons_succ, fromBe4, toBe4, List.cons_append, List.nil_append, List.take_succ_cons, List.take_zero, Nat.reducePow]

/-- `u32::from(Srgb)`: `0xFFRRGGBB` -/
theorem rgb_into_u32 (r g b : Nat) : rgbIntoU32 argb [r, g, b] = 255 * 2 ^ 24 + r * 2 ^ 16 + g * 2 ^ 8 + b := by
  simp only [rgbIntoU32, packU32, packArr, permute, withAlpha, argb_perm.1, List.map_cons, List.map_nil, List.getD_cons_zero, List.getD_cons_succ, fromBe4, toBe4, List.cons_append, List.nil_append, List.take_succ_cons, List.take_zero, Nat.reducePow]
  omega

/-- `Srgba::from(0xRRGGBBAA)` and back -/
theorem rgba_from_u32 (x : Nat) : unpackU32 rgba x = [x / 2 ^ 24 % 256, x / 2 ^ 16 % 256, x / 2 ^ 8 % 256, x % 256] := by
  simp only [unpackU32, unpackArr, permute, rgba_perm.2, List.map_cons, List.map_nil, List.getD_cons_zero, List.getD_cons_succ, fromBe4, toBe4, List.cons_append, List.nil_append, List.take_succ_cons, List.take_zero, Nat.reducePow]

theorem rgba_into_u32 (r g b a : Nat) : packU32 rgba [r, g, b, a] = r * 2 ^ 24 + g * 2 ^ 16 + b * 2 ^ 8 + a := by
  simp only [packU32, packArr, permute, rgba_perm.1, List.map_cons, List.map_nil, List.getD_cons_zero, List.getD_cons_succ, fromBe4, toBe4, List.cons_append, List.nil_append, List.take_succ_cons, List.take_zero, Nat.reducePow]
  omega

/-- an `Rgb` survives the trip through any order: packing adds alpha `0xFF`, unpacking drops it -/
theorem rgbFromU32_rgbIntoU32 : ∀ o ∈ rgbaOrders, ∀ r g b : Nat, r < 256 → g < 256 → b < 256 →
    rgbFromU32 o (rgbIntoU32 o [r, g, b]) = [r, g, b] := by
  intro o ho r g b hr hg hb
  have := unpackU32_packU32 o ho r g b 255 hr hg hb (by decide)
  simp only [rgbFromU32, rgbIntoU32, withAlpha, List.cons_append, List.nil_append, this, List.take]

-- non-vacuity / the crate's own documentation examples
example : packU32 rgba [96, 127, 0, 255] = 0x607F00FF := by decide
example : rgbIntoU32 argb [96, 127, 0] = 0xFF607F00 := by decide
example : rgbFromU32 argb 0x607F00 = [96, 127, 0] := by decide
example : ∃ o ∈ rgbaOrders, o.name = [65, 98, 103, 114] ∧ packU32 o [1, 2, 3, 4] = 0x04030201 := by decide   -- Abgr

end C12
