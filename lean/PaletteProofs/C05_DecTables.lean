/-
  C05: kernel evaluation of the decode-table checks of `Lemmas/C05_DecCheck.lean` over the tables regenerated from /repo
  (`Gen/Lut.lean`): all 256 codes × 4 encodings × (f32, f64).  Read at ℝ in `C05_DecBound.lean`.
-/
import PaletteProofs.Lemmas.C05_DecCheck

namespace C05D
open Lut

set_option maxRecDepth 100000 in
theorem srgb_dec32 : allBelow (code32OK .srgb) 256 = true := by decide +kernel
set_option maxRecDepth 100000 in
theorem rec_dec32 : allBelow (code32OK .recOetf) 256 = true := by decide +kernel
set_option maxRecDepth 100000 in
theorem adobe_dec32 : allBelow (code32OK .adobeRgb) 256 = true := by decide +kernel
set_option maxRecDepth 100000 in
theorem p3_dec32 : allBelow (code32OK .p3Gamma) 256 = true := by decide +kernel
set_option maxRecDepth 100000 in
theorem srgb_dec64 : allBelow (code64OK .srgb) 256 = true := by decide +kernel
set_option maxRecDepth 100000 in
theorem rec_dec64 : allBelow (code64OK .recOetf) 256 = true := by decide +kernel
set_option maxRecDepth 100000 in
theorem adobe_dec64 : allBelow (code64OK .adobeRgb) 256 = true := by decide +kernel
set_option maxRecDepth 100000 in
theorem p3_dec64 : allBelow (code64OK .p3Gamma) 256 = true := by decide +kernel

end C05D
