/-
  C18 — the nesting of `Alpha`: the nested model of `Alpha<Color<Vec<T>>, Vec<A>>` (`PaletteModel/SoaNested.lean`: the
  colour type's own `k`-column collection and one alpha vector, driven in lockstep as the macro does) **is** the flat
  `(k+1)`-column model of `PaletteModel/Soa.lean`, for every operation of the history language, on every state
  (`nstep_refines`), hence for every history (`nrun_refines`); with `C18_Soa.lean` it therefore behaves like a plain
  vector of colours-with-alpha and keeps all `k + 1` component collections at one length (`nested_*`).
-/
import PaletteProofs.C18_Soa
import PaletteModel.SoaNested

namespace C18
open Soa

variable {α : Type} {k : Nat}

/-! ## `allSome` over one more column -/

theorem allSome_eq_some_iff {β : Type} (v : Vector (Option β) k) (r : Vector β k) :
    allSome v = some r ↔ ∀ i (h : i < k), v[i] = some r[i] := by
  unfold allSome
  split
  · rename_i h
    constructor
    · intro e i hi
      simp only [Option.some.injEq] at e
      subst e
      simp
    · intro H
      congr 1
      apply Vector.ext
      intro i hi
      simp [H i hi]
  · rename_i h
    constructor
    · intro e; cases e
    · intro H
      exact absurd (fun i : Fin k => by simp [H i.val i.isLt]) h

theorem allSome_push {β : Type} (v : Vector (Option β) k) (x : Option β) : allSome (v.push x) = joinItem (allSome v) x := by
  cases hv : allSome v with
  | none =>
    obtain ⟨i, hi, e⟩ := (allSome_eq_none_iff v).mp hv
    simp only [joinItem]
    exact (allSome_eq_none_iff _).mpr ⟨i, by omega, by simp [Vector.getElem_push_lt hi, e]⟩
  | some r =>
    cases x with
    | none =>
      simp only [joinItem]
      exact (allSome_eq_none_iff _).mpr ⟨k, by omega, by simp⟩
    | some a =>
      simp only [joinItem]
      rw [allSome_eq_some_iff]
      intro i hi
      by_cases hik : i < k
      · simp [Vector.getElem_push_lt hik, (allSome_eq_some_iff v r).mp hv i hik]
      · have : i = k := by omega
        subst this
        simp

theorem firstLen_push (hk : 0 < k) (c : Cols α k) (a : List α) : firstLen (c.push a) = firstLen c := by
  simp [firstLen, hk, Vector.getElem_push_lt hk]

/-- a vector of `k + 1` entries is its first `k` and its last -/
theorem ext_push {β : Type} (v : Vector β (k + 1)) (c : Vector β k) (a : β)
    (h1 : ∀ j (h : j < k), v[j] = c[j]) (h2 : v[k] = a) : v = c.push a := by
  apply Vector.ext
  intro j hj
  by_cases hjk : j < k
  · simp [Vector.getElem_push_lt hjk, h1 j hjk]
  · have : j = k := by omega
    subst this
    simp [h2]

theorem row_split (r : Row α (k + 1)) : r = (rowColor r).push (rowAlpha r) :=
  ext_push r _ _ (by intro j h; simp [rowColor]) rfl

/-! ## `alpha::Iter` is the flat iterator over `k + 1` columns -/

def flatZip (z : NZip α k) : Zip α (k + 1) :=
  { pre := z.color.pre.push z.pre, rest := z.color.rest.push z.rest, post := z.color.post.push z.post }

theorem nnext_refines (z : NZip α k) (w : Option (Row α (k + 1))) :
    (flatZip z).next w = (flatZip (z.next w).1, (z.next w).2) := by
  obtain ⟨⟨cpre, crest, cpost⟩, pre, rest, post⟩ := z
  have hitem : allSome ((crest.push rest).map List.head?) = joinItem (allSome (crest.map List.head?)) rest.head? := by
    rw [Vector.map_push, allSome_push]
  simp only [Zip.next, NZip.next, flatZip, hitem]
  refine Prod.ext ?_ rfl
  apply zip_ext
  · apply ext_push
    · intro j hj
      simp only [Vector.getElem_ofFn, Vector.getElem_map, Vector.getElem_push_lt hj]
      cases hh : (crest[j]).head? with
      | none => rfl
      | some x =>
        cases allSome (crest.map List.head?) <;> cases rest.head? <;> cases w <;> simp [joinItem, rowColor]
    · simp only [Vector.getElem_ofFn, Vector.getElem_map, Vector.getElem_push_eq]
      generalize joinItem (allSome (crest.map List.head?)) rest.head? = it
      cases rest.head? <;> cases it <;> cases w <;> rfl
  · simp only [Vector.map_push]
  · rfl

theorem nnextBack_refines (z : NZip α k) (w : Option (Row α (k + 1))) :
    (flatZip z).nextBack w = (flatZip (z.nextBack w).1, (z.nextBack w).2) := by
  obtain ⟨⟨cpre, crest, cpost⟩, pre, rest, post⟩ := z
  have hitem : allSome ((crest.push rest).map List.getLast?) = joinItem (allSome (crest.map List.getLast?)) rest.getLast? := by
    rw [Vector.map_push, allSome_push]
  simp only [Zip.nextBack, NZip.nextBack, flatZip, hitem]
  refine Prod.ext ?_ rfl
  apply zip_ext
  · rfl
  · simp only [Vector.map_push]
  · apply ext_push
    · intro j hj
      simp only [Vector.getElem_ofFn, Vector.getElem_map, Vector.getElem_push_lt hj]
      cases hh : (crest[j]).getLast? with
      | none => rfl
      | some x =>
        cases allSome (crest.map List.getLast?) <;> cases rest.getLast? <;> cases w <;> simp [joinItem, rowColor]
    · simp only [Vector.getElem_ofFn, Vector.getElem_map, Vector.getElem_push_eq]
      generalize joinItem (allSome (crest.map List.getLast?)) rest.getLast? = it
      cases rest.getLast? <;> cases it <;> cases w <;> rfl

theorem nzipStep_refines (hk : 0 < k) (z : NZip α k) (st : Step α (k + 1)) :
    (flatZip z).step st = (flatZip (z.step st).1, (z.step st).2) := by
  cases st with
  | next w => simp [Zip.step, NZip.step, nnext_refines]
  | nextBack w => simp [Zip.step, NZip.step, nnextBack_refines]
  | len => simp [Zip.step, NZip.step, Zip.len, flatZip, firstLen_push hk]
  | sizeHint => simp [Zip.step, NZip.step, Zip.sizeHint, flatZip, firstLen_push hk]
  | count => simp [Zip.step, NZip.step, Zip.count, flatZip, firstLen_push hk]

theorem nzipRun_refines (hk : 0 < k) (z : NZip α k) (script : List (Step α (k + 1))) :
    (flatZip z).run script = (flatZip (z.run script).1, (z.run script).2) := by
  induction script generalizing z with
  | nil => rfl
  | cons st t ih => simp [Zip.run, NZip.run, nzipStep_refines hk, ih]

theorem nclose_refines (z : NZip α k) : (flatZip z).close = (z.close).flat := by
  apply ext_push
  · intro j hj; simp [Zip.close, flatZip, NZip.close, Vector.getElem_push_lt hj]
  · simp [Zip.close, flatZip, NZip.close]

theorem ofCols_push (c : Cols α k) (a : List α) : Zip.ofCols (c.push a) = flatZip (NZip.ofParts c a) := by
  apply zip_ext <;> simp [Zip.ofCols, flatZip, NZip.ofParts]

theorem nrunRead_refines (hk : 0 < k) (c : Cols α k) (a : List α) (script : List (Step α (k + 1))) :
    runRead (c.push a) script = nrunRead c a script := by
  simp [runRead, nrunRead, ofCols_push, nzipRun_refines hk]

/-! ## one operation -/

theorem pushRow_push (c : Cols α k) (a : List α) (r : Row α (k + 1)) :
    pushRow (c.push a) r = (pushRow c (rowColor r)).push (a ++ [rowAlpha r]) := by
  apply ext_push
  · intro j hj; simp [pushRow, rowColor, Vector.getElem_push_lt hj]
  · simp [pushRow, rowAlpha]

theorem extendRows_push (c : Cols α k) (a : List α) (rs : List (Row α (k + 1))) :
    extendRows (c.push a) rs = (nextend ⟨c, a⟩ rs).flat := by
  induction rs generalizing c a with
  | nil => rfl
  | cons r t ih =>
    simp only [extendRows, nextend, List.foldl_cons] at ih ⊢
    rw [pushRow_push, ih]
    rfl

theorem emptyCols_push : emptyCols α (k + 1) = (emptyCols α k).push [] := by
  apply ext_push <;> simp [emptyCols]

theorem panic_all_false {β : Type} {m : Nat} (res : Vector (Option β) m) (i j : Nat) (hi : i < m) (hij : i ≤ j) (e : res[i] = none) :
    (List.range (j + 1)).all (fun i => (res.toList[i]?.join).isSome) = false := by
  apply Bool.eq_false_iff.mpr
  intro H
  have := List.all_eq_true.mp H i (List.mem_range.mpr (by omega))
  simp [hi, e] at this

theorem panic_all_true {β : Type} {m : Nat} (res : Vector (Option β) m) (v : Vector β m) (h : allSome res = some v) (j : Nat) (hj : j < m) :
    (List.range (j + 1)).all (fun i => (res.toList[i]?.join).isSome) = true := by
  apply List.all_eq_true.mpr
  intro i hi
  have hi' : i < m := by have := List.mem_range.mp hi; omega
  simp [hi', (allSome_eq_some_iff res v).mp h i hi']

/-- when every column's `Vec::drain` succeeded there is no panic state: the drained columns -/
theorem drainPanicState_all {m : Nat} (c : Cols α m) (res : Vector (Option (List α × List α)) m) (v : Vector (List α × List α) m)
    (h : allSome res = some v) : drainPanicState c res = v.map (·.1) := by
  apply Vector.ext
  intro j hj
  simp only [drainPanicState, Vector.getElem_ofFn, panic_all_true res v h j hj, ↓reduceIte, (allSome_eq_some_iff res v).mp h j hj,
    Vector.getElem_map]

theorem drainPanicState_push_lt (c : Cols α k) (a : List α) (resC : Vector (Option (List α × List α)) k) (ra : Option (List α × List α))
    (j : Nat) (hj : j < k) : (drainPanicState (c.push a) (resC.push ra))[j] = (drainPanicState c resC)[j] := by
  have hall : (List.range (j + 1)).all (fun i => (((resC.push ra).toList)[i]?.join).isSome)
      = (List.range (j + 1)).all (fun i => ((resC.toList)[i]?.join).isSome) := by
    rw [Bool.eq_iff_iff, List.all_eq_true, List.all_eq_true]
    have key : ∀ i ∈ List.range (j + 1), ((resC.push ra).toList)[i]? = (resC.toList)[i]? := by
      intro i hi
      have hi' : i < k := by have := List.mem_range.mp hi; omega
      simp [Vector.toList_push, List.getElem?_append_left, hi']
    constructor
    · intro H i hi; rw [← key i hi]; exact H i hi
    · intro H i hi; rw [key i hi]; exact H i hi
  simp only [drainPanicState, Vector.getElem_ofFn, hall, Vector.getElem_push_lt hj]

theorem drainPanicState_push_last (c : Cols α k) (a : List α) (resC : Vector (Option (List α × List α)) k) (ra : Option (List α × List α))
    (h : allSome (resC.push ra) = none) : (drainPanicState (c.push a) (resC.push ra))[k] = a := by
  obtain ⟨i, hi, e⟩ := (allSome_eq_none_iff _).mp h
  simp only [drainPanicState, Vector.getElem_ofFn, panic_all_false (resC.push ra) i k hi (by omega) e, Bool.false_eq_true, ↓reduceIte,
    Vector.getElem_push_eq]

theorem drainPanicState_push (c : Cols α k) (a : List α) (resC : Vector (Option (List α × List α)) k) (ra : Option (List α × List α))
    (h : allSome (resC.push ra) = none) : drainPanicState (c.push a) (resC.push ra) = (drainPanicState c resC).push a :=
  ext_push _ _ _ (fun j hj => drainPanicState_push_lt c a resC ra j hj) (drainPanicState_push_last c a resC ra h)

theorem forgetCol_none_iff (r : Rng) (x : List α) : forgetCol r x = none ↔ drainCol r x = none := by
  simp [forgetCol, drainCol]

theorem allSome_forget_drain {m : Nat} (r : Rng) (c : Cols α m) :
    allSome (c.map (forgetCol r)) = none ↔ allSome (c.map (drainCol r)) = none := by
  simp only [allSome_eq_none_iff, Vector.getElem_map, forgetCol_none_iff]

theorem nstep_refines (hk : 0 < k) (n : Nest α k) (op : Op α (k + 1)) :
    step n.flat op = ((nstep n op).1.flat, (nstep n op).2) := by
  obtain ⟨c, a⟩ := n
  cases op with
  | push r => simp [step, nstep, Nest.flat, pushRow_push]
  | pop => simp [step, nstep, Nest.flat, Vector.map_push, allSome_push, itemOf]
  | extend rs => simp [step, nstep, Nest.flat, extendRows_push]
  | collect rs =>
    simp only [step, nstep, Nest.flat]
    rw [emptyCols_push, extendRows_push]
    rfl
  | withCapacity => simp [step, nstep, Nest.flat, emptyCols_push]
  | clear => simp [step, nstep, Nest.flat, Vector.map_push]
  | drain r script =>
    simp only [step, nstep, Nest.flat, Vector.map_push, allSome_push]
    cases h1 : allSome (c.map (drainCol r)) with
    | none =>
      simp only [joinItem]
      rw [drainPanicState_push _ _ _ _ (by rw [allSome_push, h1]; rfl)]
    | some v =>
      cases h2 : drainCol r a with
      | none =>
        simp only [joinItem]
        rw [drainPanicState_push _ _ _ _ (by rw [allSome_push, h1]; rfl), drainPanicState_all _ _ _ h1]
      | some pa =>
        simp only [joinItem, Vector.map_push, nrunRead_refines hk]
  | get i => simp [step, nstep, Nest.flat, Vector.map_push, allSome_push, itemOf]
  | getRange r script =>
    simp only [step, nstep, Nest.flat, Vector.map_push, allSome_push]
    cases allSome (c.map (sliceCol r)) <;> cases sliceCol r a <;> simp [joinItem, nrunRead_refines hk]
  | getMut i w =>
    simp only [step, nstep, Nest.flat, Vector.map_push, allSome_push, itemOf]
    cases h1 : allSome (c.map (·[i]?)) with
    | none => simp [joinItem]
    | some oc =>
      cases h2 : a[i]? with
      | none => simp [joinItem]
      | some oa =>
        simp only [joinItem]
        refine Prod.ext ?_ rfl
        apply ext_push
        · intro j hj; simp [rowColor, Vector.getElem_push_lt hj]
        · simp [rowAlpha]
  | getMutRange r script =>
    simp only [step, nstep, Nest.flat, Vector.map_push, allSome_push]
    cases allSome (c.map (splitCol r)) with
    | none => simp [joinItem]
    | some v =>
      cases splitCol r a with
      | none => simp [joinItem]
      | some pa =>
        simp only [joinItem, Vector.map_push]
        have e : Zip.mk ((v.map (·.1)).push pa.1) ((v.map (·.2.1)).push pa.2.1) ((v.map (·.2.2)).push pa.2.2)
            = flatZip (NZip.mk (Zip.mk (v.map (·.1)) (v.map (·.2.1)) (v.map (·.2.2))) pa.1 pa.2.1 pa.2.2) := rfl
        rw [e, nzipRun_refines hk, nclose_refines]
        rfl
  | iter script => simp [step, nstep, Nest.flat, nrunRead_refines hk]
  | iterMut script => simp [step, nstep, Nest.flat, ofCols_push, nzipRun_refines hk, nclose_refines]
  | rev => simp [step, nstep, Nest.flat, fullBack, firstLen_push hk, nrunRead_refines hk]
  | intoIter => simp [step, nstep, Nest.flat, fullFwd, firstLen_push hk, nrunRead_refines hk]
  | len => simp [step, nstep, Nest.flat, firstLen_push hk, Vector.map_push]
  | forgetDrain r script =>
    simp only [step, nstep, Nest.flat, Vector.map_push, allSome_push]
    cases h1 : allSome (c.map (forgetCol r)) with
    | none =>
      have h1' := (allSome_forget_drain r c).mp h1
      simp only [joinItem]
      rw [drainPanicState_push _ _ _ _ (by rw [allSome_push, h1']; rfl)]
    | some v =>
      cases h1' : allSome (c.map (drainCol r)) with
      | none => rw [(allSome_forget_drain r c).mpr h1'] at h1; cases h1
      | some v' =>
        cases h2 : forgetCol r a with
        | none =>
          have h2' := (forgetCol_none_iff r a).mp h2
          simp only [joinItem]
          rw [drainPanicState_push _ _ _ _ (by rw [allSome_push, h1', h2']; rfl), drainPanicState_all _ _ _ h1']
        | some pa =>
          simp only [joinItem, Vector.map_push, nrunRead_refines hk]

/-! ## histories; the nested collection behaves like a vector of colours-with-alpha -/

/-- arbitrary histories: the nested model is the flat model -/
theorem nrun_refines (hk : 0 < k) (n : Nest α k) (ops : List (Op α (k + 1))) :
    run n.flat ops = ((nrun n ops).1.flat, (nrun n ops).2) := by
  induction ops generalizing n with
  | nil => rfl
  | cons o t ih => simp [run, nrun, nstep_refines hk, ih]

theorem emptyNest_flat : (emptyNest α k).flat = emptyCols α (k + 1) := emptyCols_push.symm

/-- all `k + 1` component collections have one length ⇔ the colour's columns have one length and the alpha vector has it too -/
theorem eqLen_flat_iff (hk : 0 < k) (n : Nest α k) : EqLen n.flat ↔ EqLen n.color ∧ n.alpha.length = firstLen n.color := by
  obtain ⟨c, a⟩ := n
  simp only [Nest.flat, firstLen, hk, ↓reduceDIte]
  constructor
  · intro h
    refine ⟨fun i j hi hj => ?_, ?_⟩
    · have := h i j (by omega) (by omega)
      simpa [Vector.getElem_push_lt hi, Vector.getElem_push_lt hj] using this
    · have := h k 0 (by omega) (by omega)
      simpa [Vector.getElem_push_lt hk] using this
  · rintro ⟨h1, h2⟩ i j hi hj
    have key : ∀ i (hi : i < k + 1), ((c.push a)[i]).length = (c[0]).length := by
      intro i hi
      by_cases hik : i < k
      · simpa [Vector.getElem_push_lt hik] using h1 i 0 hik hk
      · have : i = k := by omega
        subst this
        simpa using h2
    rw [key i hi, key j hj]

/-- **invariant**: after any history from an equal-length state the colour's `k` columns and the alpha vector have one length -/
theorem nested_invariant (hk : 0 < k) (n : Nest α k) (h : EqLen n.flat) (ops : List (Op α (k + 1))) :
    EqLen (nrun n ops).1.flat := by
  have := invariant_run (Nat.succ_pos k) n.flat h ops
  rwa [nrun_refines hk] at this

/-- **refinement**: the nested collection yields exactly the observations of a plain vector of colours-with-alpha and
    holds the same colours afterwards, for every history -/
theorem nested_refinement_run (hk : 0 < k) (n : Nest α k) (h : EqLen n.flat) (ops : List (Op α (k + 1))) :
    (nrun n ops).2 = (runRef (rowsOf n.flat) ops).2 ∧ rowsOf (nrun n ops).1.flat = (runRef (rowsOf n.flat) ops).1 := by
  have := refinement_run (Nat.succ_pos k) n.flat h ops
  rwa [nrun_refines hk] at this

/-- from `Alpha::with_capacity` / `FromIterator`, as the driver replays it -/
theorem nested_from_empty (hk : 0 < k) (ops : List (Op α (k + 1))) :
    (nrun (emptyNest α k) ops).2 = (runRef ([] : List (Row α (k + 1))) ops).2 ∧
    (nrun (emptyNest α k) ops).1.flat = colsOf (runRef ([] : List (Row α (k + 1))) ops).1 := by
  have := refinement_from_empty (α := α) (Nat.succ_pos k) ops
  rwa [← emptyNest_flat, nrun_refines hk] at this

/-- the lengths: every colour column and the alpha vector have the reference vector's length -/
theorem nested_lengths_from_empty (hk : 0 < k) (ops : List (Op α (k + 1))) :
    (∀ j (hj : j < k), ((nrun (emptyNest α k) ops).1.color[j]).length = (runRef ([] : List (Row α (k + 1))) ops).1.length) ∧
    (nrun (emptyNest α k) ops).1.alpha.length = (runRef ([] : List (Row α (k + 1))) ops).1.length := by
  have h := (nested_from_empty hk ops).2
  constructor
  · intro j hj
    have : ((nrun (emptyNest α k) ops).1.flat[j]).length = (runRef ([] : List (Row α (k + 1))) ops).1.length := by rw [h]; simp
    simpa [Nest.flat, Vector.getElem_push_lt hj] using this
  · have : ((nrun (emptyNest α k) ops).1.flat[k]).length = (runRef ([] : List (Row α (k + 1))) ops).1.length := by rw [h]; simp
    simpa [Nest.flat] using this

/-! ## non-vacuity -/

/-- Hsva-shaped data (hue + 2 elements, and the alpha vector): a partially consumed drain, a leaked drain, a write through
    `iter_mut` -/
example :
    (nrun (emptyNest Nat 3)
      [.extend [#v[1, 2, 3, 4], #v[5, 6, 7, 8], #v[9, 10, 11, 12], #v[13, 14, 15, 16]],
       .drain (.range 1 3) [.next none, .sizeHint], .push #v[17, 18, 19, 20], .len,
       .iterMut [.nextBack (some #v[0, 0, 0, 0]), .count], .forgetDrain (.from 1) [.next none], .len, .get 0]).2
    = [.unit, .steps [.item (some #v[5, 6, 7, 8]), .hint 1 (some 1)], .unit, .lens 3 #v[3, 3, 3, 3],
       .steps [.item (some #v[17, 18, 19, 20]), .count 2], .steps [.item (some #v[13, 14, 15, 16])], .lens 1 #v[1, 1, 1, 1],
       .item (some #v[1, 2, 3, 4])] := by
  decide +kernel

example : EqLen (emptyNest Nat 3).flat := by rw [emptyNest_flat]; exact eqLen_empty
/-- a nested state whose alpha vector is shorter is not an equal-length state (and the refinement to the *flat* model
    still holds there: `nstep_refines` has no `EqLen` hypothesis) -/
example : ¬ EqLen (Nest.flat (⟨#v[[1, 2], [3, 4]], [5]⟩ : Nest Nat 2)) := by
  intro h; have := h 0 2 (by decide) (by decide); simp [Nest.flat] at this

/-! ## the nested states that correspond to vectors of colours-with-alpha -/

/-- the nested collection holding the colours `rs`: colour columns of the colour parts, alpha vector of the alpha parts -/
def nestOf (rs : List (Row α (k + 1))) : Nest α k := { color := colsOf (rs.map rowColor), alpha := rs.map rowAlpha }

theorem nestOf_flat (rs : List (Row α (k + 1))) : (nestOf rs).flat = colsOf rs := by
  symm
  apply ext_push
  · intro j hj; simp [nestOf, rowColor]
  · simp [nestOf, rowAlpha]

/-- equal-length nested states are exactly these -/
theorem exists_nestOf (n : Nest α k) (h : EqLen n.flat) : ∃ rs : List (Row α (k + 1)), n = nestOf rs := by
  obtain ⟨rs, e⟩ := exists_rows (Nat.succ_pos k) n.flat h
  refine ⟨rs, ?_⟩
  have e' : n.flat = (nestOf rs).flat := by rw [e, nestOf_flat]
  obtain ⟨c, a⟩ := n
  simp only [Nest.flat, nestOf] at e'
  have h1 : c = colsOf (rs.map rowColor) := by
    apply Vector.ext
    intro j hj
    have := congrArg (fun v : Cols α (k + 1) => v[j]) e'
    simpa [Vector.getElem_push_lt hj] using this
  have h2 : a = rs.map rowAlpha := by
    have := congrArg (fun v : Cols α (k + 1) => v[k]) e'
    simpa using this
  simp [nestOf, h1, h2]

theorem flatZip_nestOf (rs : List (Row α (k + 1))) :
    flatZip (NZip.ofParts (nestOf rs).color (nestOf rs).alpha) = zipOf (RZip.mk [] rs []) := by
  rw [← ofCols_push, ← ofCols_colsOf]
  exact congrArg Zip.ofCols (nestOf_flat rs)

example : (nestOf [#v[1, 2, 3], #v[4, 5, 6]] : Nest Nat 2).color = #v[[1, 4], [2, 5]] ∧ (nestOf [#v[1, 2, 3], #v[4, 5, 6]] : Nest Nat 2).alpha = [3, 6] := by
  decide +kernel

end C18
