/-
  Source-text tie of the struct-of-arrays collections (C18), part 1: `rgb`.

  `Gen/BodiesSoa.lean` is regenerated on every run from the *current* text of `palette/src/macros/struct_of_arrays.rs` (the four
  macros, expanded at the actual invocations of one type per shape) and of `alpha::Iter` / `Extend` / `FromIterator` in
  `alpha/alpha.rs` (tools/rust2lean_soa.py).  Each theorem `tie_<name>` states that the translated body, *for every component type
  and every state*, is the model function the driver executes and the C18 theorems are about: one operation of `Soa.step`
  (PaletteModel/Soa.lean) resp. `Soa.nstep` (SoaNested.lean), or one step of the model iterators `Soa.Zip` / `Soa.NZip`.
  The translated term keeps the statement order of the Rust body (state passing), so the ties say in particular: the columns are
  walked in the order (hue, elements.., alpha); the same index / range goes to every column; `next()` of every column is taken
  before the all-`Some` test; a panic of `Vec::drain` in column `j` leaves the columns before `j` drained and the others untouched
  (`Soa.drainPanicState`), and in `Alpha` the colour's drain comes first.  Proofs: case split on the literal column vector,
  unfolding, `simp` with the literal-vector lemmas of `Lemmas/SoaTie.lean`.
-/
import PaletteModel.Gen.BodiesSoa
import PaletteProofs.Lemmas.SoaTie

namespace Tie
open Soa SoaPrim SoaTie

variable {α : Type}

set_option linter.unusedSimpArgs false

/-! ## `rgb`: 3 columns -/

theorem tie_rgbIntoIterArr (c : Cols α 3) : toZip (Gen.BodySoa.rgbIntoIterArr c) = Soa.Zip.ofCols c := by
  obtain ⟨a, b, c, rfl⟩ := vec3_cases c
  simp [Gen.BodySoa.rgbIntoIterArr, toZip, Zip.ofCols, colIntoIter]

theorem tie_rgbIntoIterSlice (c : Cols α 3) : toZip (Gen.BodySoa.rgbIntoIterSlice c) = Soa.Zip.ofCols c := by
  obtain ⟨a, b, c, rfl⟩ := vec3_cases c
  simp [Gen.BodySoa.rgbIntoIterSlice, toZip, Zip.ofCols, colIntoIter]

theorem tie_rgbIntoIterSliceMut (c : Cols α 3) : toZip (Gen.BodySoa.rgbIntoIterSliceMut c) = Soa.Zip.ofCols c := by
  obtain ⟨a, b, c, rfl⟩ := vec3_cases c
  simp [Gen.BodySoa.rgbIntoIterSliceMut, toZip, Zip.ofCols, colIntoIter]

theorem tie_rgbIntoIterVec (c : Cols α 3) : toZip (Gen.BodySoa.rgbIntoIterVec c) = Soa.Zip.ofCols c := by
  obtain ⟨a, b, c, rfl⟩ := vec3_cases c
  simp [Gen.BodySoa.rgbIntoIterVec, toZip, Zip.ofCols, colIntoIter]

theorem tie_rgbIntoIterRefArr (c : Cols α 3) : toZip (Gen.BodySoa.rgbIntoIterRefArr c) = Soa.Zip.ofCols c := by
  obtain ⟨a, b, c, rfl⟩ := vec3_cases c
  simp [Gen.BodySoa.rgbIntoIterRefArr, toZip, Zip.ofCols, colIntoIter]

theorem tie_rgbIntoIterRefSlice (c : Cols α 3) : toZip (Gen.BodySoa.rgbIntoIterRefSlice c) = Soa.Zip.ofCols c := by
  obtain ⟨a, b, c, rfl⟩ := vec3_cases c
  simp [Gen.BodySoa.rgbIntoIterRefSlice, toZip, Zip.ofCols, colIntoIter]

theorem tie_rgbIntoIterRefSliceMut (c : Cols α 3) : toZip (Gen.BodySoa.rgbIntoIterRefSliceMut c) = Soa.Zip.ofCols c := by
  obtain ⟨a, b, c, rfl⟩ := vec3_cases c
  simp [Gen.BodySoa.rgbIntoIterRefSliceMut, toZip, Zip.ofCols, colIntoIter]

theorem tie_rgbIntoIterRefVec (c : Cols α 3) : toZip (Gen.BodySoa.rgbIntoIterRefVec c) = Soa.Zip.ofCols c := by
  obtain ⟨a, b, c, rfl⟩ := vec3_cases c
  simp [Gen.BodySoa.rgbIntoIterRefVec, toZip, Zip.ofCols, colIntoIter]

theorem tie_rgbIntoIterRefBox (c : Cols α 3) : toZip (Gen.BodySoa.rgbIntoIterRefBox c) = Soa.Zip.ofCols c := by
  obtain ⟨a, b, c, rfl⟩ := vec3_cases c
  simp [Gen.BodySoa.rgbIntoIterRefBox, toZip, Zip.ofCols, colIntoIter]

theorem tie_rgbIntoIterMutArr (c : Cols α 3) : toZip (Gen.BodySoa.rgbIntoIterMutArr c) = Soa.Zip.ofCols c := by
  obtain ⟨a, b, c, rfl⟩ := vec3_cases c
  simp [Gen.BodySoa.rgbIntoIterMutArr, toZip, Zip.ofCols, colIntoIter]

theorem tie_rgbIntoIterMutSliceMut (c : Cols α 3) : toZip (Gen.BodySoa.rgbIntoIterMutSliceMut c) = Soa.Zip.ofCols c := by
  obtain ⟨a, b, c, rfl⟩ := vec3_cases c
  simp [Gen.BodySoa.rgbIntoIterMutSliceMut, toZip, Zip.ofCols, colIntoIter]

theorem tie_rgbIntoIterMutVec (c : Cols α 3) : toZip (Gen.BodySoa.rgbIntoIterMutVec c) = Soa.Zip.ofCols c := by
  obtain ⟨a, b, c, rfl⟩ := vec3_cases c
  simp [Gen.BodySoa.rgbIntoIterMutVec, toZip, Zip.ofCols, colIntoIter]

theorem tie_rgbIntoIterMutBox (c : Cols α 3) : toZip (Gen.BodySoa.rgbIntoIterMutBox c) = Soa.Zip.ofCols c := by
  obtain ⟨a, b, c, rfl⟩ := vec3_cases c
  simp [Gen.BodySoa.rgbIntoIterMutBox, toZip, Zip.ofCols, colIntoIter]

theorem tie_rgbIter (c : Cols α 3) : toZip (Gen.BodySoa.rgbIter c) = Soa.Zip.ofCols c := tie_rgbIntoIterRefVec c

theorem tie_rgbIterMut (c : Cols α 3) : toZip (Gen.BodySoa.rgbIterMut c) = Soa.Zip.ofCols c := tie_rgbIntoIterMutVec c

theorem tie_rgbIterNext (it : Vector (ColIter α) 3) :
    (toZip (Gen.BodySoa.rgbIterNext it).1, (Gen.BodySoa.rgbIterNext it).2) = Soa.Zip.next (toZip it) none := by
  obtain ⟨a, b, c, rfl⟩ := vec3_cases it
  simp [Gen.BodySoa.rgbIterNext, Zip.next, toZip, ColIter.next, allSome3, ofFn3, map3, firstLen3, drainPanicState3, emptyCols3]
  repeat' constructor
  all_goals rfl

theorem tie_rgbIterNextBack (it : Vector (ColIter α) 3) :
    (toZip (Gen.BodySoa.rgbIterNextBack it).1, (Gen.BodySoa.rgbIterNextBack it).2) = Soa.Zip.nextBack (toZip it) none := by
  obtain ⟨a, b, c, rfl⟩ := vec3_cases it
  simp [Gen.BodySoa.rgbIterNextBack, Zip.nextBack, toZip, ColIter.nextBack, allSome3, ofFn3, map3, firstLen3, drainPanicState3, emptyCols3]
  repeat' constructor
  all_goals rfl

theorem tie_rgbIterLen (it : Vector (ColIter α) 3) : Gen.BodySoa.rgbIterLen it = Soa.Zip.len (toZip it) := by
  obtain ⟨a, b, c, rfl⟩ := vec3_cases it
  simp [Gen.BodySoa.rgbIterLen, Zip.len, toZip, ColIter.len, allSome3, ofFn3, map3, firstLen3, drainPanicState3, emptyCols3]

theorem tie_rgbIterSizeHint (it : Vector (ColIter α) 3) : Gen.BodySoa.rgbIterSizeHint it = Soa.Zip.sizeHint (toZip it) := by
  obtain ⟨a, b, c, rfl⟩ := vec3_cases it
  simp [Gen.BodySoa.rgbIterSizeHint, Zip.sizeHint, toZip, ColIter.sizeHint, allSome3, ofFn3, map3, firstLen3, drainPanicState3, emptyCols3]

theorem tie_rgbIterCount (it : Vector (ColIter α) 3) : Gen.BodySoa.rgbIterCount it = Soa.Zip.count (toZip it) := by
  obtain ⟨a, b, c, rfl⟩ := vec3_cases it
  simp [Gen.BodySoa.rgbIterCount, Zip.count, toZip, ColIter.count, allSome3, ofFn3, map3, firstLen3, drainPanicState3, emptyCols3]

/-- the same index / range goes to every column, in column order, and the result exists iff every column has one -/
theorem rgbGet_eq (s : Cols α 3) (i : Nat) : Gen.BodySoa.rgbGet s i = allSome (s.map (·[i]?)) := by
  obtain ⟨a, b, c, rfl⟩ := vec3_cases s
  simp [Gen.BodySoa.rgbGet, sliceGet, allSome3, ofFn3, map3, firstLen3, drainPanicState3, emptyCols3]
  all_goals (cases a[i]? <;> cases b[i]? <;> cases c[i]? <;> rfl)

/-- the same index / range goes to every column, in column order, and the result exists iff every column has one -/
theorem rgbGetMut_eq (s : Cols α 3) (i : Nat) : Gen.BodySoa.rgbGetMut s i = allSome (s.map (·[i]?)) := by
  obtain ⟨a, b, c, rfl⟩ := vec3_cases s
  simp [Gen.BodySoa.rgbGetMut, sliceGetMut, allSome3, ofFn3, map3, firstLen3, drainPanicState3, emptyCols3]
  all_goals (cases a[i]? <;> cases b[i]? <;> cases c[i]? <;> rfl)

/-- the same index / range goes to every column, in column order, and the result exists iff every column has one -/
theorem rgbGetRange_eq (s : Cols α 3) (i : Rng) : Gen.BodySoa.rgbGetRange s i = allSome (s.map (sliceCol i)) := by
  obtain ⟨a, b, c, rfl⟩ := vec3_cases s
  simp [Gen.BodySoa.rgbGetRange, sliceGetRange, allSome3, ofFn3, map3, firstLen3, drainPanicState3, emptyCols3]
  all_goals (cases sliceCol i a <;> cases sliceCol i b <;> cases sliceCol i c <;> rfl)

/-- the same index / range goes to every column, in column order, and the result exists iff every column has one -/
theorem rgbGetMutRange_eq (s : Cols α 3) (i : Rng) : Gen.BodySoa.rgbGetMutRange s i = allSome (s.map (splitCol i)) := by
  obtain ⟨a, b, c, rfl⟩ := vec3_cases s
  simp [Gen.BodySoa.rgbGetMutRange, sliceGetMutRange, allSome3, ofFn3, map3, firstLen3, drainPanicState3, emptyCols3]
  all_goals (cases splitCol i a <;> cases splitCol i b <;> cases splitCol i c <;> rfl)

theorem tie_rgbGet (s : Cols α 3) (i : Nat) : (s, Obs.item (Gen.BodySoa.rgbGet s i)) = Soa.step s (.get i) := by
  rw [rgbGet_eq]; rfl

theorem tie_rgbGetRange (s : Cols α 3) (r : Rng) (script : List (Step α 3)) :
    obsSlice s (Gen.BodySoa.rgbGetRange s r) script = Soa.step s (.getRange r script) := by
  rw [rgbGetRange_eq]
  simp only [Soa.step, obsSlice]
  cases allSome (s.map (sliceCol r)) <;> rfl

theorem tie_rgbGetMut (s : Cols α 3) (i : Nat) (w : Row α 3) :
    obsGetMut s (Gen.BodySoa.rgbGetMut s i) i w = Soa.step s (.getMut i w) := by
  rw [rgbGetMut_eq]
  simp only [Soa.step, obsGetMut]
  cases allSome (s.map (·[i]?)) <;> rfl

theorem tie_rgbGetMutRange (s : Cols α 3) (r : Rng) (script : List (Step α 3)) :
    obsSplit s (Gen.BodySoa.rgbGetMutRange s r) script = Soa.step s (.getMutRange r script) := by
  rw [rgbGetMutRange_eq]
  simp only [Soa.step, obsSplit]
  cases allSome (s.map (splitCol r)) <;> rfl

theorem tie_rgbWithCapacity (n : Nat) (s : Cols α 3) : Gen.BodySoa.rgbWithCapacity n = (Soa.step s .withCapacity).1 := by
  simp [Gen.BodySoa.rgbWithCapacity, Soa.step, emptyCols3, vecWithCapacity]

theorem tie_rgbPush (s : Cols α 3) (r : Row α 3) : Gen.BodySoa.rgbPush s r = (Soa.step s (.push r)).1 := by
  obtain ⟨a, b, c, rfl⟩ := vec3_cases s
  obtain ⟨ra, rb, rc, rfl⟩ := vec3_cases r
  simp [Gen.BodySoa.rgbPush, Soa.step, pushRow, vecPush]

theorem tie_rgbPop (s : Cols α 3) : obsItem (Gen.BodySoa.rgbPop s) = Soa.step s .pop := by
  obtain ⟨a, b, c, rfl⟩ := vec3_cases s
  simp [Gen.BodySoa.rgbPop, Soa.step, obsItem, vecPop, allSome3, ofFn3, map3, firstLen3, drainPanicState3, emptyCols3]
  all_goals (cases a.getLast? <;> cases b.getLast? <;> cases c.getLast? <;> first | rfl | simp)

theorem tie_rgbClear (s : Cols α 3) : Gen.BodySoa.rgbClear s = (Soa.step s .clear).1 := by
  obtain ⟨a, b, c, rfl⟩ := vec3_cases s
  simp [Gen.BodySoa.rgbClear, Soa.step, vecClear]

/-- the translated `drain`, as one case split: all columns resolve the range (every column loses it, the iterator holds what was removed), or the
    receiver is left as the model's `drainPanicState` (statement order: the columns before the first failing one are already drained) -/
theorem rgbDrain_eq (s : Cols α 3) (r : Rng) :
    Gen.BodySoa.rgbDrain s r = (match allSome (s.map (drainCol r)) with
      | some v => .ok (v.map (·.1)) (v.map fun p => colIntoIter p.2)
      | none => .panic (drainPanicState s (s.map (drainCol r)))) := by
  obtain ⟨a, b, c, rfl⟩ := vec3_cases s
  simp only [Gen.BodySoa.rgbDrain, vecDrain, allSome3, ofFn3, map3, firstLen3, drainPanicState3, emptyCols3]
  cases ha : drainCol r a <;> cases hb : drainCol r b <;> cases hc : drainCol r c <;> simp [ha, hb, hc]

theorem tie_rgbDrain (s : Cols α 3) (r : Rng) (script : List (Step α 3)) :
    obsDrain (Gen.BodySoa.rgbDrain s r) script = Soa.step s (.drain r script) := by
  rw [rgbDrain_eq]
  simp only [Soa.step]
  cases allSome (s.map (drainCol r)) with
  | none => rfl
  | some v =>
    obtain ⟨va, vb, vc, rfl⟩ := vec3_cases v
    simp [obsDrain, runRead, toZip, Zip.ofCols, colIntoIter]

theorem tie_rgbExtend (s : Cols α 3) (rs : List (Row α 3)) : Gen.BodySoa.rgbExtend s rs = (Soa.step s (.extend rs)).1 := by
  simp only [Gen.BodySoa.rgbExtend, Soa.step, extendRows, SoaPrim.forIn]
  congr 1
  funext s r
  obtain ⟨a, b, c, rfl⟩ := vec3_cases s
  obtain ⟨ra, rb, rc, rfl⟩ := vec3_cases r
  simp [pushRow, vecExtendOnce]

theorem tie_rgbFromIter (s : Cols α 3) (rs : List (Row α 3)) : Gen.BodySoa.rgbFromIter rs = (Soa.step s (.collect rs)).1 := by
  simp only [Gen.BodySoa.rgbFromIter, tie_rgbExtend, Soa.step]
  simp [emptyCols3, vecDefault]

/-! ### `Alpha<rgb<..>, ..>` -/

theorem tie_rgbaIntoIterArr (n : Nest α 3) : toNZip (Gen.BodySoa.rgbaIntoIterArr n) = Soa.NZip.ofParts n.color n.alpha := by
  simp only [Gen.BodySoa.rgbaIntoIterArr, toNZip, nzipOf, NZip.ofParts, colIntoIter]
  congr 1
  first | exact tie_rgbIntoIterArr _ | exact tie_rgbIntoIterArr _ | exact tie_rgbIntoIterRefArr _ | exact tie_rgbIntoIterMutArr _

theorem tie_rgbaIntoIterSlice (n : Nest α 3) : toNZip (Gen.BodySoa.rgbaIntoIterSlice n) = Soa.NZip.ofParts n.color n.alpha := by
  simp only [Gen.BodySoa.rgbaIntoIterSlice, toNZip, nzipOf, NZip.ofParts, colIntoIter]
  congr 1
  first | exact tie_rgbIntoIterSlice _ | exact tie_rgbIntoIterSlice _ | exact tie_rgbIntoIterRefSlice _ | exact tie_rgbIntoIterMutSlice _

theorem tie_rgbaIntoIterSliceMut (n : Nest α 3) : toNZip (Gen.BodySoa.rgbaIntoIterSliceMut n) = Soa.NZip.ofParts n.color n.alpha := by
  simp only [Gen.BodySoa.rgbaIntoIterSliceMut, toNZip, nzipOf, NZip.ofParts, colIntoIter]
  congr 1
  first | exact tie_rgbIntoIterSliceMut _ | exact tie_rgbIntoIterSliceMut _ | exact tie_rgbIntoIterRefSliceMut _ | exact tie_rgbIntoIterMutSliceMut _

theorem tie_rgbaIntoIterVec (n : Nest α 3) : toNZip (Gen.BodySoa.rgbaIntoIterVec n) = Soa.NZip.ofParts n.color n.alpha := by
  simp only [Gen.BodySoa.rgbaIntoIterVec, toNZip, nzipOf, NZip.ofParts, colIntoIter]
  congr 1
  first | exact tie_rgbIntoIterVec _ | exact tie_rgbIntoIterVec _ | exact tie_rgbIntoIterRefVec _ | exact tie_rgbIntoIterMutVec _

theorem tie_rgbaIntoIterRefArr (n : Nest α 3) : toNZip (Gen.BodySoa.rgbaIntoIterRefArr n) = Soa.NZip.ofParts n.color n.alpha := by
  simp only [Gen.BodySoa.rgbaIntoIterRefArr, toNZip, nzipOf, NZip.ofParts, colIntoIter]
  congr 1
  first | exact tie_rgbIntoIterRefArr _ | exact tie_rgbIntoIterArr _ | exact tie_rgbIntoIterRefArr _ | exact tie_rgbIntoIterMutArr _

theorem tie_rgbaIntoIterRefSlice (n : Nest α 3) : toNZip (Gen.BodySoa.rgbaIntoIterRefSlice n) = Soa.NZip.ofParts n.color n.alpha := by
  simp only [Gen.BodySoa.rgbaIntoIterRefSlice, toNZip, nzipOf, NZip.ofParts, colIntoIter]
  congr 1
  first | exact tie_rgbIntoIterRefSlice _ | exact tie_rgbIntoIterSlice _ | exact tie_rgbIntoIterRefSlice _ | exact tie_rgbIntoIterMutSlice _

theorem tie_rgbaIntoIterRefSliceMut (n : Nest α 3) : toNZip (Gen.BodySoa.rgbaIntoIterRefSliceMut n) = Soa.NZip.ofParts n.color n.alpha := by
  simp only [Gen.BodySoa.rgbaIntoIterRefSliceMut, toNZip, nzipOf, NZip.ofParts, colIntoIter]
  congr 1
  first | exact tie_rgbIntoIterRefSliceMut _ | exact tie_rgbIntoIterSliceMut _ | exact tie_rgbIntoIterRefSliceMut _ | exact tie_rgbIntoIterMutSliceMut _

theorem tie_rgbaIntoIterRefVec (n : Nest α 3) : toNZip (Gen.BodySoa.rgbaIntoIterRefVec n) = Soa.NZip.ofParts n.color n.alpha := by
  simp only [Gen.BodySoa.rgbaIntoIterRefVec, toNZip, nzipOf, NZip.ofParts, colIntoIter]
  congr 1
  first | exact tie_rgbIntoIterRefVec _ | exact tie_rgbIntoIterVec _ | exact tie_rgbIntoIterRefVec _ | exact tie_rgbIntoIterMutVec _

theorem tie_rgbaIntoIterRefBox (n : Nest α 3) : toNZip (Gen.BodySoa.rgbaIntoIterRefBox n) = Soa.NZip.ofParts n.color n.alpha := by
  simp only [Gen.BodySoa.rgbaIntoIterRefBox, toNZip, nzipOf, NZip.ofParts, colIntoIter]
  congr 1
  first | exact tie_rgbIntoIterRefBox _ | exact tie_rgbIntoIterBox _ | exact tie_rgbIntoIterRefBox _ | exact tie_rgbIntoIterMutBox _

theorem tie_rgbaIntoIterMutArr (n : Nest α 3) : toNZip (Gen.BodySoa.rgbaIntoIterMutArr n) = Soa.NZip.ofParts n.color n.alpha := by
  simp only [Gen.BodySoa.rgbaIntoIterMutArr, toNZip, nzipOf, NZip.ofParts, colIntoIter]
  congr 1
  first | exact tie_rgbIntoIterMutArr _ | exact tie_rgbIntoIterArr _ | exact tie_rgbIntoIterRefArr _ | exact tie_rgbIntoIterMutArr _

theorem tie_rgbaIntoIterMutSliceMut (n : Nest α 3) : toNZip (Gen.BodySoa.rgbaIntoIterMutSliceMut n) = Soa.NZip.ofParts n.color n.alpha := by
  simp only [Gen.BodySoa.rgbaIntoIterMutSliceMut, toNZip, nzipOf, NZip.ofParts, colIntoIter]
  congr 1
  first | exact tie_rgbIntoIterMutSliceMut _ | exact tie_rgbIntoIterSliceMut _ | exact tie_rgbIntoIterRefSliceMut _ | exact tie_rgbIntoIterMutSliceMut _

theorem tie_rgbaIntoIterMutVec (n : Nest α 3) : toNZip (Gen.BodySoa.rgbaIntoIterMutVec n) = Soa.NZip.ofParts n.color n.alpha := by
  simp only [Gen.BodySoa.rgbaIntoIterMutVec, toNZip, nzipOf, NZip.ofParts, colIntoIter]
  congr 1
  first | exact tie_rgbIntoIterMutVec _ | exact tie_rgbIntoIterVec _ | exact tie_rgbIntoIterRefVec _ | exact tie_rgbIntoIterMutVec _

theorem tie_rgbaIntoIterMutBox (n : Nest α 3) : toNZip (Gen.BodySoa.rgbaIntoIterMutBox n) = Soa.NZip.ofParts n.color n.alpha := by
  simp only [Gen.BodySoa.rgbaIntoIterMutBox, toNZip, nzipOf, NZip.ofParts, colIntoIter]
  congr 1
  first | exact tie_rgbIntoIterMutBox _ | exact tie_rgbIntoIterBox _ | exact tie_rgbIntoIterRefBox _ | exact tie_rgbIntoIterMutBox _

theorem tie_rgbaWithCapacity (c : Nat) (n : Nest α 3) : Gen.BodySoa.rgbaWithCapacity c = (Soa.nstep n .withCapacity).1 := by
  simp only [Gen.BodySoa.rgbaWithCapacity, Soa.nstep, tie_rgbWithCapacity c n.color]
  rfl

theorem tie_rgbaPush (n : Nest α 3) (r : Row α (3 + 1)) : Gen.BodySoa.rgbaPush n r = (Soa.nstep n (.push r)).1 := by
  simp only [Gen.BodySoa.rgbaPush, Soa.nstep, tie_rgbPush]
  rfl

theorem tie_rgbaPop (n : Nest α 3) : obsItemN (Gen.BodySoa.rgbaPop n) = Soa.nstep n .pop := by
  have h := tie_rgbPop n.color
  simp only [obsItem] at h
  simp only [Gen.BodySoa.rgbaPop, Soa.nstep, obsItemN, vecPop, ← h, itemOf]
  cases (Gen.BodySoa.rgbPop n.color).2 <;> cases n.alpha.getLast? <;> rfl

theorem tie_rgbaClear (n : Nest α 3) : Gen.BodySoa.rgbaClear n = (Soa.nstep n .clear).1 := by
  simp only [Gen.BodySoa.rgbaClear, Soa.nstep, tie_rgbClear]
  rfl

theorem tie_rgbaDrain (n : Nest α 3) (r : Rng) (script : List (Step α (3 + 1))) :
    obsDrainN (Gen.BodySoa.rgbaDrain n r) script = Soa.nstep n (.drain r script) := by
  simp only [Gen.BodySoa.rgbaDrain, Soa.nstep, Soa.step, rgbDrain_eq, vecDrain]
  cases allSome (n.color.map (drainCol r)) with
  | none => rfl
  | some v =>
    cases drainCol r n.alpha with
    | none => rfl
    | some pa =>
      obtain ⟨va, vb, vc, rfl⟩ := vec3_cases v
      simp [obsDrainN, nrunRead, toNZip, nzipOf, NZip.ofParts, toZip, Zip.ofCols, colIntoIter]

theorem tie_rgbaGet (n : Nest α 3) (i : Nat) : (n, Obs.item (Gen.BodySoa.rgbaGet n i)) = Soa.nstep n (.get i) := by
  simp only [Gen.BodySoa.rgbaGet, Soa.nstep, Soa.step, sliceGet, rgbGet_eq, itemOf]
  cases allSome (n.color.map (·[i]?)) <;> cases n.alpha[i]? <;> rfl

theorem tie_rgbaGetRange (n : Nest α 3) (r : Rng) (script : List (Step α (3 + 1))) :
    obsSliceN n (Gen.BodySoa.rgbaGetRange n r) script = Soa.nstep n (.getRange r script) := by
  simp only [Gen.BodySoa.rgbaGetRange, Soa.nstep, sliceGetRange, rgbGetRange_eq]
  cases allSome (n.color.map (sliceCol r)) <;> cases sliceCol r n.alpha <;> rfl

theorem tie_rgbaGetMut (n : Nest α 3) (i : Nat) (w : Row α (3 + 1)) :
    obsGetMutN n (Gen.BodySoa.rgbaGetMut n i) i w = Soa.nstep n (.getMut i w) := by
  simp only [Gen.BodySoa.rgbaGetMut, Soa.nstep, Soa.step, sliceGetMut, rgbGetMut_eq, itemOf]
  cases h : allSome (n.color.map (·[i]?)) <;> cases n.alpha[i]? <;> first | rfl | simp [obsGetMutN, h]

theorem tie_rgbaGetMutRange (n : Nest α 3) (r : Rng) (script : List (Step α (3 + 1))) :
    obsSplitN n (Gen.BodySoa.rgbaGetMutRange n r) script = Soa.nstep n (.getMutRange r script) := by
  simp only [Gen.BodySoa.rgbaGetMutRange, Soa.nstep, sliceGetMutRange, rgbGetMutRange_eq]
  cases allSome (n.color.map (splitCol r)) <;> cases splitCol r n.alpha <;> rfl

end Tie
