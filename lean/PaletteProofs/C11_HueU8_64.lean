/-
  C11 — **float hue → 8-bit hue, for every `Float` (binary64) with |x| ≤ 2^20** (`FromAngle<f64> for u8`, `Hue.Bits.f64ToU8`).
  Port of `C11_HueU8.lean` (same statements, same `codeQ`): with `U = normU64 x`, `q = R64 (U/360)`,
      f64ToU8 x = codeQ q = let r := ⌊256·q + ½⌋; if 256 ≤ r then 0 else r,
  the code is at most 255, `r` is within `½ + 2^-45` of `256·U/360` for `U ≥ 0` (nearest code), the code is `0` exactly from
  `256·q ≥ 255.5` on (wrap), it is monotone in the normal form up to the wrap and monotone on the floats `0 ≤ x ≤ y < 359.296875`.
-/
import PaletteProofs.C11_HueAll64
import PaletteProofs.C11_HueU8
import PaletteProofs.Lemmas.RoundHalf
import PaletteProofs.Lemmas.HueScan64

namespace C11
open Hue.Bits Float.Model Float.Model.UnpackedFloat Ieee Ieee.F64

/-- `toUInt8` of a finite `Float` with a natural-number value `≤ 255` -/
theorem toUInt8_nat64 {x : Float} (hx : IsFin x) {n : ℕ} (hn : v x = n) (hle : n ≤ 255) : x.toUInt8.toNat = n := by
  show (UnpackedFloat.toUInt8 (U x)).toNat = n
  unfold UnpackedFloat.toUInt8
  rw [toInt_of_nonneg hx (by show 0 ≤ v x; rw [hn]; positivity)]
  have : ⌊val (U x)⌋ = (n : ℤ) := by show ⌊v x⌋ = _; rw [hn]; simp
  rw [this, Int.toNat_natCast, UInt8.ofNatClamp_eq_ofNat _ (by show n < 256; omega), UInt8.toNat_ofNat_of_lt' (by show n < 256; omega)]

theorem fin_c256d : IsFin c256d := rfl
theorem v_c256d : v c256d = 2^8 := by
  unfold v; rw [show U c256d = .finite .positive 0x10000000000000 (-44) (by decide) from rfl]; norm_num [val, sgn]
def c2555d : Float := Float.ofBits 0x406ff00000000000
theorem fin_c2555d : IsFin c2555d := rfl
theorem v_c2555d : v c2555d = 511 / 2 := by
  unfold v; rw [show U c2555d = .finite .positive 0x1ff00000000000 (-45) (by decide) from rfl]; norm_num [val, sgn]

theorem f64ToU8_eq (x : Float) : f64ToU8 x =
    if c2555d < Stim.round64 ((normU64 x / c360d) * c256d) then 0
    else (Stim.round64 ((normU64 x / c360d) * c256d)).toUInt8.toNat := rfl

/-- `as u8` of a finite non-positive float is `0` -/
theorem toUInt8_nonpos64 {x : Float} (hx : IsFin x) (h : v x ≤ 0) : x.toUInt8.toNat = 0 := by
  show (UnpackedFloat.toUInt8 (U x)).toNat = 0
  unfold UnpackedFloat.toUInt8
  have := toInt_of_nonpos hx h 0 (UInt8.size - 1)
  have h0 : ((U x).toInt 0 (UInt8.size - 1)).toNat = 0 := by omega
  rw [h0]; rfl

/-- the pipeline after the normal form, on variable floats -/
theorem u8_pipe64 {u c360 c256 c255 : Float} (fu : IsFin u) (hu0 : -1 ≤ v u) (hu1 : v u ≤ 360)
    (f360 : IsFin c360) (v360 : v c360 = 360) (f256 : IsFin c256) (v256 : v c256 = 2^8)
    (f255 : IsFin c255) (v255 : v c255 = 511 / 2) :
    (if c255 < Stim.round64 ((u / c360) * c256) then 0 else (Stim.round64 ((u / c360) * c256)).toUInt8.toNat) =
      codeQ (R64 (v u / 360)) := by
  have habs : |v u / 360| ≤ 1 := by
    rw [abs_le]; constructor
    · rw [le_div_iff₀ (by norm_num)]; linarith
    · rw [div_le_iff₀ (by norm_num)]; linarith
  obtain ⟨fq, vq⟩ := div_of_le fu f360 (by rw [v360]; norm_num) (n := 1) (by norm_num) (by rw [v360]; simpa using habs)
  rw [v360] at vq
  set q := R64 (v u / 360) with hq
  have hq1 : |q| ≤ 1 := by
    have := R64_abs_le_nat (n := 1) (by norm_num) (by simpa using habs)
    simpa using this
  have hq1' := abs_le.mp hq1
  obtain ⟨fp, vp⟩ := mul_of_le fq f256 (n := 256) (by norm_num) (by
    rw [vq, v256, abs_mul]; norm_num; linarith)
  rw [v256, R64_scale_up' fq 8, vq] at vp
  have vp' : v ((u / c360) * c256) = 256 * q := by rw [vp]; norm_num; ring
  unfold codeQ
  rcases lt_or_ge q 0 with hneg | hpos
  · -- a negative quotient: `round` returns its argument, `as u8` gives 0
    have hpneg : v ((u / c360) * c256) < 0 := by rw [vp']; linarith
    rw [StimSpec.round64_neg fp hpneg]
    have hnlt : ¬ c255 < (u / c360) * c256 := by
      intro h; have := (lt_iff f255 fp).mp h; rw [v255] at this; linarith
    rw [if_neg hnlt, toUInt8_nonpos64 fp hpneg.le]
    have hfl : ⌊256 * q + 1 / 2⌋ ≤ 0 := by
      rw [← Int.lt_add_one_iff, Int.floor_lt]; push_cast; linarith
    rw [if_neg (by omega)]; omega
  · obtain ⟨fr, vr⟩ := StimSpec.round64_spec fp (by rw [vp']; linarith)
    rw [vp'] at vr
    have hfl0 : 0 ≤ ⌊256 * q + 1 / 2⌋ := Int.floor_nonneg.mpr (by linarith)
    have hfl1 : ⌊256 * q + 1 / 2⌋ ≤ 256 := by
      have : ⌊256 * q + 1 / 2⌋ ≤ ⌊((256 : ℤ) : ℚ) + 1 / 2⌋ := Int.floor_mono (by push_cast; linarith)
      rwa [StimSpec.floor_add_half_int] at this
    by_cases hw : 256 ≤ ⌊256 * q + 1 / 2⌋
    · rw [if_pos hw, if_pos]
      rw [lt_iff f255 fr, v255, vr]
      have : ((256 : ℤ) : ℚ) ≤ (⌊256 * q + 1 / 2⌋ : ℚ) := by exact_mod_cast hw
      push_cast at this; linarith
    · rw [if_neg hw, if_neg]
      · apply toUInt8_nat64 fr _ (by omega)
        rw [vr]
        have : ((⌊256 * q + 1 / 2⌋.toNat : ℕ) : ℤ) = ⌊256 * q + 1 / 2⌋ := by omega
        exact_mod_cast this.symm
      · rw [lt_iff f255 fr, v255, vr, not_lt]
        have : (⌊256 * q + 1 / 2⌋ : ℚ) ≤ ((255 : ℤ) : ℚ) := by exact_mod_cast (by omega : ⌊256 * q + 1 / 2⌋ ≤ 255)
        push_cast at this; linarith

/-- the spacing of binary32 at an angle of magnitude at most `2^20` is at most `2^-3` -/
theorem ulp64_le_of_abs_le {X : ℚ} (h : |X| ≤ 2^20) : ulp64 X ≤ 2^(-32 : ℤ) := by
  unfold ulp64 ulp
  split_ifs with h0
  · exact zpow_le_zpow_right₀ (by norm_num) (by norm_num)
  · apply zpow_le_zpow_right₀ (by norm_num)
    have h1 : texp 53 (-1074) X ≤ texp 53 (-1074) ((2 : ℚ)^(20 : ℤ)) :=
      texp_mono_abs h0 (by rw [abs_of_pos (a := (2 : ℚ)^(20 : ℤ)) (by positivity)]; exact_mod_cast h)
    have h2 : texp 53 (-1074) ((2 : ℚ)^(20 : ℤ)) = -32 := by
      unfold texp
      rw [abs_of_pos (by positivity), show ((2 : ℚ)^(20 : ℤ)) = (((2 : ℕ) : ℚ))^(20 : ℤ) by norm_num, Int.log_zpow (by norm_num)]
      norm_num
    omega

theorem normU64_ge_neg_one {x : Float} (hx : IsFin x) (hb : |v x| ≤ 2^20) : -1 ≤ v (normU64 x) := by
  have h := (normU64_range_all x hx hb).1
  have h1 := ulp64_le_of_abs_le hb
  have h2 : (360 : ℚ) * 2^(-1074 : ℤ) ≤ 1 / 2 := by
    have : (2 : ℚ)^(-1074 : ℤ) ≤ 2^(-10 : ℤ) := zpow_le_zpow_right₀ (by norm_num) (by norm_num)
    have e : (2 : ℚ)^(-10 : ℤ) = 1 / 1024 := by norm_num
    rw [e] at this; linarith
  have h3 : ulp64 (v x) ≤ 1 / 8 := by
    have e : (2 : ℚ)^(-32 : ℤ) ≤ 1 / 8 := by
      have : (2 : ℚ)^(-32 : ℤ) ≤ 2^(-3 : ℤ) := zpow_le_zpow_right₀ (by norm_num) (by norm_num)
      have e3 : (2 : ℚ)^(-3 : ℤ) = 1 / 8 := by norm_num
      rw [e3] at this; exact this
    exact le_trans h1 e
  generalize ulp64 (v x) = a at h h3
  generalize (360 : ℚ) * 2^(-1074 : ℤ) = b at h h2
  linarith

/-- **closed form of the float → `u8` hue conversion** -/
theorem f64ToU8_closed_form : ∀ x : Float, IsFin x → |v x| ≤ 2^20 → f64ToU8 x = codeQ (R64 (v (normU64 x) / 360)) := by
  intro x hx hb
  rw [f64ToU8_eq]
  exact u8_pipe64 (normU64_closed_form hx hb).1 (normU64_ge_neg_one hx hb) (normU64_range_all x hx hb).2
    fin_c360d v_c360d fin_c256d v_c256d fin_c2555d v_c2555d

/-- the circle is mapped onto `0..=255` -/
theorem f64ToU8_le_255 : ∀ x : Float, IsFin x → |v x| ≤ 2^20 → f64ToU8 x ≤ 255 := by
  intro x hx hb; rw [f64ToU8_closed_form x hx hb]; exact codeQ_le _

/-- **nearest code**: the code is `r mod 256` for an integer `r ∈ [0, 256]` within `½ + 2^-16` of `256·U/360` -/
theorem f64ToU8_nearest_all : ∀ x : Float, IsFin x → |v x| ≤ 2^20 → 0 ≤ v (normU64 x) →
    ∃ r : ℤ, 0 ≤ r ∧ r ≤ 256 ∧ |(r : ℚ) - 256 * (v (normU64 x) / 360)| ≤ 1 / 2 + 2^(-45 : ℤ) ∧
      f64ToU8 x = (if 256 ≤ r then 0 else r.toNat) := by
  intro x hx hb h0
  have h1 := (normU64_range_all x hx hb).2
  set Uv := v (normU64 x) with hU
  have hz0 : 0 ≤ Uv / 360 := by positivity
  have hz1 : Uv / 360 ≤ 1 := by rw [div_le_iff₀ (by norm_num)]; linarith
  set q := R64 (Uv / 360) with hq
  have hq0 : 0 ≤ q := R_nonneg hz0
  have hq1 : q ≤ 1 := by
    have := R64_mono hz1
    rwa [show (1 : ℚ) = ((1 : ℕ) : ℚ) by norm_num, R64_natCast (by norm_num)] at this
  have herr : |q - Uv / 360| ≤ 2^(-53 : ℤ) := by
    have := R_error_le (p := 53) (emin := -1074) (x := Uv / 360) (k := 1) (by rw [abs_of_nonneg hz0]; norm_num; linarith)
    have e : max ((1 : ℤ) - ((53 : ℕ) : ℤ)) (-1074) = -52 := by norm_num
    rw [e] at this
    calc _ ≤ (2 : ℚ)^(-52 : ℤ) / 2 := this
      _ = 2^(-53 : ℤ) := by rw [show (-52 : ℤ) = -53 + 1 by norm_num, zpow_add₀ (by norm_num)]; ring
  refine ⟨⌊256 * q + 1 / 2⌋, Int.floor_nonneg.mpr (by linarith), ?_, ?_, ?_⟩
  · have : ⌊256 * q + 1 / 2⌋ ≤ ⌊((256 : ℤ) : ℚ) + 1 / 2⌋ := Int.floor_mono (by push_cast; linarith)
    rwa [StimSpec.floor_add_half_int] at this
  · have hfl0 := Int.floor_le (256 * q + 1 / 2)
    have hfl1 := Int.lt_floor_add_one (256 * q + 1 / 2)
    have herr' := abs_le.mp herr
    have e16 : (2 : ℚ)^(-45 : ℤ) = 256 * 2^(-53 : ℤ) := by
      rw [show (-45 : ℤ) = 8 + -53 by norm_num, zpow_add₀ (by norm_num)]; norm_num
    rw [e16, abs_le]; constructor <;> linarith [herr'.1, herr'.2]
  · rw [f64ToU8_closed_form x hx hb]; rfl

/-- **wrap at 255.5**: the code is the integer `⌊256 q + ½⌋` itself below the threshold, and `0` from `256·q ≥ 255.5` on -/
theorem f64ToU8_wrap : ∀ x : Float, IsFin x → |v x| ≤ 2^20 →
    (511 / 2 ≤ 256 * R64 (v (normU64 x) / 360) → f64ToU8 x = 0) ∧
    (256 * R64 (v (normU64 x) / 360) < 511 / 2 → f64ToU8 x = ⌊256 * R64 (v (normU64 x) / 360) + 1 / 2⌋.toNat) := by
  intro x hx hb
  rw [f64ToU8_closed_form x hx hb]; unfold codeQ
  constructor
  · intro h
    rw [if_pos]; rw [Int.le_floor]; push_cast; linarith
  · intro h
    rw [if_neg]; rw [not_le, Int.floor_lt]; push_cast; linarith

/-- **monotone in the normal form, up to the wrap** -/
theorem f64ToU8_monotone_all : ∀ x y : Float, IsFin x → |v x| ≤ 2^20 → IsFin y → |v y| ≤ 2^20 →
    v (normU64 x) ≤ v (normU64 y) → 256 * R64 (v (normU64 y) / 360) < 511 / 2 → f64ToU8 x ≤ f64ToU8 y := by
  intro x y hx hbx hy hby hle hw
  rw [f64ToU8_closed_form x hx hbx, f64ToU8_closed_form y hy hby]
  apply codeQ_mono
  · exact R64_mono (div_le_div_of_nonneg_right hle (by norm_num))
  · rw [Int.floor_lt]; push_cast; linarith

/-! ### on angles in `[0, 359.296875)` -/

/-- below the wrap angle the quotient does not reach one turn and the unsigned normal form is the angle itself -/
theorem normU64_id {x : Float} (hx : IsFin x) (h0 : 0 ≤ v x) (h1 : v x ≤ 359.296875) : v (normU64 x) = v x := by
  have hb : |v x| ≤ 2^20 := by rw [abs_of_nonneg h0]; norm_num at h1 ⊢; linarith
  obtain ⟨_, hcf, _⟩ := normU64_closed_form hx hb
  have hc : R64 ((511 : ℚ) / 512) = 511 / 512 := by
    have := R_fix (p := spec.mantissaBits) (emin := spec.minExponent) (n := 511) (t := -9) (by decide) (by decide)
    norm_num at this ⊢; exact this
  have hq0 : 0 ≤ R64 (v x / 360) := R_nonneg (by positivity)
  have hq1 : R64 (v x / 360) ≤ 511 / 512 := by
    have := R64_mono (show v x / 360 ≤ 511 / 512 by rw [div_le_iff₀ (by norm_num)]; norm_num at h1 ⊢; linarith)
    rwa [hc] at this
  have hk : ⌊R64 (v x / 360)⌋ = 0 := by
    rw [Int.floor_eq_iff]; constructor
    · simpa using hq0
    · norm_num; linarith
  rw [hcf, hk]
  simp only [Int.cast_zero, mul_zero, sub_zero]
  exact R_val_of_canon spec (canon_U x)

/-- a float below `359.296875 = 11773·2^-5` (spacing `2^-15` there) is at most `359.296875 − 2^-15` -/
theorem le_pred_wrap64 {y : Float} (hy : IsFin y) (h : v y < 359.296875) : v y ≤ 359.296875 - 2^(-44 : ℤ) := by
  rcases le_or_gt (v y) 256 with hs | hs
  · have : (2 : ℚ)^(-44 : ℤ) ≤ 1 := zpow_le_one_of_nonpos₀ (by norm_num) (by norm_num)
    norm_num at hs ⊢; linarith
  have hc := canon_U y
  unfold IsFin v at *
  cases hu : U y <;> rw [hu] at hy hc h hs <;> simp only [UnpackedFloat.isFinite, Bool.false_eq_true] at hy
  · simp [val] at hs; norm_num at hs
  · rename_i s m e hm
    cases s
    · rw [val_neg_eq] at hs; have := mag_pos hm e; linarith
    · rw [val_pos_eq] at h hs ⊢
      have cm : CanonME spec m e := hc
      have c256 : CanonME spec (2^52) (-44) := ⟨by decide, by decide, Or.inr (Or.inl (by decide))⟩
      have cT : CanonME spec 6320817470177280 (-44) := ⟨by decide, by decide, Or.inr (Or.inl (by decide))⟩
      have h256 : mag (2^52) (-44) = 256 := by unfold mag; norm_num
      have hT : mag 6320817470177280 (-44) = 359.296875 := by unfold mag; norm_num
      obtain ⟨e1, _⟩ := grid64 c256 cm (by norm_num) (by rw [h256]; exact hs)
      obtain ⟨e2, hg⟩ := grid64 cm cT hm (by rw [hT]; exact h)
      have he : e = -44 := by omega
      subst he
      rw [hT] at hg; linarith

/-- **monotone on the angles below the wrap point**: `0 ≤ x ≤ y < 359.296875` ⟹ `code x ≤ code y` -/
theorem f64ToU8_monotone_angles : ∀ x y : Float, IsFin x → IsFin y → 0 ≤ v x → v x ≤ v y → v y < 359.296875 →
    f64ToU8 x ≤ f64ToU8 y := by
  intro x y hx hy h0 hxy hyT
  have hy' := le_pred_wrap64 hy hyT
  have hbx : |v x| ≤ 2^20 := by rw [abs_of_nonneg h0]; norm_num at hyT ⊢; linarith
  have hby : |v y| ≤ 2^20 := by rw [abs_of_nonneg (le_trans h0 hxy)]; norm_num at hyT ⊢; linarith
  have hnx := normU64_id hx h0 (by linarith)
  have hny := normU64_id hy (le_trans h0 hxy) hyT.le
  apply f64ToU8_monotone_all x y hx hbx hy hby (by rw [hnx, hny]; exact hxy)
  rw [hny]
  -- y/360 ≤ 511/512 − 2^-24, a float
  have hc : R64 ((511 : ℚ) / 512 - 2^(-53 : ℤ)) = 511 / 512 - 2^(-53 : ℤ) := by
    have := R_fix (p := spec.mantissaBits) (emin := spec.minExponent) (n := 511 * 2^44 - 1) (t := -53) (by decide) (by decide)
    norm_num at this ⊢; exact this
  have hle : v y / 360 ≤ 511 / 512 - 2^(-53 : ℤ) := by
    rw [div_le_iff₀ (by norm_num)]; norm_num at hy' ⊢; linarith
  have := R64_mono hle
  rw [hc] at this
  norm_num at this ⊢; linarith

example : IsFin (Float.ofBits 0x407674c000000000) ∧ v (Float.ofBits 0x407674c000000000) = 359.296875 := by
  refine ⟨rfl, ?_⟩
  unfold v; rw [show U (Float.ofBits 0x407674c000000000) = .finite .positive 0x1674c000000000 (-44) (by decide) from rfl]; norm_num [val, sgn]

end C11
